/-
  LzProofs.GenGSAPLemmas — the translated `(*gsap).sort` of gsap.go (topic GSAPParse of tools/extract, code_opq.go;
  LzModel/Generated/CodeGSAPParse.lean) equals the word-level `GsapBits.gsapSortW`, and the inner loop of `Parse`
  (`for i++; i < litIndex; i++ { s.bits.insert(int(s.isa[i])) }`) equals `GsapBits.insertRanksW`.

  OPAQUE state-passing callees (eighth part of the translator) and the hypotheses under which they enter:

    suffix_Sort   : Slice → GSlice Int32 → Res (GSlice Int32)         `suffix.Sort(t, sa)` (DivSufSort, not modelled)
      SortSpec    for a well-formed `t` with `len(t) ≤ MaxInt32` and a well-formed `sa` with `len(sa) = len(t)`: no panic,
                  `len(sa)` unchanged, and the ELEMENTS it leaves in `sa` are `saSpec t` as int32 values
    bitset_insert : bitset → List Int → Res bitset                    `(*bitset).insert(i ...int)` (variadic, `support`)
      InsertSpec  for a well-formed bitset and non-negative arguments `js`: the result is `BitsetW.insert` of the
                  abstraction (`none` ↦ panic; `BitsetProps.insert_members`: never `none` on a well-formed bitset)
    lcp           : Slice → Slice → Int                                `lcp(p, q)` (bytes.go), pure
      LcpSpec     = `lcpLen` of the elements (GenBUPParseLemmas; what `BytesW.lcpW?_eq` proves of the word-level `lcp`)

  Abstraction: `ofGW s : GsapDW` = (`absI32 s.sa`, `absI32 s.isa`, `ofBS s.bits`) — the int32 slices as arrays of naturals
  (elements only), the Go bitset as `BitsetW` (whole backing array, length, offset).

    sort_loop1_eq   `for i, j := range s.sa { s.isa[j] = int32(i) }` = `invertSteps` on ANY previous contents of `isa`
    ranks_loop_eq   a loop `for ; i < b; i++ { s.bits.insert(int(s.isa[i])) }` (through its defining equation) = `insertRanksW`
    gen_gsap_sort   translated `sort` = `gsapSortW`
  No sorry, no axioms of its own.
-/
import LzModel.Generated.CodeGSAPParse
import LzProofs.GsapBits
import LzProofs.GenBitsetProps
import LzProofs.GenSuffixProps
import LzProofs.GenBUPParseLemmas
import LzProofs.GenBufProps

set_option linter.unusedSimpArgs false
set_option linter.unusedVariables false

namespace LZ.GenGSAP
open LZ LZ.Gen LZ.GenBuf LZ.GenHash LZ.GenSuffix LZ.GenBitset LZ.GsapBits

/-! ## the opaque callees -/

/-- the specification assumed for `suffix.Sort(t, sa)` -/
def SortSpec (suffix_Sort : Slice → GSlice Int32 → Res (GSlice Int32)) : Prop :=
  ∀ (t : Slice) (sa : GSlice Int32), SWF t → GWF sa → sa.len = t.len → t.len ≤ 2147483647 →
    ∃ sa', suffix_Sort t sa = Res.ok sa' ∧ GWF sa' ∧ sa'.len = sa.len ∧
      sa'.data = (saSpec t.data).map (fun (k : Nat) => Int32.ofInt (k : Int))

/-- the specification assumed for `(*bitset).insert(js...)`, `js` non-negative -/
def InsertSpec (bitset_insert : Gen.bitset → List Int → Res Gen.bitset) : Prop :=
  ∀ (b : Gen.bitset) (js : List Nat), BSWF b →
    match (ofBS b).insert js with
    | some w => ∃ b', bitset_insert b (js.map fun (j : Nat) => (j : Int)) = Res.ok b' ∧ ofBS b' = w ∧ BSWF b'
    | none => bitset_insert b (js.map fun (j : Nat) => (j : Int)) = Res.panic

/-- the word-level dictionary a Go `gsap` stands for -/
def ofGW (s : Gen.gsap) : GsapDW := { sa := absI32 s.sa, isa := absI32 s.isa, bits := ofBS s.bits }

theorem winv_of_bswf {b : Gen.bitset} (h : BSWF b) : BitsetW.WInv (ofBS b) := by
  have := h.1
  unfold GWF at this
  simpa [BitsetW.WInv, ofBS] using this

/-- one insert through the opaque callee -/
theorem insert_one (BI : Gen.bitset → List Int → Res Gen.bitset) (hBI : InsertSpec BI) (b : Gen.bitset) (h : BSWF b)
    (j : Nat) :
    ∃ b' w', BI b [(j : Int)] = Res.ok b' ∧ (ofBS b).insert [j] = some w' ∧ ofBS b' = w' ∧ BSWF b' := by
  have := hBI b [j] h
  obtain ⟨w', e, _, _⟩ := BitsetW.insert_members (ofBS b) (winv_of_bswf h) [j]
  rw [e] at this
  obtain ⟨b', e1, e2, e3⟩ := this
  exact ⟨b', w', e1, e, e2, e3⟩

/-- reading an element of a non-negative int32 slice: Go value = model value -/
theorem read_i32 (x : GSlice Int32) (hx : GWF x) (hn : NonNeg x) (i : Nat) (hi : i < x.len) :
    ((x.arr[i]?).getD 0).toInt = (((absI32 x).getD i 0 : Nat) : Int) := by
  rw [absI32_getD hx i hi]
  unfold i32n
  have := hn i hi
  omega

/-! ## `for ; i < b; i++ { s.bits.insert(int(s.isa[i])) }` -/

/-- A translated loop with state `(s, i)` whose body is `s.bits.insert(int(s.isa[i])); i++` and whose guard is
    `i < b` — given through its DEFINING EQUATION (`heq`, instantiated per loop by `fun … => by rw [loop]`) —
    is `insertRanksW` on the abstraction; sa, isa and everything else are untouched. -/
theorem ranks_loop_eq (BI : Gen.bitset → List Int → Res Gen.bitset) (hBI : InsertSpec BI)
    (loopF : Nat → Gen.gsap → Int → Res (Gen.gsap × Int)) (bnd : Gen.gsap → Int)
    (hbnd : ∀ s r, bnd { s with bits := r } = bnd s) (b : Nat)
    (heq : ∀ fuel s i, loopF (fuel + 1) s i =
      if i < bnd s then
        Res.bind (GSlice.index (0 : Int32) s.isa i) fun t_1 =>
        Res.bind (BI s.bits [t_1.toInt]) fun r_2 =>
        loopF fuel { s with bits := r_2 } (i + 1)
      else Res.ok (s, i)) :
    ∀ (n fuel a : Nat) (ia : Int) (s : Gen.gsap), bnd s = (b : Int) → a + n = b ∨ (n = 0 ∧ b ≤ a) → ia = (a : Int) → n + 1 ≤ fuel →
      GWF s.isa → NonNeg s.isa → b ≤ s.isa.len ∨ n = 0 → BSWF s.bits →
      ∃ bits' w', loopF fuel s ia = Res.ok ({ s with bits := bits' }, ((a + n : Nat) : Int)) ∧
        insertRanksW (absI32 s.isa) (ofBS s.bits) a n = some w' ∧ ofBS bits' = w' ∧ BSWF bits' := by
  intro n
  induction n with
  | zero =>
    intro fuel a ia s hbs0 hab hia hf hw hnn hb hbs
    obtain ⟨fu, rfl⟩ : ∃ fu, fuel = fu + 1 := ⟨fuel - 1, by omega⟩
    refine ⟨s.bits, ofBS s.bits, ?_, rfl, rfl, hbs⟩
    rw [heq, if_neg (by omega), hia]
    rfl
  | succ n ih =>
    intro fuel a ia s hbs0 hab hia hf hw hnn hb hbs
    obtain ⟨fu, rfl⟩ : ∃ fu, fuel = fu + 1 := ⟨fuel - 1, by omega⟩
    have hab' : a + (n + 1) = b := by omega
    have hb' : b ≤ s.isa.len := by omega
    have hai : a < s.isa.len := by omega
    rw [heq, if_pos (by omega), gindex_ok (0 : Int32) s.isa ia a hia hai, bind_ok, read_i32 s.isa hw hnn a hai]
    obtain ⟨b1, w1, e1, e2, e3, e4⟩ := insert_one BI hBI s.bits hbs ((absI32 s.isa).getD a 0)
    rw [e1, bind_ok]
    obtain ⟨bits', w', k1, k2, k3, k4⟩ := ih fu (a + 1) (ia + 1) { s with bits := b1 } (by rw [hbnd]; exact hbs0) (Or.inl (by omega)) (by omega)
      (by omega) hw hnn (Or.inl hb') e4
    refine ⟨bits', w', ?_, ?_, k3, k4⟩
    · rw [k1]
      have : a + 1 + n = a + (n + 1) := by omega
      rw [this]
    · simp only [insertRanksW, e2]
      rw [← e3]
      exact k2

/-! ## `for i, j := range s.sa { s.isa[j] = int32(i) }` -/

/-- entry `k` of the slice is non-negative -/
def NNAt (x : GSlice Int32) (k : Nat) : Prop := 0 ≤ ((x.arr[k]?).getD 0).toInt

theorem sort_loop1_eq (fuel : Nat) (SS : Slice → GSlice Int32 → Res (GSlice Int32))
    (BI : Gen.bitset → List Int → Res Gen.bitset) (N : Nat) :
    ∀ (n i : Nat) (s : Gen.gsap), GWF s.sa → s.sa.len ≤ 2147483647 → InRange s.sa N → i + n = s.sa.len →
      GWF s.isa → s.isa.len = N →
      ∃ isa', gsap_sort_loop_1 fuel SS BI n (i : Int) s = Res.ok { s with isa := isa' } ∧
        absI32 isa' = invertSteps (absI32 s.sa) n i (absI32 s.isa) ∧ GWF isa' ∧ isa'.len = s.isa.len ∧
        (∀ k, (NNAt s.isa k ∨ ∃ j, i ≤ j ∧ j < i + n ∧ (((s.sa.arr[j]?).getD 0).toInt.toNat = k)) → NNAt isa' k) := by
  intro n
  induction n with
  | zero =>
    intro i s _ _ _ _ hw _
    refine ⟨s.isa, by simp [gsap_sort_loop_1], by simp [invertSteps], hw, rfl, ?_⟩
    intro k hk
    rcases hk with hk | ⟨j, h1, h2, _⟩
    · exact hk
    · omega
  | succ n ih =>
    intro i s hsa hlen hr hin hw hN
    have hi : i < s.sa.len := by omega
    obtain ⟨h0, h1⟩ := hr i hi
    rw [gsap_sort_loop_1]
    rw [gindex_ok (0 : Int32) s.sa (i : Int) i rfl hi]
    simp only [bind_ok]
    generalize hx : (s.sa.arr[i]?).getD 0 = x at h0 h1
    rw [gset_ok s.isa x.toInt x.toInt.toNat (by omega) (by omega)]
    simp only [bind_ok]
    have hw' := gset_wf hw x.toInt.toNat (Int32.ofInt (i : Int))
    obtain ⟨isa', e1, e2, e3, e4, e5⟩ := ih (i + 1)
      { s with isa := { s.isa with arr := s.isa.arr.set x.toInt.toNat (Int32.ofInt (i : Int)) } } hsa hlen hr (by show i + 1 + n = s.sa.len; omega) hw'
      hN
    refine ⟨isa', e1, ?_, e3, e4, ?_⟩
    · rw [e2]
      show invertSteps (absI32 s.sa) n (i + 1) (absI32 { s.isa with arr := s.isa.arr.set x.toInt.toNat (Int32.ofInt (i : Int)) }) = _
      rw [absI32_set, invertSteps, absI32_getD hsa i hi, hx]
      congr 2
      unfold i32n
      rw [i32_ofInt _ (by omega) (by omega)]; simp
    · intro k hk
      apply e5
      have hval : 0 ≤ (Int32.ofInt (i : Int)).toInt := by rw [i32_ofInt _ (by omega) (by omega)]; omega
      by_cases hkx : x.toInt.toNat = k
      · left
        subst hkx
        show 0 ≤ (((s.isa.arr.set x.toInt.toNat (Int32.ofInt (i : Int)))[x.toInt.toNat]?).getD 0).toInt
        by_cases hl : x.toInt.toNat < s.isa.arr.length
        · rw [List.getElem?_set_self hl]; exact hval
        · rw [List.getElem?_eq_none (by rw [List.length_set]; omega)]; decide
      · rcases hk with hk | ⟨j, j1, j2, j3⟩
        · left
          show 0 ≤ (((s.isa.arr.set x.toInt.toNat (Int32.ofInt (i : Int)))[k]?).getD 0).toInt
          rw [List.getElem?_set_ne hkx]
          exact hk
        · by_cases hji : j = i
          · subst hji
            have j3' : ((s.sa.arr[j]?).getD 0).toInt.toNat = k := j3
            rw [hx] at j3'; exact absurd j3' hkx
          · right; exact ⟨j, by omega, by omega, j3⟩

/-! ## facts about `saSpec` as int32 values -/

theorem saSpec_lt (t : List Byte) (k : Nat) (hk : k < (saSpec t).length) : (saSpec t)[k] < t.length :=
  (Sap.saSpec_isSA t).getElem_lt k hk

theorem saSpec_length (t : List Byte) : (saSpec t).length = t.length := (Sap.saSpec_isSA t).length_eq

/-- what `SortSpec` leaves in `sa`: in range, non-negative, and the abstraction is `saSpec` -/
theorem sorted_facts (t : List Byte) (sa : GSlice Int32) (hw : GWF sa) (hl : sa.len = t.length)
    (h31 : t.length ≤ 2147483647) (hd : sa.data = (saSpec t).map (fun (k : Nat) => Int32.ofInt (k : Int))) :
    InRange sa t.length ∧ NonNeg sa ∧ absI32 sa = (saSpec t).toArray := by
  have hget : ∀ i (hi : i < sa.len), (sa.arr[i]?).getD 0 = Int32.ofInt (((saSpec t)[i]'(by rw [saSpec_length]; omega) : Nat) : Int) := by
    intro i hi
    have h1 : sa.data[i]? = sa.arr[i]? := by rw [gdata_getElem?, if_pos hi]
    rw [← h1, hd, List.getElem?_map, List.getElem?_eq_getElem (by rw [saSpec_length]; omega)]
    rfl
  have hin : InRange sa t.length := by
    intro i hi
    rw [hget i hi]
    have := saSpec_lt t i (by rw [saSpec_length]; omega)
    rw [i32_ofInt _ (by omega) (by omega)]
    omega
  refine ⟨hin, fun i hi => (hin i hi).1, ?_⟩
  unfold absI32
  rw [hd, List.map_map]
  congr 1
  apply List.ext_getElem
  · simp
  · intro i h1 h2
    simp only [List.getElem_map, Function.comp, i32n]
    have := saSpec_lt t i (by simpa using h1)
    rw [i32_ofInt _ (by omega) (by omega)]
    simp

/-! ## `sort` -/

/-- `if n <= cap(x) { x = x[:n] } else { x = make([]int32, n) }`: a well-formed slice of length `n` -/
theorem resize_ok (x : GSlice Int32) (n : Nat) :
    ∃ x', (if (n : Int) ≤ Int.ofNat x.cap then GSlice.slice x 0 (n : Int) else GSlice.make (0 : Int32) (n : Int) (n : Int))
        = Res.ok x' ∧ GWF x' ∧ x'.len = n := by
  by_cases h : (n : Int) ≤ Int.ofNat x.cap
  · rw [if_pos h]
    have h' : n ≤ x.arr.length := by
      have : (n : Int) ≤ (x.arr.length : Int) := h
      omega
    rw [gslice_ok x 0 (n : Int) 0 n rfl rfl (Nat.zero_le _) h']
    exact ⟨_, rfl, by unfold GWF; simpa using h', by simp⟩
  · rw [if_neg h, gmake_ok (0 : Int32) (n : Int) (n : Int) n n rfl rfl (Nat.le_refl _)]
    exact ⟨_, rfl, by unfold GWF; simp, rfl⟩

/-- **`sort`**: under the specifications of `suffix.Sort` and `bitset.insert`, for a well-formed state with
    `0 ≤ W ≤ len(Data) ≤ MaxInt32`, the translated `sort` does not panic and leaves the representation of
    `gsapSortW` (suffix array `saSpec data`, its inverse, the bitset cleared and the ranks of the positions `< W`
    inserted); buffer and configuration are untouched; fuel `W + 1`. -/
theorem gen_gsap_sort (fuel : Nat) (SS : Slice → GSlice Int32 → Res (GSlice Int32)) (hSS : SortSpec SS)
    (BI : Gen.bitset → List Int → Res Gen.bitset) (hBI : InsertSpec BI) (s : Gen.gsap)
    (hD : SWF s.ParserBuffer.Data) (hbs : BSWF s.bits) (Wn : Nat) (hW : s.ParserBuffer.W = (Wn : Int))
    (hWl : Wn ≤ s.ParserBuffer.Data.len) (h31 : s.ParserBuffer.Data.len ≤ 2147483647) (hf : Wn + 1 ≤ fuel) :
    ∃ sa' isa' bits' gw',
      gsap_sort fuel SS BI s = Res.ok { s with sa := sa', isa := isa', bits := bits' } ∧
      gsapSortW (ofGW s) s.ParserBuffer.Data.data Wn = some gw' ∧
      ofGW { s with sa := sa', isa := isa', bits := bits' } = gw' ∧
      GWF sa' ∧ GWF isa' ∧ BSWF bits' ∧ NonNeg sa' ∧ NonNeg isa' ∧
      sa'.len = s.ParserBuffer.Data.len ∧ isa'.len = s.ParserBuffer.Data.len := by
  have hdl : s.ParserBuffer.Data.data.length = s.ParserBuffer.Data.len := data_length hD
  unfold gsap_sort
  rw [if_neg (by show ¬ ((s.ParserBuffer.Data.len : Nat) : Int) > 2147483647; omega)]
  -- sa
  have hj : ∀ (x : GSlice Int32) (n : Nat) (upd : GSlice Int32 → Gen.gsap) ,
      (if (n : Int) ≤ Int.ofNat x.cap then
          Res.bind (GSlice.slice x 0 (n : Int)) fun t_1 => Res.ok (upd t_1)
        else Res.bind (GSlice.make (0 : Int32) (n : Int) (n : Int)) fun t_2 => Res.ok (upd t_2)) =
      Res.bind (if (n : Int) ≤ Int.ofNat x.cap then GSlice.slice x 0 (n : Int)
        else GSlice.make (0 : Int32) (n : Int) (n : Int)) fun t => Res.ok (upd t) := by
    intro x n upd; split <;> rfl
  obtain ⟨sa1, r1, w1, l1⟩ := resize_ok s.sa s.ParserBuffer.Data.len
  rw [show (Int.ofNat s.ParserBuffer.Data.len) = ((s.ParserBuffer.Data.len : Nat) : Int) from rfl]
  rw [hj s.sa s.ParserBuffer.Data.len (fun t => { s with sa := t }), r1, bind_ok, bind_ok]
  try dsimp only
  obtain ⟨sa2, r2, w2, l2, d2⟩ := hSS s.ParserBuffer.Data sa1 hD w1 l1 h31
  rw [r2, bind_ok]
  try dsimp only
  obtain ⟨isa1, r3, w3, l3⟩ := resize_ok s.isa s.ParserBuffer.Data.len
  rw [hj s.isa s.ParserBuffer.Data.len (fun t => { s with sa := sa2, isa := t }), r3, bind_ok, bind_ok]
  try dsimp only
  have hl2 : sa2.len = s.ParserBuffer.Data.data.length := by rw [l2, l1, hdl]
  obtain ⟨hin, hnn, habs⟩ := sorted_facts s.ParserBuffer.Data.data sa2 w2 hl2 (by omega) d2
  -- the inversion loop
  obtain ⟨isa2, r4, a4, w4, l4, n4⟩ := sort_loop1_eq fuel SS BI s.ParserBuffer.Data.data.length
    sa2.len 0 { s with sa := sa2, isa := isa1 } w2 (by show sa2.len ≤ _; omega) hin (by show 0 + sa2.len = sa2.len; omega) w3
    (by show isa1.len = _; rw [l3, hdl])
  rw [show ((0 : Nat) : Int) = 0 from rfl] at r4
  rw [r4, bind_ok]
  try dsimp only
  -- clear
  obtain ⟨b1, r5, a5, w5⟩ := gen_bitset_clear s.bits hbs
  rw [r5, bind_ok]
  try dsimp only
  -- the isa computed is `invertSA`
  have hperm : IsPermOfRange (saSpec s.ParserBuffer.Data.data) := (Sap.saSpec_isSA _).isPermOfRange
  have hsz : (absI32 sa2).size = s.ParserBuffer.Data.data.length := by rw [absI32_size w2, hl2]
  have hisa : absI32 isa2 = invertSA (saSpec s.ParserBuffer.Data.data).toArray := by
    rw [a4]
    show invertSteps (absI32 sa2) sa2.len 0 (absI32 isa1) = _
    rw [(absI32_size w2).symm, ← invertFrom_eq_steps, habs]
    apply invertFrom_eq_invertSA
    · rw [absI32_size w3, l3]; simp [saSpec_length, hdl]
    · intro k hk
      have hk' : k < (saSpec s.ParserBuffer.Data.data).length := by simpa using hk
      obtain ⟨j, j1, j2⟩ := hperm.surj hk'
      exact ⟨j, by simpa using j1, by simp [Array.getD_eq_getD_getElem?, j2]⟩
  -- every entry of isa was written: non-negative
  have hnn2 : NonNeg isa2 := by
    intro k hk
    apply n4 k
    right
    have hk' : k < (saSpec s.ParserBuffer.Data.data).length := by rw [saSpec_length, hdl, ← l3, ← l4]; exact hk
    obtain ⟨j, j1, j2⟩ := hperm.surj hk'
    have hj' : j < sa2.len := by rw [hl2, ← saSpec_length]; exact j1
    refine ⟨j, Nat.zero_le _, by omega, ?_⟩
    have := absI32_getD w2 j hj'
    rw [habs] at this
    simp only [Array.getD_eq_getD_getElem?, List.getElem?_toArray, j2, Option.getD_some] at this
    unfold i32n at this
    exact this.symm
  -- the rank loop
  obtain ⟨bits', w', r6, a6, e6, w6⟩ := ranks_loop_eq BI hBI (gsap_sort_loop_2 SS BI)
    (fun s => s.ParserBuffer.W) (fun _ _ => rfl) Wn (fun fuel s i => by rw [gsap_sort_loop_2])
    Wn fuel 0 0 { s with sa := sa2, isa := isa2, bits := b1 } hW (Or.inl (by omega)) rfl hf w4 hnn2
    (Or.inl (by rw [l4, l3]; exact hWl)) w5
  have r6' : gsap_sort_loop_2 SS BI fuel { s with sa := sa2, isa := isa2, bits := b1 } 0 =
      Res.ok ({ s with sa := sa2, isa := isa2, bits := bits' }, ((0 + Wn : Nat) : Int)) := r6
  rw [r6', bind_ok]
  refine ⟨sa2, isa2, bits', (⟨(saSpec s.ParserBuffer.Data.data).toArray,
      invertSA (saSpec s.ParserBuffer.Data.data).toArray, w'⟩ : GsapDW), rfl, ?_, ?_, w2, w4, w6, hnn, hnn2,
    by rw [l2, l1], by rw [l4]; exact l3⟩
  · unfold gsapSortW
    have : (ofGW s).bits.clear = ofBS b1 := a5.symm
    simp only [this]
    have a6' : insertRanksW (absI32 isa2) (ofBS b1) 0 Wn = some w' := a6
    rw [hisa] at a6'
    rw [a6']
  · show ({ sa := absI32 sa2, isa := absI32 isa2, bits := ofBS bits' } : GsapDW) = _
    rw [habs, hisa, e6]

end LZ.GenGSAP

#print axioms LZ.GenGSAP.ranks_loop_eq
#print axioms LZ.GenGSAP.sort_loop1_eq
#print axioms LZ.GenGSAP.gen_gsap_sort
