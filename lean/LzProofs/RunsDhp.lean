/-
  LzProofs.RunsDhp — the run clause of C19 for DHP (two hash tables, no backward extension):
  closed forms of `dhpProbe`, preservation of the coverage of both tables by `processSegment2` and
  by the probe (both loops), and the block-level theorem.
-/
import LzProofs.RunsBlock
import LzProofs.RunsFresh
namespace LZ
open PBuf

/-! ## `dhpProbe` (DHP: `back = false`) in closed form -/

/-- the candidate entry of the first loop: the long table wins if its stored value matches -/
def dhpCand (d : Hash2) (p : List Byte) (i : Nat) : Option (Nat × Nat) :=
  if lo32 (d.h2.key p i) ≠ (d.h2.slot (d.h2.key p i)).2 then
    (if lo32 (d.h1.key p i) ≠ (d.h1.slot (d.h1.key p i)).2 then none else some (d.h1.slot (d.h1.key p i)))
  else some (d.h2.slot (d.h2.key p i))

/-- the verification of a candidate `j` for position `i` -/
def CandGood (ws mm : Nat) (p : List Byte) (i j : Nat) : Prop :=
  j < i ∧ i - j ≤ ws ∧ mm ≤ lcpLen (p.drop j) (p.drop i)

instance (ws mm : Nat) (p : List Byte) (i j : Nat) : Decidable (CandGood ws mm p i j) := by
  unfold CandGood; infer_instance

theorem dhpProbe_first_none (ws mm e1 e2 : Nat) (d : Hash2) (p : List Byte) (i li : Nat)
    (hi : i < e2) (hc : ∀ e, dhpCand d p i = some e → ¬ CandGood ws mm p i e.1) :
    dhpProbe ws mm e1 e2 false d p i li = ({ h1 := d.h1.insert p i, h2 := d.h2.insert p i }, none) := by
  unfold dhpCand HashT.slot at hc
  unfold dhpProbe HashT.insert
  simp only [hi, if_true]
  split
  · rfl
  · rename_i e he
    have := hc e he
    unfold CandGood at this
    split
    · rfl
    · rename_i h2
      split
      · rfl
      · rename_i h3
        exfalso
        have h2' := Decidable.not_not.mp h2
        exact this ⟨h2'.1, h2'.2, by omega⟩

theorem dhpProbe_first_some (ws mm e1 e2 : Nat) (d : Hash2) (p : List Byte) (i li : Nat)
    (hi : i < e2) (e : Nat × Nat) (hc : dhpCand d p i = some e) (hg : CandGood ws mm p i e.1) :
    dhpProbe ws mm e1 e2 false d p i li =
      ({ h1 := (d.h1.insert p i).insertRange p (i + 1)
                (min (i + lcpLen (p.drop e.1) (p.drop i)) e1 - (i + 1)),
         h2 := (d.h2.insert p i).insertRange p (i + 1)
                (min (i + lcpLen (p.drop e.1) (p.drop i)) e2 - (i + 1)) },
       some (i, lcpLen (p.drop e.1) (p.drop i), i - e.1)) := by
  unfold dhpCand HashT.slot at hc
  unfold CandGood at hg
  unfold dhpProbe HashT.insert
  simp only [hi, if_true]
  split
  · rename_i he
    rw [he] at hc; cases hc
  · rename_i e' he
    rw [he] at hc
    cases hc
    rw [if_neg (fun hn => hn ⟨hg.1, hg.2.1⟩), if_neg (by omega)]
    simp only [Bool.false_eq_true, if_false, Nat.sub_zero, Nat.add_zero]

theorem dhpProbe_second (ws mm e1 e2 : Nat) (d : Hash2) (p : List Byte) (i li : Nat) (hi : ¬ i < e2) :
    dhpProbe ws mm e1 e2 false d p i li =
      if lo32 (d.h1.key p i) = (d.h1.slot (d.h1.key p i)).2 ∧
          CandGood ws mm p i (d.h1.slot (d.h1.key p i)).1 then
        ({ h1 := (d.h1.insert p i).insertRange p (d.h1.slot (d.h1.key p i)).1
                  (min (i + lcpLen (p.drop (d.h1.slot (d.h1.key p i)).1) (p.drop i)) e1 -
                    (d.h1.slot (d.h1.key p i)).1),
           h2 := d.h2 },
         some (i, lcpLen (p.drop (d.h1.slot (d.h1.key p i)).1) (p.drop i),
           i - (d.h1.slot (d.h1.key p i)).1))
      else ({ h1 := d.h1.insert p i, h2 := d.h2 }, none) := by
  unfold CandGood HashT.slot
  unfold dhpProbe HashT.insert
  simp only [hi, if_false]
  by_cases h1 : lo32 (d.h1.key p i) = (d.h1.tbl.getD (hashValue (d.h1.key p i) d.h1.hashBits) (0, 0)).2
  · by_cases h2 : (d.h1.tbl.getD (hashValue (d.h1.key p i) d.h1.hashBits) (0, 0)).1 < i ∧
        i - (d.h1.tbl.getD (hashValue (d.h1.key p i) d.h1.hashBits) (0, 0)).1 ≤ ws
    · by_cases h3 : mm ≤ lcpLen (p.drop (d.h1.tbl.getD (hashValue (d.h1.key p i) d.h1.hashBits) (0, 0)).1) (p.drop i)
      · have h3' : ¬ lcpLen (p.drop (d.h1.tbl.getD (hashValue (d.h1.key p i) d.h1.hashBits) (0, 0)).1) (p.drop i) < mm := by
          omega
        rw [if_neg (fun hn => hn h1), if_neg (fun hn => hn h2), if_neg h3',
          if_pos (show _ ∧ _ ∧ _ ∧ _ from ⟨h1, h2.1, h2.2, h3⟩)]
        simp only [Bool.false_eq_true, if_false, Nat.sub_zero, Nat.add_zero]
      · have h3' : lcpLen (p.drop (d.h1.tbl.getD (hashValue (d.h1.key p i) d.h1.hashBits) (0, 0)).1) (p.drop i) < mm := by
          omega
        rw [if_neg (fun hn => hn h1), if_neg (fun hn => hn h2), if_pos h3',
          if_neg (fun hc : _ ∧ _ ∧ _ ∧ _ => h3 hc.2.2.2)]
    · rw [if_neg (fun hn => hn h1), if_pos h2, if_neg (fun hc : _ ∧ _ ∧ _ ∧ _ => h2 ⟨hc.2.1, hc.2.2.1⟩)]
  · rw [if_pos h1, if_neg (fun hc : _ ∧ _ ∧ _ ∧ _ => h1 hc.1)]

theorem dhpCand_some {d : Hash2} {p : List Byte} {i : Nat} {e : Nat × Nat} (h : dhpCand d p i = some e) :
    e = d.h2.slot (d.h2.key p i) ∨ e = d.h1.slot (d.h1.key p i) := by
  unfold dhpCand at h
  split at h
  · split at h
    · cases h
    · right; exact (Option.some.inj h).symm
  · left; exact (Option.some.inj h).symm

/-- the long table's slot holds the value of the key: it is the candidate -/
theorem dhpCand_of_h2 (d : Hash2) (p : List Byte) (i j : Nat)
    (h : d.h2.slot (d.h2.key p i) = (j, lo32 (d.h2.key p i))) :
    dhpCand d p i = some (j, lo32 (d.h2.key p i)) := by
  unfold dhpCand
  rw [h]
  simp only [ne_eq, not_true_eq_false, if_false]

/-! ## `processSegment2` -/

theorem processSegment2_inputLen (h1 h2 : HashT) (data : List Byte) (a b : Int) :
    (processSegment2 h1 h2 data a b).1.inputLen = h1.inputLen ∧
    (processSegment2 h1 h2 data a b).2.inputLen = h2.inputLen := by
  unfold processSegment2
  simp only []
  exact ⟨by rw [HashT.insertRange_inputLen, HashT.insertRange_inputLen], HashT.insertRange_inputLen _ _ _ _⟩

/-- `processSegment(w - inputLen2 + 1, b0)` of the double hash: the short table is re-indexed from
    `w + 1 - inputLen2` (below its coverage bound), in increasing order, beyond that bound -/
theorem processSegment2_cov (h1 h2 : HashT) (data : List Byte) (w : Nat) (b0 : Int) (X1 X2 : Nat)
    (hs1 : h1.SizeOK) (hs2 : h2.SizeOK) (hil : h1.inputLen ≤ h2.inputLen)
    (hc1 : h1.Cov data (w + 1 - h1.inputLen)) (hc2 : h2.Cov data (w + 1 - h2.inputLen))
    (hX1 : (X1 : Int) ≤ b0) (hX1l : X1 ≤ data.length + 1 - h1.inputLen)
    (hX2 : (X2 : Int) ≤ b0) (hX2l : X2 ≤ data.length + 1 - h2.inputLen) :
    (processSegment2 h1 h2 data ((w : Int) - h2.inputLen + 1) b0).1.Cov data X1 ∧
    (processSegment2 h1 h2 data ((w : Int) - h2.inputLen + 1) b0).2.Cov data X2 := by
  unfold processSegment2
  simp only []
  generalize haa : (if (w : Int) - h2.inputLen + 1 < 0 then (0 : Int) else (w : Int) - h2.inputLen + 1).toNat = aa
  have haw : aa ≤ w + 1 - h2.inputLen := by
    rw [← haa]; split <;> omega
  generalize hb1 : (if (if (data.length : Int) - h1.inputLen + 1 < b0 then
    (data.length : Int) - h1.inputLen + 1 else b0) < 0 then (0 : Int) else
      (if (data.length : Int) - h1.inputLen + 1 < b0 then (data.length : Int) - h1.inputLen + 1 else b0)).toNat = bb1
  have hbX1 : X1 ≤ bb1 := by
    rw [← hb1]; split <;> split <;> omega
  generalize hb2 : (if (if (data.length : Int) - h2.inputLen + 1 < b0 then
    (data.length : Int) - h2.inputLen + 1 else b0) < 0 then (0 : Int) else
      (if (data.length : Int) - h2.inputLen + 1 < b0 then (data.length : Int) - h2.inputLen + 1 else b0)).toNat = bb2
  have hbX2 : X2 ≤ bb2 := by
    rw [← hb2]; split <;> split <;> omega
  constructor
  · have c1 := hc1.insertRange_to hs1 aa bb2 (by omega)
    have c2 := c1.insertRange_to (HashT.sizeOK_insertRange _ _ _ _ hs1) bb2 bb1 (Nat.le_refl _)
    exact c2.mono X1 hbX1
  · exact (hc2.insertRange_to hs2 aa bb2 haw).mono X2 hbX2

/-! ## the probe keeps the coverage of both tables -/

/-- the dictionary invariant of the DHP loop at loop position `a` (`e2` = end of the first loop) -/
def DhC (il1 il2 : Nat) (p : List Byte) (e2 : Nat) (d : Hash2) (a : Nat) : Prop :=
  d.h1.SizeOK ∧ d.h2.SizeOK ∧ d.h1.inputLen = il1 ∧ d.h2.inputLen = il2 ∧
    d.h1.Cov p a ∧ d.h2.Cov p (min a e2)

theorem dhpProbe_cov (ws mm e1 e2 il1 il2 : Nat) (hmm : 1 ≤ mm) (d : Hash2)
    (p : List Byte) (i li : Nat) (hC : DhC il1 il2 p e2 d i) :
    (∀ d', dhpProbe ws mm e1 e2 false d p i li = (d', none) → DhC il1 il2 p e2 d' (i + 1)) ∧
    (∀ d' s k o, dhpProbe ws mm e1 e2 false d p i li = (d', some (s, k, o)) →
      i < s + k ∧ DhC il1 il2 p e2 d' (min (s + k) e1)) := by
  obtain ⟨s1, s2, l1, l2, c1, c2⟩ := hC
  have t1 := c1.insert s1
  have hs1' := HashT.sizeOK_insert s1 p i
  have hs2' := HashT.sizeOK_insert s2 p i
  by_cases hi : i < e2
  · have c2' : d.h2.Cov p i := c2.mono i (by omega)
    have t2 := c2'.insert s2
    by_cases hg : ∃ e, dhpCand d p i = some e ∧ CandGood ws mm p i e.1
    · obtain ⟨e, hc, hgood⟩ := hg
      rw [dhpProbe_first_some ws mm e1 e2 d p i li hi e hc hgood]
      constructor
      · intro d' hp; simp at hp
      · intro d' s k o hp
        simp only [Prod.mk.injEq, Option.some.injEq] at hp
        obtain ⟨hd, hs, hk, -⟩ := hp
        subst hd hs hk
        have hk1 : 1 ≤ lcpLen (p.drop e.1) (p.drop i) := by
          have := hgood.2.2; omega
        refine ⟨by omega, HashT.sizeOK_insertRange _ _ _ _ hs1', HashT.sizeOK_insertRange _ _ _ _ hs2', ?_, ?_, ?_, ?_⟩
        · rw [HashT.insertRange_inputLen]; exact l1
        · rw [HashT.insertRange_inputLen]; exact l2
        · exact t1.insertRange_to hs1' (i + 1) _ (Nat.le_refl _)
        · have := t2.insertRange_to hs2' (i + 1) (min (i + lcpLen (p.drop e.1) (p.drop i)) e2) (Nat.le_refl _)
          exact this.mono _ (by omega)
    · rw [dhpProbe_first_none ws mm e1 e2 d p i li hi (fun e he hgood => hg ⟨e, he, hgood⟩)]
      constructor
      · intro d' hp
        simp only [Prod.mk.injEq, and_true] at hp
        subst hp
        exact ⟨hs1', hs2', l1, l2, t1, t2.mono _ (by omega)⟩
      · intro d' s k o hp; simp at hp
  · rw [dhpProbe_second ws mm e1 e2 d p i li hi]
    have c2' : d.h2.Cov p e2 := c2.mono e2 (by omega)
    split
    · rename_i hc
      constructor
      · intro d' hp; simp at hp
      · intro d' s k o hp
        simp only [Prod.mk.injEq, Option.some.injEq] at hp
        obtain ⟨hd, hs, hk, -⟩ := hp
        subst hd hs hk
        have hk1 : 1 ≤ lcpLen (p.drop (d.h1.slot (d.h1.key p i)).1) (p.drop i) := by
          have := hc.2.2.2; omega
        have hj := hc.2.1
        refine ⟨by omega, HashT.sizeOK_insertRange _ _ _ _ hs1', s2, ?_, l2, ?_, ?_⟩
        · rw [HashT.insertRange_inputLen]; exact l1
        · exact t1.insertRange_to hs1' _ _ (by omega)
        · exact c2'.mono _ (by omega)
    · constructor
      · intro d' hp
        simp only [Prod.mk.injEq, and_true] at hp
        subst hp
        exact ⟨hs1', s2, l1, l2, t1, c2'.mono _ (by omega)⟩
      · intro d' s k o hp; simp at hp

/-- after the greedy loop of DHP every position below `e1` (short table) / `e2` (long table) is
    covered -/
theorem dhp_loop_cov (ws mm e1 e2 il1 il2 : Nat) (hmm : 1 ≤ mm) (p : List Byte)
    (st : LoopSt Hash2) (hli : st.litIndex ≤ st.i) (hC : DhC il1 il2 p e2 st.dict (min st.i e1)) :
    DhC il1 il2 p e2 (greedyLoop ⟨dhpProbe ws mm e1 e2 false⟩ p e1 st).dict e1 := by
  apply greedyLoop_cov ⟨dhpProbe ws mm e1 e2 false⟩ p e1 (DhC il1 il2 p e2) ?_ ?_ st hli hC
  · intro d i li d' hli hlt hC hp
    exact (dhpProbe_cov ws mm e1 e2 il1 il2 hmm d p i li hC).1 d' hp
  · intro d i li d' s k o hli hlt hC hp
    exact (dhpProbe_cov ws mm e1 e2 il1 il2 hmm d p i li hC).2 d' s k o hp

/-! ## `Parse` of DHP keeps the freshness of both tables -/

namespace Parser

theorem parse_double_fresh (s : Parser) (flags : Nat) (d : Hash2) (hd : s.dict = .double d)
    (hk : s.kind = .DHP) (hs1 : d.h1.SizeOK) (hs2 : d.h2.SizeOK) (hil : d.h1.inputLen ≤ d.h2.inputLen)
    (hf1 : d.h1.Fresh s.buf.data s.buf.w) (hf2 : d.h2.Fresh s.buf.data s.buf.w)
    (hw : s.buf.w ≤ s.buf.data.length) (hn : s.blockN ≠ 0) (hm : s.MarginOK) (hmm : 1 ≤ s.minMatch) :
    ∃ d', (s.parse flags).1.dict = .double d' ∧ d'.h1.SizeOK ∧ d'.h2.SizeOK ∧
      d'.h1.inputLen = d.h1.inputLen ∧ d'.h2.inputLen = d.h2.inputLen ∧
      d'.h1.Fresh s.buf.data (s.parse flags).1.buf.w ∧ d'.h2.Fresh s.buf.data (s.parse flags).1.buf.w := by
  rw [parse_double s flags d hd hn hm]
  simp only []
  have hkb : (s.kind == Kind.BDHP) = false := by rw [hk]; rfl
  rw [hkb]
  have hl := s.blockPrefix_length hw
  have hN := s.blockN_le
  obtain ⟨hi1, hi2⟩ := processSegment2_inputLen d.h1 d.h2 s.buf.data ((s.buf.w : Int) - d.h2.inputLen + 1) s.buf.w
  obtain ⟨hz1, hz2⟩ := sizeOK_processSegment2 hs1 hs2 s.buf.data ((s.buf.w : Int) - d.h2.inputLen + 1) s.buf.w
  generalize he1 : s.blockPrefix.length + 1 -
    (processSegment2 d.h1 d.h2 s.buf.data ((s.buf.w : Int) - d.h2.inputLen + 1) s.buf.w).1.inputLen = e1
  generalize he2 : s.blockPrefix.length + 1 -
    (processSegment2 d.h1 d.h2 s.buf.data ((s.buf.w : Int) - d.h2.inputLen + 1) s.buf.w).2.inputLen = e2
  rw [hi1] at he1
  rw [hi2] at he2
  have hcc := processSegment2_cov d.h1 d.h2 s.buf.data s.buf.w (s.buf.w : Int) (min s.buf.w e1)
    (min (min s.buf.w e1) e2) hs1 hs2 hil hf1.cov hf2.cov (by omega) (by omega) (by omega) (by omega)
  generalize processSegment2 d.h1 d.h2 s.buf.data ((s.buf.w : Int) - d.h2.inputLen + 1) s.buf.w = hh
    at hi1 hi2 hz1 hz2 hcc
  have hc1 : hh.1.Cov s.blockPrefix (min s.buf.w e1) := by
    apply hcc.1.congr
    intro q hq
    unfold blockPrefix
    exact key_take hh.1 s.buf.data _ q (by omega)
  have hc2 : hh.2.Cov s.blockPrefix (min (min s.buf.w e1) e2) := by
    apply hcc.2.congr
    intro q hq
    unfold blockPrefix
    exact key_take hh.2 s.buf.data _ q (by omega)
  have hv := dhpProbe_verifying s.buf.cfg.windowSize s.minMatch e1 e2 false s.blockPrefix
  have hblk := runGreedy_ok ⟨dhpProbe s.buf.cfg.windowSize s.minMatch e1 e2 false⟩ ⟨hh.1, hh.2⟩
    s.blockPrefix s.buf.cfg.windowSize s.minMatch s.buf.w e1 flags _ (hv.probeOK hmm) (hv.probeSeq hmm)
    (by omega)
  have hle := hblk.le_len
  have hfin := dhp_loop_cov s.buf.cfg.windowSize s.minMatch e1 e2 d.h1.inputLen d.h2.inputLen hmm
    s.blockPrefix { dict := ⟨hh.1, hh.2⟩, i := s.buf.w, litIndex := s.buf.w, seqs := [], lits := [] }
    (Nat.le_refl _) ⟨hz1, hz2, hi1, hi2, hc1, hc2⟩
  rw [← runGreedy_fst _ _ _ _ _ flags] at hfin
  obtain ⟨f1, f2, f3, f4, f5, f6⟩ := hfin
  refine ⟨_, rfl, f1, f2, f3, f4, ?_, ?_⟩
  · intro q hq
    rw [f3] at hq
    have := f5 q (by omega)
    have hkk : (runGreedy ⟨dhpProbe s.buf.cfg.windowSize s.minMatch e1 e2 false⟩ ⟨hh.1, hh.2⟩ s.blockPrefix
          s.buf.w e1 flags).1.h1.key s.blockPrefix q =
        (runGreedy ⟨dhpProbe s.buf.cfg.windowSize s.minMatch e1 e2 false⟩ ⟨hh.1, hh.2⟩ s.blockPrefix
          s.buf.w e1 flags).1.h1.key s.buf.data q :=
      key_take _ s.buf.data (s.buf.w + s.blockN) q (by rw [f3]; omega)
    rw [hkk] at this
    exact this
  · intro q hq
    rw [f4] at hq
    have := f6 q (by omega)
    have hkk : (runGreedy ⟨dhpProbe s.buf.cfg.windowSize s.minMatch e1 e2 false⟩ ⟨hh.1, hh.2⟩ s.blockPrefix
          s.buf.w e1 flags).1.h2.key s.blockPrefix q =
        (runGreedy ⟨dhpProbe s.buf.cfg.windowSize s.minMatch e1 e2 false⟩ ⟨hh.1, hh.2⟩ s.blockPrefix
          s.buf.w e1 flags).1.h2.key s.buf.data q :=
      key_take _ s.buf.data (s.buf.w + s.blockN) q (by rw [f4]; omega)
    rw [hkk] at this
    exact this

end Parser

/-! ## block level -/

/-- the last step of DHP: the slot of the long table for the current position `i` (inside the run,
    behind its first byte) holds `i - 1` -/
theorem dhp_final_step (ws mm e1 e2 il1 il2 : Nat) (p : List Byte) (w n : Nat) (b : Byte)
    (hR : RunBlock p w n b) (hil1 : 1 ≤ il1) (hil : il1 ≤ il2) (he1 : e1 = p.length + 1 - il1)
    (he2 : e2 = p.length + 1 - il2) (hws : 1 ≤ ws) (hmm : mm ≤ 3) (st : LoopSt Hash2)
    (hi1 : w + 1 ≤ st.i) (hi2 : st.i + il2 ≤ w + n) (hi3 : st.i + 3 ≤ w + n)
    (hslot : st.dict.h2.slot (st.dict.h2.key p st.i) = (st.i - 1, lo32 (st.dict.h2.key p st.i))) :
    (greedyLoop ⟨dhpProbe ws mm e1 e2 false⟩ p e1 st).litIndex = p.length ∧
    (greedyLoop ⟨dhpProbe ws mm e1 e2 false⟩ p e1 st).lits.length ≤
      st.lits.length + (st.i - st.litIndex) := by
  have hlen := hR.len
  have hlcp : lcpLen (p.drop (st.i - 1)) (p.drop st.i) = p.length - st.i :=
    lcpLen_run p b (st.i - 1) st.i (by omega) (by omega) (fun t h1 h2 => hR.at t (by omega) h2)
  have hc := dhpCand_of_h2 st.dict p st.i (st.i - 1) hslot
  have hg : CandGood ws mm p st.i (st.i - 1) := ⟨by omega, by omega, by rw [hlcp]; omega⟩
  have hpe := dhpProbe_first_some ws mm e1 e2 st.dict p st.i st.litIndex (by omega) _ hc hg
  dsimp only at hpe
  rw [hlcp] at hpe
  have hlt : st.i < e1 := by omega
  rw [greedyLoop_some _ _ _ _ _ _ _ _ hlt hpe (by omega), greedyLoop_done _ _ _ _ (by simp only; omega)]
  refine ⟨by simp only; omega, ?_⟩
  simp only [List.length_append, List.length_take, List.length_drop]
  omega

/-- the greedy loop of DHP on a run block, from tables that cover the positions whose key bytes
    are parsed -/
theorem dhp_run_loop (ws mm : Nat) (d : Hash2) (p : List Byte) (w n : Nat) (b : Byte)
    (hR : RunBlock p w n b) (hs2 : d.h2.SizeOK) (hil1 : 1 ≤ d.h1.inputLen)
    (hil : d.h1.inputLen ≤ d.h2.inputLen) (hil8 : d.h2.inputLen ≤ 8)
    (hws : 1 ≤ ws) (hmm1 : 1 ≤ mm) (hmm3 : mm ≤ 3)
    (hcov1 : d.h1.Cov p (w + 1 - d.h1.inputLen)) (hcov2 : d.h2.Cov p (w + 1 - d.h2.inputLen)) :
    (greedyLoop ⟨dhpProbe ws mm (p.length + 1 - d.h1.inputLen) (p.length + 1 - d.h2.inputLen) false⟩ p
      (p.length + 1 - d.h1.inputLen)
      { dict := d, i := w, litIndex := w, seqs := [], lits := [] }).litIndex = p.length ∧
    (greedyLoop ⟨dhpProbe ws mm (p.length + 1 - d.h1.inputLen) (p.length + 1 - d.h2.inputLen) false⟩ p
      (p.length + 1 - d.h1.inputLen)
      { dict := d, i := w, litIndex := w, seqs := [], lits := [] }).lits.length ≤ 1 := by
  have hlen := hR.len
  have hn := hR.n32
  have hkey1 : ∀ q, w ≤ q → q + d.h1.inputLen ≤ w + n → d.h1.key p q = d.h1.key p w := by
    intro q h1 h2
    exact key_run d.h1 p b q w (fun t ht => hR.at _ (by omega) (by omega))
      (fun t ht => hR.at _ (by omega) (by omega))
  have hkey2 : ∀ q, w ≤ q → q + d.h2.inputLen ≤ w + n → d.h2.key p q = d.h2.key p w := by
    intro q h1 h2
    exact key_run d.h2 p b q w (fun t ht => hR.at _ (by omega) (by omega))
      (fun t ht => hR.at _ (by omega) (by omega))
  generalize he1 : p.length + 1 - d.h1.inputLen = e1
  generalize he2 : p.length + 1 - d.h2.inputLen = e2
  have hlt : w < e1 := by omega
  have hlt2 : w < e2 := by omega
  by_cases hg : ∃ e, dhpCand d p w = some e ∧ CandGood ws mm p w e.1
  · -- a match from an older entry of one of the tables
    obtain ⟨e, hc, hgood⟩ := hg
    have hpe := dhpProbe_first_some ws mm e1 e2 d p w w hlt2 e hc hgood
    obtain ⟨hc2, hc3, hc4⟩ := hgood
    generalize hj : e.1 = j at hpe hc2 hc3 hc4
    have hkn := lcpLen_le_right (p.drop j) (p.drop w)
    simp only [List.length_drop] at hkn
    generalize hk : lcpLen (p.drop j) (p.drop w) = k at hpe hc4 hkn
    by_cases hkn' : k = n
    · subst hkn'
      rw [greedyLoop_some _ _ _ _ _ _ _ _ hlt hpe (by simp only; omega),
        greedyLoop_done _ _ _ _ (by simp only; omega)]
      refine ⟨by simp only; omega, ?_⟩
      simp
    · obtain ⟨hpre, hjk⟩ := lcpLen_run_short p b j w hc2 (by omega)
        (fun t h1 h2 => hR.at t h1 h2) (by rw [hk]; omega)
      rw [hk] at hpre hjk
      have hkil : k ≤ d.h2.inputLen := by
        apply Decidable.byContradiction
        intro hgt
        rcases dhpCand_some hc with he | he
        · -- the candidate is the entry of the long table
          have hq := hcov2 (j + 1) (by omega)
          have hkq : d.h2.key p (j + 1) = d.h2.key p w :=
            key_run d.h2 p b (j + 1) w
              (fun t ht => by
                have := hpre (1 + t) (by omega)
                rw [← Nat.add_assoc] at this; exact this)
              (fun t ht => hR.at _ (by omega) (by omega))
          rw [hkq, ← he, hj] at hq
          omega
        · -- the candidate is the entry of the short table
          have hq := hcov1 (j + 1) (by omega)
          have hkq : d.h1.key p (j + 1) = d.h1.key p w :=
            key_run d.h1 p b (j + 1) w
              (fun t ht => by
                have := hpre (1 + t) (by omega)
                rw [← Nat.add_assoc] at this; exact this)
              (fun t ht => hR.at _ (by omega) (by omega))
          rw [hkq, ← he, hj] at hq
          omega
      have hmin2 : min (w + k) e2 - (w + 1) = k - 1 := by omega
      rw [hmin2] at hpe
      have hd2 : (d.h2.insert p w).insertRange p (w + 1) (k - 1) = d.h2.insertRange p w (k - 1 + 1) :=
        (HashT.insertRange_succ d.h2 p w (k - 1)).symm
      rw [hd2] at hpe
      rw [greedyLoop_some _ _ _ _ _ _ _ _ hlt hpe (by simp only; omega)]
      dsimp only
      have hfin := dhp_final_step ws mm e1 e2 d.h1.inputLen d.h2.inputLen p w n b hR hil1 hil he1.symm
        he2.symm hws hmm3
        { dict := { h1 := (d.h1.insert p w).insertRange p (w + 1) (min (w + k) e1 - (w + 1)),
                    h2 := d.h2.insertRange p w (k - 1 + 1) },
          i := w + k, litIndex := w + k,
          seqs := [] ++ [{ litLen := ((p.drop w).take (w - w)).length, matchLen := k, offset := w - j }],
          lits := [] ++ (p.drop w).take (w - w) }
        (by simp only; omega) (by simp only; omega) (by simp only; omega)
        (by
          simp only
          rw [HashT.insertRange_key, hkey2 (w + k) (by omega) (by omega),
            HashT.slot_insertRange_same p (d.h2.key p w) (k - 1) w d.h2 hs2
              (fun q h1 h2 => hkey2 q h1 (by omega))]
          congr 1; omega)
      refine ⟨hfin.1, ?_⟩
      have := hfin.2
      dsimp only at this
      simp only [List.nil_append, Nat.sub_self, List.take_zero, List.length_nil] at this ⊢
      omega
  · -- no match at `w`: one literal, then the match with offset 1 found through the long table
    have hpe := dhpProbe_first_none ws mm e1 e2 d p w w hlt2 (fun e he hgood => hg ⟨e, he, hgood⟩)
    rw [greedyLoop_none _ _ _ _ _ hlt hpe]
    dsimp only
    have hfin := dhp_final_step ws mm e1 e2 d.h1.inputLen d.h2.inputLen p w n b hR hil1 hil he1.symm
      he2.symm hws hmm3
      { dict := { h1 := d.h1.insert p w, h2 := d.h2.insert p w }, i := w + 1, litIndex := w,
        seqs := [], lits := [] }
      (by simp only; omega) (by simp only; omega) (by simp only; omega)
      (by
        simp only
        rw [HashT.insert_key, hkey2 (w + 1) (by omega) (by omega), HashT.slot_insert_self d.h2 hs2]
        congr 1)
    refine ⟨hfin.1, ?_⟩
    have := hfin.2
    dsimp only at this
    simp only [List.length_nil] at this
    omega

/-- **block level, DHP** -/
theorem dhp_run_block (ws mm : Nat) (d : Hash2) (p : List Byte) (w n : Nat) (b : Byte)
    (flags : Nat) (hf : flags % 2 = 0)
    (hR : RunBlock p w n b) (hs2 : d.h2.SizeOK) (hil1 : 1 ≤ d.h1.inputLen)
    (hil : d.h1.inputLen ≤ d.h2.inputLen) (hil8 : d.h2.inputLen ≤ 8)
    (hws : 1 ≤ ws) (hmm1 : 1 ≤ mm) (hmm3 : mm ≤ 3)
    (hcov1 : d.h1.Cov p (w + 1 - d.h1.inputLen)) (hcov2 : d.h2.Cov p (w + 1 - d.h2.inputLen)) :
    (Parser.runGreedy ⟨dhpProbe ws mm (p.length + 1 - d.h1.inputLen) (p.length + 1 - d.h2.inputLen) false⟩
      d p w (p.length + 1 - d.h1.inputLen) flags).2.2.1.lits.length ≤ 1 := by
  obtain ⟨h1, h2⟩ := dhp_run_loop ws mm d p w n b hR hs2 hil1 hil hil8 hws hmm1 hmm3 hcov1 hcov2
  unfold Parser.runGreedy
  simp only []
  unfold finishBlock
  rw [if_neg (by omega)]
  simp only [List.length_append, List.length_drop]
  omega

end LZ
