/-
  LzProofs.GenBUPDrain — C14 "repeated `Parse(nil)` drains the buffer" about the Go text of BUP: `C14_drains`
  (LzProofs/ParseProps.lean) transported along `runN_sim` of LzProofs/GenBUPHistNil.lean.  The histories of BUP have their own
  `GOpN` / `GResN` (LzProofs/GenBUPHistNil.lean), so `nilOps`, `drainRes`, `nSum` are the polymorphic ones of
  LzProofs/GenDrainShared.lean at these types (the same definitions as in LzProofs/GenHPDrain.lean).
  `lcp` and `bucketHash.shiftOffsets` stay the opaque parameters of the translation of bup.go under `LcpSpec` / `ShiftSpec` (the
  drain calls never call them; the history before them may).  No sorry, no axioms of its own.

    nilOps fl               the calls `Parse(nil, flags_k)` (ghost value `fl[k].1`, flags `fl[k].2`; every value, every flags)
    drainRes bs u k fl      the results expected from call number `k` on: ghost handed back, `n = min(bs, u − k·bs)`, the error
                            `nil` if `k < ⌈u / bs⌉` and `ErrEmptyBuffer` otherwise
    nSum rs                 the sum of the `n` of the `Parse(nil)` results in `rs`
    drain_core              from a state with `HistOKU`
    C14_drains_go_text_bup  after ANY history from `init`: the calls `Parse(nil, ·)` return exactly `drainRes bs u 0`
-/
import LzProofs.GenBUPHistNil
import LzProofs.GenDrainShared

set_option linter.unusedSimpArgs false
set_option linter.unusedVariables false

namespace LZ.GenBUPHist
open LZ LZ.Gen LZ.GenBuf LZ.GenHash LZ.GenHPParse LZ.GenBUPParse LZ.GenProps LZ.GenNil
open LZ.GenHPHist (BCOK RFun RFSpec rfGo rfGo_spec)

/-- the calls `Parse(nil, flags)`, one per entry (ghost value, flags) -/
def nilOps (fl : List (Gen.Block' × Int)) : List GOpN := GenDrain.nilOps GOpN.parseNil fl

/-- the results of draining: call number `k` (counted from the state with `u` unparsed bytes) returns the ghost,
    `n = min(bs, u − k·bs)` and `nil`, or `ErrEmptyBuffer` from call `⌈u / bs⌉` on -/
def drainRes (bs u k : Nat) (fl : List (Gen.Block' × Int)) : List GResN := GenDrain.drainRes GResN.parseNil bs u k fl

/-- the `n` of a `Parse(nil)` result (`0` for the results of the other calls) -/
def GResN.nOf : GResN → Int
  | .parseNil _ n _ => n
  | .r _ => 0

/-- the sum of the `n` returned by the `Parse(nil)` calls of a result list -/
def nSum (rs : List GResN) : Int := GenDrain.nSum GResN.nOf rs

theorem nilOps_wf (fl : List (Gen.Block' × Int)) : ∀ op ∈ nilOps fl, op.WF := by
  intro op hop
  obtain ⟨x, -, rfl⟩ := List.mem_map.mp hop
  trivial

theorem resultsAgreeN_nil (fl : List (Gen.Block' × Int)) (sg : Parser × Ghost) (rs : List GResN)
    (h : ResultsAgreeN sg (nilOps fl) rs) : rs = GenDrain.modelNilRes GResN.parseNil sg.1 fl := by
  refine GenDrain.resultsAgree_nil GOpN.parseNil GResN.parseNil ResultsAgreeN ?_ ?_ fl sg rs h
  · intro sg rs h
    cases rs with
    | nil => rfl
    | cons r rs => exact absurd h (by simp [ResultsAgreeN])
  · intro sg b f ops rs h
    cases rs with
    | nil => exact absurd h (by simp [ResultsAgreeN])
    | cons r rs =>
      have h' : resAgreeN sg.1 (.parseNil b f) r ∧ ResultsAgreeN (step sg .parseNil) ops rs := h
      obtain ⟨h1, h2⟩ := h'
      cases r with
      | r res => exact absurd h1 (by simp [resAgreeN])
      | parseNil b' n e =>
        obtain ⟨a1, a2, a3⟩ := h1
        subst a1 a2 a3
        exact ⟨rs, rfl, h2⟩

/-- draining from a Go state with `HistOKU` (block size `≥ 1`) -/
theorem drain_core {bc : BufCfg} (hbc : BCOK bc) (hbs1 : 1 ≤ bc.blockSize) (RF : RFun) (hRF : RFSpec RF)
    (grow : Nat → Nat → Nat) (fuel : Nat) (lcp : Slice → Slice → Int) (hlcp : LcpSpec lcp)
    (SO : SOFun) (hSO : ShiftSpec SO) (hfuel : bc.bufferSize + 3 ≤ fuel)
    (t : Gen.bucketParser) (hH : HistOKU bc t) (fl : List (Gen.Block' × Int)) :
    let bs := t.bucketDictionary.ParserBuffer.BufConfig.BlockSize.toNat
    let u := t.bucketDictionary.ParserBuffer.Data.len - t.bucketDictionary.ParserBuffer.W.toNat
    let r := (u + bs - 1) / bs
    ∃ t', runN RF grow fuel lcp SO t (nilOps fl) = Res.ok (t', drainRes bs u 0 fl) ∧
      nSum (drainRes bs u 0 fl) = ((Min.min u (fl.length * bs) : Nat) : Int) ∧
      t'.bucketDictionary.ParserBuffer.Data.len = t.bucketDictionary.ParserBuffer.Data.len ∧
      t'.bucketDictionary.ParserBuffer.W =
        ((Min.min t.bucketDictionary.ParserBuffer.Data.len
          (t.bucketDictionary.ParserBuffer.W.toNat + fl.length * bs) : Nat) : Int) ∧
      (r ≤ fl.length → nSum (drainRes bs u 0 fl) = (u : Int) ∧
        t'.bucketDictionary.ParserBuffer.W = (t.bucketDictionary.ParserBuffer.Data.len : Int)) := by
  intro bs u r
  obtain ⟨t', rs', k1, k2, k3, -, k5⟩ :=
    runN_sim hbc RF hRF grow fuel lcp hlcp SO hSO hfuel (nilOps fl) t Ghost.init hH (nilOps_wf fl)
  have hw := hH.hw
  have hbs : 1 ≤ (ofBUPs t).buf.cfg.blockSize := by
    have hc : (ofBUPs t).buf.cfg = bc := hH.cfg
    rw [hc]; exact hbs1
  have hrs : rs' = drainRes bs u 0 fl := by
    rw [resultsAgreeN_nil fl _ _ k5]
    have := GenDrain.modelNilRes_drain GResN.parseNil (ofBUPs t) hw hbs fl 0
    rw [hH.dataLen] at this
    exact this
  have hsum : nSum (drainRes bs u 0 fl) = ((Min.min (u - 0 * bs) (fl.length * bs) : Nat) : Int) :=
    GenDrain.nSum_drainRes GResN.parseNil GResN.nOf (fun _ _ _ => rfl) bs u fl 0
  rw [Nat.zero_mul, Nat.sub_zero] at hsum
  have hst : ofBUPs t' = Parser.nilIter fl.length (ofBUPs t) := by
    rw [k3]; exact GenDrain.runOps_nilOps GOpN.parseNil GOpN.abs (fun _ _ => rfl) fl _
  obtain ⟨b1, b2, b3⟩ := GenDrain.drain_buf (ofBUPs t) (ofBUPs t') fl.length hw hbs hst
    t.bucketDictionary.ParserBuffer.Data.len t'.bucketDictionary.ParserBuffer.Data.len
    t.bucketDictionary.ParserBuffer.W t'.bucketDictionary.ParserBuffer.W hH.dataLen k2.dataLen rfl rfl
    k2.pok.wf.1.w
  refine ⟨t', by rw [← hrs]; exact k1, hsum, b1, b2, fun hr => ?_⟩
  obtain ⟨c1, c2⟩ := b3 hr
  refine ⟨?_, c2⟩
  rw [hsum]
  exact congrArg Int.ofNat c1

/-- **C14 (repeated `Parse(nil)` drains the buffer) about the Go text of BUP.**  Run any history `ops` of the translated
    `Write`, `ReadFrom`, `Parse(&blk)`, `Parse(nil)`, `Shrink`, `Reset` from `bucketParser.init`
    (`lcp` under `LcpSpec`, `shiftOffsets` under `ShiftSpec`); let `t` be the Go state reached, `u = len(Data) − W` its
    unparsed bytes, `bs = BlockSize`, `r = ⌈u / bs⌉`.  Then ANY further sequence of translated `Parse(nil, flags_k)` calls
    (`fl`: ghost values and flags, all arbitrary) runs without panic and returns
    exactly `drainRes bs u 0 fl`: call `k < r` returns `n = min(bs, u − k·bs) > 0` and `nil`, every call `k ≥ r` returns
    `(0, ErrEmptyBuffer)` — `ErrEmptyBuffer` is reached after exactly `r` calls —, each hands its ghost block back; the
    returned `n` sum to `min(u, m·bs)` (`m` = number of calls), `W` ends at `min(len(Data), W + m·bs)` with `len(Data)`
    unchanged; once `m ≥ r` the `n` sum to the unparsed length `u` and `W = len(Data)`. -/
theorem C14_drains_go_text_bup (cfg : Gen.BUPConfig) (s0 : Gen.bucketParser)
    (hinit : bucketParser_init default cfg = Res.ok (s0, Gen.Err.ok))
    (extra : Nat) (grow : Nat → Nat → Nat) (fuel : Nat) (lcp : Slice → Slice → Int) (hlcp : LcpSpec lcp)
    (SO : SOFun) (hSO : ShiftSpec SO)
    (hfuel : s0.bucketDictionary.ParserBuffer.BufConfig.BufferSize.toNat + 3 ≤ fuel)
    (ops : List GOpN) (hwf : ∀ op ∈ ops, op.WF) (fl : List (Gen.Block' × Int)) :
    ∃ t rs, runN (rfGo extra) grow fuel lcp SO s0 ops = Res.ok (t, rs) ∧
      let bs := t.bucketDictionary.ParserBuffer.BufConfig.BlockSize.toNat
      let u := t.bucketDictionary.ParserBuffer.Data.len - t.bucketDictionary.ParserBuffer.W.toNat
      let r := (u + bs - 1) / bs
      ∃ t', runN (rfGo extra) grow fuel lcp SO t (nilOps fl) = Res.ok (t', drainRes bs u 0 fl) ∧
        nSum (drainRes bs u 0 fl) = ((Min.min u (fl.length * bs) : Nat) : Int) ∧
        t'.bucketDictionary.ParserBuffer.Data.len = t.bucketDictionary.ParserBuffer.Data.len ∧
        t'.bucketDictionary.ParserBuffer.W =
          ((Min.min t.bucketDictionary.ParserBuffer.Data.len
            (t.bucketDictionary.ParserBuffer.W.toNat + fl.length * bs) : Nat) : Int) ∧
        (r ≤ fl.length → nSum (drainRes bs u 0 fl) = (u : Int) ∧
          t'.bucketDictionary.ParserBuffer.W = (t.bucketDictionary.ParserBuffer.Data.len : Int)) := by
  obtain ⟨p, t, rs, hp, h0, h1, hH, hbc, hf, -, -, -⟩ :=
    gen_bup_history_nil cfg s0 hinit extra grow fuel lcp hlcp SO hSO hfuel ops hwf
  exact ⟨t, rs, h1, drain_core hbc (newParser_inv .BUP (ofBUP cfg) p hp).2.2 (rfGo extra) (rfGo_spec extra) grow fuel
    lcp hlcp SO hSO hf t hH fl⟩

end LZ.GenBUPHist

#print axioms LZ.GenBUPHist.resultsAgreeN_nil
#print axioms LZ.GenBUPHist.drain_core
#print axioms LZ.GenBUPHist.C14_drains_go_text_bup
