/-
  LzProofs.ParseLoop — the greedy loop shared by HP, BHP, DHP, BDHP, BUP and GSAP:
  loop invariant (`greedyLoop_inv`) and the block-level facts about `runGreedy`
  (C01 round trip, C02 well-formedness, C03 accounting, C19 lifted to sequences).
-/
import LzProofs.ParseProbe
import LzModel.Parser
namespace LZ

/-! ## sequences with positions -/

/-- number of stream bytes the sequences cover -/
def seqsSpan (ss : List Seq) : Nat := (ss.map fun s => s.litLen + s.matchLen).sum

/-- number of literal bytes the sequences claim -/
def litSum (ss : List Seq) : Nat := (ss.map (·.litLen)).sum

/-- sum of the match lengths -/
def matchSum (ss : List Seq) : Nat := (ss.map (·.matchLen)).sum

/-- `P pos s` holds for every sequence `s`, where `pos` is the position of the first byte
    the sequence covers (its match starts at `pos + s.litLen`) when the first sequence
    starts at the given position -/
def SeqsAll (P : Nat → Seq → Prop) : Nat → List Seq → Prop
  | _, [] => True
  | pos, s :: ss => P pos s ∧ SeqsAll P (pos + s.litLen + s.matchLen) ss

@[simp] theorem seqsSpan_nil : seqsSpan [] = 0 := rfl
@[simp] theorem litSum_nil : litSum [] = 0 := rfl
@[simp] theorem matchSum_nil : matchSum [] = 0 := rfl
@[simp] theorem seqsSpan_cons (s : Seq) (ss : List Seq) :
    seqsSpan (s :: ss) = s.litLen + s.matchLen + seqsSpan ss := by simp [seqsSpan]
@[simp] theorem litSum_cons (s : Seq) (ss : List Seq) :
    litSum (s :: ss) = s.litLen + litSum ss := by simp [litSum]
@[simp] theorem matchSum_cons (s : Seq) (ss : List Seq) :
    matchSum (s :: ss) = s.matchLen + matchSum ss := by simp [matchSum]
@[simp] theorem seqsSpan_append (a b : List Seq) : seqsSpan (a ++ b) = seqsSpan a + seqsSpan b := by
  simp [seqsSpan]
@[simp] theorem litSum_append (a b : List Seq) : litSum (a ++ b) = litSum a + litSum b := by
  simp [litSum]
@[simp] theorem matchSum_append (a b : List Seq) : matchSum (a ++ b) = matchSum a + matchSum b := by
  simp [matchSum]

theorem seqsSpan_eq (ss : List Seq) : seqsSpan ss = litSum ss + matchSum ss := by
  induction ss with
  | nil => rfl
  | cons s ss ih => simp [ih]; omega

theorem SeqsAll_append (P : Nat → Seq → Prop) (pos : Nat) (a b : List Seq) :
    SeqsAll P pos (a ++ b) ↔ SeqsAll P pos a ∧ SeqsAll P (pos + seqsSpan a) b := by
  induction a generalizing pos with
  | nil => simp [SeqsAll]
  | cons s ss ih =>
    simp only [List.cons_append, SeqsAll, ih, seqsSpan_cons]
    have e : pos + s.litLen + s.matchLen + seqsSpan ss = pos + (s.litLen + s.matchLen + seqsSpan ss) := by
      omega
    rw [e, and_assoc]

theorem SeqsAll.mono {P Q : Nat → Seq → Prop} (h : ∀ pos s, P pos s → Q pos s) :
    ∀ (pos : Nat) (ss : List Seq), SeqsAll P pos ss → SeqsAll Q pos ss := by
  intro pos ss
  induction ss generalizing pos with
  | nil => intro _; trivial
  | cons s ss ih => intro ⟨a, b⟩; exact ⟨h _ _ a, ih _ b⟩

theorem SeqsAll.and {P Q : Nat → Seq → Prop} :
    ∀ (pos : Nat) (ss : List Seq), SeqsAll P pos ss → SeqsAll Q pos ss →
      SeqsAll (fun pos s => P pos s ∧ Q pos s) pos ss := by
  intro pos ss
  induction ss generalizing pos with
  | nil => intro _ _; trivial
  | cons s ss ih => intro ⟨a, b⟩ ⟨c, d⟩; exact ⟨⟨a, c⟩, ih _ b d⟩

/-- `SeqsAll` spelled out: the `i`-th sequence satisfies `P` at the position reached after
    the first `i` sequences -/
theorem SeqsAll_iff (P : Nat → Seq → Prop) (pos : Nat) (ss : List Seq) :
    SeqsAll P pos ss ↔ ∀ i (h : i < ss.length), P (pos + seqsSpan (ss.take i)) ss[i] := by
  induction ss generalizing pos with
  | nil => simp [SeqsAll]
  | cons s ss ih =>
    simp only [SeqsAll, ih]
    constructor
    · intro ⟨h0, h1⟩ i hi
      cases i with
      | zero => simpa using h0
      | succ i =>
        have := h1 i (by simpa using hi)
        simp only [List.take_succ_cons, seqsSpan_cons, List.getElem_cons_succ]
        have e : pos + (s.litLen + s.matchLen + seqsSpan (ss.take i)) =
            pos + s.litLen + s.matchLen + seqsSpan (ss.take i) := by omega
        rw [e]; exact this
    · intro h
      refine ⟨by have := h 0 (by simp); simpa using this, ?_⟩
      intro i hi
      have := h (i + 1) (by simpa using hi)
      simp only [List.take_succ_cons, seqsSpan_cons, List.getElem_cons_succ] at this
      have e : pos + (s.litLen + s.matchLen + seqsSpan (ss.take i)) =
          pos + s.litLen + s.matchLen + seqsSpan (ss.take i) := by omega
      rw [e] at this; exact this

/-! ## the loop invariant -/

/-- what a finder guarantees about the sequence built from each of its matches
    (`pos` = first uncovered byte = start of the sequence's literals) -/
def ProbeSeq {δ} (F : Finder δ) (p : List Byte) (Q : Nat → Seq → Prop) : Prop :=
  ∀ d i li d' s k o, li ≤ i → F.probe d p i li = (d', some (s, k, o)) →
    Q li { litLen := s - li, matchLen := k, offset := o }

/-- Invariant of the greedy loop on the block prefix `p` started at `w`:
    the sequences and literals collected so far expand (on top of `p.take w`) to exactly
    `p.take litIndex` with no literal left over, they cover `[w, litIndex)`, and every
    sequence satisfies `Q` at its position. -/
structure LoopInv {δ} (p : List Byte) (w : Nat) (Q : Nat → Seq → Prop) (st : LoopSt δ) : Prop where
  w_le : w ≤ st.litIndex
  li_le_i : st.litIndex ≤ st.i
  li_le_len : st.litIndex ≤ p.length
  exp : expandSeqs (p.take w) st.lits st.seqs = some (p.take st.litIndex, [])
  span : w + seqsSpan st.seqs = st.litIndex
  lits : litSum st.seqs = st.lits.length
  all : SeqsAll Q w st.seqs
  prog : st.seqs ≠ [] → w < st.litIndex

theorem LoopInv.init {δ} (p : List Byte) (w : Nat) (Q : Nat → Seq → Prop) (d : δ) (hw : w ≤ p.length) :
    LoopInv p w Q ({ dict := d, i := w, litIndex := w, seqs := [], lits := [] } : LoopSt δ) :=
  ⟨Nat.le_refl _, Nat.le_refl _, hw, by simp [expandSeqs], by simp, by simp, trivial, by simp⟩

theorem greedyLoop_inv {δ} (F : Finder δ) (p : List Byte) (ws mm w stop : Nat)
    (Q : Nat → Seq → Prop) (hF : ProbeOK F p ws mm) (hQ : ProbeSeq F p Q) :
    ∀ st : LoopSt δ, LoopInv p w Q st → LoopInv p w Q (greedyLoop F p stop st) := by
  intro st
  induction st using greedyLoop.induct F p stop with
  | case1 st h d hp ih =>
    intro hinv
    rw [greedyLoop]; simp only [h, dite_true]
    split
    · rename_i d2 heq
      rw [hp] at heq
      simp only [Prod.mk.injEq, and_true] at heq
      subst heq
      apply ih
      exact { hinv with li_le_i := by have := hinv.li_le_i; simp; omega }
    · rename_i d2 s2 k2 o2 heq
      rw [hp] at heq; simp at heq
  | case2 st h d s k o hp hk q ih =>
    intro hinv
    rw [greedyLoop]; simp only [h, dite_true]
    split
    · rename_i d2 heq
      rw [hp] at heq; simp at heq
    · rename_i d2 s2 k2 o2 heq
      rw [hp] at heq
      simp only [Prod.mk.injEq, Option.some.injEq] at heq
      obtain ⟨hd, hs, hk2, ho⟩ := heq
      subst hd hs hk2 ho
      simp only [hk, dite_true]
      apply ih
      obtain ⟨p1, p2, p3, hm, p5, p6⟩ := hF _ _ _ _ _ _ _ hinv.li_le_i hp
      have hq' := hQ _ _ _ _ _ _ _ hinv.li_le_i hp
      have hsl : s ≤ p.length := by have := hm.2.2.1; omega
      have hq : q.length = s - st.litIndex := by simp [q]; omega
      refine ⟨by simp; have := hinv.w_le; omega, by simp, by simp; exact hm.2.2.1, ?_, ?_, ?_, ?_, ?_⟩
      · simp only
        rw [expandSeqs_snoc _ _ _ _ _ _ hinv.exp]
        exact expandSeqs_step p st.litIndex s k o p1 hm
      · simp only [seqsSpan_append, seqsSpan_cons, seqsSpan_nil]
        have := hinv.span; omega
      · simp only [litSum_append, litSum_cons, litSum_nil, List.length_append]
        have := hinv.lits; omega
      · simp only
        rw [SeqsAll_append]
        refine ⟨hinv.all, ?_, trivial⟩
        rw [hinv.span, hq]; exact hq'
      · intro _; simp only; have := hinv.w_le; omega
  | case3 st h d s k o hp hk =>
    intro hinv
    rw [greedyLoop]; simp only [h, dite_true]
    split
    · rename_i d2 heq
      rw [hp] at heq; simp at heq
    · rename_i d2 s2 k2 o2 heq
      rw [hp] at heq
      simp only [Prod.mk.injEq, Option.some.injEq] at heq
      obtain ⟨hd, hs, hk2, ho⟩ := heq
      subst hd hs hk2 ho
      exact absurd (hF _ _ _ _ _ _ _ hinv.li_le_i hp).2.2.1 hk
  | case4 st h =>
    intro hinv
    rw [greedyLoop]; simp only [h, dite_false]; exact hinv

/-! ## per-sequence properties -/

/-- C02: a sequence whose literals start at (buffer) position `pos` is well-formed for
    window size `ws` and minimum match length `mm` -/
def SeqWF (ws mm : Nat) (pos : Nat) (s : Seq) : Prop :=
  1 ≤ s.offset ∧ s.offset ≤ ws ∧ s.offset ≤ pos + s.litLen ∧ mm ≤ s.matchLen ∧ s.aux = 0

/-- the match of the sequence is a genuine match in `p` -/
def SeqGenuine (p : List Byte) (pos : Nat) (s : Seq) : Prop :=
  MatchOK p (pos + s.litLen) s.matchLen s.offset

/-- C19: the match cannot be extended to the right inside `p` -/
def SeqRightMax (p : List Byte) (pos : Nat) (s : Seq) : Prop :=
  pos + s.litLen + s.matchLen = p.length ∨
    p[pos + s.litLen + s.matchLen]? ≠ p[pos + s.litLen + s.matchLen - s.offset]?

/-- C19 (BHP, BDHP): no literal is left directly in front of the match when it equals the
    byte `offset` before it and that byte is buffered: either the sequence has no literal,
    or the match source starts at the buffer start, or the two bytes differ -/
def SeqLeftMax (p : List Byte) (pos : Nat) (s : Seq) : Prop :=
  s.litLen = 0 ∨ s.offset = pos + s.litLen ∨
    p[pos + s.litLen - 1]? ≠ p[pos + s.litLen - 1 - s.offset]?

/-- everything the greedy parsers guarantee about a sequence -/
def SeqGood (p : List Byte) (ws mm : Nat) (back : Bool) (pos : Nat) (s : Seq) : Prop :=
  SeqWF ws mm pos s ∧ SeqGenuine p pos s ∧ SeqRightMax p pos s ∧ (back = true → SeqLeftMax p pos s)

theorem Verifying.probeSeq {δ} {F : Finder δ} {p : List Byte} {ws mm : Nat} {back : Bool}
    (h : Verifying F p ws mm back) (hmm : 1 ≤ mm) : ProbeSeq F p (SeqGood p ws mm back) := by
  intro d i li d' s k o hli hp
  obtain ⟨⟨h1, h2, h3, h4, h5, h6⟩, hr, hl⟩ := (h d i li d' s k o hp).ok hmm hli
  have e : li + (s - li) = s := by omega
  refine ⟨⟨h4.1, h5, ?_, h6, rfl⟩, ?_, ?_, ?_⟩
  · simp only [e]; exact h4.2.1
  · simp only [SeqGenuine, e]; exact h4
  · simp only [SeqRightMax, e]; exact hr
  · intro hb
    simp only [SeqLeftMax, e]
    rcases hl hb with h | h | h
    · left; omega
    · right; left; exact h.symm
    · right; right; exact h

/-! ## block level -/

/-- What every parser guarantees about one emitted block: `p` is the buffer up to the block
    end, `w` the old and `w'` the new parse position, `Q` a per-sequence property. -/
structure BlockOK (p : List Byte) (w flags : Nat) (Q : Nat → Seq → Prop) (w' : Nat) (blk : Block) :
    Prop where
  /-- C01: the reference expander reproduces exactly the covered bytes -/
  roundtrip : expand (p.take w) blk = some (p.take w')
  le : w ≤ w'
  le_len : w' ≤ p.length
  /-- C03: progress -/
  prog : w < p.length → w < w'
  /-- C03: `n = w' - w` is the number of bytes the block represents -/
  len : w + blk.len = w'
  /-- C02 / C19: every sequence satisfies `Q` at its position -/
  all : SeqsAll Q w blk.seqs
  /-- C02: the sequences never claim more literals than the block carries -/
  lits : litSum blk.seqs ≤ blk.lits.length
  /-- C03: without `NoTrailingLiterals` (or without any match) the block reaches the block end -/
  full : flags % 2 = 0 ∨ blk.seqs = [] → w' = p.length
  /-- C03: with `NoTrailingLiterals` and a match the block ends with its last match -/
  trunc : flags % 2 = 1 → blk.seqs ≠ [] →
    blk.lits.length = litSum blk.seqs ∧ w' = w + seqsSpan blk.seqs

theorem Block.len_eq (b : Block) : b.len = b.lits.length + matchSum b.seqs := rfl

theorem finishBlock_ok {δ} (p : List Byte) (w flags : Nat) (Q : Nat → Seq → Prop) (st : LoopSt δ)
    (h : LoopInv p w Q st) :
    BlockOK p w flags Q (finishBlock p flags st).1 (finishBlock p flags st).2 := by
  have hspan := h.span
  have hlits := h.lits
  have hse := seqsSpan_eq st.seqs
  unfold finishBlock
  split
  · rename_i hc
    refine ⟨?_, h.w_le, h.li_le_len, fun _ => h.prog hc.2, ?_, h.all, by simp [hlits], ?_, ?_⟩
    · simp only [expand, h.exp]; simp
    · simp only [Block.len_eq]; omega
    · intro hh; rcases hh with hh | hh
      · omega
      · exact absurd hh hc.2
    · intro _ _; simp only; omega
  · rename_i hc
    have hli := h.li_le_len
    have hwl := h.w_le
    refine ⟨?_, by simp only; omega, by simp, fun hw => by simp only; omega, ?_, h.all,
      by simp; omega, fun _ => rfl, ?_⟩
    · simp only [expand, expandSeqs_append_lits _ _ _ _ _ _ h.exp]
      simp
    · simp only [Block.len_eq, List.length_append, List.length_drop]; omega
    · intro h1 h2; exact absurd ⟨h1, h2⟩ hc

/-- Block-level theorem for all greedy parsers: `runGreedy` with a finder that satisfies the
    probe contract produces a correct block, whatever the dictionary `d` contains. -/
theorem runGreedy_ok {δ} (F : Finder δ) (d : δ) (p : List Byte) (ws mm w stop flags : Nat)
    (Q : Nat → Seq → Prop) (hF : ProbeOK F p ws mm) (hQ : ProbeSeq F p Q) (hw : w ≤ p.length) :
    BlockOK p w flags Q (Parser.runGreedy F d p w stop flags).2.1 (Parser.runGreedy F d p w stop flags).2.2.1 := by
  have := greedyLoop_inv F p ws mm w stop Q hF hQ _ (LoopInv.init p w Q d hw)
  exact finishBlock_ok p w flags Q _ this

end LZ
