/-
  LzProofs.GenBHPDrain — C14 "repeated `Parse(nil)` drains the buffer" about the Go text of BHP: `C14_drains`
  (LzProofs/ParseProps.lean) transported along `runN_sim` of LzProofs/GenBHPHistNil.lean.  The histories of BHP are over the
  `GOpN` / `GResN` of LZ.GenHPHist, so `nilOps`, `drainRes`, `nSum`, `resultsAgreeN_nil`, `modelNilRes_drain`, `nSum_drainRes`
  are those of LzProofs/GenHPDrain.lean; the buffer part is `drain_buf` of LzProofs/GenDrainShared.lean.  `lcs` stays the opaque
  parameter of the translation of bhp.go under `LcsSpec` (the drain calls never call it; the history before them may).
  No sorry, no axioms of its own.

    drain_core              from a state with `HistOK`
    C14_drains_go_text_bhp  after ANY history from `init`: the calls `Parse(nil, ·)` return exactly `drainRes bs u 0`
-/
import LzProofs.GenBHPHistNil
import LzProofs.GenDrainShared

set_option linter.unusedSimpArgs false
set_option linter.unusedVariables false

namespace LZ.GenBHPHist
open LZ LZ.Gen LZ.GenBuf LZ.GenHash LZ.GenHPParse LZ.GenBHPParse LZ.GenProps LZ.GenNil
open LZ.GenHPHist (BCOK RFun RFSpec rfGo rfGo_spec GOpN GResN GOpN.WF GOpN.abs ResultsAgreeN
  nilOps drainRes nSum nilOps_wf resultsAgreeN_nil runOps_nilOps modelNilRes_drain nSum_drainRes)

/-- draining from a Go state with `HistOK` (block size `≥ 1`) -/
theorem drain_core {bc : BufCfg} (hbc : BCOK bc) (hbs1 : 1 ≤ bc.blockSize) (RF : RFun) (hRF : RFSpec RF)
    (grow : Nat → Nat → Nat) (fuel : Nat) (lcs : Slice → Slice → Int) (hlcs : LcsSpec lcs)
    (hfuel : 2 * bc.bufferSize + 3 ≤ fuel) (t : Gen.backwardHashParser) (hH : HistOK bc t)
    (fl : List (Gen.Block' × Int)) :
    let bs := t.hashDictionary.ParserBuffer.BufConfig.BlockSize.toNat
    let u := t.hashDictionary.ParserBuffer.Data.len - t.hashDictionary.ParserBuffer.W.toNat
    let r := (u + bs - 1) / bs
    ∃ t', runN RF grow fuel lcs t (nilOps fl) = Res.ok (t', drainRes bs u 0 fl) ∧
      nSum (drainRes bs u 0 fl) = ((Min.min u (fl.length * bs) : Nat) : Int) ∧
      t'.hashDictionary.ParserBuffer.Data.len = t.hashDictionary.ParserBuffer.Data.len ∧
      t'.hashDictionary.ParserBuffer.W =
        ((Min.min t.hashDictionary.ParserBuffer.Data.len (t.hashDictionary.ParserBuffer.W.toNat + fl.length * bs) : Nat) : Int) ∧
      (r ≤ fl.length → nSum (drainRes bs u 0 fl) = (u : Int) ∧
        t'.hashDictionary.ParserBuffer.W = (t.hashDictionary.ParserBuffer.Data.len : Int)) := by
  intro bs u r
  obtain ⟨t', rs', k1, k2, k3, -, k5⟩ :=
    runN_sim hbc RF hRF grow fuel lcs hlcs hfuel (nilOps fl) t Ghost.init hH (nilOps_wf fl)
  have hw := hH.hw
  have hbs : 1 ≤ (ofBHPs t).buf.cfg.blockSize := by
    have hc : (ofBHPs t).buf.cfg = bc := hH.cfg
    rw [hc]; exact hbs1
  have hrs : rs' = drainRes bs u 0 fl := by
    rw [resultsAgreeN_nil fl _ _ k5]
    have := modelNilRes_drain (ofBHPs t) hw hbs fl 0
    rw [hH.dataLen] at this
    exact this
  have hsum := nSum_drainRes bs u fl 0
  rw [Nat.zero_mul, Nat.sub_zero] at hsum
  have hst : ofBHPs t' = Parser.nilIter fl.length (ofBHPs t) := by rw [k3, runOps_nilOps]
  obtain ⟨b1, b2, b3⟩ := GenDrain.drain_buf (ofBHPs t) (ofBHPs t') fl.length hw hbs hst
    t.hashDictionary.ParserBuffer.Data.len t'.hashDictionary.ParserBuffer.Data.len
    t.hashDictionary.ParserBuffer.W t'.hashDictionary.ParserBuffer.W hH.dataLen k2.dataLen rfl rfl k2.pok.wf.1.w
  refine ⟨t', by rw [← hrs]; exact k1, hsum, b1, b2, fun hr => ?_⟩
  obtain ⟨c1, c2⟩ := b3 hr
  refine ⟨?_, c2⟩
  rw [hsum]
  exact congrArg Int.ofNat c1

/-- **C14 (repeated `Parse(nil)` drains the buffer) about the Go text of BHP.**  Run any history `ops` of the translated
    `Write`, `ReadFrom`, `Parse(&blk)`, `Parse(nil)`, `Shrink`, `Reset` from `backwardHashParser.init` (`lcs` under
    `LcsSpec`); let `t` be the Go state reached, `u = len(Data) − W` its unparsed bytes, `bs = BlockSize`, `r = ⌈u / bs⌉`.
    Then ANY further sequence of translated `Parse(nil, flags_k)` calls (`fl`: ghost values and flags, all arbitrary) runs
    without panic and returns exactly `drainRes bs u 0 fl`: call `k < r` returns `n = min(bs, u − k·bs) > 0` and `nil`, every
    call `k ≥ r` returns `(0, ErrEmptyBuffer)` — `ErrEmptyBuffer` is reached after exactly `r` calls —, each hands its ghost
    block back; the returned `n` sum to `min(u, m·bs)` (`m` = number of calls), `W` ends at `min(len(Data), W + m·bs)` with
    `len(Data)` unchanged; once `m ≥ r` the `n` sum to the unparsed length `u` and `W = len(Data)`. -/
theorem C14_drains_go_text_bhp (cfg : Gen.BHPConfig) (s0 : Gen.backwardHashParser)
    (hinit : backwardHashParser_init default cfg = Res.ok (s0, Gen.Err.ok))
    (extra : Nat) (grow : Nat → Nat → Nat) (fuel : Nat) (lcs : Slice → Slice → Int) (hlcs : LcsSpec lcs)
    (hfuel : 2 * s0.hashDictionary.ParserBuffer.BufConfig.BufferSize.toNat + 3 ≤ fuel)
    (ops : List GOpN) (hwf : ∀ op ∈ ops, op.WF) (fl : List (Gen.Block' × Int)) :
    ∃ t rs, runN (rfGo extra) grow fuel lcs s0 ops = Res.ok (t, rs) ∧
      let bs := t.hashDictionary.ParserBuffer.BufConfig.BlockSize.toNat
      let u := t.hashDictionary.ParserBuffer.Data.len - t.hashDictionary.ParserBuffer.W.toNat
      let r := (u + bs - 1) / bs
      ∃ t', runN (rfGo extra) grow fuel lcs t (nilOps fl) = Res.ok (t', drainRes bs u 0 fl) ∧
        nSum (drainRes bs u 0 fl) = ((Min.min u (fl.length * bs) : Nat) : Int) ∧
        t'.hashDictionary.ParserBuffer.Data.len = t.hashDictionary.ParserBuffer.Data.len ∧
        t'.hashDictionary.ParserBuffer.W =
          ((Min.min t.hashDictionary.ParserBuffer.Data.len (t.hashDictionary.ParserBuffer.W.toNat + fl.length * bs) : Nat) : Int) ∧
        (r ≤ fl.length → nSum (drainRes bs u 0 fl) = (u : Int) ∧
          t'.hashDictionary.ParserBuffer.W = (t.hashDictionary.ParserBuffer.Data.len : Int)) := by
  obtain ⟨p, t, rs, hp, h0, h1, hH, hbc, hf, -, -, -⟩ :=
    gen_bhp_history_nil cfg s0 hinit extra grow fuel lcs hlcs hfuel ops hwf
  exact ⟨t, rs, h1, drain_core hbc (newParser_inv .BHP (ofBHP cfg) p hp).2.2 (rfGo extra) (rfGo_spec extra) grow fuel lcs
    hlcs hf t hH fl⟩

end LZ.GenBHPHist

#print axioms LZ.GenBHPHist.drain_core
#print axioms LZ.GenBHPHist.C14_drains_go_text_bhp
