/-
  LzProofs.SapLemmas — helper lemmas for the suffix-array parsers:
  * the cost function `xzCost`,
  * the conditional update `relax1` on the DP table and its elementary facts.
-/
import LzModel.Sap
namespace LZ.Sap

/-! ## `xzCost` -/

theorem log2_mono {a b : Nat} (h : a ≤ b) : Nat.log2 a ≤ Nat.log2 b := by
  by_cases ha : a = 0
  · subst ha; simp
  · have hb : b ≠ 0 := by omega
    exact (Nat.le_log2 hb).2 (Nat.le_trans (Nat.log2_self_le ha) h)

theorem two_le_log2 {d : Nat} (h : 4 ≤ d) : 2 ≤ Nat.log2 d :=
  (Nat.le_log2 (by omega)).2 (by simpa using h)

/-- literal cost: `XZCost(1, 0) = 9` -/
theorem xzCost_one_zero : xzCost 1 0 = 9 := by simp [xzCost]

/-- `XZCost(i, 0) = 9 * i` -/
theorem xzCost_zero_offset (i : Nat) : xzCost i 0 = 9 * i := by simp [xzCost]

/-- C11 (i): for a fixed length the cost is non-decreasing in the offset (offsets `≥ 1`). -/
theorem xzCost_mono_offset (m : Nat) {o o' : Nat} (h1 : 1 ≤ o) (h : o ≤ o') :
    xzCost m o ≤ xzCost m o' := by
  have ho : o ≠ 0 := by omega
  have ho' : o' ≠ 0 := by omega
  simp only [xzCost, ho, ho', if_false]
  by_cases hd : o - 1 < 4
  · by_cases hd' : o' - 1 < 4
    · simp [hd, hd']
    · have := two_le_log2 (d := o' - 1) (by omega)
      simp only [hd, hd', if_true, if_false]; omega
  · have hd' : ¬ o' - 1 < 4 := by omega
    have := log2_mono (a := o - 1) (b := o' - 1) (by omega)
    simp only [hd, hd', if_false]; omega

/-- a match is never free: `XZCost(m, o) ≥ 8` for `o ≥ 1` -/
theorem xzCost_pos (m : Nat) {o : Nat} (h1 : 1 ≤ o) : 8 ≤ xzCost m o := by
  have ho : o ≠ 0 := by omega
  simp only [xzCost, ho, if_false]
  have hc : 4 ≤ (if (m + 4294967296 - 2) % 4294967296 < 8 then 4
      else if (m + 4294967296 - 2) % 4294967296 < 16 then 5 else 10) := by
    split
    · omega
    · split <;> omega
  by_cases hd : o - 1 < 4
  · simp only [hd, if_true]; omega
  · simp only [hd, if_false]
    have := two_le_log2 (d := o - 1) (by omega)
    omega

/-! ## the DP table -/

/-- cost entry `d[j].c` (0 outside the table) -/
def cst (d : Array Opt) (j : Nat) : Nat := (d.getD j default).c

/-- the one update the DP ever performs: `if e.c < d[j].c { d[j] = e }` -/
def relax1 (d : Array Opt) (j : Nat) (e : Opt) : Array Opt :=
  if e.c < (d.getD j default).c then d.setIfInBounds j e else d

theorem getD_setIfInBounds (d : Array Opt) (j k : Nat) (e : Opt) :
    (d.setIfInBounds j e).getD k default = if k = j ∧ j < d.size then e else d.getD k default := by
  simp only [Array.getD_eq_getD_getElem?, Array.getElem?_setIfInBounds]
  by_cases hk : k = j
  · subst hk
    by_cases hs : k < d.size <;> simp [hs]
  · have : ¬ j = k := fun h => hk h.symm
    simp [hk, this]

@[simp] theorem relax1_size (d : Array Opt) (j : Nat) (e : Opt) : (relax1 d j e).size = d.size := by
  unfold relax1; split <;> simp

theorem relax1_getD_ne (d : Array Opt) {j k : Nat} (e : Opt) (h : k ≠ j) :
    (relax1 d j e).getD k default = d.getD k default := by
  unfold relax1; split
  · rw [getD_setIfInBounds]; simp [h]
  · rfl

theorem relax1_getD_self (d : Array Opt) (j : Nat) (e : Opt) :
    (relax1 d j e).getD j default = (if e.c < cst d j then e else d.getD j default) := by
  unfold relax1 cst; split
  · rename_i h
    rw [getD_setIfInBounds]
    have : j < d.size := by
      by_cases hs : j < d.size
      · exact hs
      · exfalso
        have : d.getD j default = default := by
          simp [Array.getD_eq_getD_getElem?, Array.getElem?_eq_none (Nat.le_of_not_lt hs)]
        rw [this] at h; exact Nat.not_lt_zero _ h
    simp [this]
  · rfl

theorem relax1_cst_le (d : Array Opt) (j k : Nat) (e : Opt) : cst (relax1 d j e) k ≤ cst d k := by
  by_cases h : k = j
  · subst h
    unfold cst; rw [relax1_getD_self]; unfold cst
    split
    · omega
    · exact Nat.le_refl _
  · unfold cst; rw [relax1_getD_ne d e h]; exact Nat.le_refl _

theorem relax1_cst_self (d : Array Opt) (j : Nat) (e : Opt) : cst (relax1 d j e) j ≤ e.c := by
  unfold cst; rw [relax1_getD_self]; unfold cst
  split
  · exact Nat.le_refl _
  · omega

theorem relax1_noop (d : Array Opt) (j : Nat) (e : Opt) (h : cst d j ≤ e.c) : relax1 d j e = d := by
  unfold relax1; unfold cst at h
  split
  · omega
  · rfl

end LZ.Sap
