/-
  LzProofs.PBufLemmas — helper lemmas about `LZ.PBuf` (model of Go's `ParserBuffer`).
  Invariant `PInv`, single-operation lemmas for `grow`, `write`, `shrink`, `reset`,
  `peekAt`/`readAt`/`byteAt`, the `readLoop` induction, chunking independence.
-/
import LzModel.PBuf
namespace LZ
namespace PBuf

/-! ## facts about the generated constants (proved by `decide`; names are stable under regeneration) -/

theorem margin_eq : Facts.margin = 7 := by decide
theorem chunkSize_pos : 0 < Facts.chunkSize := by decide

/-! ## the invariant -/

/-- `PInv b fed`: `b` is a sliding view of the stream `fed` (everything accepted since the last
    `Reset`): `b.data` is `fed` without its first `b.off` bytes; the parse position is inside the
    data; the data never exceed `BufferSize`; a non-empty buffer has the 7 byte margin. -/
structure PInv (b : PBuf) (fed : List Byte) : Prop where
  view : fed.drop b.off = b.data
  off_le : b.off ≤ fed.length
  w_le : b.w ≤ b.data.length
  len_le : b.data.length ≤ b.cfg.bufferSize
  margin : b.data = [] ∨ b.data.length + Facts.margin ≤ b.cap

theorem PInv.fed_eq {b : PBuf} {fed : List Byte} (h : PInv b fed) :
    fed = fed.take b.off ++ b.data := by
  rw [← h.view, List.take_append_drop]

theorem PInv.fed_length {b : PBuf} {fed : List Byte} (h : PInv b fed) :
    fed.length = b.off + b.data.length := by
  have := h.view
  have h2 := congrArg List.length this
  simp at h2
  have := h.off_le
  omega

theorem PInv.margin' {b : PBuf} {fed : List Byte} (h : PInv b fed) (hne : b.data ≠ []) :
    b.data.length + Facts.margin ≤ b.cap := by
  rcases h.margin with h | h
  · exact absurd h hne
  · exact h

theorem pinv_init (cfg : BufCfg) : PInv (init cfg) [] := by
  constructor <;> simp [init]

/-! ## grow -/

theorem grow_spec (b : PBuf) (t : Nat) (hlen : b.data.length ≤ t)
    (ht : t ≤ b.cfg.bufferSize) :
    ∃ c, b.grow t = some { b with cap := c } ∧ t + Facts.margin ≤ c := by
  unfold grow
  by_cases h1 : t + Facts.margin ≤ b.cap
  · exact ⟨b.cap, by simp [h1], h1⟩
  · simp only [h1, if_false]
    generalize hc0 : (if 2 * t + Facts.margin < Facts.growMin then Facts.growMin
      else 2 * t + Facts.margin) = c0
    generalize hc : (if c0 ≥ b.cfg.bufferSize + Facts.margin then b.cfg.bufferSize + Facts.margin
      else c0) = c
    have hc0' : 2 * t + Facts.margin ≤ c0 := by rw [← hc0]; split <;> omega
    have hc' : t + Facts.margin ≤ c ∧ b.data.length ≤ c := by
      rw [← hc]; split <;> omega
    exact ⟨c, by simp [hc'.2], hc'.1⟩

/-- the `if t + 7 > cap then grow t` idiom of `Write`/`ReadFrom` -/
theorem ensure_spec (b : PBuf) (t : Nat) (hlen : b.data.length ≤ t)
    (ht : t ≤ b.cfg.bufferSize) :
    ∃ c, (if t + Facts.margin > b.cap then b.grow t else some b) = some { b with cap := c }
      ∧ t + Facts.margin ≤ c := by
  split
  · exact grow_spec b t hlen ht
  · exact ⟨b.cap, rfl, by omega⟩

/-! ## write -/

/-- complete description of `Write` on a buffer holding at most `BufferSize` bytes -/
theorem write_spec (b : PBuf) (p : List Byte) (hlen : b.data.length ≤ b.cfg.bufferSize) :
    ∃ c, b.write p =
        ({ b with data := b.data ++ p.take (min p.length (b.cfg.bufferSize - b.data.length)),
                  cap := c },
         min p.length (b.cfg.bufferSize - b.data.length),
         if min p.length (b.cfg.bufferSize - b.data.length) < p.length then .full else .ok)
      ∧ b.data.length + min p.length (b.cfg.bufferSize - b.data.length) + Facts.margin ≤ c := by
  unfold write
  have h0 : ¬ b.cfg.bufferSize < b.data.length := by omega
  simp only [h0, if_false]
  by_cases hav : b.cfg.bufferSize - b.data.length < p.length
  · have hmin : min p.length (b.cfg.bufferSize - b.data.length) = b.cfg.bufferSize - b.data.length := by
      omega
    simp only [hav, if_true, hmin, List.length_take]
    have hmin' : min (b.cfg.bufferSize - b.data.length) p.length = b.cfg.bufferSize - b.data.length := by
      omega
    rw [hmin']
    obtain ⟨c, hc, hcm⟩ := ensure_spec b (b.data.length + (b.cfg.bufferSize - b.data.length))
      (by omega) (by omega)
    rw [hc]
    refine ⟨c, ?_, hcm⟩
    have : b.data.length + (b.cfg.bufferSize - b.data.length) ≤ c := by omega
    simp [this]
  · have hmin : min p.length (b.cfg.bufferSize - b.data.length) = p.length := by omega
    simp only [hav, if_false, hmin, List.take_length]
    obtain ⟨c, hc, hcm⟩ := ensure_spec b (b.data.length + p.length) (by omega) (by omega)
    rw [hc]
    refine ⟨c, ?_, hcm⟩
    have : b.data.length + p.length ≤ c := by omega
    simp [this]

/-! ## shrink -/

theorem shrink_spec (b : PBuf) :
    b.shrink = ({ b with data := b.data.drop (b.w - b.cfg.shrinkSize),
                         w := min b.cfg.shrinkSize b.w,
                         off := b.off + (b.w - b.cfg.shrinkSize) },
                b.w - b.cfg.shrinkSize) := by
  unfold shrink
  split
  · rename_i h
    have h1 : b.w - b.cfg.shrinkSize = 0 := by omega
    have h2 : min b.cfg.shrinkSize b.w = b.w := by omega
    simp [h1, h2]
  · rename_i h
    have h2 : min b.cfg.shrinkSize b.w = b.cfg.shrinkSize := by omega
    simp [h2]

theorem pinv_shrink {b : PBuf} {fed : List Byte} (h : PInv b fed) : PInv b.shrink.1 fed := by
  rw [shrink_spec]
  have hw := h.w_le
  have hl := h.fed_length
  constructor
  · simp only []
    rw [← h.view, List.drop_drop]
  · simp only []; omega
  · simp only [List.length_drop]; omega
  · simp only [List.length_drop]; have := h.len_le; omega
  · simp only [List.length_drop]
    rcases h.margin with hm | hm
    · left; simp [hm]
    · right; omega

/-! ## reset -/

theorem reset_oversize (b : PBuf) (data : List Byte) (capExtra : Nat)
    (h : b.cfg.bufferSize < data.length) : b.reset data capExtra = (b, .oversize) := by
  unfold reset; simp [h]

theorem reset_spec (b : PBuf) (data : List Byte) (capExtra : Nat)
    (h : data.length ≤ b.cfg.bufferSize) :
    ∃ c, b.reset data capExtra = ({ b with data := data, w := 0, off := 0, cap := c }, .ok)
      ∧ (data = [] ∨ data.length + Facts.margin ≤ c) := by
  unfold reset
  have h0 : ¬ data.length > b.cfg.bufferSize := by omega
  simp only [h0, if_false]
  by_cases h1 : data.length = 0
  · have : data = [] := List.eq_nil_of_length_eq_zero h1
    subst this
    exact ⟨b.cap, by simp, Or.inl rfl⟩
  · simp only [h1, if_false]
    split
    · split
      · exact ⟨_, rfl, Or.inr (Nat.le_refl _)⟩
      · exact ⟨_, rfl, Or.inr (by omega)⟩
    · exact ⟨_, rfl, Or.inr (by omega)⟩

theorem reset_err_iff (b : PBuf) (data : List Byte) (capExtra : Nat) :
    (b.reset data capExtra).2 = .oversize ↔ b.cfg.bufferSize < data.length := by
  by_cases h : b.cfg.bufferSize < data.length
  · simp [reset_oversize b data capExtra h, h]
  · obtain ⟨c, hc, -⟩ := reset_spec b data capExtra (by omega)
    simp [hc, h]

theorem pinv_reset (b : PBuf) (data : List Byte) (capExtra : Nat)
    (h : data.length ≤ b.cfg.bufferSize) : PInv (b.reset data capExtra).1 data := by
  obtain ⟨c, hc, hm⟩ := reset_spec b data capExtra h
  rw [hc]
  constructor <;> simp_all

/-! ## peekAt / readAt / byteAt -/

theorem peekAt_in {b : PBuf} {fed : List Byte} (h : PInv b fed) (n : Nat) (x : Int)
    (h1 : (b.off : Int) ≤ x) (h2 : x < (fed.length : Int)) :
    b.peekAt n x = (fed.drop x.toNat, if fed.length - x.toNat < n then .endOfBuffer else .ok) := by
  have hl := h.fed_length
  unfold peekAt
  have hc : 0 ≤ x - (b.off : Int) ∧ x - (b.off : Int) < (b.data.length : Int) := by omega
  simp only [hc, and_self, if_true]
  have hi : b.off + (x - (b.off : Int)).toNat = x.toNat := by omega
  have : b.data.drop (x - (b.off : Int)).toNat = fed.drop x.toNat := by
    rw [← h.view, List.drop_drop, hi]
  rw [this]
  simp

theorem peekAt_out {b : PBuf} {fed : List Byte} (h : PInv b fed) (n : Nat) (x : Int)
    (h1 : x < (b.off : Int) ∨ (fed.length : Int) ≤ x) :
    b.peekAt n x = ([], .outOfBuffer) := by
  have hl := h.fed_length
  unfold peekAt
  have hc : ¬ (0 ≤ x - (b.off : Int) ∧ x - (b.off : Int) < (b.data.length : Int)) := by omega
  simp only [hc, if_false]

theorem readAt_in {b : PBuf} {fed : List Byte} (h : PInv b fed) (n : Nat) (x : Int)
    (h1 : (b.off : Int) ≤ x) (h2 : x < (fed.length : Int)) :
    b.readAt n x = ((fed.drop x.toNat).take n,
      if fed.length - x.toNat < n then .endOfBuffer else .ok) := by
  unfold readAt; rw [peekAt_in h n x h1 h2]

theorem readAt_out {b : PBuf} {fed : List Byte} (h : PInv b fed) (n : Nat) (x : Int)
    (h1 : x < (b.off : Int) ∨ (fed.length : Int) ≤ x) :
    b.readAt n x = ([], .outOfBuffer) := by
  unfold readAt; rw [peekAt_out h n x h1]; simp

theorem byteAt_in {b : PBuf} {fed : List Byte} (h : PInv b fed) (x : Int)
    (h1 : (b.off : Int) ≤ x) (h2 : x < (fed.length : Int)) :
    b.byteAt x = ((fed[x.toNat]?).getD 0, .ok) := by
  have hl := h.fed_length
  unfold byteAt
  have hc : 0 ≤ x - (b.off : Int) ∧ x - (b.off : Int) < (b.data.length : Int) := by omega
  simp only [hc, and_self, if_true]
  have hi : b.off + (x - (b.off : Int)).toNat = x.toNat := by omega
  rw [← h.view, List.getElem?_drop, hi]

theorem byteAt_end {b : PBuf} {fed : List Byte} (h : PInv b fed) :
    b.byteAt (fed.length : Int) = (0, .endOfBuffer) := by
  have hl := h.fed_length
  unfold byteAt
  have hc : ¬ (0 ≤ (fed.length : Int) - (b.off : Int)
      ∧ (fed.length : Int) - (b.off : Int) < (b.data.length : Int)) := by omega
  have hc2 : (fed.length : Int) - (b.off : Int) = (b.data.length : Int) := by omega
  rw [if_neg hc, if_pos hc2]

theorem byteAt_out {b : PBuf} {fed : List Byte} (h : PInv b fed) (x : Int)
    (h1 : x < (b.off : Int) ∨ (fed.length : Int) < x) :
    b.byteAt x = (0, .outOfBuffer) := by
  have hl := h.fed_length
  unfold byteAt
  have hc : ¬ (0 ≤ x - (b.off : Int) ∧ x - (b.off : Int) < (b.data.length : Int)) := by omega
  have hc2 : ¬ (x - (b.off : Int) = (b.data.length : Int)) := by omega
  rw [if_neg hc, if_neg hc2]

/-! ## the loop of `ReadFrom` -/

theorem readLoop_full (b : PBuf) (r : Reader) (h : b.cfg.bufferSize ≤ b.data.length) :
    readLoop b r = (b, r, .full) := by
  unfold readLoop; simp [h]

/-- one iteration of the `ReadFrom` loop when there is room, with the capacity `c` pinned down
    as the result of the `grow` idiom -/
theorem readLoop_step_cap (b : PBuf) (r : Reader) (h : b.data.length < b.cfg.bufferSize) :
    ∃ c, min (b.data.length + Facts.chunkSize) b.cfg.bufferSize + Facts.margin ≤ c ∧
      (if min (b.data.length + Facts.chunkSize) b.cfg.bufferSize + Facts.margin > b.cap
        then b.grow (min (b.data.length + Facts.chunkSize) b.cfg.bufferSize) else some b)
        = some { b with cap := c } ∧
      readLoop b r =
        match r.resps with
        | [] => ({ b with cap := c }, r, .eof)
        | (mx, ec) :: rest =>
          let n := min3 mx (min (c - Facts.margin) b.cfg.bufferSize - b.data.length) r.payload.length
          let r' : Reader := ⟨r.payload.drop n, rest⟩
          let b'' : PBuf := { b with data := b.data ++ r.payload.take n, cap := c }
          if ec ≠ 0 then (b'', r', errOfCode ec) else readLoop b'' r' := by
  obtain ⟨c, hc, hcm⟩ := ensure_spec b (min (b.data.length + Facts.chunkSize) b.cfg.bufferSize)
    (by omega) (by omega)
  refine ⟨c, hcm, hc, ?_⟩
  rw [readLoop]
  have h0 : ¬ b.data.length ≥ b.cfg.bufferSize := by omega
  simp only [h0, if_false]
  rw [hc]
  simp only []
  have h1 : ¬ (c < Facts.margin ∨ min (c - Facts.margin) b.cfg.bufferSize < b.data.length) := by
    omega
  simp only [h1, if_false]
  split <;> rename_i hr
  · simp [hr]
  · simp [hr]

/-- one iteration of the `ReadFrom` loop when there is room: the slice handed to the reader is
    never empty and the Go code cannot panic.  A response with error code 0 always continues
    the loop, also when it delivered no byte (`(0, nil)`: "nothing happened"). -/
theorem readLoop_step (b : PBuf) (r : Reader) (h : b.data.length < b.cfg.bufferSize) :
    ∃ c, min (b.data.length + Facts.chunkSize) b.cfg.bufferSize + Facts.margin ≤ c ∧
      readLoop b r =
        match r.resps with
        | [] => ({ b with cap := c }, r, .eof)
        | (mx, ec) :: rest =>
          let n := min3 mx (min (c - Facts.margin) b.cfg.bufferSize - b.data.length) r.payload.length
          let r' : Reader := ⟨r.payload.drop n, rest⟩
          let b'' : PBuf := { b with data := b.data ++ r.payload.take n, cap := c }
          if ec ≠ 0 then (b'', r', errOfCode ec) else readLoop b'' r' := by
  obtain ⟨c, hc, -, hrl⟩ := readLoop_step_cap b r h
  exact ⟨c, hc, hrl⟩

/-- number of responses of a script that offer at least one byte -/
def offers (l : List (Nat × Nat)) : Nat := (l.filter (fun x => decide (1 ≤ x.1))).length

@[simp] theorem offers_nil : offers [] = 0 := rfl

theorem offers_cons (x : Nat × Nat) (l : List (Nat × Nat)) :
    offers (x :: l) = (if 1 ≤ x.1 then 1 else 0) + offers l := by
  unfold offers
  by_cases h : 1 ≤ x.1
  · simp [h]; omega
  · simp [h]

theorem offers_append (l₁ l₂ : List (Nat × Nat)) : offers (l₁ ++ l₂) = offers l₁ + offers l₂ := by
  unfold offers; simp

theorem offers_le_length (l : List (Nat × Nat)) : offers l ≤ l.length := by
  unfold offers; exact List.length_filter_le _ _

theorem offers_eq_length {l : List (Nat × Nat)} (h : ∀ x ∈ l, 1 ≤ x.1) : offers l = l.length := by
  unfold offers
  rw [List.filter_eq_self.2]
  intro x hx; simpa using h x hx

/-- Everything `readLoop b r` can do, for a buffer holding at most `BufferSize` bytes:
    it appends the first `k` payload bytes and consumes a prefix of the script; all consumed
    responses but possibly the last carry error code 0 (a response with code 0 never ends the
    loop, whether or not it delivered a byte); unless the payload ran out, every consumed
    code-0 response that offered a byte (`mx ≥ 1`) delivered at least one; and the loop stops
    for exactly one of three reasons. -/
def ReadOutcome (b : PBuf) (r : Reader) (res : PBuf × Reader × Err) : Prop :=
  ∃ (k c : Nat) (pre rest : List (Nat × Nat)) (e : Err),
    res = ({ b with data := b.data ++ r.payload.take k, cap := c }, ⟨r.payload.drop k, rest⟩, e) ∧
    k ≤ r.payload.length ∧ b.data.length + k ≤ b.cfg.bufferSize ∧
    ((b.data = [] ∨ b.data.length + Facts.margin ≤ b.cap) →
      (b.data = [] ∧ k = 0) ∨ b.data.length + k + Facts.margin ≤ c) ∧
    (∀ x ∈ pre, x.2 = 0) ∧ (k = r.payload.length ∨ offers pre ≤ k) ∧
    (-- (1) the buffer is full, the reader has not reported anything
     (e = .full ∧ r.resps = pre ++ rest ∧ b.data.length + k = b.cfg.bufferSize ∧
        (pre = [] → k = 0)) ∨
     -- (2) the script is exhausted (modelled as io.EOF)
     (e = .eof ∧ r.resps = pre ∧ rest = [] ∧ b.data.length + k < b.cfg.bufferSize ∧
        (pre = [] → k = 0)) ∨
     -- (3) the last consumed response reported the error `ec ≠ 0`
     (∃ mx ec, r.resps = pre ++ (mx, ec) :: rest ∧ ec ≠ 0 ∧ e = errOfCode ec))

theorem with_self (b : PBuf) : ({ b with data := b.data ++ [], cap := b.cap } : PBuf) = b := by
  cases b; simp

theorem readLoop_outcome_aux (resps : List (Nat × Nat)) :
    ∀ (b : PBuf) (payload : List Byte), b.data.length ≤ b.cfg.bufferSize →
      ReadOutcome b ⟨payload, resps⟩ (readLoop b ⟨payload, resps⟩) := by
  induction resps with
  | nil =>
    intro b payload hlen
    by_cases hfull : b.cfg.bufferSize ≤ b.data.length
    · rw [readLoop_full b _ hfull]
      refine ⟨0, b.cap, [], [], .full, ?_, by simp, by simpa using hlen, ?_, by simp,
        Or.inr (by simp), ?_⟩
      · simp
      · intro h; rcases h with h | h
        · exact Or.inl ⟨h, rfl⟩
        · exact Or.inr (by omega)
      · exact Or.inl ⟨rfl, by simp, by simp; omega, fun _ => rfl⟩
    · obtain ⟨c, hc, hrl⟩ := readLoop_step b ⟨payload, []⟩ (by omega)
      rw [hrl]
      refine ⟨0, c, [], [], .eof, ?_, by simp, by simpa using hlen, ?_, by simp,
        Or.inr (by simp), ?_⟩
      · simp
      · intro _; right; omega
      · exact Or.inr (Or.inl ⟨rfl, rfl, rfl, by omega, fun _ => rfl⟩)
  | cons x rest ih =>
    intro b payload hlen
    obtain ⟨mx, ec⟩ := x
    by_cases hfull : b.cfg.bufferSize ≤ b.data.length
    · rw [readLoop_full b _ hfull]
      refine ⟨0, b.cap, [], (mx, ec) :: rest, .full, ?_, by simp, by simpa using hlen, ?_,
        by simp, Or.inr (by simp), ?_⟩
      · simp
      · intro h; rcases h with h | h
        · exact Or.inl ⟨h, rfl⟩
        · exact Or.inr (by omega)
      · exact Or.inl ⟨rfl, by simp, by simp; omega, fun _ => rfl⟩
    · obtain ⟨c, hc, hrl⟩ := readLoop_step b ⟨payload, (mx, ec) :: rest⟩ (by omega)
      rw [hrl]
      simp only []
      generalize hn : min3 mx (min (c - Facts.margin) b.cfg.bufferSize - b.data.length)
        payload.length = n
      have hn1 : n ≤ payload.length := by rw [← hn]; simp only [min3]; omega
      have hn2 : b.data.length + n ≤ b.cfg.bufferSize := by rw [← hn]; simp only [min3]; omega
      have hn3 : b.data.length + n + Facts.margin ≤ c := by rw [← hn]; simp only [min3]; omega
      have hn4 : n = 0 → mx = 0 ∨ payload.length = 0 := by
        have := chunkSize_pos
        rw [← hn]; simp only [min3]; omega
      by_cases hec : ec ≠ 0
      · rw [if_pos hec]
        refine ⟨n, c, [], rest, _, rfl, hn1, hn2, fun _ => Or.inr hn3, by simp,
          Or.inr (by simp), ?_⟩
        exact Or.inr (Or.inr ⟨mx, ec, by simp, hec, rfl⟩)
      · rw [if_neg hec]
        have hec0 : ec = 0 := by omega
        have hmin : min n payload.length = n := Nat.min_eq_left hn1
        have := ih { b with data := b.data ++ payload.take n, cap := c } (payload.drop n)
          (by simp; omega)
        obtain ⟨k', c', pre', rest', e, hres, hk1, hk2, hk3, hpre, hprelen, hcase⟩ := this
        simp only [List.length_append, List.length_take, List.length_drop, hmin]
          at hk1 hk2 hk3 hprelen hcase
        refine ⟨n + k', c', (mx, ec) :: pre', rest', e, ?_,
          by show n + k' ≤ payload.length; omega,
          by omega, ?_, ?_, ?_, ?_⟩
        · rw [hres]
          simp only [List.append_assoc, List.drop_drop, ← List.take_add]
        · intro _
          have := hk3 (Or.inr (by omega))
          rcases this with ⟨h1, hk0⟩ | h
          · have := congrArg List.length h1
            simp only [List.length_append, List.length_take, List.length_nil, hmin] at this
            left
            exact ⟨List.eq_nil_of_length_eq_zero (by omega), by omega⟩
          · right; omega
        · intro x hx
          simp at hx
          rcases hx with hx | hx
          · rw [hx]; exact hec0
          · exact hpre x hx
        · show n + k' = payload.length ∨ offers ((mx, ec) :: pre') ≤ n + k'
          rw [offers_cons]
          simp only []
          rcases hprelen with h | h
          · left; clear hrl hres ih hcase; omega
          · by_cases hn0 : n = 0
            · rcases hn4 hn0 with h' | h'
              · right; rw [if_neg (by omega)]; omega
              · left; omega
            · right; split <;> omega
        · rcases hcase with ⟨h1, h2, h3, _⟩ | ⟨h1, h2, h3, h4, _⟩ | ⟨mx', ec', h1, h2, h3⟩
          · exact Or.inl ⟨h1, by simp only [] at h2 ⊢; rw [h2]; simp, by omega,
              fun h => by simp at h⟩
          · exact Or.inr (Or.inl ⟨h1, by simp only [] at h2 ⊢; rw [h2], h3, by omega,
              fun h => by simp at h⟩)
          · exact Or.inr (Or.inr ⟨mx', ec', by simp only [] at h1 ⊢; rw [h1]; simp, h2, h3⟩)

theorem readLoop_outcome (b : PBuf) (r : Reader) (hlen : b.data.length ≤ b.cfg.bufferSize) :
    ReadOutcome b r (readLoop b r) := by
  cases r; exact readLoop_outcome_aux _ _ _ hlen

theorem errOfCode_ne (c : Nat) (h : c ≠ 0) :
    errOfCode c ≠ .ok ∧ errOfCode c ≠ .panic ∧ errOfCode c ≠ .full ∧ errOfCode c ≠ .empty := by
  unfold errOfCode
  split <;> simp_all

theorem errOfCode_le_one (c : Nat) (h : c ≠ 0) (h1 : c ≤ 1) : errOfCode c = .eof := by
  have : c = 1 := by omega
  subst this; rfl

/-- `ReadFrom` in destructured form: what `b.readFrom r = (b', r', n, e)` means.  A response
    with code 0 never ends the loop: it ends with a full buffer, with the script exhausted
    (io.EOF), or with a response carrying a code `ec ≠ 0`. -/
theorem readFrom_master {b : PBuf} {r : Reader} (hlen : b.data.length ≤ b.cfg.bufferSize)
    {b' : PBuf} {r' : Reader} {n : Nat} {e : Err} (h : b.readFrom r = (b', r', n, e)) :
    ∃ (c : Nat) (pre : List (Nat × Nat)),
      b' = { b with data := b.data ++ r.payload.take n, cap := c } ∧
      r'.payload = r.payload.drop n ∧
      n ≤ r.payload.length ∧ b.data.length + n ≤ b.cfg.bufferSize ∧
      ((b.data = [] ∨ b.data.length + Facts.margin ≤ b.cap) →
        (b.data = [] ∧ n = 0) ∨ b.data.length + n + Facts.margin ≤ c) ∧
      (∀ x ∈ pre, x.2 = 0) ∧ (n = r.payload.length ∨ offers pre ≤ n) ∧
      ((e = .full ∧ r.resps = pre ++ r'.resps ∧ b.data.length + n = b.cfg.bufferSize ∧
          (pre = [] → n = 0)) ∨
       (e = .eof ∧ r.resps = pre ∧ r'.resps = [] ∧ b.data.length + n < b.cfg.bufferSize ∧
          (pre = [] → n = 0)) ∨
       (∃ mx ec, r.resps = pre ++ (mx, ec) :: r'.resps ∧ ec ≠ 0 ∧ e = errOfCode ec)) := by
  obtain ⟨k, c, pre, rest, e0, hres, hk1, hk2, hk3, hpre, hprelen, hcase⟩ := readLoop_outcome b r hlen
  unfold readFrom at h
  rw [hres] at h
  simp only [Prod.mk.injEq] at h
  obtain ⟨hb, hr, hn, he⟩ := h
  have hnk : n = k := by
    rw [← hn]; simp only [List.length_append, List.length_take]; omega
  subst hnk
  subst he
  refine ⟨c, pre, hb.symm, by rw [← hr], hk1, hk2, hk3, hpre, hprelen, ?_⟩
  rw [← hr]
  exact hcase

/-! ## preservation of the invariant by appending operations -/

theorem pinv_append {b : PBuf} {fed : List Byte} (h : PInv b fed) (q : List Byte) (c : Nat)
    (hlen : b.data.length + q.length ≤ b.cfg.bufferSize)
    (hm : (b.data = [] ∧ q = []) ∨ b.data.length + q.length + Facts.margin ≤ c) :
    PInv { b with data := b.data ++ q, cap := c } (fed ++ q) := by
  constructor
  · simp only []
    rw [List.drop_append_of_le_length h.off_le, h.view]
  · simp only [List.length_append]; have := h.off_le; omega
  · simp only [List.length_append]; have := h.w_le; omega
  · simpa using hlen
  · simp only [List.length_append]
    rcases hm with ⟨h1, h2⟩ | hm
    · left; simp [h1, h2]
    · right; exact hm

theorem pinv_write {b : PBuf} {fed : List Byte} (h : PInv b fed) (p : List Byte) :
    PInv (b.write p).1 (fed ++ p.take (b.write p).2.1) := by
  obtain ⟨c, hw, hc⟩ := write_spec b p h.len_le
  rw [hw]
  simp only []
  have := h.len_le
  apply pinv_append h
  · simp only [List.length_take]; omega
  · right; simp only [List.length_take]; omega

theorem pinv_readFrom {b : PBuf} {fed : List Byte} (h : PInv b fed) (r : Reader) :
    PInv (b.readFrom r).1 (fed ++ r.payload.take (b.readFrom r).2.2.1) := by
  obtain ⟨c, pre, hb, -, hn1, hn2, hm, -⟩ :=
    readFrom_master h.len_le (r := r) (b' := (b.readFrom r).1) (r' := (b.readFrom r).2.1)
      (n := (b.readFrom r).2.2.1) (e := (b.readFrom r).2.2.2) rfl
  rw [hb]
  apply pinv_append h
  · simp only [List.length_take]; omega
  · rcases hm h.margin with ⟨h1, h2⟩ | hm
    · left; exact ⟨h1, by rw [h2]; rfl⟩
    · right; simp only [List.length_take]; omega

theorem pinv_advance {b : PBuf} {fed : List Byte} (h : PInv b fed) (n : Nat)
    (hn : b.w + n ≤ b.data.length) : PInv { b with w := b.w + n } fed := by
  constructor
  · exact h.view
  · exact h.off_le
  · exact hn
  · exact h.len_le
  · exact h.margin

/-! ## filling: the result of `ReadFrom` does not depend on how the reader chunks -/

/-- A script that is error free, never returns `(0, nil)` before the payload is exhausted, and
    has at least `m` responses. -/
def FillScript (resps : List (Nat × Nat)) (m : Nat) : Prop :=
  (∀ x ∈ resps, x.2 = 0 ∧ 1 ≤ x.1) ∧ m ≤ resps.length

/-- The nil-tolerant version of `FillScript`: an error-free script that may contain `(0, nil)`
    answers (`mx = 0`) anywhere, with at least `m` responses that offer a byte. -/
def FillScriptN (resps : List (Nat × Nat)) (m : Nat) : Prop :=
  (∀ x ∈ resps, x.2 = 0) ∧ m ≤ offers resps

theorem FillScript.toN {resps : List (Nat × Nat)} {m : Nat} (h : FillScript resps m) :
    FillScriptN resps m :=
  ⟨fun x hx => (h.1 x hx).1, by rw [offers_eq_length (fun x hx => (h.1 x hx).2)]; exact h.2⟩

/-- If `ReadFrom` stopped because the buffer was full or with the payload exhausted, it stored
    exactly the longest prefix of the payload that fits. (No assumption on the script.) -/
theorem readFrom_fill_of_outcome {b : PBuf} {r : Reader} (hlen : b.data.length ≤ b.cfg.bufferSize)
    {b' : PBuf} {r' : Reader} {n : Nat} {e : Err} (h : b.readFrom r = (b', r', n, e))
    (hstop : e = .full ∨ r'.payload = []) :
    n = min r.payload.length (b.cfg.bufferSize - b.data.length) := by
  obtain ⟨c, pre, hb, hr, hn1, hn2, hm, hpre, hprelen, hcase⟩ := readFrom_master hlen h
  rcases hstop with hfull | hpl
  · subst hfull
    rcases hcase with ⟨_, _, h3, _⟩ | ⟨h1, _⟩ | ⟨mx, ec, _, hec, h2⟩
    · omega
    · cases h1
    · have := (errOfCode_ne ec hec).2.2.1
      exact absurd h2.symm this
  · rw [hr] at hpl
    have := congrArg List.length hpl
    simp at this
    omega

/-- With an error-free script that is long enough (`(0, nil)` answers allowed), `ReadFrom` stops
    because the buffer is full or the payload is exhausted. -/
theorem readFrom_stop_of_fillScriptN {b : PBuf} {r : Reader}
    (hlen : b.data.length ≤ b.cfg.bufferSize)
    (hs : FillScriptN r.resps (min r.payload.length (b.cfg.bufferSize - b.data.length)))
    {b' : PBuf} {r' : Reader} {n : Nat} {e : Err} (h : b.readFrom r = (b', r', n, e)) :
    (e = .full ∨ r'.payload = []) ∧ (e = .full ∨ e = .eof) ∧
    (e = .full ↔ b.cfg.bufferSize - b.data.length ≤ r.payload.length) := by
  obtain ⟨c, pre, hb, hr, hn1, hn2, hm, hpre, hprelen, hcase⟩ := readFrom_master hlen h
  obtain ⟨hs1, hs2⟩ := hs
  have hdrop : n = r.payload.length → r'.payload = [] := by
    intro hn; rw [hr, hn]; simp
  rcases hcase with ⟨h1, _, h3, _⟩ | ⟨h1, h2, h3, h4, _⟩ | ⟨mx, ec, h1, hec, h2⟩
  · refine ⟨Or.inl h1, Or.inl h1, ?_⟩
    simp only [h1, true_iff]; omega
  · have hk : n = r.payload.length := by
      rw [h2] at hs2; omega
    refine ⟨Or.inr (hdrop hk), Or.inr h1, ?_⟩
    simp only [h1]
    constructor
    · intro hh; cases hh
    · intro hh; omega
  · have hmem : (mx, ec) ∈ r.resps := by rw [h1]; simp
    exact absurd (hs1 _ hmem) hec

theorem readFrom_stop_of_fillScript {b : PBuf} {r : Reader}
    (hlen : b.data.length ≤ b.cfg.bufferSize)
    (hs : FillScript r.resps (min r.payload.length (b.cfg.bufferSize - b.data.length)))
    {b' : PBuf} {r' : Reader} {n : Nat} {e : Err} (h : b.readFrom r = (b', r', n, e)) :
    (e = .full ∨ r'.payload = []) ∧ (e = .full ∨ e = .eof) ∧
    (e = .full ↔ b.cfg.bufferSize - b.data.length ≤ r.payload.length) :=
  readFrom_stop_of_fillScriptN hlen hs.toN h

/-- A reader that never fails before its payload is exhausted, whatever room it is offered:
    error-free script, no `(0, nil)` answers while payload is left (`mx ≥ 1`), at least as many
    responses as payload bytes. -/
def FillR (r : Reader) : Prop :=
  (∀ x ∈ r.resps, x.2 = 0 ∧ 1 ≤ x.1) ∧ r.payload.length ≤ r.resps.length

/-- The nil-tolerant version of `FillR`: the script may contain `(0, nil)` answers anywhere; it
    is error free and at least as many responses as payload bytes offer a byte. -/
def FillRN (r : Reader) : Prop :=
  (∀ x ∈ r.resps, x.2 = 0) ∧ r.payload.length ≤ offers r.resps

theorem FillR.toN {r : Reader} (h : FillR r) : FillRN r :=
  ⟨fun x hx => (h.1 x hx).1, by rw [offers_eq_length (fun x hx => (h.1 x hx).2)]; exact h.2⟩

theorem FillR.fillScript {r : Reader} (h : FillR r) (m : Nat) :
    FillScript r.resps (min r.payload.length m) :=
  ⟨h.1, by have := h.2; omega⟩

theorem FillRN.fillScriptN {r : Reader} (h : FillRN r) (m : Nat) :
    FillScriptN r.resps (min r.payload.length m) :=
  ⟨h.1, by have := h.2; omega⟩

/-- `FillRN` is kept by `ReadFrom`. -/
theorem fillRN_readFrom {b : PBuf} {r : Reader} (hlen : b.data.length ≤ b.cfg.bufferSize)
    (hf : FillRN r) {b' : PBuf} {r' : Reader} {n : Nat} {e : Err}
    (h : b.readFrom r = (b', r', n, e)) : FillRN r' := by
  obtain ⟨c, pre, hb, hr, hn1, hn2, hm, hpre, hprelen, hcase⟩ := readFrom_master hlen h
  obtain ⟨hf1, hf2⟩ := hf
  have hpl : r'.payload.length = r.payload.length - n := by rw [hr]; simp
  rcases hcase with ⟨_, g2, _⟩ | ⟨_, g2, g3, _⟩ | ⟨mx, ec, g1, hec, _⟩
  · refine ⟨fun x hx => hf1 x (by rw [g2]; exact List.mem_append_right _ hx), ?_⟩
    rw [g2, offers_append] at hf2
    omega
  · refine ⟨by rw [g3]; simp, ?_⟩
    rw [g2] at hf2
    rw [g3]; simp only [offers_nil]; omega
  · have hmem : (mx, ec) ∈ r.resps := by rw [g1]; simp
    exact absurd (hf1 _ hmem) hec

/-- `FillR` is kept by `ReadFrom` (so it holds for the whole life of a wrapped reader). -/
theorem fillR_readFrom {b : PBuf} {r : Reader} (hlen : b.data.length ≤ b.cfg.bufferSize)
    (hf : FillR r) {b' : PBuf} {r' : Reader} {n : Nat} {e : Err}
    (h : b.readFrom r = (b', r', n, e)) : FillR r' := by
  obtain ⟨c, pre, hb, hr, hn1, hn2, hm, hpre, hprelen, hcase⟩ := readFrom_master hlen h
  obtain ⟨hf1, hf2⟩ := hf
  have hpl : r'.payload.length = r.payload.length - n := by rw [hr]; simp
  rcases hcase with ⟨_, g2, _⟩ | ⟨_, g2, g3, _⟩ | ⟨mx, ec, g1, hec, _⟩
  · have hop : offers pre = pre.length :=
      offers_eq_length (fun x hx => (hf1 x (by rw [g2]; exact List.mem_append_left _ hx)).2)
    refine ⟨fun x hx => hf1 x (by rw [g2]; exact List.mem_append_right _ hx), ?_⟩
    rw [g2] at hf2; simp only [List.length_append] at hf2
    omega
  · have hop : offers pre = pre.length :=
      offers_eq_length (fun x hx => (hf1 x (by rw [g2]; exact hx)).2)
    refine ⟨by rw [g3]; simp, ?_⟩
    rw [g2] at hf2
    rw [g3]; simp only [List.length_nil]; omega
  · have hmem : (mx, ec) ∈ r.resps := by rw [g1]; simp
    exact absurd (hf1 _ hmem).1 hec

/-! ## `cap` is unobservable -/

/-- two buffers that differ at most in their capacity -/
def SameView (a b : PBuf) : Prop := a.data = b.data ∧ a.w = b.w ∧ a.off = b.off ∧ a.cfg = b.cfg

theorem SameView.refl (a : PBuf) : SameView a a := ⟨rfl, rfl, rfl, rfl⟩

theorem SameView.symm {a b : PBuf} (h : SameView a b) : SameView b a :=
  ⟨h.1.symm, h.2.1.symm, h.2.2.1.symm, h.2.2.2.symm⟩

theorem SameView.trans {a b c : PBuf} (h : SameView a b) (h' : SameView b c) : SameView a c :=
  ⟨h.1.trans h'.1, h.2.1.trans h'.2.1, h.2.2.1.trans h'.2.2.1, h.2.2.2.trans h'.2.2.2⟩

theorem sameView_write {a b : PBuf} (hv : SameView a b) (ha : a.data.length ≤ a.cfg.bufferSize)
    (p : List Byte) :
    SameView (a.write p).1 (b.write p).1 ∧ (a.write p).2 = (b.write p).2 := by
  obtain ⟨h1, h2, h3, h4⟩ := hv
  have hb : b.data.length ≤ b.cfg.bufferSize := by rw [← h1, ← h4]; exact ha
  obtain ⟨ca, hwa, -⟩ := write_spec a p ha
  obtain ⟨cb, hwb, -⟩ := write_spec b p hb
  rw [hwa, hwb]
  simp only [SameView, h1, h2, h3, h4, and_self]

theorem sameView_shrink {a b : PBuf} (hv : SameView a b) :
    SameView a.shrink.1 b.shrink.1 ∧ a.shrink.2 = b.shrink.2 := by
  obtain ⟨h1, h2, h3, h4⟩ := hv
  rw [shrink_spec a, shrink_spec b]
  simp only [SameView, h1, h2, h3, h4, and_self]

theorem sameView_reset {a b : PBuf} (hv : SameView a b) (data : List Byte) (ea eb : Nat) :
    SameView (a.reset data ea).1 (b.reset data eb).1 ∧ (a.reset data ea).2 = (b.reset data eb).2 := by
  obtain ⟨h1, h2, h3, h4⟩ := hv
  by_cases h : a.cfg.bufferSize < data.length
  · rw [reset_oversize a data ea h, reset_oversize b data eb (by rw [← h4]; exact h)]
    exact ⟨⟨h1, h2, h3, h4⟩, rfl⟩
  · obtain ⟨ca, hra, -⟩ := reset_spec a data ea (by omega)
    obtain ⟨cb, hrb, -⟩ := reset_spec b data eb (by rw [← h4]; omega)
    rw [hra, hrb]
    simp only [SameView, h4, and_self]

theorem sameView_peekAt {a b : PBuf} (hv : SameView a b) (n : Nat) (x : Int) :
    a.peekAt n x = b.peekAt n x := by
  obtain ⟨h1, h2, h3, h4⟩ := hv
  unfold peekAt; rw [h1, h3]

theorem sameView_readAt {a b : PBuf} (hv : SameView a b) (n : Nat) (x : Int) :
    a.readAt n x = b.readAt n x := by
  unfold readAt; rw [sameView_peekAt hv]

theorem sameView_byteAt {a b : PBuf} (hv : SameView a b) (x : Int) :
    a.byteAt x = b.byteAt x := by
  obtain ⟨h1, h2, h3, h4⟩ := hv
  unfold byteAt; rw [h1, h3]

/-- `ReadFrom` with two readers that carry the same payload, possibly chunked differently, on two
    buffers that differ at most in `cap`: same data, same count, same error, same rest.
    The scripts may contain `(0, nil)` answers (`FillScriptN`). -/
theorem sameView_readFrom_fillN {a b : PBuf} (hv : SameView a b)
    (ha : a.data.length ≤ a.cfg.bufferSize) {ra rb : Reader} (hp : ra.payload = rb.payload)
    (hsa : FillScriptN ra.resps (min ra.payload.length (a.cfg.bufferSize - a.data.length)))
    (hsb : FillScriptN rb.resps (min rb.payload.length (b.cfg.bufferSize - b.data.length))) :
    SameView (a.readFrom ra).1 (b.readFrom rb).1 ∧
    (a.readFrom ra).2.1.payload = (b.readFrom rb).2.1.payload ∧
    (a.readFrom ra).2.2 = (b.readFrom rb).2.2 := by
  obtain ⟨h1, h2, h3, h4⟩ := hv
  have hb : b.data.length ≤ b.cfg.bufferSize := by rw [← h1, ← h4]; exact ha
  have ea : a.readFrom ra = ((a.readFrom ra).1, (a.readFrom ra).2.1, (a.readFrom ra).2.2.1,
    (a.readFrom ra).2.2.2) := rfl
  have eb : b.readFrom rb = ((b.readFrom rb).1, (b.readFrom rb).2.1, (b.readFrom rb).2.2.1,
    (b.readFrom rb).2.2.2) := rfl
  obtain ⟨sa1, sa2, sa3⟩ := readFrom_stop_of_fillScriptN ha hsa ea
  obtain ⟨sb1, sb2, sb3⟩ := readFrom_stop_of_fillScriptN hb hsb eb
  have na := readFrom_fill_of_outcome ha ea sa1
  have nb := readFrom_fill_of_outcome hb eb sb1
  obtain ⟨ca, _, hba, hra, -⟩ := readFrom_master ha ea
  obtain ⟨cb, _, hbb, hrb, -⟩ := readFrom_master hb eb
  have hn : (a.readFrom ra).2.2.1 = (b.readFrom rb).2.2.1 := by
    rw [na, nb, hp, h1, h4]
  have he : (a.readFrom ra).2.2.2 = (b.readFrom rb).2.2.2 := by
    rw [hp, h1, h4] at sa3
    rcases sa2 with h | h
    · rw [h]; exact (sb3.2 (sa3.1 h)).symm
    · rcases sb2 with h' | h'
      · have := sa3.2 (sb3.1 h')
        rw [h] at this; cases this
      · rw [h, h']
  refine ⟨?_, ?_, ?_⟩
  · rw [hba, hbb]
    simp only [SameView, h1, h2, h3, h4, hn, hp, and_self]
  · rw [hra, hrb, hn, hp]
  · exact Prod.ext hn he

theorem sameView_readFrom_fill {a b : PBuf} (hv : SameView a b)
    (ha : a.data.length ≤ a.cfg.bufferSize) {ra rb : Reader} (hp : ra.payload = rb.payload)
    (hsa : FillScript ra.resps (min ra.payload.length (a.cfg.bufferSize - a.data.length)))
    (hsb : FillScript rb.resps (min rb.payload.length (b.cfg.bufferSize - b.data.length))) :
    SameView (a.readFrom ra).1 (b.readFrom rb).1 ∧
    (a.readFrom ra).2.1.payload = (b.readFrom rb).2.1.payload ∧
    (a.readFrom ra).2.2 = (b.readFrom rb).2.2 :=
  sameView_readFrom_fillN hv ha hp hsa.toN hsb.toN

end PBuf
end LZ
