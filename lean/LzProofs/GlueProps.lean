/-
  LzProofs.GlueProps — C11, C12 and the OSAP clauses of C01/C02/C03 without named hypotheses.

  Environment: parser files (`ParseProps` …) + OSAP/GSAP files (`SapHist` …) + `GlueLemmas` +
  `GlueScanCopy` (the C10 proofs re-checked in the namespace `LZ.ScanCopy`, because
  `Scan.lean` cannot be imported next to `ParseProbe.lean`: both declare `LZ.ScanInv`).
  The same C11/C12 theorems derived from the ORIGINAL C10 theorems are in `GlueSuffix.lean`
  (`LZ.Sap.segmentsFacts_holds`, `LZ.Sap.ceHyps_holds`, `LZ.Sap.C11_optimal_unconditional`, …).

  Theorems (all in namespace `LZ`; `Sap.` = `LZ.Sap`):
   1. `Sap.saok_gsapSort`              `SAOK` for `gsap.sort()`                 (GlueLemmas)
   2. `segmentsFacts_holds_copy`       the C10 facts
      `ceHyps_holds`, `ceHyps_holds_maxMatch`   `CEHyps` under the D18 bound
   3. `C11_optimal_unconditional`      C11 for every block of every history
      `Sap.C12_longest_unconditional`  C12 for every block of every history    (GlueLemmas)
      `Sap.C12_literal_only_if_buffer` literal clause from `BufferSize ≤ WindowSize` (GlueLemmas)
   4. `computeEdgesSound_holds`        the hypothesis `ComputeEdgesSound` of the parser topic
      `histHyp_holds`, `C01_roundtrip_osap`, `C02_wellformed_osap`, `C03_contiguous_osap`,
      `C14_skip_verbatim_osap`, `stream_buffer_osap`, `history_inv_all`,
      `C01_osap`, `C01_osap_reachable` (state level, no hypothesis on the edge table)
      `runOps_fst`, `C11_optimal_history`  C11 over the histories of the parser topic
   5. `#print axioms`, non-vacuity examples.
-/
import LzProofs.GlueLemmas
import LzProofs.GlueSuffix
import LzProofs.ParseProps
namespace LZ

/-! ## 2. the C10 facts and `CEHyps` -/

/-- the C10 facts (`Sap.SegmentsFacts`), proved in GlueSuffix.lean from the C10 theorems -/
theorem segmentsFacts_holds_copy : Sap.SegmentsFacts := Sap.segmentsFacts_holds

/-- **`CEHyps` holds** for every buffer of at most `MaxInt32` bytes (any window head, window size,
    `MinMatchLen`, `MaxMatchLen`) — the D18 bound: `Segments` refuses `maxLen > MaxInt32`. -/
theorem ceHyps_holds (data : List Byte) (w ws mm maxM : Nat) (hlen : data.length ≤ 2147483647) :
    Sap.CEHyps data w ws mm maxM :=
  Sap.ceHyps_of_segFacts segmentsFacts_holds_copy data w ws mm maxM (Or.inl hlen)

/-- … and for every buffer whatsoever when `MaxMatchLen ≤ MaxInt32` -/
theorem ceHyps_holds_maxMatch (data : List Byte) (w ws mm maxM : Nat) (hmax : maxM ≤ 2147483647) :
    Sap.CEHyps data w ws mm maxM :=
  Sap.ceHyps_of_segFacts segmentsFacts_holds_copy data w ws mm maxM (Or.inr hmax)

/-! ## 3. C11 -/

/-- **C11, unconditional.**  Start from a new OSAP parser whose configuration has
    `BufferSize ≤ MaxInt32` or `MaxMatchLen ≤ MaxInt32` (`Sap.Int32OK`, the D18 bound), apply any
    sequence of `Write`, `ReadFrom`, `Parse(&blk, flags)`, `Parse(nil)`, `Shrink`, `Reset`; the
    next block emitted with flags 0 is an LZ77 parse of its bytes (lengths in
    `[MinMatchLen, MaxMatchLen]`, offsets `≤ WindowSize`, sources in the buffer) and costs no
    more (`XZCost`) than any such parse. -/
theorem C11_optimal_unconditional (raw : Cfg) (s0 : Parser)
    (h0 : newParser .OSAP raw = some s0) (hb : Sap.Int32OK s0)
    (ops : List Sap.POp) (flags : Nat) (hf : flags % 2 = 0)
    (hn : (Sap.runOps s0 ops).blockN ≠ 0) :
    let s := Sap.runOps s0 ops
    ∃ o, s.dict = .osap o ∧
      Sap.LzParse (s.buf.data.take (s.buf.w + s.blockN)) s.buf.w s.buf.cfg.windowSize
        s.minMatch s.cfg.maxMatchLen.toNat s.blockN (Sap.osapPath s o) ∧
      ∀ π, Sap.LzParse (s.buf.data.take (s.buf.w + s.blockN)) s.buf.w s.buf.cfg.windowSize
          s.minMatch s.cfg.maxMatchLen.toNat s.blockN π →
        Sap.blockCost (s.parse flags).2.2.2 ≤ Sap.pathCost π :=
  Sap.C11_optimal_of_segFacts segmentsFacts_holds_copy raw s0 h0 hb ops flags hf hn

/-! ## 4. the hypothesis `ComputeEdgesSound` of the parser topic -/

/-- **`ComputeEdgesSound` holds** for all window sizes, `MinMatchLen`, `MaxMatchLen` and ALL
    buffers (no length bound: when `Segments` would refuse its arguments, `computeEdges` stores
    no edge at all): every edge `computeEdges` stores for a position of a block behind the window
    head is a genuine match inside the window. -/
theorem computeEdgesSound_holds (ws mm mx : Nat) : ComputeEdgesSound ws mm mx := by
  intro data w w' n hw hn
  exact Sap.computeEdges_sound_of_segFacts segmentsFacts_holds_copy data w ws mm mx hw hn

/-- the history hypothesis of the parser topic holds for every kind, OSAP included -/
theorem histHyp_holds (k : Kind) (s0 : Parser) : HistHyp k s0 :=
  fun _ => computeEdgesSound_holds _ _ _

/-- The history invariant of the parser topic holds after any sequence of operations on a parser
    created by `NewParser` — for ALL seven kinds (for OSAP it was relative to
    `ComputeEdgesSound`). -/
theorem history_inv_all (k : Kind) (raw : Cfg) (s0 : Parser) (h0 : newParser k raw = some s0)
    (ops : List POp) : Inv k s0.cfg s0.buf.cfg (runOps (s0, Ghost.init) ops) :=
  history_inv k raw s0 h0 (histHyp_holds k s0) ops

/-- **C01 for OSAP** at history level, unconditional: decoding the log of all blocks emitted since
    the last Reset (skipped segments contribute their bytes verbatim) with the reference expander
    yields exactly the consumed prefix of the bytes fed since that Reset — for every input, every
    accepted OSAP configuration, every interleaving of Write, ReadFrom, Parse (both flags),
    Parse(nil), Shrink and Reset. -/
theorem C01_roundtrip_osap (raw : Cfg) (s0 : Parser) (h0 : newParser .OSAP raw = some s0)
    (ops : List POp) :
    let g := (runOps (s0, Ghost.init) ops).2
    decode [] g.log = some (g.fed.take g.consumed) :=
  C01_roundtrip .OSAP raw s0 h0 (histHyp_holds _ s0) ops

/-- **C02 for OSAP** at history level, unconditional: every sequence of every emitted block has
    `1 ≤ Offset ≤ WindowSize`, `Offset ≤` number of stream bytes since the last Reset that precede
    the match, `MatchLen ≥ MinMatchLen`, `Aux = 0`; and the `LitLen`s of a block do not exceed its
    literals. -/
theorem C02_wellformed_osap (raw : Cfg) (s0 : Parser) (h0 : newParser .OSAP raw = some s0)
    (ops : List POp) :
    let g := (runOps (s0, Ghost.init) ops).2
    LogAll (fun pos e => ∀ n fl blk, e = .block n fl blk →
      SeqsAll (SeqWF s0.buf.cfg.windowSize (mmOf .OSAP s0.cfg)) pos blk.seqs ∧
      litSum blk.seqs ≤ blk.lits.length) 0 g.log :=
  C02_wellformed .OSAP raw s0 h0 (histHyp_holds _ s0) ops

/-- **C03 for OSAP** at history level, unconditional: the events tile the consumed stream without
    gap or overlap (see `C03_contiguous`). -/
theorem C03_contiguous_osap (raw : Cfg) (s0 : Parser) (h0 : newParser .OSAP raw = some s0)
    (ops : List POp) :
    let sg := runOps (s0, Ghost.init) ops
    LogAll (fun pos e => 1 ≤ e.n ∧ e.n ≤ s0.buf.cfg.blockSize ∧ pos + e.n ≤ sg.2.fed.length ∧
      ∀ n fl blk, e = .block n fl blk →
        blk.len = n ∧ expand (sg.2.fed.take pos) blk = some (sg.2.fed.take (pos + n)) ∧
        (fl % 2 = 1 → blk.seqs ≠ [] →
          blk.lits.length = litSum blk.seqs ∧ n = seqsSpan blk.seqs)) 0 sg.2.log ∧
    logSpan sg.2.log = sg.2.consumed ∧
    sg.2.consumed = sg.1.buf.off + sg.1.buf.w ∧
    sg.2.consumed ≤ sg.2.fed.length :=
  C03_contiguous .OSAP raw s0 h0 (histHyp_holds _ s0) ops

/-- C14 for OSAP at history level, unconditional -/
theorem C14_skip_verbatim_osap (raw : Cfg) (s0 : Parser) (h0 : newParser .OSAP raw = some s0)
    (ops : List POp) :
    let g := (runOps (s0, Ghost.init) ops).2
    LogAll (fun pos e => ∀ b, e = .skip b →
      1 ≤ b.length ∧ b.length ≤ s0.buf.cfg.blockSize ∧ b = (g.fed.drop pos).take b.length) 0 g.log :=
  C14_skip_verbatim .OSAP raw s0 h0 (histHyp_holds _ s0) ops

/-- the buffer of an OSAP parser always holds the tail of the stream -/
theorem stream_buffer_osap (raw : Cfg) (s0 : Parser) (h0 : newParser .OSAP raw = some s0)
    (ops : List POp) :
    let sg := runOps (s0, Ghost.init) ops
    ∃ dropped, sg.2.fed = dropped ++ sg.1.buf.data ∧ dropped.length = sg.1.buf.off :=
  stream_buffer .OSAP raw s0 h0 (histHyp_holds _ s0) ops

/-- The three history theorems for every kind at once (no side condition left). -/
theorem C01_roundtrip_all_kinds (k : Kind) (raw : Cfg) (s0 : Parser) (h0 : newParser k raw = some s0)
    (ops : List POp) :
    let g := (runOps (s0, Ghost.init) ops).2
    decode [] g.log = some (g.fed.take g.consumed) :=
  C01_roundtrip k raw s0 h0 (histHyp_holds k s0) ops

/-! ### state level: `C01_osap_partial` without the hypothesis on the edge table -/

/-- **C01 (and C02, C03) for one `Parse` call of OSAP**, for every state whose stored edge table
    satisfies the history invariant `OsapOK` (it is empty, or it was computed by `computeEdges`
    for a prefix of the present buffer): the statement of `C01_osap_partial` with the hypothesis
    `EdgesSoundBlock` discharged. -/
theorem C01_osap (s : Parser) (flags : Nat) (o : OsapD) (hd : s.dict = .osap o)
    (hw : s.buf.w ≤ s.buf.data.length) (hmm : 1 ≤ s.minMatch) (hbs : 1 ≤ s.buf.cfg.blockSize)
    (hlt : s.buf.w < s.buf.data.length)
    (hO : OsapOK s.buf.data s.buf.w s.buf.cfg.windowSize s.cfg.maxMatchLen.toNat o) :
    ∃ s' n blk, s.parse flags = (s', n, .ok, blk) ∧
      s'.buf = { s.buf with w := s.buf.w + n } ∧
      1 ≤ n ∧ n ≤ s.buf.cfg.blockSize ∧ s.buf.w + n ≤ s.buf.data.length ∧
      expand (s.buf.data.take s.buf.w) blk = some (s.buf.data.take (s.buf.w + n)) ∧
      blk.len = n ∧
      SeqsAll (SeqWFmax s.buf.cfg.windowSize s.minMatch s.cfg.maxMatchLen.toNat) s.buf.w blk.seqs ∧
      litSum blk.seqs ≤ blk.lits.length :=
  C01_osap_partial s flags o hd hw hmm hbs hlt
    (OsapOK.next s o hw (computeEdgesSound_holds _ _ _) hO).1

/-- … in particular for every state reachable from `NewParser` by any history: with unparsed
    data, `Parse` of an OSAP parser returns a block that expands to the next `n` bytes, with
    well-formed sequences (`MinMatchLen ≤ MatchLen ≤ MaxMatchLen`, `1 ≤ Offset ≤ WindowSize`). -/
theorem C01_osap_reachable (raw : Cfg) (s0 : Parser) (h0 : newParser .OSAP raw = some s0)
    (ops : List POp) (flags : Nat) (o : OsapD)
    (hd : (runOps (s0, Ghost.init) ops).1.dict = .osap o)
    (hlt : (runOps (s0, Ghost.init) ops).1.buf.w < (runOps (s0, Ghost.init) ops).1.buf.data.length) :
    let s := (runOps (s0, Ghost.init) ops).1
    ∃ s' n blk, s.parse flags = (s', n, .ok, blk) ∧
      s'.buf = { s.buf with w := s.buf.w + n } ∧
      1 ≤ n ∧ n ≤ s.buf.cfg.blockSize ∧ s.buf.w + n ≤ s.buf.data.length ∧
      expand (s.buf.data.take s.buf.w) blk = some (s.buf.data.take (s.buf.w + n)) ∧
      blk.len = n ∧
      SeqsAll (SeqWFmax s.buf.cfg.windowSize s.minMatch s.cfg.maxMatchLen.toNat) s.buf.w blk.seqs ∧
      litSum blk.seqs ≤ blk.lits.length := by
  intro s
  have h := history_inv_all .OSAP raw s0 h0 ops
  obtain ⟨-, hmm, hbs⟩ := newParser_inv .OSAP raw s0 h0
  have hD := h.dict
  unfold DictOK at hD
  rw [hd] at hD
  refine C01_osap s flags o hd h.hw ?_ ?_ hlt hD.2
  · rw [minMatch_eq, h.kind, h.cfg]; exact hmm
  · rw [h.bcfg]; exact hbs

/-! ## the two notions of history agree -/

/-- the operations of the parser topic (`LZ.POp`, with ghost state) and of the OSAP/GSAP topic
    (`LZ.Sap.POp`) are the same -/
def POp.toSap : POp → Sap.POp
  | .write p => .write p
  | .readFrom r => .readFrom r
  | .parse f => .parse f
  | .parseNil => .parseNil
  | .shrink => .shrink
  | .reset d c => .reset d c

theorem step_fst (sg : Parser × Ghost) (op : POp) : (step sg op).1 = op.toSap.apply sg.1 := by
  cases op with
  | write p => rfl
  | readFrom r => rfl
  | parse f => simp only [step, POp.toSap, Sap.POp.apply]; split <;> rfl
  | parseNil => simp only [step, POp.toSap, Sap.POp.apply]; split <;> rfl
  | shrink => rfl
  | reset d c => simp only [step, POp.toSap, Sap.POp.apply]; split <;> rfl

/-- the parser state after a history does not depend on the ghost bookkeeping -/
theorem runOps_fst (ops : List POp) : ∀ (sg : Parser × Ghost),
    (runOps sg ops).1 = Sap.runOps sg.1 (ops.map POp.toSap) := by
  induction ops with
  | nil => intro sg; rfl
  | cons op ops ih =>
    intro sg
    show (runOps (step sg op) ops).1 = Sap.runOps (op.toSap.apply sg.1) (ops.map POp.toSap)
    rw [ih, step_fst]

/-- **C11 over the histories of the parser topic** (the same histories `C01_roundtrip_osap`,
    `C02_wellformed_osap`, `C03_contiguous_osap` speak about): after any history, the next block
    an OSAP parser emits with flags 0 is a minimum-cost LZ77 parse of its bytes. -/
theorem C11_optimal_history (raw : Cfg) (s0 : Parser)
    (h0 : newParser .OSAP raw = some s0) (hb : Sap.Int32OK s0)
    (ops : List POp) (flags : Nat) (hf : flags % 2 = 0)
    (hn : (runOps (s0, Ghost.init) ops).1.blockN ≠ 0) :
    let s := (runOps (s0, Ghost.init) ops).1
    ∃ o, s.dict = .osap o ∧
      Sap.LzParse (s.buf.data.take (s.buf.w + s.blockN)) s.buf.w s.buf.cfg.windowSize
        s.minMatch s.cfg.maxMatchLen.toNat s.blockN (Sap.osapPath s o) ∧
      ∀ π, Sap.LzParse (s.buf.data.take (s.buf.w + s.blockN)) s.buf.w s.buf.cfg.windowSize
          s.minMatch s.cfg.maxMatchLen.toNat s.blockN π →
        Sap.blockCost (s.parse flags).2.2.2 ≤ Sap.pathCost π := by
  intro s
  have e : s = Sap.runOps s0 (ops.map POp.toSap) := runOps_fst ops (s0, Ghost.init)
  rw [e]
  exact C11_optimal_unconditional raw s0 h0 hb (ops.map POp.toSap) flags hf (by rw [← e]; exact hn)

/-! ## non-vacuity -/

example : Sap.CEHyps Sap.exData 2 8 2 4 := ceHyps_holds _ _ _ _ _ (by decide)

example := C11_optimal_unconditional Sap.glueOsapCfg Sap.glueOsap0 Sap.glueOsap0_new
  Sap.glueOsap0_int32 Sap.glueOps 0 rfl Sap.glueOps_blockN

/-- the history of the parser topic corresponding to `Sap.glueOps` -/
def glueOpsP : List POp :=
  [.write [97, 98, 97, 98, 97, 98], .parseNil, .shrink, .write [97, 98, 97, 98]]

example : glueOpsP.map POp.toSap = Sap.glueOps := rfl

theorem glueOpsP_lt : (runOps (Sap.glueOsap0, Ghost.init) glueOpsP).1.buf.w <
    (runOps (Sap.glueOsap0, Ghost.init) glueOpsP).1.buf.data.length := by decide

theorem glueOpsP_dict : (runOps (Sap.glueOsap0, Ghost.init) glueOpsP).1.dict = .osap OsapD.empty := rfl

example := C01_osap_reachable Sap.glueOsapCfg Sap.glueOsap0 Sap.glueOsap0_new glueOpsP 0 _
  glueOpsP_dict glueOpsP_lt

example := C01_roundtrip_osap Sap.glueOsapCfg Sap.glueOsap0 Sap.glueOsap0_new glueOpsP
example (data : List Byte) (w ws mx : Nat) : OsapOK data w ws mx OsapD.empty := OsapOK.empty _ _ _ _

/-! ## axioms -/

#print axioms Sap.saok_gsapSort
#print axioms segmentsFacts_holds_copy
#print axioms ceHyps_holds
#print axioms ceHyps_holds_maxMatch
#print axioms C11_optimal_unconditional
#print axioms C11_optimal_history
#print axioms Sap.C12_longest_unconditional
#print axioms Sap.C12_literal_only_if_buffer
#print axioms computeEdgesSound_holds
#print axioms histHyp_holds
#print axioms history_inv_all
#print axioms C01_roundtrip_osap
#print axioms C02_wellformed_osap
#print axioms C03_contiguous_osap
#print axioms C14_skip_verbatim_osap
#print axioms stream_buffer_osap
#print axioms C01_roundtrip_all_kinds
#print axioms C01_osap
#print axioms C01_osap_reachable

end LZ
