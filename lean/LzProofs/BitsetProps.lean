/-
  LzProofs.BitsetProps — the word-level bitset model `LZ.BitsetW` (LzModel/BitsetW.lean, a
  transcription of bitset.go including the backing array, its capacity and its stale contents)
  refines the set-level model `LZ.BitsetM` (LzModel/Bitset.lean).

  Abstraction:   `members b`  — ascending list of all `i` with `mem b i`
                 `mem b i`    — bit `i % 64` of word `a[i/64 - off]` is set (and the word exists)
  Invariant:     `WInv b`     — `len(a) ≤ cap(a)`; NOTHING is assumed about the contents of the
                                backing array, in particular not about the stale words at and
                                behind position `len(a)`.
-/
import LzProofs.BitsetLemmas
import LzModel.Driver
namespace LZ
namespace BitsetW

/-! ## 1. abstraction and invariant -/

/-- `members b` lists exactly the members … -/
theorem members_mem (b : BitsetW) (i : Nat) : i ∈ members b ↔ mem b i := mem_members

/-- … in strictly ascending order (so it is a legal `BitsetM` value). -/
theorem members_ascending (b : BitsetW) : (members b).Pairwise (· < ·) := members_sorted b

/-- states that the Go code can produce -/
inductive Reachable : BitsetW → Prop
  | empty : Reachable BitsetW.empty
  | insert {b b' : BitsetW} (is : List Nat) : Reachable b → b.insert is = some b' → Reachable b'
  | clear {b : BitsetW} : Reachable b → Reachable b.clear

theorem empty_inv : WInv BitsetW.empty := Nat.le_refl _

theorem empty_members : members BitsetW.empty = [] := rfl

/-! ## 2. insert -/

/-- `support(min,max)` (current code) keeps the invariant and does not change the set, whatever
    the backing array contains -/
theorem support_refines (b : BitsetW) (hb : WInv b) (mn mx : Nat) :
    WInv (b.support mn mx) ∧ members (b.support mn mx) = members b :=
  ⟨support_inv b hb mn mx,
   sorted_ext (members_sorted _) (members_sorted _)
     (fun x => by rw [mem_members, mem_members, support_mem b hb])⟩

/-- `insert` never panics (no index out of range), keeps the invariant, and the new set is the
    one computed by the set-level model. -/
theorem insert_refines (b : BitsetW) (hb : WInv b) (is : List Nat) :
    ∃ b', b.insert is = some b' ∧ WInv b' ∧
      BitsetM.insert ⟨members b⟩ is = some ⟨members b'⟩ := by
  obtain ⟨b', e, inv', hm⟩ := insert_spec b hb is
  refine ⟨b', e, inv', ?_⟩
  unfold BitsetM.insert
  simp only [Option.some.injEq, BitsetM.mk.injEq]
  apply sorted_ext (sorted_foldl_insertOne is _ (members_sorted b)) (members_sorted b')
  intro x
  rw [mem_foldl_insertOne, mem_members, mem_members, hm]

/-- every reachable state satisfies the invariant -/
theorem reachable_inv {b : BitsetW} (h : Reachable b) : WInv b := by
  induction h with
  | empty => exact empty_inv
  | insert is _ e ih =>
    obtain ⟨b', e', inv', _⟩ := insert_refines _ ih is
    rw [e] at e'; cases e'; exact inv'
  | clear _ _ => exact Nat.zero_le _

/-- in particular after any sequence of inserts and clears from the empty bitset -/
theorem insert_refines_reachable {b : BitsetW} (hr : Reachable b) (is : List Nat) :
    ∃ b', b.insert is = some b' ∧ Reachable b' ∧
      BitsetM.insert ⟨members b⟩ is = some ⟨members b'⟩ := by
  obtain ⟨b', e, _, h⟩ := insert_refines b (reachable_inv hr) is
  exact ⟨b', e, .insert is hr e, h⟩

/-- the same as an equation between member lists -/
theorem insert_members (b : BitsetW) (hb : WInv b) (is : List Nat) :
    ∃ b', b.insert is = some b' ∧ WInv b' ∧
      members b' = is.foldl BitsetM.insertOne (members b) := by
  obtain ⟨b', e, inv', h⟩ := insert_refines b hb is
  refine ⟨b', e, inv', ?_⟩
  simp only [BitsetM.insert, Option.some.injEq, BitsetM.mk.injEq] at h
  exact h.symm

/-! ## 3. clear and the queries -/

theorem clear_refines (b : BitsetW) (_hb : WInv b) :
    WInv b.clear ∧ members b.clear = (BitsetM.clear ⟨members b⟩).members :=
  ⟨Nat.zero_le _, rfl⟩

/-- the capacity and the (now stale) contents of the backing array survive `clear` -/
theorem clear_keeps_backing (b : BitsetW) : b.clear.backing = b.backing ∧ b.clear.cap = b.cap :=
  ⟨rfl, rfl⟩

theorem memberBefore_refines (b : BitsetW) (i : Nat) :
    b.memberBefore i = BitsetM.memberBefore ⟨members b⟩ i :=
  (memberBefore_isPred b i).unique
    ((model_before_isPred (members_sorted b) i).congr (fun _ => mem_members))

theorem memberAfter_refines (b : BitsetW) (i : Nat) :
    b.memberAfter i = BitsetM.memberAfter ⟨members b⟩ i :=
  (memberAfter_isGE b i).unique
    ((model_after_isGE (members_sorted b) i).congr (fun _ => mem_members))

theorem slice_refines (b : BitsetW) : b.slice = BitsetM.slice ⟨members b⟩ :=
  slice_eq_members b

/-- direct characterisations of the word-level queries -/
theorem memberBefore_spec (b : BitsetW) (i : Nat) :
    match b.memberBefore i with
    | none => ∀ x, mem b x → ¬ x < i
    | some j => mem b j ∧ j < i ∧ ∀ x, mem b x → x < i → x ≤ j := by
  have := memberBefore_isPred b i
  cases h : b.memberBefore i <;> simpa [h, IsPred] using this

theorem memberAfter_spec (b : BitsetW) (i : Nat) :
    match b.memberAfter i with
    | none => ∀ x, mem b x → ¬ i < x
    | some j => mem b j ∧ i < j ∧ ∀ x, mem b x → i < x → j ≤ x := by
  have := memberAfter_isGE b i
  cases h : b.memberAfter i <;> simp only [h, IsGE] at this ⊢
  · intro x hx hlt; exact this x hx hlt
  · exact ⟨this.1, this.2.1, fun x hx hlt => this.2.2 x hx hlt⟩

/-! ## 4. histories -/

/-- operations and answers of the bitset machine -/
inductive Op where
  | ins (l : List Nat) | clear | before (i : Nat) | after (i : Nat) | slice
deriving Repr

inductive Ans where
  | ok | panic | found (o : Option Nat) | list (l : List Nat)
deriving Repr, DecidableEq

def stepW (b : BitsetW) : Op → BitsetW × Ans
  | .ins l => match b.insert l with
    | some b' => (b', .ok)
    | none => (b, .panic)
  | .clear => (b.clear, .ok)
  | .before i => (b, .found (b.memberBefore i))
  | .after i => (b, .found (b.memberAfter i))
  | .slice => (b, .list b.slice)

def stepM (m : BitsetM) : Op → BitsetM × Ans
  | .ins l => match m.insert l with
    | some m' => (m', .ok)
    | none => (m, .panic)
  | .clear => (m.clear, .ok)
  | .before i => (m, .found (m.memberBefore i))
  | .after i => (m, .found (m.memberAfter i))
  | .slice => (m, .list m.slice)

def runW (b : BitsetW) : List Op → List Ans
  | [] => []
  | op :: ops => (stepW b op).2 :: runW (stepW b op).1 ops

def runM (m : BitsetM) : List Op → List Ans
  | [] => []
  | op :: ops => (stepM m op).2 :: runM (stepM m op).1 ops

/-- the refinement relation -/
def Refines (b : BitsetW) (m : BitsetM) : Prop := WInv b ∧ m = ⟨members b⟩

/-- one step: same answer, and the relation is kept -/
theorem step_refines {b : BitsetW} {m : BitsetM} (h : Refines b m) (op : Op) :
    (stepW b op).2 = (stepM m op).2 ∧ Refines (stepW b op).1 (stepM m op).1 := by
  obtain ⟨hb, rfl⟩ := h
  cases op with
  | ins l =>
    obtain ⟨b', e, inv', em⟩ := insert_refines b hb l
    refine ⟨by simp only [stepW, stepM, e, em], ?_⟩
    simp only [stepW, stepM, e, em]
    exact ⟨inv', rfl⟩
  | clear => exact ⟨rfl, (clear_refines b hb).1, rfl⟩
  | before i => exact ⟨by simp only [stepW, stepM, memberBefore_refines], hb, rfl⟩
  | after i => exact ⟨by simp only [stepW, stepM, memberAfter_refines], hb, rfl⟩
  | slice => exact ⟨by simp only [stepW, stepM, slice_refines], hb, rfl⟩

theorem run_refines {b : BitsetW} {m : BitsetM} (h : Refines b m) (ops : List Op) :
    runW b ops = runM m ops := by
  induction ops generalizing b m with
  | nil => rfl
  | cons op ops ih =>
    obtain ⟨h1, h2⟩ := step_refines h op
    simp only [runW, runM, h1, ih h2]

/-- **C12 (bitset part)**: for every history of operations on an initially empty bitset, the
    word-level model (= bitset.go with backing array reuse) and the set-level model `BitsetM`
    give the same answers to all operations; in particular no `insert` panics. -/
theorem C12_bitset_refines (ops : List Op) :
    runW BitsetW.empty ops = runM BitsetM.empty ops :=
  run_refines ⟨empty_inv, rfl⟩ ops

/-- the same from an arbitrary state with ARBITRARY contents of the backing array -/
theorem C12_bitset_refines_from (b : BitsetW) (hb : WInv b) (ops : List Op) :
    runW b ops = runM ⟨members b⟩ ops :=
  run_refines ⟨hb, rfl⟩ ops

/-- `insert` never answers `panic` -/
theorem C12_bitset_no_panic (ops : List Op) : Ans.panic ∉ runW BitsetW.empty ops := by
  rw [C12_bitset_refines]
  generalize BitsetM.empty = m
  induction ops generalizing m with
  | nil => simp [runM]
  | cons op ops ih =>
    simp only [runM, List.mem_cons, not_or]
    refine ⟨?_, ih _⟩
    cases op <;> simp [stepM, BitsetM.insert]

/-! ### the line protocol: `BitsetW.stepLine` against `Driver.stepBitset` -/

theorem natListP_eq (s : String) : natListP s = Driver.natList s := by
  unfold natListP Driver.natList Driver.splitOn Driver.nat!
  split <;> simp

theorem showNatsP_eq (l : List Nat) : showNatsP l = Driver.showNats l := rfl

/-- the `BitsetM` inside a driver machine -/
def machineSet (d : BitsetM) : Driver.Machine → BitsetM
  | .bitset m => m
  | _ => d

def linesW (b : BitsetW) : List (List String) → List String
  | [] => []
  | ws :: rest => (stepLine b ws).2 :: linesW (stepLine b ws).1 rest

def linesM (m : BitsetM) : List (List String) → List String
  | [] => []
  | ws :: rest =>
    (Driver.stepBitset m ws).2 :: linesM (machineSet m (Driver.stepBitset m ws).1) rest

theorem stepLine_refines {b : BitsetW} {m : BitsetM} (h : Refines b m) (ws : List String) :
    (stepLine b ws).2 = (Driver.stepBitset m ws).2 ∧
      Refines (stepLine b ws).1 (machineSet m (Driver.stepBitset m ws).1) := by
  obtain ⟨hb, rfl⟩ := h
  unfold stepLine Driver.stepBitset
  split
  · next l =>
    obtain ⟨b', e, inv', em⟩ := insert_refines b hb (natListP l)
    refine ⟨by simp only [← natListP_eq, e, em], ?_⟩
    simp only [← natListP_eq, e, em, machineSet]
    exact ⟨inv', rfl⟩
  · exact ⟨rfl, (clear_refines b hb).1, rfl⟩
  · next i =>
    refine ⟨?_, hb, rfl⟩
    simp only [memberBefore_refines, Driver.nat!]
    generalize BitsetM.memberBefore _ _ = o
    cases o <;> rfl
  · next i =>
    refine ⟨?_, hb, rfl⟩
    simp only [memberAfter_refines, Driver.nat!]
    generalize BitsetM.memberAfter _ _ = o
    cases o <;> rfl
  · exact ⟨by simp only [slice_refines, showNatsP_eq], hb, rfl⟩
  · next h1 h2 h3 h4 h5 =>
    split
    · exact absurd rfl (h1 _)
    · exact absurd rfl h2
    · exact absurd rfl (h3 _)
    · exact absurd rfl (h4 _)
    · exact absurd rfl h5
    · exact ⟨rfl, hb, rfl⟩

/-- **C12 (bitset part), protocol level**: on every script the hook `BitsetW.stepLine` prints
    exactly what the set-level driver machine `Driver.stepBitset` prints. -/
theorem C12_bitset_refines_lines (script : List (List String)) :
    linesW BitsetW.empty script = linesM BitsetM.empty script := by
  have : ∀ (b : BitsetW) (m : BitsetM), Refines b m → linesW b script = linesM m script := by
    induction script with
    | nil => intros; rfl
    | cons ws rest ih =>
      intro b m h
      obtain ⟨h1, h2⟩ := stepLine_refines h ws
      simp only [linesW, linesM, h1, ih _ _ h2]
  exact this _ _ ⟨empty_inv, rfl⟩

/-! ## 5. the defect of the earlier `support` (finding D7) -/

/-- the script `insert 1000,10; clear; insert 500; insert 900; insert 100; slice` -/
def d7Script (ins : BitsetW → List Nat → Option BitsetW) : Option (List Nat) := do
  let b ← ins BitsetW.empty [1000, 10]
  let b := b.clear
  let b ← ins b [500]
  let b ← ins b [900]
  let b ← ins b [100]
  pure b.slice

/-- with the old `support` (zero `y.a[:d]`, then copy) the member 500 is lost;
    the current code answers correctly.  Kernel-checked by evaluation. -/
theorem supportOld_loses_member :
    d7Script insertOld = some [100, 900] ∧ d7Script insert = some [100, 500, 900] := by
  decide

/-- the state before the fatal `insert 100` -/
def d7s1 : BitsetW := (BitsetW.empty.insert [1000, 10]).getD BitsetW.empty
def d7s2 : BitsetW := (d7s1.clear.insert [500]).getD BitsetW.empty
def d7s3 : BitsetW := (d7s2.insert [900]).getD BitsetW.empty

theorem d7s3_reachable : Reachable d7s3 :=
  .insert [900] (.insert [500] (.clear (.insert [1000, 10] .empty (by decide : _ = some d7s1)))
    (by decide : _ = some d7s2)) (by decide : _ = some d7s3)

/-- `supportOld` does NOT preserve the set: there is a reachable state (16 words of capacity,
    `a = backing[0:8]`, `off = 7`) in which growing downwards inside the capacity drops a member.
    So `support_refines` is false for `supportOld`. -/
theorem supportOld_not_refines :
    ∃ b, Reachable b ∧ ∃ mn mx i, mem b i ∧ ¬ mem (b.supportOld mn mx) i :=
  ⟨d7s3, d7s3_reachable, 100, 100, 500, by decide, by decide⟩

/-- the defect is confined to growth DOWNWARDS (`d > 0`) inside the existing capacity: in all
    other cases the old and the current `support` return the same state -/
theorem supportOld_differs_only_downwards_in_place (b : BitsetW) (mn mx : Nat)
    (h : (supportOffD b (mn / 64)).2 = 0 ∨
      supportN b (mx / 64) (supportOffD b (mn / 64)).1 (supportOffD b (mn / 64)).2 > b.cap) :
    b.supportOld mn mx = b.support mn mx := supportOld_eq_support b mn mx h

/-- … whereas the current `support` keeps it (instance of `support_refines`) -/
example : mem (d7s3.support 100 100) 500 := by decide
example : d7s3.cap = 16 ∧ d7s3.len = 8 ∧ d7s3.off = 7 := by decide
example : (d7s3.support 100 100).cap = 16 ∧ (d7s3.support 100 100).len = 14 ∧
    (d7s3.support 100 100).off = 1 := by decide

/-! ## 6. non-vacuity -/

/-- a state whose backing array is full of garbage behind `len(a) = 1` -/
def garbage : BitsetW :=
  { backing := #[5, 0xffffffffffffffff, 0x8000000000000001, 0xdeadbeef], len := 1, off := 2 }

example : WInv garbage := by decide
example : members garbage = [128, 130] := by decide
/-- growth downwards (`kmin = 1 < off = 2`) and upwards inside the capacity: the stale words
    become part of `a` and are zeroed -/
example : (garbage.insert [70, 200]).map members = some [70, 128, 130, 200] := by decide
example : (garbage.insert [70, 200]).map (·.cap) = some 4 := by decide
example : (BitsetM.insert ⟨members garbage⟩ [70, 200]).map (·.members) =
    some [70, 128, 130, 200] := by decide
example : garbage.memberBefore 130 = some 128 ∧ garbage.memberAfter 128 = some 130 ∧
    garbage.memberAfter 130 = none ∧ garbage.memberBefore 128 = none ∧
    garbage.memberBefore 1000 = some 130 ∧ garbage.memberAfter 0 = some 128 := by decide

example : Reachable d7s3 ∧ WInv d7s3 ∧ members d7s3 = [500, 900] :=
  ⟨d7s3_reachable, reachable_inv d7s3_reachable, by decide⟩

example : runW BitsetW.empty
    [.ins [1000, 10], .before 1000, .clear, .ins [500], .ins [900], .ins [100], .slice,
     .after 100, .before 100] =
    [.ok, .found (some 10), .ok, .ok, .ok, .ok, .list [100, 500, 900],
     .found (some 500), .found none] := by decide

-- the protocol hook, evaluated (a test, not a theorem: string functions do not reduce in the kernel)
#guard linesW BitsetW.empty
    [["ins", "1000,10"], ["clear"], ["ins", "500"], ["ins", "900"], ["ins", "100"], ["slice"],
     ["before", "500"], ["after", "500"], ["after", "900"], ["foo"]] =
    ["ok", "ok", "ok", "ok", "ok", "100,500,900", "100 true", "900 true", "-1 false", "bad-op"]

#print axioms members_mem
#print axioms members_ascending
#print axioms support_refines
#print axioms insert_refines
#print axioms insert_refines_reachable
#print axioms insert_members
#print axioms clear_refines
#print axioms memberBefore_refines
#print axioms memberAfter_refines
#print axioms slice_refines
#print axioms memberBefore_spec
#print axioms memberAfter_spec
#print axioms reachable_inv
#print axioms C12_bitset_refines
#print axioms C12_bitset_refines_from
#print axioms C12_bitset_no_panic
#print axioms C12_bitset_refines_lines
#print axioms supportOld_loses_member
#print axioms supportOld_not_refines
#print axioms supportOld_differs_only_downwards_in_place

end BitsetW
end LZ
