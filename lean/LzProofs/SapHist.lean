/-
  LzProofs.SapHist — the state invariants `OsapHist` / `GsapHist` hold along every history of
  parser operations, so C11 and C12 hold for every block of a stream.
-/
import LzProofs.SapProps
namespace LZ.Sap

/-! ## the buffer operations only append -/

theorem PBuf.grow_aux' {b b' : PBuf} (c : Nat)
    (h : (if b.data.length ≤ c then some { b with cap := c } else none) = some b') :
    b'.data = b.data ∧ b'.w = b.w ∧ b'.cfg = b.cfg := by
  by_cases h1 : b.data.length ≤ c
  · rw [if_pos h1] at h; cases h; exact ⟨rfl, rfl, rfl⟩
  · rw [if_neg h1] at h; cases h

theorem PBuf.grow_fields' {b b' : PBuf} {t : Nat} (h : b.grow t = some b') :
    b'.data = b.data ∧ b'.w = b.w ∧ b'.cfg = b.cfg := by
  unfold PBuf.grow at h
  by_cases h1 : t + Facts.margin ≤ b.cap
  · rw [if_pos h1] at h; cases h; exact ⟨rfl, rfl, rfl⟩
  · rw [if_neg h1] at h
    exact PBuf.grow_aux' _ h

theorem PBuf.grow_if {b b' : PBuf} {t : Nat}
    (h : (if t + Facts.margin > b.cap then b.grow t else some b) = some b') :
    b'.data = b.data ∧ b'.w = b.w ∧ b'.cfg = b.cfg := by
  by_cases h1 : t + Facts.margin > b.cap
  · rw [if_pos h1] at h; exact PBuf.grow_fields' h
  · rw [if_neg h1] at h; cases h; exact ⟨rfl, rfl, rfl⟩

theorem PBuf.readLoop_fields (b : PBuf) (r : Reader) :
    b.data <+: (b.readLoop r).1.data ∧ (b.readLoop r).1.w = b.w ∧ (b.readLoop r).1.cfg = b.cfg := by
  fun_induction PBuf.readLoop b r with
  | case1 b r h => exact ⟨List.prefix_refl _, rfl, rfl⟩
  | case2 b r h t hg => exact ⟨List.prefix_refl _, rfl, rfl⟩
  | case3 b r h t b' hg e hb =>
    obtain ⟨a, c, d⟩ := PBuf.grow_if hg
    exact ⟨by rw [a]; exact List.prefix_refl _, c, d⟩
  | case4 b r h t b' hg e hb hr =>
    obtain ⟨a, c, d⟩ := PBuf.grow_if hg
    exact ⟨by rw [a]; exact List.prefix_refl _, c, d⟩
  | case5 b r h t b' hg e hb mx ec rest hr sz n r' b'' hec =>
    obtain ⟨a, c, d⟩ := PBuf.grow_if hg
    refine ⟨?_, c, d⟩
    show b.data <+: b'.data ++ _
    rw [a]; exact List.prefix_append _ _
  | case6 b r h t b' hg e hb mx ec rest hr sz n r' b'' hec ih =>
    obtain ⟨a, c, d⟩ := PBuf.grow_if hg
    obtain ⟨i1, i2, i3⟩ := ih
    refine ⟨?_, by rw [i2]; exact c, by rw [i3]; exact d⟩
    have : b.data <+: b''.data := by
      show b.data <+: b'.data ++ _
      rw [a]; exact List.prefix_append _ _
    exact this.trans i1

theorem PBuf.write_aux {b b' : PBuf} {t : Nat}
    (h : (if t + Facts.margin > b.cap then b.grow t else some b) = some b') :
    b'.data = b.data ∧ b'.w = b.w ∧ b'.cfg = b.cfg := by
  by_cases h1 : t + Facts.margin > b.cap
  · rw [if_pos h1] at h; exact PBuf.grow_fields' h
  · rw [if_neg h1] at h; cases h; exact ⟨rfl, rfl, rfl⟩

/-- `Write` only appends to the buffer -/
theorem PBuf.write_fields (b : PBuf) (p : List Byte) :
    b.data <+: (b.write p).1.data ∧ (b.write p).1.w = b.w ∧ (b.write p).1.cfg = b.cfg := by
  unfold PBuf.write
  by_cases h0 : b.cfg.bufferSize < b.data.length
  · rw [if_pos h0]; exact ⟨List.prefix_refl _, rfl, rfl⟩
  · rw [if_neg h0]
    simp only
    split
    · exact ⟨List.prefix_refl _, rfl, rfl⟩
    · rename_i b' hb'
      have hf := PBuf.write_aux hb'
      refine ⟨?_, hf.2.1, hf.2.2⟩
      simp only [hf.1]
      exact List.prefix_append _ _

theorem OsapHist.extend {s s' : Parser} {o : OsapD} (h : OsapHist s o)
    (hcfg : s'.buf.cfg = s.buf.cfg) (hk : s'.kind = s.kind) (hc : s'.cfg = s.cfg)
    (hw : s.buf.w ≤ s'.buf.w) (hd : s.buf.data <+: s'.buf.data) : OsapHist s' o := by
  have hmm : s'.minMatch = s.minMatch := by unfold Parser.minMatch; rw [hk, hc]
  rcases h with h | ⟨data0, w0, e, hce, h1, h2⟩
  · exact Or.inl h
  · exact Or.inr ⟨data0, w0, by rw [hcfg, hmm, hc]; exact e, by rw [hcfg, hmm, hc]; exact hce,
      Nat.le_trans h1 hw, h2.trans hd⟩

theorem GsapHist.extend {s s' : Parser} {g : GsapD} (h : GsapHist s g)
    (hw : s'.buf.w = s.buf.w) (hd : s.buf.data <+: s'.buf.data) : GsapHist s' g := by
  rcases h with h | ⟨t, h1, h2, h3⟩
  · exact Or.inl h
  · exact Or.inr ⟨t, h1.trans hd, h2, by rw [hw]; exact h3⟩

theorem OsapHist.empty (s : Parser) : OsapHist s OsapD.empty := Or.inl ⟨rfl, rfl⟩
theorem GsapHist.empty (s : Parser) : GsapHist s GsapD.empty := Or.inl rfl

/-- `Write` keeps the OSAP and GSAP history invariants -/
theorem write_osap_hist (s : Parser) (p : List Byte) {o : OsapD} (h : OsapHist s o) :
    OsapHist (s.write p).1 o := by
  obtain ⟨a, b, c⟩ := PBuf.write_fields s.buf p
  exact h.extend (s' := (s.write p).1) c rfl rfl (Nat.le_of_eq b.symm) a

theorem write_gsap_hist (s : Parser) (p : List Byte) {g : GsapD} (h : GsapHist s g) :
    GsapHist (s.write p).1 g := by
  obtain ⟨a, b, c⟩ := PBuf.write_fields s.buf p
  exact h.extend (s' := (s.write p).1) b a

/-- `Shrink` keeps the history invariants (it drops the edges / the suffix array) -/
theorem shrink_osap_hist (s : Parser) {o : OsapD} (hd : s.dict = .osap o) (h : OsapHist s o) :
    ∃ o', s.shrink.1.dict = .osap o' ∧ OsapHist s.shrink.1 o' := by
  unfold Parser.shrink
  simp only
  split
  · exact ⟨o, hd, h⟩
  · simp only [hd]
    exact ⟨OsapD.empty, rfl, OsapHist.empty _⟩

theorem shrink_gsap_hist (s : Parser) {g : GsapD} (hd : s.dict = .gsap g) (h : GsapHist s g) :
    ∃ g', s.shrink.1.dict = .gsap g' ∧ GsapHist s.shrink.1 g' := by
  unfold Parser.shrink
  simp only
  split
  · exact ⟨g, hd, h⟩
  · simp only [hd]
    exact ⟨GsapD.empty, rfl, GsapHist.empty _⟩

/-- `Reset` keeps the history invariants -/
theorem reset_osap_hist (s : Parser) (data : List Byte) (capExtra : Nat) {o : OsapD}
    (hd : s.dict = .osap o) (h : OsapHist s o) :
    ∃ o', (s.reset data capExtra).1.dict = .osap o' ∧ OsapHist (s.reset data capExtra).1 o' := by
  unfold Parser.reset
  simp only
  split
  · simp only [Parser.clearDict, hd]
    exact ⟨OsapD.empty, rfl, OsapHist.empty _⟩
  · exact ⟨o, hd, h⟩

theorem reset_gsap_hist (s : Parser) (data : List Byte) (capExtra : Nat) {g : GsapD}
    (hd : s.dict = .gsap g) (h : GsapHist s g) :
    ∃ g', (s.reset data capExtra).1.dict = .gsap g' ∧ GsapHist (s.reset data capExtra).1 g' := by
  unfold Parser.reset
  simp only
  split
  · simp only [Parser.clearDict, hd]
    exact ⟨GsapD.empty, rfl, GsapHist.empty _⟩
  · exact ⟨g, hd, h⟩

theorem PBuf.readFrom_fields (b : PBuf) (r : Reader) :
    b.data <+: (b.readFrom r).1.data ∧ (b.readFrom r).1.w = b.w ∧ (b.readFrom r).1.cfg = b.cfg :=
  PBuf.readLoop_fields b r

/-- `ReadFrom` keeps the OSAP and GSAP history invariants -/
theorem readFrom_osap_hist (s : Parser) (r : Reader) {o : OsapD} (h : OsapHist s o) :
    OsapHist (s.readFrom r).1 o := by
  obtain ⟨a, b, c⟩ := PBuf.readFrom_fields s.buf r
  exact h.extend (s' := (s.readFrom r).1) c rfl rfl (Nat.le_of_eq b.symm) a

theorem readFrom_gsap_hist (s : Parser) (r : Reader) {g : GsapD} (h : GsapHist s g) :
    GsapHist (s.readFrom r).1 g := by
  obtain ⟨a, b, c⟩ := PBuf.readFrom_fields s.buf r
  exact h.extend (s' := (s.readFrom r).1) b a

/-! ## histories -/

/-- the operations of a parser -/
inductive POp where
  | write (p : List Byte)
  | readFrom (r : Reader)
  | parse (flags : Nat)
  | parseNil
  | shrink
  | reset (data : List Byte) (capExtra : Nat)

def POp.apply (s : Parser) : POp → Parser
  | .write p => (s.write p).1
  | .readFrom r => (s.readFrom r).1
  | .parse f => (s.parse f).1
  | .parseNil => s.parseNil.1
  | .shrink => s.shrink.1
  | .reset d c => (s.reset d c).1

/-- the state after a history -/
def runOps (s : Parser) (ops : List POp) : Parser := ops.foldl POp.apply s

theorem parse_empty (s : Parser) (flags : Nat) (hn : s.blockN = 0) : (s.parse flags).1 = s := by
  unfold Parser.parse; simp [hn]

theorem apply_kind_cfg_gsap (s : Parser) (op : POp) {g : GsapD} (hd : s.dict = .gsap g) :
    (op.apply s).kind = s.kind ∧ (op.apply s).cfg = s.cfg := by
  cases op with
  | write p => exact ⟨rfl, rfl⟩
  | readFrom r => exact ⟨rfl, rfl⟩
  | parse f =>
    simp only [POp.apply]
    by_cases hn : s.blockN = 0
    · rw [parse_empty s f hn]; exact ⟨rfl, rfl⟩
    · rw [parse_gsap_eq s g hd f hn]; exact ⟨rfl, rfl⟩
  | parseNil =>
    simp only [POp.apply]; unfold Parser.parseNil; simp only
    split <;> exact ⟨rfl, rfl⟩
  | shrink =>
    simp only [POp.apply]; unfold Parser.shrink; simp only
    split <;> exact ⟨rfl, rfl⟩
  | reset d c =>
    simp only [POp.apply]; unfold Parser.reset; simp only
    split <;> exact ⟨rfl, rfl⟩

/-- every operation keeps the OSAP invariant -/
theorem osap_step (s : Parser) (op : POp) {o : OsapD} (hd : s.dict = .osap o) (h : OsapHist s o)
    (hce : CEHyps s.buf.data s.buf.w s.buf.cfg.windowSize s.minMatch s.cfg.maxMatchLen.toNat) :
    ∃ o', (op.apply s).dict = .osap o' ∧ OsapHist (op.apply s) o' := by
  cases op with
  | write p => exact ⟨o, hd, write_osap_hist s p h⟩
  | readFrom r => exact ⟨o, hd, readFrom_osap_hist s r h⟩
  | parse f =>
    simp only [POp.apply]
    by_cases hn : s.blockN = 0
    · rw [parse_empty s f hn]; exact ⟨o, hd, h⟩
    · exact ⟨_, parse_osap_hist s o hd f hn h hce⟩
  | parseNil =>
    simp only [POp.apply]
    unfold Parser.parseNil
    simp only
    split
    · exact ⟨o, hd, h⟩
    · simp only [hd]
      exact ⟨o, rfl, h.extend (s' := { s with buf := { s.buf with w := s.buf.w + s.blockN }, dict := .osap o })
        rfl rfl rfl (Nat.le_add_right _ _) (List.prefix_refl _)⟩
  | shrink => exact shrink_osap_hist s hd h
  | reset d c => exact reset_osap_hist s d c hd h

/-- the suffix-array facts hold for the buffer of a state -/
def CEAt (s : Parser) : Prop :=
  CEHyps s.buf.data s.buf.w s.buf.cfg.windowSize s.minMatch s.cfg.maxMatchLen.toNat

theorem osap_run (ops : List POp) : ∀ (s : Parser) {o : OsapD}, s.dict = .osap o → OsapHist s o →
    (∀ k, k < ops.length → CEAt (runOps s (ops.take k))) →
    ∃ o', (runOps s ops).dict = .osap o' ∧ OsapHist (runOps s ops) o' := by
  induction ops with
  | nil => intro s o hd h _; exact ⟨o, hd, h⟩
  | cons op ops ih =>
    intro s o hd h hce
    obtain ⟨o', hd', h'⟩ := osap_step s op hd h (hce 0 (by simp))
    apply ih (op.apply s) hd' h'
    intro k hk
    have := hce (k + 1) (by simp; omega)
    simpa [runOps] using this

/-- **C11 for every block of every history.**  Start from a new OSAP parser, apply any sequence of
    `Write`, `ReadFrom`, `Parse(&blk, flags)`, `Parse(nil)`, `Shrink`, `Reset`; the next block
    emitted with flags 0 is an LZ77 parse of its bytes of minimum cost.  The only hypothesis is
    `CEAt` — the suffix-array facts C09/C10 — for the buffers that occur along the history. -/
theorem C11_all_histories (raw : Cfg) (s0 : Parser) (h0 : newParser .OSAP raw = some s0)
    (ops : List POp) (flags : Nat) (hf : flags % 2 = 0)
    (hn : (runOps s0 ops).blockN ≠ 0)
    (hce : ∀ k, k ≤ ops.length → CEAt (runOps s0 (ops.take k))) :
    let s := runOps s0 ops
    ∃ o, s.dict = .osap o ∧
      LzParse (s.buf.data.take (s.buf.w + s.blockN)) s.buf.w s.buf.cfg.windowSize
        s.minMatch s.cfg.maxMatchLen.toNat s.blockN (osapPath s o) ∧
      ∀ π, LzParse (s.buf.data.take (s.buf.w + s.blockN)) s.buf.w s.buf.cfg.windowSize
          s.minMatch s.cfg.maxMatchLen.toNat s.blockN π →
        blockCost (s.parse flags).2.2.2 ≤ pathCost π := by
  intro s
  have hd0 : s0.dict = .osap OsapD.empty := by
    unfold newParser at h0
    simp only at h0
    split at h0
    · cases h0; rfl
    · cases h0
  obtain ⟨o, hd, h⟩ := osap_run ops s0 hd0 (OsapHist.empty s0) (fun k hk => hce k (by omega))
  have hlast : CEAt s := by
    have := hce ops.length (Nat.le_refl _)
    simpa using this
  exact ⟨o, hd, C11_optimal_hist s o hd flags hn hf h hlast⟩

/-! ### GSAP: histories without `Parse(nil)` -/

def POp.notNil : POp → Prop
  | .parseNil => False
  | _ => True

theorem minMatch_congr {s s' : Parser} (hk : s'.kind = s.kind) (hc : s'.cfg = s.cfg) :
    s'.minMatch = s.minMatch := by unfold Parser.minMatch; rw [hk, hc]

/-- every operation except `Parse(nil)` keeps the GSAP invariant -/
theorem gsap_step (s : Parser) (op : POp) (hop : op.notNil) {g : GsapD} (hd : s.dict = .gsap g)
    (h : GsapHist s g) (hmm : 1 ≤ s.minMatch)
    (hsa : ∀ data w, SAOK data (gsapSort data w).sa (gsapSort data w).isa) :
    ∃ g', (op.apply s).dict = .gsap g' ∧ GsapHist (op.apply s) g' := by
  cases op with
  | write p => exact ⟨g, hd, write_gsap_hist s p h⟩
  | readFrom r => exact ⟨g, hd, readFrom_gsap_hist s r h⟩
  | parse f =>
    simp only [POp.apply]
    by_cases hn : s.blockN = 0
    · rw [parse_empty s f hn]; exact ⟨g, hd, h⟩
    · exact parse_gsap_hist s g hd f hn hmm h hsa
  | parseNil => exact hop.elim
  | shrink => exact shrink_gsap_hist s hd h
  | reset d c => exact reset_gsap_hist s d c hd h

theorem gsap_run (ops : List POp) (hops : ∀ op ∈ ops, op.notNil) :
    ∀ (s : Parser) {g : GsapD}, s.dict = .gsap g → GsapHist s g → 1 ≤ s.minMatch →
    (∀ data w, SAOK data (gsapSort data w).sa (gsapSort data w).isa) →
    ∃ g', (runOps s ops).dict = .gsap g' ∧ GsapHist (runOps s ops) g' ∧ 1 ≤ (runOps s ops).minMatch := by
  induction ops with
  | nil => intro s g hd h hmm _; exact ⟨g, hd, h, hmm⟩
  | cons op ops ih =>
    intro s g hd h hmm hsa
    obtain ⟨g', hd', h'⟩ := gsap_step s op (hops op (by simp)) hd h hmm hsa
    obtain ⟨hk, hc⟩ := apply_kind_cfg_gsap s op hd
    exact ih (fun op' ho => hops op' (by simp [ho])) (op.apply s) hd' h'
      (by rw [minMatch_congr hk hc]; exact hmm) hsa

theorem newParser_gsap_minMatch (raw : Cfg) (s0 : Parser) (h0 : newParser .GSAP raw = some s0) :
    2 ≤ s0.minMatch := by
  unfold newParser at h0
  simp only at h0
  split at h0
  · rename_i hv
    cases h0
    simp only [Parser.minMatch]
    simp only [verify, Bool.and_eq_true, decide_eq_true_eq] at hv
    omega
  · cases h0

/-- **C12 for every block of every history without `Parse(nil)`.**  Start from a new GSAP parser
    , apply any sequence of `Write`, `ReadFrom`, `Parse(&blk, flags)`, `Shrink`,
    `Reset`; in the next block every emitted match is real, inside the window, at least
    `MinMatchLen` long and exactly as long as the longest match any earlier buffered position
    offers (clipped at the block end); and if the block ends inside the window, every literal
    position had no earlier position offering `MinMatchLen` bytes.  The only hypothesis is `SAOK`
    for `gsapSort` — the suffix-array facts C09. -/
theorem C12_all_histories (raw : Cfg) (s0 : Parser) (h0 : newParser .GSAP raw = some s0)
    (ops : List POp) (hops : ∀ op ∈ ops, op.notNil) (flags : Nat)
    (hn : (runOps s0 ops).blockN ≠ 0)
    (hsa : ∀ data w, SAOK data (gsapSort data w).sa (gsapSort data w).isa) :
    let s := runOps s0 ops
    GreedySpec (s.buf.data.take (s.buf.w + s.blockN)) s.buf.cfg.windowSize s.minMatch
      (s.buf.w + s.blockN ≤ s.buf.cfg.windowSize) s.buf.w (s.parse flags).2.2.2.seqs ∧
    (s.buf.w + s.blockN ≤ s.buf.cfg.windowSize →
      ∀ q, endPos s.buf.w (s.parse flags).2.2.2.seqs ≤ q → q < s.buf.w + s.blockN →
        lpm (s.buf.data.take (s.buf.w + s.blockN)) q < s.minMatch) := by
  intro s
  have hmm : 1 ≤ s0.minMatch := by have := newParser_gsap_minMatch raw s0 h0; omega
  have hd0 : s0.dict = .gsap GsapD.empty := by
    unfold newParser at h0
    simp only at h0
    split at h0
    · cases h0; rfl
    · cases h0
  obtain ⟨g, hd, h, hmm'⟩ := gsap_run ops hops s0 hd0 (GsapHist.empty s0) hmm hsa
  exact C12_longest_hist s g hd flags hn hmm' h hsa

#print axioms osap_run
#print axioms C11_all_histories
#print axioms gsap_run
#print axioms C12_all_histories

end LZ.Sap
