/-
  LzProofs.GenBHPParseLemmas — helper lemmas for LzProofs/GenBHPParse.lean (translated bhp.go
  `(*backwardHashParser).Parse` versus `ProbeW.parseW` for kind `.BHP`): the BHP copies of the lemmas about the
  HP-specific generated loops (loop_2, loop_3), the word-level finder for `back = true` without `do`, the
  backward extension `lcs(p[j-back:j], p[:i])` under a specification of the opaque `lcs`, one iteration of the
  greedy loop and the whole loop.
-/
import LzModel.Generated.CodeBHPParse
import LzProofs.GenHPParse
import LzProofs.GenPropsCfgBHP
import LzProofs.BytesProps
import LzProofs.BytesLemmas

set_option linter.unusedSimpArgs false
set_option linter.unusedVariables false

namespace LZ.GenBHPParse
open LZ LZ.Gen LZ.GenBuf LZ.GenHash LZ.GenHPParse

/-- the specification of the opaque parameter `lcs` of the translation: the length of the longest common suffix
    of the elements of the two slices -/
def LcsSpec (lcs : Slice → Slice → Int) : Prop := ∀ p q : Slice, lcs p q = ((lcsLen p.data q.data : Nat) : Int)

/-! ## the table -/

/-- the parser state with another table -/
@[reducible] def setTB (s : Gen.backwardHashParser) (t : GSlice hashEntry) : Gen.backwardHashParser :=
  { s with hashDictionary := { s.hashDictionary with hash := { s.hashDictionary.hash with table := t } } }

/-- loop_3 of `Parse` (`for j = i + 1; j < b; j++ { … }`) -/
theorem loop3_eqB (grow : Nat → Nat → Nat) (lcs : Slice → Slice → Int) (b : Int) (x : UInt64) (_p : Slice) (h : UInt32) :
    ∀ (n fuel j : Nat) (a : Int) (s : Gen.backwardHashParser), a = (j : Int) → n = (b - a).toNat → n < fuel →
      (n = 0 ∨ j + n + 7 ≤ _p.len) →
      TCtx s.hashDictionary.hash.mask s.hashDictionary.hash.shift s.hashDictionary.hash.inputLen _p →
      TOK s.hashDictionary.hash.shift s.hashDictionary.hash.table →
      ∃ jj t', TOK s.hashDictionary.hash.shift t' ∧
        ProbeW.insertRangeW (ofHash s.hashDictionary.hash) _p.data j n = some (ofHashT s.hashDictionary.hash t') ∧
        backwardHashParser_Parse_loop_3 grow lcs b x _p h fuel a s = Res.ok (jj, setTB s t') := by
  intro n
  induction n with
  | zero =>
    intro fuel j a s ha hb hf _ c ht
    obtain ⟨f, rfl⟩ : ∃ f, fuel = f + 1 := ⟨fuel - 1, by omega⟩
    refine ⟨a, s.hashDictionary.hash.table, ht, rfl, ?_⟩
    rw [backwardHashParser_Parse_loop_3, if_neg (by omega)]
  | succ n ih =>
    intro fuel j a s ha hb hf hn c ht
    obtain ⟨f, rfl⟩ : ∃ f, fuel = f + 1 := ⟨fuel - 1, by omega⟩
    obtain ⟨y, t1, hy, hF, hset, ht1, hins⟩ := insert_step s.hashDictionary.hash _p c _ ht a j ha (by omega)
    rw [backwardHashParser_Parse_loop_3, if_pos (by omega), hF]
    dsimp only
    rw [hset, bind_ok]
    obtain ⟨jj, t2, ht2, hr, hl⟩ := ih f (j + 1) (a + 1) (setTB s t1) (by omega) (by omega) (by omega) (by omega) c ht1
    refine ⟨jj, t2, ht2, ?_, hl⟩
    unfold ProbeW.insertRangeW
    simp only [Option.bind_eq_bind]
    rw [show ofHash s.hashDictionary.hash = ofHashT s.hashDictionary.hash s.hashDictionary.hash.table from rfl,
      hins, Option.bind_some]
    exact hr

/-! ## the match extension loop (loop_2 of `Parse`, with `goto match` as exit code 1) -/

theorem loop2_eqB (grow : Nat → Nat → Nat) (lcs : Slice → Slice → Int) (x : UInt64) :
    ∀ (m fuel kN : Nat) (k : Int) (r q : Slice), q.len < 8 * m → m ≤ fuel → k = (kN : Int) →
      SWF r → SWF q → q.len ≤ r.len →
      ∃ (e kN' : Nat) (r' q' : Slice),
        backwardHashParser_Parse_loop_2 grow lcs x fuel k r q = Res.ok (e, (kN' : Int), r', q') ∧ SWF r' ∧ SWF q' ∧
        ((e = 1 ∧ BytesW.matchExtLoop r.data q.data kN = some kN') ∨
         (e ≠ 1 ∧ BytesW.matchExtLoop r.data q.data kN = some (BytesW.matchExtTail r'.data q'.data kN'))) := by
  intro m
  induction m with
  | zero => intro fuel kN k r q h; omega
  | succ m ih =>
    intro fuel kN k r q hm hf hk hr hq hqr
    obtain ⟨f, rfl⟩ : ∃ f, fuel = f + 1 := ⟨fuel - 1, by omega⟩
    have hrl : r.data.length = r.len := data_length hr
    have hql : q.data.length = q.len := data_length hq
    have hr' : r.len ≤ r.arr.length := hr
    have hq' : q.len ≤ q.arr.length := hq
    rw [backwardHashParser_Parse_loop_2]
    by_cases h8 : 8 ≤ q.len
    · rw [if_pos (by show (q.len : Int) ≥ 8; omega), gen_le64 r hr, gen_le64 q hq,
        BytesW.le64_eq_some _ (by omega), BytesW.le64_eq_some _ (by omega)]
      simp only [ofOpt, bind_ok, tz_shr]
      rw [matchExtLoop_ge _ _ _ (by omega) (by omega)]
      generalize BytesW.tz64 (BytesW.getLE64 r.data ^^^ BytesW.getLE64 q.data) >>> 3 = b
      by_cases hb : b < 8
      · rw [if_pos (by omega), if_pos hb]
        exact ⟨1, kN + b, r, q, by rw [hk]; rfl, hr, hq, Or.inl ⟨rfl, rfl⟩⟩
      · rw [if_neg (by omega), if_neg hb,
          slice_okI r 8 (Int.ofNat r.len) 8 r.len rfl rfl (by omega) hr', bind_ok,
          slice_okI q 8 (Int.ofNat q.len) 8 q.len rfl rfl (by omega) hq', bind_ok]
        obtain ⟨e, kN', r', q', hl, h1, h2, h3⟩ := ih f (kN + b) (k + (b : Int))
          { arr := r.arr.drop 8, len := r.len - 8 } { arr := q.arr.drop 8, len := q.len - 8 }
          (by show q.len - 8 < _; omega) (by omega) (by rw [hk]; rfl) (swf_drop _ _ _ hr') (swf_drop _ _ _ hq')
          (by show q.len - 8 ≤ r.len - 8; omega)
        rw [data_drop', data_drop'] at h3
        exact ⟨e, kN', r', q', hl, h1, h2, h3⟩
    · rw [if_neg (by show ¬ (q.len : Int) ≥ 8; omega), matchExtLoop_lt _ _ _ (by omega)]
      exact ⟨0, kN, r, q, by rw [hk], hr, hq, Or.inr ⟨by decide, rfl⟩⟩

/-! ## the word-level finder for `back = true` in a form without `do` -/

theorem hpProbeW_nfB (ws mm E : Nat) (behind : List Byte) (h : HashT) (pd : List Byte) (i li : Nat)
    (_pd : List Byte) (y : UInt64)
    (h1 : BytesW.sliceTo pd behind (E + 7) = some _pd)
    (hy : (BytesW.sliceFrom _pd i).bind BytesW.le64 = some y)
    (x : UInt64) (hx : x = y &&& maskOf h.inputLen)
    (e : Nat × Nat) (he : e = h.tbl.getD (LZ.hashValue x h.hashBits) (0, 0))
    (H1 : HashT) (hH1 : H1 = { h with tbl := h.tbl.setIfInBounds (LZ.hashValue x h.hashBits) (i, lo32 x) }) :
    ProbeW.hpProbeW ws mm E true behind h pd i li =
      if lo32 x ≠ e.2 then some (H1, none)
      else if ¬ (e.1 < i ∧ i - e.1 ≤ ws) then some (H1, none)
      else
        (BytesW.matchLenInline pd behind E mm i e.1).bind fun r =>
        match r with
        | none => some (H1, none)
        | some k =>
          (ProbeW.backExtW pd behind i li e.1).bind fun m =>
          (ProbeW.insertRangeW H1 _pd (i - m + 1) (Min.min (i - m + (k + m)) E - (i - m + 1))).bind fun h2 =>
          some (h2, some (i - m, k + m, i - e.1)) := by
  subst hx he hH1
  unfold ProbeW.hpProbeW ProbeW.loadKey
  simp only [Option.bind_eq_bind, Option.pure_def] at hy ⊢
  rw [h1, Option.bind_some]
  cases hsi : BytesW.sliceFrom _pd i with
  | none => rw [hsi] at hy; cases hy
  | some li =>
    rw [hsi, Option.bind_some] at hy
    simp only [Option.bind_some, hy]
    split
    · rfl
    · split
      · rfl
      · cases BytesW.matchLenInline pd behind E mm i _ with
        | none => rfl
        | some r =>
          cases r with
          | none => rfl
          | some k => simp only [Option.bind_some, if_true]

/-! ## the backward extension -/

theorem backExt_le (p : List Byte) (i li j : Nat) : backExt p i li j ≤ Min.min (i - li) j := by
  unfold backExt
  split
  · have h := BytesW.lcsLen_le_left ((p.take j).drop (j - Min.min (i - li) j)) (p.take i)
    rw [List.length_drop, List.length_take] at h
    show lcsLen ((p.take j).drop (j - Min.min (i - li) j)) (p.take i) ≤ _
    omega
  · omega

/-- `if back := i - litIndex; back > 0 { if back > j { back = j }; m := lcs(p[j-back:j], p[:i]); i -= m; k += m }`
    of bhp.go under the specification of `lcs`: no panic, `m` is the model's `backExt` -/
theorem gen_backExt (lcs : Slice → Slice → Int) (hlcs : LcsSpec lcs) (A : List UInt8) (L i li j : Nat)
    (ia lia kI : Int) (hia : ia = (i : Int)) (hlia : lia = (li : Int)) (hj : j < i) (hi : i ≤ L)
    (hLA : L ≤ A.length) (hli : li ≤ i) :
    (if ia - lia > 0 then
      Res.bind (Slice.slice { arr := A, len := L }
        (Int.ofNat j - (if ia - lia > Int.ofNat j then Int.ofNat j else ia - lia)) (Int.ofNat j)) fun t_14 =>
      Res.bind (Slice.slice { arr := A, len := L } 0 ia) fun t_15 =>
      Res.ok (ia - lcs t_14 t_15, kI + lcs t_14 t_15)
    else Res.ok (ia, kI)) =
      Res.ok (((i - backExt (A.take L) i li j : Nat) : Int), kI + ((backExt (A.take L) i li j : Nat) : Int)) := by
  have hle := backExt_le (A.take L) i li j
  by_cases hb : i > li
  · rw [if_pos (by omega)]
    have hback : (Int.ofNat j - (if ia - lia > Int.ofNat j then Int.ofNat j else ia - lia)) =
        ((j - Min.min (i - li) j : Nat) : Int) := by
      show ((j : Int) - (if ia - lia > (j : Int) then (j : Int) else ia - lia)) = _
      split <;> omega
    refine bind_trans (slice_okI _ _ (Int.ofNat j) (j - Min.min (i - li) j) j hback rfl (by omega)
      (by show j ≤ A.length; omega)) ?_
    refine bind_trans (slice_okI _ 0 ia 0 i rfl hia (Nat.zero_le _) (by show i ≤ A.length; omega)) ?_
    rw [hlcs]
    have hd : lcsLen ({ arr := A.drop (j - Min.min (i - li) j), len := j - (j - Min.min (i - li) j) } : Slice).data
        ({ arr := A.drop 0, len := i - 0 } : Slice).data = backExt (A.take L) i li j := by
      unfold backExt
      rw [if_pos hb, data_drop, data_mk]
      show _ = lcsLen (((A.take L).take j).drop (j - Min.min (i - li) j)) ((A.take L).take i)
      rw [List.take_take, List.take_take, Nat.min_eq_left (show j ≤ L by omega), Nat.min_eq_left (show i ≤ L by omega)]
      simp only [List.drop_zero, Nat.sub_zero]
    rw [hd, hia]
    have : ((i : Nat) : Int) - ((backExt (A.take L) i li j : Nat) : Int) = ((i - backExt (A.take L) i li j : Nat) : Int) := by
      omega
    rw [this]
  · rw [if_neg (by omega)]
    have h0 : backExt (A.take L) i li j = 0 := by unfold backExt; rw [if_neg hb]
    rw [h0, hia]; simp

/-! ## one iteration of the greedy loop -/

set_option maxHeartbeats 1000000 in
theorem loop1_stepB (grow : Nat → Nat → Nat) (lcs : Slice → Slice → Int) (hlcs : LcsSpec lcs)
    (inputEnd mm : Int) (A : List UInt8) (L E mmN ws : Nat)
    (fuel i li : Nat) (ia lia : Int) (s : Gen.backwardHashParser) (blk : Block')
    (c : TCtx s.hashDictionary.hash.mask s.hashDictionary.hash.shift s.hashDictionary.hash.inputLen
      { arr := A, len := E + 7 })
    (ht : TOK s.hashDictionary.hash.shift s.hashDictionary.hash.table)
    (hia : ia = (i : Int)) (hlia : lia = (li : Int)) (hE : inputEnd = (E : Int)) (hmm : mm = (mmN : Int))
    (hi : i < E) (hEL : E ≤ L) (hLA : L ≤ A.length) (hEA : E + 7 ≤ A.length) (hli : li ≤ i)
    (hws : ws = s.BHPConfig.WindowSize.toNat) (hmm1 : 1 ≤ mmN) (hmm8 : mmN ≤ 8)
    (hfuel : L ≤ fuel + i) (hfuelE : E ≤ fuel) :
    ∃ r, ProbeW.hpProbeW ws mmN E true (A.drop L) (ofHash s.hashDictionary.hash) (A.take L) i li = some r ∧
      ∃ t', TOK s.hashDictionary.hash.shift t' ∧ r.1 = ofHashT s.hashDictionary.hash t' ∧
        backwardHashParser_Parse_loop_1 grow lcs inputEnd { arr := A, len := E + 7 } { arr := A, len := L } mm (fuel + 1) ia s blk lia =
          (match r.2 with
          | none =>
            backwardHashParser_Parse_loop_1 grow lcs inputEnd { arr := A, len := E + 7 } { arr := A, len := L } mm fuel (ia + 1)
              (setTB s t') blk lia
          | some (st, k, o) =>
            backwardHashParser_Parse_loop_1 grow lcs inputEnd { arr := A, len := E + 7 } { arr := A, len := L } mm fuel
              ((st + k : Nat) : Int) (setTB s t')
              { Sequences := blk.Sequences ++ [seqRep { litLen := st - li, matchLen := k, offset := o }],
                Literals := Slice.append grow blk.Literals ((A.drop li).take (st - li)) }
              ((st + k : Nat) : Int)) ∧
        (∀ st k o, r.2 = some (st, k, o) → li ≤ st ∧ st ≤ i ∧ i < st + k ∧ st + k ≤ L) := by
  -- the memory
  have hmem : BytesW.sliceTo (A.take L) (A.drop L) (E + 7) = some (A.take (E + 7)) := by
    unfold BytesW.sliceTo; rw [List.take_append_drop, if_pos hEA]
  have hpd : ({ arr := A, len := E + 7 } : Slice).data = A.take (E + 7) := rfl
  have hpl : (A.take L).length = L := by rw [List.length_take]; omega
  have hs := c.small
  have hsmall : E + 7 < 4294967296 + 8 := hs
  -- the load at i, the table access
  obtain ⟨y, hy, hF⟩ := gen_load_ok { arr := A, len := E + 7 } c.swf ia i hia (by show i + 8 ≤ E + 7; omega)
  rw [hpd] at hy
  obtain ⟨hv, hlt⟩ := gen_hashValue_shift (y &&& s.hashDictionary.hash.mask) s.hashDictionary.hash.shift c.sh1 c.sh2
  have hidx : (Gen.hashValue (y &&& s.hashDictionary.hash.mask) s.hashDictionary.hash.shift).toNat <
      s.hashDictionary.hash.table.len := by rw [hv, ht.2]; exact hlt
  rw [backwardHashParser_Parse_loop_1, if_pos (by omega), hF]
  dsimp only
  rw [gindex_ok _ _ (Int.ofNat _) _ rfl hidx, bind_ok, gset_ok _ (Int.ofNat _) _ rfl hidx, bind_ok]
  -- the model side of the table access
  have hget := ofHashT_get s.hashDictionary.hash s.hashDictionary.hash.table ht.1 _ hidx
  unfold zeroE at hget
  have hset : ofHashT s.hashDictionary.hash (GSlice.mk (s.hashDictionary.hash.table.arr.set
      (Gen.hashValue (y &&& s.hashDictionary.hash.mask) s.hashDictionary.hash.shift).toNat
      (hashEntry.mk (UInt32.ofInt ia) (y &&& s.hashDictionary.hash.mask).toUInt32)) s.hashDictionary.hash.table.len) = _ :=
    ofHashT_set s.hashDictionary.hash s.hashDictionary.hash.table
      (Gen.hashValue (y &&& s.hashDictionary.hash.mask) s.hashDictionary.hash.shift).toNat
      { pos := UInt32.ofInt ia, value := (y &&& s.hashDictionary.hash.mask).toUInt32 }
  have ht1 : TOK s.hashDictionary.hash.shift (GSlice.mk (s.hashDictionary.hash.table.arr.set
      (Gen.hashValue (y &&& s.hashDictionary.hash.mask) s.hashDictionary.hash.shift).toNat
      (hashEntry.mk (UInt32.ofInt ia) (y &&& s.hashDictionary.hash.mask).toUInt32)) s.hashDictionary.hash.table.len) :=
    ⟨gwf_set _ ht.1 _ _, ht.2⟩
  generalize (GSlice.mk (s.hashDictionary.hash.table.arr.set
      (Gen.hashValue (y &&& s.hashDictionary.hash.mask) s.hashDictionary.hash.shift).toNat
      (hashEntry.mk (UInt32.ofInt ia) (y &&& s.hashDictionary.hash.mask).toUInt32)) s.hashDictionary.hash.table.len) = t1
    at hset ht1 ⊢
  rw [hv] at hset
  simp only [ofEntry, lo32_eq, toNat_ofInt32 i ia hia (by omega)] at hset
  generalize hent : (s.hashDictionary.hash.table.arr[(Gen.hashValue (y &&& s.hashDictionary.hash.mask)
      s.hashDictionary.hash.shift).toNat]?).getD { pos := 0, value := 0 } = ent at hget ⊢
  rw [hv] at hget
  have hnf := hpProbeW_nfB ws mmN E (A.drop L) (ofHash s.hashDictionary.hash) (A.take L) i li (A.take (E + 7)) y hmem hy
    (y &&& s.hashDictionary.hash.mask) (by rw [c.mask]; rfl) (ofEntry ent) hget.symm (ofHashT s.hashDictionary.hash t1) hset
  -- A: the stored value differs
  by_cases hvA : (y &&& s.hashDictionary.hash.mask).toUInt32 ≠ ent.value
  · have hA : lo32 (y &&& s.hashDictionary.hash.mask) ≠ (ofEntry ent).2 := by
      intro hc; apply hvA; apply UInt32.toNat_inj.mp; rw [lo32_eq]; exact hc
    refine ⟨(ofHashT s.hashDictionary.hash t1, none), by rw [hnf, if_pos hA], t1, ht1, rfl, ?_,
      by intro st k o h; cases h⟩
    rw [if_pos hvA]
  have hA : ¬ lo32 (y &&& s.hashDictionary.hash.mask) ≠ (ofEntry ent).2 := by
    intro hc; apply hc; rw [← lo32_eq, Decidable.not_not.mp hvA]; rfl
  rw [if_neg hvA]
  rw [if_neg hA] at hnf
  -- B: the candidate is outside the window
  have hj1 : (ofEntry ent).1 = ent.pos.toNat := rfl
  rw [hj1] at hnf
  generalize hjdef : ent.pos.toNat = j at hnf ⊢
  by_cases hw : ¬ (j < i ∧ i - j ≤ ws)
  · refine ⟨(ofHashT s.hashDictionary.hash t1, none), by rw [hnf, if_pos hw], t1, ht1, rfl, ?_,
      by intro st k o h; cases h⟩
    rw [if_pos (by show ¬ (0 < ia - (j : Int) ∧ ia - (j : Int) ≤ s.BHPConfig.WindowSize); omega)]
  rw [if_neg (by show ¬ ¬ (0 < ia - (j : Int) ∧ ia - (j : Int) ≤ s.BHPConfig.WindowSize); omega)]
  rw [if_neg hw] at hnf
  have hw := Decidable.not_not.mp hw
  -- C: the first word of the candidate
  obtain ⟨z, hz, hF2⟩ := gen_load_ok { arr := A, len := E + 7 } c.swf (Int.ofNat j) j rfl (by show j + 8 ≤ E + 7; omega)
  rw [hpd] at hz
  rw [hF2]
  simp only [tz_shr]
  have hml := matchLenInline_nf (A.take L) (A.drop L) (A.take (E + 7)) E mmN i j y z hmem hy hz
  rw [hpl] at hml
  have hk8 : (if ((BytesW.tz64 (z ^^^ y) >>> 3 : Nat) : Int) > Int.ofNat L - ia then Int.ofNat L - ia
      else ((BytesW.tz64 (z ^^^ y) >>> 3 : Nat) : Int)) =
      (((if BytesW.tz64 (z ^^^ y) >>> 3 > L - i then L - i else BytesW.tz64 (z ^^^ y) >>> 3 : Nat)) : Int) := by
    rw [hia]; show (if _ > (L : Int) - _ then (L : Int) - _ else _) = _
    split <;> split <;> omega
  rw [hk8]
  have hk8le : (if BytesW.tz64 (z ^^^ y) >>> 3 > L - i then L - i else BytesW.tz64 (z ^^^ y) >>> 3) ≤ L - i := by
    split <;> omega
  generalize (if BytesW.tz64 (z ^^^ y) >>> 3 > L - i then L - i else BytesW.tz64 (z ^^^ y) >>> 3) = k8
    at hml hk8le ⊢
  by_cases hC1 : k8 < mmN
  · rw [if_pos hC1] at hml
    refine ⟨(ofHashT s.hashDictionary.hash t1, none), by rw [hnf, hml]; rfl, t1, ht1, rfl, ?_,
      by intro st k o h; cases h⟩
    rw [if_pos (by omega)]
  rw [if_neg hC1] at hml
  rw [if_neg (by omega)]
  -- the semantic content of the match length (bounds only)
  have hsem := BytesW.matchLenInline_eq (A.take L) (A.drop L) E mmN i j hw.1 hi (by rw [hpl]; exact hEL)
    (by rw [List.take_append_drop]; exact hEA)
  have hLcle : lcpLen ((A.take L).drop j) ((A.take L).drop i) ≤ L - i := by
    have := BytesW.lcpLen_le_right ((A.take L).drop j) ((A.take L).drop i)
    rw [List.length_drop, hpl] at this; exact this
  generalize lcpLen ((A.take L).drop j) ((A.take L).drop i) = Lc at hsem hLcle
  rw [hml] at hsem
  cases hme : BytesW.matchExt (A.take L) i j k8 with
  | none => rw [hme] at hsem; cases hsem
  | some kk =>
    rw [hme, Option.map_some] at hsem
    have hkk : ¬ Min.min 8 Lc < mmN ∧ kk = Lc := by
      by_cases hh : Min.min 8 Lc < mmN
      · rw [if_pos hh] at hsem; cases hsem
      · rw [if_neg hh] at hsem; injection hsem with h1; injection h1 with h2; exact ⟨hh, h2⟩
    obtain ⟨hmin, hkkLc⟩ := hkk
    subst hkkLc
    rw [hme, Option.map_some] at hml
    -- the backward extension
    have hbe := ProbeW.backExtW_eq (A.take L) (A.drop L) i li j (by omega) (by rw [hpl]; omega)
    have hmle := backExt_le (A.take L) i li j
    have hgb := gen_backExt lcs hlcs A L i li j ia lia (kk : Int) hia hlia hw.1 (by omega) hLA hli
    generalize backExt (A.take L) i li j = m at hbe hmle hgb
    -- the re-indexing loop
    obtain ⟨jj, t2, ht2, hr3, hl3⟩ := loop3_eqB grow lcs
      (if ((i - m : Nat) : Int) + ((kk : Int) + (m : Int)) > inputEnd then inputEnd
        else ((i - m : Nat) : Int) + ((kk : Int) + (m : Int))) (y &&& s.hashDictionary.hash.mask)
      { arr := A, len := E + 7 } (Gen.hashValue (y &&& s.hashDictionary.hash.mask) s.hashDictionary.hash.shift)
      (Min.min (i - m + (kk + m)) E - (i - m + 1)) fuel (i - m + 1) (((i - m : Nat) : Int) + 1) (setTB s t1) (by omega)
      (by rw [hE]; split <;> omega) (by omega)
      (by show _ ∨ _ ≤ E + 7; omega) c ht1
    rw [hpd] at hr3
    have hr3' : ProbeW.insertRangeW (ofHashT s.hashDictionary.hash t1) (List.take (E + 7) A) (i - m + 1)
        (Min.min (i - m + (kk + m)) E - (i - m + 1)) = some (ofHashT s.hashDictionary.hash t2) := hr3
    have hl3' : backwardHashParser_Parse_loop_3 grow lcs
        (if ((i - m : Nat) : Int) + ((kk : Int) + (m : Int)) > inputEnd then inputEnd
          else ((i - m : Nat) : Int) + ((kk : Int) + (m : Int)))
        (y &&& s.hashDictionary.hash.mask) { arr := A, len := E + 7 }
        (Gen.hashValue (y &&& s.hashDictionary.hash.mask) s.hashDictionary.hash.shift) fuel (((i - m : Nat) : Int) + 1)
        (setTB s t1) = Res.ok (jj, setTB s t2) := hl3
    refine ⟨(ofHashT s.hashDictionary.hash t2, some (i - m, kk + m, i - j)), ?_, t2, ht2, rfl, ?_, ?_⟩
    · rw [hnf, hml, Option.bind_some]
      dsimp only
      rw [hbe, Option.bind_some, hr3']; rfl
    · refine bind_trans (v := (kk : Int)) ?_ ?_
      · -- the match extension
        by_cases h8 : k8 = 8
        · subst h8
          rw [if_pos (by omega)]
          have hme' := hme
          unfold BytesW.matchExt at hme'
          rw [if_pos rfl, BytesW.sliceFrom_eq_some _ _ (by rw [hpl]; omega),
            BytesW.sliceFrom_eq_some _ _ (by rw [hpl]; omega)] at hme'
          simp only [Option.bind_eq_bind, Option.bind_some] at hme'
          refine bind_trans (slice_okI _ (Int.ofNat j + 8) (Int.ofNat L) (j + 8) L (by show (j : Int) + 8 = _; omega) rfl
            (by omega) hLA) ?_
          refine bind_trans (slice_okI _ (ia + 8) (Int.ofNat L) (i + 8) L (by omega) rfl (by omega) hLA) ?_
          obtain ⟨e, kN', r', q', hl2, hr', hq', hdisj⟩ := loop2_eqB grow lcs (y &&& s.hashDictionary.hash.mask) (L - i) fuel 8
            ((8 : Nat) : Int) { arr := A.drop (j + 8), len := L - (j + 8) } { arr := A.drop (i + 8), len := L - (i + 8) }
            (by show L - (i + 8) < 8 * (L - i); omega) (by omega) rfl (swf_drop _ _ _ hLA) (swf_drop _ _ _ hLA)
            (by show L - (i + 8) ≤ L - (j + 8); omega)
          refine bind_trans hl2 ?_
          dsimp only
          rw [data_drop, data_drop, hme'] at hdisj
          rcases hdisj with ⟨he, hm⟩ | ⟨he, hm⟩
          · rw [if_pos he]
            injection hm with hm
            rw [hm]
          · rw [if_neg he]
            injection hm with hm
            by_cases hq0 : q'.len > 0
            · rw [if_pos (by show (q'.len : Int) > 0; omega), gen_getLE64 r' hr', bind_ok, gen_getLE64 q' hq', bind_ok,
                bind_ok]
              skip
              have htv := tail_val r'.data q'.data kN' (by rw [data_length hq']; exact hq0)
              rw [data_length hq'] at htv
              rw [hm]
              exact congrArg Res.ok htv
            · rw [if_neg (by show ¬ (q'.len : Int) > 0; omega), bind_ok]
              unfold BytesW.matchExtTail at hm
              rw [if_neg (by rw [data_length hq']; exact hq0)] at hm
              rw [hm]
        · rw [if_neg (by omega)]
          unfold BytesW.matchExt at hme
          rw [if_neg h8] at hme
          injection hme with hme
          rw [hme]
      · dsimp only
        refine bind_trans hgb ?_
        dsimp only
        refine bind_trans (slice_okI _ lia ((i - m : Nat) : Int) li (i - m) hlia rfl (by omega)
          (by show i - m ≤ A.length; omega)) ?_
        dsimp only
        refine bind_trans hl3' ?_
        dsimp only
        have e1 : ((i - m : Nat) : Int) + ((kk : Int) + (m : Int)) - 1 + 1 = ((i - m + (kk + m) : Nat) : Int) := by omega
        have e2 : ((i - m : Nat) : Int) + ((kk : Int) + (m : Int)) = ((i - m + (kk + m) : Nat) : Int) := by omega
        have e3 : ia - Int.ofNat j = ((i - j : Nat) : Int) := by show ia - (j : Int) = _; omega
        have e4 : (kk : Int) + (m : Int) = ((kk + m : Nat) : Int) := by omega
        rw [e1, e2, e3, e4]
        rfl
    · intro st k o h
      cases h
      exact ⟨by omega, by omega, by omega, by omega⟩

/-- **The greedy loop of `Parse`** (loop_1 of the translation of bhp.go) is `ProbeW.greedyLoopW` with the word-level
    finder `ProbeW.hpProbeW … true`: no panic, same final position, `litIndex`, sequences and literals; the final
    table abstracts to the model's final table.  Fuel: one unit per iteration plus `E` for the re-indexing loop,
    which in bhp.go may start before the current position. -/
theorem loop1_eqB (grow : Nat → Nat → Nat) (lcs : Slice → Slice → Int) (hlcs : LcsSpec lcs)
    (inputEnd mm : Int) (A : List UInt8) (L E mmN ws : Nat)
    (hE : inputEnd = (E : Int)) (hmm : mm = (mmN : Int))
    (hEL : E ≤ L) (hLA : L ≤ A.length) (hEA : E + 7 ≤ A.length) (hmm1 : 1 ≤ mmN) (hmm8 : mmN ≤ 8) :
    ∀ (n fuel i li : Nat) (ia lia : Int) (s : Gen.backwardHashParser) (blk : Block') (sq : List LZ.Seq) (lt : List Byte),
      E ≤ i + n → i ≤ L → li ≤ i → ia = (i : Int) → lia = (li : Int) → L + E + 1 ≤ fuel + i →
      TCtx s.hashDictionary.hash.mask s.hashDictionary.hash.shift s.hashDictionary.hash.inputLen
        { arr := A, len := E + 7 } →
      TOK s.hashDictionary.hash.shift s.hashDictionary.hash.table →
      ws = s.BHPConfig.WindowSize.toNat →
      blk.Sequences = sq.map seqRep → blk.Literals.data = lt → SWF blk.Literals →
      ∃ (st' : LoopSt HashT) (t' : GSlice hashEntry) (blk' : Block'),
        ProbeW.greedyLoopW (ProbeW.hpProbeW ws mmN E true (A.drop L)) (A.take L) E
          { dict := ofHash s.hashDictionary.hash, i := i, litIndex := li, seqs := sq, lits := lt } = some st' ∧
        backwardHashParser_Parse_loop_1 grow lcs inputEnd { arr := A, len := E + 7 } { arr := A, len := L } mm fuel ia s blk lia =
          Res.ok ((st'.i : Int), setTB s t', blk', (st'.litIndex : Int)) ∧
        TOK s.hashDictionary.hash.shift t' ∧ st'.dict = ofHashT s.hashDictionary.hash t' ∧
        blk'.Sequences = st'.seqs.map seqRep ∧ blk'.Literals.data = st'.lits ∧ SWF blk'.Literals ∧
        li ≤ st'.litIndex ∧ st'.litIndex ≤ L := by
  intro n
  induction n with
  | zero =>
    intro fuel i li ia lia s blk sq lt hn hiL hli hia hlia hfuel c ht hws hsq hlt hswf
    obtain ⟨f, rfl⟩ : ∃ f, fuel = f + 1 := ⟨fuel - 1, by omega⟩
    refine ⟨_, s.hashDictionary.hash.table, blk, ProbeW.greedyLoopW_done _ _ _ _ (by show ¬ i < E; omega), ?_,
      ht, rfl, hsq, hlt, hswf, Nat.le_refl _, by show li ≤ L; omega⟩
    rw [backwardHashParser_Parse_loop_1, if_neg (by omega), hia, hlia]
  | succ n ih =>
    intro fuel i li ia lia s blk sq lt hn hiL hli hia hlia hfuel c ht hws hsq hlt hswf
    by_cases hi : i < E
    · obtain ⟨f, rfl⟩ : ∃ f, fuel = f + 1 := ⟨fuel - 1, by omega⟩
      obtain ⟨r, hr, t1, ht1, hr1, hstep, hb⟩ := loop1_stepB grow lcs hlcs inputEnd mm A L E mmN ws f i li ia lia s blk c ht
        hia hlia hE hmm hi hEL hLA hEA hli hws hmm1 hmm8 (by omega) (by omega)
      obtain ⟨d, m⟩ := r
      simp only [] at hr1 hstep hb
      subst hr1
      cases m with
      | none =>
        simp only [] at hstep
        obtain ⟨st', t', blk', h1, h2, h3, h4, h5, h6, h7, h8, h9⟩ := ih f (i + 1) li (ia + 1) lia (setTB s t1) blk sq lt
          (by omega) (by omega) (by omega) (by omega) hlia (by omega) c ht1 hws hsq hlt hswf
        refine ⟨st', t', blk', ?_, ?_, h3, h4, h5, h6, h7, h8, h9⟩
        · rw [ProbeW.greedyLoopW_none _ _ _ _ _ hi hr]; exact h1
        · rw [hstep]; exact h2
      | some m =>
        obtain ⟨st0, k, o⟩ := m
        obtain ⟨hlist, hsti, hik, hkL⟩ := hb st0 k o rfl
        simp only [] at hstep
        have hql : (((A.take L).drop li).take (st0 - li)).length = st0 - li := by
          rw [lits_eq A L li st0 hlist (by omega), List.length_take, List.length_drop]; omega
        obtain ⟨st', t', blk', h1, h2, h3, h4, h5, h6, h7, h8, h9⟩ := ih f (st0 + k) (st0 + k) ((st0 + k : Nat) : Int)
          ((st0 + k : Nat) : Int) (setTB s t1)
          { Sequences := blk.Sequences ++ [seqRep { litLen := st0 - li, matchLen := k, offset := o }],
            Literals := Slice.append grow blk.Literals ((A.drop li).take (st0 - li)) }
          (sq ++ [{ litLen := (((A.take L).drop li).take (st0 - li)).length, matchLen := k, offset := o }])
          (lt ++ ((A.take L).drop li).take (st0 - li))
          (by omega) hkL (Nat.le_refl _) rfl rfl (by omega) c ht1 hws
          (by rw [List.map_append, hsq, hql]; rfl)
          (by rw [(append_spec grow blk.Literals hswf _).1, hlt, lits_eq A L li st0 hlist (by omega)])
          (swf_append grow _ hswf _)
        refine ⟨st', t', blk', ?_, ?_, h3, h4, h5, h6, h7, by omega, h9⟩
        · rw [ProbeW.greedyLoopW_some _ _ _ _ _ _ _ _ hi hr (by show st0 + k > i; omega)]; exact h1
        · rw [hstep]; exact h2
    · obtain ⟨f, rfl⟩ : ∃ f, fuel = f + 1 := ⟨fuel - 1, by omega⟩
      refine ⟨_, s.hashDictionary.hash.table, blk, ProbeW.greedyLoopW_done _ _ _ _ hi, ?_,
        ht, rfl, hsq, hlt, hswf, Nat.le_refl _, by show li ≤ L; omega⟩
      rw [backwardHashParser_Parse_loop_1, if_neg (by omega), hia, hlia]

end LZ.GenBHPParse

#print axioms LZ.GenBHPParse.loop3_eqB
#print axioms LZ.GenBHPParse.loop2_eqB
#print axioms LZ.GenBHPParse.hpProbeW_nfB
#print axioms LZ.GenBHPParse.gen_backExt
#print axioms LZ.GenBHPParse.loop1_stepB
#print axioms LZ.GenBHPParse.loop1_eqB
