/-
  LzProofs.GenBHPParseLemmas — helper lemmas for LzProofs/GenBHPParse.lean (translated bhp.go
  `(*backwardHashParser).Parse` versus `ProbeW.parseW` for kind `.BHP`): the BHP copies of the lemmas about the
  HP-specific generated loops (loop_2, loop_3), the word-level finder for `back = true` without `do`, the
  backward extension `lcs(p[j-back:j], p[:i])` under a specification of the opaque `lcs`, one iteration of the
  greedy loop and the whole loop.

  Proof style (robustness round 2): no lemma spells a condition, a clamp or an argument of the generated text.
  Each `if` is resolved by `bhp_ifc` (first `if` of the goal, by unification, arms in either order, condition decided
  by `omega` after normalising `Int.ofNat`/`UInt32` equalities), each clamp `if k > x { k = x }` / `min(k, x)` by
  `bhp_val v` (replaced by the model's value `v`; `omega` shows both arms equal to `v`), slice bounds and the
  arguments of the loop functions through congruence lemmas (`slice_okB`, `loop3_congrB`, `loop1_congrB`, …) whose
  side conditions are again closed by `omega`.  `x ^ y` / `y ^ x` and `y & mask` / `mask & y` are normalised by
  commutativity.  What remains visible: the order of the state tuple of a loop function (part of its type) and the
  data flow (which value is stored where) — a change there is a change of the statement.
-/
import LzModel.Generated.CodeBHPParse
import LzProofs.GenHPParse
import LzProofs.GenPropsCfgBHP
import LzProofs.BytesProps
import LzProofs.BytesLemmas

set_option linter.unusedSimpArgs false
set_option linter.unusedVariables false

namespace LZ.GenBHPParse
open LZ LZ.Gen LZ.GenBuf LZ.GenHash LZ.GenHPParse

/-- the specification of the opaque parameter `lcs` of the translation: the length of the longest common suffix
    of the elements of the two slices -/
def LcsSpec (lcs : Slice → Slice → Int) : Prop := ∀ p q : Slice, lcs p q = ((lcsLen p.data q.data : Nat) : Int)

/-! ## the table -/

/-- the parser state with another table -/
@[reducible] def setTB (s : Gen.backwardHashParser) (t : GSlice hashEntry) : Gen.backwardHashParser :=
  { s with hashDictionary := { s.hashDictionary with hash := { s.hashDictionary.hash with table := t } } }


/-! ## shape-independent steps

  The lemmas below never spell a condition or a clamp of the generated text.  `bhp_cond` decides an arithmetic
  side condition in whatever spelling it comes (`a < b` / `b > a`, `¬(p ∧ q)` / `¬p ∨ ¬q`, `Int.ofNat`, `UInt32`
  (dis)equalities through `toNat`); `bhp_ifc` resolves the FIRST `if` of the goal (found by unification, arms in
  either order) when the context decides its condition; `bhp_val v` replaces the first `if … then a else b` of the
  type of `v` by the model's value `v` (both arms are shown equal to `v` by `bhp_cond`) — this covers
  `if k > x { k = x }`, `if x < k { k = x }`, `k = min(k, x)` (the builtin is translated to an `if`, the package's own
  `min` to `LZ.Gen.min`) and a hoisted `x`. -/

theorem ite_valB {α : Type} {c : Prop} [Decidable c] {a b : α} (v : α) (h1 : c → a = v) (h2 : ¬ c → b = v) :
    (if c then a else b) = v := by
  split
  · exact h1 ‹_›
  · exact h2 ‹_›

/-- the same for a call of the package's `min` (`LZ.Gen.min`, rewritten to `min` by `gen_min`) -/
theorem min_valB {a b : Int} (v : Int) (h : Min.min a b = v) : Min.min a b = v := h

/-- decide an arithmetic condition of the generated text in any spelling -/
macro "bhp_cond" : tactic =>
  `(tactic| first
    | omega
    | (simp only [← UInt32.toNat_inj, Int.ofNat_eq_natCast, ne_eq]; first | done | omega))

/-- resolve the first `if` of the goal (or of a hypothesis) whose condition the context decides -/
syntax "bhp_ifc" (Lean.Parser.Tactic.location)? : tactic
macro_rules
  | `(tactic| bhp_ifc $[$loc]?) =>
    `(tactic| first | rw [if_pos (by bhp_cond)] $[$loc]? | rw [if_neg (by bhp_cond)] $[$loc]?)

/-- replace the first `if` of the type of `v` by the value `v` -/
syntax "bhp_val" term:max (Lean.Parser.Tactic.location)? : tactic
macro_rules
  | `(tactic| bhp_val $v $[$loc]?) =>
    `(tactic| first
      | rw [ite_valB $v (by bhp_cond) (by bhp_cond)] $[$loc]?
      | (simp only [LZ.GenProps.gen_min] $[$loc]?; rw [min_valB $v (by bhp_cond)] $[$loc]?))

/-- the arguments of a slice expression in any spelling -/
theorem slice_okB (s : Slice) {a b : Int} (i j : Nat) (ha : a = (i : Int)) (hb : b = (j : Int))
    (hij : i ≤ j) (hj : j ≤ s.arr.length) :
    Slice.slice s a b = Res.ok { arr := s.arr.drop i, len := j - i } := slice_okI s a b i j ha hb hij hj

/-- loop_3 of `Parse` (`for j = i + 1; j < b; j++ { … }`) -/
theorem loop3_eqB (grow : Nat → Nat → Nat) (lcs : Slice → Slice → Int) (b : Int) (x : UInt64) (_p : Slice) (h : UInt32) :
    ∀ (n fuel j : Nat) (a : Int) (s : Gen.backwardHashParser), a = (j : Int) → n = (b - a).toNat → n < fuel →
      (n = 0 ∨ j + n + 7 ≤ _p.len) →
      TCtx s.hashDictionary.hash.mask s.hashDictionary.hash.shift s.hashDictionary.hash.inputLen _p →
      TOK s.hashDictionary.hash.shift s.hashDictionary.hash.table →
      ∃ jj t', TOK s.hashDictionary.hash.shift t' ∧
        ProbeW.insertRangeW (ofHash s.hashDictionary.hash) _p.data j n = some (ofHashT s.hashDictionary.hash t') ∧
        backwardHashParser_Parse_loop_3 grow lcs b x _p h fuel a s = Res.ok (jj, setTB s t') := by
  intro n
  induction n with
  | zero =>
    intro fuel j a s ha hb hf _ c ht
    obtain ⟨f, rfl⟩ : ∃ f, fuel = f + 1 := ⟨fuel - 1, by omega⟩
    refine ⟨a, s.hashDictionary.hash.table, ht, rfl, ?_⟩
    rw [backwardHashParser_Parse_loop_3]
    bhp_ifc
  | succ n ih =>
    intro fuel j a s ha hb hf hn c ht
    obtain ⟨f, rfl⟩ : ∃ f, fuel = f + 1 := ⟨fuel - 1, by omega⟩
    obtain ⟨y, t1, hy, hF, hset, ht1, hins⟩ := insert_step s.hashDictionary.hash _p c _ ht a j ha (by omega)
    rw [backwardHashParser_Parse_loop_3]
    bhp_ifc
    rw [hF]
    dsimp only
    -- `y & s.mask` / `s.mask & y`
    have hand : s.hashDictionary.hash.mask &&& y = y &&& s.hashDictionary.hash.mask := UInt64.and_comm _ _
    try simp only [hand]
    rw [hset, bind_ok]
    obtain ⟨jj, t2, ht2, hr, hl⟩ := ih f (j + 1) (a + 1) (setTB s t1) (by omega) (by omega) (by omega) (by omega) c ht1
    refine ⟨jj, t2, ht2, ?_, hl⟩
    unfold ProbeW.insertRangeW
    simp only [Option.bind_eq_bind]
    rw [show ofHash s.hashDictionary.hash = ofHashT s.hashDictionary.hash s.hashDictionary.hash.table from rfl,
      hins, Option.bind_some]
    exact hr

/-! ## the match extension loop (loop_2 of `Parse`, with `goto match` as exit code 1) -/

theorem loop2_eqB (grow : Nat → Nat → Nat) (lcs : Slice → Slice → Int) (x : UInt64) :
    ∀ (m fuel kN : Nat) (k : Int) (r q : Slice), q.len < 8 * m → m ≤ fuel → k = (kN : Int) →
      SWF r → SWF q → q.len ≤ r.len →
      ∃ (e kN' : Nat) (r' q' : Slice),
        backwardHashParser_Parse_loop_2 grow lcs x fuel k r q = Res.ok (e, (kN' : Int), r', q') ∧ SWF r' ∧ SWF q' ∧
        ((e = 1 ∧ BytesW.matchExtLoop r.data q.data kN = some kN') ∨
         (e ≠ 1 ∧ BytesW.matchExtLoop r.data q.data kN = some (BytesW.matchExtTail r'.data q'.data kN'))) := by
  intro m
  induction m with
  | zero => intro fuel kN k r q h; omega
  | succ m ih =>
    intro fuel kN k r q hm hf hk hr hq hqr
    obtain ⟨f, rfl⟩ : ∃ f, fuel = f + 1 := ⟨fuel - 1, by omega⟩
    have hrl : r.data.length = r.len := data_length hr
    have hql : q.data.length = q.len := data_length hq
    have hr' : r.len ≤ r.arr.length := hr
    have hq' : q.len ≤ q.arr.length := hq
    rw [backwardHashParser_Parse_loop_2]
    by_cases h8 : 8 ≤ q.len
    · bhp_ifc
      rw [gen_le64 r hr, gen_le64 q hq,
        BytesW.le64_eq_some _ (by omega), BytesW.le64_eq_some _ (by omega)]
      have hxc : BytesW.getLE64 q.data ^^^ BytesW.getLE64 r.data = BytesW.getLE64 r.data ^^^ BytesW.getLE64 q.data :=
        UInt64.xor_comm _ _
      simp only [ofOpt, bind_ok, tz_shr, hxc]
      rw [matchExtLoop_ge _ _ _ (by omega) (by omega)]
      generalize BytesW.tz64 (BytesW.getLE64 r.data ^^^ BytesW.getLE64 q.data) >>> 3 = b
      by_cases hb : b < 8
      · rw [if_pos hb]
        bhp_ifc
        exact ⟨1, kN + b, r, q, by rw [hk]; rfl, hr, hq, Or.inl ⟨rfl, rfl⟩⟩
      · rw [if_neg hb]
        bhp_ifc
        rw [slice_okB r 8 r.len (by bhp_cond) (by bhp_cond) (by omega) hr', bind_ok,
          slice_okB q 8 q.len (by bhp_cond) (by bhp_cond) (by omega) hq', bind_ok]
        obtain ⟨e, kN', r', q', hl, h1, h2, h3⟩ := ih f (kN + b) (k + (b : Int))
          { arr := r.arr.drop 8, len := r.len - 8 } { arr := q.arr.drop 8, len := q.len - 8 }
          (by show q.len - 8 < _; omega) (by omega) (by rw [hk]; rfl) (swf_drop _ _ _ hr') (swf_drop _ _ _ hq')
          (by show q.len - 8 ≤ r.len - 8; omega)
        rw [data_drop', data_drop'] at h3
        exact ⟨e, kN', r', q', hl, h1, h2, h3⟩
    · bhp_ifc
      rw [matchExtLoop_lt _ _ _ (by omega)]
      exact ⟨0, kN, r, q, by rw [hk], hr, hq, Or.inr ⟨by decide, rfl⟩⟩

/-! ## the word-level finder for `back = true` in a form without `do` -/

theorem hpProbeW_nfB (ws mm E : Nat) (behind : List Byte) (h : HashT) (pd : List Byte) (i li : Nat)
    (_pd : List Byte) (y : UInt64)
    (h1 : BytesW.sliceTo pd behind (E + 7) = some _pd)
    (hy : (BytesW.sliceFrom _pd i).bind BytesW.le64 = some y)
    (x : UInt64) (hx : x = y &&& maskOf h.inputLen)
    (e : Nat × Nat) (he : e = h.tbl.getD (LZ.hashValue x h.hashBits) (0, 0))
    (H1 : HashT) (hH1 : H1 = { h with tbl := h.tbl.setIfInBounds (LZ.hashValue x h.hashBits) (i, lo32 x) }) :
    ProbeW.hpProbeW ws mm E true behind h pd i li =
      if lo32 x ≠ e.2 then some (H1, none)
      else if ¬ (e.1 < i ∧ i - e.1 ≤ ws) then some (H1, none)
      else
        (BytesW.matchLenInline pd behind E mm i e.1).bind fun r =>
        match r with
        | none => some (H1, none)
        | some k =>
          (ProbeW.backExtW pd behind i li e.1).bind fun m =>
          (ProbeW.insertRangeW H1 _pd (i - m + 1) (Min.min (i - m + (k + m)) E - (i - m + 1))).bind fun h2 =>
          some (h2, some (i - m, k + m, i - e.1)) := by
  subst hx he hH1
  unfold ProbeW.hpProbeW ProbeW.loadKey
  simp only [Option.bind_eq_bind, Option.pure_def] at hy ⊢
  rw [h1, Option.bind_some]
  cases hsi : BytesW.sliceFrom _pd i with
  | none => rw [hsi] at hy; cases hy
  | some li =>
    rw [hsi, Option.bind_some] at hy
    simp only [Option.bind_some, hy]
    split
    · rfl
    · split
      · rfl
      · cases BytesW.matchLenInline pd behind E mm i _ with
        | none => rfl
        | some r =>
          cases r with
          | none => rfl
          | some k => simp only [Option.bind_some, if_true]

/-! ## the backward extension -/

theorem backExt_le (p : List Byte) (i li j : Nat) : backExt p i li j ≤ Min.min (i - li) j := by
  unfold backExt
  split
  · have h := BytesW.lcsLen_le_left ((p.take j).drop (j - Min.min (i - li) j)) (p.take i)
    rw [List.length_drop, List.length_take] at h
    show lcsLen ((p.take j).drop (j - Min.min (i - li) j)) (p.take i) ≤ _
    omega
  · omega

/-- `if back := i - litIndex; back > 0 { if back > j { back = j }; m := lcs(p[j-back:j], p[:i]); i -= m; k += m }`
    of bhp.go under the specification of `lcs`: no panic, `m` is the model's `backExt`.
    A closed statement about ONE spelling of the block (it does not mention the generated code); kept for older
    users, no longer used by `loop1_stepB`, which evaluates the block as it comes (`lcs_backExtB`). -/
theorem gen_backExt (lcs : Slice → Slice → Int) (hlcs : LcsSpec lcs) (A : List UInt8) (L i li j : Nat)
    (ia lia kI : Int) (hia : ia = (i : Int)) (hlia : lia = (li : Int)) (hj : j < i) (hi : i ≤ L)
    (hLA : L ≤ A.length) (hli : li ≤ i) :
    (if ia - lia > 0 then
      Res.bind (Slice.slice { arr := A, len := L }
        (Int.ofNat j - (if ia - lia > Int.ofNat j then Int.ofNat j else ia - lia)) (Int.ofNat j)) fun t_14 =>
      Res.bind (Slice.slice { arr := A, len := L } 0 ia) fun t_15 =>
      Res.ok (ia - lcs t_14 t_15, kI + lcs t_14 t_15)
    else Res.ok (ia, kI)) =
      Res.ok (((i - backExt (A.take L) i li j : Nat) : Int), kI + ((backExt (A.take L) i li j : Nat) : Int)) := by
  have hle := backExt_le (A.take L) i li j
  by_cases hb : i > li
  · rw [if_pos (by omega)]
    have hback : (Int.ofNat j - (if ia - lia > Int.ofNat j then Int.ofNat j else ia - lia)) =
        ((j - Min.min (i - li) j : Nat) : Int) := by
      show ((j : Int) - (if ia - lia > (j : Int) then (j : Int) else ia - lia)) = _
      split <;> omega
    refine bind_trans (slice_okI _ _ (Int.ofNat j) (j - Min.min (i - li) j) j hback rfl (by omega)
      (by show j ≤ A.length; omega)) ?_
    refine bind_trans (slice_okI _ 0 ia 0 i rfl hia (Nat.zero_le _) (by show i ≤ A.length; omega)) ?_
    rw [hlcs]
    have hd : lcsLen ({ arr := A.drop (j - Min.min (i - li) j), len := j - (j - Min.min (i - li) j) } : Slice).data
        ({ arr := A.drop 0, len := i - 0 } : Slice).data = backExt (A.take L) i li j := by
      unfold backExt
      rw [if_pos hb, data_drop, data_mk]
      show _ = lcsLen (((A.take L).take j).drop (j - Min.min (i - li) j)) ((A.take L).take i)
      rw [List.take_take, List.take_take, Nat.min_eq_left (show j ≤ L by omega), Nat.min_eq_left (show i ≤ L by omega)]
      simp only [List.drop_zero, Nat.sub_zero]
    rw [hd, hia]
    have : ((i : Nat) : Int) - ((backExt (A.take L) i li j : Nat) : Int) = ((i - backExt (A.take L) i li j : Nat) : Int) := by
      omega
    rw [this]
  · rw [if_neg (by omega)]
    have h0 : backExt (A.take L) i li j = 0 := by unfold backExt; rw [if_neg hb]
    rw [h0, hia]; simp

/-! ## one iteration of the greedy loop -/

/-- `_getLE64(_p[a:])` (`gen_load_ok`) with the two slice bounds in any spelling -/
theorem gen_load_okB (_p : Slice) (h : SWF _p) (i : Nat) (hi : i + 8 ≤ _p.len) :
    ∃ y, (BytesW.sliceFrom _p.data i).bind BytesW.le64 = some y ∧
      ∀ {β : Type} (a b : Int) (ha : a = (i : Int)) (hb : b = (_p.len : Int)) (F : UInt64 → Res β),
        Res.bind (Slice.slice _p a b) (fun t => Res.bind (Gen._getLE64 t) F) = F y := by
  obtain ⟨y, hy, hF⟩ := gen_load_ok _p h (i : Int) i rfl hi
  refine ⟨y, hy, ?_⟩
  intro β a b ha hb F
  subst ha hb
  exact hF F

/-- the tail of the match extension as a `min` -/
theorem tail_valB (r q : List Byte) (kN : Nat) (hq : q.length > 0) :
    BytesW.matchExtTail r q kN = kN + Min.min (BytesW.tz64 (BytesW.getLE64 r ^^^ BytesW.getLE64 q) >>> 3) q.length := by
  unfold BytesW.matchExtTail
  rw [if_pos hq]
  simp only []
  split <;> omega

/-- the two slices handed to `lcs` and its value under `LcsSpec` -/
theorem lcs_backExtB (lcs : Slice → Slice → Int) (hlcs : LcsSpec lcs) (A : List UInt8) (L i li j : Nat)
    (hb : i > li) (hj : j < i) (hi : i ≤ L) :
    lcs { arr := A.drop (j - Min.min (i - li) j), len := j - (j - Min.min (i - li) j) } { arr := A.drop 0, len := i - 0 } =
      ((backExt (A.take L) i li j : Nat) : Int) := by
  rw [hlcs]
  unfold backExt
  rw [if_pos hb, data_drop, data_mk]
  show ((lcsLen _ _ : Nat) : Int) = ((lcsLen (((A.take L).take j).drop (j - Min.min (i - li) j)) ((A.take L).take i) : Nat) : Int)
  rw [List.take_take, List.take_take, Nat.min_eq_left (show j ≤ L by omega), Nat.min_eq_left (show i ≤ L by omega)]
  simp only [List.drop_zero, Nat.sub_zero]

theorem loop3_congrB (grow : Nat → Nat → Nat) (lcs : Slice → Slice → Int) {b b' : Int} (x : UInt64) (_p : Slice)
    (h : UInt32) (fuel : Nat) {j j' : Int} (s : Gen.backwardHashParser) (hb : b' = b) (hj : j' = j) :
    backwardHashParser_Parse_loop_3 grow lcs b' x _p h fuel j' s =
      backwardHashParser_Parse_loop_3 grow lcs b x _p h fuel j s := by subst hb hj; rfl

theorem loop1_congrB (grow : Nat → Nat → Nat) (lcs : Slice → Slice → Int) (inputEnd : Int) (_p p : Slice) (mm : Int)
    (fuel : Nat) {i i' : Int} (s : Gen.backwardHashParser) {blk blk' : Block'} {li li' : Int}
    (hi : i' = i) (hblk : blk' = blk) (hli : li' = li) :
    backwardHashParser_Parse_loop_1 grow lcs inputEnd _p p mm fuel i' s blk' li' =
      backwardHashParser_Parse_loop_1 grow lcs inputEnd _p p mm fuel i s blk li := by subst hi hblk hli; rfl

theorem seq_congrB {a b c : Int} {n1 n2 n3 : Nat} (ha : a = (n1 : Int)) (hb : b = (n2 : Int)) (hc : c = (n3 : Int)) :
    ({ LitLen := UInt32.ofInt a, MatchLen := UInt32.ofInt b, Offset := UInt32.ofInt c, Aux := 0 } : Gen.Seq) =
      seqRep { litLen := n1, matchLen := n2, offset := n3 } := by subst ha hb hc; rfl

theorem blk_congrB (g : Nat → Nat → Nat) (sq : List Gen.Seq) (l : Slice) {S S' : Gen.Seq} {d d' : List UInt8}
    (hS : S = S') (hd : d = d') :
    ({ Sequences := sq ++ [S], Literals := Slice.append g l d } : Block') =
      { Sequences := sq ++ [S'], Literals := Slice.append g l d' } := by subst hS hd; rfl

theorem okpairB {α β : Type} {a c : α} {b d : β} (h1 : a = c) (h2 : b = d) : Res.ok (a, b) = Res.ok (c, d) := by
  subst h1 h2; rfl

set_option maxHeartbeats 1000000 in
theorem loop1_stepB (grow : Nat → Nat → Nat) (lcs : Slice → Slice → Int) (hlcs : LcsSpec lcs)
    (inputEnd mm : Int) (A : List UInt8) (L E mmN ws : Nat)
    (fuel i li : Nat) (ia lia : Int) (s : Gen.backwardHashParser) (blk : Block')
    (c : TCtx s.hashDictionary.hash.mask s.hashDictionary.hash.shift s.hashDictionary.hash.inputLen
      { arr := A, len := E + 7 })
    (ht : TOK s.hashDictionary.hash.shift s.hashDictionary.hash.table)
    (hia : ia = (i : Int)) (hlia : lia = (li : Int)) (hE : inputEnd = (E : Int)) (hmm : mm = (mmN : Int))
    (hi : i < E) (hEL : E ≤ L) (hLA : L ≤ A.length) (hEA : E + 7 ≤ A.length) (hli : li ≤ i)
    (hws : ws = s.BHPConfig.WindowSize.toNat) (hmm1 : 1 ≤ mmN) (hmm8 : mmN ≤ 8)
    (hfuel : L ≤ fuel + i) (hfuelE : E ≤ fuel) :
    ∃ r, ProbeW.hpProbeW ws mmN E true (A.drop L) (ofHash s.hashDictionary.hash) (A.take L) i li = some r ∧
      ∃ t', TOK s.hashDictionary.hash.shift t' ∧ r.1 = ofHashT s.hashDictionary.hash t' ∧
        backwardHashParser_Parse_loop_1 grow lcs inputEnd { arr := A, len := E + 7 } { arr := A, len := L } mm (fuel + 1) ia s blk lia =
          (match r.2 with
          | none =>
            backwardHashParser_Parse_loop_1 grow lcs inputEnd { arr := A, len := E + 7 } { arr := A, len := L } mm fuel (ia + 1)
              (setTB s t') blk lia
          | some (st, k, o) =>
            backwardHashParser_Parse_loop_1 grow lcs inputEnd { arr := A, len := E + 7 } { arr := A, len := L } mm fuel
              ((st + k : Nat) : Int) (setTB s t')
              { Sequences := blk.Sequences ++ [seqRep { litLen := st - li, matchLen := k, offset := o }],
                Literals := Slice.append grow blk.Literals ((A.drop li).take (st - li)) }
              ((st + k : Nat) : Int)) ∧
        (∀ st k o, r.2 = some (st, k, o) → li ≤ st ∧ st ≤ i ∧ i < st + k ∧ st + k ≤ L) := by
  -- the memory
  have hmem : BytesW.sliceTo (A.take L) (A.drop L) (E + 7) = some (A.take (E + 7)) := by
    unfold BytesW.sliceTo; rw [List.take_append_drop, if_pos hEA]
  have hpd : ({ arr := A, len := E + 7 } : Slice).data = A.take (E + 7) := rfl
  have hpl : (A.take L).length = L := by rw [List.length_take]; omega
  have hs := c.small
  have hsmall : E + 7 < 4294967296 + 8 := hs
  have hplen : (({ arr := A, len := E + 7 } : Slice).len : Int) = ((E + 7 : Nat) : Int) := rfl
  -- the load at i, the table access
  obtain ⟨y, hy, hF⟩ := gen_load_okB { arr := A, len := E + 7 } c.swf i (by show i + 8 ≤ E + 7; omega)
  rw [hpd] at hy
  obtain ⟨hv, hlt⟩ := gen_hashValue_shift (y &&& s.hashDictionary.hash.mask) s.hashDictionary.hash.shift c.sh1 c.sh2
  have hidx : (Gen.hashValue (y &&& s.hashDictionary.hash.mask) s.hashDictionary.hash.shift).toNat <
      s.hashDictionary.hash.table.len := by rw [hv, ht.2]; exact hlt
  rw [backwardHashParser_Parse_loop_1]
  bhp_ifc
  rw [hF _ _ (by bhp_cond) (by bhp_cond)]
  try dsimp only
  -- `y & s.mask` / `s.mask & y`
  have hand : s.hashDictionary.hash.mask &&& y = y &&& s.hashDictionary.hash.mask := UInt64.and_comm _ _
  try simp only [hand]
  rw [gindex_ok _ _ (Int.ofNat _) _ rfl hidx, bind_ok, gset_ok _ (Int.ofNat _) _ rfl hidx, bind_ok]
  -- the model side of the table access
  have hget := ofHashT_get s.hashDictionary.hash s.hashDictionary.hash.table ht.1 _ hidx
  unfold zeroE at hget
  have hset : ofHashT s.hashDictionary.hash (GSlice.mk (s.hashDictionary.hash.table.arr.set
      (Gen.hashValue (y &&& s.hashDictionary.hash.mask) s.hashDictionary.hash.shift).toNat
      (hashEntry.mk (UInt32.ofInt ia) (y &&& s.hashDictionary.hash.mask).toUInt32)) s.hashDictionary.hash.table.len) = _ :=
    ofHashT_set s.hashDictionary.hash s.hashDictionary.hash.table
      (Gen.hashValue (y &&& s.hashDictionary.hash.mask) s.hashDictionary.hash.shift).toNat
      { pos := UInt32.ofInt ia, value := (y &&& s.hashDictionary.hash.mask).toUInt32 }
  have ht1 : TOK s.hashDictionary.hash.shift (GSlice.mk (s.hashDictionary.hash.table.arr.set
      (Gen.hashValue (y &&& s.hashDictionary.hash.mask) s.hashDictionary.hash.shift).toNat
      (hashEntry.mk (UInt32.ofInt ia) (y &&& s.hashDictionary.hash.mask).toUInt32)) s.hashDictionary.hash.table.len) :=
    ⟨gwf_set _ ht.1 _ _, ht.2⟩
  generalize (GSlice.mk (s.hashDictionary.hash.table.arr.set
      (Gen.hashValue (y &&& s.hashDictionary.hash.mask) s.hashDictionary.hash.shift).toNat
      (hashEntry.mk (UInt32.ofInt ia) (y &&& s.hashDictionary.hash.mask).toUInt32)) s.hashDictionary.hash.table.len) = t1
    at hset ht1 ⊢
  rw [hv] at hset
  simp only [ofEntry, lo32_eq, toNat_ofInt32 i ia hia (by omega)] at hset
  generalize hent : (s.hashDictionary.hash.table.arr[(Gen.hashValue (y &&& s.hashDictionary.hash.mask)
      s.hashDictionary.hash.shift).toNat]?).getD { pos := 0, value := 0 } = ent at hget ⊢
  rw [hv] at hget
  have hnf := hpProbeW_nfB ws mmN E (A.drop L) (ofHash s.hashDictionary.hash) (A.take L) i li (A.take (E + 7)) y hmem hy
    (y &&& s.hashDictionary.hash.mask) (by rw [c.mask]; rfl) (ofEntry ent) hget.symm (ofHashT s.hashDictionary.hash t1) hset
  -- A: the stored value differs (the model's test decides the generated one through `toNat`)
  by_cases hA : lo32 (y &&& s.hashDictionary.hash.mask) ≠ (ofEntry ent).2
  · have hA' : (y &&& s.hashDictionary.hash.mask).toUInt32.toNat ≠ ent.value.toNat := by rw [lo32_eq]; exact hA
    refine ⟨(ofHashT s.hashDictionary.hash t1, none), by rw [hnf, if_pos hA], t1, ht1, rfl, ?_,
      by intro st k o h; cases h⟩
    bhp_ifc
  have hA' : (y &&& s.hashDictionary.hash.mask).toUInt32.toNat = ent.value.toNat := by
    rw [lo32_eq]; exact Decidable.not_not.mp hA
  bhp_ifc
  rw [if_neg hA] at hnf
  -- B: the candidate is outside the window
  have hj1 : (ofEntry ent).1 = ent.pos.toNat := rfl
  rw [hj1] at hnf
  generalize hjdef : ent.pos.toNat = j at hnf ⊢
  by_cases hw : ¬ (j < i ∧ i - j ≤ ws)
  · refine ⟨(ofHashT s.hashDictionary.hash t1, none), by rw [hnf, if_pos hw], t1, ht1, rfl, ?_,
      by intro st k o h; cases h⟩
    bhp_ifc
  bhp_ifc
  rw [if_neg hw] at hnf
  have hw := Decidable.not_not.mp hw
  -- C: the first word of the candidate
  obtain ⟨z, hz, hF2⟩ := gen_load_okB { arr := A, len := E + 7 } c.swf j (by show j + 8 ≤ E + 7; omega)
  rw [hpd] at hz
  rw [hF2 _ _ (by bhp_cond) (by bhp_cond)]
  have hxc : y ^^^ z = z ^^^ y := UInt64.xor_comm _ _
  simp only [tz_shr, hxc]
  have hml := matchLenInline_nf (A.take L) (A.drop L) (A.take (E + 7)) E mmN i j y z hmem hy hz
  rw [hpl] at hml
  generalize BytesW.tz64 (z ^^^ y) >>> 3 = tz at hml ⊢
  have hk8 : (if tz > L - i then L - i else tz) = Min.min tz (L - i) := by split <;> omega
  rw [hk8] at hml
  -- `k = min(k, len(p)-i)` in whatever form the text computes it
  bhp_val ((Min.min tz (L - i) : Nat) : Int)
  have hk8le : Min.min tz (L - i) ≤ L - i := by omega
  generalize Min.min tz (L - i) = k8 at hml hk8le ⊢
  by_cases hC1 : k8 < mmN
  · rw [if_pos hC1] at hml
    refine ⟨(ofHashT s.hashDictionary.hash t1, none), by rw [hnf, hml]; rfl, t1, ht1, rfl, ?_,
      by intro st k o h; cases h⟩
    bhp_ifc
  rw [if_neg hC1] at hml
  bhp_ifc
  -- the semantic content of the match length (bounds only)
  have hsem := BytesW.matchLenInline_eq (A.take L) (A.drop L) E mmN i j hw.1 hi (by rw [hpl]; exact hEL)
    (by rw [List.take_append_drop]; exact hEA)
  have hLcle : lcpLen ((A.take L).drop j) ((A.take L).drop i) ≤ L - i := by
    have := BytesW.lcpLen_le_right ((A.take L).drop j) ((A.take L).drop i)
    rw [List.length_drop, hpl] at this; exact this
  generalize lcpLen ((A.take L).drop j) ((A.take L).drop i) = Lc at hsem hLcle
  rw [hml] at hsem
  cases hme : BytesW.matchExt (A.take L) i j k8 with
  | none => rw [hme] at hsem; cases hsem
  | some kk =>
    rw [hme, Option.map_some] at hsem
    have hkk : ¬ Min.min 8 Lc < mmN ∧ kk = Lc := by
      by_cases hh : Min.min 8 Lc < mmN
      · rw [if_pos hh] at hsem; cases hsem
      · rw [if_neg hh] at hsem; injection hsem with h1; injection h1 with h2; exact ⟨hh, h2⟩
    obtain ⟨hmin, hkkLc⟩ := hkk
    subst hkkLc
    rw [hme, Option.map_some] at hml
    -- the backward extension
    have hbe := ProbeW.backExtW_eq (A.take L) (A.drop L) i li j (by omega) (by rw [hpl]; omega)
    have hmle := backExt_le (A.take L) i li j
    have hlcsB : i > li → _ := fun hb => lcs_backExtB lcs hlcs A L i li j hb hw.1 (by omega)
    have hm0 : ¬ i > li → backExt (A.take L) i li j = 0 := by intro hb; unfold backExt; rw [if_neg hb]
    generalize backExt (A.take L) i li j = m at hbe hmle hlcsB hm0
    -- the re-indexing loop, for the canonical spelling of its bounds
    obtain ⟨jj, t2, ht2, hr3, hl3⟩ := loop3_eqB grow lcs ((Min.min (i - m + (kk + m)) E : Nat) : Int)
      (y &&& s.hashDictionary.hash.mask)
      { arr := A, len := E + 7 } (Gen.hashValue (y &&& s.hashDictionary.hash.mask) s.hashDictionary.hash.shift)
      (Min.min (i - m + (kk + m)) E - (i - m + 1)) fuel (i - m + 1) ((i - m + 1 : Nat) : Int) (setTB s t1) rfl
      (by omega) (by omega)
      (by show _ ∨ _ ≤ E + 7; omega) c ht1
    rw [hpd] at hr3
    have hr3' : ProbeW.insertRangeW (ofHashT s.hashDictionary.hash t1) (List.take (E + 7) A) (i - m + 1)
        (Min.min (i - m + (kk + m)) E - (i - m + 1)) = some (ofHashT s.hashDictionary.hash t2) := hr3
    refine ⟨(ofHashT s.hashDictionary.hash t2, some (i - m, kk + m, i - j)), ?_, t2, ht2, rfl, ?_, ?_⟩
    · rw [hnf, hml, Option.bind_some]
      try dsimp only
      rw [hbe, Option.bind_some, hr3']; rfl
    · try dsimp only
      refine bind_trans (v := (kk : Int)) ?_ ?_
      · -- the match extension
        by_cases h8 : k8 = 8
        · subst h8
          bhp_ifc
          have hme' := hme
          unfold BytesW.matchExt at hme'
          rw [if_pos rfl, BytesW.sliceFrom_eq_some _ _ (by rw [hpl]; omega),
            BytesW.sliceFrom_eq_some _ _ (by rw [hpl]; omega)] at hme'
          simp only [Option.bind_eq_bind, Option.bind_some] at hme'
          -- `r := p[j+8:]`, `q := p[i+8:]` in either order
          first
            | (refine bind_trans (slice_okB _ (j + 8) L (by bhp_cond) (by bhp_cond) (by omega) hLA) ?_
               refine bind_trans (slice_okB _ (i + 8) L (by bhp_cond) (by bhp_cond) (by omega) hLA) ?_)
            | (refine bind_trans (slice_okB _ (i + 8) L (by bhp_cond) (by bhp_cond) (by omega) hLA) ?_
               refine bind_trans (slice_okB _ (j + 8) L (by bhp_cond) (by bhp_cond) (by omega) hLA) ?_)
          obtain ⟨e, kN', r', q', hl2, hr', hq', hdisj⟩ := loop2_eqB grow lcs (y &&& s.hashDictionary.hash.mask) (L - i) fuel 8
            ((8 : Nat) : Int) { arr := A.drop (j + 8), len := L - (j + 8) } { arr := A.drop (i + 8), len := L - (i + 8) }
            (by show L - (i + 8) < 8 * (L - i); omega) (by omega) rfl (swf_drop _ _ _ hLA) (swf_drop _ _ _ hLA)
            (by show L - (i + 8) ≤ L - (j + 8); omega)
          refine bind_trans hl2 ?_
          try dsimp only
          rw [data_drop, data_drop, hme'] at hdisj
          rcases hdisj with ⟨he, hm⟩ | ⟨he, hm⟩
          · bhp_ifc
            injection hm with hm
            rw [hm]
          · bhp_ifc
            injection hm with hm
            by_cases hq0 : q'.len > 0
            · bhp_ifc
              have hxc' : BytesW.getLE64 q'.data ^^^ BytesW.getLE64 r'.data =
                  BytesW.getLE64 r'.data ^^^ BytesW.getLE64 q'.data := UInt64.xor_comm _ _
              simp only [gen_getLE64 r' hr', gen_getLE64 q' hq', bind_ok, tz_shr, hxc']
              have htv := tail_valB r'.data q'.data kN' (by rw [data_length hq']; exact hq0)
              rw [data_length hq'] at htv
              generalize BytesW.tz64 (BytesW.getLE64 r'.data ^^^ BytesW.getLE64 q'.data) >>> 3 = tzb at htv ⊢
              bhp_val ((Min.min tzb q'.len : Nat) : Int)
              rw [hm, htv]
              exact congrArg Res.ok (by omega)
            · bhp_ifc
              rw [bind_ok]
              unfold BytesW.matchExtTail at hm
              rw [if_neg (by rw [data_length hq']; exact hq0)] at hm
              rw [hm]
        · bhp_ifc
          unfold BytesW.matchExt at hme
          rw [if_neg h8] at hme
          injection hme with hme
          rw [hme]
      · try dsimp only
        -- `if back := i - litIndex; back > 0 { if back > j { back = j }; m := lcs(p[j-back:j], p[:i]); i -= m; k += m }`
        -- The block is evaluated in both cases of the model's test; the join tuple is consumed by the continuation,
        -- so its component order does not matter.  After that both cases continue with the same text.
        by_cases hb : i > li
        case' pos =>
          bhp_ifc
          bhp_val ((Min.min (i - li) j : Nat) : Int)
          rw [slice_okB _ (j - Min.min (i - li) j) j (by bhp_cond) (by bhp_cond) (by omega)
            (by show j ≤ A.length; omega), bind_ok]
          try dsimp only
          rw [slice_okB _ 0 i (by bhp_cond) (by bhp_cond) (Nat.zero_le _) (by show i ≤ A.length; omega), bind_ok]
          try dsimp only
          rw [hlcsB hb, bind_ok]
        case' neg =>
          bhp_ifc
          rw [bind_ok]
          have hm00 := hm0 hb
        all_goals
          try dsimp only
          refine bind_trans (slice_okB _ li (i - m) (by bhp_cond) (by bhp_cond) (by omega)
            (by show i - m ≤ A.length; omega)) ?_
          try dsimp only
          -- `b := min(litIndex, inputEnd)`
          bhp_val ((Min.min (i - m + (kk + m)) E : Nat) : Int)
          refine bind_trans ((loop3_congrB grow lcs _ _ _ _ _ (by bhp_cond) (by bhp_cond)).trans hl3) ?_
          try dsimp only
          exact loop1_congrB grow lcs _ _ _ _ _ _ (by bhp_cond)
            (blk_congrB grow _ _ (seq_congrB (by bhp_cond) (by bhp_cond) (by bhp_cond)) (by first | rfl | (congr 1; bhp_cond)))
            (by bhp_cond)
    · intro st k o h
      cases h
      exact ⟨by omega, by omega, by omega, by omega⟩

/-- **The greedy loop of `Parse`** (loop_1 of the translation of bhp.go) is `ProbeW.greedyLoopW` with the word-level
    finder `ProbeW.hpProbeW … true`: no panic, same final position, `litIndex`, sequences and literals; the final
    table abstracts to the model's final table.  Fuel: one unit per iteration plus `E` for the re-indexing loop,
    which in bhp.go may start before the current position. -/
theorem loop1_eqB (grow : Nat → Nat → Nat) (lcs : Slice → Slice → Int) (hlcs : LcsSpec lcs)
    (inputEnd mm : Int) (A : List UInt8) (L E mmN ws : Nat)
    (hE : inputEnd = (E : Int)) (hmm : mm = (mmN : Int))
    (hEL : E ≤ L) (hLA : L ≤ A.length) (hEA : E + 7 ≤ A.length) (hmm1 : 1 ≤ mmN) (hmm8 : mmN ≤ 8) :
    ∀ (n fuel i li : Nat) (ia lia : Int) (s : Gen.backwardHashParser) (blk : Block') (sq : List LZ.Seq) (lt : List Byte),
      E ≤ i + n → i ≤ L → li ≤ i → ia = (i : Int) → lia = (li : Int) → L + E + 1 ≤ fuel + i →
      TCtx s.hashDictionary.hash.mask s.hashDictionary.hash.shift s.hashDictionary.hash.inputLen
        { arr := A, len := E + 7 } →
      TOK s.hashDictionary.hash.shift s.hashDictionary.hash.table →
      ws = s.BHPConfig.WindowSize.toNat →
      blk.Sequences = sq.map seqRep → blk.Literals.data = lt → SWF blk.Literals →
      ∃ (st' : LoopSt HashT) (t' : GSlice hashEntry) (blk' : Block'),
        ProbeW.greedyLoopW (ProbeW.hpProbeW ws mmN E true (A.drop L)) (A.take L) E
          { dict := ofHash s.hashDictionary.hash, i := i, litIndex := li, seqs := sq, lits := lt } = some st' ∧
        backwardHashParser_Parse_loop_1 grow lcs inputEnd { arr := A, len := E + 7 } { arr := A, len := L } mm fuel ia s blk lia =
          Res.ok ((st'.i : Int), setTB s t', blk', (st'.litIndex : Int)) ∧
        TOK s.hashDictionary.hash.shift t' ∧ st'.dict = ofHashT s.hashDictionary.hash t' ∧
        blk'.Sequences = st'.seqs.map seqRep ∧ blk'.Literals.data = st'.lits ∧ SWF blk'.Literals ∧
        li ≤ st'.litIndex ∧ st'.litIndex ≤ L := by
  intro n
  induction n with
  | zero =>
    intro fuel i li ia lia s blk sq lt hn hiL hli hia hlia hfuel c ht hws hsq hlt hswf
    obtain ⟨f, rfl⟩ : ∃ f, fuel = f + 1 := ⟨fuel - 1, by omega⟩
    refine ⟨_, s.hashDictionary.hash.table, blk, ProbeW.greedyLoopW_done _ _ _ _ (by show ¬ i < E; omega), ?_,
      ht, rfl, hsq, hlt, hswf, Nat.le_refl _, by show li ≤ L; omega⟩
    rw [backwardHashParser_Parse_loop_1]
    bhp_ifc
    rw [hia, hlia]
  | succ n ih =>
    intro fuel i li ia lia s blk sq lt hn hiL hli hia hlia hfuel c ht hws hsq hlt hswf
    by_cases hi : i < E
    · obtain ⟨f, rfl⟩ : ∃ f, fuel = f + 1 := ⟨fuel - 1, by omega⟩
      obtain ⟨r, hr, t1, ht1, hr1, hstep, hb⟩ := loop1_stepB grow lcs hlcs inputEnd mm A L E mmN ws f i li ia lia s blk c ht
        hia hlia hE hmm hi hEL hLA hEA hli hws hmm1 hmm8 (by omega) (by omega)
      obtain ⟨d, m⟩ := r
      simp only [] at hr1 hstep hb
      subst hr1
      cases m with
      | none =>
        simp only [] at hstep
        obtain ⟨st', t', blk', h1, h2, h3, h4, h5, h6, h7, h8, h9⟩ := ih f (i + 1) li (ia + 1) lia (setTB s t1) blk sq lt
          (by omega) (by omega) (by omega) (by omega) hlia (by omega) c ht1 hws hsq hlt hswf
        refine ⟨st', t', blk', ?_, ?_, h3, h4, h5, h6, h7, h8, h9⟩
        · rw [ProbeW.greedyLoopW_none _ _ _ _ _ hi hr]; exact h1
        · rw [hstep]; exact h2
      | some m =>
        obtain ⟨st0, k, o⟩ := m
        obtain ⟨hlist, hsti, hik, hkL⟩ := hb st0 k o rfl
        simp only [] at hstep
        have hql : (((A.take L).drop li).take (st0 - li)).length = st0 - li := by
          rw [lits_eq A L li st0 hlist (by omega), List.length_take, List.length_drop]; omega
        obtain ⟨st', t', blk', h1, h2, h3, h4, h5, h6, h7, h8, h9⟩ := ih f (st0 + k) (st0 + k) ((st0 + k : Nat) : Int)
          ((st0 + k : Nat) : Int) (setTB s t1)
          { Sequences := blk.Sequences ++ [seqRep { litLen := st0 - li, matchLen := k, offset := o }],
            Literals := Slice.append grow blk.Literals ((A.drop li).take (st0 - li)) }
          (sq ++ [{ litLen := (((A.take L).drop li).take (st0 - li)).length, matchLen := k, offset := o }])
          (lt ++ ((A.take L).drop li).take (st0 - li))
          (by omega) hkL (Nat.le_refl _) rfl rfl (by omega) c ht1 hws
          (by rw [List.map_append, hsq, hql]; rfl)
          (by rw [(append_spec grow blk.Literals hswf _).1, hlt, lits_eq A L li st0 hlist (by omega)])
          (swf_append grow _ hswf _)
        refine ⟨st', t', blk', ?_, ?_, h3, h4, h5, h6, h7, by omega, h9⟩
        · rw [ProbeW.greedyLoopW_some _ _ _ _ _ _ _ _ hi hr (by show st0 + k > i; omega)]; exact h1
        · rw [hstep]; exact h2
    · obtain ⟨f, rfl⟩ : ∃ f, fuel = f + 1 := ⟨fuel - 1, by omega⟩
      refine ⟨_, s.hashDictionary.hash.table, blk, ProbeW.greedyLoopW_done _ _ _ _ hi, ?_,
        ht, rfl, hsq, hlt, hswf, Nat.le_refl _, by show li ≤ L; omega⟩
      rw [backwardHashParser_Parse_loop_1]
      bhp_ifc
      rw [hia, hlia]

end LZ.GenBHPParse

#print axioms LZ.GenBHPParse.loop3_eqB
#print axioms LZ.GenBHPParse.loop2_eqB
#print axioms LZ.GenBHPParse.hpProbeW_nfB
#print axioms LZ.GenBHPParse.gen_backExt
#print axioms LZ.GenBHPParse.loop1_stepB
#print axioms LZ.GenBHPParse.loop1_eqB
