/-
  LzProofs.GenBitsetProps — the translated code of bitset.go (LzModel/Generated/CodeBitset.lean:
  `clear`, `memberBefore`, `memberAfter`) equals the word-level model LzModel/BitsetW.lean.

  Abstraction `ofBS`: the slice value `b.a` (backing array up to the capacity, length) and `b.off`.
  The model takes natural numbers; the theorems are stated for `i ≥ 0` and `b.off ≥ 0`.
  `ans` maps the model's `Option Nat` to the Go result pair `(j, ok)` (`none` ↦ `(-1, false)`).

  W01 gen_bitset_clear         W02 gen_bitset_memberBefore        W03 gen_bitset_memberAfter
-/
import LzModel.Generated.CodeBitset
import LzModel.BitsetW
import LzProofs.GenSuffixPropsBase
import LzProofs.GenBitLemmas

set_option linter.unusedSimpArgs false
set_option linter.unusedVariables false

namespace LZ.GenBitset
open LZ LZ.Gen LZ.GenBuf LZ.GenHash LZ.GenSuffix

def ofBS (b : Gen.bitset) : BitsetW := { backing := b.a.arr.toArray, len := b.a.len, off := b.off.toNat }

def BSWF (b : Gen.bitset) : Prop := GWF b.a ∧ 0 ≤ b.off

/-- the Go result pair of `memberBefore` / `memberAfter` -/
def ans : Option Nat → Int × Bool
  | some j => ((j : Int), true)
  | none => (-1, false)

/-- W01 -/
theorem gen_bitset_clear (b : Gen.bitset) (h : BSWF b) :
    ∃ b', bitset_clear b = Res.ok b' ∧ ofBS b' = (ofBS b).clear ∧ BSWF b' := by
  unfold bitset_clear
  dsimp only
  rw [gslice_ok _ 0 (0 : Int) 0 0 rfl rfl (Nat.le_refl 0) (Nat.zero_le _)]
  simp only [bind_ok]
  refine ⟨_, rfl, ?_, ?_⟩
  · simp [ofBS, BitsetW.clear]
  · unfold BSWF GWF; simp

/-! ## bit scans -/

def optInt : Option Nat → Int
  | some j => (j : Int)
  | none => -1

theorem highBitBelow_eq (w : UInt64) : ∀ p, highBitBelow w p = optInt (BitsetW.hiBitBelow w p)
  | 0 => rfl
  | p + 1 => by
    simp only [highBitBelow, BitsetW.hiBitBelow, BitsetW.tb]
    by_cases h : w.toNat.testBit p
    · simp [h, optInt]
    · simp [h, highBitBelow_eq w p]

theorem lz_eq (w : UInt64) : 63 - leadingZeros64 w = optInt (BitsetW.hiBit w) := by
  unfold leadingZeros64 BitsetW.hiBit
  rw [highBitBelow_eq]; omega

theorem rd_eq (b : Gen.bitset) (k : Nat) : (b.a.arr[k]?).getD 0 = BitsetW.rd (ofBS b).backing k := by
  simp [BitsetW.rd, ofBS]

theorem shl6 (x : Nat) : ((x <<< 6 : Nat) : Int) = (x : Int) * (2 : Int) ^ 6 := by
  rw [Nat.shiftLeft_eq]; simp

/-- the value returned by `return (b.off+k)<<6 + j, true` -/
theorem ret_val (b : Gen.bitset) (h : BSWF b) (k j : Nat) :
    (b.off + (k : Int)) * (2 : Int) ^ 6 + optInt (some j) = (((((ofBS b).off + k) <<< 6 + j : Nat)) : Int) := by
  have hoff : ((ofBS b).off : Int) = b.off := by simp [ofBS, Int.toNat_of_nonneg h.2]
  rw [Int.natCast_add, shl6, Int.natCast_add, hoff]; rfl

/-! ## the two loop shapes

`for { if c { return e, true }; … }` (the loop function only ever exits with code 1 and the
caller returns `(ret_1, ret_2)`) and `for !c { … }; return e, true` (the loop function exits with
code 0 when `c` holds and the caller evaluates `e` after the loop) are both covered: the loop
lemmas are stated about `Res.bind (loop …) F` for a continuation `F` that maps every result `r`
satisfying `Post` to the final answer.  `Post` allows the exit 0 only together with `W`, the
statement that the loop function is of the `for !c` shape (one iteration with `c` true exits with
code 0); against the `for { … }` shape `W` is refutable by unfolding one iteration. -/

def Post (W : Prop) (off : Int) (a : Int × Bool) (r : Nat × Int × Int × Int × Bool) : Prop :=
  (r.1 = 1 ∧ (r.2.2.2.1, r.2.2.2.2) = a) ∨
  (r.1 = 0 ∧ W ∧ ((off + r.2.2.1) * (2 : Int) ^ 6 + r.2.1, true) = a)

/-- `bitset_memberBefore_loop_1` is the translation of `for j < 0 { … }` -/
def WhileB (b : Gen.bitset) : Prop :=
  ∀ (j k r1 : Int) (r2 : Bool), j ≥ 0 → bitset_memberBefore_loop_1 b 1 j k r1 r2 = Res.ok (0, j, k, r1, r2)

/-- `bitset_memberAfter_loop_1` is the translation of `for j >= 64 { … }` -/
def WhileA (b : Gen.bitset) : Prop :=
  ∀ (j k r1 : Int) (r2 : Bool), j < 64 → bitset_memberAfter_loop_1 b 1 j k r1 r2 = Res.ok (0, j, k, r1, r2)

theorem ans_some (b : Gen.bitset) (h : BSWF b) (k j : Nat) :
    ans (some (((ofBS b).off + k) <<< 6 + j)) = ((b.off + (k : Int)) * (2 : Int) ^ 6 + (j : Int), true) := by
  have := ret_val b h k j
  simp only [ans, optInt] at *
  rw [this]

theorem len_eq (w : UInt64) : bitsLen64 w - 1 = optInt (BitsetW.hiBit w) := by
  rw [GenBits.bits_len_lz, lz_eq]

/-- the continuation after the loop, applied to a result satisfying `Post`; `hW` refutes the
    `for !c` shape where the generated code is of the other shape -/
macro "post_cont" hp:ident : tactic =>
  `(tactic| (
    rcases $hp:ident with ⟨h1, he⟩ | ⟨h0, hW, he⟩
    · rw [← he]
      try simp [h1]
    · first
      | (rw [← he]; (try simp [h0]); done)
      | (exfalso
         first
         | (have hw := hW 0 0 0 false (by omega); unfold bitset_memberBefore_loop_1 at hw; simp at hw; done)
         | (have hw := hW 0 0 0 false (by omega); unfold bitset_memberAfter_loop_1 at hw; simp at hw; done))))

/-! ## W02 memberBefore -/

theorem whileB_or (b : Gen.bitset) (j k r1 : Int) (r2 : Bool) (hj : j ≥ 0) (fuel : Nat) :
    (∃ x y, bitset_memberBefore_loop_1 b (fuel + 1) j k r1 r2 = Res.ok (1, j, k, x, y) ∧
      (x, y) = ((b.off + k) * (2 : Int) ^ 6 + j, true)) ∨
    (bitset_memberBefore_loop_1 b (fuel + 1) j k r1 r2 = Res.ok (0, j, k, r1, r2) ∧ WhileB b) := by
  first
  | (left
     unfold bitset_memberBefore_loop_1
     dsimp only
     (repeat' split) <;> first | (exfalso; omega) | exact ⟨_, _, rfl, rfl⟩)
  | (right
     refine ⟨?_, ?_⟩
     · unfold bitset_memberBefore_loop_1
       dsimp only
       (repeat' split) <;> first | (exfalso; omega) | rfl
     · intro j k r1 r2 hj
       unfold bitset_memberBefore_loop_1
       dsimp only
       (repeat' split) <;> first | (exfalso; omega) | rfl)

theorem before_loop (b : Gen.bitset) (h : BSWF b) (F : Nat × Int × Int × Int × Bool → Res (Int × Bool))
    (a : Int × Bool) (hF : ∀ r, Post (WhileB b) b.off a r → F r = Res.ok a) :
    ∀ (k fuel : Nat) (jo : Option Nat) (kI jI r1 : Int) (r2 : Bool),
      kI = (k : Int) → jI = optInt jo → k ≤ b.a.len → k < fuel →
      a = ans (match jo with
            | some j => some (((ofBS b).off + k) <<< 6 + j)
            | none => BitsetW.scanDown (ofBS b) k) →
      Res.bind (bitset_memberBefore_loop_1 b fuel jI kI r1 r2) F = Res.ok a := by
  intro k
  induction k with
  | zero =>
    intro fuel jo kI jI r1 r2 hk hj _ hf ha
    obtain ⟨fuel', rfl⟩ : ∃ f, fuel = f + 1 := ⟨fuel - 1, by omega⟩
    subst hk hj
    cases jo with
    | some j =>
      rw [ans_some b h] at ha
      rcases whileB_or b (optInt (some j)) ((0 : Nat) : Int) r1 r2 (by simp [optInt]) fuel' with
        ⟨x, y, e, hxy⟩ | ⟨e, hW⟩
      · rw [e, bind_ok]; apply hF; left; exact ⟨rfl, by rw [ha]; exact hxy⟩
      · rw [e, bind_ok]; apply hF; right; exact ⟨rfl, hW, by rw [ha]; rfl⟩
    | none =>
      unfold bitset_memberBefore_loop_1
      dsimp only
      (repeat' split) <;> first
        | (exfalso; simp [optInt] at *; done)
        | (exfalso; omega)
        | (rw [bind_ok]; apply hF; left; exact ⟨rfl, by rw [ha]; rfl⟩)
  | succ k ih =>
    intro fuel jo kI jI r1 r2 hk hj hkl hf ha
    obtain ⟨fuel', rfl⟩ : ∃ f, fuel = f + 1 := ⟨fuel - 1, by omega⟩
    subst hk hj
    cases jo with
    | some j =>
      rw [ans_some b h] at ha
      rcases whileB_or b (optInt (some j)) ((k + 1 : Nat) : Int) r1 r2 (by simp [optInt]) fuel' with
        ⟨x, y, e, hxy⟩ | ⟨e, hW⟩
      · rw [e, bind_ok]; apply hF; left; exact ⟨rfl, by rw [ha]; exact hxy⟩
      · rw [e, bind_ok]; apply hF; right; exact ⟨rfl, hW, by rw [ha]; rfl⟩
    | none =>
      unfold bitset_memberBefore_loop_1
      dsimp only
      (repeat' split) <;> first
        | (exfalso; simp [optInt] at *; done)
        | (exfalso; omega)
        | (rw [gindex_ok (0 : UInt64) b.a _ k (by omega) (by omega)]
           simp only [bind_ok, lz_eq, len_eq, rd_eq]
           refine ih fuel' (BitsetW.hiBit (BitsetW.rd (ofBS b).backing k)) _ _ r1 r2 (by omega) rfl
             (by omega) (by omega) ?_
           rw [ha]
           simp only [BitsetW.scanDown]
           rfl)

theorem shr6 (i : Nat) : ((i : Int) >>> (6 : Nat)) = ((i >>> 6 : Nat) : Int) := by
  rw [Int.shiftRight_eq_div_pow, Nat.shiftRight_eq_div_pow]; simp

theorem mask_fin : ∀ m : Fin 64,
    shlU64 (1 : UInt64) (UInt64.ofInt ((m.val : Nat) : Int)).toNat = (1 : UInt64) <<< (m.val).toUInt64 := by decide

theorem mask_eq (i : Nat) :
    shlU64 (1 : UInt64) (UInt64.ofInt (iand (i : Int) 63)).toNat = (1 : UInt64) <<< (i &&& 63).toUInt64 := by
  have h1 : iand (i : Int) 63 = ((i &&& 63 : Nat) : Int) := rfl
  have h2 : i &&& 63 < 64 := by
    have := @Nat.and_le_right i 63; omega
  rw [h1]
  exact mask_fin ⟨i &&& 63, h2⟩

theorem mask_lt_fin : ∀ m : Fin 64, (UInt64.ofInt ((m.val : Nat) : Int)).toNat < 64 := by decide

/-- `^uint64(0) << (i&63)` is the mask `^(1<<(i&63) - 1)` of the model -/
theorem mask_not_eq (i : Nat) :
    shlU64 (~~~(0 : UInt64)) (UInt64.ofInt (iand (i : Int) 63)).toNat =
      ~~~((1 : UInt64) <<< (i &&& 63).toUInt64 - 1) := by
  have h1 : iand (i : Int) 63 = ((i &&& 63 : Nat) : Int) := rfl
  have h2 : i &&& 63 < 64 := by
    have := @Nat.and_le_right i 63; omega
  rw [GenBits.shl_ones _ (by rw [h1]; exact mask_lt_fin ⟨i &&& 63, h2⟩), mask_eq]

/-- W02 -/
theorem gen_bitset_memberBefore (fuel : Nat) (b : Gen.bitset) (h : BSWF b) (i : Nat) (hf : b.a.len + 1 < fuel) :
    bitset_memberBefore fuel b (i : Int) = Res.ok (ans ((ofBS b).memberBefore i)) := by
  unfold bitset_memberBefore
  rw [shr6]
  have hoff : ((ofBS b).off : Int) = b.off := by simp [ofBS, Int.toNat_of_nonneg h.2]
  have hlen : (ofBS b).len = b.a.len := rfl
  have hlenI : Int.ofNat b.a.len = (b.a.len : Int) := rfl
  dsimp only
  simp only [hlenI]
  by_cases h1 : i >>> 6 < (ofBS b).off
  · (repeat' split) <;> first
      | (exfalso; omega)
      | (unfold BitsetW.memberBefore; rw [if_pos h1]; rfl)
  · by_cases h2 : i >>> 6 - (ofBS b).off < (ofBS b).len
    · have ha : ans ((ofBS b).memberBefore i) = ans (match
          (BitsetW.hiBit (BitsetW.rd (ofBS b).backing (i >>> 6 - (ofBS b).off) &&&
            ((1 : UInt64) <<< (i &&& 63).toUInt64 - 1))) with
          | some j => some (((ofBS b).off + (i >>> 6 - (ofBS b).off)) <<< 6 + j)
          | none => BitsetW.scanDown (ofBS b) (i >>> 6 - (ofBS b).off)) := by
        (unfold BitsetW.memberBefore; rw [if_neg h1]; dsimp only; rw [if_pos h2]) <;> rfl
      rw [hlen] at h2
      (repeat' split) <;> first
        | (exfalso; omega)
        | (rw [gindex_ok (0 : UInt64) b.a _ (i >>> 6 - (ofBS b).off) (by omega) h2]
           simp only [bind_ok, lz_eq, len_eq, rd_eq, mask_eq]
           refine before_loop b h _ _ ?_ (i >>> 6 - (ofBS b).off) fuel
             (BitsetW.hiBit (BitsetW.rd (ofBS b).backing (i >>> 6 - (ofBS b).off) &&&
               ((1 : UInt64) <<< (i &&& 63).toUInt64 - 1))) _ _ _ _ (by omega) rfl (by omega) (by omega) ha
           intro r hp
           post_cont hp)
    · have ha : ans ((ofBS b).memberBefore i) = ans (match (none : Option Nat) with
          | some j => some (((ofBS b).off + b.a.len) <<< 6 + j)
          | none => BitsetW.scanDown (ofBS b) b.a.len) := by
        (unfold BitsetW.memberBefore; rw [if_neg h1]; dsimp only; rw [if_neg h2]) <;> rfl
      rw [hlen] at h2
      (repeat' split) <;> first
        | (exfalso; omega)
        | (simp only [bind_ok]
           refine before_loop b h _ _ ?_ b.a.len fuel none _ _ _ _ rfl rfl (Nat.le_refl _) (by omega) ha
           intro r hp
           post_cont hp)

/-! ## W03 memberAfter -/

def optInt64 : Option Nat → Int
  | some j => (j : Int)
  | none => 64

theorem lowBitFrom_eq (w : UInt64) : ∀ (fuel p : Nat),
    ((lowBitFrom w fuel p : Nat) : Int) = optInt64 (BitsetW.loBitFrom w p fuel)
  | 0, _ => rfl
  | fuel + 1, p => by
    simp only [lowBitFrom, BitsetW.loBitFrom, BitsetW.tb]
    by_cases h : w.toNat.testBit p
    · simp [h, optInt64]
    · simp [h, lowBitFrom_eq w fuel (p + 1)]

theorem loBitFrom_lt (w : UInt64) : ∀ (fuel p j : Nat), BitsetW.loBitFrom w p fuel = some j → j < p + fuel
  | 0, _, _, h => by simp [BitsetW.loBitFrom] at h
  | fuel + 1, p, j, h => by
    simp only [BitsetW.loBitFrom] at h
    by_cases hb : BitsetW.tb w p
    · simp [hb] at h; omega
    · simp [hb] at h
      have := loBitFrom_lt w fuel (p + 1) j h; omega

theorem tz_eq (w : UInt64) : trailingZeros64 w = optInt64 (BitsetW.loBit w) := by
  unfold trailingZeros64 BitsetW.loBit
  exact lowBitFrom_eq w 64 0

theorem loBit_lt (w : UInt64) (j : Nat) (h : BitsetW.loBit w = some j) : j < 64 := by
  have := loBitFrom_lt w 64 0 j h; omega

theorem whileA_or (b : Gen.bitset) (j k r1 : Int) (r2 : Bool) (hj : j < 64) (fuel : Nat) :
    (∃ x y, bitset_memberAfter_loop_1 b (fuel + 1) j k r1 r2 = Res.ok (1, j, k, x, y) ∧
      (x, y) = ((b.off + k) * (2 : Int) ^ 6 + j, true)) ∨
    (bitset_memberAfter_loop_1 b (fuel + 1) j k r1 r2 = Res.ok (0, j, k, r1, r2) ∧ WhileA b) := by
  first
  | (left
     unfold bitset_memberAfter_loop_1
     dsimp only
     (repeat' split) <;> first | (exfalso; omega) | exact ⟨_, _, rfl, rfl⟩)
  | (right
     refine ⟨?_, ?_⟩
     · unfold bitset_memberAfter_loop_1
       dsimp only
       (repeat' split) <;> first | (exfalso; omega) | rfl
     · intro j k r1 r2 hj
       unfold bitset_memberAfter_loop_1
       dsimp only
       (repeat' split) <;> first | (exfalso; omega) | rfl)

theorem after_loop (b : Gen.bitset) (h : BSWF b) (F : Nat × Int × Int × Int × Bool → Res (Int × Bool))
    (a : Int × Bool) (hF : ∀ r, Post (WhileA b) b.off a r → F r = Res.ok a) :
    ∀ (n kn fuel : Nat) (jo : Option Nat) (kI jI r1 : Int) (r2 : Bool),
      kI = (kn : Int) - 1 → jI = optInt64 jo → n = b.a.len - kn → n < fuel →
      (∀ j, jo = some j → 1 ≤ kn ∧ j < 64) →
      a = ans (match jo with
            | some j => some (((ofBS b).off + (kn - 1)) <<< 6 + j)
            | none => BitsetW.scanUpAux (ofBS b) kn n) →
      Res.bind (bitset_memberAfter_loop_1 b fuel jI kI r1 r2) F = Res.ok a := by
  have hlenI : Int.ofNat b.a.len = (b.a.len : Int) := rfl
  intro n
  induction n with
  | zero =>
    intro kn fuel jo kI jI r1 r2 hk hj hn hf hjo ha
    obtain ⟨fuel', rfl⟩ : ∃ f, fuel = f + 1 := ⟨fuel - 1, by omega⟩
    subst hk hj
    cases jo with
    | some j =>
      obtain ⟨hk1, hj⟩ := hjo j rfl
      rw [ans_some b h] at ha
      have hkn : (kn : Int) - 1 = ((kn - 1 : Nat) : Int) := by omega
      rcases whileA_or b (optInt64 (some j)) ((kn : Int) - 1) r1 r2 (by simp [optInt64]; omega) fuel' with
        ⟨x, y, e, hxy⟩ | ⟨e, hW⟩
      · rw [e, bind_ok]; apply hF; left; exact ⟨rfl, by rw [ha, ← hkn]; exact hxy⟩
      · rw [e, bind_ok]; apply hF; right; exact ⟨rfl, hW, by rw [ha, ← hkn]; rfl⟩
    | none =>
      unfold bitset_memberAfter_loop_1
      dsimp only
      simp only [hlenI]
      (repeat' split) <;> first
        | (exfalso; simp [optInt64] at *; done)
        | (exfalso; omega)
        | (rw [bind_ok]; apply hF; left; exact ⟨rfl, by rw [ha]; rfl⟩)
  | succ n ih =>
    intro kn fuel jo kI jI r1 r2 hk hj hn hf hjo ha
    obtain ⟨fuel', rfl⟩ : ∃ f, fuel = f + 1 := ⟨fuel - 1, by omega⟩
    subst hk hj
    cases jo with
    | some j =>
      obtain ⟨hk1, hj⟩ := hjo j rfl
      rw [ans_some b h] at ha
      have hkn : (kn : Int) - 1 = ((kn - 1 : Nat) : Int) := by omega
      rcases whileA_or b (optInt64 (some j)) ((kn : Int) - 1) r1 r2 (by simp [optInt64]; omega) fuel' with
        ⟨x, y, e, hxy⟩ | ⟨e, hW⟩
      · rw [e, bind_ok]; apply hF; left; exact ⟨rfl, by rw [ha, ← hkn]; exact hxy⟩
      · rw [e, bind_ok]; apply hF; right; exact ⟨rfl, hW, by rw [ha, ← hkn]; rfl⟩
    | none =>
      unfold bitset_memberAfter_loop_1
      dsimp only
      simp only [hlenI]
      (repeat' split) <;> first
        | (exfalso; simp [optInt64] at *; done)
        | (exfalso; omega)
        | (rw [gindex_ok (0 : UInt64) b.a _ kn (by omega) (by omega)]
           simp only [bind_ok, tz_eq, rd_eq]
           refine ih (kn + 1) fuel' (BitsetW.loBit (BitsetW.rd (ofBS b).backing kn)) _ _ r1 r2 (by omega) rfl
             (by omega) (by omega) (fun j hj => ⟨by omega, loBit_lt _ j hj⟩) ?_
           have hge : ¬ (kn ≥ (ofBS b).len) := by show ¬ (kn ≥ b.a.len); omega
           rw [ha]
           simp only [BitsetW.scanUpAux, hge, if_false, Nat.add_sub_cancel]
           rfl)

/-- W03 -/
theorem gen_bitset_memberAfter (fuel : Nat) (b : Gen.bitset) (h : BSWF b) (i : Nat) (hf : b.a.len + 1 < fuel) :
    bitset_memberAfter fuel b (i : Int) = Res.ok (ans ((ofBS b).memberAfter i)) := by
  unfold bitset_memberAfter
  have hi1 : (i : Int) + 1 = ((i + 1 : Nat) : Int) := by omega
  dsimp only
  simp only [hi1]
  rw [shr6]
  have hoff : ((ofBS b).off : Int) = b.off := by simp [ofBS, Int.toNat_of_nonneg h.2]
  have hlen : (ofBS b).len = b.a.len := rfl
  have hlenI : Int.ofNat b.a.len = (b.a.len : Int) := rfl
  simp only [hlenI]
  by_cases h1 : (i + 1) >>> 6 ≥ (ofBS b).off + (ofBS b).len
  · have h1' := h1
    rw [hlen] at h1'
    (repeat' split) <;> first
      | (exfalso; omega)
      | (unfold BitsetW.memberAfter; dsimp only; rw [if_pos h1]; rfl)
  · by_cases h2 : (ofBS b).off ≤ (i + 1) >>> 6
    · have ha : ans ((ofBS b).memberAfter i) = ans (match
          (BitsetW.loBit (BitsetW.rd (ofBS b).backing ((i + 1) >>> 6 - (ofBS b).off) &&&
            ~~~((1 : UInt64) <<< ((i + 1) &&& 63).toUInt64 - 1))) with
          | some j => some (((ofBS b).off + ((i + 1) >>> 6 - (ofBS b).off + 1 - 1)) <<< 6 + j)
          | none => BitsetW.scanUpAux (ofBS b) ((i + 1) >>> 6 - (ofBS b).off + 1)
              (b.a.len - ((i + 1) >>> 6 - (ofBS b).off + 1))) := by
        (unfold BitsetW.memberAfter; dsimp only; rw [if_neg h1, if_pos h2]
         simp only [BitsetW.scanUp, hlen, Nat.add_sub_cancel]) <;> rfl
      rw [hlen] at h1
      (repeat' split) <;> first
        | (exfalso; omega)
        | (rw [gindex_ok (0 : UInt64) b.a _ ((i + 1) >>> 6 - (ofBS b).off) (by omega) (by omega)]
           simp only [bind_ok, tz_eq, rd_eq, mask_eq, mask_not_eq]
           refine after_loop b h _ _ ?_ (b.a.len - ((i + 1) >>> 6 - (ofBS b).off + 1))
             ((i + 1) >>> 6 - (ofBS b).off + 1) fuel
             (BitsetW.loBit (BitsetW.rd (ofBS b).backing ((i + 1) >>> 6 - (ofBS b).off) &&&
               ~~~((1 : UInt64) <<< ((i + 1) &&& 63).toUInt64 - 1))) _ _ _ _ (by omega) rfl rfl (by omega)
             (fun j hj => ⟨by omega, loBit_lt _ j hj⟩) ha
           intro r hp
           post_cont hp)
    · have ha : ans ((ofBS b).memberAfter i) = ans (match (none : Option Nat) with
          | some j => some (((ofBS b).off + (0 - 1)) <<< 6 + j)
          | none => BitsetW.scanUpAux (ofBS b) 0 (b.a.len - 0)) := by
        (unfold BitsetW.memberAfter; dsimp only; rw [if_neg h1, if_neg h2]
         simp only [BitsetW.scanUp, hlen]) <;> rfl
      rw [hlen] at h1
      (repeat' split) <;> first
        | (exfalso; omega)
        | (simp only [bind_ok]
           refine after_loop b h _ _ ?_ (b.a.len - 0) 0 fuel none _ _ _ _ (by omega) rfl rfl (by omega)
             (fun j hj => by simp at hj) ha
           intro r hp
           post_cont hp)

end LZ.GenBitset

#print axioms LZ.GenBitset.gen_bitset_memberAfter
#print axioms LZ.GenBitset.gen_bitset_clear
#print axioms LZ.GenBitset.gen_bitset_memberBefore
