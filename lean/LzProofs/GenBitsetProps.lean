/-
  LzProofs.GenBitsetProps — the translated code of bitset.go (LzModel/Generated/CodeBitset.lean:
  `clear`, `memberBefore`, `memberAfter`) equals the word-level model LzModel/BitsetW.lean.

  Abstraction `ofBS`: the slice value `b.a` (backing array up to the capacity, length) and `b.off`.
  The model takes natural numbers; the theorems are stated for `i ≥ 0` and `b.off ≥ 0`.
  `ans` maps the model's `Option Nat` to the Go result pair `(j, ok)` (`none` ↦ `(-1, false)`).

  W01 gen_bitset_clear         W02 gen_bitset_memberBefore        W03 gen_bitset_memberAfter
-/
import LzModel.Generated.CodeBitset
import LzModel.BitsetW
import LzProofs.GenSuffixPropsBase

set_option linter.unusedSimpArgs false
set_option linter.unusedVariables false

namespace LZ.GenBitset
open LZ LZ.Gen LZ.GenBuf LZ.GenHash LZ.GenSuffix

def ofBS (b : Gen.bitset) : BitsetW := { backing := b.a.arr.toArray, len := b.a.len, off := b.off.toNat }

def BSWF (b : Gen.bitset) : Prop := GWF b.a ∧ 0 ≤ b.off

/-- the Go result pair of `memberBefore` / `memberAfter` -/
def ans : Option Nat → Int × Bool
  | some j => ((j : Int), true)
  | none => (-1, false)

/-- W01 -/
theorem gen_bitset_clear (b : Gen.bitset) (h : BSWF b) :
    ∃ b', bitset_clear b = Res.ok b' ∧ ofBS b' = (ofBS b).clear ∧ BSWF b' := by
  unfold bitset_clear
  rw [gslice_ok b.a 0 (0 : Int) 0 0 rfl rfl (Nat.le_refl 0) (Nat.zero_le _)]
  simp only [bind_ok]
  refine ⟨_, rfl, ?_, ?_⟩
  · simp [ofBS, BitsetW.clear]
  · unfold BSWF GWF; simp

/-! ## bit scans -/

def optInt : Option Nat → Int
  | some j => (j : Int)
  | none => -1

theorem highBitBelow_eq (w : UInt64) : ∀ p, highBitBelow w p = optInt (BitsetW.hiBitBelow w p)
  | 0 => rfl
  | p + 1 => by
    simp only [highBitBelow, BitsetW.hiBitBelow, BitsetW.tb]
    by_cases h : w.toNat.testBit p
    · simp [h, optInt]
    · simp [h, highBitBelow_eq w p]

theorem lz_eq (w : UInt64) : 63 - leadingZeros64 w = optInt (BitsetW.hiBit w) := by
  unfold leadingZeros64 BitsetW.hiBit
  rw [highBitBelow_eq]; omega

theorem rd_eq (b : Gen.bitset) (k : Nat) : (b.a.arr[k]?).getD 0 = BitsetW.rd (ofBS b).backing k := by
  simp [BitsetW.rd, ofBS]

theorem shl6 (x : Nat) : ((x <<< 6 : Nat) : Int) = (x : Int) * (2 : Int) ^ 6 := by
  rw [Nat.shiftLeft_eq]; simp

/-- the value returned by `return (b.off+k)<<6 + j, true` -/
theorem ret_val (b : Gen.bitset) (h : BSWF b) (k j : Nat) :
    (b.off + (k : Int)) * (2 : Int) ^ 6 + optInt (some j) = (((((ofBS b).off + k) <<< 6 + j : Nat)) : Int) := by
  have hoff : ((ofBS b).off : Int) = b.off := by simp [ofBS, Int.toNat_of_nonneg h.2]
  rw [Int.natCast_add, shl6, Int.natCast_add, hoff]; rfl

/-! ## W02 memberBefore -/

theorem before_loop (b : Gen.bitset) (h : BSWF b) :
    ∀ (k fuel : Nat) (jo : Option Nat) (r1 : Int) (r2 : Bool), k ≤ b.a.len → k < fuel →
      ∃ k' j', bitset_memberBefore_loop_1 b fuel (k : Int) (optInt jo) r1 r2 =
        Res.ok (1, k', j',
          (ans (match jo with
            | some j => some (((ofBS b).off + k) <<< 6 + j)
            | none => BitsetW.scanDown (ofBS b) k)).1,
          (ans (match jo with
            | some j => some (((ofBS b).off + k) <<< 6 + j)
            | none => BitsetW.scanDown (ofBS b) k)).2) := by
  intro k
  induction k with
  | zero =>
    intro fuel jo r1 r2 _ hf
    obtain ⟨fuel', rfl⟩ : ∃ f, fuel = f + 1 := ⟨fuel - 1, by omega⟩
    rw [bitset_memberBefore_loop_1]
    cases jo with
    | some j =>
      have : optInt (some j) ≥ 0 := by simp [optInt]
      simp only [this, if_true]
      refine ⟨((0 : Nat) : Int), optInt (some j), ?_⟩
      rw [ret_val b h 0 j]; rfl
    | none =>
      have : ¬ optInt none ≥ 0 := by simp [optInt]
      simp only [this, if_false]
      have : ((0 : Nat) : Int) - 1 < 0 := by omega
      simp only [this, if_true]
      exact ⟨_, _, rfl⟩
  | succ k ih =>
    intro fuel jo r1 r2 hk hf
    obtain ⟨fuel', rfl⟩ : ∃ f, fuel = f + 1 := ⟨fuel - 1, by omega⟩
    rw [bitset_memberBefore_loop_1]
    cases jo with
    | some j =>
      have : optInt (some j) ≥ 0 := by simp [optInt]
      simp only [this, if_true]
      refine ⟨((k + 1 : Nat) : Int), optInt (some j), ?_⟩
      rw [ret_val b h (k + 1) j]; rfl
    | none =>
      have : ¬ optInt none ≥ 0 := by simp [optInt]
      simp only [this, if_false]
      have hk1 : ((k + 1 : Nat) : Int) - 1 = (k : Int) := by omega
      have : ¬ (((k + 1 : Nat) : Int) - 1 < 0) := by omega
      simp only [this, if_false, hk1]
      rw [gindex_ok (0 : UInt64) b.a (k : Int) k rfl (by omega)]
      simp only [bind_ok]
      rw [lz_eq, rd_eq]
      obtain ⟨k', j', e⟩ := ih fuel' (BitsetW.hiBit (BitsetW.rd (ofBS b).backing k)) r1 r2 (by omega) (by omega)
      refine ⟨k', j', ?_⟩
      rw [e]
      simp only [BitsetW.scanDown]
      cases BitsetW.hiBit (BitsetW.rd (ofBS b).backing k) <;> rfl

theorem shr6 (i : Nat) : ((i : Int) >>> (6 : Nat)) = ((i >>> 6 : Nat) : Int) := by
  rw [Int.shiftRight_eq_div_pow, Nat.shiftRight_eq_div_pow]; simp

theorem mask_fin : ∀ m : Fin 64,
    shlU64 (1 : UInt64) (UInt64.ofInt ((m.val : Nat) : Int)).toNat = (1 : UInt64) <<< (m.val).toUInt64 := by decide

theorem mask_eq (i : Nat) :
    shlU64 (1 : UInt64) (UInt64.ofInt (iand (i : Int) 63)).toNat = (1 : UInt64) <<< (i &&& 63).toUInt64 := by
  have h1 : iand (i : Int) 63 = ((i &&& 63 : Nat) : Int) := rfl
  have h2 : i &&& 63 < 64 := by
    have := @Nat.and_le_right i 63; omega
  rw [h1]
  exact mask_fin ⟨i &&& 63, h2⟩

/-- W02 -/
theorem gen_bitset_memberBefore (fuel : Nat) (b : Gen.bitset) (h : BSWF b) (i : Nat) (hf : b.a.len + 1 < fuel) :
    bitset_memberBefore fuel b (i : Int) = Res.ok (ans ((ofBS b).memberBefore i)) := by
  unfold bitset_memberBefore BitsetW.memberBefore
  rw [shr6]
  have hoff : ((ofBS b).off : Int) = b.off := by simp [ofBS, Int.toNat_of_nonneg h.2]
  have hlen : (ofBS b).len = b.a.len := rfl
  by_cases h1 : i >>> 6 < (ofBS b).off
  · have : ((i >>> 6 : Nat) : Int) - b.off < 0 := by omega
    simp only [this, h1, if_true, ans]
  · have h1' : ¬ (((i >>> 6 : Nat) : Int) - b.off < 0) := by omega
    simp only [h1', h1, if_false]
    have hk : ((i >>> 6 : Nat) : Int) - b.off = ((i >>> 6 - (ofBS b).off : Nat) : Int) := by omega
    rw [hk]
    generalize hkk : i >>> 6 - (ofBS b).off = k
    by_cases h2 : k < (ofBS b).len
    · have h2' : (k : Int) < Int.ofNat b.a.len := by show (k : Int) < (b.a.len : Int); rw [hlen] at h2; omega
      have h2'' : ¬ ((k : Int) ≥ Int.ofNat b.a.len) := by omega
      simp only [h2, h2', h2'', if_true, if_false]
      rw [gindex_ok (0 : UInt64) b.a (k : Int) k rfl (by rw [hlen] at h2; exact h2)]
      simp only [bind_ok]
      rw [lz_eq, rd_eq, mask_eq]
      obtain ⟨k', j', e⟩ := before_loop b h k fuel
        (BitsetW.hiBit (BitsetW.rd (ofBS b).backing k &&& ((1 : UInt64) <<< (i &&& 63).toUInt64 - 1))) 0 false
        (by rw [hlen] at h2; omega) (by rw [hlen] at h2; omega)
      rw [e]
      simp only [bind_ok]
      cases BitsetW.hiBit (BitsetW.rd (ofBS b).backing k &&& ((1 : UInt64) <<< (i &&& 63).toUInt64 - 1)) <;> rfl
    · have h2' : ¬ ((k : Int) < Int.ofNat b.a.len) := by
        show ¬ ((k : Int) < (b.a.len : Int)); rw [hlen] at h2; omega
      have h2'' : (k : Int) ≥ Int.ofNat b.a.len := by omega
      simp only [h2, h2', h2'', if_true, if_false, bind_ok]
      obtain ⟨k', j', e⟩ := before_loop b h b.a.len fuel none 0 false (Nat.le_refl _) (by omega)
      have e' : bitset_memberBefore_loop_1 b fuel (Int.ofNat b.a.len) (-1) 0 false = _ := e
      rw [e']
      simp only [bind_ok, hlen]

/-! ## W03 memberAfter -/

def optInt64 : Option Nat → Int
  | some j => (j : Int)
  | none => 64

theorem lowBitFrom_eq (w : UInt64) : ∀ (fuel p : Nat),
    ((lowBitFrom w fuel p : Nat) : Int) = optInt64 (BitsetW.loBitFrom w p fuel)
  | 0, _ => rfl
  | fuel + 1, p => by
    simp only [lowBitFrom, BitsetW.loBitFrom, BitsetW.tb]
    by_cases h : w.toNat.testBit p
    · simp [h, optInt64]
    · simp [h, lowBitFrom_eq w fuel (p + 1)]

theorem loBitFrom_lt (w : UInt64) : ∀ (fuel p j : Nat), BitsetW.loBitFrom w p fuel = some j → j < p + fuel
  | 0, _, _, h => by simp [BitsetW.loBitFrom] at h
  | fuel + 1, p, j, h => by
    simp only [BitsetW.loBitFrom] at h
    by_cases hb : BitsetW.tb w p
    · simp [hb] at h; omega
    · simp [hb] at h
      have := loBitFrom_lt w fuel (p + 1) j h; omega

theorem tz_eq (w : UInt64) : trailingZeros64 w = optInt64 (BitsetW.loBit w) := by
  unfold trailingZeros64 BitsetW.loBit
  exact lowBitFrom_eq w 64 0

theorem loBit_lt (w : UInt64) (j : Nat) (h : BitsetW.loBit w = some j) : j < 64 := by
  have := loBitFrom_lt w 64 0 j h; omega

theorem after_loop (b : Gen.bitset) (h : BSWF b) :
    ∀ (n kn fuel : Nat) (jo : Option Nat) (r1 : Int) (r2 : Bool), n = b.a.len - kn → n < fuel →
      (∀ j, jo = some j → 1 ≤ kn ∧ j < 64) →
      ∃ k' j', bitset_memberAfter_loop_1 b fuel ((kn : Int) - 1) (optInt64 jo) r1 r2 =
        Res.ok (1, k', j',
          (ans (match jo with
            | some j => some (((ofBS b).off + (kn - 1)) <<< 6 + j)
            | none => BitsetW.scanUpAux (ofBS b) kn n)).1,
          (ans (match jo with
            | some j => some (((ofBS b).off + (kn - 1)) <<< 6 + j)
            | none => BitsetW.scanUpAux (ofBS b) kn n)).2) := by
  intro n
  induction n with
  | zero =>
    intro kn fuel jo r1 r2 hn hf hjo
    obtain ⟨fuel', rfl⟩ : ∃ f, fuel = f + 1 := ⟨fuel - 1, by omega⟩
    rw [bitset_memberAfter_loop_1]
    cases jo with
    | some j =>
      obtain ⟨hk1, hj⟩ := hjo j rfl
      have : optInt64 (some j) < 64 := by simp [optInt64]; omega
      simp only [this, if_true]
      refine ⟨(kn : Int) - 1, optInt64 (some j), ?_⟩
      have hkn : (kn : Int) - 1 = ((kn - 1 : Nat) : Int) := by omega
      rw [hkn, show optInt64 (some j) = optInt (some j) from rfl, ret_val b h (kn - 1) j]; rfl
    | none =>
      have : ¬ optInt64 none < 64 := by simp [optInt64]
      simp only [this, if_false]
      have : (kn : Int) - 1 + 1 ≥ Int.ofNat b.a.len := by show (kn : Int) - 1 + 1 ≥ (b.a.len : Int); omega
      simp only [this, if_true]
      exact ⟨_, _, rfl⟩
  | succ n ih =>
    intro kn fuel jo r1 r2 hn hf hjo
    obtain ⟨fuel', rfl⟩ : ∃ f, fuel = f + 1 := ⟨fuel - 1, by omega⟩
    rw [bitset_memberAfter_loop_1]
    cases jo with
    | some j =>
      obtain ⟨hk1, hj⟩ := hjo j rfl
      have : optInt64 (some j) < 64 := by simp [optInt64]; omega
      simp only [this, if_true]
      refine ⟨(kn : Int) - 1, optInt64 (some j), ?_⟩
      have hkn : (kn : Int) - 1 = ((kn - 1 : Nat) : Int) := by omega
      rw [hkn, show optInt64 (some j) = optInt (some j) from rfl, ret_val b h (kn - 1) j]; rfl
    | none =>
      have : ¬ optInt64 none < 64 := by simp [optInt64]
      simp only [this, if_false]
      have hk1 : (kn : Int) - 1 + 1 = (kn : Int) := by omega
      have : ¬ ((kn : Int) ≥ Int.ofNat b.a.len) := by show ¬ ((kn : Int) ≥ (b.a.len : Int)); omega
      simp only [hk1, this, if_false]
      rw [gindex_ok (0 : UInt64) b.a (kn : Int) kn rfl (by omega)]
      simp only [bind_ok]
      rw [tz_eq, rd_eq]
      have hkn1 : (kn : Int) = ((kn + 1 : Nat) : Int) - 1 := by omega
      rw [hkn1]
      obtain ⟨k', j', e⟩ := ih (kn + 1) fuel' (BitsetW.loBit (BitsetW.rd (ofBS b).backing kn)) r1 r2 (by omega) (by omega)
        (fun j hj => ⟨by omega, loBit_lt _ j hj⟩)
      refine ⟨k', j', ?_⟩
      rw [e]
      have hge : ¬ (kn ≥ (ofBS b).len) := by show ¬ (kn ≥ b.a.len); omega
      simp only [BitsetW.scanUpAux, hge, if_false, Nat.add_sub_cancel]
      cases BitsetW.loBit (BitsetW.rd (ofBS b).backing kn) <;> rfl

/-- W03 -/
theorem gen_bitset_memberAfter (fuel : Nat) (b : Gen.bitset) (h : BSWF b) (i : Nat) (hf : b.a.len + 1 < fuel) :
    bitset_memberAfter fuel b (i : Int) = Res.ok (ans ((ofBS b).memberAfter i)) := by
  unfold bitset_memberAfter BitsetW.memberAfter
  have hi1 : (i : Int) + 1 = ((i + 1 : Nat) : Int) := by omega
  simp only [hi1]
  rw [shr6]
  have hoff : ((ofBS b).off : Int) = b.off := by simp [ofBS, Int.toNat_of_nonneg h.2]
  have hlen : (ofBS b).len = b.a.len := rfl
  by_cases h1 : (i + 1) >>> 6 ≥ (ofBS b).off + (ofBS b).len
  · have : (((i + 1) >>> 6 : Nat) : Int) - b.off ≥ Int.ofNat b.a.len := by
      show (((i + 1) >>> 6 : Nat) : Int) - b.off ≥ (b.a.len : Int); rw [hlen] at h1; omega
    simp only [this, h1, if_true, ans]
  · have h1' : ¬ ((((i + 1) >>> 6 : Nat) : Int) - b.off ≥ Int.ofNat b.a.len) := by
      show ¬ ((((i + 1) >>> 6 : Nat) : Int) - b.off ≥ (b.a.len : Int)); rw [hlen] at h1; omega
    simp only [h1', h1, if_false]
    by_cases h2 : (ofBS b).off ≤ (i + 1) >>> 6
    · have h2' : (((i + 1) >>> 6 : Nat) : Int) - b.off ≥ 0 := by omega
      simp only [h2, h2', if_true]
      have hk : (((i + 1) >>> 6 : Nat) : Int) - b.off = (((i + 1) >>> 6 - (ofBS b).off : Nat) : Int) := by omega
      rw [hk]
      generalize hkk : (i + 1) >>> 6 - (ofBS b).off = k
      have hklt : k < b.a.len := by rw [hlen] at h1; omega
      rw [gindex_ok (0 : UInt64) b.a (k : Int) k rfl hklt]
      simp only [bind_ok]
      rw [tz_eq, rd_eq, mask_eq]
      have hk1 : (k : Int) = ((k + 1 : Nat) : Int) - 1 := by omega
      rw [hk1]
      obtain ⟨k', j', e⟩ := after_loop b h (b.a.len - (k + 1)) (k + 1) fuel
        (BitsetW.loBit (BitsetW.rd (ofBS b).backing k &&& ~~~((1 : UInt64) <<< ((i + 1) &&& 63).toUInt64 - 1))) 0 false
        rfl (by omega) (fun j hj => ⟨by omega, loBit_lt _ j hj⟩)
      rw [e]
      simp only [bind_ok, BitsetW.scanUp, hlen, Nat.add_sub_cancel]
      cases BitsetW.loBit (BitsetW.rd (ofBS b).backing k &&& ~~~((1 : UInt64) <<< ((i + 1) &&& 63).toUInt64 - 1)) <;> rfl
    · have h2' : ¬ ((((i + 1) >>> 6 : Nat) : Int) - b.off ≥ 0) := by omega
      simp only [h2, h2', if_false, bind_ok]
      obtain ⟨k', j', e⟩ := after_loop b h (b.a.len - 0) 0 fuel none 0 false rfl (by omega) (fun j hj => by simp at hj)
      have e' : bitset_memberAfter_loop_1 b fuel (-1) 64 0 false = _ := e
      rw [e']
      simp only [bind_ok, BitsetW.scanUp, hlen]

end LZ.GenBitset

#print axioms LZ.GenBitset.gen_bitset_memberAfter
#print axioms LZ.GenBitset.gen_bitset_clear
#print axioms LZ.GenBitset.gen_bitset_memberBefore
