/-
  LzProofs.BytesProps — the word-at-a-time byte comparison of the Go library (`LzModel.BytesW`:
  `_getLE64`, `_getLE32`, `getLE64`, `lcp`, `lcs`, `suffix.matchLen`, the match length computation
  inlined in the hash parsers) is equal to the byte-level specification `lcpLen`, `lcsLen`,
  `le64At` of `LzModel.Basic` that the parser models use.

  `none` in the model = a Go panic (index or slice expression out of range); all theorems about
  the `…?` functions therefore also state that no panic occurs.
-/
import LzModel.Hash
import LzModel.Driver
import LzProofs.BytesLemmas
namespace LZ.BytesW

/-! ## 0. `math/bits`: the counting functions are characterised by divisibility / size -/

/-- `bits.TrailingZeros64`: `k ≤ tz64 x` iff `2^k` divides `x` (and `k ≤ 64`; `tz64 0 = 64`) -/
theorem le_tz64_iff (x : UInt64) (k : Nat) : k ≤ tz64 x ↔ k ≤ 64 ∧ x.toNat % 2 ^ k = 0 :=
  tz64_spec x k

/-- `bits.TrailingZeros32` -/
theorem le_tz32_iff (x : UInt32) (k : Nat) : k ≤ tz32 x ↔ k ≤ 32 ∧ x.toNat % 2 ^ k = 0 :=
  tz32_spec x k

/-- `bits.LeadingZeros64`: `k ≤ lz64 x` iff `x < 2^(64-k)` (and `k ≤ 64`; `lz64 0 = 64`) -/
theorem le_lz64_iff (x : UInt64) (k : Nat) : k ≤ lz64 x ↔ k ≤ 64 ∧ x.toNat < 2 ^ (64 - k) :=
  lz64_spec x k

/-- the core lemma: `tz(x ^ y) / 8` counts the low bytes in which `x` and `y` agree -/
theorem le_tz64_xor_div8_iff (x y : UInt64) (j : Nat) :
    j ≤ tz64 (x ^^^ y) / 8 ↔ j ≤ 8 ∧ x.toNat % 256 ^ j = y.toNat % 256 ^ j :=
  le_tz64_xor_iff x y j

/-- `lz(x ^ y) / 8` counts the high bytes in which `x` and `y` agree -/
theorem le_lz64_xor_div8_iff (x y : UInt64) (j : Nat) :
    j ≤ lz64 (x ^^^ y) / 8 ↔ j ≤ 8 ∧ x.toNat / 256 ^ (8 - j) = y.toNat / 256 ^ (8 - j) :=
  le_lz64_xor_iff x y j

/-! ## 4. loads (`getLE64`, `_getLE64`, `_getLE32`) versus `le64At` -/

/-- `getLE64(p)` (the `switch len(p)`) is the zero-extended little-endian load of the model -/
theorem getLE64_eq_le64At (p : List Byte) : getLE64 p = le64At p 0 := by
  apply UInt64.toNat_inj.1
  rw [getLE64_toNat, le64At_toNat, List.drop_zero]

/-- `le64At` at any position is `getLE64` of the rest -/
theorem le64At_eq_getLE64_drop (p : List Byte) (i : Nat) : le64At p i = getLE64 (p.drop i) := by
  apply UInt64.toNat_inj.1
  rw [getLE64_toNat, le64At_toNat]

/-- `_getLE64(p)` panics exactly for `len(p) < 8` and otherwise agrees with `getLE64` -/
theorem le64_eq_some_iff (p : List Byte) (x : UInt64) :
    le64 p = some x ↔ 8 ≤ p.length ∧ x = getLE64 p := by
  by_cases h : 8 ≤ p.length
  · rw [le64_eq_some p h]
    constructor
    · intro e; exact ⟨h, (Option.some.inj e).symm⟩
    · rintro ⟨_, rfl⟩; rfl
  · rw [le64_eq_none p (by omega)]
    constructor
    · intro e; cases e
    · rintro ⟨h', _⟩; exact absurd h' h

theorem le64_eq_none_iff (p : List Byte) : le64 p = none ↔ p.length < 8 := by
  by_cases h : 8 ≤ p.length
  · rw [le64_eq_some p h]; constructor
    · intro e; cases e
    · intro h'; omega
  · rw [le64_eq_none p (by omega)]; constructor
    · intro _; omega
    · intro _; rfl

/-- `_getLE64(p[i:])` inside the bounds is the model's `le64At p i` -/
theorem le64_drop_eq_le64At (p : List Byte) (i : Nat) (h : i + 8 ≤ p.length) :
    le64 (p.drop i) = some (le64At p i) := by
  rw [le64_eq_some _ (by rw [List.length_drop]; omega), le64At_eq_getLE64_drop]

/-- value of `le64At`: the little-endian number of the (at most) 8 bytes at `i` -/
theorem le64At_toNat_eq (p : List Byte) (i : Nat) :
    (le64At p i).toNat = leNat ((p.drop i).take 8) := le64At_toNat p i

/-- `_getLE32(p)`: panics exactly for `len(p) < 4`, value = the first 4 bytes little-endian -/
theorem le32_eq_some_iff (p : List Byte) :
    (∃ x, le32 p = some x) ↔ 4 ≤ p.length := by
  constructor
  · rintro ⟨x, hx⟩
    match p, hx with
    | _ :: _ :: _ :: _ :: _, _ => simp
  · intro h
    obtain ⟨x, hx, _⟩ := le32_eq_some p h
    exact ⟨x, hx⟩

theorem le32_toNat (p : List Byte) (x : UInt32) (h : le32 p = some x) :
    x.toNat = leNat (p.take 4) := by
  have h4 := (le32_eq_some_iff p).1 ⟨x, h⟩
  obtain ⟨x', hx', hv⟩ := le32_eq_some p h4
  rw [h] at hx'; cases hx'; exact hv

/-! ### the hash key does not depend on the memory behind the block

  The parsers compute `y := _getLE64(_p[i:])` on `_p = s.Data[:inputEnd+7]`, which may contain up
  to 7 bytes behind `p`, and use `y & mask`; the model uses `le64At p i &&& maskOf inputLen`
  (bytes behind `p` read as 0). For `i < inputEnd = len(p) - inputLen + 1` both are equal. -/

theorem maskOf_toNat (n : Nat) : (maskOf n).toNat = 256 ^ (min n 8) - 1 := by
  match n with
  | 0 | 1 | 2 | 3 | 4 | 5 | 6 | 7 => decide
  | n + 8 =>
    have : min (n + 8) 8 = 8 := by omega
    rw [this]; unfold maskOf; rw [if_pos (by omega)]; decide

theorem and_maskOf_toNat (x : UInt64) (n : Nat) :
    (x &&& maskOf n).toNat = x.toNat % 256 ^ (min n 8) := by
  rw [UInt64.toNat_and, maskOf_toNat, ← two_pow_mul8, Nat.and_two_pow_sub_one_eq_mod]

theorem key_behind_irrelevant (p behind : List Byte) (i n : Nat) (y : UInt64)
    (hy : le64 ((p ++ behind).drop i) = some y) (h : i + min n 8 ≤ p.length) :
    y &&& maskOf n = le64At p i &&& maskOf n := by
  obtain ⟨_, rfl⟩ := (le64_eq_some_iff _ _).1 hy
  apply UInt64.toNat_inj.1
  rw [and_maskOf_toNat, and_maskOf_toNat, getLE64_toNat, le64At_toNat, ← leNat_take, ← leNat_take,
    List.take_take, List.take_take, Nat.min_eq_left (Nat.min_le_right _ _),
    List.take_drop, List.take_drop, List.take_append_of_le_length h]

/-- … in terms of the model's `HashT.key` -/
theorem HashT_key_eq (hsh : HashT) (p behind : List Byte) (i : Nat) (y : UInt64)
    (hy : le64 ((p ++ behind).drop i) = some y) (h : i + min hsh.inputLen 8 ≤ p.length) :
    hsh.key p i = y &&& maskOf hsh.inputLen :=
  (key_behind_irrelevant p behind i hsh.inputLen y hy h).symm

/-! ## 1. one word -/

/-- two `_getLE64` loads: trailing zero bytes of the xor = common prefix, capped at 8 -/
theorem tz64_xor_le64 {a b : List Byte} {x y : UInt64} (ha : le64 a = some x)
    (hb : le64 b = some y) : tz64 (x ^^^ y) / 8 = min 8 (lcpLen a b) := by
  obtain ⟨ha8, rfl⟩ := (le64_eq_some_iff _ _).1 ha
  obtain ⟨hb8, rfl⟩ := (le64_eq_some_iff _ _).1 hb
  exact tz64_xor_take8 _ _ a b ha8 hb8 (getLE64_toNat a) (getLE64_toNat b)

/-- two `_getLE32` loads -/
theorem tz32_xor_le32 {a b : List Byte} {x y : UInt32} (ha : le32 a = some x)
    (hb : le32 b = some y) : tz32 (x ^^^ y) / 8 = min 4 (lcpLen a b) :=
  tz32_xor_take4 x y a b ((le32_eq_some_iff a).1 ⟨x, ha⟩) ((le32_eq_some_iff b).1 ⟨y, hb⟩)
    (le32_toNat a x ha) (le32_toNat b y hb)

/-- two `getLE64` loads of byte strings of any length (short ones are zero-extended, which may
    fake agreement behind the end: hence the `min` with the lengths, the `if b > len(q)` in Go) -/
theorem tz64_xor_getLE64 (a b : List Byte) :
    min (min a.length b.length) (tz64 (getLE64 a ^^^ getLE64 b) / 8) = min 8 (lcpLen a b) := by
  have hk := tz64_xor_leNat _ _ _ _ (getLE64_toNat a) (getLE64_toNat b)
  have h8 := tz64_div8_le (getLE64 a ^^^ getLE64 b)
  rw [lcpLen_take] at hk
  simp only [List.length_take] at hk
  omega

/-- leading zero bytes of the xor of two `_getLE64` loads = common suffix of the 8-byte windows -/
theorem lz64_xor_le64 {a b : List Byte} {x y : UInt64} (ha : le64 a = some x)
    (hb : le64 b = some y) : lz64 (x ^^^ y) / 8 = lcsLen (a.take 8) (b.take 8) := by
  obtain ⟨ha8, rfl⟩ := (le64_eq_some_iff _ _).1 ha
  obtain ⟨hb8, rfl⟩ := (le64_eq_some_iff _ _).1 hb
  exact lz64_xor_leNat _ _ _ _ (getLE64_toNat a) (getLE64_toNat b)
    (by rw [List.length_take]; omega) (by rw [List.length_take]; omega)

/-- … for 8-byte strings -/
theorem lz64_xor_le64_8 {a b : List Byte} (ha : a.length = 8) (hb : b.length = 8) :
    lz64 (getLE64 a ^^^ getLE64 b) / 8 = min 8 (lcsLen a b) := by
  have := lz64_xor_le64 (le64_eq_some a (by omega)) (le64_eq_some b (by omega))
  rw [List.take_of_length_le (by omega), List.take_of_length_le (by omega)] at this
  have := lcsLen_le_left a b
  omega

/-! ## 2. `lcp`, `suffix.matchLen`, `lcs` -/

/-- `lcp(p, q)` (and `suffix.matchLen(p, q)`, the same text) never panics and returns the length of
    the longest common prefix -/
theorem lcpW?_eq (p q : List Byte) : lcpW? p q = some (lcpLen p q) := by
  unfold lcpW?
  split
  · rw [lcpLoop_eq q p 0 (by omega), lcpLen_comm]; simp
  · rw [lcpLoop_eq p q 0 (by omega)]; simp

theorem lcpW_eq (p q : List Byte) : lcpW p q = lcpLen p q := by
  simp [lcpW, lcpW?_eq]

/-- `lcs(p, q)` never panics and returns the length of the longest common suffix -/
theorem lcsW?_eq (p q : List Byte) : lcsW? p q = some (lcsLen p q) := by
  unfold lcsW?
  split
  · rw [lcsMain_eq q p (by omega), lcsLen_comm]
  · rw [lcsMain_eq p q (by omega)]

theorem lcsW_eq (p q : List Byte) : lcsW p q = lcsLen p q := by
  simp [lcsW, lcsW?_eq]

/-! ## 3. the match length inlined in the hash parsers (HP, BHP, DHP, BDHP)

  Calling conditions in the parsers: `j < i` (`0 < o = i - j`), `i < inputEnd`,
  `inputEnd = len(p) - inputLen + 1 ≤ len(p)`, and `_p = s.Data[:inputEnd+7]` exists, i.e.
  `inputEnd + 7 ≤ cap(s.Data)`; `behind` = the `cap(s.Data) - len(p)` bytes behind `p`. -/

/-- first word: `k8 = min(8, true match length)`, independent of `behind` -/
theorem matchLen8_eq' (p behind : List Byte) (inputEnd i j : Nat)
    (hj : j < i) (hi : i < inputEnd) (hE : inputEnd ≤ p.length)
    (hcap : inputEnd + 7 ≤ (p ++ behind).length) :
    matchLen8 ((p ++ behind).take (inputEnd + 7)) p i j =
      some (min 8 (lcpLen (p.drop j) (p.drop i))) :=
  matchLen8_eq p behind _ i j (by omega) (by omega) (by omega) hcap

/-- the extension runs only for `k8 = 8` and completes the true match length -/
theorem matchExt_eq' (p : List Byte) (i j : Nat) (hj : j < i) :
    matchExt p i j (min 8 (lcpLen (p.drop j) (p.drop i))) = some (lcpLen (p.drop j) (p.drop i)) :=
  matchExt_eq p i j (by omega)

/-- the complete computation: no panic; the candidate is skipped iff `min 8 L < minMatchLen`,
    otherwise the sequence gets `L = lcpLen (p.drop j) (p.drop i)` -/
theorem matchLenInline_eq (p behind : List Byte) (inputEnd minMatchLen i j : Nat)
    (hj : j < i) (hi : i < inputEnd) (hE : inputEnd ≤ p.length)
    (hcap : inputEnd + 7 ≤ (p ++ behind).length) :
    matchLenInline p behind inputEnd minMatchLen i j =
      some (if min 8 (lcpLen (p.drop j) (p.drop i)) < minMatchLen then none
            else some (lcpLen (p.drop j) (p.drop i))) := by
  unfold matchLenInline
  rw [sliceTo_eq_some _ _ _ hcap]
  simp only [bind, Option.bind]
  rw [matchLen8_eq p behind _ i j (by omega) (by omega) (by omega) hcap]
  simp only []
  split
  · rfl
  · rw [matchExt_eq p i j (by omega)]; rfl

/-- the form used by `LZ.hpProbe`, `LZ.dhpProbe`: `let k := lcpLen (p.drop j) (p.drop i);
    if k < minMatch then none else …` (the parsers have `minMatchLen = min inputLen 3 ≤ 8`) -/
theorem matchLenInline_eq_probe (p behind : List Byte) (inputEnd minMatchLen i j : Nat)
    (hj : j < i) (hi : i < inputEnd) (hE : inputEnd ≤ p.length)
    (hcap : inputEnd + 7 ≤ (p ++ behind).length) (hmm : minMatchLen ≤ 8) :
    matchLenInline p behind inputEnd minMatchLen i j =
      some (let k := lcpLen (p.drop j) (p.drop i); if k < minMatchLen then none else some k) := by
  rw [matchLenInline_eq p behind inputEnd minMatchLen i j hj hi hE hcap]
  simp only []
  congr 1
  split <;> split <;> first | rfl | omega

/-- the result does not depend on the memory behind `p` -/
theorem matchLenInline_behind_irrelevant (p b1 b2 : List Byte) (inputEnd minMatchLen i j : Nat)
    (hj : j < i) (hi : i < inputEnd) (hE : inputEnd ≤ p.length)
    (h1 : inputEnd + 7 ≤ (p ++ b1).length) (h2 : inputEnd + 7 ≤ (p ++ b2).length) :
    matchLenInline p b1 inputEnd minMatchLen i j = matchLenInline p b2 inputEnd minMatchLen i j := by
  rw [matchLenInline_eq _ _ _ _ _ _ hj hi hE h1, matchLenInline_eq _ _ _ _ _ _ hj hi hE h2]

/-- without enough capacity behind the block the reslice `s.Data[:inputEnd+7]` panics -/
theorem matchLenInline_panic (p behind : List Byte) (inputEnd minMatchLen i j : Nat)
    (hcap : (p ++ behind).length < inputEnd + 7) :
    matchLenInline p behind inputEnd minMatchLen i j = none := by
  unfold matchLenInline sliceTo
  rw [if_neg (by omega)]; rfl

/-- with the 7 bytes margin behind `s.Data` that the parser buffer guarantees -/
theorem matchLenInline_eq_margin (p behind : List Byte) (inputEnd minMatchLen i j : Nat)
    (hj : j < i) (hi : i < inputEnd) (hE : inputEnd ≤ p.length)
    (hmargin : 7 ≤ behind.length) (hmm : minMatchLen ≤ 8) :
    matchLenInline p behind inputEnd minMatchLen i j =
      some (let k := lcpLen (p.drop j) (p.drop i); if k < minMatchLen then none else some k) :=
  matchLenInline_eq_probe p behind inputEnd minMatchLen i j hj hi hE
    (by rw [List.length_append]; omega) hmm

/-! ## 6. line protocol: `BytesW.stepLine` gives the answers the driver gives today

  (`Driver.stepUnit` answers `ulcp`, `ulcs`, `ule64` with `lcpLen`, `lcsLen`, `le64At`.) -/

theorem hexDigit_eq_driver : hexDigit = Driver.hexDigit := rfl

theorem unhexAux_eq_driver (l : List Char) (acc : List Byte) :
    unhexAux l acc = Driver.unhexAux l acc := by
  fun_induction unhexAux l acc <;> simp_all [Driver.unhexAux, hexDigit_eq_driver]

theorem unhex_eq_driver (s : String) : unhex s = Driver.unhex s := by
  simp [unhex, Driver.unhex, unhexAux_eq_driver]

theorem stepLine_ulcp (a b : String) :
    stepLine ["ulcp", a, b] = some (toString (lcpLen (Driver.unhex a) (Driver.unhex b))) := by
  simp [stepLine, showRes, lcpW?_eq, unhex_eq_driver]

theorem stepLine_ulcs (a b : String) :
    stepLine ["ulcs", a, b] = some (toString (lcsLen (Driver.unhex a) (Driver.unhex b))) := by
  simp [stepLine, showRes, lcsW?_eq, unhex_eq_driver]

theorem stepLine_ule64 (a : String) :
    stepLine ["ule64", a] = some (toString (le64At (Driver.unhex a) 0).toNat) := by
  simp [stepLine, getLE64_eq_le64At, unhex_eq_driver]

/-! ## 5. non-vacuity and concrete evaluations (kernel-checked, no `native_decide`) -/

section Examples

-- math/bits
example : tz64 0 = 64 := by decide
example : tz64 1 = 0 := by decide
example : tz64 0x0100 = 8 := by decide
example : tz64 0x8000000000000000 = 63 := by decide
example : tz32 0 = 32 := by decide
example : tz32 0x00010000 = 16 := by decide
example : lz64 0 = 64 := by decide
example : lz64 1 = 63 := by decide
example : lz64 0x00ffffffffffffff = 8 := by decide
example : lz64 0xffffffffffffffff = 0 := by decide
example : shl64 0x0102 56 = 0x0200000000000000 := by decide
example : shl64 0x0102 64 = 0 := by decide

-- loads
example : getLE64 [] = 0 := by decide
example : getLE64 [1, 2, 3] = 0x030201 := by decide
example : getLE64 [1, 2, 3, 4, 5] = 0x0504030201 := by decide
example : getLE64 [1, 2, 3, 4, 5, 6, 7] = 0x07060504030201 := by decide
example : getLE64 [1, 2, 3, 4, 5, 6, 7, 8, 9] = 0x0807060504030201 := by decide
example : le64 [1, 2, 3, 4, 5, 6, 7, 8, 9] = some 0x0807060504030201 := by decide
example : le64 [1, 2, 3, 4, 5, 6, 7] = none := by decide
example : le32 [0xff, 2, 3, 0x80, 5] = some 0x800302ff := by decide
example : le32 [1, 2, 3] = none := by decide
example : le64At [9, 1, 2, 3] 1 = 0x030201 := by decide

-- one word: bytes 0..2 agree, byte 3 differs
example : tz64 (getLE64 [1, 2, 3, 4, 5, 6, 7, 8] ^^^ getLE64 [1, 2, 3, 9, 5, 6, 7, 8]) / 8 = 3 := by
  decide
example : lcpLen [1, 2, 3, 4, 5, 6, 7, 8] [1, 2, 3, 9, 5, 6, 7, 8] = 3 := by decide
-- bytes 5..7 agree, byte 4 differs
example : lz64 (getLE64 [1, 2, 3, 4, 5, 6, 7, 8] ^^^ getLE64 [1, 2, 3, 4, 0, 6, 7, 8]) / 8 = 3 := by
  decide
example : lcsLen [1, 2, 3, 4, 5, 6, 7, 8] [1, 2, 3, 4, 0, 6, 7, 8] = 3 := by decide
-- zero extension fakes agreement: the clamp with the lengths is necessary
example : tz64 (getLE64 [1] ^^^ getLE64 [1, 0, 0]) / 8 = 8 ∧ lcpLen [1] [1, 0, 0] = 1 := by decide
-- non-vacuity of `tz64_xor_le64`, `tz32_xor_le32`, `lz64_xor_le64`
example : ∃ x y, le64 [1, 2, 3, 4, 5, 6, 7, 8, 9] = some x ∧ le64 [1, 2, 3, 4, 5, 0, 7, 8] = some y ∧
    tz64 (x ^^^ y) / 8 = 5 := ⟨_, _, rfl, rfl, by decide⟩
example : ∃ x y, le32 [1, 2, 3, 4, 5] = some x ∧ le32 [1, 2, 0, 4] = some y ∧
    tz32 (x ^^^ y) / 8 = 2 := ⟨_, _, rfl, rfl, by decide⟩

-- `lcp`: 8-byte loop (one round), 4-byte step, byte loop; swap of the arguments
example : lcpW? [1, 2, 3, 4, 5, 6, 7, 8, 9, 10, 11, 12, 13] [1, 2, 3, 4, 5, 6, 7, 8, 9, 10, 11, 12, 14, 15]
    = some 12 := by decide +kernel
example : lcpW? [1, 2, 3, 4, 5, 6, 7, 8, 9, 10, 11, 12, 14, 15] [1, 2, 3, 4, 5, 6, 7, 8, 9, 10, 11, 12, 13]
    = some 12 := by decide +kernel
example : lcpW? [1, 2, 3, 4, 5, 6, 7, 8, 9] [1, 2, 3, 4, 5, 0, 7, 8, 9] = some 5 := by decide +kernel
example : lcpW? [1, 2, 3, 4, 5, 6, 7] [1, 2, 3, 4, 5, 6, 7] = some 7 := by decide +kernel
example : lcpW? [] [1, 2] = some 0 := by decide +kernel
example : lcpW [7, 7, 7] [7, 7, 8] = 2 := by decide +kernel
-- the internal loop called with the longer list second would panic (`p[i]` in the byte loop):
-- the swap at the start of `lcp` is needed
example : lcpLoop [1, 2] [1, 2, 3] 0 = none := by decide +kernel

-- `lcs`: loop and shifted tail
example : lcsW? [1, 2, 3, 4, 5, 6, 7, 8, 9, 10, 11, 12, 13] [0, 2, 3, 4, 5, 6, 7, 8, 9, 10, 11, 12, 13]
    = some 12 := by decide +kernel
example : lcsW? [9, 9, 0, 2, 3, 4, 5, 6, 7, 8, 9, 10, 11, 12, 13] [1, 2, 3, 4, 5, 6, 7, 8, 9, 10, 11, 12, 13]
    = some 12 := by decide +kernel
example : lcsW? [1, 2, 3] [4, 2, 3] = some 2 := by decide +kernel
example : lcsW? [1, 2, 3] [1, 2, 3] = some 3 := by decide +kernel
example : lcsW? [1, 2, 3, 4, 5, 6, 7, 8, 9, 10] [1, 2, 3, 4, 0, 6, 7, 8, 9, 10] = some 5 := by
  decide +kernel
example : lcsW? [5] [] = some 0 := by decide +kernel

-- the inlined computation: p = "abcabcabcabcabcabcXXXX", inputLen = 3, inputEnd = 22 - 3 + 1 = 20
def exP : List Byte := [1, 2, 3, 1, 2, 3, 1, 2, 3, 1, 2, 3, 1, 2, 3, 1, 2, 3, 9, 9, 9, 9]
/-- hypotheses of `matchLenInline_eq` are satisfiable -/
example : (0 : Nat) < 3 ∧ 3 < 20 ∧ 20 ≤ exP.length ∧ 20 + 7 ≤ (exP ++ [0, 0, 0, 0, 0, 0, 0]).length := by
  decide
-- i = 3, j = 0: first word full, one more 8-byte round (7 bytes), result 15
example : matchLenInline exP [0, 0, 0, 0, 0, 0, 0] 20 3 3 0 = some (some 15) := by decide +kernel
example : matchLenInline exP [1, 2, 3, 1, 2, 3, 1] 20 3 3 0 = some (some 15) := by decide +kernel
example : lcpLen (exP.drop 0) (exP.drop 3) = 15 := by decide
-- i = 2, j = 1 … tail with `getLE64`: i = 6, j = 0 gives 12 = 8 + 4 (4 bytes left behind i+8)
example : matchLenInline exP [0, 0, 0, 0, 0, 0, 0] 20 3 6 0 = some (some 12) := by decide +kernel
-- near the end of the block the first loads read behind `p`; i = 19, j = 18: the 9s behind the
-- block would extend the agreement of the first words to 8 bytes, the clamp cuts it to 3
example : matchLenInline exP [9, 9, 9, 9, 9, 9, 9] 20 3 19 18 = some (some 3) := by decide +kernel
example : matchLenInline exP [0, 0, 0, 0, 0, 0, 0] 20 3 19 18 = some (some 3) := by decide +kernel
example : matchLen8 ((exP ++ [9, 9, 9, 9, 9, 9, 9]).take 27) exP 19 18 = some 3 := by decide +kernel
example : lcpLen (exP.drop 18) (exP.drop 19) = 3 := by decide
-- a candidate below `minMatchLen` is skipped
example : matchLenInline exP [0, 0, 0, 0, 0, 0, 0] 20 3 4 0 = some none := by decide +kernel
-- no margin: the reslice panics
example : matchLenInline exP [] 20 3 3 0 = none := by decide +kernel

-- the hash key with garbage behind the block
example : ∃ y, le64 (([1, 2, 3, 4] ++ [0xaa, 0xbb, 0xcc, 0xdd, 0xee, 0xff, 0x11] : List Byte).drop 1) = some y ∧
    y &&& maskOf 3 = 0x040302 ∧ le64At [1, 2, 3, 4] 1 &&& maskOf 3 = 0x040302 :=
  ⟨_, rfl, by decide, by decide⟩

-- line protocol
#guard stepLine ["ulcp", "0102030405060708090a", "0102030405060708090b"] = some "9"
#guard stepLine ["ulcs", "ff02030405060708090a", "0102030405060708090a"] = some "9"
#guard stepLine ["ulcp", "-", "01"] = some "0"
#guard stepLine ["ule64", "010203"] = some "197121"
#guard stepLine ["ule64", "-"] = some "0"
#guard stepLine ["umatch", "01020301020301020301020301020301020309090909", "00000000000000", "20", "3", "3", "0"]
  = some "15"
#guard stepLine ["uhash", "1", "2"] = none

end Examples

#print axioms le_tz64_iff
#print axioms le_tz32_iff
#print axioms le_lz64_iff
#print axioms le_tz64_xor_div8_iff
#print axioms le_lz64_xor_div8_iff
#print axioms getLE64_eq_le64At
#print axioms le64At_eq_getLE64_drop
#print axioms le64_eq_some_iff
#print axioms le64_eq_none_iff
#print axioms le64_drop_eq_le64At
#print axioms le32_eq_some_iff
#print axioms le32_toNat
#print axioms key_behind_irrelevant
#print axioms HashT_key_eq
#print axioms tz64_xor_le64
#print axioms tz32_xor_le32
#print axioms tz64_xor_getLE64
#print axioms lz64_xor_le64
#print axioms lz64_xor_le64_8
#print axioms lcpW?_eq
#print axioms lcpW_eq
#print axioms lcsW?_eq
#print axioms lcsW_eq
#print axioms matchLen8_eq'
#print axioms matchExt_eq'
#print axioms matchLenInline_eq
#print axioms matchLenInline_eq_probe
#print axioms matchLenInline_eq_margin
#print axioms matchLenInline_behind_irrelevant
#print axioms matchLenInline_panic
#print axioms unhex_eq_driver
#print axioms stepLine_ulcp
#print axioms stepLine_ulcs
#print axioms stepLine_ule64

end LZ.BytesW
