/-
  LzProofs.ResetProps — property C13:
    "After Reset (with nil or with data) a parser behaves exactly like a newly created parser of
     the same configuration given the same subsequent calls: the emitted blocks are identical,
     whatever the parser processed before.  Likewise two parsers with equal configuration and
     equal call sequences emit identical blocks."

  Vocabulary (defined in LzProofs/ResetLemmas.lean and LzProofs/ParseHist.lean):
    POp                       the calls: write p | readFrom r | parse flags | parseNil | shrink | reset data capExtra
    Parser.stepOut s op       new state and what the caller sees (`POut`: counts, errors, the block,
                              the bytes left in the reader)
    Parser.runOut s ops       final state and the list of all outputs of a history
    Reachable s0 s            `s = (s0.runOut ops).1` for some history `ops` (ANY operations, ANY readers)
    ObsEq s t                 equal in everything but `buf.cap` (the capacity of the backing array)
    PBuf.MarginInv b          `len(Data) ≤ BufferSize` and non-empty data have the 7 byte margin
    POp.Similar / OpsSimilar  calls the caller cannot tell apart: identical, except that the spare
                              capacity of the slice given to Reset and the chunking of an ERROR-FREE
                              reader (`FillR`) may differ
    RInv k c s                invariant of reachable states: constant kind/cfg, `MarginInv`, and the
                              search structure has the shape (sizes, parameters) of a fresh one

  Restriction on readers: the histories AFTER the reset may use `readFrom` only with error-free
  readers (`FillR`: no error codes, every answer offers a byte, enough answers for the payload).  For a
  reader that fails in the middle the number of bytes accepted before the failure depends on
  `cap` (`PBuf.readFrom_faulty_depends_on_cap` in LzProofs/PBufProps.lean), and `cap` is exactly
  what a reset parser and a fresh one may differ in.  The history BEFORE the reset is unrestricted.
-/
import LzProofs.ResetLemmas
import LzProofs.ParseEval
namespace LZ
open PBuf

/-! ## 1. reachable states -/

/-- `s` is reachable from `s0` by a history of Write / ReadFrom / Parse / Parse(nil) / Shrink /
    Reset calls (any arguments, any scripted readers, failing ones included) -/
def Reachable (s0 s : Parser) : Prop := ∃ ops : List POp, s = (s0.runOut ops).1

/-- the same notion through `runOps` of LzProofs.ParseHist -/
theorem reachable_iff_runOps (s0 s : Parser) :
    Reachable s0 s ↔ ∃ ops : List POp, s = (runOps (s0, Ghost.init) ops).1 := by
  constructor <;> (intro ⟨ops, h⟩; refine ⟨ops, ?_⟩)
  · rw [runOps_fst]; exact h
  · rw [← runOps_fst ops s0 Ghost.init]; exact h

/-- Every state reachable from `NewParser` satisfies `RInv`: in particular its search structure
    has the table sizes and parameters `freshDict` would create, whatever was processed.
    Holds for all seven parsers and all accepted configurations, unconditionally. -/
theorem reachable_rinv (k : Kind) (raw : Cfg) (s0 : Parser) (h0 : newParser k raw = some s0)
    (s : Parser) (hr : Reachable s0 s) : RInv k s0.cfg s := by
  obtain ⟨ops, rfl⟩ := hr
  exact (newParser_rinv k raw s0 h0).1.run ops

/-- `Reset` clears the search structure of any reachable state to exactly the fresh one. -/
theorem reachable_clearDict (k : Kind) (raw : Cfg) (s0 : Parser) (h0 : newParser k raw = some s0)
    (s : Parser) (hr : Reachable s0 s) : s.clearDict = s0.dict := by
  rw [clearDict_eq_fresh s (reachable_rinv k raw s0 h0 s hr).dict, (newParser_rinv k raw s0 h0).2.1]

/-! ## 2. Reset gives a state observationally equal to a fresh parser's -/

/-- two states of the same kind/configuration with well-shaped dictionaries: `Reset(data)` reports
    the same error on both, and if it succeeds the results are observationally equal -/
theorem reset_obsEq_of_rinv {k : Kind} {c : Cfg} {s t : Parser} (hs : RInv k c s) (ht : RInv k c t)
    (data : List Byte) (ce ce' : Nat) :
    (s.reset data ce).2 = (t.reset data ce').2 ∧
    ((s.reset data ce).2 = .ok → ObsEq (s.reset data ce).1 (t.reset data ce').1) := by
  have hcfg : s.buf.cfg = t.buf.cfg := hs.bcfg.trans ht.bcfg.symm
  by_cases hd : s.buf.cfg.bufferSize < data.length
  · have e1 := reset_oversize s.buf data ce hd
    have e2 := reset_oversize t.buf data ce' (by rw [← hcfg]; exact hd)
    have f1 : (s.reset data ce).2 = .oversize := by rw [(Parser.reset_buf s data ce).2, e1]
    have f2 : (t.reset data ce').2 = .oversize := by rw [(Parser.reset_buf t data ce').2, e2]
    refine ⟨by rw [f1, f2], fun h => ?_⟩
    rw [f1] at h; cases h
  · obtain ⟨c1, e1, -⟩ := reset_spec s.buf data ce (by omega)
    obtain ⟨c2, e2, -⟩ := reset_spec t.buf data ce' (by rw [← hcfg]; omega)
    have f1 : (s.reset data ce).2 = .ok := by rw [(Parser.reset_buf s data ce).2, e1]
    have f2 : (t.reset data ce').2 = .ok := by rw [(Parser.reset_buf t data ce').2, e2]
    refine ⟨by rw [f1, f2], fun _ => ?_⟩
    refine ⟨?_, ?_, ?_, ?_, ?_, ?_, ?_⟩
    · rw [(Parser.reset_kind_cfg s data ce).1, (Parser.reset_kind_cfg t data ce').1, hs.kind, ht.kind]
    · rw [(Parser.reset_kind_cfg s data ce).2, (Parser.reset_kind_cfg t data ce').2, hs.cfg, ht.cfg]
    · rw [Parser.reset_dict, Parser.reset_dict, f1, f2]
      simp only [if_true]
      rw [clearDict_eq_fresh s hs.dict, clearDict_eq_fresh t ht.dict]
    all_goals rw [(Parser.reset_buf s data ce).1, (Parser.reset_buf t data ce').1, e1, e2]
    exact hcfg

/-- **reset_eq_fresh**: let `s0` be a newly created parser and `s` ANY state reachable from it
    (arbitrary history of Write/ReadFrom/Parse/Parse(nil)/Shrink/Reset).  `Reset(data)` on `s`
    and on `s0` report the same error (`ErrOversize` iff `len(data) > BufferSize`), and when they
    succeed the two resulting states are equal in every component except possibly `buf.cap`. -/
theorem reset_eq_fresh (k : Kind) (raw : Cfg) (s0 : Parser) (h0 : newParser k raw = some s0)
    (s : Parser) (hr : Reachable s0 s) (data : List Byte) (ce ce' : Nat) :
    (s.reset data ce).2 = (s0.reset data ce').2 ∧
    ((s.reset data ce).2 = .ok → ObsEq (s.reset data ce).1 (s0.reset data ce').1) :=
  reset_obsEq_of_rinv (reachable_rinv k raw s0 h0 s hr) (newParser_rinv k raw s0 h0).1 data ce ce'

/-- the same in the form "if both succeed with results `s1`, `t1` then `ObsEq s1 t1`" -/
theorem reset_eq_fresh' (k : Kind) (raw : Cfg) (s0 : Parser) (h0 : newParser k raw = some s0)
    (s : Parser) (hr : Reachable s0 s) (data : List Byte) (ce ce' : Nat) (s1 t1 : Parser)
    (h1 : s.reset data ce = (s1, .ok)) (h2 : s0.reset data ce' = (t1, .ok)) : ObsEq s1 t1 := by
  have := (reset_eq_fresh k raw s0 h0 s hr data ce ce').2 (by rw [h1])
  rw [h1, h2] at this
  exact this

/-- `Reset(nil)` (any reachable state): always succeeds and yields a state observationally equal
    to the newly created parser itself. -/
theorem reset_nil_eq_new (k : Kind) (raw : Cfg) (s0 : Parser) (h0 : newParser k raw = some s0)
    (s : Parser) (hr : Reachable s0 s) (ce : Nat) :
    (s.reset [] ce).2 = .ok ∧ ObsEq (s.reset [] ce).1 s0 := by
  have hs := reachable_rinv k raw s0 h0 s hr
  obtain ⟨h0r, h0d, h0b⟩ := newParser_rinv k raw s0 h0
  obtain ⟨c1, e1, -⟩ := reset_spec s.buf [] ce (Nat.zero_le _)
  have f1 : (s.reset [] ce).2 = .ok := by rw [(Parser.reset_buf s [] ce).2, e1]
  refine ⟨f1, ?_, ?_, ?_, ?_, ?_, ?_, ?_⟩
  · rw [(Parser.reset_kind_cfg s [] ce).1, hs.kind, h0r.kind]
  · rw [(Parser.reset_kind_cfg s [] ce).2, hs.cfg]
  · rw [Parser.reset_dict, f1]
    simp only [if_true]
    rw [clearDict_eq_fresh s hs.dict, h0d]
  all_goals rw [(Parser.reset_buf s [] ce).1, e1, h0b]
  all_goals first | rfl | exact hs.bcfg

/-! ## 3. observational equivalence is a bisimulation -/

/-- **obs_bisim**: if `s` and `t` are equal up to `cap` and both buffers have the margin
    invariant (so the panic guard of `Parse` fires in neither), then indistinguishable calls
    `op`, `op'` (identical calls; `Reset` may be given slices of different spare capacity, and
    `ReadFrom` error-free readers with the same payload but different chunking) return identical
    outputs — `(n, err)`, the emitted block, the reader's remaining payload, the shrink delta —
    and lead to states that are again equal up to `cap`. -/
theorem obs_bisim {s t : Parser} (h : ObsEq s t) (hs : s.buf.MarginInv) (ht : t.buf.MarginInv)
    {op op' : POp} (ho : POp.Similar op op') :
    (s.stepOut op).2 = (t.stepOut op').2 ∧ ObsEq (s.stepOut op).1 (t.stepOut op').1 ∧
    (s.stepOut op).1.buf.MarginInv ∧ (t.stepOut op').1.buf.MarginInv :=
  ⟨(Parser.obs_step h hs ht ho).2, (Parser.obs_step h hs ht ho).1,
   Parser.stepOut_marginInv s op hs, Parser.stepOut_marginInv t op' ht⟩

/-- the same with the buffer invariant `BufOK` of LzProofs.WrapProps as hypothesis -/
theorem obs_bisim_bufOK {s t : Parser} (h : ObsEq s t) (hs : BufOK s.buf) (ht : BufOK t.buf)
    {op op' : POp} (ho : POp.Similar op op') :
    (s.stepOut op).2 = (t.stepOut op').2 ∧ ObsEq (s.stepOut op).1 (t.stepOut op').1 :=
  ⟨(obs_bisim h (marginInv_of_bufOK hs) (marginInv_of_bufOK ht) ho).1,
   (obs_bisim h (marginInv_of_bufOK hs) (marginInv_of_bufOK ht) ho).2.1⟩

/-- the per-operation reading of `obs_bisim` for `Parse`: same `n`, same error, same block -/
theorem obs_bisim_parse {s t : Parser} (h : ObsEq s t) (hs : s.buf.MarginInv) (ht : t.buf.MarginInv)
    (flags : Nat) :
    (s.parse flags).2 = (t.parse flags).2 ∧ ObsEq (s.parse flags).1 (t.parse flags).1 :=
  ⟨(Parser.parse_obs h hs ht flags).2, (Parser.parse_obs h hs ht flags).1⟩

/-- whole histories -/
theorem obs_bisim_run {s t : Parser} (h : ObsEq s t) (hs : s.buf.MarginInv) (ht : t.buf.MarginInv)
    {ops ops' : List POp} (ho : OpsSimilar ops ops') :
    (s.runOut ops).2 = (t.runOut ops').2 ∧ ObsEq (s.runOut ops).1 (t.runOut ops').1 :=
  ⟨(Parser.obs_run ho h hs ht).2, (Parser.obs_run ho h hs ht).1⟩

/-! ### what holds for arbitrary (failing) readers -/

/-- `ReadFrom` with an ARBITRARY scripted reader on two states equal up to `cap`: kind, cfg,
    dictionary, `W`, `Off` and the buffer configuration stay equal, both buffers receive a prefix of
    the payload, and no byte is lost or duplicated — buffer contents followed by what the reader
    still holds is the same stream on both sides.  Only the split (the count `n`, hence possibly
    the error of the call) may differ; see `readFrom_faulty_distinguishes`. -/
theorem readFrom_any_conserves {s t : Parser} (h : ObsEq s t) (hs : s.buf.MarginInv)
    (ht : t.buf.MarginInv) (r : Reader) :
    (s.readFrom r).1.buf.data ++ (s.readFrom r).2.1.payload =
      (t.readFrom r).1.buf.data ++ (t.readFrom r).2.1.payload ∧
    (s.readFrom r).1.buf.data = s.buf.data ++ r.payload.take (s.readFrom r).2.2.1 ∧
    (t.readFrom r).1.buf.data = s.buf.data ++ r.payload.take (t.readFrom r).2.2.1 ∧
    (s.readFrom r).1.kind = (t.readFrom r).1.kind ∧ (s.readFrom r).1.cfg = (t.readFrom r).1.cfg ∧
    (s.readFrom r).1.dict = (t.readFrom r).1.dict ∧ (s.readFrom r).1.buf.w = (t.readFrom r).1.buf.w ∧
    (s.readFrom r).1.buf.off = (t.readFrom r).1.buf.off ∧
    (s.readFrom r).1.buf.cfg = (t.readFrom r).1.buf.cfg := by
  have ea : s.buf.readFrom r = ((s.buf.readFrom r).1, (s.buf.readFrom r).2.1, (s.buf.readFrom r).2.2.1,
    (s.buf.readFrom r).2.2.2) := rfl
  have eb : t.buf.readFrom r = ((t.buf.readFrom r).1, (t.buf.readFrom r).2.1, (t.buf.readFrom r).2.2.1,
    (t.buf.readFrom r).2.2.2) := rfl
  obtain ⟨ca, -, hba, hra, -⟩ := readFrom_master hs.1 ea
  obtain ⟨cb, -, hbb, hrb, -⟩ := readFrom_master ht.1 eb
  obtain ⟨h1, h2, h3, h4, h5, h6, h7⟩ := h
  have da : (s.readFrom r).1.buf.data = s.buf.data ++ r.payload.take (s.readFrom r).2.2.1 := by
    show (s.buf.readFrom r).1.data = _
    rw [hba]; rfl
  have db : (t.readFrom r).1.buf.data = s.buf.data ++ r.payload.take (t.readFrom r).2.2.1 := by
    show (t.buf.readFrom r).1.data = _
    rw [hbb, h4]; rfl
  have pa : (s.readFrom r).2.1.payload = r.payload.drop (s.readFrom r).2.2.1 := hra
  have pb : (t.readFrom r).2.1.payload = r.payload.drop (t.readFrom r).2.2.1 := hrb
  refine ⟨?_, da, db, h1, h2, h3, ?_, ?_, ?_⟩
  · rw [da, db, pa, pb, List.append_assoc, List.append_assoc, List.take_append_drop,
      List.take_append_drop]
  · show (s.buf.readFrom r).1.w = (t.buf.readFrom r).1.w
    rw [hba, hbb]; exact h5
  · show (s.buf.readFrom r).1.off = (t.buf.readFrom r).1.off
    rw [hba, hbb]; exact h6
  · show (s.buf.readFrom r).1.cfg = (t.buf.readFrom r).1.cfg
    rw [hba, hbb]; exact h7

/-- **Limit of `obs_bisim`**: a reader that fails while still holding data can tell two states
    apart that differ only in `cap` (lifted from `PBuf.readFrom_faulty_depends_on_cap`): with
    BufferSize 100000, an empty buffer of capacity 0 accepts 65536 bytes before the reader's error
    is returned, an empty buffer of capacity 100007 all 100000.  This is why the histories after
    the reset are restricted to error-free readers; it does not affect the emitted blocks for the
    bytes that were accepted, and `readFrom_any_conserves` shows no byte is lost. -/
theorem readFrom_faulty_distinguishes (pl : List Byte) (hl : pl.length = 100000) :
    ∃ s t : Parser, ObsEq s t ∧ s.buf.MarginInv ∧ t.buf.MarginInv ∧
      (s.stepOut (.readFrom ⟨pl, [(100000, 2)]⟩)).2 ≠ (t.stepOut (.readFrom ⟨pl, [(100000, 2)]⟩)).2 := by
  obtain ⟨-, h2, h3⟩ := readFrom_faulty_depends_on_cap pl hl
  refine ⟨{ kind := .GSAP, cfg := default, buf := init cfgBig, dict := .gsap GsapD.empty },
    { kind := .GSAP, cfg := default, buf := { init cfgBig with cap := 100007 }, dict := .gsap GsapD.empty },
    ⟨rfl, rfl, rfl, rfl, rfl, rfl, rfl⟩, ⟨Nat.zero_le _, Or.inl rfl⟩, ⟨Nat.zero_le _, Or.inl rfl⟩, ?_⟩
  intro h
  have g1 : ((init cfgBig).readFrom ⟨pl, [(100000, 2)]⟩).2.2.1 = 65536 := congrArg Prod.fst h2
  have g2 : (({ init cfgBig with cap := 100007 } : PBuf).readFrom ⟨pl, [(100000, 2)]⟩).2.2.1
      = 100000 := congrArg Prod.fst h3
  injection h with hn _ _
  rw [(Parser.readFrom_buf _ _).2, (Parser.readFrom_buf _ _).2] at hn
  have hn' : ((init cfgBig).readFrom ⟨pl, [(100000, 2)]⟩).2.2.1 =
     (({ init cfgBig with cap := 100007 } : PBuf).readFrom ⟨pl, [(100000, 2)]⟩).2.2.1 := hn
  rw [g1, g2] at hn'
  exact absurd hn' (by decide)

/-! ## 4. C13 -/

/-- **C13 (Reset ≙ new parser).**  `s0` a newly created parser (any of the seven kinds, any accepted
    configuration), `s` any state reachable from it by any history.  If `Reset(data)` succeeds on
    `s` (i.e. `len(data) ≤ BufferSize`; it then also succeeds on `s0`), every subsequent history
    `ops` — Write, Parse (any flags), Parse(nil), Shrink, further Resets, ReadFrom with error-free
    readers — produces on the reset parser exactly the outputs (counts, errors, emitted blocks)
    it produces on the reset fresh parser, and the final states are equal up to `cap`. -/
theorem C13_reset_equiv (k : Kind) (raw : Cfg) (s0 : Parser) (h0 : newParser k raw = some s0)
    (s : Parser) (hr : Reachable s0 s) (data : List Byte) (ce ce' : Nat)
    (hok : (s.reset data ce).2 = .ok) {ops ops' : List POp} (ho : OpsSimilar ops ops') :
    ((s.reset data ce).1.runOut ops).2 = ((s0.reset data ce').1.runOut ops').2 ∧
    ObsEq ((s.reset data ce).1.runOut ops).1 ((s0.reset data ce').1.runOut ops').1 := by
  have hs := reachable_rinv k raw s0 h0 s hr
  have ht := (newParser_rinv k raw s0 h0).1
  have hobs := (reset_eq_fresh k raw s0 h0 s hr data ce ce').2 hok
  have m1 : (s.reset data ce).1.buf.MarginInv :=
    Parser.stepOut_marginInv s (.reset data ce) hs.buf
  have m2 : (s0.reset data ce').1.buf.MarginInv :=
    Parser.stepOut_marginInv s0 (.reset data ce') ht.buf
  exact obs_bisim_run hobs m1 m2 ho

/-- C13 with literally the same subsequent calls on both sides -/
theorem C13_reset_equiv_same (k : Kind) (raw : Cfg) (s0 : Parser) (h0 : newParser k raw = some s0)
    (s : Parser) (hr : Reachable s0 s) (data : List Byte) (ce : Nat)
    (hok : (s.reset data ce).2 = .ok) (ops : List POp) (hf : ∀ op ∈ ops, op.FillOK) :
    ((s.reset data ce).1.runOut ops).2 = ((s0.reset data ce).1.runOut ops).2 :=
  (C13_reset_equiv k raw s0 h0 s hr data ce ce hok (OpsSimilar.of_fillOK hf)).1

/-- **C13 (Reset(nil) ≙ NewParser).**  After `Reset(nil)` a used parser answers every subsequent
    history exactly like the parser `NewParser` returns for the same configuration. -/
theorem C13_reset_nil_equiv_new (k : Kind) (raw : Cfg) (s0 : Parser) (h0 : newParser k raw = some s0)
    (s : Parser) (hr : Reachable s0 s) (ce : Nat) {ops ops' : List POp} (ho : OpsSimilar ops ops') :
    ((s.reset [] ce).1.runOut ops).2 = (s0.runOut ops').2 ∧
    ObsEq ((s.reset [] ce).1.runOut ops).1 (s0.runOut ops').1 := by
  have hs := reachable_rinv k raw s0 h0 s hr
  have ht := (newParser_rinv k raw s0 h0).1
  have m1 : (s.reset [] ce).1.buf.MarginInv := Parser.stepOut_marginInv s (.reset [] ce) hs.buf
  exact obs_bisim_run (reset_nil_eq_new k raw s0 h0 s hr ce).2 m1 ht.buf ho

/-- blocks only: the list of blocks emitted by the `Parse` calls of a history -/
def blocksOf : List POut → List Block
  | [] => []
  | .parse _ .ok blk :: r => blk :: blocksOf r
  | _ :: r => blocksOf r

/-- the clause "the emitted blocks are identical" literally -/
theorem C13_reset_blocks (k : Kind) (raw : Cfg) (s0 : Parser) (h0 : newParser k raw = some s0)
    (s : Parser) (hr : Reachable s0 s) (data : List Byte) (ce ce' : Nat)
    (hok : (s.reset data ce).2 = .ok) {ops ops' : List POp} (ho : OpsSimilar ops ops') :
    blocksOf ((s.reset data ce).1.runOut ops).2 = blocksOf ((s0.reset data ce').1.runOut ops').2 := by
  rw [(C13_reset_equiv k raw s0 h0 s hr data ce ce' hok ho).1]

/-- a parser state is determined by kind and (defaults-completed) configuration -/
theorem newParser_determined (k : Kind) (raw raw' : Cfg) (a b : Parser)
    (ha : newParser k raw = some a) (hb : newParser k raw' = some b) (hc : a.cfg = b.cfg) : a = b := by
  unfold newParser at ha hb
  simp only [] at ha hb
  split at ha
  · split at hb
    · simp only [Option.some.injEq] at ha hb
      subst ha hb
      simp only at hc
      rw [hc]
    · simp at hb
  · simp at ha

/-- **C13 (determinism).**  Two parsers created with equal (defaults-completed) configuration and
    driven by indistinguishable call sequences produce identical outputs, blocks included.
    (The model is a function of the parser's own state and the call arguments only; that the Go
    code has no other inputs — no package-level mutable state, no `init`, no imports of
    `sync`/`time`/`math/rand`/… — is the source-level fact `package_vars_are_errors`,
    `no_init_functions`, `no_stateful_imports` in LzProofs/FactsProps.lean, which is what
    discharges the "other instances used concurrently / any goroutine schedule" clause:
    distinct instances share nothing, so a schedule cannot influence any of them.) -/
theorem C13_deterministic (k : Kind) (raw raw' : Cfg) (a b : Parser)
    (ha : newParser k raw = some a) (hb : newParser k raw' = some b) (hc : a.cfg = b.cfg)
    {ops ops' : List POp} (ho : OpsSimilar ops ops') :
    (a.runOut ops).2 = (b.runOut ops').2 ∧ ObsEq (a.runOut ops).1 (b.runOut ops').1 := by
  have e := newParser_determined k raw raw' a b ha hb hc
  subst e
  have ht := (newParser_rinv k raw a ha).1
  exact obs_bisim_run (ObsEq.refl a) ht.buf ht.buf ho

/-- identical call sequences (no restriction on the readers): identical everything -/
theorem C13_deterministic_same (k : Kind) (raw raw' : Cfg) (a b : Parser)
    (ha : newParser k raw = some a) (hb : newParser k raw' = some b) (hc : a.cfg = b.cfg)
    (ops : List POp) : a.runOut ops = b.runOut ops := by
  rw [newParser_determined k raw raw' a b ha hb hc]

/-! ## 5. counter-witness: what happened before the fix -/

/-- fuel-based (kernel-evaluable) `runGreedy` -/
def runGreedyF {δ} (F : Finder δ) (d : δ) (p : List Byte) (w stop flags : Nat) : δ × Nat × Block × Nat :=
  let st := greedyLoopF F p stop (stop - w) { dict := d, i := w, litIndex := w, seqs := [], lits := [] }
  let (w', blk) := finishBlock p flags st
  (st.dict, w', blk, st.litIndex)

theorem runGreedy_eq_F {δ} (F : Finder δ) (d : δ) (p : List Byte) (w stop flags : Nat) :
    Parser.runGreedy F d p w stop flags = runGreedyF F d p w stop flags := by
  unfold Parser.runGreedy runGreedyF
  rw [greedyLoop_eq_fuel F p stop _ (stop - w) (Nat.le_refl _)]

/-- `Parse` of the double-hash parsers with the fuel-based loop (kernel-evaluable) -/
def Parser.parse2F (s : Parser) (d : Hash2) (flags : Nat) : Parser × Nat × Err × Block :=
  let w := s.buf.w
  let p := s.buf.data.take (w + s.blockN)
  let hh := processSegment2 d.h1 d.h2 s.buf.data ((w : Int) - d.h2.inputLen + 1) w
  let e1 := p.length + 1 - hh.1.inputLen
  let e2 := p.length + 1 - hh.2.inputLen
  let r := runGreedyF ⟨dhpProbe s.buf.cfg.windowSize s.minMatch e1 e2 (s.kind == .BDHP)⟩
    ⟨hh.1, hh.2⟩ p w e1 flags
  ({ s with buf := { s.buf with w := r.2.1 }, dict := .double r.1 }, r.2.1 - w, .ok, r.2.2.1)

theorem Parser.parse_double_F (s : Parser) (flags : Nat) (d : Hash2) (hd : s.dict = .double d)
    (hn : s.blockN ≠ 0) (hm : s.MarginOK) : s.parse flags = s.parse2F d flags := by
  rw [Parser.parse_double s flags d hd hn hm]
  simp only [runGreedy_eq_F]
  rfl

/-- `Reset` as the Go code behaved before the fix: for the double-hash parsers only the buffer is
    reset, the two hash tables keep their entries; all other parsers as in the model -/
def Parser.resetNoClear (s : Parser) (data : List Byte) (capExtra : Nat) : Parser × Err :=
  let (b, e) := s.buf.reset data capExtra
  if e = .ok then
    ({ s with buf := b, dict := match s.dict with | .double d => .double d | _ => s.clearDict }, e)
  else (s, e)

def cwCfg : Cfg :=
  { windowSize := 64, bufferSize := 64, blockSize := 32, shrinkSize := 16,
    inputLen1 := 4, hashBits1 := 6, inputLen2 := 6, hashBits2 := 6 }

def cwX : List Byte := [48, 49, 50, 51, 52, 97, 98, 99, 100, 53, 54, 55, 56, 57]
def cwY : List Byte := [48, 49, 50, 51, 52, 97, 98, 99, 88, 53, 97, 98, 99, 100, 54, 55, 56, 57]

def cwC : Cfg := setDefaults .DHP (cwCfg.restrict .DHP)
def cwD0 : Hash2 := { h1 := HashT.new 4 6, h2 := HashT.new 6 6 }
def cwNew : Parser := { kind := .DHP, cfg := cwC, buf := PBuf.init cwC.bufCfg, dict := .double cwD0 }

theorem cwNew_new : newParser .DHP cwCfg = some cwNew := by rfl

/-- the new parser after `Write(cwX)` -/
def cwS1 : Parser := (cwNew.write cwX).1
/-- ... after `Parse(&blk, 0)`: a used parser, reachable from `cwNew` -/
def cwUsed : Parser := (cwS1.parse 0).1

theorem cwS1_parse : cwS1.parse 0 = cwS1.parse2F cwD0 0 :=
  Parser.parse_double_F cwS1 0 cwD0 rfl (by decide)
    (Parser.marginOK_of_cap _ (Or.inr (by decide)) (by decide))

theorem cwUsed_reachable : Reachable cwNew cwUsed := ⟨[.write cwX, .parse 0], rfl⟩

/-- the stale tables of the used parser -/
def cwD3 : Hash2 := (cwS1.parse2F cwD0 0).1.dict.casesOn (fun _ => default) id (fun _ => default)
  (fun _ => default) (fun _ => default)

theorem cwStale_dict : (cwUsed.resetNoClear cwY 0).1.dict = .double cwD3 := by
  unfold cwUsed
  rw [cwS1_parse]
  rfl

set_option maxRecDepth 100000 in
/-- the block the stale parser emits for `cwY`: one spurious match found through a table entry
    left over from `cwX` -/
theorem cwStale_block : ((cwUsed.resetNoClear cwY 0).1.parse 0).2 =
    (18, .ok, ⟨[⟨10, 3, 5, 0⟩], [48, 49, 50, 51, 52, 97, 98, 99, 88, 53, 100, 54, 55, 56, 57]⟩) := by
  rw [Parser.parse_double_F _ 0 cwD3 cwStale_dict (by decide)
    (Parser.marginOK_of_cap _ (Or.inr (by decide)) (by decide))]
  unfold cwUsed
  rw [cwS1_parse]
  decide

set_option maxRecDepth 100000 in
/-- the block a new parser emits for `cwY` after `Reset(cwY)`: literals only -/
theorem cwFresh_block : ((cwNew.reset cwY 0).1.parse 0).2 = (18, .ok, ⟨[], cwY⟩) := by
  rw [Parser.parse_double_F _ 0 cwD0 rfl (by decide)
    (Parser.marginOK_of_cap _ (Or.inr (by decide)) (by decide))]
  decide

/-- **the historical defect, kernel-checked**: a double-hash parser whose `Reset` keeps the
    tables (the Go code before the fix: `doubleHashDictionary` had no `Reset`, so the promoted
    `ParserBuffer.Reset` ran) emits, after having parsed `cwX`, another block for `cwY` than a
    new parser does. -/
theorem resetNoClear_differs :
    ((cwUsed.resetNoClear cwY 0).1.parse 0).2.2.2 ≠ ((cwNew.reset cwY 0).1.parse 0).2.2.2 := by
  rw [cwStale_block, cwFresh_block]
  decide

/-- both blocks are correct encodings of `cwY` — which is why round-trip tests cannot see it -/
example : expand [] ((cwUsed.resetNoClear cwY 0).1.parse 0).2.2.2 = some cwY ∧
    expand [] ((cwNew.reset cwY 0).1.parse 0).2.2.2 = some cwY := by
  rw [cwStale_block, cwFresh_block]
  decide

/-- with the model's `Reset` (the fixed code) the used parser emits the new parser's block; this is
    an instance of `C13_reset_equiv`, not a computation -/
theorem cwReset_block : ((cwUsed.reset cwY 0).1.parse 0).2 = (18, .ok, ⟨[], cwY⟩) := by
  have h := (C13_reset_equiv .DHP cwCfg cwNew cwNew_new cwUsed cwUsed_reachable cwY 0 0 (by decide)
    (ops := [.parse 0]) (ops' := [.parse 0]) (OpsSimilar.of_fillOK (by intro op h; simp at h; subst h; trivial))).1
  simp only [Parser.runOut, Parser.stepOut, List.cons.injEq, POut.parse.injEq, and_true] at h
  rw [← cwFresh_block]
  exact Prod.ext h.1 (Prod.ext h.2.1 h.2.2)


/-! ## 6. non-vacuity -/

/-- the hypotheses of `C13_reset_equiv` hold for the concrete used DHP parser above:
    it is reachable, `Reset(cwY)` succeeds … -/
example : newParser .DHP cwCfg = some cwNew ∧ Reachable cwNew cwUsed ∧ (cwUsed.reset cwY 0).2 = .ok :=
  ⟨cwNew_new, cwUsed_reachable, by decide⟩

/-- … its tables really are dirty (so the statement is not about a fresh parser in disguise) … -/
example : cwD3.h1.tbl ≠ cwD0.h1.tbl := by decide

/-- … and the reset used parser and the reset new parser do differ in `cap`, i.e. `ObsEq` cannot
    be replaced by equality -/
example : (cwUsed.reset cwY 0).1.buf.cap = 71 ∧ (cwNew.reset cwY 0).1.buf.cap = 25 := by decide

/-- the invariant of reachable states, instantiated -/
example : RInv .DHP cwC cwUsed := reachable_rinv .DHP cwCfg cwNew cwNew_new cwUsed cwUsed_reachable

example : (cwUsed.reset cwY 0).1.buf.MarginInv :=
  Parser.stepOut_marginInv cwUsed (.reset cwY 0)
    (reachable_rinv .DHP cwCfg cwNew cwNew_new cwUsed cwUsed_reachable).buf

/-- an error-free reader -/
example : FillR ⟨[1, 2, 3, 4, 5], [(2, 0), (2, 0), (9, 0), (1, 0), (1, 0)]⟩ := by unfold FillR; decide

/-- two indistinguishable histories that differ in the spare capacity given to `Reset` and in
    the chunking of the reader -/
example : OpsSimilar
    [.reset [1, 2] 0, .readFrom ⟨[1, 2, 3], [(1, 0), (1, 0), (1, 0)]⟩, .parse 1, .shrink, .parseNil, .write [7]]
    [.reset [1, 2] 50, .readFrom ⟨[1, 2, 3], [(3, 0), (3, 0), (3, 0)]⟩, .parse 1, .shrink, .parseNil, .write [7]] :=
  .cons (.reset _ _ _) (.cons (.readFrom _ _ rfl (by unfold FillR; decide) (by unfold FillR; decide))
    (.cons (.parse _) (.cons .shrink (.cons .parseNil (.cons (.write _) .nil)))))

/-- `C13_reset_nil_equiv_new` on the concrete parser: after `Reset(nil)`, `Write(cwY)`, `Parse`
    gives the block of a new parser -/
example (ce : Nat) :
    ((cwUsed.reset [] ce).1.runOut [.write cwY, .parse 0]).2 = (cwNew.runOut [.write cwY, .parse 0]).2 :=
  (C13_reset_nil_equiv_new .DHP cwCfg cwNew cwNew_new cwUsed cwUsed_reachable ce
    (OpsSimilar.of_fillOK (by intro op h; simp at h; rcases h with rfl | rfl <;> trivial))).1

end LZ

#print axioms LZ.reachable_rinv
#print axioms LZ.reachable_clearDict
#print axioms LZ.reset_obsEq_of_rinv
#print axioms LZ.reset_eq_fresh
#print axioms LZ.reset_eq_fresh'
#print axioms LZ.reset_nil_eq_new
#print axioms LZ.obs_bisim
#print axioms LZ.obs_bisim_bufOK
#print axioms LZ.obs_bisim_parse
#print axioms LZ.obs_bisim_run
#print axioms LZ.readFrom_any_conserves
#print axioms LZ.readFrom_faulty_distinguishes
#print axioms LZ.C13_reset_equiv
#print axioms LZ.C13_reset_equiv_same
#print axioms LZ.C13_reset_nil_equiv_new
#print axioms LZ.C13_reset_blocks
#print axioms LZ.newParser_determined
#print axioms LZ.C13_deterministic
#print axioms LZ.C13_deterministic_same
#print axioms LZ.cwStale_block
#print axioms LZ.cwFresh_block
#print axioms LZ.resetNoClear_differs
#print axioms LZ.cwReset_block
