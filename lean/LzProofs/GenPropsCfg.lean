/-
  LzProofs.GenPropsCfg — umbrella of the configuration topics:
    GenPropsCfgBuf     G08 gen_bufDefaults   G09 gen_bufVerify (+ gen_bufVerify_error1..4)
    GenPropsCfgHash    G10 gen_hashDefaults  G11 gen_hashVerify (+ gen_hashVerify_error1/2)
                       G12 gen_dhDefaults    G13 gen_dhVerify
    GenPropsCfgBucket  G14 gen_bucketDefaults G15 gen_bucketVerify
    GenPropsCfg<K>     G16 gen_setDefaults_<K>  G17 gen_verify_<K>  G18 gen_accepted_<K>
    GenPropsCfgAll     G19 gen_setDefaults / gen_verify
-/
import LzProofs.GenPropsCfgBuf
import LzProofs.GenPropsCfgHash
import LzProofs.GenPropsCfgBucket
import LzProofs.GenPropsCfgAll
