/-
  LzProofs.EdgesProps — C11 (ii): the edges `computeEdges` stores are sound (genuine matches)
  and complete (every genuine match is dominated by a stored edge), from the facts about the
  suffix array, the LCP table and `Segments` proved in the suffix-array topic (C09/C10) and
  stated here as hypotheses with the same shape.
-/
import LzProofs.OsapProps
namespace LZ.Sap

/-! ## the callback `edgeCallback` on one sorted segment -/

theorem getD_setIfInBounds_gen {α} (a : Array α) (j k : Nat) (v d : α) :
    (a.setIfInBounds j v).getD k d = if k = j ∧ j < a.size then v else a.getD k d := by
  simp only [Array.getD_eq_getD_getElem?, Array.getElem?_setIfInBounds]
  by_cases hk : k = j
  · subst hk
    by_cases hs : k < a.size <;> simp [hs]
  · have : ¬ j = k := fun h => hk h.symm
    simp [hk, this]

/-- `(a, b)` are neighbours in the list -/
def AdjIn (a b : Nat) : List Nat → Prop
  | x :: y :: r => (a = x ∧ b = y) ∨ AdjIn a b (y :: r)
  | _ => False

theorem AdjIn.mem {a b : Nat} : ∀ {l : List Nat}, AdjIn a b l → a ∈ l ∧ b ∈ l
  | x :: y :: r, h => by
    rcases h with ⟨rfl, rfl⟩ | h
    · simp
    · have := AdjIn.mem h
      exact ⟨List.mem_cons_of_mem _ this.1, List.mem_cons_of_mem _ this.2⟩

/-- in a strictly descending list a larger member `x` of a pair `y < x` has a right neighbour
    `prev` with `y ≤ prev < x` -/
theorem exists_adj_of_desc : ∀ {l : List Nat}, l.Pairwise (fun a b => b < a) → ∀ {x y : Nat},
    x ∈ l → y ∈ l → y < x → ∃ prev, AdjIn x prev l ∧ y ≤ prev ∧ prev < x
  | [], _, _, _, hx, _, _ => by simp at hx
  | [a], _, x, y, hx, hy, hxy => by
    simp at hx hy; omega
  | a :: b :: r, hp, x, y, hx, hy, hxy => by
    have hp' := List.pairwise_cons.1 hp
    by_cases hxa : x = a
    · subst hxa
      have hy' : y ∈ b :: r := by
        rcases List.mem_cons.1 hy with h | h
        · omega
        · exact h
      refine ⟨b, Or.inl ⟨rfl, rfl⟩, ?_, hp'.1 b (List.mem_cons_self)⟩
      rcases List.mem_cons.1 hy' with h | h
      · omega
      · have := (List.pairwise_cons.1 hp'.2).1 y h; omega
    · have hx' : x ∈ b :: r := by
        rcases List.mem_cons.1 hx with h | h
        · exact absurd h hxa
        · exact h
      have hy' : y ∈ b :: r := by
        rcases List.mem_cons.1 hy with h | h
        · have := hp'.1 x hx'; omega
        · exact h
      obtain ⟨prev, h1, h2, h3⟩ := exists_adj_of_desc hp'.2 hx' hy' hxy
      exact ⟨prev, Or.inr h1, h2, h3⟩

theorem AdjIn.lt_head {a b x : Nat} {l : List Nat} (hp : (x :: l).Pairwise (fun a b => b < a))
    (h : AdjIn a b l) : a < x :=
  (List.pairwise_cons.1 hp).1 a h.mem.1

theorem AdjIn.gt {a b : Nat} : ∀ {l : List Nat}, l.Pairwise (fun a b => b < a) → AdjIn a b l → b < a
  | x :: y :: r, hp, h => by
    have hp' := List.pairwise_cons.1 hp
    rcases h with ⟨rfl, rfl⟩ | h
    · exact hp'.1 _ List.mem_cons_self
    · exact AdjIn.gt hp'.2 h

section Callback
variable (ws D m : Nat) (woff : Int) (hw : woff = -(D : Int))

/-- what one call of the callback does to the edge table -/
structure CbSpec (desc : List Nat) (edges : Array (List Edge)) (cnt : Nat)
    (r : Array (List Edge) × Nat) : Prop where
  size : r.1.size = edges.size
  cnt_le : cnt ≤ r.2
  cnt_eq : r.2 = cnt → r.1 = edges
  ext : ∀ k, r.1.getD k [] = edges.getD k [] ∨
    ∃ i prev, AdjIn i prev desc ∧ i = k + D ∧ i - prev ≤ ws ∧ k < edges.size ∧
      r.1.getD k [] = edges.getD k [] ++ [(m, i - prev)]
  cover : ∀ i prev, AdjIn i prev desc → D ≤ i → i - D < edges.size → i - prev ≤ ws →
    (m, i - prev) ∈ r.1.getD (i - D) [] ∨ ∃ e, e ∈ edges.getD (i - D) [] ∧ e.2 ≤ i - prev

include hw in
theorem edgeCallback_spec : ∀ (desc : List Nat) (edges : Array (List Edge)) (cnt : Nat),
    desc.Pairwise (fun a b => b < a) →
    CbSpec ws D m desc edges cnt (edgeCallback ws woff m desc (edges, cnt))
  | [], edges, cnt, _ => by
    simp only [edgeCallback]
    exact ⟨rfl, Nat.le_refl _, fun _ => rfl, fun k => Or.inl rfl, fun i prev h => h.elim⟩
  | [a], edges, cnt, _ => by
    simp only [edgeCallback]
    exact ⟨rfl, Nat.le_refl _, fun _ => rfl, fun k => Or.inl rfl, fun i prev h => h.elim⟩
  | i :: prev :: rest, edges, cnt, hp => by
    have hp' := List.pairwise_cons.1 hp
    have hpi : prev < i := hp'.1 prev List.mem_cons_self
    unfold edgeCallback
    simp only
    by_cases hk : (i : Int) + woff < 0
    · -- break: all remaining positions are in front of the block
      simp only [hk, if_true]
      refine ⟨rfl, Nat.le_refl _, fun _ => rfl, fun k => Or.inl rfl, ?_⟩
      intro i' prev' h hD
      exfalso
      have : i' ≤ i := by
        rcases h with ⟨rfl, _⟩ | h
        · exact Nat.le_refl _
        · exact Nat.le_of_lt (h.lt_head hp)
      omega
    · simp only [hk, if_false]
      have hDi : D ≤ i := by omega
      have hkn : ((i : Int) + woff).toNat = i - D := by omega
      rw [hkn]
      -- facts about the recursive call, for any table `e'` that differs from `edges` at most at `i - D`
      have rec_cover : ∀ (e' : Array (List Edge)) (c' : Nat),
          e'.size = edges.size → (∀ k, k ≠ i - D → e'.getD k [] = edges.getD k []) →
          cnt ≤ c' → (c' = cnt → e' = edges) →
          (e'.getD (i - D) [] = edges.getD (i - D) [] ∨
            (i - prev ≤ ws ∧ i - D < edges.size ∧
              e'.getD (i - D) [] = edges.getD (i - D) [] ++ [(m, i - prev)])) →
          (i - D < edges.size → i - prev ≤ ws →
            (m, i - prev) ∈ e'.getD (i - D) [] ∨ ∃ e, e ∈ edges.getD (i - D) [] ∧ e.2 ≤ i - prev) →
          CbSpec ws D m (i :: prev :: rest) edges cnt (edgeCallback ws woff m (prev :: rest) (e', c')) := by
        intro e' c' hsz hsame hc1 hc2 hhead hcov
        have ih := edgeCallback_spec (prev :: rest) e' c' hp'.2
        refine ⟨ih.size.trans hsz, Nat.le_trans hc1 ih.cnt_le, ?_, ?_, ?_⟩
        · intro h
          have h1 : c' = cnt := by have := ih.cnt_le; omega
          rw [ih.cnt_eq (by omega), hc2 h1]
        · intro k
          by_cases hki : k = i - D
          · subst hki
            -- the recursive call does not touch index `i - D`
            have hun : (edgeCallback ws woff m (prev :: rest) (e', c')).1.getD (i - D) [] =
                e'.getD (i - D) [] := by
              rcases ih.ext (i - D) with h | ⟨i', prev', hadj, hi', _⟩
              · exact h
              · exfalso
                have := hadj.lt_head hp
                omega
            rw [hun]
            rcases hhead with h | ⟨h1, h2, h3⟩
            · exact Or.inl h
            · exact Or.inr ⟨i, prev, Or.inl ⟨rfl, rfl⟩, by omega, h1, h2, h3⟩
          · rcases ih.ext k with h | ⟨i', prev', hadj, hi', h1, h2, h3⟩
            · left; rw [h, hsame k hki]
            · right
              refine ⟨i', prev', Or.inr hadj, hi', h1, by omega, ?_⟩
              rw [h3, hsame k hki]
        · intro i' prev' hadj hD' hsz' hws'
          rcases hadj with ⟨rfl, rfl⟩ | hadj
          · have hun : (edgeCallback ws woff m (prev' :: rest) (e', c')).1.getD (i' - D) [] =
                e'.getD (i' - D) [] := by
              rcases ih.ext (i' - D) with h | ⟨i'', prev'', hadj, hi'', _⟩
              · exact h
              · exfalso
                have := hadj.lt_head hp
                omega
            rw [hun]
            exact hcov hsz' hws'
          · have hlt := hadj.lt_head hp
            have hne : i' - D ≠ i - D := by omega
            rcases ih.cover i' prev' hadj hD' (by omega) hws' with h | ⟨e, he1, he2⟩
            · exact Or.inl h
            · right; exact ⟨e, by rw [← hsame _ hne]; exact he1, he2⟩
      generalize hsk : (decide (i - prev > ws) || _) = skip
      cases skip with
      | true =>
        simp only [if_true]
        apply rec_cover edges cnt rfl (fun _ _ => rfl) (Nat.le_refl _) (fun _ => rfl) (Or.inl rfl)
        intro hsz' hws'
        right
        simp only [Bool.or_eq_true, decide_eq_true_eq] at hsk
        rcases hsk with h | h
        · omega
        · split at h
          · rename_i e hl
            simp only [decide_eq_true_eq] at h
            exact ⟨e, List.mem_of_getLast? hl, h⟩
          · cases h
      | false =>
        simp only [Bool.false_eq_true, if_false]
        simp only [Bool.or_eq_false_iff, decide_eq_false_iff_not] at hsk
        apply rec_cover
        · simp
        · intro k hk'
          rw [getD_setIfInBounds_gen]
          have : ¬ (k = i - D ∧ i - D < edges.size) := fun h => hk' h.1
          rw [if_neg this]
        · omega
        · intro h; omega
        · rw [getD_setIfInBounds_gen]
          by_cases hsz' : i - D < edges.size
          · right
            refine ⟨by omega, hsz', ?_⟩
            rw [if_pos ⟨rfl, hsz'⟩]
          · left
            have : ¬ (i - D = i - D ∧ i - D < edges.size) := fun h => hsz' h.2
            rw [if_neg this]
        · intro hsz' _
          left
          rw [getD_setIfInBounds_gen, if_pos ⟨rfl, hsz'⟩]
          simp

end Callback

/-! ## hypotheses about the suffix array and `Segments` (C09/C10) -/

/-- common prefix of the suffixes at the ranks `a` and `b` -/
def sufL (t : List Byte) (saL : List Nat) (a b : Nat) : Nat :=
  lcpLen (t.drop (saL.getD a 0)) (t.drop (saL.getD b 0))

theorem lcpLen_comm' : ∀ (a b : List Byte), lcpLen a b = lcpLen b a
  | [], [] => rfl
  | [], _ :: _ => rfl
  | _ :: _, [] => rfl
  | x :: xs, y :: ys => by
    simp only [lcpLen]
    by_cases h : x = y
    · subst h; simp [lcpLen_comm' xs ys]
    · have : ¬ y = x := fun h' => h h'.symm
      simp [h, this]

theorem sufL_comm (t : List Byte) (saL : List Nat) (a b : Nat) : sufL t saL a b = sufL t saL b a :=
  lcpLen_comm' _ _

/-- The facts about `saSpec` and the callbacks of `Segments` that the edge computation relies
    on.  Each field is a theorem of the suffix-array topic:
    `perm` — `saSpec_isSuffixArray` (H1); `sound` — `C10_groups_sound`; `complete` —
    `C10_groups_complete_unique`; `children_first` — `C10_groups_children_first`; `nodup` —
    `C10_groups_nodup` (H3, with the LCP table of `kasai_correct`, H2). -/
structure SegHyps (t : List Byte) (saL : List Nat) (minLen maxLen : Nat) (cbs : List Callback) : Prop where
  perm : saL.Perm (List.range t.length)
  sound : ∀ m lo hi, (m, lo, hi) ∈ cbs → minLen ≤ m ∧ m ≤ maxLen ∧ lo < hi ∧ hi ≤ saL.length ∧
    (∀ a b, lo ≤ a → a < b → b < hi → m ≤ sufL t saL a b) ∧
    (∀ a r, lo ≤ a → a < hi → r < saL.length → (r < lo ∨ hi ≤ r) → sufL t saL a r < m)
  complete : ∀ a b, a < b → b < saL.length → minLen ≤ sufL t saL a b →
    ∃ lo hi, (min (sufL t saL a b) maxLen, lo, hi) ∈ cbs ∧ lo ≤ a ∧ b < hi
  children_first : ∀ m1 lo1 hi1 m2 lo2 hi2, (m1, lo1, hi1) ∈ cbs → (m2, lo2, hi2) ∈ cbs →
    lo2 ≤ lo1 → hi1 ≤ hi2 → m2 < m1 → [(m1, lo1, hi1), (m2, lo2, hi2)].Sublist cbs
  nodup : cbs.Nodup

section Seg
variable {t : List Byte} {saL : List Nat} {minLen maxLen : Nat} {cbs : List Callback}

theorem SegHyps.sa_nodup (H : SegHyps t saL minLen maxLen cbs) : saL.Nodup :=
  (H.perm.nodup_iff).2 List.nodup_range

theorem SegHyps.sa_length (H : SegHyps t saL minLen maxLen cbs) : saL.length = t.length := by
  simpa using H.perm.length_eq

theorem SegHyps.sa_lt (H : SegHyps t saL minLen maxLen cbs) {r : Nat} (hr : r < saL.length) :
    saL.getD r 0 < t.length := by
  have hmem : saL.getD r 0 ∈ saL := by
    rw [List.getD_eq_getElem?_getD, List.getElem?_eq_getElem hr]; exact List.getElem_mem hr
  simpa using (H.perm.mem_iff).1 hmem

/-- every position has a rank -/
theorem perm_rank {saL : List Nat} {N x : Nat} (hperm : saL.Perm (List.range N)) (hx : x < N) :
    ∃ r, r < saL.length ∧ saL.getD r 0 = x := by
  have hmem : x ∈ saL := (hperm.mem_iff).2 (by simpa using hx)
  obtain ⟨r, hr, e⟩ := List.mem_iff_getElem.1 hmem
  exact ⟨r, hr, by rw [List.getD_eq_getElem?_getD, List.getElem?_eq_getElem hr]; exact e⟩

theorem SegHyps.rank (H : SegHyps t saL minLen maxLen cbs) {x : Nat} (hx : x < t.length) :
    ∃ r, r < saL.length ∧ saL.getD r 0 = x := perm_rank H.perm hx

theorem SegHyps.rank_inj (H : SegHyps t saL minLen maxLen cbs) {r r' : Nat} (hr : r < saL.length)
    (hr' : r' < saL.length) (e : saL.getD r 0 = saL.getD r' 0) : r = r' :=
  (List.getD_inj hr hr' H.sa_nodup).1 e

/-- two callbacks that share a rank are nested, the one with the larger value inside -/
theorem SegHyps.nested (H : SegHyps t saL minLen maxLen cbs) {m1 lo1 hi1 m2 lo2 hi2 r : Nat}
    (h1 : (m1, lo1, hi1) ∈ cbs) (h2 : (m2, lo2, hi2) ∈ cbs)
    (r1 : lo1 ≤ r) (r1' : r < hi1) (r2 : lo2 ≤ r) (r2' : r < hi2) (hm : m2 ≤ m1) :
    lo2 ≤ lo1 ∧ hi1 ≤ hi2 := by
  obtain ⟨_, _, a3, a4, a5, _⟩ := H.sound _ _ _ h1
  obtain ⟨_, _, b3, b4, _, b6⟩ := H.sound _ _ _ h2
  have key : ∀ a, lo1 ≤ a → a < hi1 → lo2 ≤ a ∧ a < hi2 := by
    intro a ha ha'
    by_cases hin : lo2 ≤ a ∧ a < hi2
    · exact hin
    · exfalso
      have hout : a < lo2 ∨ hi2 ≤ a := by omega
      have hne : a ≠ r := by omega
      have hlt := b6 r a r2 r2' (by omega) hout
      have hge : m1 ≤ sufL t saL r a := by
        rcases Nat.lt_or_gt_of_ne hne with h | h
        · rw [sufL_comm]; exact a5 a r ha h r1'
        · exact a5 r a r1 h ha'
      omega
  exact ⟨(key lo1 (Nat.le_refl _) a3).1, by have := (key (hi1 - 1) (by omega) (by omega)).2; omega⟩

theorem not_both_sublist {α} : ∀ {l : List α}, l.Nodup → ∀ {a b : α}, [a, b].Sublist l → [b, a].Sublist l → False
  | [], _, _, _, h, _ => by simp at h
  | x :: l, hn, a, b, h1, h2 => by
    have hn' := List.nodup_cons.1 hn
    rcases List.sublist_cons_iff.1 h1 with h1 | ⟨r1, e1, s1⟩
    · rcases List.sublist_cons_iff.1 h2 with h2 | ⟨r2, e2, s2⟩
      · exact not_both_sublist hn'.2 h1 h2
      · have hb : b = x := by simp at e2; exact e2.1
        have : b ∈ l := h1.subset (by simp)
        rw [hb] at this; exact hn'.1 this
    · have ha : a = x := by simp at e1; exact e1.1
      rcases List.sublist_cons_iff.1 h2 with h2 | ⟨r2, e2, s2⟩
      · have : a ∈ l := h2.subset (by simp)
        rw [ha] at this; exact hn'.1 this
      · have hb : b = x := by simp at e2; exact e2.1
        have e1' : r1 = [b] := by simp at e1; exact e1.2.symm
        rw [e1'] at s1
        have : b ∈ l := s1.subset (by simp)
        rw [hb] at this; exact hn'.1 this

/-- among the callbacks containing one rank, later ones have strictly smaller values -/
theorem SegHyps.order (H : SegHyps t saL minLen maxLen cbs) :
    cbs.Pairwise (fun c1 c2 => ∀ r, c1.2.1 ≤ r → r < c1.2.2 → c2.2.1 ≤ r → r < c2.2.2 → c2.1 < c1.1) := by
  rw [List.pairwise_iff_forall_sublist]
  intro c1 c2 hsub r a1 a2 b1 b2
  obtain ⟨m1, lo1, hi1⟩ := c1
  obtain ⟨m2, lo2, hi2⟩ := c2
  have h1 : (m1, lo1, hi1) ∈ cbs := hsub.subset (by simp)
  have h2 : (m2, lo2, hi2) ∈ cbs := hsub.subset (by simp)
  simp only at a1 a2 b1 b2 ⊢
  rcases Nat.lt_trichotomy m2 m1 with h | h | h
  · exact h
  · exfalso
    obtain ⟨x1, x2⟩ := H.nested h1 h2 a1 a2 b1 b2 (by omega)
    obtain ⟨y1, y2⟩ := H.nested h2 h1 b1 b2 a1 a2 (by omega)
    have e : (m1, lo1, hi1) = (m2, lo2, hi2) := by
      have : lo1 = lo2 := by omega
      have : hi1 = hi2 := by omega
      subst_vars; rfl
    rw [e] at hsub
    exact not_both_sublist H.nodup hsub hsub
  · exfalso
    obtain ⟨y1, y2⟩ := H.nested h2 h1 b1 b2 a1 a2 (by omega)
    exact not_both_sublist H.nodup hsub (H.children_first _ _ _ _ _ _ h2 h1 y1 y2 h)

end Seg

/-! ## the sorted segment -/

/-- `slices.Sort(seg)` for `seg = sa[lo:hi]` -/
def sortedSeg (saL : List Nat) (lo hi : Nat) : List Nat :=
  ((saL.drop lo).take (hi - lo)).mergeSort (fun a b => decide (a ≤ b))

theorem mem_sortedSeg {saL : List Nat} {lo hi x : Nat} :
    x ∈ sortedSeg saL lo hi ↔ ∃ r, lo ≤ r ∧ r < hi ∧ r < saL.length ∧ saL.getD r 0 = x := by
  unfold sortedSeg
  rw [List.mem_mergeSort, List.mem_take_iff_getElem]
  constructor
  · rintro ⟨j, hj, e⟩
    simp only [List.length_drop] at hj
    rw [List.getElem_drop] at e
    refine ⟨lo + j, by omega, by omega, by omega, ?_⟩
    rw [List.getD_eq_getElem?_getD, List.getElem?_eq_getElem (by omega)]; exact e
  · rintro ⟨r, h1, h2, h3, e⟩
    refine ⟨r - lo, by simp only [List.length_drop]; omega, ?_⟩
    rw [List.getElem_drop]
    rw [List.getD_eq_getElem?_getD, List.getElem?_eq_getElem h3] at e
    have : lo + (r - lo) = r := by omega
    simp only [this]; exact e

theorem sortedSeg_desc {saL : List Nat} (hn : saL.Nodup) (lo hi : Nat) :
    (sortedSeg saL lo hi).reverse.Pairwise (fun a b => b < a) := by
  rw [List.pairwise_reverse]
  have h1 : (sortedSeg saL lo hi).Pairwise (fun a b => decide (a ≤ b) = true) :=
    List.pairwise_mergeSort (le := fun a b => decide (a ≤ b))
      (fun a b c h1 h2 => by simp only [decide_eq_true_eq] at *; omega)
      (fun a b => by simp only [Bool.or_eq_true, decide_eq_true_eq]; omega) _
  have h2 : (sortedSeg saL lo hi).Nodup := by
    unfold sortedSeg
    rw [(List.mergeSort_perm _ _).nodup_iff]
    exact ((List.take_sublist _ _).trans (List.drop_sublist _ _)).nodup hn
  exact (h1.and h2).imp (fun ⟨a, b⟩ => by simp only [decide_eq_true_eq] at a; omega)

/-! ## the fold over the callbacks -/

section Fold
variable (t : List Byte) (saL : List Nat) (ws D K : Nat) (woff : Int) (hw : woff = -(D : Int))

/-- one callback `f(m, sa[lo:hi])` of `computeEdges` -/
def edgeStep (acc : Array (List Edge) × Nat) (cb : Callback) : Array (List Edge) × Nat :=
  edgeCallback ws woff cb.1 (sortedSeg saL cb.2.1 cb.2.2).reverse acc

/-- state of the edge table after the callbacks `done` -/
structure FoldInv (done : List Callback) (st : Array (List Edge) × Nat) : Prop where
  size : st.1.size = K
  prov : ∀ k me oe, (me, oe) ∈ st.1.getD k [] →
    1 ≤ oe ∧ oe ≤ ws ∧ oe ≤ k + D ∧ me ≤ lcpLen (t.drop (k + D)) (t.drop (k + D - oe)) ∧
    ∃ lo hi r, (me, lo, hi) ∈ done ∧ lo ≤ r ∧ r < hi ∧ r < saL.length ∧ saL.getD r 0 = k + D
  compl : ∀ m lo hi, (m, lo, hi) ∈ done → ∀ rx ry, lo ≤ rx → rx < hi → lo ≤ ry → ry < hi →
    saL.getD ry 0 < saL.getD rx 0 → D ≤ saL.getD rx 0 → saL.getD rx 0 - D < K →
    saL.getD rx 0 - saL.getD ry 0 ≤ ws →
    ∃ me oe, (me, oe) ∈ st.1.getD (saL.getD rx 0 - D) [] ∧ m ≤ me ∧
      oe ≤ saL.getD rx 0 - saL.getD ry 0
  cnt0 : st.2 = 0 → ∀ k, st.1.getD k [] = []

variable {t saL ws D K woff}
variable {minLen maxLen : Nat} {cbs : List Callback}

include hw in
theorem foldInv_step (H : SegHyps t saL minLen maxLen cbs) {done : List Callback} {cb : Callback}
    (hcb : cb ∈ cbs)
    (hord : ∀ c, c ∈ done → ∀ r, c.2.1 ≤ r → r < c.2.2 → cb.2.1 ≤ r → r < cb.2.2 → cb.1 < c.1)
    {st : Array (List Edge) × Nat} (hI : FoldInv t saL ws D K done st) :
    FoldInv t saL ws D K (done ++ [cb]) (edgeStep saL ws woff st cb) := by
  obtain ⟨m, lo, hi⟩ := cb
  obtain ⟨_, _, s3, s4, s5, _⟩ := H.sound m lo hi hcb
  have hdesc := sortedSeg_desc H.sa_nodup lo hi
  have spec := edgeCallback_spec ws D m woff hw (sortedSeg saL lo hi).reverse st.1 st.2 hdesc
  have hstep : edgeStep saL ws woff st (m, lo, hi) =
      edgeCallback ws woff m (sortedSeg saL lo hi).reverse (st.1, st.2) := rfl
  rw [hstep]
  -- members of the segment have ranks inside `[lo, hi)`
  have hrank : ∀ x, x ∈ (sortedSeg saL lo hi).reverse →
      ∃ r, lo ≤ r ∧ r < hi ∧ r < saL.length ∧ saL.getD r 0 = x := by
    intro x hx; exact mem_sortedSeg.1 (List.mem_reverse.1 hx)
  have hpair : ∀ rx ry, lo ≤ rx → rx < hi → lo ≤ ry → ry < hi → rx ≠ ry →
      m ≤ lcpLen (t.drop (saL.getD rx 0)) (t.drop (saL.getD ry 0)) := by
    intro rx ry a1 a2 b1 b2 hne
    rcases Nat.lt_or_gt_of_ne hne with h | h
    · exact s5 rx ry a1 h b2
    · rw [lcpLen_comm']; exact s5 ry rx b1 h a2
  -- old entries stay
  have hold : ∀ k e, e ∈ st.1.getD k [] →
      e ∈ (edgeCallback ws woff m (sortedSeg saL lo hi).reverse (st.1, st.2)).1.getD k [] := by
    intro k e he
    rcases spec.ext k with h | ⟨_, _, _, _, _, _, h⟩
    · rw [h]; exact he
    · rw [h]; exact List.mem_append_left _ he
  refine ⟨spec.size.trans hI.size, ?_, ?_, ?_⟩
  · intro k me oe hmem
    have oldcase : (me, oe) ∈ st.1.getD k [] →
        1 ≤ oe ∧ oe ≤ ws ∧ oe ≤ k + D ∧ me ≤ lcpLen (t.drop (k + D)) (t.drop (k + D - oe)) ∧
        ∃ lo' hi' r, (me, lo', hi') ∈ done ++ [(m, lo, hi)] ∧ lo' ≤ r ∧ r < hi' ∧ r < saL.length ∧
          saL.getD r 0 = k + D := by
      intro h
      obtain ⟨a, b, c, d, lo', hi', r, e1, e2⟩ := hI.prov k me oe h
      exact ⟨a, b, c, d, lo', hi', r, List.mem_append_left _ e1, e2⟩
    rcases spec.ext k with h | ⟨i, prev, hadj, hi', hws, hk, h⟩
    · rw [h] at hmem; exact oldcase hmem
    · rw [h] at hmem
      rcases List.mem_append.1 hmem with h' | h'
      · exact oldcase h'
      · simp only [List.mem_singleton, Prod.mk.injEq] at h'
        obtain ⟨rfl, rfl⟩ := h'
        have hgt := hadj.gt hdesc
        obtain ⟨ri, i1, i2, i3, i4⟩ := hrank i hadj.mem.1
        obtain ⟨rp, p1, p2, p3, p4⟩ := hrank prev hadj.mem.2
        have hne : ri ≠ rp := by intro e; rw [e, p4] at i4; omega
        have hl := hpair ri rp i1 i2 p1 p2 hne
        rw [i4, p4] at hl
        have hsub : k + D - (i - prev) = prev := by omega
        refine ⟨by omega, hws, by omega, ?_, lo, hi, ri, by simp, i1, i2, i3, by omega⟩
        rw [hsub, ← hi']; exact hl
  · intro m' lo' hi' hmem rx ry a1 a2 b1 b2 hyx hD hK hws
    rcases List.mem_append.1 hmem with h | h
    · obtain ⟨me, oe, e1, e2, e3⟩ := hI.compl m' lo' hi' h rx ry a1 a2 b1 b2 hyx hD hK hws
      exact ⟨me, oe, hold _ _ e1, e2, e3⟩
    · simp only [List.mem_singleton, Prod.mk.injEq] at h
      obtain ⟨rfl, rfl, rfl⟩ := h
      have hrx : rx < saL.length := by omega
      have hry : ry < saL.length := by omega
      have hx : saL.getD rx 0 ∈ (sortedSeg saL lo' hi').reverse :=
        List.mem_reverse.2 (mem_sortedSeg.2 ⟨rx, a1, a2, hrx, rfl⟩)
      have hy : saL.getD ry 0 ∈ (sortedSeg saL lo' hi').reverse :=
        List.mem_reverse.2 (mem_sortedSeg.2 ⟨ry, b1, b2, hry, rfl⟩)
      obtain ⟨prev, hadj, hp1, hp2⟩ := exists_adj_of_desc hdesc hx hy hyx
      rcases spec.cover _ prev hadj hD (by rw [hI.size]; exact hK) (by omega) with h | ⟨e, he1, he2⟩
      · exact ⟨m', _, h, Nat.le_refl _, by omega⟩
      · obtain ⟨me, oe⟩ := e
        obtain ⟨_, _, _, _, lo2, hi2, r2, g1, g2, g3, g4, g5⟩ := hI.prov _ me oe he1
        have hr2 : r2 = rx := H.rank_inj g4 hrx (by rw [g5]; omega)
        subst hr2
        have := hord (me, lo2, hi2) g1 r2 g2 g3 a1 a2
        exact ⟨me, oe, hold _ _ he1, by simp only at this; omega, by simp only at he2; omega⟩
  · intro h0 k
    have h1 : (edgeCallback ws woff m (sortedSeg saL lo hi).reverse (st.1, st.2)).2 = st.2 := by
      have := spec.cnt_le; omega
    rw [spec.cnt_eq h1]
    exact hI.cnt0 (by omega) k

include hw in
theorem foldInv_foldl (H : SegHyps t saL minLen maxLen cbs) :
    ∀ (todo done : List Callback) (st : Array (List Edge) × Nat), done ++ todo = cbs →
      FoldInv t saL ws D K done st →
      FoldInv t saL ws D K cbs (todo.foldl (edgeStep saL ws woff) st) := by
  intro todo
  induction todo with
  | nil => intro done st h hI; simp at h; subst h; exact hI
  | cons cb todo ih =>
    intro done st h hI
    simp only [List.foldl_cons]
    apply ih (done ++ [cb]) _ (by simp [← h])
    apply foldInv_step hw H (by rw [← h]; simp) _ hI
    intro c hc r a1 a2 b1 b2
    have hord := H.order
    rw [← h, List.pairwise_append] at hord
    exact hord.2.2 c hc cb (by simp) r a1 a2 b1 b2

end Fold

/-! ## common prefixes and `MatchOK` -/

theorem lcp_get : ∀ (u v : List Byte) (k : Nat), k ≤ lcpLen u v → ∀ j, j < k → u[j]? = v[j]?
  | [], _, k, h, j, hj => by simp [lcpLen] at h; omega
  | _ :: _, [], k, h, j, hj => by simp [lcpLen] at h; omega
  | a :: u, b :: v, k, h, j, hj => by
    simp only [lcpLen] at h
    by_cases hab : a = b
    · subst hab
      simp only [if_true] at h
      cases j with
      | zero => simp
      | succ j =>
        simp only [List.getElem?_cons_succ]
        exact lcp_get u v (k - 1) (by omega) j (by omega)
    · simp only [hab, if_false] at h; omega

theorem lcp_of_get : ∀ (m : Nat) (u v : List Byte), m ≤ u.length → (∀ j, j < m → u[j]? = v[j]?) →
    m ≤ lcpLen u v
  | 0, _, _, _, _ => Nat.zero_le _
  | m + 1, [], _, h, _ => by simp at h
  | m + 1, a :: u, [], _, h => by have := h 0 (by omega); simp at this
  | m + 1, a :: u, b :: v, hl, h => by
    have h0 := h 0 (by omega)
    simp only [List.getElem?_cons_zero, Option.some.injEq] at h0
    subst h0
    simp only [lcpLen, if_true]
    have := lcp_of_get m u v (by simp at hl; omega) (fun j hj => by
      have := h (j + 1) (by omega)
      simpa only [List.getElem?_cons_succ] using this)
    omega

theorem lcpLen_le_len_left : ∀ (a b : List Byte), lcpLen a b ≤ a.length
  | [], _ => by simp [lcpLen]
  | _ :: _, [] => by simp [lcpLen]
  | x :: xs, y :: ys => by
    simp only [lcpLen]; split
    · have := lcpLen_le_len_left xs ys; simp; omega
    · simp

/-- a common prefix of the suffixes at `pos` and `pos - o` of the buffer is a genuine match
    in every prefix `p` of the buffer that contains it -/
theorem matchOK_of_lcp {data : List Byte} {pos o m e : Nat} (ho : 1 ≤ o) (hop : o ≤ pos)
    (hl : m ≤ lcpLen (data.drop pos) (data.drop (pos - o))) (he : pos + m ≤ e) (hed : e ≤ data.length) :
    MatchOK (data.take e) pos m o := by
  refine ⟨ho, hop, by simp only [List.length_take]; omega, ?_⟩
  intro j hj
  have := lcp_get _ _ m hl j hj
  simp only [List.getElem?_drop] at this
  rw [List.getElem?_take_of_lt (by omega), List.getElem?_take_of_lt (by omega), this]
  congr 1; omega

theorem lcp_of_matchOK {data : List Byte} {pos o m e : Nat} (hed : e ≤ data.length)
    (h : MatchOK (data.take e) pos m o) :
    m ≤ lcpLen (data.drop pos) (data.drop (pos - o)) := by
  obtain ⟨h1, h2, h3, h4⟩ := h
  simp only [List.length_take] at h3
  apply lcp_of_get
  · simp only [List.length_drop]; omega
  · intro j hj
    have := h4 j hj
    rw [List.getElem?_take_of_lt (by omega), List.getElem?_take_of_lt (by omega)] at this
    simp only [List.getElem?_drop]
    rw [this]; congr 1; omega

/-! ## from the fold invariant to `EdgesSound` / `EdgesComplete` -/

section Bridge
variable {data : List Byte} {saL : List Nat} {w ws minLen maxLen maxM maxLcp : Nat}
  {cbs : List Callback} {st : Array (List Edge) × Nat}

theorem edges_sound_of_inv
    (H : SegHyps (data.drop (w - ws)) saL minLen maxLen cbs) (hmax : maxLen ≤ maxM)
    (hI : FoldInv (data.drop (w - ws)) saL ws (w - (w - ws)) (data.length - w) cbs st)
    {w' n : Nat} (hw' : w ≤ w') (hn : w' + n ≤ data.length) :
    EdgesSound (data.take (w' + n)) w' ws maxM n st.1 (w' - w) := by
  intro i mx o hi hmem
  obtain ⟨a, b, c, d, lo, hi', r, e1, _⟩ := hI.prov _ mx o hmem
  obtain ⟨_, s2, _⟩ := H.sound _ _ _ e1
  have hx : w - ws + (w' - w + i + (w - (w - ws))) = w' + i := by omega
  refine ⟨a, b, by omega, ?_⟩
  intro m hm him
  apply matchOK_of_lcp a (by omega) _ (by omega) hn
  simp only [List.drop_drop] at d
  have hy : w - ws + (w' - w + i + (w - (w - ws)) - o) = w' + i - o := by omega
  rw [hx, hy] at d
  omega

theorem edges_complete_of_inv
    (H : SegHyps (data.drop (w - ws)) saL minLen maxLen cbs)
    (hml : maxLen = min maxLcp maxM)
    (hlcp : ∀ a b, a < b → b < saL.length → sufL (data.drop (w - ws)) saL a b ≤ maxLcp)
    (hI : FoldInv (data.drop (w - ws)) saL ws (w - (w - ws)) (data.length - w) cbs st)
    {w' n : Nat} (hw' : w ≤ w') (hn : w' + n ≤ data.length) :
    EdgesComplete (data.take (w' + n)) w' ws minLen maxM n st.1 (w' - w) := by
  intro i m o hi hm1 hmin hmaxM ho1 hows him hmatch
  have hl := lcp_of_matchOK hn hmatch
  obtain ⟨_, hop, _, _⟩ := hmatch
  -- positions in the text `t = data.drop (w - ws)`
  have hxe : data.drop (w' + i) = (data.drop (w - ws)).drop (w' + i - (w - ws)) := by
    rw [List.drop_drop]; congr 1; omega
  have hye : data.drop (w' + i - o) = (data.drop (w - ws)).drop (w' + i - (w - ws) - o) := by
    rw [List.drop_drop]; congr 1; omega
  rw [hxe, hye] at hl
  have htl : (data.drop (w - ws)).length = data.length - (w - ws) := by simp
  have hxlt : w' + i - (w - ws) < (data.drop (w - ws)).length := by rw [htl]; omega
  obtain ⟨rx, hrx, ex⟩ := H.rank hxlt
  obtain ⟨ry, hry, ey⟩ := H.rank (x := w' + i - (w - ws) - o) (by omega)
  have hne : rx ≠ ry := by intro e; rw [e, ey] at ex; omega
  -- the callback that holds both ranks
  have hc : m ≤ sufL (data.drop (w - ws)) saL rx ry := by unfold sufL; rw [ex, ey]; exact hl
  obtain ⟨lo, hi', hcb, hin⟩ : ∃ lo hi', (min (sufL (data.drop (w - ws)) saL rx ry) maxLen, lo, hi') ∈ cbs ∧
      lo ≤ rx ∧ rx < hi' ∧ lo ≤ ry ∧ ry < hi' := by
    rcases Nat.lt_or_gt_of_ne hne with h | h
    · obtain ⟨lo, hi', g1, g2, g3⟩ := H.complete rx ry h hry (by omega)
      exact ⟨lo, hi', g1, g2, by omega, by omega, g3⟩
    · obtain ⟨lo, hi', g1, g2, g3⟩ := H.complete ry rx h hrx (by rw [sufL_comm]; omega)
      rw [sufL_comm] at g1
      exact ⟨lo, hi', g1, by omega, g3, g2, by omega⟩
  have hcl : sufL (data.drop (w - ws)) saL rx ry ≤ maxLcp := by
    rcases Nat.lt_or_gt_of_ne hne with h | h
    · exact hlcp rx ry h hry
    · rw [sufL_comm]; exact hlcp ry rx h hrx
  obtain ⟨me, oe, g1, g2, g3⟩ := hI.compl _ lo hi' hcb rx ry hin.1 hin.2.1 hin.2.2.1 hin.2.2.2
    (by rw [ex, ey]; omega) (by rw [ex]; omega) (by rw [ex]; omega) (by rw [ex, ey]; omega)
  have hk : saL.getD rx 0 - (w - (w - ws)) = w' - w + i := by rw [ex]; omega
  rw [hk] at g1
  obtain ⟨p1, _⟩ := hI.prov _ me oe g1
  refine ⟨me, oe, g1, by omega, p1, by rw [ex, ey] at g3; omega⟩

/-- without any callback (`maxLen < minLen`) there is no match to be found either -/
theorem edges_complete_empty
    (hperm : saL.Perm (List.range (data.drop (w - ws)).length))
    (hlcp : ∀ a b, a < b → b < saL.length → sufL (data.drop (w - ws)) saL a b ≤ maxLcp)
    (hlt : min maxLcp maxM < minLen) (edges : Array (List Edge))
    {w' n : Nat} (hw' : w ≤ w') (hn : w' + n ≤ data.length) :
    EdgesComplete (data.take (w' + n)) w' ws minLen maxM n edges (w' - w) := by
  intro i m o hi hm1 hmin hmaxM ho1 hows him hmatch
  exfalso
  have hl := lcp_of_matchOK hn hmatch
  obtain ⟨_, hop, _, _⟩ := hmatch
  have hxe : data.drop (w' + i) = (data.drop (w - ws)).drop (w' + i - (w - ws)) := by
    rw [List.drop_drop]; congr 1; omega
  have hye : data.drop (w' + i - o) = (data.drop (w - ws)).drop (w' + i - (w - ws) - o) := by
    rw [List.drop_drop]; congr 1; omega
  rw [hxe, hye] at hl
  have htl : (data.drop (w - ws)).length = data.length - (w - ws) := by simp
  have hxlt : w' + i - (w - ws) < (data.drop (w - ws)).length := by rw [htl]; omega
  obtain ⟨rx, hrx, ex⟩ := perm_rank hperm hxlt
  obtain ⟨ry, hry, ey⟩ := perm_rank hperm (x := w' + i - (w - ws) - o) (by omega)
  have hne : rx ≠ ry := by intro e; rw [e, ey] at ex; omega
  have hc : m ≤ sufL (data.drop (w - ws)) saL rx ry := by unfold sufL; rw [ex, ey]; exact hl
  have hcl : sufL (data.drop (w - ws)) saL rx ry ≤ maxLcp := by
    rcases Nat.lt_or_gt_of_ne hne with h | h
    · exact hlcp rx ry h hry
    · rw [sufL_comm]; exact hlcp ry rx h hrx
  omega

end Bridge

/-! ## `computeEdges` -/

def ceT (data : List Byte) (w ws : Nat) : List Byte := data.drop (w - ws)
def ceLcp (data : List Byte) (w ws : Nat) : Array Nat :=
  lcpKasai (ceT data w ws) (saSpec (ceT data w ws)).toArray (invertSA (saSpec (ceT data w ws)).toArray)
def ceMaxLcp (data : List Byte) (w ws : Nat) : Nat := (ceLcp data w ws).foldl max 0
def ceMaxLen (data : List Byte) (w ws maxMatch : Nat) : Nat := min (ceMaxLcp data w ws) maxMatch
def ceSegs (data : List Byte) (w ws minMatch maxMatch : Nat) : Option (List Callback) :=
  segments32 (saSpec (ceT data w ws)).toArray.size (ceLcp data w ws) (minMatch : Int)
    (ceMaxLen data w ws maxMatch : Int)

theorem computeEdges_some (data : List Byte) (w ws minMatch maxMatch : Nat) (hne : data.length ≠ 0)
    {cbs : List Callback} (hseg : ceSegs data w ws minMatch maxMatch = some cbs) :
    computeEdges data w ws minMatch maxMatch =
      { edges := (cbs.foldl (edgeStep (saSpec (ceT data w ws)) ws (((w - ws : Nat) : Int) - (w : Int)))
                  (Array.replicate (data.length - w) [], 0)).1,
        start := w,
        nEdges := (cbs.foldl (edgeStep (saSpec (ceT data w ws)) ws (((w - ws : Nat) : Int) - (w : Int)))
                  (Array.replicate (data.length - w) [], 0)).2 } := by
  unfold computeEdges
  simp only [hne, if_false]
  unfold ceSegs ceMaxLen ceMaxLcp ceLcp ceT at hseg
  rw [hseg]
  rfl

theorem computeEdges_none (data : List Byte) (w ws minMatch maxMatch : Nat)
    (hseg : data.length = 0 ∨ ceSegs data w ws minMatch maxMatch = none) :
    computeEdges data w ws minMatch maxMatch =
      { edges := Array.replicate (data.length - w) [], start := w, nEdges := 0 } := by
  unfold computeEdges
  by_cases hne : data.length = 0
  · simp only [hne, if_true]
  · simp only [hne, if_false]
    rcases hseg with h | hseg
    · exact absurd h hne
    · unfold ceSegs ceMaxLen ceMaxLcp ceLcp ceT at hseg
      rw [hseg]

theorem replicate_getD_nil (K k : Nat) : (Array.replicate K ([] : List Edge)).getD k [] = [] := by
  simp only [Array.getD_eq_getD_getElem?, Array.getElem?_replicate]
  split <;> rfl

theorem segments_lt {saLen : Nat} {lcp : Array Nat} {minLen maxLen : Int} {cbs : List Callback}
    (hlt : maxLen < minLen) (h : segments saLen lcp minLen maxLen = some cbs) : cbs = [] := by
  unfold segments at h
  split at h
  · cases h
  · split at h
    · cases h
    · rw [if_pos (Or.inl hlt)] at h
      exact (Option.some.inj h).symm

theorem ceSegs_lt {data : List Byte} {w ws minMatch maxMatch : Nat} {cbs : List Callback}
    (hlt : ceMaxLen data w ws maxMatch < minMatch)
    (h : ceSegs data w ws minMatch maxMatch = some cbs) : cbs = [] := by
  unfold ceSegs segments32 at h
  split at h
  · cases h
  · exact segments_lt (by omega) h

/-- the counter is 0 only if nothing was stored -/
theorem edgeCallback_cnt (ws : Nat) (woff : Int) (m : Nat) : ∀ (desc : List Nat) (edges : Array (List Edge)) (cnt : Nat),
    cnt ≤ (edgeCallback ws woff m desc (edges, cnt)).2 ∧
    ((edgeCallback ws woff m desc (edges, cnt)).2 = cnt → (edgeCallback ws woff m desc (edges, cnt)).1 = edges)
  | [], edges, cnt => by simp [edgeCallback]
  | [a], edges, cnt => by simp [edgeCallback]
  | i :: prev :: rest, edges, cnt => by
    unfold edgeCallback
    simp only
    split
    · exact ⟨Nat.le_refl _, fun _ => rfl⟩
    · generalize (decide (i - prev > ws) || _) = skip
      cases skip with
      | true =>
        simp only [if_true]
        exact edgeCallback_cnt ws woff m (prev :: rest) edges cnt
      | false =>
        simp only [Bool.false_eq_true, if_false]
        have := edgeCallback_cnt ws woff m (prev :: rest)
          (edges.setIfInBounds ((i : Int) + woff).toNat
            (edges.getD ((i : Int) + woff).toNat [] ++ [(m, i - prev)])) (cnt + 1)
        exact ⟨by omega, fun h => by omega⟩

theorem foldl_cnt (saL : List Nat) (ws : Nat) (woff : Int) : ∀ (cbs : List Callback) (st : Array (List Edge) × Nat),
    st.2 ≤ (cbs.foldl (edgeStep saL ws woff) st).2 ∧
    ((cbs.foldl (edgeStep saL ws woff) st).2 = st.2 → (cbs.foldl (edgeStep saL ws woff) st).1 = st.1)
  | [], st => ⟨Nat.le_refl _, fun _ => rfl⟩
  | cb :: cbs, st => by
    simp only [List.foldl_cons]
    have h1 := edgeCallback_cnt ws woff cb.1 (sortedSeg saL cb.2.1 cb.2.2).reverse st.1 st.2
    have h2 := foldl_cnt saL ws woff cbs (edgeStep saL ws woff st cb)
    have e : edgeStep saL ws woff st cb =
        edgeCallback ws woff cb.1 (sortedSeg saL cb.2.1 cb.2.2).reverse (st.1, st.2) := rfl
    rw [← e] at h1
    refine ⟨by omega, fun h => ?_⟩
    rw [h2.2 (by omega), h1.2 (by omega)]

/-- `nEdges = 0` only if no edge is stored (unconditional) -/
theorem computeEdges_countOK (data : List Byte) (w ws minMatch maxMatch : Nat) :
    CountOK (computeEdges data w ws minMatch maxMatch) := by
  intro h0 k
  by_cases hne : data.length = 0
  · rw [computeEdges_none _ _ _ _ _ (Or.inl hne)]; exact replicate_getD_nil _ _
  · cases hseg : ceSegs data w ws minMatch maxMatch with
    | none => rw [computeEdges_none _ _ _ _ _ (Or.inr hseg)]; exact replicate_getD_nil _ _
    | some cbs =>
      rw [computeEdges_some _ _ _ _ _ hne hseg] at h0 ⊢
      simp only at h0 ⊢
      have := foldl_cnt (saSpec (ceT data w ws)) ws (((w - ws : Nat) : Int) - (w : Int)) cbs
        (Array.replicate (data.length - w) [], 0)
      rw [this.2 h0]
      exact replicate_getD_nil _ _

/-- The facts about the suffix array, the LCP table and `Segments` for the text
    `t = data[winStart:]` that `computeEdges` relies on (all of them theorems of the suffix-array
    topic, C09/C10):
    (H1) `saSpec t` is a permutation of the positions of `t` (`saSpec_isSuffixArray`);
    (H2) every common prefix of two suffixes is bounded by the maximum of the LCP table
         (`kasai_correct` + `lcp_range_min`);
    (H3) if `minMatch ≤ maxLen` then `Segments` returns callbacks that are exactly the LCP
         intervals, children first (`segmentsOf_some`, `C10_groups_*`). -/
structure CEHyps (data : List Byte) (w ws minMatch maxMatch : Nat) : Prop where
  perm : (saSpec (ceT data w ws)).Perm (List.range (ceT data w ws).length)
  lcp_le : ∀ a b, a < b → b < (saSpec (ceT data w ws)).length →
    sufL (ceT data w ws) (saSpec (ceT data w ws)) a b ≤ ceMaxLcp data w ws
  segs : minMatch ≤ ceMaxLen data w ws maxMatch →
    ∃ cbs, ceSegs data w ws minMatch maxMatch = some cbs ∧
      SegHyps (ceT data w ws) (saSpec (ceT data w ws)) minMatch (ceMaxLen data w ws maxMatch) cbs

theorem foldInv_init (t : List Byte) (saL : List Nat) (ws D K : Nat) :
    FoldInv t saL ws D K [] (Array.replicate K [], 0) := by
  refine ⟨by simp, ?_, ?_, fun _ k => replicate_getD_nil _ _⟩
  · intro k me oe h; rw [replicate_getD_nil] at h; simp at h
  · intro m lo hi h; simp at h

/-- the edge table in the two cases of `CEHyps` -/
theorem computeEdges_cases {data : List Byte} {w ws minMatch maxMatch : Nat}
    (h : CEHyps data w ws minMatch maxMatch) :
    (ceMaxLen data w ws maxMatch < minMatch ∧
      ∀ k, (computeEdges data w ws minMatch maxMatch).edges.getD k [] = []) ∨
    (∃ cbs st, SegHyps (ceT data w ws) (saSpec (ceT data w ws)) minMatch (ceMaxLen data w ws maxMatch) cbs ∧
      FoldInv (ceT data w ws) (saSpec (ceT data w ws)) ws (w - (w - ws)) (data.length - w) cbs st ∧
      (computeEdges data w ws minMatch maxMatch).edges = st.1) ∨
    data.length = 0 := by
  by_cases hne : data.length = 0
  · exact Or.inr (Or.inr hne)
  · by_cases hmm : minMatch ≤ ceMaxLen data w ws maxMatch
    · obtain ⟨cbs, hseg, H⟩ := h.segs hmm
      right; left
      refine ⟨cbs, _, H, ?_, by rw [computeEdges_some _ _ _ _ _ hne hseg]⟩
      exact foldInv_foldl (by omega) H cbs [] _ (by simp) (foldInv_init _ _ _ _ _)
    · left
      refine ⟨by omega, ?_⟩
      intro k
      cases hseg : ceSegs data w ws minMatch maxMatch with
      | none => rw [computeEdges_none _ _ _ _ _ (Or.inr hseg)]; exact replicate_getD_nil _ _
      | some cbs =>
        have : cbs = [] := ceSegs_lt (by omega) hseg
        subst this
        rw [computeEdges_some _ _ _ _ _ hne hseg]
        exact replicate_getD_nil _ _

/-- C11 (ii), soundness: every edge `computeEdges` stores for a block position is a genuine
    match of the buffered bytes, inside the window, for every length it is used with. -/
theorem computeEdges_sound {data : List Byte} {w ws minMatch maxMatch : Nat}
    (h : CEHyps data w ws minMatch maxMatch) {w' n : Nat} (hw' : w ≤ w') (hn : w' + n ≤ data.length) :
    EdgesSound (data.take (w' + n)) w' ws maxMatch n
      (computeEdges data w ws minMatch maxMatch).edges (w' - w) := by
  rcases computeEdges_cases h with ⟨_, he⟩ | ⟨cbs, st, H, hI, e⟩ | h0
  · intro i mx o _ hmem; rw [he] at hmem; simp at hmem
  · rw [e]
    exact edges_sound_of_inv H (Nat.min_le_right _ _) hI hw' hn
  · intro i mx o hi; omega

/-- C11 (ii), completeness: every genuine match `(m, o)` at a block position with
    `minMatch ≤ m ≤ maxMatch`, `1 ≤ o ≤ ws` and its source in the buffer is dominated by a stored
    edge `(mx ≥ m, o' ≤ o)`. -/
theorem computeEdges_complete {data : List Byte} {w ws minMatch maxMatch : Nat}
    (h : CEHyps data w ws minMatch maxMatch) {w' n : Nat} (hw' : w ≤ w') (hn : w' + n ≤ data.length) :
    EdgesComplete (data.take (w' + n)) w' ws minMatch maxMatch n
      (computeEdges data w ws minMatch maxMatch).edges (w' - w) := by
  rcases computeEdges_cases h with ⟨hlt, _⟩ | ⟨cbs, st, H, hI, e⟩ | h0
  · exact edges_complete_empty h.perm h.lcp_le hlt _ hw' hn
  · rw [e]
    exact edges_complete_of_inv H rfl h.lcp_le hI hw' hn
  · intro i m o hi; omega

#print axioms edgeCallback_spec
#print axioms computeEdges_countOK
#print axioms computeEdges_sound
#print axioms computeEdges_complete

end LZ.Sap
