/-
  LzProofs.ParseOsap — the optimizing suffix-array parser (OSAP).  Its matches are NOT
  re-verified against the bytes, so its correctness is relative to the soundness of the edge
  table (`EdgesSound`, which `computeEdges` must establish through suffix sort / LCP /
  segments).  Under that named hypothesis the block is correct:
  `shortestPath` only returns literal steps and steps written from an edge, and
  `pathToSeqs` turns such a path into sequences that satisfy the loop invariant.
-/
import LzProofs.ParseParser
namespace LZ

/-! ## paths -/

/-- a path step `(m, o)` at position `pos`: a literal run (`o = 0`) or a genuine match -/
def StepOK (p : List Byte) (ws mm mx : Nat) (pos : Nat) (e : Edge) : Prop :=
  e.2 = 0 ∨ (MatchOK p pos e.1 e.2 ∧ e.2 ≤ ws ∧ mm ≤ e.1 ∧ e.1 ≤ mx)

/-- every step of the path is a literal run or a genuine match at its position -/
def PathOK (p : List Byte) (ws mm mx : Nat) : Nat → List Edge → Prop
  | _, [] => True
  | pos, e :: rest => StepOK p ws mm mx pos e ∧ PathOK p ws mm mx (pos + e.1) rest

/-- C02 for OSAP: additionally `MatchLen ≤ MaxMatchLen` -/
def SeqWFmax (ws mm mx : Nat) (pos : Nat) (s : Seq) : Prop :=
  SeqWF ws mm pos s ∧ s.matchLen ≤ mx

def SeqGoodO (p : List Byte) (ws mm mx : Nat) (pos : Nat) (s : Seq) : Prop :=
  SeqWFmax ws mm mx pos s ∧ SeqGenuine p pos s

theorem pathToSeqs_inv (p : List Byte) (ws mm mx w : Nat) (hmm : 1 ≤ mm) :
    ∀ (path : List Edge) (i li : Nat) (seqs : List Seq) (lits : List Byte),
      PathOK p ws mm mx i path →
      LoopInv p w (SeqGoodO p ws mm mx) ({ dict := (), i := i, litIndex := li, seqs := seqs, lits := lits } : LoopSt Unit) →
      LoopInv p w (SeqGoodO p ws mm mx)
        ({ dict := (), i := (pathToSeqs p path i li seqs lits).2.2.1,
           litIndex := (pathToSeqs p path i li seqs lits).2.2.2,
           seqs := (pathToSeqs p path i li seqs lits).1,
           lits := (pathToSeqs p path i li seqs lits).2.1 } : LoopSt Unit) := by
  intro path
  induction path with
  | nil => intro i li seqs lits _ h; simpa [pathToSeqs] using h
  | cons e rest ih =>
    intro i li seqs lits hp h
    obtain ⟨m, o⟩ := e
    obtain ⟨hstep, hrest⟩ := hp
    unfold pathToSeqs
    split
    · rename_i ho
      apply ih _ _ _ _ hrest
      exact { h with li_le_i := by have := h.li_le_i; simp only at this ⊢; omega }
    · rename_i ho
      simp only []
      apply ih _ _ _ _ hrest
      rcases hstep with h0 | ⟨hm, hws, hmin, hmax⟩
      · exact absurd h0 ho
      simp only at hm hws hmin hmax
      have hli : li ≤ i := h.li_le_i
      have hsl : i ≤ p.length := by have := hm.2.2.1; omega
      have hq : ((p.drop li).take (i - li)).length = i - li := by simp; omega
      have hexp := h.exp
      have hspan := h.span
      have hlits := h.lits
      have hwle := h.w_le
      simp only at hexp hspan hlits hwle
      refine ⟨by simp only; omega, by simp, by simp only; exact hm.2.2.1, ?_, ?_, ?_, ?_, ?_⟩
      · simp only
        rw [expandSeqs_snoc _ _ _ _ _ _ hexp]
        exact expandSeqs_step p li i m o hli hm
      · simp only [seqsSpan_append, seqsSpan_cons, seqsSpan_nil]
        omega
      · simp only [litSum_append, litSum_cons, litSum_nil, List.length_append]
        omega
      · simp only
        rw [SeqsAll_append]
        refine ⟨h.all, ?_, trivial⟩
        rw [hspan, hq]
        have e : li + (i - li) = i := by omega
        refine ⟨⟨⟨hm.1, hws, ?_, hmin, rfl⟩, hmax⟩, ?_⟩
        · simp only [e]; exact hm.2.1
        · simp only [SeqGenuine, e]; exact hm
      · intro _; simp only; omega

/-! ## the shortest-path table only contains literal steps and steps taken from edges -/

/-- soundness of the edge table relative to the buffer `data`: the edges stored for buffer
    position `start + idx` are genuine matches within the limits.  This is what
    `computeEdges` has to establish (suffix sort, LCP, segments); it is the named hypothesis
    of the OSAP theorems. -/
def EdgesSound (data : List Byte) (ws mx : Nat) (o : OsapD) : Prop :=
  ∀ idx (e : Edge), e ∈ o.edges.getD idx [] →
    MatchOK data (o.start + idx) e.1 e.2 ∧ e.2 ≤ ws ∧ e.1 ≤ mx

/-- Block-relative soundness — the shape delivered by the proofs about `computeEdges`
    (`computeEdges_sound` of the OSAP edge proofs): for the block `p[w, w+n)` whose edges start
    at index `k0` of the table, every stored edge `(mx, o)` of block position `i` is a genuine
    match for every length it can be used with inside the block. -/
def EdgesSoundBlock (p : List Byte) (w ws maxM n : Nat) (edges : Array (List Edge)) (k0 : Nat) : Prop :=
  ∀ i mx o, i < n → (mx, o) ∈ edges.getD (k0 + i) [] →
    1 ≤ o ∧ o ≤ ws ∧ mx ≤ maxM ∧ ∀ m, m ≤ mx → i + m ≤ n → MatchOK p (w + i) m o

/-- entry `i` of the DP table: the last step into block position `i` -/
def EntryOK (p : List Byte) (ws mm mx w : Nat) (i : Nat) (e : Opt) : Prop :=
  1 ≤ e.m ∧ e.m ≤ i ∧ StepOK p ws mm mx (w + i - e.m) (e.m, e.o)

def DOK (p : List Byte) (ws mm mx w : Nat) (d : Array Opt) : Prop :=
  ∀ i (h : i < d.size), 1 ≤ i → EntryOK p ws mm mx w i d[i]

theorem DOK.set {p : List Byte} {ws mm mx w : Nat} {d : Array Opt} (h : DOK p ws mm mx w d)
    (j : Nat) (v : Opt) (hv : 1 ≤ j → EntryOK p ws mm mx w j v) :
    DOK p ws mm mx w (d.setIfInBounds j v) := by
  intro i hi h1
  rw [Array.size_setIfInBounds] at hi
  rw [Array.getElem_setIfInBounds hi]
  split
  · rename_i hji; subst hji; exact hv h1
  · exact h i hi h1

theorem relaxLens_ok (p : List Byte) (ws mm mx w i ci o : Nat) (hmm : 1 ≤ mm)
    (top : Nat) (hM : ∀ m, mm ≤ m → m ≤ top → StepOK p ws mm mx (w + i) (m, o)) :
    ∀ (cnt m : Nat) (d : Array Opt), mm ≤ m → (m + cnt ≤ top + 1 ∨ cnt = 0) → DOK p ws mm mx w d →
      DOK p ws mm mx w (relaxLens mm i ci o cnt m d) := by
  intro cnt
  induction cnt with
  | zero => intro m d _ _ h; simpa [relaxLens] using h
  | succ cnt ih =>
    intro m d hm hle h
    unfold relaxLens
    simp only []
    apply ih (m + 1) _ (by omega) (by omega)
    split
    · apply h.set
      intro _
      refine ⟨by simp only; omega, by simp only; omega, ?_⟩
      have e : w + (i + m) - m = w + i := by omega
      simp only [e]
      exact hM m hm (by omega)
    · exact h

theorem relaxEdges_ok (p : List Byte) (ws mm mx w i ci maxLen : Nat) (hmm : 1 ≤ mm) :
    ∀ (es : List Edge) (d : Array Opt),
      (∀ e ∈ es, ∀ m, mm ≤ m → m ≤ min e.1 maxLen → StepOK p ws mm mx (w + i) (m, e.2)) →
      DOK p ws mm mx w d → DOK p ws mm mx w (relaxEdges mm i ci maxLen es d) := by
  intro es
  induction es with
  | nil => intro d _ h; simpa [relaxEdges] using h
  | cons e rest ih =>
    intro d hE h
    obtain ⟨emx, o⟩ := e
    unfold relaxEdges
    simp only []
    apply ih
    · intro e he; exact hE e (List.mem_cons_of_mem _ he)
    · apply relaxLens_ok p ws mm mx w i ci o hmm (min emx maxLen)
        (hE (emx, o) (List.mem_cons_self ..)) _ _ _ (Nat.le_refl _) (by omega) h

theorem litStep_ok {p : List Byte} {ws mm mx w : Nat} {d : Array Opt} (h : DOK p ws mm mx w d)
    (i c : Nat) : DOK p ws mm mx w (d.setIfInBounds i ⟨1, 0, c⟩) := by
  apply h.set
  intro hi
  exact ⟨Nat.le_refl _, hi, Or.inl rfl⟩

theorem dpLoop_ok (p : List Byte) (ws mm mx w n : Nat) (hmm : 1 ≤ mm)
    (edges : Array (List Edge)) (k0 : Nat)
    (hE : ∀ i, i < n → ∀ e ∈ edges.getD (k0 + i) [], ∀ m, mm ≤ m → m ≤ min e.1 (n - i) →
      StepOK p ws mm mx (w + i) (m, e.2)) :
    ∀ (fuel i : Nat) (d : Array Opt), i + fuel ≤ n → DOK p ws mm mx w d →
      DOK p ws mm mx w (dpLoop mm n edges k0 fuel i d) := by
  intro fuel
  induction fuel with
  | zero => intro i d _ h; simpa [dpLoop] using h
  | succ fuel ih =>
    intro i d hle h
    unfold dpLoop
    simp only []
    apply ih (i + 1) _ (by omega)
    apply relaxEdges_ok p ws mm mx w i _ (n - i) hmm
    · intro e he
      exact hE i (by omega) e (by simpa using he)
    · split
      · split
        · exact litStep_ok h _ _
        · exact h
      · exact h

theorem backtrack_ok (p : List Byte) (ws mm mx w : Nat) (d : Array Opt) (hd : DOK p ws mm mx w d) :
    ∀ (fuel i : Nat) (acc : List Edge), i ≤ fuel → i < d.size →
      PathOK p ws mm mx (w + i) acc → PathOK p ws mm mx w (backtrack d fuel i acc) := by
  intro fuel
  induction fuel with
  | zero =>
    intro i acc hi _ h
    have : i = 0 := by omega
    subst this; simpa [backtrack] using h
  | succ fuel ih =>
    intro i acc hi hs h
    unfold backtrack
    split
    · rename_i h0; subst h0; simpa using h
    · rename_i h0
      have hent : EntryOK p ws mm mx w i (d.getInternal i hs) := hd i hs (by omega)
      generalize d.getInternal i hs = ent at hent ⊢
      obtain ⟨e1, e2, e3⟩ := hent
      apply ih _ _ (by omega) (by omega)
      refine ⟨?_, ?_⟩
      · have e : w + (i - ent.m) = w + i - ent.m := by omega
        rw [e]; exact e3
      · have e : w + (i - ent.m) + ent.m = w + i := by omega
        simp only [e]; exact h

theorem relaxLens_size (mm i ci o : Nat) : ∀ (cnt m : Nat) (d : Array Opt),
    (relaxLens mm i ci o cnt m d).size = d.size := by
  intro cnt
  induction cnt with
  | zero => intro m d; simp [relaxLens]
  | succ cnt ih =>
    intro m d
    unfold relaxLens
    simp only []
    rw [ih]
    split <;> simp

theorem relaxEdges_size (mm i ci maxLen : Nat) : ∀ (es : List Edge) (d : Array Opt),
    (relaxEdges mm i ci maxLen es d).size = d.size := by
  intro es
  induction es with
  | nil => intro d; simp [relaxEdges]
  | cons e rest ih =>
    intro d
    obtain ⟨emx, o⟩ := e
    unfold relaxEdges
    simp only []
    rw [ih, relaxLens_size]

theorem dpLoop_size (mm n : Nat) (edges : Array (List Edge)) (k0 : Nat) :
    ∀ (fuel i : Nat) (d : Array Opt), (dpLoop mm n edges k0 fuel i d).size = d.size := by
  intro fuel
  induction fuel with
  | zero => intro i d; simp [dpLoop]
  | succ fuel ih =>
    intro i d
    unfold dpLoop
    simp only []
    rw [ih, relaxEdges_size]
    split
    · split <;> simp
    · rfl

/-- `shortestPath` returns a path of literal steps and steps taken from (clipped) edges -/
theorem shortestPath_ok (p : List Byte) (ws mm mx w n : Nat) (hmm : 1 ≤ mm)
    (edges : Array (List Edge)) (k0 : Nat)
    (hE : ∀ i, i < n → ∀ e ∈ edges.getD (k0 + i) [], ∀ m, mm ≤ m → m ≤ min e.1 (n - i) →
      StepOK p ws mm mx (w + i) (m, e.2)) :
    PathOK p ws mm mx w (shortestPath mm n edges k0) := by
  unfold shortestPath
  simp only []
  have h0 : DOK p ws mm mx w
      ((Array.range (n+1)).map fun i => if i = 0 then (⟨0, 0, 0⟩ : Opt) else ⟨1, 0, xzCost i 0⟩) := by
    intro i hi h1
    simp only [Array.getElem_map, Array.getElem_range]
    have : ¬ i = 0 := by omega
    simp only [this, if_false]
    exact ⟨Nat.le_refl _, h1, Or.inl rfl⟩
  have hs0 : ((Array.range (n+1)).map fun i =>
      if i = 0 then (⟨0, 0, 0⟩ : Opt) else ⟨1, 0, xzCost i 0⟩).size = n + 1 := by simp
  have h1 := dpLoop_ok p ws mm mx w n hmm edges k0 hE n 0 _ (by omega) h0
  have hs1 := dpLoop_size mm n edges k0 n 0
    ((Array.range (n+1)).map fun i => if i = 0 then (⟨0, 0, 0⟩ : Opt) else ⟨1, 0, xzCost i 0⟩)
  rw [hs0] at hs1
  generalize dpLoop mm n edges k0 n 0
    ((Array.range (n+1)).map fun i => if i = 0 then (⟨0, 0, 0⟩ : Opt) else ⟨1, 0, xzCost i 0⟩) = d1 at h1 hs1 ⊢
  have h2 : DOK p ws mm mx w (if n > 0 then
      (if (d1.getD (n-1) default).c + xzCost 1 0 < (d1.getD n default).c then
        d1.setIfInBounds n ⟨1, 0, (d1.getD (n-1) default).c + xzCost 1 0⟩ else d1) else d1) := by
    split
    · split
      · exact litStep_ok h1 _ _
      · exact h1
    · exact h1
  have hs2 : (if n > 0 then
      (if (d1.getD (n-1) default).c + xzCost 1 0 < (d1.getD n default).c then
        d1.setIfInBounds n ⟨1, 0, (d1.getD (n-1) default).c + xzCost 1 0⟩ else d1) else d1).size = n + 1 := by
    split
    · split <;> simp [hs1]
    · exact hs1
  exact backtrack_ok p ws mm mx w _ h2 n n [] (Nat.le_refl _) (by rw [hs2]; omega) trivial

/-! ## `Parse` of OSAP -/

namespace Parser

/-- the edge table the next `Parse` uses: recomputed when the block leaves its range -/
def osapEdges (s : Parser) (o : OsapD) : OsapD :=
  if s.buf.w + s.blockN > o.start + o.edges.size then
    computeEdges s.buf.data s.buf.w s.buf.cfg.windowSize s.minMatch s.cfg.maxMatchLen.toNat
  else o

theorem parse_osap (s : Parser) (flags : Nat) (o : OsapD) (hd : s.dict = .osap o)
    (hn : s.blockN ≠ 0) :
    s.parse flags =
      (let w := s.buf.w
       let n := s.blockN
       let p := s.blockPrefix
       let o' := s.osapEdges o
       if o'.nEdges = 0 then
         ({ s with buf := { s.buf with w := w + n }, dict := .osap o' }, n, .ok,
           ⟨[], (s.buf.data.drop w).take n⟩)
       else
         let r := pathToSeqs p (shortestPath s.minMatch n o'.edges (w - o'.start)) w w [] []
         let fb := finishBlock p flags
           ({ dict := (), i := r.2.2.1, litIndex := r.2.2.2, seqs := r.1, lits := r.2.1 } : LoopSt Unit)
         ({ s with buf := { s.buf with w := fb.1 }, dict := .osap o' }, fb.1 - w, .ok, fb.2)) := by
  unfold parse
  simp only [hn, if_false, hd, ne_eq, not_true_eq_false, false_and]
  rfl

theorem computeEdges_start (data : List Byte) (w ws mm mx : Nat) :
    (computeEdges data w ws mm mx).start = w := by
  unfold computeEdges
  simp only []
  split
  · rfl
  · split <;> rfl

theorem edgeCallback_size (ws : Nat) (w : Int) (m : Nat) (l : List Nat)
    (acc : Array (List Edge) × Nat) : (edgeCallback ws w m l acc).1.size = acc.1.size := by
  fun_induction edgeCallback ws w m l acc with
  | case1 => rfl
  | case2 _ _ _ _ _ _ _ _ _ _ _ ih => exact ih
  | case3 _ _ _ _ _ _ _ _ _ _ _ ih => rw [ih]; simp
  | case4 => rfl

theorem foldl_size_inv {α β : Type} (f : Array α × Nat → β → Array α × Nat)
    (hf : ∀ acc cb, (f acc cb).1.size = acc.1.size) :
    ∀ (cbs : List β) (st : Array α × Nat), (cbs.foldl f st).1.size = st.1.size := by
  intro cbs
  induction cbs with
  | nil => intro st; rfl
  | cons cb cbs ih => intro st; rw [List.foldl_cons, ih, hf]

theorem computeEdges_size (data : List Byte) (w ws mm mx : Nat) :
    (computeEdges data w ws mm mx).edges.size = data.length - w := by
  unfold computeEdges
  simp only []
  split
  · simp
  · split
    · simp
    · simp only
      rw [foldl_size_inv]
      · simp
      · intro acc cb
        obtain ⟨m, lo, hi⟩ := cb
        exact edgeCallback_size _ _ _ _ _

/-- per-sequence guarantee of OSAP -/
def seqGoodO (s : Parser) : Nat → Seq → Prop :=
  SeqGoodO s.blockPrefix s.buf.cfg.windowSize s.minMatch s.cfg.maxMatchLen.toNat

/-- **OSAP, relative to the (block-relative) soundness of the edge table** the call uses. -/
theorem parse_osap_ok_block (s : Parser) (flags : Nat) (o : OsapD) (hd : s.dict = .osap o)
    (hw : s.buf.w ≤ s.buf.data.length) (hn : s.blockN ≠ 0) (hmm : 1 ≤ s.minMatch)
    (hS : EdgesSoundBlock s.blockPrefix s.buf.w s.buf.cfg.windowSize s.cfg.maxMatchLen.toNat
      s.blockN (s.osapEdges o).edges (s.buf.w - (s.osapEdges o).start)) :
    ∃ s' n blk, s.parse flags = (s', n, .ok, blk) ∧ ParseOK s flags s.seqGoodO s' n blk ∧
      s'.dict = .osap (s.osapEdges o) := by
  have hl := s.blockPrefix_length hw
  have hwp : s.buf.w ≤ s.blockPrefix.length := by omega
  rw [parse_osap s flags o hd hn]
  simp only []
  split
  · -- no edges at all: one literal block
    refine ⟨_, _, _, rfl, ?_, rfl⟩
    have hb := finishBlock_ok s.blockPrefix s.buf.w flags s.seqGoodO _
      (LoopInv.init s.blockPrefix s.buf.w s.seqGoodO () hwp)
    have hfb : finishBlock s.blockPrefix flags
        ({ dict := (), i := s.buf.w, litIndex := s.buf.w, seqs := [], lits := [] } : LoopSt Unit)
        = (s.buf.w + s.blockN, ⟨[], (s.buf.data.drop s.buf.w).take s.blockN⟩) := by
      unfold finishBlock
      simp only [ne_eq, not_true_eq_false, and_false, if_false, List.nil_append, hl]
      congr 2
      unfold blockPrefix
      rw [List.drop_take]; congr 1; omega
    rw [hfb] at hb
    have := ParseOK.of_block s flags s.seqGoodO
      { s with buf := { s.buf with w := s.buf.w + s.blockN }, dict := .osap (s.osapEdges o) }
      _ _ hw hn hb rfl rfl rfl
    have e : s.buf.w + s.blockN - s.buf.w = s.blockN := by omega
    rw [e] at this; exact this
  · refine ⟨_, _, _, rfl, ?_, rfl⟩
    refine ParseOK.of_block s flags _ _ _ _ hw hn ?_ ?_ ?_ ?_ <;> try rfl
    apply finishBlock_ok
    apply pathToSeqs_inv _ _ _ _ _ hmm _ _ _ _ _ ?_ (LoopInv.init _ _ _ () hwp)
    apply shortestPath_ok _ _ _ _ _ _ hmm
    intro i hi e he m hm1 hm2
    right
    obtain ⟨h1, h2, h3, h4⟩ := hS i e.1 e.2 hi he
    exact ⟨h4 m (by omega) (by omega), h2, hm1, by simp only; omega⟩

/-- a table that is sound for the whole buffer is sound for the next block -/
theorem EdgesSound.block {s : Parser} {o : OsapD}
    (hS : EdgesSound s.buf.data s.buf.cfg.windowSize s.cfg.maxMatchLen.toNat o)
    (hst : o.start ≤ s.buf.w) :
    EdgesSoundBlock s.blockPrefix s.buf.w s.buf.cfg.windowSize s.cfg.maxMatchLen.toNat
      s.blockN o.edges (s.buf.w - o.start) := by
  intro i mx off hi he
  obtain ⟨h1, h2, h3⟩ := hS _ _ he
  have e1 : o.start + (s.buf.w - o.start + i) = s.buf.w + i := by omega
  rw [e1] at h1
  refine ⟨h1.1, h2, h3, ?_⟩
  intro m hm hle
  unfold blockPrefix
  exact (h1.mono_len m hm).take _ (by omega)

/-- **OSAP, relative to the soundness of the edge table** (buffer-wide form). -/
theorem parse_osap_ok (s : Parser) (flags : Nat) (o : OsapD) (hd : s.dict = .osap o)
    (hw : s.buf.w ≤ s.buf.data.length) (hn : s.blockN ≠ 0) (hmm : 1 ≤ s.minMatch)
    (hS : EdgesSound s.buf.data s.buf.cfg.windowSize s.cfg.maxMatchLen.toNat (s.osapEdges o))
    (hst : (s.osapEdges o).start ≤ s.buf.w) :
    ∃ s' n blk, s.parse flags = (s', n, .ok, blk) ∧ ParseOK s flags s.seqGoodO s' n blk ∧
      s'.dict = .osap (s.osapEdges o) :=
  parse_osap_ok_block s flags o hd hw hn hmm (EdgesSound.block hS hst)

end Parser

end LZ
