/-
  LzProofs.ParseParser — `Parser.parse` and `Parser.parseNil` (C01, C02, C03, C14, C19 at the
  level of one call on an arbitrary parser state).
-/
import LzProofs.ParseLoop
namespace LZ
namespace Parser

/-- the buffer up to the end of the next block -/
def blockPrefix (s : Parser) : List Byte := s.buf.data.take (s.buf.w + s.blockN)

/-- `InputLen` of the dictionary (0 for the suffix-array parsers) -/
def dictInputLen (s : Parser) : Nat :=
  match s.dict with
  | .single h => h.inputLen | .double d => d.h1.inputLen | .bucket bk => bk.inputLen
  | _ => 0

/-- the slice `Data[:inputEnd+7]` of the hash parsers is within the capacity
    (negation of the panic guard of the model) -/
def MarginOK (s : Parser) : Prop :=
  ¬ (s.dictInputLen ≠ 0 ∧
      (s.buf.cap : Int) < (s.blockPrefix.length : Int) - s.dictInputLen + 1 + Facts.margin)

theorem parse_empty (s : Parser) (flags : Nat) (h : s.blockN = 0) :
    s.parse flags = (s, 0, .empty, ⟨[], []⟩) := by
  unfold parse; simp [h]

theorem parse_single (s : Parser) (flags : Nat) (h : HashT) (hd : s.dict = .single h)
    (hn : s.blockN ≠ 0) (hm : s.MarginOK) :
    s.parse flags =
      (let w := s.buf.w
       let p := s.blockPrefix
       let h1 := processSegment1 h s.buf.data ((w : Int) - h.inputLen + 1) w
       let inputEnd := p.length + 1 - h1.inputLen
       let r := runGreedy ⟨hpProbe s.buf.cfg.windowSize s.minMatch inputEnd (s.kind == .BHP)⟩ h1 p w inputEnd flags
       ({ s with buf := { s.buf with w := r.2.1 }, dict := .single r.1 }, r.2.1 - w, .ok, r.2.2.1)) := by
  unfold MarginOK dictInputLen blockPrefix at hm
  unfold parse
  simp only [hn, if_false, hd] at hm ⊢
  simp only [hm, if_false]
  rfl

theorem parse_double (s : Parser) (flags : Nat) (d : Hash2) (hd : s.dict = .double d)
    (hn : s.blockN ≠ 0) (hm : s.MarginOK) :
    s.parse flags =
      (let w := s.buf.w
       let p := s.blockPrefix
       let hh := processSegment2 d.h1 d.h2 s.buf.data ((w : Int) - d.h2.inputLen + 1) w
       let e1 := p.length + 1 - hh.1.inputLen
       let e2 := p.length + 1 - hh.2.inputLen
       let r := runGreedy ⟨dhpProbe s.buf.cfg.windowSize s.minMatch e1 e2 (s.kind == .BDHP)⟩
         ⟨hh.1, hh.2⟩ p w e1 flags
       ({ s with buf := { s.buf with w := r.2.1 }, dict := .double r.1 }, r.2.1 - w, .ok, r.2.2.1)) := by
  unfold MarginOK dictInputLen blockPrefix at hm
  unfold parse
  simp only [hn, if_false, hd] at hm ⊢
  simp only [hm, if_false]
  rfl

theorem parse_bucket (s : Parser) (flags : Nat) (bk : BucketT) (hd : s.dict = .bucket bk)
    (hn : s.blockN ≠ 0) (hm : s.MarginOK) :
    s.parse flags =
      (let w := s.buf.w
       let p := s.blockPrefix
       let b1 := processSegmentB bk s.buf.data ((w : Int) - bk.inputLen + 1) w
       let inputEnd := p.length + 1 - b1.inputLen
       let r := runGreedy ⟨bupProbe s.buf.cfg.windowSize s.minMatch inputEnd⟩ b1 p w inputEnd flags
       ({ s with buf := { s.buf with w := r.2.1 }, dict := .bucket r.1 }, r.2.1 - w, .ok, r.2.2.1)) := by
  unfold MarginOK dictInputLen blockPrefix at hm
  unfold parse
  simp only [hn, if_false, hd] at hm ⊢
  simp only [hm, if_false]
  rfl

theorem parse_gsap (s : Parser) (flags : Nat) (g : GsapD) (hd : s.dict = .gsap g)
    (hn : s.blockN ≠ 0) :
    s.parse flags =
      (let w := s.buf.w
       let p := s.blockPrefix
       let g1 := if w + s.blockN > g.sa.size then gsapSort s.buf.data w else g
       let r := runGreedy ⟨gsapProbe s.buf.cfg.windowSize s.minMatch⟩ g1 p w p.length flags
       let g' := if flags % 2 = 1 ∧ r.2.2.1.seqs ≠ [] ∧ r.2.2.2 < p.length then { r.1 with sa := #[] } else r.1
       ({ s with buf := { s.buf with w := r.2.1 }, dict := .gsap g' }, r.2.1 - w, .ok, r.2.2.1)) := by
  unfold parse
  simp only [hn, if_false, hd, ne_eq, not_true_eq_false, false_and]
  rfl

/-- Result of a successful `Parse(&blk, flags)` on the state `s`: new state `s'`, `n`, block. -/
structure ParseOK (s : Parser) (flags : Nat) (Q : Nat → Seq → Prop) (s' : Parser) (n : Nat)
    (blk : Block) : Prop where
  kind : s'.kind = s.kind
  cfg : s'.cfg = s.cfg
  /-- only `W` moves, by exactly `n` -/
  buf : s'.buf = { s.buf with w := s.buf.w + n }
  n_pos : 1 ≤ n
  /-- `n ≤ min (unparsed) BlockSize` -/
  n_le : n ≤ s.blockN
  block : BlockOK s.blockPrefix s.buf.w flags Q (s.buf.w + n) blk

theorem blockN_le (s : Parser) : s.blockN ≤ s.buf.data.length - s.buf.w ∧ s.blockN ≤ s.buf.cfg.blockSize := by
  unfold blockN; omega

theorem blockPrefix_length (s : Parser) (hw : s.buf.w ≤ s.buf.data.length) :
    s.blockPrefix.length = s.buf.w + s.blockN := by
  have := s.blockN_le
  unfold blockPrefix; simp; omega

theorem ParseOK.of_block (s : Parser) (flags : Nat) (Q : Nat → Seq → Prop) (s' : Parser) (w' : Nat)
    (blk : Block) (hw : s.buf.w ≤ s.buf.data.length) (hn : s.blockN ≠ 0)
    (hb : BlockOK s.blockPrefix s.buf.w flags Q w' blk)
    (hk : s'.kind = s.kind) (hc : s'.cfg = s.cfg) (hbuf : s'.buf = { s.buf with w := w' }) :
    ParseOK s flags Q s' (w' - s.buf.w) blk := by
  have hl := s.blockPrefix_length hw
  have h1 := hb.le
  have h2 := hb.le_len
  have h3 := hb.prog (by omega)
  have e : s.buf.w + (w' - s.buf.w) = w' := by omega
  exact ⟨hk, hc, by rw [hbuf, e], by omega, by omega, by rw [e]; exact hb⟩

/-- does this parser state extend matches backwards (BHP, BDHP)? -/
def backward (s : Parser) : Bool :=
  match s.dict with
  | .single _ => s.kind == .BHP
  | .double _ => s.kind == .BDHP
  | _ => false

/-- the per-sequence guarantee of `Parse` for the state `s` (positions are buffer positions) -/
def seqGood (s : Parser) : Nat → Seq → Prop :=
  SeqGood s.blockPrefix s.buf.cfg.windowSize s.minMatch s.backward

/-- **Parse on an arbitrary state of a greedy parser** (HP, BHP, DHP, BDHP, BUP, GSAP):
    the search structure `s.dict` is completely arbitrary. -/
theorem parse_greedy_ok (s : Parser) (flags : Nat)
    (hw : s.buf.w ≤ s.buf.data.length) (hn : s.blockN ≠ 0) (hmm : 1 ≤ s.minMatch)
    (hm : s.MarginOK) (hnot : ∀ o, s.dict ≠ .osap o) :
    ∃ s' n blk, s.parse flags = (s', n, .ok, blk) ∧ ParseOK s flags s.seqGood s' n blk ∧
      (∀ o, s'.dict ≠ .osap o) := by
  have hl := s.blockPrefix_length hw
  have hwp : s.buf.w ≤ s.blockPrefix.length := by omega
  cases hd : s.dict with
  | single h =>
    rw [parse_single s flags h hd hn hm]
    refine ⟨_, _, _, rfl, ?_, fun o h => by simp at h⟩
    refine ParseOK.of_block s flags _ _ _ _ hw hn ?_ ?_ ?_ ?_ <;> try rfl
    have hv := hpProbe_verifying s.buf.cfg.windowSize s.minMatch
      (s.blockPrefix.length + 1 -
        (processSegment1 h s.buf.data ((s.buf.w : Int) - h.inputLen + 1) s.buf.w).inputLen)
      (s.kind == .BHP) s.blockPrefix
    have : s.seqGood = SeqGood s.blockPrefix s.buf.cfg.windowSize s.minMatch (s.kind == .BHP) := by
      unfold seqGood backward; rw [hd]
    rw [this]
    exact runGreedy_ok _ _ _ _ _ _ _ _ _ (hv.probeOK hmm) (hv.probeSeq hmm) hwp
  | double d =>
    rw [parse_double s flags d hd hn hm]
    refine ⟨_, _, _, rfl, ?_, fun o h => by simp at h⟩
    refine ParseOK.of_block s flags _ _ _ _ hw hn ?_ ?_ ?_ ?_ <;> try rfl
    have : s.seqGood = SeqGood s.blockPrefix s.buf.cfg.windowSize s.minMatch (s.kind == .BDHP) := by
      unfold seqGood backward; rw [hd]
    rw [this]
    have hv := dhpProbe_verifying s.buf.cfg.windowSize s.minMatch
      (s.blockPrefix.length + 1 -
        (processSegment2 d.h1 d.h2 s.buf.data ((s.buf.w : Int) - d.h2.inputLen + 1) s.buf.w).1.inputLen)
      (s.blockPrefix.length + 1 -
        (processSegment2 d.h1 d.h2 s.buf.data ((s.buf.w : Int) - d.h2.inputLen + 1) s.buf.w).2.inputLen)
      (s.kind == .BDHP) s.blockPrefix
    exact runGreedy_ok _ _ _ _ _ _ _ _ _ (hv.probeOK hmm) (hv.probeSeq hmm) hwp
  | bucket bk =>
    rw [parse_bucket s flags bk hd hn hm]
    refine ⟨_, _, _, rfl, ?_, fun o h => by simp at h⟩
    refine ParseOK.of_block s flags _ _ _ _ hw hn ?_ ?_ ?_ ?_ <;> try rfl
    have : s.seqGood = SeqGood s.blockPrefix s.buf.cfg.windowSize s.minMatch false := by
      unfold seqGood backward; rw [hd]
    rw [this]
    have hv := bupProbe_verifying s.buf.cfg.windowSize s.minMatch
      (s.blockPrefix.length + 1 -
        (processSegmentB bk s.buf.data ((s.buf.w : Int) - bk.inputLen + 1) s.buf.w).inputLen)
      hmm s.blockPrefix
    exact runGreedy_ok _ _ _ _ _ _ _ _ _ (hv.probeOK hmm) (hv.probeSeq hmm) hwp
  | gsap g =>
    rw [parse_gsap s flags g hd hn]
    refine ⟨_, _, _, rfl, ?_, fun o h => by simp at h⟩
    refine ParseOK.of_block s flags _ _ _ _ hw hn ?_ ?_ ?_ ?_ <;> try rfl
    have : s.seqGood = SeqGood s.blockPrefix s.buf.cfg.windowSize s.minMatch false := by
      unfold seqGood backward; rw [hd]
    rw [this]
    have hv := gsapProbe_verifying s.buf.cfg.windowSize s.minMatch hmm s.blockPrefix
    exact runGreedy_ok _ _ _ _ _ _ _ _ _ (hv.probeOK hmm) (hv.probeSeq hmm) hwp
  | osap o => exact absurd hd (hnot o)

/-! ### consequences stated on the buffer contents -/

theorem blockPrefix_take (s : Parser) (x : Nat) (hx : x ≤ s.buf.w + s.blockN) :
    s.blockPrefix.take x = s.buf.data.take x := by
  unfold blockPrefix; rw [List.take_take]; congr 1; omega

/-- C01 for one call: the block expands, on top of the bytes before `W`, to the bytes up to
    the new `W` -/
theorem ParseOK.roundtrip {s : Parser} {flags : Nat} {Q : Nat → Seq → Prop} {s' : Parser} {n : Nat}
    {blk : Block} (h : ParseOK s flags Q s' n blk) :
    expand (s.buf.data.take s.buf.w) blk = some (s.buf.data.take (s.buf.w + n)) := by
  have := h.block.roundtrip
  have hn := h.n_le
  rwa [blockPrefix_take s _ (by omega), blockPrefix_take s _ (by omega)] at this

theorem ParseOK.w_le {s : Parser} {flags : Nat} {Q : Nat → Seq → Prop} {s' : Parser} {n : Nat}
    {blk : Block} (h : ParseOK s flags Q s' n blk) (hw : s.buf.w ≤ s.buf.data.length) :
    s.buf.w + n ≤ s.buf.data.length := by
  have := h.n_le; have := s.blockN_le; omega

theorem blockN_eq_zero_iff (s : Parser) (hw : s.buf.w ≤ s.buf.data.length)
    (hbs : 1 ≤ s.buf.cfg.blockSize) : s.blockN = 0 ↔ s.buf.w = s.buf.data.length := by
  unfold blockN; omega

/-! ### `Parse(nil)` (C14) -/

theorem parseNil_empty (s : Parser) (h : s.blockN = 0) : s.parseNil = (s, 0, .empty) := by
  unfold parseNil; simp [h]

theorem parseNil_ok (s : Parser) (h : s.blockN ≠ 0) :
    ∃ s', s.parseNil = (s', s.blockN, .ok) ∧ s'.kind = s.kind ∧ s'.cfg = s.cfg ∧
      s'.buf = { s.buf with w := s.buf.w + s.blockN } := by
  unfold parseNil
  simp only [h, if_false]
  exact ⟨_, rfl, rfl, rfl, rfl⟩

theorem parseNil_buf (s : Parser) :
    s.parseNil.1.buf = { s.buf with w := s.buf.w + s.blockN } := by
  by_cases h : s.blockN = 0
  · rw [parseNil_empty s h]; simp [h]
  · obtain ⟨s', h1, -, -, h2⟩ := parseNil_ok s h
    rw [h1]; exact h2

/-- `k` successive `Parse(nil)` calls -/
def nilIter : Nat → Parser → Parser
  | 0, s => s
  | k+1, s => nilIter k s.parseNil.1

theorem nilIter_buf (k : Nat) (s : Parser) (hw : s.buf.w ≤ s.buf.data.length) :
    (nilIter k s).buf =
      { s.buf with w := min s.buf.data.length (s.buf.w + k * s.buf.cfg.blockSize) } := by
  induction k generalizing s with
  | zero =>
    simp only [nilIter, Nat.zero_mul, Nat.add_zero]
    have : min s.buf.data.length s.buf.w = s.buf.w := by omega
    rw [this]
  | succ k ih =>
    have hb := parseNil_buf s
    have hN := s.blockN_le
    have hN' : s.blockN = min (s.buf.data.length - s.buf.w) s.buf.cfg.blockSize := rfl
    simp only [nilIter]
    rw [ih s.parseNil.1 (by rw [hb]; simp only; omega), hb]
    simp only [Nat.succ_mul]
    congr 1
    generalize k * s.buf.cfg.blockSize = x
    omega

theorem nilIter_blockN (k : Nat) (s : Parser) (hw : s.buf.w ≤ s.buf.data.length) :
    (nilIter k s).blockN =
      min (s.buf.data.length - s.buf.w - k * s.buf.cfg.blockSize) s.buf.cfg.blockSize := by
  unfold blockN
  rw [nilIter_buf k s hw]
  simp only
  omega

theorem ceilDiv_lt_iff (k u bs : Nat) (hbs : 1 ≤ bs) : k < (u + bs - 1) / bs ↔ k * bs < u := by
  rw [show (k < (u + bs - 1) / bs) = (k + 1 ≤ (u + bs - 1) / bs) from rfl,
    Nat.le_div_iff_mul_le (by omega), Nat.succ_mul]
  omega

/-- repeated `Parse(nil)` drains the buffer: with `u` unparsed bytes and block size `bs`
    exactly `⌈u / bs⌉` calls succeed (each consuming `min bs (rest)`), then `ErrEmptyBuffer` -/
theorem nilIter_drains (s : Parser) (hw : s.buf.w ≤ s.buf.data.length)
    (hbs : 1 ≤ s.buf.cfg.blockSize) :
    let bs := s.buf.cfg.blockSize
    let u := s.buf.data.length - s.buf.w
    let r := (u + bs - 1) / bs
    (∀ k, k < r → ∃ s', (nilIter k s).parseNil = (s', min bs (u - k * bs), .ok)) ∧
    (∀ k, r ≤ k → (nilIter k s).parseNil = (nilIter k s, 0, .empty) ∧
      (nilIter k s).buf = { s.buf with w := s.buf.data.length }) := by
  intro bs u r
  constructor
  · intro k hk
    have hk' := (ceilDiv_lt_iff k u bs hbs).mp hk
    have hN := nilIter_blockN k s hw
    have hne : (nilIter k s).blockN ≠ 0 := by
      rw [hN]; show min (u - k * bs) bs ≠ 0; omega
    obtain ⟨s', h1, -⟩ := parseNil_ok _ hne
    refine ⟨s', ?_⟩
    rw [h1, hN]
    show (s', min (u - k * bs) bs, Err.ok) = _
    rw [Nat.min_comm]
  · intro k hk
    have hk' : ¬ k * bs < u := fun h => by
      have := (ceilDiv_lt_iff k u bs hbs).mpr h; omega
    have hN := nilIter_blockN k s hw
    have h0 : (nilIter k s).blockN = 0 := by
      rw [hN]; show min (u - k * bs) bs = 0; omega
    refine ⟨parseNil_empty _ h0, ?_⟩
    rw [nilIter_buf k s hw]
    have : min s.buf.data.length (s.buf.w + k * bs) = s.buf.data.length := by omega
    show ({ s.buf with w := min s.buf.data.length (s.buf.w + k * bs) } : PBuf) = _
    rw [this]

/-! ### a packaged invariant for clients (Wrap) -/

/-- static well-formedness of a greedy parser state: nothing about the search structure -/
def GreedyWF (s : Parser) : Prop :=
  1 ≤ s.minMatch ∧ 1 ≤ s.buf.cfg.blockSize ∧ ∀ o, s.dict ≠ .osap o

/-- the capacity invariant of `ParserBuffer` implies that the margin guard never fires -/
theorem marginOK_of_cap (s : Parser)
    (h : s.buf.data = [] ∨ s.buf.data.length + Facts.margin ≤ s.buf.cap) (hn : s.blockN ≠ 0) :
    s.MarginOK := by
  have hN := s.blockN_le
  have hne : s.buf.data ≠ [] := by
    intro h0; rw [h0] at hN; simp at hN; omega
  have hcap : s.buf.data.length + Facts.margin ≤ s.buf.cap := by
    rcases h with h | h
    · exact absurd h hne
    · exact h
  intro ⟨h1, h2⟩
  have hp : s.blockPrefix.length ≤ s.buf.data.length := by
    unfold blockPrefix; simp; omega
  have : 1 ≤ s.dictInputLen := by omega
  omega

theorem parse_progress (s : Parser) (flags : Nat) (hI : s.GreedyWF)
    (hw : s.buf.w ≤ s.buf.data.length)
    (hcap : s.buf.data = [] ∨ s.buf.data.length + Facts.margin ≤ s.buf.cap)
    (hlt : s.buf.w < s.buf.data.length) :
    s.buf.w < (s.parse flags).1.buf.w ∧ (s.parse flags).1.buf.w ≤ s.buf.data.length := by
  obtain ⟨hmm, hbs, hnot⟩ := hI
  have hn : s.blockN ≠ 0 := by
    rw [ne_eq, blockN_eq_zero_iff s hw hbs]; omega
  obtain ⟨s', n, blk, hp, hok, -⟩ :=
    parse_greedy_ok s flags hw hn hmm (marginOK_of_cap s hcap hn) hnot
  rw [hp]
  have h1 := hok.n_pos
  have h2 := hok.w_le hw
  simp only [hok.buf]
  omega

theorem GreedyWF.parse {s : Parser} (flags : Nat) (hI : s.GreedyWF)
    (hw : s.buf.w ≤ s.buf.data.length)
    (hcap : s.buf.data = [] ∨ s.buf.data.length + Facts.margin ≤ s.buf.cap) :
    (s.parse flags).1.GreedyWF := by
  by_cases hn : s.blockN = 0
  · rw [parse_empty s flags hn]; exact hI
  · obtain ⟨hmm, hbs, hnot⟩ := hI
    obtain ⟨s', n, blk, hp, hok, hd⟩ :=
      parse_greedy_ok s flags hw hn hmm (marginOK_of_cap s hcap hn) hnot
    rw [hp]
    refine ⟨?_, ?_, hd⟩
    · unfold minMatch; rw [hok.kind, hok.cfg]; exact hmm
    · simp only [hok.buf]; exact hbs

end Parser
end LZ
