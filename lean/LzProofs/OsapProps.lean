/-
  LzProofs.OsapProps — C11: from the path of `shortestPath` to the emitted block
  (`pathToSeqs`, the `.osap` branch of `Parser.parse`) and from stored edges to the LZ77
  parses of the block bytes.
-/
import LzProofs.DpProps
import LzModel.Parser
namespace LZ.Sap

/-! ## cost of a block -/

/-- `Σ XZCost(MatchLen, Offset)` over the sequences -/
def seqsCost (seqs : List Seq) : Nat := (seqs.map fun s => xzCost s.matchLen s.offset).sum

/-- cost of a block: `XZCost` per match and 9 bits per literal byte -/
def blockCost (b : Block) : Nat := seqsCost b.seqs + 9 * b.lits.length

@[simp] theorem seqsCost_nil : seqsCost [] = 0 := rfl
theorem seqsCost_append (a b : List Seq) : seqsCost (a ++ b) = seqsCost a + seqsCost b := by
  simp [seqsCost]

/-- A4: `pathToSeqs` preserves the cost: sequences, collected literals and the literal bytes
    still pending (`i - li`) together cost what the path costs. -/
theorem cost_pathToSeqs (p : List Byte) : ∀ (π : List Edge) (i li : Nat) (seqs : List Seq) (lits : List Byte),
    li ≤ i → i + pathLen π ≤ p.length →
    (pathToSeqs p π i li seqs lits).2.2.1 = i + pathLen π ∧
    (pathToSeqs p π i li seqs lits).2.2.2 ≤ i + pathLen π ∧
    seqsCost (pathToSeqs p π i li seqs lits).1 + 9 * (pathToSeqs p π i li seqs lits).2.1.length
        + 9 * (i + pathLen π - (pathToSeqs p π i li seqs lits).2.2.2)
      = seqsCost seqs + 9 * lits.length + 9 * (i - li) + pathCost π := by
  intro π
  induction π with
  | nil =>
    intro i li seqs lits h1 h2
    simp [pathToSeqs, h1]
  | cons e r ih =>
    intro i li seqs lits h1 h2
    obtain ⟨m, o⟩ := e
    simp only [pathLen_cons] at h2
    by_cases ho : o = 0
    · subst ho
      have hstep : pathToSeqs p ((m, 0) :: r) i li seqs lits = pathToSeqs p r (i + m) li seqs lits := by
        simp [pathToSeqs]
      rw [hstep]
      obtain ⟨a, b, c⟩ := ih (i + m) li seqs lits (by omega) (by omega)
      simp only [pathLen_cons, pathCost_cons, xzCost_zero_offset]
      refine ⟨by omega, by omega, ?_⟩
      have e1 : i + (m + pathLen r) = i + m + pathLen r := by omega
      rw [e1, c]; omega
    · have hstep : pathToSeqs p ((m, o) :: r) i li seqs lits =
          pathToSeqs p r (i + m) (i + m)
            (seqs ++ [{ litLen := ((p.drop li).take (i - li)).length, matchLen := m, offset := o }])
            (lits ++ (p.drop li).take (i - li)) := by
        simp [pathToSeqs, ho]
      rw [hstep]
      obtain ⟨a, b, c⟩ := ih (i + m) (i + m)
        (seqs ++ [{ litLen := ((p.drop li).take (i - li)).length, matchLen := m, offset := o }])
        (lits ++ (p.drop li).take (i - li)) (Nat.le_refl _) (by omega)
      simp only [pathLen_cons, pathCost_cons]
      refine ⟨by omega, by omega, ?_⟩
      have e1 : i + (m + pathLen r) = i + m + pathLen r := by omega
      have hq : ((p.drop li).take (i - li)).length = i - li := by
        simp [List.length_take, List.length_drop]; omega
      rw [e1, c, seqsCost_append, List.length_append, hq]
      simp [seqsCost]; omega

/-! ## the `.osap` branch of `Parser.parse` -/

/-- the edges the `.osap` branch works with: recomputed if the block is not covered by the
    stored ones -/
def osapEdges (s : Parser) (o : OsapD) : OsapD :=
  if s.buf.w + s.blockN > o.start + o.edges.size then
    computeEdges s.buf.data s.buf.w s.buf.cfg.windowSize s.minMatch s.cfg.maxMatchLen.toNat
  else o

/-- the path the `.osap` branch emits -/
def osapPath (s : Parser) (o : OsapD) : List Edge :=
  shortestPath s.minMatch s.blockN (osapEdges s o).edges (s.buf.w - (osapEdges s o).start)

theorem parse_osap_block (s : Parser) (o : OsapD) (hd : s.dict = .osap o) (flags : Nat)
    (hn : s.blockN ≠ 0) (hf : flags % 2 = 0) :
    (s.parse flags).2.2.2 =
      if (osapEdges s o).nEdges = 0 then ⟨[], (s.buf.data.drop s.buf.w).take s.blockN⟩
      else
        let p := s.buf.data.take (s.buf.w + s.blockN)
        let r := pathToSeqs p (osapPath s o) s.buf.w s.buf.w [] []
        ⟨r.1, r.2.1 ++ p.drop r.2.2.2⟩ := by
  unfold Parser.parse
  simp only [hn, if_false, hd]
  have hf' : ¬ (flags % 2 = 1) := by omega
  simp only [ne_eq, not_true_eq_false, false_and, if_false, hf', osapEdges, osapPath]
  split <;> split <;> first | rfl | contradiction

theorem blockN_le (s : Parser) (hn : s.blockN ≠ 0) : s.buf.w + s.blockN ≤ s.buf.data.length := by
  unfold Parser.blockN at *; omega

/-- A4 at block level: the block emitted with flags 0 costs what the path costs (or `9 n` when
    there is no edge at all and the block is emitted as literals). -/
theorem osap_block_cost (s : Parser) (o : OsapD) (hd : s.dict = .osap o) (flags : Nat)
    (hn : s.blockN ≠ 0) (hf : flags % 2 = 0) :
    blockCost (s.parse flags).2.2.2 =
      if (osapEdges s o).nEdges = 0 then 9 * s.blockN else pathCost (osapPath s o) := by
  rw [parse_osap_block s o hd flags hn hf]
  have hle := blockN_le s hn
  split
  · simp [blockCost, List.length_take, List.length_drop]; omega
  · have hlen : pathLen (osapPath s o) = s.blockN := shortestPath_len _ _ _ _
    have hp : (s.buf.data.take (s.buf.w + s.blockN)).length = s.buf.w + s.blockN := by
      simp [List.length_take]; omega
    obtain ⟨a, b, c⟩ := cost_pathToSeqs (s.buf.data.take (s.buf.w + s.blockN)) (osapPath s o)
      s.buf.w s.buf.w [] [] (Nat.le_refl _) (by rw [hp, hlen]; exact Nat.le_refl _)
    simp only [blockCost, List.length_append, List.length_drop, hp]
    rw [hlen] at b c
    simp at c
    omega

/-! ## LZ77 parses of the block bytes -/

section Lz
variable (p : List Byte) (w ws minM maxM n : Nat)

/-- a step of an LZ77 parse of the block `p[w .. w+n)` at block position `i`: a literal, or a
    genuine match of the buffered bytes with `minM ≤ m ≤ maxM`, `1 ≤ o ≤ ws`, source inside the
    buffer (`o ≤ w + i`, part of `MatchOK`) that stays inside the block -/
def LzStep (i m o : Nat) : Prop :=
  (m = 1 ∧ o = 0 ∧ i < n) ∨
  (1 ≤ m ∧ minM ≤ m ∧ m ≤ maxM ∧ 1 ≤ o ∧ o ≤ ws ∧ i + m ≤ n ∧ MatchOK p (w + i) m o)

def LzPathOK : Nat → Nat → List Edge → Prop
  | a, b, [] => a = b
  | a, b, (m, o) :: r => LzStep p w ws minM maxM n a m o ∧ LzPathOK (a + m) b r

/-- an LZ77 parse of the whole block -/
def LzParse (π : List Edge) : Prop := LzPathOK p w ws minM maxM n 0 n π

variable (edges : Array (List Edge)) (k0 : Nat)

/-- every stored edge of a block position is a genuine match for all lengths it is used with -/
def EdgesSound : Prop :=
  ∀ i mx o, i < n → (mx, o) ∈ edges.getD (k0 + i) [] →
    1 ≤ o ∧ o ≤ ws ∧ mx ≤ maxM ∧ ∀ m, m ≤ mx → i + m ≤ n → MatchOK p (w + i) m o

/-- every genuine match at a block position is dominated by a stored edge: at least as long,
    offset no larger -/
def EdgesComplete : Prop :=
  ∀ i m o, i < n → 1 ≤ m → minM ≤ m → m ≤ maxM → 1 ≤ o → o ≤ ws → i + m ≤ n → MatchOK p (w + i) m o →
    ∃ mx o', (mx, o') ∈ edges.getD (k0 + i) [] ∧ m ≤ mx ∧ 1 ≤ o' ∧ o' ≤ o

theorem adm_to_lz (hs : EdgesSound p w ws maxM n edges k0) :
    ∀ (π : List Edge) (a b : Nat), PathOK minM n edges k0 a b π → LzPathOK p w ws minM maxM n a b π := by
  intro π
  induction π with
  | nil => intro a b h; exact h
  | cons e r ih =>
    intro a b h
    obtain ⟨m, o⟩ := e
    obtain ⟨h1, h2⟩ := h
    refine ⟨?_, ih _ _ h2⟩
    rcases h1 with hl | ⟨mx, hmem, hm1, hmin, hmx, hn⟩
    · exact Or.inl hl
    · obtain ⟨s1, s2, s3, s4⟩ := hs a mx o (by omega) hmem
      exact Or.inr ⟨hm1, hmin, Nat.le_trans hmx s3, s1, s2, hn, s4 m hmx hn⟩

/-- every LZ77 parse is matched by a parse over the stored edges that is not more expensive -/
theorem lz_to_adm (hc : EdgesComplete p w ws minM maxM n edges k0) :
    ∀ (π : List Edge) (a b : Nat), LzPathOK p w ws minM maxM n a b π →
      ∃ π', PathOK minM n edges k0 a b π' ∧ pathCost π' ≤ pathCost π := by
  intro π
  induction π with
  | nil => intro a b h; exact ⟨[], h, Nat.le_refl _⟩
  | cons e r ih =>
    intro a b h
    obtain ⟨m, o⟩ := e
    obtain ⟨h1, h2⟩ := h
    obtain ⟨r', hr1, hr2⟩ := ih _ _ h2
    rcases h1 with hl | ⟨hm1, hmin, hmax, ho1, hows, hn, hmatch⟩
    · exact ⟨(m, o) :: r', ⟨Or.inl hl, hr1⟩, by simp only [pathCost_cons]; omega⟩
    · obtain ⟨mx, o', hmem, hmx, ho'1, ho'⟩ := hc a m o (by omega) hm1 hmin hmax ho1 hows hn hmatch
      refine ⟨(m, o') :: r', ⟨Or.inr ⟨mx, hmem, hm1, hmin, hmx, hn⟩, hr1⟩, ?_⟩
      have := xzCost_mono_offset m ho'1 ho'
      simp only [pathCost_cons]; omega

/-- C11 over genuine matches: with sound and complete edges the path of `shortestPath` is an
    LZ77 parse of the block and no LZ77 parse of the block is cheaper. -/
theorem dp_optimal_lz (hs : EdgesSound p w ws maxM n edges k0)
    (hc : EdgesComplete p w ws minM maxM n edges k0) :
    LzParse p w ws minM maxM n (shortestPath minM n edges k0) ∧
    ∀ π, LzParse p w ws minM maxM n π → pathCost (shortestPath minM n edges k0) ≤ pathCost π := by
  obtain ⟨h1, h2⟩ := dp_optimal minM n edges k0
  refine ⟨adm_to_lz p w ws minM maxM n edges k0 hs _ _ _ h1, ?_⟩
  intro π hπ
  obtain ⟨π', a, b⟩ := lz_to_adm p w ws minM maxM n edges k0 hc π 0 n hπ
  exact Nat.le_trans (h2 π' a) b

/-- without any edge every parse over the stored edges is all literals -/
theorem pathCost_no_edges (he : ∀ k, edges.getD k [] = []) :
    ∀ (π : List Edge) (a b : Nat), PathOK minM n edges k0 a b π → pathCost π + 9 * a = 9 * b := by
  intro π
  induction π with
  | nil => intro a b h; have : a = b := h; subst this; simp
  | cons e r ih =>
    intro a b h
    obtain ⟨m, o⟩ := e
    obtain ⟨h1, h2⟩ := h
    have := ih _ _ h2
    rcases h1 with ⟨rfl, rfl, _⟩ | ⟨mx, hmem, _⟩
    · simp only [pathCost_cons, xzCost_one_zero]; omega
    · rw [he] at hmem; simp at hmem

end Lz

/-- `nEdges` counts the stored edges: if it is 0 there is none -/
def CountOK (o : OsapD) : Prop := o.nEdges = 0 → ∀ k, o.edges.getD k [] = []

/-- C11, the emitted block (hypotheses on the edges named):
    a block emitted by OSAP with flags 0 costs no more than any LZ77 parse of the block bytes
    with lengths in `[MinMatchLen, MaxMatchLen]`, offsets `≤ WindowSize`, sources in the buffer. -/
theorem C11_optimal_partial (s : Parser) (o : OsapD) (hd : s.dict = .osap o) (flags : Nat)
    (hn : s.blockN ≠ 0) (hf : flags % 2 = 0)
    (hcount : CountOK (osapEdges s o))
    (hcomplete : EdgesComplete (s.buf.data.take (s.buf.w + s.blockN)) s.buf.w s.buf.cfg.windowSize
      s.minMatch s.cfg.maxMatchLen.toNat s.blockN (osapEdges s o).edges (s.buf.w - (osapEdges s o).start)) :
    ∀ π, LzParse (s.buf.data.take (s.buf.w + s.blockN)) s.buf.w s.buf.cfg.windowSize
        s.minMatch s.cfg.maxMatchLen.toNat s.blockN π →
      blockCost (s.parse flags).2.2.2 ≤ pathCost π := by
  intro π hπ
  rw [osap_block_cost s o hd flags hn hf]
  obtain ⟨π', a, b⟩ := lz_to_adm _ _ _ _ _ _ _ _ hcomplete π 0 _ hπ
  split
  · rename_i h0
    have := pathCost_no_edges s.minMatch s.blockN _ _ (hcount h0) π' 0 _ a
    omega
  · exact Nat.le_trans ((dp_optimal _ _ _ _).2 π' a) b

/-- … and the emitted path is itself such an LZ77 parse when the edges are sound -/
theorem C11_emitted_is_parse (s : Parser) (o : OsapD)
    (hsound : EdgesSound (s.buf.data.take (s.buf.w + s.blockN)) s.buf.w s.buf.cfg.windowSize
      s.cfg.maxMatchLen.toNat s.blockN (osapEdges s o).edges (s.buf.w - (osapEdges s o).start)) :
    LzParse (s.buf.data.take (s.buf.w + s.blockN)) s.buf.w s.buf.cfg.windowSize
        s.minMatch s.cfg.maxMatchLen.toNat s.blockN (osapPath s o) :=
  adm_to_lz _ _ _ _ _ _ _ _ hsound _ _ _ (dp_optimal _ _ _ _).1

end LZ.Sap
