/-
  LzProofs.GenHPParseLemmasLoop — one iteration of the greedy loop of hp.go `Parse` (loop_1 of the
  translation) versus one step of `ProbeW.greedyLoopW (ProbeW.hpProbeW …)`, and the whole loop.
-/
import LzProofs.GenHPParseLemmas

set_option linter.unusedSimpArgs false
set_option linter.unusedVariables false

namespace LZ.GenHPParse
open LZ LZ.Gen LZ.GenBuf LZ.GenHash

/-! ## the word-level finder in a form without `do` -/

theorem matchLenInline_nf (pd behind _pd : List Byte) (E mm i j : Nat) (y z : UInt64)
    (h1 : BytesW.sliceTo pd behind (E + 7) = some _pd)
    (hy : (BytesW.sliceFrom _pd i).bind BytesW.le64 = some y)
    (hz : (BytesW.sliceFrom _pd j).bind BytesW.le64 = some z) :
    BytesW.matchLenInline pd behind E mm i j =
      if (if BytesW.tz64 (z ^^^ y) >>> 3 > pd.length - i then pd.length - i else BytesW.tz64 (z ^^^ y) >>> 3) < mm
      then some none
      else (BytesW.matchExt pd i j
        (if BytesW.tz64 (z ^^^ y) >>> 3 > pd.length - i then pd.length - i else BytesW.tz64 (z ^^^ y) >>> 3)).map some := by
  unfold BytesW.matchLenInline BytesW.matchLen8
  simp only [Option.bind_eq_bind, Option.pure_def] at hy hz ⊢
  rw [h1, Option.bind_some]
  cases hsi : BytesW.sliceFrom _pd i with
  | none => rw [hsi] at hy; cases hy
  | some li =>
    rw [hsi, Option.bind_some] at hy
    cases hsj : BytesW.sliceFrom _pd j with
    | none => rw [hsj] at hz; cases hz
    | some lj =>
      rw [hsj, Option.bind_some] at hz
      simp only [Option.bind_some, hy, hz]
      generalize (if BytesW.tz64 (z ^^^ y) >>> 3 > pd.length - i then pd.length - i
        else BytesW.tz64 (z ^^^ y) >>> 3) = k8
      by_cases hk : k8 < mm
      · simp only [if_pos hk]
      · simp only [if_neg hk]
        cases BytesW.matchExt pd i j k8 <;> rfl

theorem hpProbeW_nf (ws mm E : Nat) (behind : List Byte) (h : HashT) (pd : List Byte) (i li : Nat)
    (_pd : List Byte) (y : UInt64)
    (h1 : BytesW.sliceTo pd behind (E + 7) = some _pd)
    (hy : (BytesW.sliceFrom _pd i).bind BytesW.le64 = some y)
    (x : UInt64) (hx : x = y &&& maskOf h.inputLen)
    (e : Nat × Nat) (he : e = h.tbl.getD (LZ.hashValue x h.hashBits) (0, 0))
    (H1 : HashT) (hH1 : H1 = { h with tbl := h.tbl.setIfInBounds (LZ.hashValue x h.hashBits) (i, lo32 x) }) :
    ProbeW.hpProbeW ws mm E false behind h pd i li =
      if lo32 x ≠ e.2 then some (H1, none)
      else if ¬ (e.1 < i ∧ i - e.1 ≤ ws) then some (H1, none)
      else
        (BytesW.matchLenInline pd behind E mm i e.1).bind fun r =>
        match r with
        | none => some (H1, none)
        | some k =>
          (ProbeW.insertRangeW H1 _pd (i + 1) (Min.min (i + k) E - (i + 1))).bind fun h2 =>
          some (h2, some (i, k, i - e.1)) := by
  subst hx he hH1
  unfold ProbeW.hpProbeW ProbeW.loadKey
  simp only [Option.bind_eq_bind, Option.pure_def] at hy ⊢
  rw [h1, Option.bind_some]
  cases hsi : BytesW.sliceFrom _pd i with
  | none => rw [hsi] at hy; cases hy
  | some li =>
    rw [hsi, Option.bind_some] at hy
    simp only [Option.bind_some, hy]
    split
    · rfl
    · split
      · rfl
      · cases BytesW.matchLenInline pd behind E mm i _ with
        | none => rfl
        | some r =>
          cases r with
          | none => rfl
          | some k => simp only [Option.bind_some, Bool.false_eq_true, if_false, Nat.sub_zero, Nat.add_zero]


/-- the Go `Seq` a model sequence stands for (`uint32(…)` conversions as in hp.go) -/
def seqRep (q : LZ.Seq) : Gen.Seq :=
  { LitLen := UInt32.ofInt (q.litLen : Int), MatchLen := UInt32.ofInt (q.matchLen : Int),
    Offset := UInt32.ofInt (q.offset : Int), Aux := 0 }

set_option maxHeartbeats 1000000 in
theorem loop1_step (grow : Nat → Nat → Nat) (inputEnd mm : Int) (A : List UInt8) (L E mmN ws : Nat)
    (fuel i li : Nat) (ia lia : Int) (s : Gen.hashParser) (blk : Block')
    (c : TCtx s.hashDictionary.hash.mask s.hashDictionary.hash.shift s.hashDictionary.hash.inputLen
      { arr := A, len := E + 7 })
    (ht : TOK s.hashDictionary.hash.shift s.hashDictionary.hash.table)
    (hia : ia = (i : Int)) (hlia : lia = (li : Int)) (hE : inputEnd = (E : Int)) (hmm : mm = (mmN : Int))
    (hi : i < E) (hEL : E ≤ L) (hLA : L ≤ A.length) (hEA : E + 7 ≤ A.length) (hli : li ≤ i)
    (hws : ws = s.HPConfig.WindowSize.toNat) (hmm1 : 1 ≤ mmN) (hmm8 : mmN ≤ 8)
    (hfuel : L ≤ fuel + i) :
    ∃ r, ProbeW.hpProbeW ws mmN E false (A.drop L) (ofHash s.hashDictionary.hash) (A.take L) i li = some r ∧
      ∃ t', TOK s.hashDictionary.hash.shift t' ∧ r.1 = ofHashT s.hashDictionary.hash t' ∧
        hashParser_Parse_loop_1 grow inputEnd { arr := A, len := E + 7 } { arr := A, len := L } mm (fuel + 1) ia s blk lia =
          (match r.2 with
          | none =>
            hashParser_Parse_loop_1 grow inputEnd { arr := A, len := E + 7 } { arr := A, len := L } mm fuel (ia + 1)
              (setT s t') blk lia
          | some (st, k, o) =>
            hashParser_Parse_loop_1 grow inputEnd { arr := A, len := E + 7 } { arr := A, len := L } mm fuel
              ((i + k : Nat) : Int) (setT s t')
              { Sequences := blk.Sequences ++ [seqRep { litLen := i - li, matchLen := k, offset := o }],
                Literals := Slice.append grow blk.Literals ((A.drop li).take (i - li)) }
              ((i + k : Nat) : Int)) ∧
        (∀ st k o, r.2 = some (st, k, o) → st = i ∧ 1 ≤ k ∧ i + k ≤ L) := by
  -- the memory
  have hmem : BytesW.sliceTo (A.take L) (A.drop L) (E + 7) = some (A.take (E + 7)) := by
    unfold BytesW.sliceTo; rw [List.take_append_drop, if_pos hEA]
  have hpd : ({ arr := A, len := E + 7 } : Slice).data = A.take (E + 7) := rfl
  have hpl : (A.take L).length = L := by rw [List.length_take]; omega
  have hs := c.small
  have hsmall : E + 7 < 4294967296 + 8 := hs
  -- the load at i, the table access
  obtain ⟨y, hy, hF⟩ := gen_load_ok { arr := A, len := E + 7 } c.swf ia i hia (by show i + 8 ≤ E + 7; omega)
  rw [hpd] at hy
  obtain ⟨hv, hlt⟩ := gen_hashValue_shift (y &&& s.hashDictionary.hash.mask) s.hashDictionary.hash.shift c.sh1 c.sh2
  have hidx : (Gen.hashValue (y &&& s.hashDictionary.hash.mask) s.hashDictionary.hash.shift).toNat <
      s.hashDictionary.hash.table.len := by rw [hv, ht.2]; exact hlt
  rw [hashParser_Parse_loop_1, if_pos (by omega), hF]
  dsimp only
  rw [gindex_ok _ _ (Int.ofNat _) _ rfl hidx, bind_ok, gset_ok _ (Int.ofNat _) _ rfl hidx, bind_ok]
  -- the model side of the table access
  have hget := ofHashT_get s.hashDictionary.hash s.hashDictionary.hash.table ht.1 _ hidx
  unfold zeroE at hget
  have hset : ofHashT s.hashDictionary.hash (GSlice.mk (s.hashDictionary.hash.table.arr.set
      (Gen.hashValue (y &&& s.hashDictionary.hash.mask) s.hashDictionary.hash.shift).toNat
      (hashEntry.mk (UInt32.ofInt ia) (y &&& s.hashDictionary.hash.mask).toUInt32)) s.hashDictionary.hash.table.len) = _ :=
    ofHashT_set s.hashDictionary.hash s.hashDictionary.hash.table
      (Gen.hashValue (y &&& s.hashDictionary.hash.mask) s.hashDictionary.hash.shift).toNat
      { pos := UInt32.ofInt ia, value := (y &&& s.hashDictionary.hash.mask).toUInt32 }
  have ht1 : TOK s.hashDictionary.hash.shift (GSlice.mk (s.hashDictionary.hash.table.arr.set
      (Gen.hashValue (y &&& s.hashDictionary.hash.mask) s.hashDictionary.hash.shift).toNat
      (hashEntry.mk (UInt32.ofInt ia) (y &&& s.hashDictionary.hash.mask).toUInt32)) s.hashDictionary.hash.table.len) :=
    ⟨gwf_set _ ht.1 _ _, ht.2⟩
  generalize (GSlice.mk (s.hashDictionary.hash.table.arr.set
      (Gen.hashValue (y &&& s.hashDictionary.hash.mask) s.hashDictionary.hash.shift).toNat
      (hashEntry.mk (UInt32.ofInt ia) (y &&& s.hashDictionary.hash.mask).toUInt32)) s.hashDictionary.hash.table.len) = t1
    at hset ht1 ⊢
  rw [hv] at hset
  simp only [ofEntry, lo32_eq, toNat_ofInt32 i ia hia (by omega)] at hset
  generalize hent : (s.hashDictionary.hash.table.arr[(Gen.hashValue (y &&& s.hashDictionary.hash.mask)
      s.hashDictionary.hash.shift).toNat]?).getD { pos := 0, value := 0 } = ent at hget ⊢
  rw [hv] at hget
  have hnf := hpProbeW_nf ws mmN E (A.drop L) (ofHash s.hashDictionary.hash) (A.take L) i li (A.take (E + 7)) y hmem hy
    (y &&& s.hashDictionary.hash.mask) (by rw [c.mask]; rfl) (ofEntry ent) hget.symm (ofHashT s.hashDictionary.hash t1) hset
  -- A: the stored value differs
  by_cases hvA : (y &&& s.hashDictionary.hash.mask).toUInt32 ≠ ent.value
  · have hA : lo32 (y &&& s.hashDictionary.hash.mask) ≠ (ofEntry ent).2 := by
      intro hc; apply hvA; apply UInt32.toNat_inj.mp; rw [lo32_eq]; exact hc
    refine ⟨(ofHashT s.hashDictionary.hash t1, none), by rw [hnf, if_pos hA], t1, ht1, rfl, ?_,
      by intro st k o h; cases h⟩
    rw [if_pos (by simpa using hvA)]
  have hA : ¬ lo32 (y &&& s.hashDictionary.hash.mask) ≠ (ofEntry ent).2 := by
    intro hc; apply hc; rw [← lo32_eq, Decidable.not_not.mp hvA]; rfl
  rw [if_neg (by simpa using hvA)]
  rw [if_neg hA] at hnf
  -- B: the candidate is outside the window
  have hj1 : (ofEntry ent).1 = ent.pos.toNat := rfl
  rw [hj1] at hnf
  generalize hjdef : ent.pos.toNat = j at hnf ⊢
  by_cases hw : ¬ (j < i ∧ i - j ≤ ws)
  · refine ⟨(ofHashT s.hashDictionary.hash t1, none), by rw [hnf, if_pos hw], t1, ht1, rfl, ?_,
      by intro st k o h; cases h⟩
    -- whatever the spelling of the window test (`!(0 < o && o <= W)`, `o <= 0 || o > W`, …): one arm is the
    -- `continue`, the other contradicts `hw`
    split
    all_goals first
      | rfl
      | (rename_i hc; exfalso; simp only [Int.ofNat_eq_natCast] at hc; omega)
  -- the atoms of the window test, in both spellings
  have hc1 : 0 < ia - Int.ofNat j := by show 0 < ia - (j : Int); omega
  have hc2 : ia - Int.ofNat j ≤ s.HPConfig.WindowSize := by show ia - (j : Int) ≤ _; omega
  have hc3 : ¬ (ia - Int.ofNat j ≤ 0) := by show ¬ (ia - (j : Int) ≤ 0); omega
  have hc4 : ¬ (ia - Int.ofNat j > s.HPConfig.WindowSize) := by show ¬ (ia - (j : Int) > _); omega
  have hc5 : ¬ (s.HPConfig.WindowSize < ia - Int.ofNat j) := hc4
  simp only [hc1, hc2, hc3, hc4, hc5, and_self, or_self, not_true_eq_false, not_false_eq_true, if_false, if_true]
  rw [if_neg hw] at hnf
  have hw := Decidable.not_not.mp hw
  -- C: the first word of the candidate
  obtain ⟨z, hz, hF2⟩ := gen_load_ok { arr := A, len := E + 7 } c.swf (Int.ofNat j) j rfl (by show j + 8 ≤ E + 7; omega)
  rw [hpd] at hz
  rw [hF2]
  simp only [tz_shr]
  have hml := matchLenInline_nf (A.take L) (A.drop L) (A.take (E + 7)) E mmN i j y z hmem hy hz
  rw [hpl] at hml
  -- the clamp `k > len(p)-i` in whatever spelling (operand order, arm order, hoisted `len(p)-i`): as a `min`
  have hk8a : Min.min (((BytesW.tz64 (z ^^^ y) >>> 3 : Nat)) : Int) (Int.ofNat L - ia) =
      (((if BytesW.tz64 (z ^^^ y) >>> 3 > L - i then L - i else BytesW.tz64 (z ^^^ y) >>> 3 : Nat)) : Int) := by
    split <;> int_omega
  have hk8b : Min.min (Int.ofNat L - ia) (((BytesW.tz64 (z ^^^ y) >>> 3 : Nat)) : Int) =
      (((if BytesW.tz64 (z ^^^ y) >>> 3 > L - i then L - i else BytesW.tz64 (z ^^^ y) >>> 3 : Nat)) : Int) := by
    split <;> int_omega
  simp only [LZ.GenProps.gen_min, ite_lt_min, ite_le_min, ite_lt_max, ite_le_max]
  simp only [hk8a, hk8b]
  have hk8le : (if BytesW.tz64 (z ^^^ y) >>> 3 > L - i then L - i else BytesW.tz64 (z ^^^ y) >>> 3) ≤ L - i := by
    split <;> omega
  generalize (if BytesW.tz64 (z ^^^ y) >>> 3 > L - i then L - i else BytesW.tz64 (z ^^^ y) >>> 3) = k8
    at hml hk8le ⊢
  by_cases hC1 : k8 < mmN
  · rw [if_pos hC1] at hml
    refine ⟨(ofHashT s.hashDictionary.hash t1, none), by rw [hnf, hml]; rfl, t1, ht1, rfl, ?_,
      by intro st k o h; cases h⟩
    rw [if_pos (by omega)]
  rw [if_neg hC1] at hml
  rw [if_neg (by omega)]
  -- the semantic content of the match length (bounds only)
  have hsem := BytesW.matchLenInline_eq (A.take L) (A.drop L) E mmN i j hw.1 hi (by rw [hpl]; exact hEL)
    (by rw [List.take_append_drop]; exact hEA)
  have hLcle : lcpLen ((A.take L).drop j) ((A.take L).drop i) ≤ L - i := by
    have := BytesW.lcpLen_le_right ((A.take L).drop j) ((A.take L).drop i)
    rw [List.length_drop, hpl] at this; exact this
  generalize lcpLen ((A.take L).drop j) ((A.take L).drop i) = Lc at hsem hLcle
  rw [hml] at hsem
  cases hme : BytesW.matchExt (A.take L) i j k8 with
  | none => rw [hme] at hsem; cases hsem
  | some kk =>
    rw [hme, Option.map_some] at hsem
    have hkk : ¬ Min.min 8 Lc < mmN ∧ kk = Lc := by
      by_cases hh : Min.min 8 Lc < mmN
      · rw [if_pos hh] at hsem; cases hsem
      · rw [if_neg hh] at hsem; injection hsem with h1; injection h1 with h2; exact ⟨hh, h2⟩
    obtain ⟨hmin, hkkLc⟩ := hkk
    subst hkkLc
    rw [hme, Option.map_some] at hml
    -- the re-indexing loop (INSTANTIATION of the lemma about the generated loop function, 1 of 2)
    obtain ⟨t2, ht2, hr3, hl3⟩ := loop3_eq grow { arr := A, len := E + 7 }
      (Min.min (i + kk) E - (i + 1)) fuel (i + 1) (setT s t1) (by omega)
      (by show _ ∨ _ ≤ E + 7; omega) c ht1
    rw [hpd] at hr3
    have hr3' : ProbeW.insertRangeW (ofHashT s.hashDictionary.hash t1) (List.take (E + 7) A) (i + 1)
        (Min.min (i + kk) E - (i + 1)) = some (ofHashT s.hashDictionary.hash t2) := hr3
    refine ⟨(ofHashT s.hashDictionary.hash t2, some (i, kk, i - j)), ?_, t2, ht2, rfl, ?_, ?_⟩
    · rw [hnf, hml, Option.bind_some]
      dsimp only
      rw [hr3']; rfl
    · refine bind_trans (v := (kk : Int)) ?_ ?_
      · -- the match extension
        by_cases h8 : k8 = 8
        · subst h8
          rw [if_pos (by omega)]
          have hme' := hme
          unfold BytesW.matchExt at hme'
          rw [if_pos rfl, BytesW.sliceFrom_eq_some _ _ (by rw [hpl]; omega),
            BytesW.sliceFrom_eq_some _ _ (by rw [hpl]; omega)] at hme'
          simp only [Option.bind_eq_bind, Option.bind_some] at hme'
          refine bind_trans (slice_okI _ (Int.ofNat j + 8) (Int.ofNat L) (j + 8) L (by show (j : Int) + 8 = _; omega) rfl
            (by omega) hLA) ?_
          refine bind_trans (slice_okI _ (ia + 8) (Int.ofNat L) (i + 8) L (by omega) rfl (by omega) hLA) ?_
          -- (INSTANTIATION of the lemma about the generated loop function, 2 of 2)
          obtain ⟨e, kN', r', q', hl2, hr', hq', hdisj⟩ := loop2_eq (L - i) fuel 8
            ((8 : Nat) : Int) { arr := A.drop (j + 8), len := L - (j + 8) } { arr := A.drop (i + 8), len := L - (i + 8) }
            (by show L - (i + 8) < 8 * (L - i); omega) (by omega) rfl (swf_drop _ _ _ hLA) (swf_drop _ _ _ hLA)
            (by show L - (i + 8) ≤ L - (j + 8); omega)
          refine bind_trans (hl2 _ _) ?_
          dsimp only
          rw [data_drop, data_drop, hme'] at hdisj
          rcases hdisj with ⟨he, hm⟩ | ⟨he, hm⟩
          · rw [if_pos he]
            injection hm with hm
            rw [hm]
          · rw [if_neg he]
            injection hm with hm
            by_cases hq0 : q'.len > 0
            · have htv := tail_min r'.data q'.data kN' (by rw [data_length hq']; exact hq0)
              rw [data_length hq'] at htv
              rw [if_pos (by int_omega), gen_getLE64 r' hr', bind_ok, gen_getLE64 q' hq', bind_ok,
                bind_ok]
              try simp only [tz_shr]
              rw [hm, htv]
              -- the clamp `b > len(q)` in whatever spelling
              refine congrArg Res.ok ?_
              (repeat' split) <;> int_omega
            · rw [if_neg (by int_omega), bind_ok]
              unfold BytesW.matchExtTail at hm
              rw [if_neg (by rw [data_length hq']; exact hq0)] at hm
              rw [hm]
        · rw [if_neg (by omega)]
          unfold BytesW.matchExt at hme
          rw [if_neg h8] at hme
          injection hme with hme
          rw [hme]
      · dsimp only
        refine bind_trans (slice_okI _ lia ia li i hlia hia hli (by show i ≤ A.length; omega)) ?_
        dsimp only
        refine bind_trans (hl3 _ _ _ _ (by omega) (by (repeat' split) <;> int_omega)) ?_
        dsimp only
        have e1 : ia + (kk : Int) - 1 + 1 = ((i + kk : Nat) : Int) := by omega
        have e2 : ia + (kk : Int) = ((i + kk : Nat) : Int) := by omega
        have e3 : ia - Int.ofNat j = ((i - j : Nat) : Int) := by show ia - (j : Int) = _; omega
        rw [e1, e2, e3]
        rfl
    · intro st k o h
      cases h
      exact ⟨rfl, by omega, by omega⟩


theorem lits_eq (A : List UInt8) (L li i : Nat) (hli : li ≤ i) (hi : i ≤ L) :
    ((A.take L).drop li).take (i - li) = (A.drop li).take (i - li) := by
  rw [List.drop_take, List.take_take, Nat.min_eq_left (by omega)]

theorem swf_append (g : Nat → Nat → Nat) (s : Slice) (h : SWF s) (bs : List UInt8) : SWF (Slice.append g s bs) := by
  obtain ⟨_, h2, h3⟩ := append_spec g s h bs
  unfold SWF at *
  rw [h2, h3]
  split <;> omega

/-- **The greedy loop of `Parse`** (loop_1 of the translation) is `ProbeW.greedyLoopW` with the word-level
    finder `ProbeW.hpProbeW`: no panic, same final position, `litIndex`, sequences and literals; the final table
    abstracts to the model's final table. -/
theorem loop1_eq (grow : Nat → Nat → Nat) (inputEnd mm : Int) (A : List UInt8) (L E mmN ws : Nat)
    (hE : inputEnd = (E : Int)) (hmm : mm = (mmN : Int))
    (hEL : E ≤ L) (hLA : L ≤ A.length) (hEA : E + 7 ≤ A.length) (hmm1 : 1 ≤ mmN) (hmm8 : mmN ≤ 8) :
    ∀ (n fuel i li : Nat) (ia lia : Int) (s : Gen.hashParser) (blk : Block') (sq : List LZ.Seq) (lt : List Byte),
      E ≤ i + n → i ≤ L → li ≤ i → ia = (i : Int) → lia = (li : Int) → L + 1 ≤ fuel + i →
      TCtx s.hashDictionary.hash.mask s.hashDictionary.hash.shift s.hashDictionary.hash.inputLen
        { arr := A, len := E + 7 } →
      TOK s.hashDictionary.hash.shift s.hashDictionary.hash.table →
      ws = s.HPConfig.WindowSize.toNat →
      blk.Sequences = sq.map seqRep → blk.Literals.data = lt → SWF blk.Literals →
      ∃ (st' : LoopSt HashT) (t' : GSlice hashEntry) (blk' : Block'),
        ProbeW.greedyLoopW (ProbeW.hpProbeW ws mmN E false (A.drop L)) (A.take L) E
          { dict := ofHash s.hashDictionary.hash, i := i, litIndex := li, seqs := sq, lits := lt } = some st' ∧
        hashParser_Parse_loop_1 grow inputEnd { arr := A, len := E + 7 } { arr := A, len := L } mm fuel ia s blk lia =
          Res.ok ((st'.i : Int), setT s t', blk', (st'.litIndex : Int)) ∧
        TOK s.hashDictionary.hash.shift t' ∧ st'.dict = ofHashT s.hashDictionary.hash t' ∧
        blk'.Sequences = st'.seqs.map seqRep ∧ blk'.Literals.data = st'.lits ∧ SWF blk'.Literals ∧
        li ≤ st'.litIndex ∧ st'.litIndex ≤ L := by
  intro n
  induction n with
  | zero =>
    intro fuel i li ia lia s blk sq lt hn hiL hli hia hlia hfuel c ht hws hsq hlt hswf
    obtain ⟨f, rfl⟩ : ∃ f, fuel = f + 1 := ⟨fuel - 1, by omega⟩
    refine ⟨_, s.hashDictionary.hash.table, blk, ProbeW.greedyLoopW_done _ _ _ _ (by show ¬ i < E; omega), ?_,
      ht, rfl, hsq, hlt, hswf, Nat.le_refl _, by show li ≤ L; omega⟩
    rw [hashParser_Parse_loop_1, if_neg (by omega), hia, hlia]
  | succ n ih =>
    intro fuel i li ia lia s blk sq lt hn hiL hli hia hlia hfuel c ht hws hsq hlt hswf
    by_cases hi : i < E
    · obtain ⟨f, rfl⟩ : ∃ f, fuel = f + 1 := ⟨fuel - 1, by omega⟩
      obtain ⟨r, hr, t1, ht1, hr1, hstep, hb⟩ := loop1_step grow inputEnd mm A L E mmN ws f i li ia lia s blk c ht
        hia hlia hE hmm hi hEL hLA hEA hli hws hmm1 hmm8 (by omega)
      obtain ⟨d, m⟩ := r
      simp only [] at hr1 hstep hb
      subst hr1
      cases m with
      | none =>
        simp only [] at hstep
        obtain ⟨st', t', blk', h1, h2, h3, h4, h5, h6, h7, h8, h9⟩ := ih f (i + 1) li (ia + 1) lia (setT s t1) blk sq lt
          (by omega) (by omega) (by omega) (by omega) hlia (by omega) c ht1 hws hsq hlt hswf
        refine ⟨st', t', blk', ?_, ?_, h3, h4, h5, h6, h7, h8, h9⟩
        · rw [ProbeW.greedyLoopW_none _ _ _ _ _ hi hr]; exact h1
        · rw [hstep]; exact h2
      | some m =>
        obtain ⟨st0, k, o⟩ := m
        obtain ⟨rfl, hk1, hkL⟩ := hb st0 k o rfl
        simp only [] at hstep
        have hql : (((A.take L).drop li).take (st0 - li)).length = st0 - li := by
          rw [lits_eq A L li st0 hli hiL, List.length_take, List.length_drop]; omega
        obtain ⟨st', t', blk', h1, h2, h3, h4, h5, h6, h7, h8, h9⟩ := ih f (st0 + k) (st0 + k) ((st0 + k : Nat) : Int)
          ((st0 + k : Nat) : Int) (setT s t1)
          { Sequences := blk.Sequences ++ [seqRep { litLen := st0 - li, matchLen := k, offset := o }],
            Literals := Slice.append grow blk.Literals ((A.drop li).take (st0 - li)) }
          (sq ++ [{ litLen := (((A.take L).drop li).take (st0 - li)).length, matchLen := k, offset := o }])
          (lt ++ ((A.take L).drop li).take (st0 - li))
          (by omega) hkL (Nat.le_refl _) rfl rfl (by omega) c ht1 hws
          (by rw [List.map_append, hsq, hql]; rfl)
          (by rw [(append_spec grow blk.Literals hswf _).1, hlt, lits_eq A L li st0 hli hiL])
          (swf_append grow _ hswf _)
        refine ⟨st', t', blk', ?_, ?_, h3, h4, h5, h6, h7, by omega, h9⟩
        · rw [ProbeW.greedyLoopW_some _ _ _ _ _ _ _ _ hi hr (by show st0 + k > st0; omega)]; exact h1
        · rw [hstep]; exact h2
    · obtain ⟨f, rfl⟩ : ∃ f, fuel = f + 1 := ⟨fuel - 1, by omega⟩
      refine ⟨_, s.hashDictionary.hash.table, blk, ProbeW.greedyLoopW_done _ _ _ _ hi, ?_,
        ht, rfl, hsq, hlt, hswf, Nat.le_refl _, by show li ≤ L; omega⟩
      rw [hashParser_Parse_loop_1, if_neg (by omega), hia, hlia]

end LZ.GenHPParse

#print axioms LZ.GenHPParse.loop1_step
#print axioms LZ.GenHPParse.loop1_eq
