/-
  LzProofs.GenPropsCfgBucket — bucket_hash.go: bucketConfig.
    G14 gen_bucketDefaults G15 gen_bucketVerify
  Part of the split of the former LzProofs/GenProps.lean: "the hand-written model equals the
  code that `tools/extract -code` regenerates from the Go source".  The generated code is
  emitted per topic (LzModel/Generated/Code<Topic>.lean); this file only imports the topic it
  talks about, so a Go function the translator refuses takes down this file and nothing else.
  Every theorem quantifies over ALL inputs; Go `int`/`int64` are unbounded `Int` on both sides
  (overflow is out of scope), `uint32`/`uint64` wrap around.  All names live in `LZ.GenProps`.
  The proofs are written against the MEANING of the generated functions (unfold, split every
  `if`, decide linear arithmetic), not against the shape of the generated term, so that
  behaviour-preserving rewrites of the Go source (De Morgan, swapped arms, reordered defaults,
  `x+x` for `2*x`, …) do not break them.
-/
import LzModel.Generated.CodeCfgBucket
import LzProofs.GenPropsBase

set_option linter.unusedSimpArgs false

namespace LZ.GenProps
open LZ

def ofBucket (b : Gen.bucketConfig) : Cfg :=
  { inputLen := b.InputLen, hashBits := b.HashBits, bucketSize := b.BucketSize }

/-- G14 `(*bucketConfig).SetDefaults`: the bucket part of `setDefaults .BUP` -/
theorem gen_bucketDefaults (b : Gen.bucketConfig) : Gen.bucketConfig_SetDefaults b =
    ⟨(setDefaults .BUP (ofBucket b)).inputLen, (setDefaults .BUP (ofBucket b)).hashBits,
     (setDefaults .BUP (ofBucket b)).bucketSize⟩ := by
  obtain ⟨il, hb, bs⟩ := b
  simp only [Gen.bucketConfig_SetDefaults, gen_helper, setDefaults, ofBucket, bufDefaults,
    Facts.defBucketInputLen, Facts.defBucketHashBits, Facts.defBucketSize]
  repeat' split
  all_goals simp_all

/-- G15 `(*bucketConfig).Verify`: the bucket part of `verify .BUP` -/
theorem gen_bucketVerify (b : Gen.bucketConfig) :
    Gen.bucketConfig_Verify b = .ok ↔
      (hashVerify b.InputLen b.HashBits Facts.maxBucketHashBits &&
       decide (Facts.minBucketSize ≤ b.BucketSize ∧ b.BucketSize ≤ Facts.maxBucketSize)) = true := by
  rw [Bool.and_eq_true, hashVerify_iff, decide_eq_true_eq]
  obtain ⟨il, hb, bs⟩ := b
  simp only [Gen.bucketConfig_Verify, gen_helper, Facts.maxBucketHashBits, Facts.minBucketSize, Facts.maxBucketSize]
  repeat' split
  all_goals simp only [reduceCtorEq, false_iff, true_iff]
  all_goals omega

end LZ.GenProps
