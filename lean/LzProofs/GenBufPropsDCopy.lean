/-
  LzProofs.GenBufPropsDCopy — the copy loops of the DecoderBuffer (D08 WriteMatch, D09 WriteBlock,
  D10 the invariant len(Data) ≤ BufferSize; they depend on D01–D07 in GenBufPropsD) of: the hand-written models of `ParserBuffer` (LzModel/PBuf.lean) and
  `DecoderBuffer` (LzModel/DecBuf.lean) equal the code that `tools/extract -code` regenerates
  from parser_buffer.go / decoder_buffer.go (second part of LzModel/Generated/Code.lean:
  byte slices as values `Gen.Slice`, panics and loop fuel as `Gen.Res`, error variables).

  Abstraction maps: `ofPB : Gen.ParserBuffer → PBuf`, `ofDB : Gen.DecoderBuffer → DecBuf`
  (Go ints ↦ naturals by `Int.toNat`, `Data ↦ Data.data = arr.take len`, `cap = arr.length`),
  `errOf : Gen.Err → Option LZ.Err` (the package-level error variables; `none` for any other
  value), `ofSeq`, `ofBlock`.  Representation invariants (explicit hypotheses, shown to be
  preserved): `SWF s : s.len ≤ s.arr.length`, `PBWF b` / `DBWF b`: `SWF b.Data` and the int
  fields the model stores as naturals are ≥ 0.  Every theorem quantifies over ALL states and
  inputs satisfying the stated hypotheses, every growth function `g` (with `GrowOK g :
  ∀ c n, n ≤ g c n` where `append` may reallocate), and every sufficient fuel.

  Index (B = ParserBuffer, D = DecoderBuffer; referred to by NOTES.md):
    B01 gen_pbuf_shrink (+ gen_pbuf_shrink_panic)   B02 gen_pbuf_byteAt    B03 gen_pbuf_peekAt
    B04 gen_pbuf_readAt   B05 gen_pbuf_reset   B06 gen_pbuf_grow   B07 gen_pbuf_write   B08 gen_pbuf_init
    D01 gen_dbuf_init   D02 gen_dbuf_reset   D03 gen_dbuf_byteAtEnd   D04 gen_dbuf_read (+ gen_dbuf_read_panic)
    D05 gen_dbuf_shrink   D06 gen_dbuf_writeByte   D07 gen_dbuf_write
    D08 gen_dbuf_writeMatch (loop: loop_spec / loop_spec0 / copyTail_spec)
    D09 gen_dbuf_writeBlock (range loop with `goto end`: wb_loop_spec)
    D10 gen_dbuf_lenInv / gen_dbuf_init_lenInv (the invariant `len(Data) ≤ BufferSize` of D08/D09)
    writeMatch_discrepancy (a concrete state outside of that invariant on which code and model differ)
  The lemmas `gen_*_unfold`, `loop_unfold`, `wb_loop_cons`, `wb_loop_nil`, `wb_loop2_eq` state the
  syntactic shape of the generated definitions (proved by `rfl`/unfolding); they are the first
  thing that breaks when the Go source changes.
  Part of the split of the former LzProofs/GenBufProps.lean (the generated code is emitted per
  topic: LzModel/Generated/CodePBuf.lean, CodeDBuf.lean, CodeSlicePrelude.lean, CodeErrVars.lean),
  so that a construct the translator refuses in decoder_buffer.go does not take the ParserBuffer
  theorems down, and vice versa.  All names live in `LZ.GenBuf`.
-/
import LzModel.Generated.CodeDBufCopy
import LzProofs.GenBufPropsD
import LzProofs.GenPropsDec
import LzProofs.GenPropsInts
import LzProofs.DecBufLemmas

set_option linter.unusedSimpArgs false
set_option linter.unusedVariables false

namespace LZ.GenBuf
open LZ LZ.Gen

/-- the copy of a match after the space check (loop, then the remainder) -/
def matchTail (grow : Nat → Nat → Nat) (fuel : Nat) (b : DecoderBuffer) (_m : Int) (off0 : Int) :
    Res (DecoderBuffer × Int × Gen.Err) :=
  Res.bind (DecoderBuffer_WriteMatch_loop_1 grow fuel b _m off0) fun r =>
    Res.bind (Slice.slice r.1.Data ((Int.ofNat r.1.Data.len) - r.2.2) ((Int.ofNat r.1.Data.len) - r.2.2 + r.2.1)) fun t =>
    Res.ok ({ r.1 with Data := Slice.append grow r.1.Data t.data, Off := r.1.Off + _m }, _m, Gen.Err.ok)

theorem gen_writeMatch_unfold (grow : Nat → Nat → Nat) (fuel : Nat) (b : DecoderBuffer) (m o : UInt32) :
    DecoderBuffer_WriteMatch grow fuel b m o =
      if (o = 0) ∧ (m > 0) then Res.ok (b, (0 : Int), errOffset)
      else if (Int.ofNat o.toNat) >
          (if Int.ofNat b.Data.len > b.DecoderConfig.WindowSize then b.DecoderConfig.WindowSize else Int.ofNat b.Data.len) then
        Res.ok (b, (0 : Int), errOffset)
      else if Int.ofNat m.toNat > b.DecoderConfig.BufferSize - (Int.ofNat b.Data.len) then
        Res.bind (DecoderBuffer_shrink b (Int.ofNat m.toNat + (Int.ofNat b.Data.len))) fun r_1 =>
          if Int.ofNat m.toNat > r_1.1.DecoderConfig.BufferSize - (Int.ofNat r_1.1.Data.len) then
            if Int.ofNat m.toNat > (r_1.1.DecoderConfig.BufferSize - r_1.1.DecoderConfig.WindowSize) then
              Res.ok (r_1.1, (0 : Int), errMatchLen)
            else Res.ok (r_1.1, (0 : Int), ErrFullBuffer)
          else matchTail grow fuel r_1.1 (Int.ofNat m.toNat) (Int.ofNat o.toNat)
      else matchTail grow fuel b (Int.ofNat m.toNat) (Int.ofNat o.toNat) := rfl

theorem loop_unfold (grow : Nat → Nat → Nat) (fuel : Nat) (b : DecoderBuffer) (n off : Int) :
    DecoderBuffer_WriteMatch_loop_1 grow (fuel + 1) b n off =
      if n > off then
        Res.bind (Slice.slice b.Data ((Int.ofNat b.Data.len) - off) (Int.ofNat b.Data.len)) fun t =>
          if n - off ≤ off then Res.ok ({ b with Data := Slice.append grow b.Data t.data }, n - off, off)
          else DecoderBuffer_WriteMatch_loop_1 grow fuel { b with Data := Slice.append grow b.Data t.data } (n - off) (off * (2 : Int) ^ 1)
      else Res.ok (b, n, off) := rfl

theorem model_loop_unfold (g : Grow) (m : DecBuf) (n off : Nat) :
    DecBuf.copyLoop g m n off =
      if n > off ∧ off > 0 then
        if n - off ≤ off then (m.append g (m.data.drop (m.data.length - off)), n - off, off)
        else DecBuf.copyLoop g (m.append g (m.data.drop (m.data.length - off))) (n - off) (off * 2)
      else (m, n, off) := by
  rw [DecBuf.copyLoop]
  by_cases h : n > off ∧ off > 0
  · simp only [h, and_self, dite_true, if_true]
  · simp only [h, dite_false, if_false]

/-- the doubling loop: with `0 < off ≤ len(Data)` and fuel above `n` the generated loop neither
    panics nor runs out of fuel, and is the model's `copyLoop` -/
theorem loop_spec (g : Nat → Nat → Nat) (hg : GrowOK g) :
    ∀ (fuel : Nat) (b : DecoderBuffer) (n off : Nat), SWF b.Data → 0 < off → off ≤ b.Data.len → n < fuel →
    ∃ b', DecoderBuffer_WriteMatch_loop_1 g fuel b (n : Int) (off : Int) =
        Res.ok (b', ((DecBuf.copyLoop g (ofDB b) n off).2.1 : Int), ((DecBuf.copyLoop g (ofDB b) n off).2.2 : Int)) ∧
      ofDB b' = (DecBuf.copyLoop g (ofDB b) n off).1 ∧ SWF b'.Data ∧
      b'.R = b.R ∧ b'.Off = b.Off ∧ b'.DecoderConfig = b.DecoderConfig ∧
      ((DecBuf.copyLoop g (ofDB b) n off).2.2 ≤ b'.Data.len) ∧
      ((DecBuf.copyLoop g (ofDB b) n off).2.1 ≤ (DecBuf.copyLoop g (ofDB b) n off).2.2) := by
  intro fuel
  induction fuel with
  | zero => intro b n off _ _ _ hf; omega
  | succ fuel ih =>
    intro b n off hd h0 hol hf
    have hd' : b.Data.len ≤ b.Data.arr.length := hd
    rw [loop_unfold, model_loop_unfold]
    by_cases hn : n > off
    · have hn' : (n : Int) > (off : Int) := by omega
      have hn'' : n > off ∧ off > 0 := ⟨hn, h0⟩
      simp only [hn', hn'', and_self, if_true, Int.ofNat_eq_natCast]
      have hsub : (b.Data.len : Int) - (off : Int) = ((b.Data.len - off : Nat) : Int) := by omega
      rw [hsub, slice_ok _ _ _ (by omega) hd]
      simp only [bind_ok]
      have ht : ({ arr := List.drop (b.Data.len - off) b.Data.arr, len := b.Data.len - (b.Data.len - off) } : Slice).data
          = (ofDB b).data.drop ((ofDB b).data.length - off) := by
        have hl : (ofDB b).data.length = b.Data.len := data_length hd
        rw [hl]
        simp only [Slice.data, ofDB, List.drop_take]
      rw [ht]
      obtain ⟨a1, a2, a3⟩ := db_append g hg b hd ((ofDB b).data.drop ((ofDB b).data.length - off))
      have hdl : ((ofDB b).data.drop ((ofDB b).data.length - off)).length = off := by
        have hl : (ofDB b).data.length = b.Data.len := data_length hd
        simp only [List.length_drop, hl]; omega
      rw [hdl] at a3
      by_cases h2 : n - off ≤ off
      · have h2' : (n : Int) - (off : Int) ≤ (off : Int) := by omega
        have hc : (n : Int) - (off : Int) = ((n - off : Nat) : Int) := by omega
        rw [if_pos h2, if_pos h2', hc]
        refine ⟨_, rfl, a1, a2, rfl, rfl, rfl, ?_, h2⟩
        show off ≤ (Slice.append g b.Data _).len
        rw [a3]; omega
      · have h2' : ¬ (n : Int) - (off : Int) ≤ (off : Int) := by omega
        simp only [h2, h2', if_false]
        have hc : (n : Int) - (off : Int) = ((n - off : Nat) : Int) := by omega
        have hc2 : (off : Int) * (2 : Int) ^ 1 = ((off * 2 : Nat) : Int) := by
          rw [Int.pow_succ, Int.pow_zero]; omega
        rw [hc, hc2]
        obtain ⟨b', e1, e2, e3, e4, e5, e6, e7, e8⟩ :=
          ih { b with Data := Slice.append g b.Data ((ofDB b).data.drop ((ofDB b).data.length - off)) } (n - off) (off * 2)
            a2 (by omega) (by show off * 2 ≤ (Slice.append g b.Data _).len; rw [a3]; omega) (by omega)
        rw [a1] at e1 e2 e7 e8
        exact ⟨b', e1, e2, e3, e4, e5, e6, e7, e8⟩
    · have hn' : ¬ (n : Int) > (off : Int) := by omega
      have hn'' : ¬ (n > off ∧ off > 0) := by omega
      simp only [hn', hn'', if_false]
      exact ⟨b, rfl, rfl, hd, rfl, rfl, rfl, hol, by omega⟩


theorem u32_eq_zero (o : UInt32) : o = 0 ↔ o.toNat = 0 :=
  ⟨fun h => by rw [h]; rfl, fun h => UInt32.toNat_inj.mp (by rw [h]; rfl)⟩

theorem u32_pos (m : UInt32) : m > 0 ↔ m.toNat > 0 := by
  show 0 < m ↔ _
  rw [UInt32.lt_iff_toNat_lt]; rfl

theorem slice_data (s : Slice) (_hs : SWF s) (i j : Nat) (hij : i ≤ j) (hj : j ≤ s.len) :
    ({ arr := s.arr.drop i, len := j - i } : Slice).data = (s.data.drop i).take (j - i) := by
  simp only [Slice.data, List.drop_take, List.take_take]
  congr 1
  omega

theorem model_shrink_facts (m : DecBuf) (g : Nat) :
    (DecBuf.shrink m g).1.data.length ≤ m.data.length ∧ m.bs ≤ (DecBuf.shrink m g).1.bs ∧
    Min.min m.data.length m.ws ≤ (DecBuf.shrink m g).1.data.length ∧
    (DecBuf.shrink m g).1.ws = m.ws ∧ (DecBuf.shrink m g).1.off = m.off := by
  rw [model_shrink_unfold]
  unfold modelShrinkTail
  by_cases h1 : m.bs < m.cap <;> by_cases h2 : g ≤ m.cap <;> simp only [h1, h2, if_true, if_false] <;>
    (try split) <;> (try dsimp only) <;> (try simp only [List.length_drop]) <;>
    exact ⟨by omega, by omega, by omega, trivial, trivial⟩

theorem matchTail_spec (g : Nat → Nat → Nat) (hg : GrowOK g) (fuel : Nat) (b : DecoderBuffer) (h : DBWF b)
    (m o : Nat) (hf : m < fuel) (ho : o ≤ b.Data.len) (hom : o = 0 → m = 0) :
    ∃ b', matchTail g fuel b (m : Int) (o : Int) = Res.ok (b', (m : Int), Gen.Err.ok) ∧
      ofDB b' = { (DecBuf.copyMatch g (ofDB b) m o) with off := (ofDB b).off + m } ∧ DBWF b' ∧
      b'.DecoderConfig = b.DecoderConfig ∧ b'.Data.len = b.Data.len + m := by
  suffices hmain : ∃ b', matchTail g fuel b (m : Int) (o : Int) = Res.ok (b', (m : Int), Gen.Err.ok) ∧
      ofDB b' = { (DecBuf.copyMatch g (ofDB b) m o) with off := (ofDB b).off + m } ∧ DBWF b' ∧
      b'.DecoderConfig = b.DecoderConfig by
    obtain ⟨b', f1, f2, f3, f4⟩ := hmain
    refine ⟨b', f1, f2, f3, f4, ?_⟩
    have hcl := DecBuf.copyMatch_length g (ofDB b) m o (by
      have : (ofDB b).data.length = b.Data.len := data_length h.data
      rw [this]; omega)
    have h1 : (ofDB b').data.length = b'.Data.len := data_length f3.data
    have h2 : (ofDB b).data.length = b.Data.len := data_length h.data
    rw [← h1, f2, ← h2]
    exact hcl
  obtain ⟨hd, hr0, ho0, hw0, hb0⟩ := h
  have hd' : b.Data.len ≤ b.Data.arr.length := hd
  unfold matchTail DecBuf.copyMatch
  -- the state after the loop
  have key : ∃ b1, DecoderBuffer_WriteMatch_loop_1 g fuel b (m : Int) (o : Int) =
        Res.ok (b1, ((DecBuf.copyLoop g (ofDB b) m o).2.1 : Int), ((DecBuf.copyLoop g (ofDB b) m o).2.2 : Int)) ∧
      ofDB b1 = (DecBuf.copyLoop g (ofDB b) m o).1 ∧ SWF b1.Data ∧
      b1.R = b.R ∧ b1.Off = b.Off ∧ b1.DecoderConfig = b.DecoderConfig ∧
      ((DecBuf.copyLoop g (ofDB b) m o).2.2 ≤ b1.Data.len) ∧
      ((DecBuf.copyLoop g (ofDB b) m o).2.1 ≤ (DecBuf.copyLoop g (ofDB b) m o).2.2) := by
    by_cases ho0' : o = 0
    · have hm0 := hom ho0'
      subst ho0'; subst hm0
      obtain ⟨f, rfl⟩ : ∃ f, fuel = f + 1 := ⟨fuel - 1, by omega⟩
      rw [loop_unfold, model_loop_unfold]
      simp only [Int.natCast_zero, gt_iff_lt, Int.lt_irrefl, if_false, Nat.lt_irrefl, false_and]
      exact ⟨b, rfl, rfl, hd, rfl, rfl, rfl, Nat.zero_le _, Nat.le_refl _⟩
    · exact loop_spec g hg fuel b m o hd (by omega) ho hf
  obtain ⟨b1, e1, e2, e3, e4, e5, e6, e7, e8⟩ := key
  rw [e1]
  simp only [bind_ok, Int.ofNat_eq_natCast]
  have e3' : b1.Data.len ≤ b1.Data.arr.length := e3
  have hl1 : (ofDB b1).data.length = b1.Data.len := data_length e3
  rw [← e2]
  -- abbreviations for the loop results
  generalize (DecBuf.copyLoop g (ofDB b) m o).2.1 = n1 at *
  generalize (DecBuf.copyLoop g (ofDB b) m o).2.2 = off1 at *
  have hj : (b1.Data.len : Int) - (off1 : Int) = ((b1.Data.len - off1 : Nat) : Int) := by omega
  have hjn : ((b1.Data.len - off1 : Nat) : Int) + (n1 : Int) = ((b1.Data.len - off1 + n1 : Nat) : Int) := by omega
  rw [hj, hjn, slice_ok _ _ _ (by omega) (by omega)]
  simp only [bind_ok]
  rw [slice_data _ e3 _ _ (by omega) (by omega)]
  have hsub : b1.Data.len - off1 + n1 - (b1.Data.len - off1) = n1 := by omega
  rw [hsub]
  obtain ⟨a1, a2, a3⟩ := db_append g hg b1 e3 ((b1.Data.data.drop (b1.Data.len - off1)).take n1)
  refine ⟨_, rfl, ?_, ⟨a2, by rw [e4]; exact hr0, by show (0:Int) ≤ b1.Off + (m:Int); rw [e5]; omega, by rw [e6]; exact hw0, by rw [e6]; exact hb0⟩, e6⟩
  simp only [hl1]
  have hdd : (ofDB b1).data = b1.Data.data := rfl
  rw [hdd, ← a1]
  simp only [ofDB, e4, e5, e6]
  congr 1
  omega


/-- D08 `WriteMatch(m, o)`: for every fuel above `m` the generated function neither panics nor
    runs out of fuel and agrees with the model.  `len(Data) ≤ BufferSize` is the buffer invariant
    the model's natural-number subtraction `bs - len` relies on. -/
theorem gen_dbuf_writeMatch (g : Nat → Nat → Nat) (hg : GrowOK g) (fuel : Nat) (b : DecoderBuffer) (h : DBWF b)
    (hlen : (b.Data.len : Int) ≤ b.DecoderConfig.BufferSize) (m o : UInt32) (hf : m.toNat < fuel) :
    ∃ b' e, DecoderBuffer_WriteMatch g fuel b m o =
        Res.ok (b', ((DecBuf.writeMatch g (ofDB b) m.toNat o.toNat).2.1 : Int), e) ∧
      ofDB b' = (DecBuf.writeMatch g (ofDB b) m.toNat o.toNat).1 ∧
      errOf e = some (DecBuf.writeMatch g (ofDB b) m.toNat o.toNat).2.2 ∧ DBWF b' ∧
      (b'.Data.len : Int) ≤ b'.DecoderConfig.BufferSize := by
  have hwf := h
  obtain ⟨hd, hr0, ho0, hw0, hb0⟩ := h
  have hl : (ofDB b).data.length = b.Data.len := data_length hd
  obtain ⟨W, hW⟩ : ∃ W : Nat, b.DecoderConfig.WindowSize = (W : Int) := ⟨_, (Int.toNat_of_nonneg hw0).symm⟩
  obtain ⟨B, hB⟩ : ∃ B : Nat, b.DecoderConfig.BufferSize = (B : Int) := ⟨_, (Int.toNat_of_nonneg hb0).symm⟩
  have hmw : (ofDB b).ws = W := by simp only [ofDB]; omega
  have hmb : (ofDB b).bs = B := by simp only [ofDB]; omega
  rw [gen_writeMatch_unfold]
  unfold DecBuf.writeMatch
  simp only [hl, hmw, hmb, hW, hB, Int.ofNat_eq_natCast, u32_eq_zero, u32_pos]
  generalize m.toNat = M at *
  generalize o.toNat = O at *
  by_cases h1 : O = 0 ∧ M > 0
  · simp only [h1, and_self, if_true]
    exact ⟨_, _, rfl, rfl, errOf_offset, hwf, hlen⟩
  · simp only [h1, if_false]
    have hwin : (if (b.Data.len : Int) > (W : Int) then (W : Int) else (b.Data.len : Int)) = ((Min.min b.Data.len W : Nat) : Int) := by
      split <;> omega
    rw [hwin]
    by_cases h2 : O > Min.min b.Data.len W
    · have h2' : (O : Int) > ((Min.min b.Data.len W : Nat) : Int) := by omega
      simp only [h2, h2', if_true]
      exact ⟨_, _, rfl, rfl, errOf_offset, hwf, hlen⟩
    · have h2' : ¬ (O : Int) > ((Min.min b.Data.len W : Nat) : Int) := by omega
      simp only [h2, h2', if_false]
      rw [hB] at hlen
      by_cases h3 : M > B - b.Data.len
      · have h3' : (M : Int) > (B : Int) - (b.Data.len : Int) := by omega
        simp only [h3, h3', if_true]
        obtain ⟨b', e1, e2, e3, e4, e5⟩ := gen_dbuf_shrink b hwf ((M : Int) + (b.Data.len : Int))
        have hto : ((M : Int) + (b.Data.len : Int)).toNat = M + b.Data.len := by omega
        rw [hto] at e1 e2
        obtain ⟨s1, s2, s3, s4, s5⟩ := model_shrink_facts (ofDB b) (M + b.Data.len)
        rw [e1]
        simp only [bind_ok]
        have hl' : (DecBuf.shrink (ofDB b) (M + b.Data.len)).1.data.length = b'.Data.len := by
          rw [← e2]; exact data_length e3.data
        have hbs' : (DecBuf.shrink (ofDB b) (M + b.Data.len)).1.bs = b'.DecoderConfig.BufferSize.toNat := by
          rw [← e2]; rfl
        have hws' : (DecBuf.shrink (ofDB b) (M + b.Data.len)).1.ws = b'.DecoderConfig.WindowSize.toNat := by
          rw [← e2]; rfl
        have hb0' := e3.bs
        have hw0' := e3.ws
        simp only [hl, hmb, hmw, hl', hbs'] at s1 s2 s3
        have hlen' : (b'.Data.len : Int) ≤ b'.DecoderConfig.BufferSize := by omega
        by_cases h4 : M ≤ (DecBuf.shrink (ofDB b) (M + b.Data.len)).1.bs - (DecBuf.shrink (ofDB b) (M + b.Data.len)).1.data.length
        · have h4' : ¬ (M : Int) > b'.DecoderConfig.BufferSize - (b'.Data.len : Int) := by
            rw [hbs', hl'] at h4; omega
          simp only [h4, h4', decide_true, not_true_eq_false, if_false]
          obtain ⟨b2, f1, f2, f3, f4, f5⟩ := matchTail_spec g hg fuel b' e3 M O hf (by omega) (by omega)
          rw [f1]
          refine ⟨_, _, rfl, ?_, errOf_ok, f3, ?_⟩
          · rw [f2, e2]
          · rw [f4, f5]; omega
        · have h4' : (M : Int) > b'.DecoderConfig.BufferSize - (b'.Data.len : Int) := by
            rw [hbs', hl'] at h4; omega
          simp only [h4, h4', decide_false, Bool.false_eq_true, not_false_eq_true, if_true]
          by_cases h5 : M > (DecBuf.shrink (ofDB b) (M + b.Data.len)).1.bs - (DecBuf.shrink (ofDB b) (M + b.Data.len)).1.ws
          · have h5' : (M : Int) > b'.DecoderConfig.BufferSize - b'.DecoderConfig.WindowSize := by
              rw [hbs', hws'] at h5; omega
            simp only [h5, h5', if_true]
            exact ⟨_, _, rfl, e2, errOf_matchLen, e3, hlen'⟩
          · have h5' : ¬ (M : Int) > b'.DecoderConfig.BufferSize - b'.DecoderConfig.WindowSize := by
              rw [hbs', hws'] at h5; omega
            simp only [h5, h5', if_false]
            exact ⟨_, _, rfl, e2, errOf_full, e3, hlen'⟩
      · have h3' : ¬ (M : Int) > (B : Int) - (b.Data.len : Int) := by omega
        simp only [h3, h3', if_false, not_true_eq_false]
        obtain ⟨b2, f1, f2, f3, f4, f5⟩ := matchTail_spec g hg fuel b hwf M O hf (by omega) (by omega)
        rw [f1]
        refine ⟨_, _, rfl, f2, errOf_ok, f3, ?_⟩
        rw [f4, f5, hB]; omega


/-- the state outside of the invariant `len(Data) ≤ BufferSize` on which code and model differ -/
def discrB : DecoderBuffer :=
  { Data := { arr := [1, 2, 3, 4, 5], len := 5 }, R := 0, Off := 5, DecoderConfig := { WindowSize := 1, BufferSize := 4 } }

/-- `WriteMatch(0, 0)` with `len(Data) = 5 > BufferSize = 4` (reachable only by assigning the public
    fields): the Go code calls `shrink`, which raises `BufferSize` to `cap(Data) = 5`; the model
    (natural-number subtraction `bs - len = 0`, `0 > 0` false) leaves `bs = 4`.  Hence the hypothesis
    `len(Data) ≤ BufferSize` of D08/D09. -/
theorem writeMatch_discrepancy (g : Nat → Nat → Nat) :
    (∃ b', DecoderBuffer_WriteMatch g 1 discrB 0 0 = Res.ok (b', 0, Gen.Err.ok) ∧ (ofDB b').bs = 5) ∧
    (DecBuf.writeMatch g (ofDB discrB) 0 0).1.bs = 4 ∧ (DecBuf.writeMatch g (ofDB discrB) 0 0).2.2 = .ok := by
  refine ⟨⟨_, rfl, rfl⟩, ?_, ?_⟩ <;>
  · have h1 : (DecBuf.writeMatch g (ofDB discrB) 0 0).1.bs = 4 ∧ (DecBuf.writeMatch g (ofDB discrB) 0 0).2.2 = .ok := by
      unfold DecBuf.writeMatch
      simp [ofDB, discrB, Slice.data, DecBuf.copyMatch_def, DecBuf.copyLoop_zero, DecBuf.append]
    first | exact h1.1 | exact h1.2


/-! ### WriteBlock -/

/-- the two copies of the doubling loop (in `WriteMatch` and in `WriteBlock`) are the same function -/
theorem wb_loop2_eq (g : Nat → Nat → Nat) : ∀ (fuel : Nat) (b : DecoderBuffer) (n off : Int),
    DecoderBuffer_WriteBlock_loop_2 g fuel b n off = DecoderBuffer_WriteMatch_loop_1 g fuel b n off := by
  intro fuel
  induction fuel with
  | zero => intro b n off; rfl
  | succ f ih =>
    intro b n off
    unfold DecoderBuffer_WriteBlock_loop_2 DecoderBuffer_WriteMatch_loop_1
    simp only [ih]

/-- the copy of a match, with the rest of the computation as a continuation -/
def copyTail {α : Type} (grow : Nat → Nat → Nat) (fuel : Nat) (b : DecoderBuffer) (m : Int) (off0 : Int)
    (kont : DecoderBuffer → Res α) : Res α :=
  Res.bind (DecoderBuffer_WriteMatch_loop_1 grow fuel b m off0) fun r =>
    Res.bind (Slice.slice r.1.Data ((Int.ofNat r.1.Data.len) - r.2.2) ((Int.ofNat r.1.Data.len) - r.2.2 + r.2.1)) fun t =>
    kont { r.1 with Data := Slice.append grow r.1.Data t.data }

/-- `loop_spec` including the case `o = 0` (then `m = 0` and the loop does nothing) -/
theorem loop_spec0 (g : Nat → Nat → Nat) (hg : GrowOK g) (fuel : Nat) (b : DecoderBuffer) (hd : SWF b.Data)
    (m o : Nat) (hf : m < fuel) (ho : o ≤ b.Data.len) (hom : o = 0 → m = 0) :
    ∃ b1, DecoderBuffer_WriteMatch_loop_1 g fuel b (m : Int) (o : Int) =
        Res.ok (b1, ((DecBuf.copyLoop g (ofDB b) m o).2.1 : Int), ((DecBuf.copyLoop g (ofDB b) m o).2.2 : Int)) ∧
      ofDB b1 = (DecBuf.copyLoop g (ofDB b) m o).1 ∧ SWF b1.Data ∧
      b1.R = b.R ∧ b1.Off = b.Off ∧ b1.DecoderConfig = b.DecoderConfig ∧
      ((DecBuf.copyLoop g (ofDB b) m o).2.2 ≤ b1.Data.len) ∧
      ((DecBuf.copyLoop g (ofDB b) m o).2.1 ≤ (DecBuf.copyLoop g (ofDB b) m o).2.2) := by
  by_cases ho0' : o = 0
  · have hm0 := hom ho0'
    subst ho0'; subst hm0
    obtain ⟨f, rfl⟩ : ∃ f, fuel = f + 1 := ⟨fuel - 1, by omega⟩
    rw [loop_unfold, model_loop_unfold]
    simp only [Int.natCast_zero, gt_iff_lt, Int.lt_irrefl, if_false, Nat.lt_irrefl, false_and]
    exact ⟨b, rfl, rfl, hd, rfl, rfl, rfl, Nat.zero_le _, Nat.le_refl _⟩
  · exact loop_spec g hg fuel b m o hd (by omega) ho hf

theorem copyTail_spec (g : Nat → Nat → Nat) (hg : GrowOK g) (fuel : Nat) (b : DecoderBuffer) (h : DBWF b)
    (m o : Nat) (hf : m < fuel) (ho : o ≤ b.Data.len) (hom : o = 0 → m = 0) :
    ∃ b', (∀ {α : Type} (kont : DecoderBuffer → Res α), copyTail g fuel b (m : Int) (o : Int) kont = kont b') ∧
      ofDB b' = DecBuf.copyMatch g (ofDB b) m o ∧ DBWF b' ∧
      b'.DecoderConfig = b.DecoderConfig ∧ b'.Data.len = b.Data.len + m ∧ b'.Off = b.Off := by
  suffices hmain : ∃ b', (∀ {α : Type} (kont : DecoderBuffer → Res α), copyTail g fuel b (m : Int) (o : Int) kont = kont b') ∧
      ofDB b' = DecBuf.copyMatch g (ofDB b) m o ∧ DBWF b' ∧
      b'.DecoderConfig = b.DecoderConfig ∧ b'.Off = b.Off by
    obtain ⟨b', f1, f2, f3, f4, f5⟩ := hmain
    refine ⟨b', f1, f2, f3, f4, ?_, f5⟩
    have hcl := DecBuf.copyMatch_length g (ofDB b) m o (by
      have : (ofDB b).data.length = b.Data.len := data_length h.data
      rw [this]; omega)
    have h1 : (ofDB b').data.length = b'.Data.len := data_length f3.data
    have h2 : (ofDB b).data.length = b.Data.len := data_length h.data
    rw [← h1, f2, ← h2]
    exact hcl
  obtain ⟨hd, hr0, ho0, hw0, hb0⟩ := h
  obtain ⟨b1, e1, e2, e3, e4, e5, e6, e7, e8⟩ := loop_spec0 g hg fuel b hd m o hf ho hom
  have e3' : b1.Data.len ≤ b1.Data.arr.length := e3
  have hl1 : (ofDB b1).data.length = b1.Data.len := data_length e3
  rw [DecBuf.copyMatch_def, ← e2]
  generalize (DecBuf.copyLoop g (ofDB b) m o).2.1 = n1 at *
  generalize (DecBuf.copyLoop g (ofDB b) m o).2.2 = off1 at *
  have hj : (b1.Data.len : Int) - (off1 : Int) = ((b1.Data.len - off1 : Nat) : Int) := by omega
  have hjn : ((b1.Data.len - off1 : Nat) : Int) + (n1 : Int) = ((b1.Data.len - off1 + n1 : Nat) : Int) := by omega
  have hsub : b1.Data.len - off1 + n1 - (b1.Data.len - off1) = n1 := by omega
  obtain ⟨a1, a2, a3⟩ := db_append g hg b1 e3 ((b1.Data.data.drop (b1.Data.len - off1)).take n1)
  refine ⟨{ b1 with Data := Slice.append g b1.Data ((b1.Data.data.drop (b1.Data.len - off1)).take n1) }, ?_, ?_,
    ⟨a2, by rw [e4]; exact hr0, by show (0:Int) ≤ b1.Off; rw [e5]; exact ho0, by rw [e6]; exact hw0, by rw [e6]; exact hb0⟩, e6, e5⟩
  · intro α kont
    unfold copyTail
    rw [e1]
    simp only [bind_ok, Int.ofNat_eq_natCast]
    rw [hj, hjn, slice_ok _ _ _ (by omega) (by omega)]
    simp only [bind_ok]
    rw [slice_data _ e3 _ _ (by omega) (by omega), hsub]
  · simp only [hl1]
    have hdd : (ofDB b1).data = b1.Data.data := rfl
    rw [hdd, ← a1]


/-- one sequence after the space check: append the literals, advance the literals, copy the match -/
def wbStep {α : Type} (grow : Nat → Nat → Nat) (fuel : Nat) (b : DecoderBuffer) (blk : Block') (s : Gen.Seq)
    (kont : DecoderBuffer → Block' → Res α) : Res α :=
  Res.bind (Slice.slice blk.Literals 0 (Int.ofNat s.LitLen.toNat)) fun t_4 =>
  Res.bind (Slice.slice blk.Literals (Int.ofNat s.LitLen.toNat) (Int.ofNat blk.Literals.len)) fun t_5 =>
  copyTail grow fuel { b with Data := Slice.append grow b.Data t_4.data } (Int.ofNat s.MatchLen.toNat) (Int.ofNat s.Offset.toNat)
    fun b' => kont b' { blk with Literals := t_5 }

theorem wb_loop_nil (grow : Nat → Nat → Nat) (fuel : Nat) (n0 : Int) (i k : Int) (s : Gen.Seq) (err : Gen.Err)
    (b : DecoderBuffer) (ld : Int) (blk : Block') :
    DecoderBuffer_WriteBlock_loop_1 grow fuel n0 [] i k s err b ld blk = Res.ok (0, k, s, err, b, ld, blk) := rfl

theorem wb_loop_cons (grow : Nat → Nat → Nat) (fuel : Nat) (n0 : Int) (x : Gen.Seq) (rest : List Gen.Seq)
    (i k : Int) (s : Gen.Seq) (err : Gen.Err) (b : DecoderBuffer) (ld : Int) (blk : Block') :
    DecoderBuffer_WriteBlock_loop_1 grow fuel n0 (x :: rest) i k s err b ld blk =
      if (Int.ofNat x.LitLen.toNat) > (Int.ofNat blk.Literals.len) then Res.ok (1, i, x, errLitLen, b, ld, blk)
      else if (x.Offset = 0) ∧ (x.MatchLen > 0) then Res.ok (1, i, x, errOffset, b, ld, blk)
      else if (Int.ofNat x.Offset.toNat) >
          (if (Int.ofNat b.Data.len) + (Int.ofNat x.LitLen.toNat) > b.DecoderConfig.WindowSize then b.DecoderConfig.WindowSize
           else (Int.ofNat b.Data.len) + (Int.ofNat x.LitLen.toNat)) then
        Res.ok (1, i, x, errOffset, b, ld, blk)
      else if (Int.ofNat x.LitLen.toNat) + (Int.ofNat x.MatchLen.toNat) > b.DecoderConfig.BufferSize - (Int.ofNat b.Data.len) then
        Res.bind (DecoderBuffer_shrink b ((Int.ofNat x.LitLen.toNat) + (Int.ofNat x.MatchLen.toNat) + (Int.ofNat b.Data.len))) fun r_4 =>
          if (Int.ofNat x.LitLen.toNat) + (Int.ofNat x.MatchLen.toNat) > r_4.1.DecoderConfig.BufferSize - (Int.ofNat r_4.1.Data.len) then
            Res.ok (1, i, x,
              (if (Int.ofNat x.LitLen.toNat) + (Int.ofNat x.MatchLen.toNat) > (r_4.1.DecoderConfig.BufferSize - r_4.1.DecoderConfig.WindowSize)
               then errMatchLen else ErrFullBuffer), r_4.1, ld - r_4.2, blk)
          else wbStep grow fuel r_4.1 blk x fun b' blk' =>
            DecoderBuffer_WriteBlock_loop_1 grow fuel n0 rest (i + 1) i x err b' (ld - r_4.2) blk'
      else wbStep grow fuel b blk x fun b' blk' =>
        DecoderBuffer_WriteBlock_loop_1 grow fuel n0 rest (i + 1) i x err b' ld blk' := by
  rw [DecoderBuffer_WriteBlock_loop_1]
  simp only [wbStep, copyTail, wb_loop2_eq]


def ofSeq (s : Gen.Seq) : LZ.Seq :=
  { litLen := s.LitLen.toNat, matchLen := s.MatchLen.toNat, offset := s.Offset.toNat, aux := s.Aux.toNat }

theorem wbStep_spec (g : Nat → Nat → Nat) (hg : GrowOK g) (fuel : Nat) (b : DecoderBuffer) (h : DBWF b)
    (blk : Block') (hl : SWF blk.Literals) (s : Gen.Seq)
    (hll : s.LitLen.toNat ≤ blk.Literals.len) (hf : s.MatchLen.toNat < fuel)
    (ho : s.Offset.toNat ≤ b.Data.len + s.LitLen.toNat) (hom : s.Offset.toNat = 0 → s.MatchLen.toNat = 0) :
    ∃ b' blk', (∀ {α : Type} (kont : DecoderBuffer → Block' → Res α), wbStep g fuel b blk s kont = kont b' blk') ∧
      ofDB b' = DecBuf.copyMatch g ((ofDB b).append g (blk.Literals.data.take s.LitLen.toNat)) s.MatchLen.toNat s.Offset.toNat ∧
      DBWF b' ∧ b'.DecoderConfig = b.DecoderConfig ∧ b'.Off = b.Off ∧
      b'.Data.len = b.Data.len + s.LitLen.toNat + s.MatchLen.toNat ∧
      blk'.Literals.data = blk.Literals.data.drop s.LitLen.toNat ∧ SWF blk'.Literals ∧
      blk'.Sequences = blk.Sequences ∧ blk'.Literals.len = blk.Literals.len - s.LitLen.toNat := by
  obtain ⟨hd, hr0, ho0, hw0, hb0⟩ := h
  have hl' : blk.Literals.len ≤ blk.Literals.arr.length := hl
  generalize hL : s.LitLen.toNat = L at *
  have h0 : ((0 : Nat) : Int) = 0 := rfl
  -- the two slices of the literals
  have e4 : Slice.slice blk.Literals 0 (Int.ofNat L) = Res.ok { arr := blk.Literals.arr, len := L } := by
    rw [← h0, Int.ofNat_eq_natCast, slice_ok _ 0 L (Nat.zero_le _) (by omega)]; rfl
  have e5 : Slice.slice blk.Literals (Int.ofNat L) (Int.ofNat blk.Literals.len)
      = Res.ok { arr := blk.Literals.arr.drop L, len := blk.Literals.len - L } := by
    rw [Int.ofNat_eq_natCast, Int.ofNat_eq_natCast, slice_ok _ L _ hll hl]
  have d4 : ({ arr := blk.Literals.arr, len := L } : Slice).data = blk.Literals.data.take L := by
    rw [take_data_eq _ _ hll]; rfl
  have d5 : ({ arr := blk.Literals.arr.drop L, len := blk.Literals.len - L } : Slice).data = blk.Literals.data.drop L := by
    simp only [Slice.data, List.drop_take]
  have w5 : SWF { arr := blk.Literals.arr.drop L, len := blk.Literals.len - L } := by
    show blk.Literals.len - L ≤ (blk.Literals.arr.drop L).length
    simp only [List.length_drop]; omega
  obtain ⟨a1, a2, a3⟩ := db_append g hg b hd (blk.Literals.data.take L)
  have htl : (blk.Literals.data.take L).length = L := by
    rw [List.length_take, data_length hl]; omega
  rw [htl] at a3
  have hwf1 : DBWF { b with Data := Slice.append g b.Data (blk.Literals.data.take L) } := ⟨a2, hr0, ho0, hw0, hb0⟩
  obtain ⟨b', c1, c2, c3, c4, c5, c6⟩ := copyTail_spec g hg fuel _ hwf1 s.MatchLen.toNat s.Offset.toNat hf
    (by show s.Offset.toNat ≤ (Slice.append g b.Data _).len; rw [a3]; exact ho) hom
  refine ⟨b', { blk with Literals := { arr := blk.Literals.arr.drop L, len := blk.Literals.len - L } }, ?_, ?_, c3, c4, c6, ?_, d5, w5, rfl, rfl⟩
  · intro α kont
    unfold wbStep
    rw [hL, e4, e5]
    simp only [bind_ok, d4, Int.ofNat_eq_natCast]
    exact c1 _
  · rw [c2, a1]
  · rw [c5]
    show (Slice.append g b.Data _).len + _ = _
    rw [a3]


theorem model_shrink_len (m : DecBuf) (g : Nat) :
    (DecBuf.shrink m g).1.data.length = m.data.length - (DecBuf.shrink m g).2 := by
  rw [model_shrink_unfold]
  unfold modelShrinkTail
  by_cases h1 : m.bs < m.cap <;> by_cases h2 : g ≤ m.cap <;> simp only [h1, h2, if_true, if_false] <;>
    (try split) <;> (try dsimp only) <;> (try simp only [List.length_drop]) <;> omega

/-- the sequence loop of `WriteBlock` -/
theorem wb_loop_spec (g : Nat → Nat → Nat) (hg : GrowOK g) (fuel : Nat) (n0 : Int) :
    ∀ (seqs : List Gen.Seq) (i dl : Nat) (k0 : Int) (s0 : Gen.Seq) (b : DecoderBuffer) (LD : Int) (blk : Block'),
    DBWF b → SWF blk.Literals → (b.Data.len : Int) ≤ b.DecoderConfig.BufferSize →
    (∀ s ∈ seqs, s.MatchLen.toNat < fuel) → LD - (dl : Int) ≤ (b.Data.len : Int) →
    ∃ code k' s' e' b' blk',
      DecoderBuffer_WriteBlock_loop_1 g fuel n0 seqs (i : Int) k0 s0 Gen.Err.ok b (LD - (dl : Int)) blk =
        Res.ok (code, k', s', e', b',
          LD - ((DecBuf.seqLoop g (ofDB b) (seqs.map ofSeq) blk.Literals.data i dl).2.2.2.1 : Int), blk') ∧
      ofDB b' = (DecBuf.seqLoop g (ofDB b) (seqs.map ofSeq) blk.Literals.data i dl).1 ∧ DBWF b' ∧
      (b'.Data.len : Int) ≤ b'.DecoderConfig.BufferSize ∧
      blk'.Literals.data = (DecBuf.seqLoop g (ofDB b) (seqs.map ofSeq) blk.Literals.data i dl).2.2.1 ∧
      SWF blk'.Literals ∧ blk'.Sequences = blk.Sequences ∧
      LD - ((DecBuf.seqLoop g (ofDB b) (seqs.map ofSeq) blk.Literals.data i dl).2.2.2.1 : Int) ≤ (b'.Data.len : Int) ∧
      b'.Off = b.Off ∧ blk'.Literals.len ≤ blk.Literals.len ∧
      ((DecBuf.seqLoop g (ofDB b) (seqs.map ofSeq) blk.Literals.data i dl).2.2.2.2 = .ok →
        code = 0 ∧ e' = Gen.Err.ok ∧
        (DecBuf.seqLoop g (ofDB b) (seqs.map ofSeq) blk.Literals.data i dl).2.1 = i + seqs.length) ∧
      ((DecBuf.seqLoop g (ofDB b) (seqs.map ofSeq) blk.Literals.data i dl).2.2.2.2 ≠ .ok →
        code = 1 ∧ errOf e' = some (DecBuf.seqLoop g (ofDB b) (seqs.map ofSeq) blk.Literals.data i dl).2.2.2.2 ∧
        k' = ((DecBuf.seqLoop g (ofDB b) (seqs.map ofSeq) blk.Literals.data i dl).2.1 : Int)) := by
  intro seqs
  induction seqs with
  | nil =>
    intro i dl k0 s0 b LD blk hwf hl hlen _ hld
    rw [wb_loop_nil]
    simp only [List.map_nil, DecBuf.seqLoop]
    exact ⟨_, _, _, _, _, _, rfl, rfl, hwf, hlen, rfl, hl, rfl, hld, rfl, Nat.le_refl _,
      fun _ => ⟨rfl, rfl, by simp⟩, fun hne => absurd rfl hne⟩
  | cons x rest ih =>
    intro i dl k0 s0 b LD blk hwf hl hlen hfuel hld
    have hwf0 := hwf
    obtain ⟨hd, hr0, ho0, hw0, hb0⟩ := hwf
    have hdl : (ofDB b).data.length = b.Data.len := data_length hd
    have hll : blk.Literals.data.length = blk.Literals.len := data_length hl
    obtain ⟨W, hW⟩ : ∃ W : Nat, b.DecoderConfig.WindowSize = (W : Int) := ⟨_, (Int.toNat_of_nonneg hw0).symm⟩
    obtain ⟨B, hB⟩ : ∃ B : Nat, b.DecoderConfig.BufferSize = (B : Int) := ⟨_, (Int.toNat_of_nonneg hb0).symm⟩
    have hmw : (ofDB b).ws = W := by simp only [ofDB]; omega
    have hmb : (ofDB b).bs = B := by simp only [ofDB]; omega
    have hfx : x.MatchLen.toNat < fuel := hfuel x (List.mem_cons_self)
    have hfr : ∀ s ∈ rest, s.MatchLen.toNat < fuel := fun s hs => hfuel s (List.mem_cons_of_mem _ hs)
    rw [wb_loop_cons]
    simp only [List.map_cons, DecBuf.seqLoop]
    have hsl : (ofSeq x).litLen = x.LitLen.toNat := rfl
    have hsm : (ofSeq x).matchLen = x.MatchLen.toNat := rfl
    have hso : (ofSeq x).offset = x.Offset.toNat := rfl
    simp only [hsl, hsm, hso, hdl, hll, hmw, hmb, hW, hB, Int.ofNat_eq_natCast, u32_eq_zero, u32_pos]
    generalize hxl : x.LitLen.toNat = L at *
    generalize hxm : x.MatchLen.toNat = M at *
    generalize hxo : x.Offset.toNat = O at *
    rw [hB] at hlen
    by_cases h1 : L > blk.Literals.len
    · have h1' : (L : Int) > (blk.Literals.len : Int) := by omega
      simp only [h1, h1', if_true]
      exact ⟨_, _, _, _, _, _, rfl, rfl, hwf0, (by rw [hB]; exact hlen), rfl, hl, rfl, hld, rfl, Nat.le_refl _,
        (fun hc => by cases hc), fun _ => ⟨rfl, errOf_litLen, rfl⟩⟩
    · have h1' : ¬ (L : Int) > (blk.Literals.len : Int) := by omega
      simp only [h1, h1', if_false]
      by_cases h2 : O = 0 ∧ M > 0
      · simp only [h2, and_self, if_true]
        exact ⟨_, _, _, _, _, _, rfl, rfl, hwf0, (by rw [hB]; exact hlen), rfl, hl, rfl, hld, rfl, Nat.le_refl _,
          (fun hc => by cases hc), fun _ => ⟨rfl, errOf_offset, rfl⟩⟩
      · simp only [h2, if_false]
        have hwin : (if (b.Data.len : Int) + (L : Int) > (W : Int) then (W : Int) else (b.Data.len : Int) + (L : Int))
            = ((Min.min (b.Data.len + L) W : Nat) : Int) := by
          split <;> omega
        rw [hwin]
        by_cases h3 : O > Min.min (b.Data.len + L) W
        · have h3' : (O : Int) > ((Min.min (b.Data.len + L) W : Nat) : Int) := by omega
          simp only [h3, h3', if_true]
          exact ⟨_, _, _, _, _, _, rfl, rfl, hwf0, (by rw [hB]; exact hlen), rfl, hl, rfl, hld, rfl, Nat.le_refl _,
            (fun hc => by cases hc), fun _ => ⟨rfl, errOf_offset, rfl⟩⟩
        · have h3' : ¬ (O : Int) > ((Min.min (b.Data.len + L) W : Nat) : Int) := by omega
          simp only [h3, h3', if_false]
          have hom : O = 0 → M = 0 := by omega
          by_cases h4 : L + M > B - b.Data.len
          · have h4' : (L : Int) + (M : Int) > (B : Int) - (b.Data.len : Int) := by omega
            simp only [h4, h4', if_true]
            obtain ⟨b1, e1, e2, e3, e4, e5⟩ := gen_dbuf_shrink b hwf0 ((L : Int) + (M : Int) + (b.Data.len : Int))
            have hto : ((L : Int) + (M : Int) + (b.Data.len : Int)).toNat = L + M + b.Data.len := by omega
            rw [hto] at e1 e2
            obtain ⟨s1, s2, s3, s4, s5⟩ := model_shrink_facts (ofDB b) (L + M + b.Data.len)
            have s6 := model_shrink_len (ofDB b) (L + M + b.Data.len)
            have s7 := model_shrink_delta_le (ofDB b) (L + M + b.Data.len)
            rw [e1]
            simp only [bind_ok]
            have hl' : (DecBuf.shrink (ofDB b) (L + M + b.Data.len)).1.data.length = b1.Data.len := by
              rw [← e2]; exact data_length e3.data
            have hbs' : (DecBuf.shrink (ofDB b) (L + M + b.Data.len)).1.bs = b1.DecoderConfig.BufferSize.toNat := by
              rw [← e2]; rfl
            have hws' : (DecBuf.shrink (ofDB b) (L + M + b.Data.len)).1.ws = b1.DecoderConfig.WindowSize.toNat := by
              rw [← e2]; rfl
            have hb0' := e3.bs
            have hw0' := e3.ws
            simp only [hdl, hmb, hmw, hl', hbs'] at s1 s2 s3 s6 s7
            have hlen' : (b1.Data.len : Int) ≤ b1.DecoderConfig.BufferSize := by omega
            generalize hD : (DecBuf.shrink (ofDB b) (L + M + b.Data.len)).2 = D at *
            have hldD : LD - (dl : Int) - (D : Int) = LD - ((dl + D : Nat) : Int) := by omega
            by_cases h5 : L + M ≤ (DecBuf.shrink (ofDB b) (L + M + b.Data.len)).1.bs - (DecBuf.shrink (ofDB b) (L + M + b.Data.len)).1.data.length
            · have h5' : ¬ (L : Int) + (M : Int) > b1.DecoderConfig.BufferSize - (b1.Data.len : Int) := by
                rw [hbs', hl'] at h5; omega
              simp only [h5, h5', decide_true, not_true_eq_false, if_false]
              obtain ⟨b2, blk2, c1, c2, c3, c4, c5, c6, c7, c8, c9, c10⟩ :=
                wbStep_spec g hg fuel b1 e3 blk hl x (by rw [hxl]; omega) (by rw [hxm]; exact hfx)
                  (by rw [hxo, hxl]; omega) (by rw [hxo, hxm]; exact hom)
              rw [c1, hldD]
              simp only [hxl, hxm, hxo] at c2 c6 c7 c10
              have hi1 : (i : Int) + 1 = ((i + 1 : Nat) : Int) := by omega
              rw [hi1]
              obtain ⟨code, k', s', e', b', blk', r1, r2, r3, r4, r5, r6, r7, r8, r9, r9b, r10, r11⟩ :=
                ih (i + 1) (dl + D) (i : Int) x b2 LD blk2 c3 c8 (by rw [c4, c6]; rw [hbs', hl'] at h5; omega) hfr
                  (by rw [c6]; omega)
              rw [c2, c7, e2] at r1 r2 r5 r8 r10 r11
              refine ⟨code, k', s', e', b', blk', r1, r2, r3, r4, r5, r6, by rw [r7, c9], r8, by rw [r9, c5, e5], by omega, ?_, r11⟩
              intro hok
              obtain ⟨q1, q2, q3⟩ := r10 hok
              exact ⟨q1, q2, by rw [q3, List.length_cons]; omega⟩
            · have h5' : (L : Int) + (M : Int) > b1.DecoderConfig.BufferSize - (b1.Data.len : Int) := by
                rw [hbs', hl'] at h5; omega
              simp only [h5, h5', decide_false, Bool.false_eq_true, not_false_eq_true, if_true]
              rw [hldD]
              by_cases h6 : L + M > (DecBuf.shrink (ofDB b) (L + M + b.Data.len)).1.bs - (DecBuf.shrink (ofDB b) (L + M + b.Data.len)).1.ws
              · have h6' : (L : Int) + (M : Int) > b1.DecoderConfig.BufferSize - b1.DecoderConfig.WindowSize := by
                  rw [hbs', hws'] at h6; omega
                simp only [h6, h6', if_true]
                exact ⟨_, _, _, _, _, _, rfl, e2, e3, hlen', rfl, hl, rfl, by omega, e5, Nat.le_refl _,
                  (fun hc => by cases hc), fun _ => ⟨rfl, errOf_matchLen, rfl⟩⟩
              · have h6' : ¬ (L : Int) + (M : Int) > b1.DecoderConfig.BufferSize - b1.DecoderConfig.WindowSize := by
                  rw [hbs', hws'] at h6; omega
                simp only [h6, h6', if_false]
                exact ⟨_, _, _, _, _, _, rfl, e2, e3, hlen', rfl, hl, rfl, by omega, e5, Nat.le_refl _,
                  (fun hc => by cases hc), fun _ => ⟨rfl, errOf_full, rfl⟩⟩
          · have h4' : ¬ (L : Int) + (M : Int) > (B : Int) - (b.Data.len : Int) := by omega
            simp only [h4, h4', if_false, not_true_eq_false, Nat.add_zero]
            obtain ⟨b2, blk2, c1, c2, c3, c4, c5, c6, c7, c8, c9, c10⟩ :=
              wbStep_spec g hg fuel b hwf0 blk hl x (by rw [hxl]; omega) (by rw [hxm]; exact hfx)
                (by rw [hxo, hxl]; omega) (by rw [hxo, hxm]; exact hom)
            rw [c1]
            simp only [hxl, hxm, hxo] at c2 c6 c7 c10
            have hi1 : (i : Int) + 1 = ((i + 1 : Nat) : Int) := by omega
            rw [hi1]
            obtain ⟨code, k', s', e', b', blk', r1, r2, r3, r4, r5, r6, r7, r8, r9, r9b, r10, r11⟩ :=
              ih (i + 1) dl (i : Int) x b2 LD blk2 c3 c8 (by rw [c4, c6, hB]; omega) hfr (by rw [c6]; omega)
            rw [c2, c7] at r1 r2 r5 r8 r10 r11
            refine ⟨code, k', s', e', b', blk', r1, r2, r3, r4, r5, r6, by rw [r7, c9], r8, by rw [r9, c5], by omega, ?_, r11⟩
            intro hok
            obtain ⟨q1, q2, q3⟩ := r10 hok
            exact ⟨q1, q2, by rw [q3, List.length_cons]; omega⟩


def ofBlock (blk : Block') : LZ.Block := { seqs := blk.Sequences.map ofSeq, lits := blk.Literals.data }

/-- the statements after the label `end:` -/
def wbEnd (b : DecoderBuffer) (blk : Block') (ld ll k : Int) (err : Gen.Err) :
    Res (DecoderBuffer × Int × Int × Int × Gen.Err) :=
  Res.ok ({ b with Off := b.Off + ((Int.ofNat b.Data.len) - ld) }, (Int.ofNat b.Data.len) - ld, k,
    ll - (Int.ofNat blk.Literals.len), err)

/-- the trailing literals -/
def wbLits (grow : Nat → Nat → Nat) (b : DecoderBuffer) (blk : Block') (ld ll k : Int) (err : Gen.Err) :
    Res (DecoderBuffer × Int × Int × Int × Gen.Err) :=
  Res.bind (Slice.slice blk.Literals 0 (0 : Int)) fun t_2 =>
    wbEnd { b with Data := Slice.append grow b.Data blk.Literals.data } { blk with Literals := t_2 } ld ll k err

theorem gen_writeBlock_unfold (grow : Nat → Nat → Nat) (fuel : Nat) (b : DecoderBuffer) (blk : Block') :
    DecoderBuffer_WriteBlock grow fuel b blk =
      Res.bind (DecoderBuffer_WriteBlock_loop_1 grow fuel 0 blk.Sequences 0 0
          { LitLen := 0, MatchLen := 0, Offset := 0, Aux := 0 } Gen.Err.ok b (Int.ofNat b.Data.len) blk) fun r =>
        if r.1 = 1 then
          wbEnd r.2.2.2.2.1 r.2.2.2.2.2.2 r.2.2.2.2.2.1 (Int.ofNat blk.Literals.len) r.2.1 r.2.2.2.1
        else
          if (Int.ofNat r.2.2.2.2.1.Data.len) + (Int.ofNat r.2.2.2.2.2.2.Literals.len) > r.2.2.2.2.1.DecoderConfig.BufferSize then
            Res.bind (DecoderBuffer_shrink r.2.2.2.2.1 ((Int.ofNat r.2.2.2.2.1.Data.len) + (Int.ofNat r.2.2.2.2.2.2.Literals.len))) fun r_2 =>
              if (Int.ofNat r.2.2.2.2.1.Data.len) + (Int.ofNat r.2.2.2.2.2.2.Literals.len) - r_2.2 > r_2.1.DecoderConfig.BufferSize then
                wbEnd r_2.1 r.2.2.2.2.2.2 (r.2.2.2.2.2.1 - r_2.2) (Int.ofNat blk.Literals.len)
                  (Int.ofNat r.2.2.2.2.2.2.Sequences.length) ErrFullBuffer
              else wbLits grow r_2.1 r.2.2.2.2.2.2 (r.2.2.2.2.2.1 - r_2.2) (Int.ofNat blk.Literals.len)
                  (Int.ofNat r.2.2.2.2.2.2.Sequences.length) r.2.2.2.1
          else wbLits grow r.2.2.2.2.1 r.2.2.2.2.2.2 r.2.2.2.2.2.1 (Int.ofNat blk.Literals.len)
                  (Int.ofNat r.2.2.2.2.2.2.Sequences.length) r.2.2.2.1 := rfl


/-- D09 `WriteBlock(blk)`: for every fuel above the match lengths of the block the generated function
    neither panics nor runs out of fuel and agrees with the model on the buffer, `n`, `k`, `l` and the error -/
theorem gen_dbuf_writeBlock (g : Nat → Nat → Nat) (hg : GrowOK g) (fuel : Nat) (b : DecoderBuffer) (h : DBWF b)
    (hlen : (b.Data.len : Int) ≤ b.DecoderConfig.BufferSize) (blk : Block') (hl : SWF blk.Literals)
    (hf : ∀ s ∈ blk.Sequences, s.MatchLen.toNat < fuel) :
    ∃ b' e, DecoderBuffer_WriteBlock g fuel b blk =
        Res.ok (b', (DecBuf.writeBlock g (ofDB b) (ofBlock blk)).2.1,
          ((DecBuf.writeBlock g (ofDB b) (ofBlock blk)).2.2.1 : Int),
          ((DecBuf.writeBlock g (ofDB b) (ofBlock blk)).2.2.2.1 : Int), e) ∧
      ofDB b' = (DecBuf.writeBlock g (ofDB b) (ofBlock blk)).1 ∧
      errOf e = some (DecBuf.writeBlock g (ofDB b) (ofBlock blk)).2.2.2.2 ∧ DBWF b' ∧
      (b'.Data.len : Int) ≤ b'.DecoderConfig.BufferSize := by
  generalize hmb : ofBlock blk = mb
  obtain ⟨ms, ml⟩ := mb
  simp only [ofBlock, LZ.Block.mk.injEq] at hmb
  obtain ⟨hms, hml⟩ := hmb
  subst hms; subst hml
  have hdl : (ofDB b).data.length = b.Data.len := data_length h.data
  have hll : blk.Literals.data.length = blk.Literals.len := data_length hl
  obtain ⟨code, k', s', e', b1, blk1, r1, r2, r3, r4, r5, r6, r7, r8, r9, r9b, r10, r11⟩ :=
    wb_loop_spec g hg fuel 0 blk.Sequences 0 0 0 { LitLen := 0, MatchLen := 0, Offset := 0, Aux := 0 } b
      (b.Data.len : Int) blk h hl hlen hf (by omega)
  have hz : ((0 : Nat) : Int) = 0 := rfl
  rw [hz, Int.sub_zero] at r1
  rw [gen_writeBlock_unfold, Int.ofNat_eq_natCast, r1]
  unfold DecBuf.writeBlock
  simp only [bind_ok, hdl, hll, Int.ofNat_eq_natCast]
  have hl1 : (ofDB b1).data.length = b1.Data.len := data_length r3.data
  have hll1 : blk1.Literals.data.length = blk1.Literals.len := data_length r6
  rw [← r2, ← r5]
  generalize hK : (DecBuf.seqLoop g (ofDB b) (List.map ofSeq blk.Sequences) blk.Literals.data 0 0).2.1 = mk at *
  generalize hDL : (DecBuf.seqLoop g (ofDB b) (List.map ofSeq blk.Sequences) blk.Literals.data 0 0).2.2.2.1 = mdl at *
  generalize hE : (DecBuf.seqLoop g (ofDB b) (List.map ofSeq blk.Sequences) blk.Literals.data 0 0).2.2.2.2 = me at *
  simp only [hl1, hll1]
  obtain ⟨hd1, hr1, ho1, hw1, hb1⟩ := r3
  by_cases hme : me = .ok
  · obtain ⟨q1, q2, q3⟩ := r10 hme
    subst q1; subst q2
    simp only [hme, ne_eq, not_true_eq_false, if_false, Nat.zero_ne_one]
    have hbs1 : (ofDB b1).bs = b1.DecoderConfig.BufferSize.toNat := rfl
    have hwfb1 : DBWF b1 := ⟨hd1, hr1, ho1, hw1, hb1⟩
    have hK0 : mk = blk.Sequences.length := by omega
    rw [r7, hK0]
    -- the trailing literals: append and finish
    have finL : ∀ (b2 : DecoderBuffer) (LDD : Int), DBWF b2 → LDD ≤ (b2.Data.len : Int) →
        (b2.Data.len : Int) + (blk1.Literals.len : Int) ≤ b2.DecoderConfig.BufferSize →
        ∃ b', wbLits g b2 blk1 LDD (blk.Literals.len : Int) (blk.Sequences.length : Int) Gen.Err.ok =
            Res.ok (b', ((b2.Data.len + blk1.Literals.len : Nat) : Int) - LDD, (blk.Sequences.length : Int),
              (blk.Literals.len : Int), Gen.Err.ok) ∧
          ofDB b' = { (DecBuf.append g (ofDB b2) blk1.Literals.data) with
            off := (((ofDB b2).off : Int) + (((b2.Data.len + blk1.Literals.len : Nat) : Int) - LDD)).toNat } ∧
          DBWF b' ∧ (b'.Data.len : Int) ≤ b'.DecoderConfig.BufferSize := by
      intro b2 LDD hwf2 hldd hfit
      obtain ⟨hd2, hr2, ho2, hw2, hb2⟩ := hwf2
      obtain ⟨a1, a2, a3⟩ := db_append g hg b2 hd2 blk1.Literals.data
      rw [hll1] at a3
      unfold wbLits wbEnd
      have h0 : ((0 : Nat) : Int) = 0 := rfl
      rw [← h0, slice_ok _ 0 0 (Nat.le_refl _) (Nat.zero_le _)]
      simp only [bind_ok, Int.ofNat_eq_natCast, a3, Nat.sub_zero, Int.natCast_zero, Int.sub_zero]
      refine ⟨_, rfl, ?_, ⟨a2, hr2, by show (0 : Int) ≤ b2.Off + (((b2.Data.len + blk1.Literals.len : Nat) : Int) - LDD); omega, hw2, hb2⟩, ?_⟩
      · rw [← a1]
        simp only [ofDB]
        congr 1
        omega
      · show ((Slice.append g b2.Data blk1.Literals.data).len : Int) ≤ b2.DecoderConfig.BufferSize
        rw [a3]; omega
    by_cases h1 : b1.Data.len + blk1.Literals.len > (ofDB b1).bs
    · have h1' : (b1.Data.len : Int) + (blk1.Literals.len : Int) > b1.DecoderConfig.BufferSize := by
        rw [hbs1] at h1; omega
      simp only [h1, h1', if_true]
      obtain ⟨b2, e1, e2, e3, e4, e5⟩ := gen_dbuf_shrink b1 hwfb1 ((b1.Data.len : Int) + (blk1.Literals.len : Int))
      have hto : ((b1.Data.len : Int) + (blk1.Literals.len : Int)).toNat = b1.Data.len + blk1.Literals.len := by omega
      rw [hto] at e1 e2
      obtain ⟨s1, s2, s3, s4, s5⟩ := model_shrink_facts (ofDB b1) (b1.Data.len + blk1.Literals.len)
      have s6 := model_shrink_len (ofDB b1) (b1.Data.len + blk1.Literals.len)
      have s7 := model_shrink_delta_le (ofDB b1) (b1.Data.len + blk1.Literals.len)
      rw [e1]
      simp only [bind_ok]
      have hl2 : (DecBuf.shrink (ofDB b1) (b1.Data.len + blk1.Literals.len)).1.data.length = b2.Data.len := by
        rw [← e2]; exact data_length e3.data
      have hbs2 : (DecBuf.shrink (ofDB b1) (b1.Data.len + blk1.Literals.len)).1.bs = b2.DecoderConfig.BufferSize.toNat := by
        rw [← e2]; rfl
      have hb02 := e3.bs
      simp only [hl1, hl2, hbs2, hbs1] at s1 s2 s6 s7
      rw [← e2]
      generalize hD : (DecBuf.shrink (ofDB b1) (b1.Data.len + blk1.Literals.len)).2 = D at *
      by_cases h2 : b1.Data.len + blk1.Literals.len - D > (ofDB b2).bs
      · have hbs2' : (ofDB b2).bs = b2.DecoderConfig.BufferSize.toNat := rfl
        have h2' : (b1.Data.len : Int) + (blk1.Literals.len : Int) - (D : Int) > b2.DecoderConfig.BufferSize := by
          rw [hbs2'] at h2; omega
        simp only [h2, h2', if_true, wbEnd, Int.ofNat_eq_natCast]
        have hl2' : (ofDB b2).data.length = b2.Data.len := data_length e3.data
        simp only [hl2']
        refine ⟨{ b2 with Off := b2.Off + ((b2.Data.len : Int) - ((b.Data.len : Int) - (mdl : Int) - (D : Int))) }, ErrFullBuffer, ?_, ?_, errOf_full,
          ⟨e3.data, e3.r, by show (0 : Int) ≤ b2.Off + ((b2.Data.len : Int) - ((b.Data.len : Int) - (mdl : Int) - (D : Int))); have := e3.off; omega, e3.ws, e3.bs⟩,
          by show (b2.Data.len : Int) ≤ b2.DecoderConfig.BufferSize; omega⟩
        · have hL : ((blk.Literals.len - blk1.Literals.len : Nat) : Int) = (blk.Literals.len : Int) - (blk1.Literals.len : Int) := by omega
          have hN : (b2.Data.len : Int) - ((b.Data.len : Int) - (mdl : Int) - (D : Int)) = (b2.Data.len : Int) - ((b.Data.len : Int) - ((mdl + D : Nat) : Int)) := by omega
          rw [hL, hN]
        · simp only [ofDB]
          congr 1
          have := e3.off
          omega
      · have hbs2' : (ofDB b2).bs = b2.DecoderConfig.BufferSize.toNat := rfl
        have h2' : ¬ (b1.Data.len : Int) + (blk1.Literals.len : Int) - (D : Int) > b2.DecoderConfig.BufferSize := by
          rw [hbs2'] at h2; omega
        simp only [h2, h2', if_false]
        obtain ⟨b3, f1, f2, f3, f4⟩ := finL b2 ((b.Data.len : Int) - (mdl : Int) - (D : Int)) e3 (by omega) (by omega)
        rw [f1]
        have hl2' : (ofDB b2).data.length = b2.Data.len := data_length e3.data
        refine ⟨b3, Gen.Err.ok, ?_, ?_, errOf_ok, f3, f4⟩
        · simp only [DecBuf.append, List.length_append, hl2', hll1, List.length_nil, Nat.sub_zero]
          congr 3
          omega
        · rw [f2]
          simp only [DecBuf.append, List.length_append, hl2', hll1]
          congr 1
          omega
    · have h1' : ¬ (b1.Data.len : Int) + (blk1.Literals.len : Int) > b1.DecoderConfig.BufferSize := by
        rw [hbs1] at h1; omega
      simp only [h1, h1', if_false, Nat.add_zero]
      obtain ⟨b3, f1, f2, f3, f4⟩ := finL b1 ((b.Data.len : Int) - (mdl : Int)) hwfb1 r8 (by omega)
      rw [f1]
      refine ⟨b3, Gen.Err.ok, ?_, ?_, errOf_ok, f3, f4⟩
      · simp only [DecBuf.append, List.length_append, hl1, hll1, List.length_nil, Nat.sub_zero]
      · rw [f2]
        simp only [DecBuf.append, List.length_append, hl1, hll1]
  · obtain ⟨q1, q2, q3⟩ := r11 hme
    subst q1
    simp only [hme, ne_eq, not_false_eq_true, if_true, wbEnd, Int.ofNat_eq_natCast]
    refine ⟨{ b1 with Off := b1.Off + ((b1.Data.len : Int) - ((b.Data.len : Int) - (mdl : Int))) }, e', ?_, ?_, q2,
      ⟨hd1, hr1, by show (0 : Int) ≤ b1.Off + ((b1.Data.len : Int) - ((b.Data.len : Int) - (mdl : Int))); omega, hw1, hb1⟩, r4⟩
    · have hL : ((blk.Literals.len - blk1.Literals.len : Nat) : Int) = (blk.Literals.len : Int) - (blk1.Literals.len : Int) := by omega
      rw [q3, hL]
    · simp only [ofDB]
      congr 1
      omega


/-! ### the invariant `len(Data) ≤ BufferSize` -/

/-- the buffer invariant `len(Data) ≤ BufferSize` that D08/D09 assume, on the model -/
def LenInv (m : DecBuf) : Prop := m.data.length ≤ m.bs

theorem lenInv_iff (b : DecoderBuffer) (h : DBWF b) :
    LenInv (ofDB b) ↔ (b.Data.len : Int) ≤ b.DecoderConfig.BufferSize := by
  have hl : (ofDB b).data.length = b.Data.len := data_length h.data
  have hb := h.bs
  unfold LenInv
  rw [hl]
  simp only [ofDB]
  omega

theorem model_shrink_lenInv (m : DecBuf) (g : Nat) (h : LenInv m) : LenInv (DecBuf.shrink m g).1 := by
  obtain ⟨s1, s2, _, _, _⟩ := model_shrink_facts m g
  unfold LenInv at *; omega

theorem model_reset_lenInv (m : DecBuf) : LenInv m.reset := by
  unfold LenInv DecBuf.reset; simp

theorem model_writeByte_lenInv (g : Grow) (m : DecBuf) (c : Byte) (h : LenInv m) :
    LenInv (DecBuf.writeByte g m c).1 := by
  have hs := model_shrink_lenInv m (m.data.length + 1) h
  have hd := model_shrink_delta_le m (m.data.length + 1)
  have hl := model_shrink_len m (m.data.length + 1)
  unfold LenInv at *
  unfold DecBuf.writeByte
  by_cases h1 : m.data.length + 1 > m.bs
  · simp only [h1, if_true]
    by_cases h2 : m.data.length + 1 - (DecBuf.shrink m (m.data.length + 1)).2 > (DecBuf.shrink m (m.data.length + 1)).1.bs
    · simp only [h2, if_true]; exact hs
    · simp only [h2, if_false, DecBuf.append, List.length_append, List.length_singleton]; omega
  · simp only [h1, if_false, DecBuf.append, List.length_append, List.length_singleton]; omega

theorem model_write_lenInv (g : Grow) (m : DecBuf) (p : List Byte) (h : LenInv m) :
    LenInv (DecBuf.write g m p).1 := by
  have hs := model_shrink_lenInv m (m.data.length + p.length) h
  have hd := model_shrink_delta_le m (m.data.length + p.length)
  have hl := model_shrink_len m (m.data.length + p.length)
  unfold LenInv at *
  unfold DecBuf.write
  by_cases h1 : m.data.length + p.length > m.bs
  · simp only [h1, if_true]
    by_cases h2 : m.data.length + p.length - (DecBuf.shrink m (m.data.length + p.length)).2 > (DecBuf.shrink m (m.data.length + p.length)).1.bs
    · simp only [h2, if_true]; exact hs
    · simp only [h2, if_false, DecBuf.append, List.length_append]; omega
  · simp only [h1, if_false, DecBuf.append, List.length_append]; omega

/-- D10 the invariant `len(Data) ≤ BufferSize` (hypothesis of D08/D09, conclusion of D08/D09) holds after
    `Init` and is preserved by `Reset`, `shrink`, `WriteByte`, `Write` and `Read` -/
theorem gen_dbuf_lenInv (g : Nat → Nat → Nat) (hg : GrowOK g) (b : DecoderBuffer) (h : DBWF b)
    (hlen : (b.Data.len : Int) ≤ b.DecoderConfig.BufferSize) :
    (∀ b', DecoderBuffer_Reset b = Res.ok b' → (b'.Data.len : Int) ≤ b'.DecoderConfig.BufferSize) ∧
    (∀ x b' d, DecoderBuffer_shrink b x = Res.ok (b', d) → (b'.Data.len : Int) ≤ b'.DecoderConfig.BufferSize) ∧
    (∀ c b' e, DecoderBuffer_WriteByte g b c = Res.ok (b', e) → (b'.Data.len : Int) ≤ b'.DecoderConfig.BufferSize) ∧
    (∀ p b' n e, SWF p → DecoderBuffer_Write g b p = Res.ok (b', n, e) → (b'.Data.len : Int) ≤ b'.DecoderConfig.BufferSize) := by
  have hm := (lenInv_iff b h).mpr hlen
  refine ⟨?_, ?_, ?_, ?_⟩
  · intro b' hb'
    obtain ⟨b2, e1, e2, e3⟩ := gen_dbuf_reset b h
    rw [e1] at hb'; cases hb'
    exact (lenInv_iff _ e3).mp (by rw [e2]; exact model_reset_lenInv _)
  · intro x b' d hb'
    obtain ⟨b2, e1, e2, e3, _, _⟩ := gen_dbuf_shrink b h x
    rw [e1] at hb'; cases hb'
    exact (lenInv_iff _ e3).mp (by rw [e2]; exact model_shrink_lenInv _ _ hm)
  · intro c b' e hb'
    obtain ⟨b2, e2, e1, e3, _, e4⟩ := gen_dbuf_writeByte g hg b h c
    rw [e1] at hb'; cases hb'
    exact (lenInv_iff _ e4).mp (by rw [e3]; exact model_writeByte_lenInv g _ c hm)
  · intro p b' n e hp hb'
    obtain ⟨b2, e2, e1, e3, _, e4⟩ := gen_dbuf_write g hg b h p hp
    rw [e1] at hb'; cases hb'
    exact (lenInv_iff _ e4).mp (by rw [e3]; exact model_write_lenInv g _ _ hm)

/-- D10' … and holds after a successful `Init` -/
theorem gen_dbuf_init_lenInv (b b' : DecoderBuffer) (cfg : Gen.DecoderConfig)
    (h : DecoderBuffer_Init b cfg = Res.ok (b', Gen.Err.ok)) :
    (b'.Data.len : Int) ≤ b'.DecoderConfig.BufferSize := by
  have := gen_dbuf_init b cfg
  cases hi : DecBuf.init cfg.WindowSize cfg.BufferSize b.Data.cap with
  | none =>
    rw [hi] at this
    obtain ⟨e, he, hne⟩ := this
    rw [he] at h; cases h; exact absurd rfl hne
  | some m =>
    rw [hi] at this
    obtain ⟨b2, e1, e2, e3⟩ := this
    rw [e1] at h; cases h
    refine (lenInv_iff _ e3).mp ?_
    rw [e2]
    unfold DecBuf.init at hi
    split at hi
    · cases hi
    · cases hi; unfold LenInv; simp

end LZ.GenBuf

/-! ### axiom audit (printed on every build) -/
#print axioms LZ.GenBuf.gen_dbuf_writeMatch
#print axioms LZ.GenBuf.gen_dbuf_writeBlock
#print axioms LZ.GenBuf.gen_dbuf_lenInv
#print axioms LZ.GenBuf.gen_dbuf_init_lenInv
#print axioms LZ.GenBuf.writeMatch_discrepancy
