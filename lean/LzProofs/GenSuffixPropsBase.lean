/-
  LzProofs.GenSuffixPropsBase — lemmas shared by the theorems over the FOURTH part of the
  translator (tools/extract/code_part4.go): Go `int32` as Lean `Int32`, the abstraction of a
  `[]int32` slice value to the model's `Array Nat`, slices of byte slices.  It imports no
  translated function.
-/
import LzModel.Generated.CodeGSlicePrelude
import LzProofs.GenHashPropsBase

set_option linter.unusedSimpArgs false
set_option linter.unusedVariables false

namespace LZ.GenSuffix
open LZ LZ.Gen LZ.GenBuf LZ.GenHash

/-! ## int32 -/

theorem i32_add (a b : Int32) (h1 : -2147483648 ≤ a.toInt + b.toInt) (h2 : a.toInt + b.toInt < 2147483648) :
    (a + b).toInt = a.toInt + b.toInt := by
  rw [Int32.toInt_add]
  rw [Int.bmod_eq_of_le] <;> omega

theorem i32_sub (a b : Int32) (h1 : -2147483648 ≤ a.toInt - b.toInt) (h2 : a.toInt - b.toInt < 2147483648) :
    (a - b).toInt = a.toInt - b.toInt := by
  rw [Int32.toInt_sub]
  rw [Int.bmod_eq_of_le] <;> omega

theorem i32_ofInt (n : Int) (h1 : -2147483648 ≤ n) (h2 : n < 2147483648) : (Int32.ofInt n).toInt = n :=
  Int32.toInt_ofInt_of_le (by omega) (by omega)

theorem i32_zero : (0 : Int32).toInt = 0 := by decide
theorem i32_one : (1 : Int32).toInt = 1 := by decide
theorem i32_neg_one : (-1 : Int32).toInt = -1 := by decide

theorem i32_eq_iff (a b : Int32) : a = b ↔ a.toInt = b.toInt := Int32.toInt_inj.symm
theorem i32_lt_iff (a b : Int32) : a < b ↔ a.toInt < b.toInt := Int32.lt_iff_toInt_lt
theorem i32_le_iff (a b : Int32) : a ≤ b ↔ a.toInt ≤ b.toInt := Int32.le_iff_toInt_le
theorem i32_range (a : Int32) : -2147483648 ≤ a.toInt ∧ a.toInt < 2147483648 :=
  ⟨by have := a.le_toInt; omega, by have := a.toInt_lt; omega⟩

/-! ## abstraction `[]int32` ↦ `Array Nat` -/

/-- an `int32` entry as the model's natural number (the theorems assume the entries non-negative) -/
def i32n (x : Int32) : Nat := x.toInt.toNat

/-- the elements of a `[]int32` slice value as the model's array -/
def absI32 (s : GSlice Int32) : Array Nat := (s.data.map i32n).toArray

/-- all elements (not the capacity tail) are non-negative -/
def NonNeg (s : GSlice Int32) : Prop := ∀ i, i < s.len → 0 ≤ ((s.arr[i]?).getD 0).toInt

theorem absI32_size {s : GSlice Int32} (h : GWF s) : (absI32 s).size = s.len := by
  simp [absI32, gdata_length h]

theorem gdata_getElem? {α : Type} (s : GSlice α) (i : Nat) :
    s.data[i]? = if i < s.len then s.arr[i]? else none := by
  unfold GSlice.data
  rw [List.getElem?_take]

theorem absI32_getElem? {s : GSlice Int32} (h : GWF s) (i : Nat) (hi : i < s.len) :
    (absI32 s)[i]? = some (i32n ((s.arr[i]?).getD 0)) := by
  unfold GWF at h
  have hl : i < s.arr.length := by omega
  simp [absI32, gdata_getElem?, hi, List.getElem?_eq_getElem hl]

theorem absI32_getElem?_none {s : GSlice Int32} (h : GWF s) (i : Nat) (hi : ¬ i < s.len) :
    (absI32 s)[i]? = none := by
  simp [absI32, gdata_getElem?, hi]

theorem absI32_getD {s : GSlice Int32} (h : GWF s) (i : Nat) (hi : i < s.len) :
    (absI32 s).getD i 0 = i32n ((s.arr[i]?).getD 0) := by
  have := absI32_getElem? h i hi
  simp [Array.getD_eq_getD_getElem?, this]

/-- writing element `j` of the slice = `setIfInBounds` on the abstraction -/
theorem absI32_set (s : GSlice Int32) (j : Nat) (v : Int32) :
    absI32 { s with arr := s.arr.set j v } = (absI32 s).setIfInBounds j (i32n v) := by
  apply Array.ext_getElem?
  intro k
  simp only [absI32, GSlice.data, Array.getElem?_setIfInBounds, List.getElem?_toArray, List.getElem?_map,
    List.getElem?_take, List.getElem?_set, List.size_toArray, List.length_map, List.length_take,
    List.length_set]
  by_cases hk : k < s.len
  · by_cases hjk : j = k
    · subst hjk
      by_cases hl : j < s.arr.length
      · have : j < min s.len s.arr.length := by omega
        simp [hk, hl, this]
      · have : ¬ j < min s.len s.arr.length := by omega
        have hn : s.arr[j]? = none := List.getElem?_eq_none (by omega)
        simp [hk, hl, this, hn]
    · simp [hk, hjk]
  · by_cases hjk : j = k
    · subst hjk
      have : ¬ j < min s.len s.arr.length := by omega
      simp [hk, this]
    · simp [hk, hjk]

theorem gset_wf {α : Type} {s : GSlice α} (h : GWF s) (j : Nat) (v : α) :
    GWF { s with arr := s.arr.set j v } := by
  unfold GWF at *; simpa using h

theorem nonNeg_set {s : GSlice Int32} (h : NonNeg s) (j : Nat) (v : Int32) (hv : 0 ≤ v.toInt) :
    NonNeg { s with arr := s.arr.set j v } := by
  intro i hi
  have := h i hi
  simp only [List.getElem?_set]
  by_cases hji : j = i
  · subst hji
    by_cases hl : j < s.arr.length
    · simpa [hl] using hv
    · simpa [hl] using (by decide : (0:Int) ≤ (0 : Int32).toInt)
  · simpa [hji] using this

theorem drop_set_lt {α : Type} (l : List α) (j n : Nat) (v : α) (h : j < n) : (l.set j v).drop n = l.drop n := by
  rw [List.drop_set, if_pos h]

/-! ## byte slices -/

/-- `t[a:]` for `a ≤ len(t)`: the value and its elements -/
theorem bslice_tail (t : Slice) (ht : SWF t) (k : Int) (a : Nat) (hk : k = (a : Int)) (ha : a ≤ t.len) :
    ∃ p, Slice.slice t k (Int.ofNat t.len) = Res.ok p ∧ p.data = t.data.drop a := by
  subst hk
  unfold SWF at ht
  have := slice_ok t a t.len ha ht
  refine ⟨_, this, ?_⟩
  simp only [Slice.data]
  rw [List.drop_take]

end LZ.GenSuffix
