/-
  LzProofs.ReaderNil — `(0, nil)` answers of an `io.Reader` under `ParserBuffer.ReadFrom`.

  The io.Reader contract: "(0, nil) means nothing happened"; the loop of `ReadFrom`
  (`if err != nil { break }`) simply calls `Read` again.  In the model a response `(mx, 0)` of the
  script that delivers no byte (`mx = 0`, or the payload is exhausted) therefore CONTINUES the
  loop; the loop ends only with a full buffer, an exhausted script (io.EOF) or a response with a
  code `≠ 0`.  (An earlier version of the model rewrote such an answer into io.EOF.)

  * `readLoop_skip_nil` / `readLoop_skip_zero`: a response that delivers `(0, nil)` in front of a
    script is skipped (for a buffer that is not full; a full buffer does not call `Read` at all:
    `readLoop_full`).
  * `readLoop_stripNil`, `readFrom_nil_insensitive`: removing / inserting `(0, 0)` responses
    anywhere in ANY script (error free or not) changes nothing but the script position.
  * `readFrom_chunking_independentN`: chunking independence of `ReadFrom`
    (`readFrom_chunking_independent`, PBufProps) for the class `FillScriptN` that admits `(0, nil)`
    answers; `FillScriptN.of_stripNil`: a `FillScript` with `(0, 0)` responses inserted is in it.
  * examples: script `[(2,0),(0,0),(3,0)]` on payload "abcde" delivers all five bytes in one
    `ReadFrom`.
-/
import LzProofs.PBufProps
namespace LZ
namespace PBuf

/-! ## skipping a response that delivers `(0, nil)` -/

/-- the capacity chosen by the `grow` idiom of one loop iteration is a fixed point: running the
    loop on the grown buffer is running it on the original one -/
theorem readLoop_regrow (b : PBuf) (r : Reader) (h : b.data.length < b.cfg.bufferSize) (c : Nat)
    (hc : min (b.data.length + Facts.chunkSize) b.cfg.bufferSize + Facts.margin ≤ c)
    (hens : (if min (b.data.length + Facts.chunkSize) b.cfg.bufferSize + Facts.margin > b.cap
        then b.grow (min (b.data.length + Facts.chunkSize) b.cfg.bufferSize) else some b)
        = some { b with cap := c }) :
    readLoop { b with cap := c } r = readLoop b r := by
  obtain ⟨c1, -, hens1, hrl1⟩ := readLoop_step_cap b r h
  obtain ⟨c2, -, hens2, hrl2⟩ := readLoop_step_cap { b with cap := c } r h
  have e1 : c1 = c := by
    have := hens1.symm.trans hens
    simp only [Option.some.injEq] at this
    exact congrArg PBuf.cap this
  have e2 : c2 = c := by
    have hn : ¬ (min (b.data.length + Facts.chunkSize) b.cfg.bufferSize + Facts.margin > c) := by
      omega
    simp only [hn, if_false, Option.some.injEq] at hens2
    exact (congrArg PBuf.cap hens2).symm
  subst e1
  subst e2
  rw [hrl1, hrl2]

/-- **a response that delivers `(0, nil)` is skipped**: with room in the buffer, a response with
    code 0 that offers no byte (`mx = 0`) or meets an exhausted payload changes nothing; the loop
    goes on with the rest of the script. -/
theorem readLoop_skip_zero (b : PBuf) (p : List Byte) (mx : Nat) (rs : List (Nat × Nat))
    (h : b.data.length < b.cfg.bufferSize) (hz : mx = 0 ∨ p = []) :
    readLoop b ⟨p, (mx, 0) :: rs⟩ = readLoop b ⟨p, rs⟩ := by
  obtain ⟨c, hc, hens, hrl⟩ := readLoop_step_cap b ⟨p, (mx, 0) :: rs⟩ h
  rw [hrl]
  have hn : min3 mx (min (c - Facts.margin) b.cfg.bufferSize - b.data.length) p.length = 0 := by
    unfold min3
    rcases hz with hz | hz
    · omega
    · subst hz; simp
  simp only [hn, ne_eq, not_true_eq_false, if_false, List.take_zero, List.append_nil,
    List.drop_zero]
  exact readLoop_regrow b ⟨p, rs⟩ h c hc hens

/-- (a) `(0, 0)` in front of a script, buffer not full: the response is consumed without effect.
    Buffer, returned reader (payload and the script behind the responses consumed) and error are
    those of the script without it. -/
theorem readLoop_skip_nil (b : PBuf) (p : List Byte) (rs : List (Nat × Nat))
    (h : b.data.length < b.cfg.bufferSize) :
    readLoop b ⟨p, (0, 0) :: rs⟩ = readLoop b ⟨p, rs⟩ :=
  readLoop_skip_zero b p 0 rs h (Or.inl rfl)

/-- the complement: a full buffer does not call `Read`; the script keeps its `(0, 0)` -/
theorem readLoop_skip_nil_full (b : PBuf) (p : List Byte) (rs : List (Nat × Nat))
    (h : b.cfg.bufferSize ≤ b.data.length) :
    readLoop b ⟨p, (0, 0) :: rs⟩ = (b, ⟨p, (0, 0) :: rs⟩, .full) ∧
    readLoop b ⟨p, rs⟩ = (b, ⟨p, rs⟩, .full) :=
  ⟨readLoop_full b _ h, readLoop_full b _ h⟩

/-- the same for `ReadFrom` -/
theorem readFrom_skip_nil (b : PBuf) (p : List Byte) (rs : List (Nat × Nat))
    (h : b.data.length < b.cfg.bufferSize) :
    b.readFrom ⟨p, (0, 0) :: rs⟩ = b.readFrom ⟨p, rs⟩ := by
  unfold readFrom; rw [readLoop_skip_nil b p rs h]

/-- with the payload exhausted an error-free script is skipped entirely and `ReadFrom` reports
    io.EOF without touching the data -/
theorem readLoop_drained (rs : List (Nat × Nat)) : ∀ (b : PBuf), b.data.length < b.cfg.bufferSize →
    (∀ x ∈ rs, x.2 = 0) →
    ∃ c, readLoop b ⟨[], rs⟩ = ({ b with cap := c }, ⟨[], []⟩, .eof) := by
  induction rs with
  | nil =>
    intro b h _
    obtain ⟨c, -, hrl⟩ := readLoop_step b ⟨[], []⟩ h
    exact ⟨c, hrl⟩
  | cons x rs ih =>
    intro b h hx
    obtain ⟨mx, ec⟩ := x
    have : ec = 0 := hx (mx, ec) List.mem_cons_self
    subst this
    rw [readLoop_skip_zero b [] mx rs h (Or.inr rfl)]
    exact ih b h (fun y hy => hx y (List.mem_cons_of_mem _ hy))

/-! ## `(0, 0)` responses anywhere in a script -/

/-- the script without its `(0, 0)` responses -/
def stripNil (l : List (Nat × Nat)) : List (Nat × Nat) := l.filter (fun x => decide (x ≠ (0, 0)))

@[simp] theorem stripNil_nil : stripNil [] = [] := rfl

theorem stripNil_cons_nil (l : List (Nat × Nat)) : stripNil ((0, 0) :: l) = stripNil l := by
  simp [stripNil]

theorem stripNil_cons_of_ne {x : Nat × Nat} (hx : x ≠ (0, 0)) (l : List (Nat × Nat)) :
    stripNil (x :: l) = x :: stripNil l := by
  simp [stripNil, hx]

theorem stripNil_append (l₁ l₂ : List (Nat × Nat)) :
    stripNil (l₁ ++ l₂) = stripNil l₁ ++ stripNil l₂ := by
  simp [stripNil]

theorem stripNil_idem (l : List (Nat × Nat)) : stripNil (stripNil l) = stripNil l := by
  simp [stripNil]

theorem mem_stripNil {x : Nat × Nat} {l : List (Nat × Nat)} :
    x ∈ stripNil l ↔ x ∈ l ∧ x ≠ (0, 0) := by
  simp [stripNil]

theorem offers_stripNil (l : List (Nat × Nat)) : offers (stripNil l) = offers l := by
  induction l with
  | nil => rfl
  | cons x l ih =>
    by_cases hx : x = (0, 0)
    · subst hx; rw [stripNil_cons_nil, ih, offers_cons]; simp
    · rw [stripNil_cons_of_ne hx, offers_cons, offers_cons, ih]

theorem readLoop_resps_nil (b : PBuf) (p : List Byte) :
    stripNil (readLoop b ⟨p, []⟩).2.1.resps = (readLoop b ⟨p, stripNil []⟩).2.1.resps := by
  rw [stripNil_nil]
  by_cases hfull : b.cfg.bufferSize ≤ b.data.length
  · rw [readLoop_full b _ hfull]; rfl
  · obtain ⟨c, -, hrl⟩ := readLoop_step b ⟨p, []⟩ (by omega)
    rw [hrl]; rfl

/-- **`(0, 0)` responses do not matter**, for any script whatsoever: the loop of `ReadFrom` on a
    script and on the script without its `(0, 0)` responses ends with the same buffer (capacity
    included), the same remaining payload, the same error, and at corresponding script positions. -/
theorem readLoop_stripNil (rs : List (Nat × Nat)) : ∀ (b : PBuf) (p : List Byte),
    (readLoop b ⟨p, rs⟩).1 = (readLoop b ⟨p, stripNil rs⟩).1 ∧
    (readLoop b ⟨p, rs⟩).2.1.payload = (readLoop b ⟨p, stripNil rs⟩).2.1.payload ∧
    stripNil (readLoop b ⟨p, rs⟩).2.1.resps = (readLoop b ⟨p, stripNil rs⟩).2.1.resps ∧
    (readLoop b ⟨p, rs⟩).2.2 = (readLoop b ⟨p, stripNil rs⟩).2.2 := by
  induction rs with
  | nil => intro b p; exact ⟨rfl, rfl, readLoop_resps_nil b p, rfl⟩
  | cons x rs ih =>
    intro b p
    by_cases hfull : b.cfg.bufferSize ≤ b.data.length
    · rw [readLoop_full b _ hfull, readLoop_full b _ hfull]
      exact ⟨rfl, rfl, rfl, rfl⟩
    · have hroom : b.data.length < b.cfg.bufferSize := by omega
      by_cases hx : x = (0, 0)
      · subst hx
        rw [readLoop_skip_nil b p rs hroom, stripNil_cons_nil]
        exact ih b p
      · rw [stripNil_cons_of_ne hx]
        obtain ⟨mx, ec⟩ := x
        obtain ⟨c1, -, hens1, hrl1⟩ := readLoop_step_cap b ⟨p, (mx, ec) :: rs⟩ hroom
        obtain ⟨c2, -, hens2, hrl2⟩ := readLoop_step_cap b ⟨p, (mx, ec) :: stripNil rs⟩ hroom
        have e : c2 = c1 := by
          have := hens2.symm.trans hens1
          simp only [Option.some.injEq] at this
          exact congrArg PBuf.cap this
        subst e
        rw [hrl1, hrl2]
        simp only []
        by_cases hec : ec ≠ 0
        · rw [if_pos hec, if_pos hec]
          exact ⟨rfl, rfl, rfl, rfl⟩
        · rw [if_neg hec, if_neg hec]
          exact ih _ _

/-- the same for `ReadFrom`, with the byte count -/
theorem readFrom_stripNil (b : PBuf) (p : List Byte) (rs : List (Nat × Nat)) :
    (b.readFrom ⟨p, rs⟩).1 = (b.readFrom ⟨p, stripNil rs⟩).1 ∧
    (b.readFrom ⟨p, rs⟩).2.1.payload = (b.readFrom ⟨p, stripNil rs⟩).2.1.payload ∧
    stripNil (b.readFrom ⟨p, rs⟩).2.1.resps = (b.readFrom ⟨p, stripNil rs⟩).2.1.resps ∧
    (b.readFrom ⟨p, rs⟩).2.2 = (b.readFrom ⟨p, stripNil rs⟩).2.2 := by
  obtain ⟨h1, h2, h3, h4⟩ := readLoop_stripNil rs b p
  refine ⟨h1, h2, h3, ?_⟩
  show ((readLoop b ⟨p, rs⟩).1.data.length - b.data.length, (readLoop b ⟨p, rs⟩).2.2) =
    ((readLoop b ⟨p, stripNil rs⟩).1.data.length - b.data.length,
      (readLoop b ⟨p, stripNil rs⟩).2.2)
  rw [h1, h4]

/-- (b) **two scripts that differ only by inserted `(0, 0)` responses** — error free or not —
    carrying the same payload: `ReadFrom` yields the same buffer, the same count and error, the
    same remaining payload, and remaining scripts that again differ only by `(0, 0)` responses. -/
theorem readFrom_nil_insensitive (b : PBuf) {ra rb : Reader} (hp : ra.payload = rb.payload)
    (hs : stripNil ra.resps = stripNil rb.resps) :
    (b.readFrom ra).1 = (b.readFrom rb).1 ∧
    (b.readFrom ra).2.1.payload = (b.readFrom rb).2.1.payload ∧
    stripNil (b.readFrom ra).2.1.resps = stripNil (b.readFrom rb).2.1.resps ∧
    (b.readFrom ra).2.2 = (b.readFrom rb).2.2 := by
  obtain ⟨pa, sa⟩ := ra
  obtain ⟨pb, sb⟩ := rb
  simp only [] at hp hs
  subst hp
  obtain ⟨a1, a2, a3, a4⟩ := readFrom_stripNil b pa sa
  obtain ⟨b1, b2, b3, b4⟩ := readFrom_stripNil b pa sb
  rw [hs] at a1 a2 a3 a4
  exact ⟨a1.trans b1.symm, a2.trans b2.symm, a3.trans b3.symm, a4.trans b4.symm⟩

/-! ## chunking independence with `(0, nil)` answers -/

/-- a `FillScript` with `(0, 0)` responses inserted anywhere is a `FillScriptN` -/
theorem FillScriptN.of_stripNil {rs : List (Nat × Nat)} {m : Nat}
    (h : FillScript (stripNil rs) m) : FillScriptN rs m := by
  obtain ⟨h1, h2⟩ := h.toN
  refine ⟨fun x hx => ?_, by rw [← offers_stripNil]; exact h2⟩
  by_cases hx0 : x = (0, 0)
  · subst hx0; rfl
  · exact h1 x (mem_stripNil.2 ⟨hx, hx0⟩)

/-- Chunking independence of `ReadFrom` (`readFrom_fill`) for error-free scripts with `(0, nil)`
    answers: the outcome is determined by the payload alone. -/
theorem readFrom_fillN {b : PBuf} {fed : List Byte} (h : PInv b fed) (r : Reader)
    (hs : FillScriptN r.resps (min r.payload.length (b.cfg.bufferSize - b.data.length)))
    {b' : PBuf} {r' : Reader} {n : Nat} {e : Err} (hr : b.readFrom r = (b', r', n, e)) :
    let m := min r.payload.length (b.cfg.bufferSize - b.data.length)
    b'.data = b.data ++ r.payload.take m ∧ n = m ∧ r'.payload = r.payload.drop m ∧
    b'.w = b.w ∧ b'.off = b.off ∧ b'.cfg = b.cfg ∧
    e = (if b.cfg.bufferSize - b.data.length ≤ r.payload.length then .full else .eof) := by
  intro m
  obtain ⟨s1, s2, s3⟩ := readFrom_stop_of_fillScriptN h.len_le hs hr
  obtain ⟨hd, hn⟩ := readFrom_fill_outcome h r hr s1
  obtain ⟨-, -, hp, hw, ho, hc, -⟩ := C15_readFrom h r hr
  refine ⟨hd, hn, by rw [hp, hn], hw, ho, hc, ?_⟩
  split
  · rename_i hc; exact s3.2 hc
  · rename_i hc
    rcases s2 with h' | h'
    · exact absurd (s3.1 h') hc
    · exact h'

/-- (b') `readFrom_chunking_independent` for readers with interspersed `(0, nil)` answers: two
    error-free readers with the same payload, chunked differently and answering `(0, nil)` at
    different places, on buffers that differ at most in `cap`: same data, count, error and rest. -/
theorem readFrom_chunking_independentN {a b : PBuf} {fa fb : List Byte}
    (ha : PInv a fa) (_hb : PInv b fb) (hv : SameView a b)
    {ra rb : Reader} (hp : ra.payload = rb.payload)
    (hsa : FillScriptN ra.resps (min ra.payload.length (a.cfg.bufferSize - a.data.length)))
    (hsb : FillScriptN rb.resps (min rb.payload.length (b.cfg.bufferSize - b.data.length))) :
    SameView (a.readFrom ra).1 (b.readFrom rb).1 ∧
    (a.readFrom ra).2.1.payload = (b.readFrom rb).2.1.payload ∧
    (a.readFrom ra).2.2 = (b.readFrom rb).2.2 :=
  sameView_readFrom_fillN hv ha.len_le hp hsa hsb

/-! ## examples -/

section Examples

/-- BufferSize 8 -/
def cfg8 : BufCfg := { shrinkSize := 2, bufferSize := 8, windowSize := 8, blockSize := 8 }

/-- "abcde" -/
def abcde : List Byte := [97, 98, 99, 100, 101]

/-- two bytes, `(0, nil)`, three bytes -/
def rdNil : Reader := ⟨abcde, [(2, 0), (0, 0), (3, 0)]⟩

local macro "eval_nil" : tactic =>
  `(tactic| simp [readFrom, readLoop, init, grow, cfg8, cfg4, abcde, rdNil, Facts.margin,
      Facts.chunkSize, Facts.growMin, min3, errOfCode])

/-- (c) script `[(2,0),(0,0),(3,0)]` on payload "abcde": ONE `ReadFrom` reads all five bytes and
    ends with io.EOF because the script is exhausted (the model that rewrote `(0, nil)` into
    io.EOF stopped after two bytes). -/
example : (init cfg8).readFrom rdNil =
    ({ data := abcde, w := 0, off := 0, cap := 15, cfg := cfg8 }, ⟨[], []⟩, 5, .eof) := by
  eval_nil

/-- with a `BufferSize` of 4 the same reader fills the buffer: `ErrFullBuffer`, one byte and the
    rest of the script stay in the reader -/
example : (init cfg4).readFrom rdNil =
    ({ data := [97, 98, 99, 100], w := 0, off := 0, cap := 11, cfg := cfg4 }, ⟨[101], []⟩, 4,
      .full) := by
  eval_nil

/-- a transient `(0, nil)` in front of an error: the error is the reader's, not io.EOF -/
example : ((init cfg8).readFrom ⟨abcde, [(0, 0), (1, 7)]⟩).2.2 = (1, .reader 7) := by
  eval_nil

/-- the same via the theorems, without evaluation: `rdNil` against the reader that delivers
    "abcde" in one piece -/
example : (init cfg8).readFrom rdNil =
    (((init cfg8).readFrom ⟨abcde, [(2, 0), (3, 0)]⟩).1,
     ((init cfg8).readFrom rdNil).2.1,
     ((init cfg8).readFrom ⟨abcde, [(2, 0), (3, 0)]⟩).2.2) := by
  obtain ⟨h1, -, -, h4⟩ := readFrom_nil_insensitive (init cfg8)
    (ra := rdNil) (rb := ⟨abcde, [(2, 0), (3, 0)]⟩) rfl (by decide)
  rw [← h1, ← h4]

/-- single bytes with `(0, nil)` answers in between -/
def rdNilBytes : Reader :=
  ⟨abcde, [(1, 0), (0, 0), (1, 0), (1, 0), (0, 0), (0, 0), (1, 0), (9, 0), (0, 0)]⟩

/-- one piece, then `(0, nil)` answers -/
def rdNilPiece : Reader := ⟨abcde, [(0, 0), (5, 0), (0, 0), (1, 0), (1, 0), (1, 0), (1, 0)]⟩

theorem fillScriptN_rdNilBytes (m : Nat) : FillScriptN rdNilBytes.resps (min rdNilBytes.payload.length m) :=
  FillRN.fillScriptN (by unfold FillRN offers; decide) m

theorem fillScriptN_rdNilPiece (m : Nat) : FillScriptN rdNilPiece.resps (min rdNilPiece.payload.length m) :=
  FillRN.fillScriptN (by unfold FillRN offers; decide) m

/-- neither is in the class without `(0, nil)` answers -/
example : ¬ FillR rdNilBytes ∧ ¬ FillR rdNilPiece := by unfold FillR; decide

/-- chunking independence for the two readers, on buffers with different capacities, without
    evaluating `ReadFrom` -/
example : SameView ((init cfg8).readFrom rdNilBytes).1
      (({ init cfg8 with cap := 100 } : PBuf).readFrom rdNilPiece).1 ∧
    ((init cfg8).readFrom rdNilBytes).2.2 =
      (({ init cfg8 with cap := 100 } : PBuf).readFrom rdNilPiece).2.2 := by
  have h := readFrom_chunking_independentN (a := init cfg8)
    (b := ({ init cfg8 with cap := 100 } : PBuf)) (fa := []) (fb := [])
    (pinv_init _) (by constructor <;> simp [init, cfg8]) ⟨rfl, rfl, rfl, rfl⟩
    (ra := rdNilBytes) (rb := rdNilPiece) rfl (fillScriptN_rdNilBytes _) (fillScriptN_rdNilPiece _)
  exact ⟨h.1, h.2.2⟩

/-- … and evaluated: five bytes, io.EOF -/
example : ((init cfg8).readFrom rdNilBytes).2.2 = (5, .eof) := by
  simp [readFrom, readLoop, init, grow, cfg8, abcde, rdNilBytes, Facts.margin,
      Facts.chunkSize, Facts.growMin, min3]

end Examples

end PBuf
end LZ

#print axioms LZ.PBuf.readLoop_skip_nil
#print axioms LZ.PBuf.readLoop_skip_zero
#print axioms LZ.PBuf.readLoop_drained
#print axioms LZ.PBuf.readLoop_stripNil
#print axioms LZ.PBuf.readFrom_nil_insensitive
#print axioms LZ.PBuf.readFrom_fillN
#print axioms LZ.PBuf.readFrom_chunking_independentN
