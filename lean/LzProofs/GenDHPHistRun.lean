/-
  LzProofs.GenDHPHistRun — port of LzProofs/GenHPHistRun.lean to the double hash parser DHP: histories of translated
  operations (`doubleHashParser.init`, `Parse`; promoted `Write`, `Reset`, `Shrink`), the simulation theorem
  `gen_dhp_history`, `gen_dhp_history_states`, and C01/C02/C03 about the translation of the Go text
  (`C01_go_text_dhp`, `C02_go_text_dhp`, `C03_go_text_dhp`).  Nothing is opaque in the translation of dhp.go.
  Fuel `2·BufferSize + 3` (see `gen_dhp_parse`).
  The operation type `GOp`, the results `GRes`, `GOp.WF`, `GOp.abs`, `resAgree`, `ResultsAgree`, `ghostStep`, `ghostRun`
  are those of GenHPHistRun (they do not mention the parser state).  The statements of `C01/C02/C03_go_text_dhp` mention
  the translated functions, the reference decoder `decode` / `expand`, the record `Ghost` and `ofBlock`; no `Parser`,
  `runOps`, `POp`.  No sorry, no axioms of its own.
-/
import LzProofs.GenHPHistRun
import LzProofs.GenDHPHist

set_option linter.unusedSimpArgs false
set_option linter.unusedVariables false

namespace LZ.GenDHPHist
open LZ LZ.Gen LZ.GenBuf LZ.GenHash LZ.GenHPParse LZ.GenDHPParse LZ.GenProps
open LZ.GenHPHist (BCOK GOp GRes GOp.WF GOp.abs resAgree ResultsAgree ghostStep ghostRun parseErr_ok_iff step_parse_fst
  step_reset_fst bind_ok')

/-- one call, on the translated functions -/
def stepG (grow : Nat → Nat → Nat) (fuel : Nat) (s : Gen.doubleHashParser) : GOp → Res (Gen.doubleHashParser × GRes)
  | .write p => Res.bind (dhp_Write grow s p) fun r => Res.ok (r.1, .write r.2.1 r.2.2)
  | .parse blk flags =>
    Res.bind (doubleHashParser_Parse grow fuel s blk flags) fun r => Res.ok (r.1, .parse r.2.1 r.2.2.1 r.2.2.2)
  | .shrink => Res.bind (dhp_Shrink s) fun r => Res.ok (r.1, .shrink r.2)
  | .reset data => Res.bind (dhp_Reset s data) fun r => Res.ok (r.1, .reset r.2)

/-- a history of calls; the results in order -/
def runG (grow : Nat → Nat → Nat) (fuel : Nat) : Gen.doubleHashParser → List GOp → Res (Gen.doubleHashParser × List GRes)
  | s, [] => Res.ok (s, [])
  | s, op :: ops =>
    Res.bind (stepG grow fuel s op) fun r =>
    Res.bind (runG grow fuel r.1 ops) fun q => Res.ok (q.1, r.2 :: q.2)

/-! ## one step -/

theorem stepG_sim {bc : BufCfg} (hbc : BCOK bc) (grow : Nat → Nat → Nat) (fuel : Nat) (hfuel : 2 * bc.bufferSize + 3 ≤ fuel)
    (t : Gen.doubleHashParser) (g : Ghost) (h : HistOKD bc t) (op : GOp) (hop : op.WF) :
    ∃ t' r, stepG grow fuel t op = Res.ok (t', r) ∧ HistOKD bc t' ∧
      ofDHPs t' = (step (ofDHPs t, g) op.abs).1 ∧ ghostStep g op r = (step (ofDHPs t, g) op.abs).2 ∧
      resAgree (ofDHPs t) op r := by
  cases op with
  | write p =>
    obtain ⟨t', n, e, h1, h2, h3, h4, h5, h6⟩ := hist_write hbc grow t h p hop
    refine ⟨t', .write n e, ?_, h2, h3, ?_, h4, h5⟩
    · simp only [stepG, h1]; rfl
    · simp only [ghostStep, step, GOp.abs, h4, Int.toNat_natCast]
  | parse blk flags =>
    obtain ⟨t', blk', h1, h2, h3, h4, h5, h6⟩ := hist_parse hbc grow fuel t h blk flags hop (by have := h.len; omega)
    refine ⟨t', .parse blk' _ _, ?_, h2, ?_, ?_, rfl, rfl, h4, h5⟩
    · simp only [stepG, h1]; rfl
    · rw [GOp.abs, step_parse_fst]; exact h3
    · simp only [ghostStep, step, GOp.abs, parseErr_ok_iff _ h6, Int.toNat_natCast, h4]
      split <;> rfl
  | shrink =>
    obtain ⟨t', h1, h2, h3⟩ := hist_shrink hbc t h
    refine ⟨t', .shrink _, ?_, h2, h3, rfl, rfl⟩
    simp only [stepG, h1]; rfl
  | reset data =>
    obtain ⟨t', e, h1, h2, h3, h4⟩ := hist_reset hbc t h data hop
    refine ⟨t', .reset e, ?_, h2, ?_, ?_, h4⟩
    · simp only [stepG, h1]; rfl
    · rw [GOp.abs, step_reset_fst]; exact h3
    · simp only [ghostStep, step, GOp.abs, errOfReset_ok_iff e _ h4]
      split <;> rfl

/-! ## histories -/

/-- **Simulation**, from any Go state satisfying the invariant. -/
theorem runG_sim {bc : BufCfg} (hbc : BCOK bc) (grow : Nat → Nat → Nat) (fuel : Nat) (hfuel : 2 * bc.bufferSize + 3 ≤ fuel) :
    ∀ (ops : List GOp) (t : Gen.doubleHashParser) (g : Ghost), HistOKD bc t → (∀ op ∈ ops, op.WF) →
      ∃ t' rs, runG grow fuel t ops = Res.ok (t', rs) ∧ HistOKD bc t' ∧
        ofDHPs t' = (runOps (ofDHPs t, g) (ops.map GOp.abs)).1 ∧
        ghostRun g ops rs = (runOps (ofDHPs t, g) (ops.map GOp.abs)).2 ∧
        ResultsAgree (ofDHPs t, g) ops rs := by
  intro ops
  induction ops with
  | nil => intro t g h _; exact ⟨t, [], rfl, h, rfl, rfl, trivial⟩
  | cons op ops ih =>
    intro t g h hwf
    obtain ⟨t1, r, h1, h2, h3, h4, h5⟩ :=
      stepG_sim hbc grow fuel hfuel t g h op (hwf op (List.mem_cons_self ..))
    obtain ⟨t', rs, k1, k2, k3, k4, k5⟩ := ih t1 (ghostStep g op r) h2 (fun o ho => hwf o (List.mem_cons_of_mem _ ho))
    have hsg : step (ofDHPs t, g) op.abs = (ofDHPs t1, ghostStep g op r) := by
      rw [h3, h4]
    refine ⟨t', r :: rs, ?_, k2, ?_, ?_, h5, ?_⟩
    · show Res.bind (stepG grow fuel t op) _ = _
      rw [h1]
      show Res.bind (runG grow fuel t1 ops) _ = _
      rw [k1]; rfl
    · show _ = (runOps (step (ofDHPs t, g) op.abs) (ops.map GOp.abs)).1
      rw [hsg]; exact k3
    · show ghostRun (ghostStep g op r) ops rs = (runOps (step (ofDHPs t, g) op.abs) (ops.map GOp.abs)).2
      rw [hsg]; exact k4
    · show ResultsAgree (step (ofDHPs t, g) op.abs) ops rs
      rw [hsg]; exact k5

/-- the states a history passes through are the final states of its prefixes -/
theorem runG_append (grow : Nat → Nat → Nat) (fuel : Nat) : ∀ (a b : List GOp) (s : Gen.doubleHashParser),
    runG grow fuel s (a ++ b) =
      Res.bind (runG grow fuel s a) fun r => Res.bind (runG grow fuel r.1 b) fun q => Res.ok (q.1, r.2 ++ q.2) := by
  intro a
  induction a with
  | nil =>
    intro b s
    simp only [List.nil_append, runG, bind_ok', List.nil_append]
    cases runG grow fuel s b with
    | ok v => rfl
    | panic => rfl
    | fuel => rfl
  | cons op a ih =>
    intro b s
    simp only [List.cons_append, runG]
    cases hs : stepG grow fuel s op with
    | ok v =>
      simp only [bind_ok', ih]
      cases runG grow fuel v.1 a with
      | ok w =>
        simp only [bind_ok']
        cases runG grow fuel w.1 b with
        | ok u => rfl
        | panic => rfl
        | fuel => rfl
      | panic => rfl
      | fuel => rfl
    | panic => rfl
    | fuel => rfl

/-- **`gen_dhp_history`.**  `doubleHashParser.init(cfg)` on `new(doubleHashParser)` returned `nil`; then for every history of
    well-formed calls the translated functions never panic and never run out of fuel, the state reached satisfies
    `ParseOKD`, abstracts to the state the model reaches from `NewParser` with the abstracted history, and every
    returned value — `n`, the error, the block — is the model's. -/
theorem gen_dhp_history (cfg : Gen.DHPConfig) (s0 : Gen.doubleHashParser)
    (hinit : doubleHashParser_init default cfg = Res.ok (s0, Gen.Err.ok))
    (grow : Nat → Nat → Nat) (fuel : Nat)
    (hfuel : 2 * s0.doubleHashDictionary.ParserBuffer.BufConfig.BufferSize.toNat + 3 ≤ fuel)
    (ops : List GOp) (hwf : ∀ op ∈ ops, op.WF) :
    ∃ p t rs, newParser .DHP (ofDHP cfg) = some p ∧ ofDHPs s0 = p ∧
      runG grow fuel s0 ops = Res.ok (t, rs) ∧ ParseOKD t ∧
      ofDHPs t = (runOps (p, Ghost.init) (ops.map GOp.abs)).1 ∧
      ghostRun Ghost.init ops rs = (runOps (p, Ghost.init) (ops.map GOp.abs)).2 ∧
      ResultsAgree (p, Ghost.init) ops rs := by
  obtain ⟨p, hp, h2, hbc, hH⟩ := hist_init cfg s0 hinit
  have hf : 2 * p.buf.cfg.bufferSize + 3 ≤ fuel := by
    have : p.buf.cfg = ofCfg s0.doubleHashDictionary.ParserBuffer.BufConfig := hH.cfg.symm
    rw [this]; exact hfuel
  obtain ⟨t, rs, k1, k2, k3, k4, k5⟩ := runG_sim hbc grow fuel hf ops s0 Ghost.init hH hwf
  rw [h2] at k3 k4 k5
  exact ⟨p, t, rs, hp, h2, k1, k2.pok, k3, k4, k5⟩

/-- … and `ParseOKD` holds in EVERY state the history passes through: after every prefix `ops.take k` the run is
    `Res.ok` with a state satisfying `ParseOKD`, and the whole run continues from that state (`runG_append`). -/
theorem gen_dhp_history_states (cfg : Gen.DHPConfig) (s0 : Gen.doubleHashParser)
    (hinit : doubleHashParser_init default cfg = Res.ok (s0, Gen.Err.ok))
    (grow : Nat → Nat → Nat) (fuel : Nat)
    (hfuel : 2 * s0.doubleHashDictionary.ParserBuffer.BufConfig.BufferSize.toNat + 3 ≤ fuel)
    (ops : List GOp) (hwf : ∀ op ∈ ops, op.WF) (k : Nat) :
    ∃ tk rk t rs', runG grow fuel s0 (ops.take k) = Res.ok (tk, rk) ∧ ParseOKD tk ∧
      runG grow fuel tk (ops.drop k) = Res.ok (t, rs') ∧ runG grow fuel s0 ops = Res.ok (t, rk ++ rs') := by
  obtain ⟨p, hp, h2, hbc, hH⟩ := hist_init cfg s0 hinit
  have hf : 2 * p.buf.cfg.bufferSize + 3 ≤ fuel := by
    have : p.buf.cfg = ofCfg s0.doubleHashDictionary.ParserBuffer.BufConfig := hH.cfg.symm
    rw [this]; exact hfuel
  obtain ⟨tk, rk, k1, k2, -⟩ := runG_sim hbc grow fuel hf (ops.take k) s0 Ghost.init hH
    (fun o ho => hwf o (List.mem_of_mem_take ho))
  obtain ⟨t, rs', j1, -⟩ := runG_sim hbc grow fuel hf (ops.drop k) tk Ghost.init k2
    (fun o ho => hwf o (List.mem_of_mem_drop ho))
  refine ⟨tk, rk, t, rs', k1, k2.pok, j1, ?_⟩
  have := runG_append grow fuel (ops.take k) (ops.drop k) s0
  rw [List.take_append_drop, k1, bind_ok'] at this
  simp only at this
  rw [this, j1]; rfl

/-! ## the property theorems about the translation -/

/-- **C01 about the Go text of DHP.**  `cfg` is any configuration for which the translated `doubleHashParser.init`, called
    on the zero value, returns `nil`.  Run any history of `Write(p)`, `Parse(&blk, flags)`, `Shrink()`, `Reset(data)`
    (slices with `len ≤ cap`, `flags ≥ 0`) on the TRANSLATED functions, with any capacity policy for `append` and any
    `fuel ≥ 2·BufferSize + 3`.  Then no call panics or runs out of fuel, and the reference decoder, applied to the blocks
    the translated `Parse` returned since the last successful `Reset`, yields exactly the first `consumed` bytes of
    what the translated `Write` / `Reset` accepted since then, `consumed` = the sum of the returned `n`. -/
theorem C01_go_text_dhp (cfg : Gen.DHPConfig) (s0 : Gen.doubleHashParser)
    (hinit : doubleHashParser_init default cfg = Res.ok (s0, Gen.Err.ok))
    (grow : Nat → Nat → Nat) (fuel : Nat)
    (hfuel : 2 * s0.doubleHashDictionary.ParserBuffer.BufConfig.BufferSize.toNat + 3 ≤ fuel)
    (ops : List GOp) (hwf : ∀ op ∈ ops, op.WF) :
    ∃ t rs, runG grow fuel s0 ops = Res.ok (t, rs) ∧
      decode [] (ghostRun Ghost.init ops rs).log =
        some ((ghostRun Ghost.init ops rs).fed.take (ghostRun Ghost.init ops rs).consumed) := by
  obtain ⟨p, t, rs, hp, -, h1, -, -, h4, -⟩ := gen_dhp_history cfg s0 hinit grow fuel hfuel ops hwf
  refine ⟨t, rs, h1, ?_⟩
  rw [h4]
  exact C01_roundtrip .DHP (ofDHP cfg) p hp (histHyp_of_ne .DHP p (by decide)) (ops.map GOp.abs)

/-- **C02 about the Go text of DHP**: every sequence of every block the translated `Parse` returned has
    `1 ≤ Offset ≤ WindowSize`, `Offset ≤` the stream bytes before its match, `MatchLen ≥ min(3, InputLen1)`, `Aux = 0`,
    and the `LitLen`s of a block do not exceed its literals. -/
theorem C02_go_text_dhp (cfg : Gen.DHPConfig) (s0 : Gen.doubleHashParser)
    (hinit : doubleHashParser_init default cfg = Res.ok (s0, Gen.Err.ok))
    (grow : Nat → Nat → Nat) (fuel : Nat)
    (hfuel : 2 * s0.doubleHashDictionary.ParserBuffer.BufConfig.BufferSize.toNat + 3 ≤ fuel)
    (ops : List GOp) (hwf : ∀ op ∈ ops, op.WF) :
    ∃ t rs, runG grow fuel s0 ops = Res.ok (t, rs) ∧
      LogAll (fun pos e => ∀ n fl blk, e = .block n fl blk →
        SeqsAll (SeqWF s0.doubleHashDictionary.ParserBuffer.BufConfig.WindowSize.toNat
          (Min.min 3 s0.DHPConfig.InputLen1.toNat)) pos blk.seqs ∧
        litSum blk.seqs ≤ blk.lits.length) 0 (ghostRun Ghost.init ops rs).log := by
  obtain ⟨p, t, rs, hp, h0, h1, -, -, h4, -⟩ := gen_dhp_history cfg s0 hinit grow fuel hfuel ops hwf
  subst h0
  refine ⟨t, rs, h1, ?_⟩
  rw [h4]
  exact C02_wellformed .DHP (ofDHP cfg) _ hp (histHyp_of_ne .DHP _ (by decide)) (ops.map GOp.abs)

/-- **C03 about the Go text of DHP**: the blocks tile the consumed stream — each has `1 ≤ n ≤ BlockSize`, represents
    exactly `n` bytes (`Block.Len`), expands the stream up to its start to the stream up to its end; the `n` add up
    to `consumed`, which never exceeds what was fed. -/
theorem C03_go_text_dhp (cfg : Gen.DHPConfig) (s0 : Gen.doubleHashParser)
    (hinit : doubleHashParser_init default cfg = Res.ok (s0, Gen.Err.ok))
    (grow : Nat → Nat → Nat) (fuel : Nat)
    (hfuel : 2 * s0.doubleHashDictionary.ParserBuffer.BufConfig.BufferSize.toNat + 3 ≤ fuel)
    (ops : List GOp) (hwf : ∀ op ∈ ops, op.WF) :
    ∃ t rs, runG grow fuel s0 ops = Res.ok (t, rs) ∧
      let g := ghostRun Ghost.init ops rs
      LogAll (fun pos e => 1 ≤ e.n ∧ e.n ≤ s0.doubleHashDictionary.ParserBuffer.BufConfig.BlockSize.toNat ∧
        pos + e.n ≤ g.fed.length ∧
        ∀ n fl blk, e = .block n fl blk →
          blk.len = n ∧ expand (g.fed.take pos) blk = some (g.fed.take (pos + n)) ∧
          (fl % 2 = 1 → blk.seqs ≠ [] → blk.lits.length = litSum blk.seqs ∧ n = seqsSpan blk.seqs)) 0 g.log ∧
      logSpan g.log = g.consumed ∧ g.consumed ≤ g.fed.length := by
  obtain ⟨p, t, rs, hp, h0, h1, -, -, h4, -⟩ := gen_dhp_history cfg s0 hinit grow fuel hfuel ops hwf
  subst h0
  refine ⟨t, rs, h1, ?_⟩
  intro g
  have hg : g = (runOps (ofDHPs s0, Ghost.init) (ops.map GOp.abs)).2 := h4
  have := C03_contiguous .DHP (ofDHP cfg) _ hp (histHyp_of_ne .DHP _ (by decide)) (ops.map GOp.abs)
  obtain ⟨a1, a2, a3, a4⟩ := this
  rw [hg]
  exact ⟨a1, a2, a4⟩

end LZ.GenDHPHist

#print axioms LZ.GenDHPHist.stepG_sim
#print axioms LZ.GenDHPHist.runG_sim
#print axioms LZ.GenDHPHist.runG_append
#print axioms LZ.GenDHPHist.gen_dhp_history
#print axioms LZ.GenDHPHist.gen_dhp_history_states
#print axioms LZ.GenDHPHist.C01_go_text_dhp
#print axioms LZ.GenDHPHist.C02_go_text_dhp
#print axioms LZ.GenDHPHist.C03_go_text_dhp
