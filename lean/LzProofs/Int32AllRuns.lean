/-
  LzProofs.Int32AllRuns — the C19 run-clause theorems for OSAP of RunsOsap.lean without the
  hypothesis `Sap.Int32OK` (derivable from `newParser .OSAP raw = some s0` since the repair of
  D18, see Int32All.lean).

  Theorems (namespace `LZ`):
   * `reachable_osap_sap_all`           strengthens `reachable_osap_sap`           (RunsOsap)
   * `C19_run_osap_reachable_sap_all`   strengthens `C19_run_osap_reachable_sap`   (RunsOsap)
   * `C19_run_osap_reachable_all`       strengthens `C19_run_osap_reachable`       (RunsOsap)
   * `C19_run_osap_reachable_cfg_all`   strengthens `C19_run_osap_reachable_cfg`   (RunsOsap)
-/
import LzProofs.Int32All
import LzProofs.RunsOsap
namespace LZ

/-- every state of an OSAP history (histories of the OSAP topic) of every accepted OSAP
    configuration satisfies the hypotheses of `C19_run_osap` -/
theorem reachable_osap_sap_all (raw : Cfg) (s0 : Parser) (h0 : newParser .OSAP raw = some s0)
    (ops : List Sap.POp) :
    let s := Sap.runOps s0 ops
    ∃ o, s.dict = .osap o ∧ Sap.OsapHist s o ∧ Sap.CEAt s ∧ 1 ≤ s.buf.cfg.windowSize ∧
      s.minMatch = s0.cfg.minMatchLen.toNat ∧ 2 ≤ s.minMatch ∧
      s.minMatch ≤ s.cfg.maxMatchLen.toNat :=
  reachable_osap_sap raw s0 h0 (Sap.int32OK_of_newParser raw s0 h0) ops

/-- **C19, run clause, history level, OSAP** over the histories of the OSAP topic
    (`Sap.POp`, `Sap.runOps`), for every accepted OSAP configuration. -/
theorem C19_run_osap_reachable_sap_all (raw : Cfg) (s0 : Parser)
    (h0 : newParser .OSAP raw = some s0) (ops : List Sap.POp)
    (flags : Nat) (s' : Parser) (n : Nat) (blk : Block) (b : Byte) :
    let s := Sap.runOps s0 ops
    s.parse flags = (s', n, .ok, blk) → flags % 2 = 0 → 32 ≤ n →
    (∀ t, t < n → s.buf.data[s.buf.w + t]? = some b) →
    blk.lits.length ≤ s.minMatch :=
  C19_run_osap_reachable_sap raw s0 h0 (Sap.int32OK_of_newParser raw s0 h0) ops flags s' n blk b

/-- **C19, run clause, history level, OSAP.**  For every accepted OSAP configuration, every
    history of `Write`, `ReadFrom`, `Parse` (any flags), `Parse(nil)`, `Shrink`, `Reset`: if the
    next `Parse(&blk, flags)` without `NoTrailingLiterals` returns a block of `n ≥ 32` bytes, all
    equal to one byte `b`, the block carries at most `MinMatchLen` literal bytes. -/
theorem C19_run_osap_reachable_all (raw : Cfg) (s0 : Parser) (h0 : newParser .OSAP raw = some s0)
    (ops : List POp)
    (flags : Nat) (s' : Parser) (n : Nat) (blk : Block) (b : Byte) :
    let s := (runOps (s0, Ghost.init) ops).1
    s.parse flags = (s', n, .ok, blk) → flags % 2 = 0 → 32 ≤ n →
    (∀ t, t < n → s.buf.data[s.buf.w + t]? = some b) →
    blk.lits.length ≤ s.minMatch :=
  C19_run_osap_reachable raw s0 h0 (Sap.int32OK_of_newParser raw s0 h0) ops flags s' n blk b

/-- … with the bound spelled as the configured `MinMatchLen` -/
theorem C19_run_osap_reachable_cfg_all (raw : Cfg) (s0 : Parser)
    (h0 : newParser .OSAP raw = some s0) (ops : List POp)
    (flags : Nat) (s' : Parser) (n : Nat) (blk : Block) (b : Byte)
    (hp : (runOps (s0, Ghost.init) ops).1.parse flags = (s', n, .ok, blk)) (hf : flags % 2 = 0)
    (hn : 32 ≤ n)
    (hrun : ∀ t, t < n → (runOps (s0, Ghost.init) ops).1.buf.data[(runOps (s0, Ghost.init) ops).1.buf.w + t]?
      = some b) :
    blk.lits.length ≤ s0.cfg.minMatchLen.toNat :=
  C19_run_osap_reachable_cfg raw s0 h0 (Sap.int32OK_of_newParser raw s0 h0) ops flags s' n blk b
    hp hf hn hrun

/-! ## non-vacuity -/

example : Sap.Int32OK runOsap0 := Sap.int32OK_of_newParser runOsapCfg runOsap0 runOsap0_new

/-! ## axioms -/

#print axioms reachable_osap_sap_all
#print axioms C19_run_osap_reachable_sap_all
#print axioms C19_run_osap_reachable_all
#print axioms C19_run_osap_reachable_cfg_all

end LZ
