/-
  LzProofs.AcceptParse — property C07, parser side: everything a parser of this module emits is
  well-formed in the sense the decoder needs (`WFSeqs` / `WellFormedBlock` / `WellFormedEvents`,
  LzProofs/AcceptDefs.lean), and every emitted sequence is at most `BlockSize` bytes long
  (`LitLen + MatchLen ≤ n ≤ BlockSize`).

    wfSeqs_of_seqsAll          C02's `SeqsAll (SeqWF ws mm) pos` + `Σ LitLen ≤ |lits|`  ⇒  `WFSeqs ws pos |lits|`
    parser_blocks_wellformed   one `Parse` of a greedy parser on any state with unparsed data
    parser_log_wellformed      every history from `NewParser` (all kinds; OSAP relative to `HistHyp`)

  (This file imports the parser proofs only; the decoder proofs cannot be imported together with
  them — name clash `LZ.copyRef_prepend`.  The two sides meet in LzProofs/AcceptCompose.lean.)
-/
import LzProofs.AcceptDefs
import LzProofs.ParseProps
namespace LZ
open Parser

/-- C02 ⇒ decoder well-formedness -/
theorem wfSeqs_of_seqsAll {ws mm : Nat} : ∀ (seqs : List Seq) (pos ll : Nat),
    SeqsAll (SeqWF ws mm) pos seqs → litSum seqs ≤ ll → WFSeqs ws pos ll seqs := by
  intro seqs
  induction seqs with
  | nil => intro _ _ _ _; trivial
  | cons s ss ih =>
    intro pos ll ⟨⟨h1, h2, h3, _, _⟩, hr⟩ hl
    simp only [litSum_cons] at hl
    exact ⟨by omega, Or.inr h1, by omega, ih _ _ hr (by omega)⟩

/-- every sequence of a block is at most as long as the block -/
theorem seqsFit_of_len {seqs : List Seq} {ll m : Nat} (hl : litSum seqs ≤ ll)
    (hm : ll + matchSum seqs ≤ m) : SeqsFit m seqs := by
  intro s hs
  have : ∀ (ss : List Seq), s ∈ ss → s.litLen ≤ litSum ss ∧ s.matchLen ≤ matchSum ss := by
    intro ss
    induction ss with
    | nil => intro h; cases h
    | cons a as ih =>
      intro h
      simp only [litSum_cons, matchSum_cons]
      rcases List.mem_cons.mp h with h | h
      · subst h; omega
      · have := ih h; omega
  have := this seqs hs
  omega

/-- **(a) blocks emitted by the greedy parsers are well-formed.**  One `Parse(&blk, flags)` of HP,
    BHP, DHP, BDHP, BUP, GSAP on an arbitrary state with unparsed data (hypotheses of
    `C01_C02_C03_parse`): the block is well-formed for the parser's `WindowSize` over the buffered
    history `Data[:W]`, its reference expansion is `Data[:W+n]`, and each of its sequences is at
    most `n ≤ BlockSize` bytes long. -/
theorem parser_blocks_wellformed (s : Parser) (flags : Nat) (hs : StateOK s) (hg : Greedy s)
    (hlt : s.buf.w < s.buf.data.length) :
    WellFormedBlock s.buf.cfg.windowSize (s.buf.data.take s.buf.w) (s.parse flags).2.2.2 ∧
    expand (s.buf.data.take s.buf.w) (s.parse flags).2.2.2 =
      some (s.buf.data.take (s.buf.w + (s.parse flags).2.1)) ∧
    SeqsFit (s.parse flags).2.1 (s.parse flags).2.2.2.seqs ∧
    (s.parse flags).2.1 ≤ s.buf.cfg.blockSize := by
  obtain ⟨s', n, blk, hp, _, _, _, _, _, hnb, _, hexp, hlen, hall, hlit, _⟩ :=
    C01_C02_C03_parse s flags hs hg hlt
  rw [hp]
  simp only
  refine ⟨?_, hexp, ?_, hnb⟩
  · show WFSeqs _ _ _ _
    rw [List.length_take, Nat.min_eq_left (by omega)]
    exact wfSeqs_of_seqsAll _ _ _ hall hlit
  · apply seqsFit_of_len hlit
    rw [← Block.len_eq]; omega

/-- what the decoder is fed for an event of the parser's log: the block, or the skipped bytes
    verbatim -/
def Event.toD : Event → DEvent
  | .block _ _ blk => .block blk
  | .skip b => .raw b

/-- the per-event guarantee of the parser history gives the decoder-side hypotheses -/
theorem events_of_logAll (fed : List Byte) (ws mm bs : Nat) :
    ∀ (es : List Event) (pos : Nat), pos ≤ fed.length → LogAll (EventOK fed ws mm bs) pos es →
      WellFormedEvents ws (fed.take pos) (es.map Event.toD) ∧ EventsFit bs (es.map Event.toD) ∧
      refDecode (fed.take pos) (es.map Event.toD) = some (fed.take (pos + logSpan es)) := by
  intro es
  induction es with
  | nil => intro pos _ _; exact ⟨trivial, trivial, by simp [refDecode]⟩
  | cons e es ih =>
    intro pos hpos ⟨he, hes⟩
    cases e with
    | block n flags blk =>
      obtain ⟨a1, a2, a3, a4, a5, a6, a7, _⟩ := he
      obtain ⟨i1, i2, i3⟩ := ih (pos + n) a3 hes
      refine ⟨⟨?_, _, a4, i1⟩, ⟨?_, i2⟩, ?_⟩
      · show WFSeqs _ _ _ _
        rw [List.length_take, Nat.min_eq_left hpos]
        exact wfSeqs_of_seqsAll _ _ _ a6 a7
      · apply seqsFit_of_len a7
        rw [← Block.len_eq]; omega
      · simp only [List.map_cons, Event.toD, refDecode, a4, logSpan_cons, Event.n]
        rw [i3, Nat.add_assoc]
    | skip b =>
      obtain ⟨a1, a2, a3, a4⟩ := he
      have e1 : fed.take pos ++ b = fed.take (pos + b.length) := by
        rw [List.take_add]; congr 1
      obtain ⟨i1, i2, i3⟩ := ih (pos + b.length) a3 hes
      refine ⟨?_, i2, ?_⟩
      · show WellFormedEvents ws (fed.take pos ++ b) _
        rw [e1]; exact i1
      · simp only [List.map_cons, Event.toD, refDecode, logSpan_cons, Event.n]
        rw [e1, i3, Nat.add_assoc]

/-- **(a) at history level.**  For a parser created by `NewParser` (any accepted configuration)
    and any sequence of Write / ReadFrom / Parse / Parse(nil) / Shrink / Reset: the items emitted
    since the last Reset (blocks; skipped segments verbatim) are well-formed for the parser's
    `WindowSize` over the empty history, every sequence is at most `BlockSize` long, and their
    reference decoding is the consumed prefix of the bytes fed.  Unconditional for HP, BHP, DHP,
    BDHP, BUP, GSAP (`histHyp_of_ne`); for OSAP relative to `ComputeEdgesSound`. -/
theorem parser_log_wellformed (k : Kind) (raw : Cfg) (s0 : Parser) (h0 : newParser k raw = some s0)
    (hH : HistHyp k s0) (ops : List POp) :
    let g := (runOps (s0, Ghost.init) ops).2
    WellFormedEvents s0.buf.cfg.windowSize [] (g.log.map Event.toD) ∧
    EventsFit s0.buf.cfg.blockSize (g.log.map Event.toD) ∧
    refDecode [] (g.log.map Event.toD) = some (g.fed.take g.consumed) := by
  intro g
  have h := history_inv k raw s0 h0 hH ops
  obtain ⟨i1, i2, i3⟩ := events_of_logAll g.fed _ _ _ g.log 0 (Nat.zero_le _) h.log
  rw [h.span] at i3
  simp only [List.take_zero, Nat.zero_add] at i1 i3
  exact ⟨i1, i2, i3⟩

/-! ## non-vacuity -/

/-- the hypotheses of `parser_blocks_wellformed` hold for the concrete HP state `exState` of
    ParseProps ("abcabcabcab" buffered); the emitted block `exBlock` -/
example : WellFormedBlock exState.buf.cfg.windowSize (exState.buf.data.take exState.buf.w) exBlock := by
  simp [WellFormedBlock, WFSeqs, exBlock, exState, exCfg, setDefaults, Cfg.restrict, Cfg.bufCfg]
  decide

end LZ

#print axioms LZ.wfSeqs_of_seqsAll
#print axioms LZ.parser_blocks_wellformed
#print axioms LZ.events_of_logAll
#print axioms LZ.parser_log_wellformed
