/-
  LzProofs.GenBDHPHistNil — histories of the translated operations of BDHP (bdhp.go) WITH `Parse(nil, flags)`, and
  property C14 about the Go text.  Port of LzProofs/GenHPHistNil.lean; continues GenBDHPHist / GenBDHPHistRun /
  GenBDHPHistRF (whose per-operation lemmas are reused unchanged); the new operation is
  `bdhp_Parse_nilable … true ghost flags` (LzProofs/GenBDHPParseNil.lean).  `lcs` stays the opaque parameter of the
  translation of bdhp.go under `LcsSpec` (the nil path itself does not call it); fuel `2·BufferSize + 3` as in
  GenBDHPHistRun.  No sorry, no axioms of its own.

    hist_parseNil       one `Parse(nil)`: never panics, returns the model's `n` / error, hands the ghost block back
                        unchanged, preserves `HistOKBD`, changes only `W` and the two tables
    GOpN, stepN, runN   a call = a call of GenBDHPHistRF (`Write`, `ReadFrom`, `Parse(&blk)`, `Shrink`, `Reset`) or
                        `parseNil ghost flags` (every ghost value, every `flags`, also negative)
    runN_sim, gen_bdhp_history_nil   the simulation (model operation `.parseNil`, ghost log entry `Event.skip`)
    C01_go_text_bdhp_nil  C01 for histories WITH `Parse(nil)`: the log — blocks and the skipped bytes verbatim — decodes
                        to the consumed prefix;  C03_go_text_bdhp_nil, C14_skip_go_text_bdhp likewise
    C14_go_text_bdhp    after ANY such history: `Parse(nil, flags)` returns the same `n` and error as `Parse(&blk, 0)`
                        from the same state, leaves the same `Data` and `W`, `n = min(BlockSize, len(Data) - W)`,
                        `ErrEmptyBuffer` iff `n = 0`, and writes nothing (the ghost block comes back unchanged)
-/
import LzProofs.GenBDHPParseNil
import LzProofs.GenBDHPHistRF
import LzProofs.GenNilShared

set_option linter.unusedSimpArgs false
set_option linter.unusedVariables false

namespace LZ.GenBDHPHist
open LZ LZ.Gen LZ.GenBuf LZ.GenHash LZ.GenHPParse LZ.GenBHPParse LZ.GenDHPParse LZ.GenBDHPParse LZ.GenProps LZ.GenNil
open LZ.GenHPHist (BCOK parseErr_ok_iff
  RFun RFSpec genErr rfGo rfGo_spec GOpR GResR GOpR.WF GOpR.abs resAgreeR ResultsAgreeR ghostStepR ghostRunR)

/-- a Go slice is its data, the bytes behind its length, and nothing else -/
theorem slice_ext (a b : Slice) (ha : SWF a) (hb : SWF b) (hd : a.data = b.data)
    (hs : a.arr.drop a.len = b.arr.drop b.len) : a = b := by
  have la : a.data.length = a.len := data_length ha
  have lb : b.data.length = b.len := data_length hb
  have hl : a.len = b.len := by rw [← la, ← lb, hd]
  have harr : a.arr = b.arr := by
    rw [← List.take_append_drop a.len a.arr, ← List.take_append_drop b.len b.arr]
    rw [hs]
    show a.data ++ _ = b.data ++ _
    rw [hd]
  cases a; cases b
  simp only at hl harr
  subst hl harr
  rfl

theorem hist_parseNil {bc : BufCfg} (hbc : BCOK bc) (grow : Nat → Nat → Nat) (fuel : Nat) (lcs : Slice → Slice → Int)
    (t : Gen.bdhp) (h : HistOKBD bc t) (ghost : Gen.Block') (flags : Int)
    (hfuel : t.doubleHashDictionary.ParserBuffer.Data.len + 2 ≤ fuel) :
    ∃ t', bdhp_Parse_nilable grow fuel lcs t true ghost flags =
        Res.ok (t', ghost, (((ofBDHPs t).parseNil).2.1 : Int), parseErr ((ofBDHPs t).parseNil).2.2) ∧
      HistOKBD bc t' ∧ ofBDHPs t' = ((ofBDHPs t).parseNil).1 ∧
      t'.doubleHashDictionary.ParserBuffer.Data = t.doubleHashDictionary.ParserBuffer.Data ∧
      t'.doubleHashDictionary.ParserBuffer.W = (((ofBDHPs t).parseNil).1.buf.w : Int) := by
  have hil8 : t.doubleHashDictionary.h2.inputLen ≤ 8 := by
    have h1 := h.pok.il1
    have h2 := h.pok.il12
    have h3 := h.il8
    omega
  obtain ⟨t', h1, h2, h3, h4, t01, t02, h5⟩ := gen_bdhp_parseNil_model grow fuel lcs t ghost flags h.pok hfuel h.cap hil8
  subst h5
  exact ⟨_, h1, ⟨h4, h.cfg, h.len, h.cap, h.il8⟩, h2, rfl, rfl⟩

/-! ## histories with `Parse(nil)` -/

inductive GOpN where
  | r (op : GOpR)
  /-- `Parse(nil, flags)`; `ghost` is the value that accompanies the nil flag (never looked at) -/
  | parseNil (ghost : Gen.Block') (flags : Int)

inductive GResN where
  | r (res : GResR)
  /-- the block value handed back (the ghost), `n`, the error -/
  | parseNil (blk : Gen.Block') (n : Int) (err : Gen.Err)

def GOpN.WF : GOpN → Prop
  | .r op => op.WF
  | .parseNil _ _ => True

def GOpN.abs : GOpN → POp
  | .r op => op.abs
  | .parseNil _ _ => .parseNil

def stepN (RF : RFun) (grow : Nat → Nat → Nat) (fuel : Nat) (lcs : Slice → Slice → Int) (s : Gen.bdhp) : GOpN → Res (Gen.bdhp × GResN)
  | .r op => Res.bind (stepGR RF grow fuel lcs s op) fun x => Res.ok (x.1, .r x.2)
  | .parseNil ghost flags =>
    Res.bind (bdhp_Parse_nilable grow fuel lcs s true ghost flags) fun x => Res.ok (x.1, .parseNil x.2.1 x.2.2.1 x.2.2.2)

def runN (RF : RFun) (grow : Nat → Nat → Nat) (fuel : Nat) (lcs : Slice → Slice → Int) :
    Gen.bdhp → List GOpN → Res (Gen.bdhp × List GResN)
  | s, [] => Res.ok (s, [])
  | s, op :: ops =>
    Res.bind (stepN RF grow fuel lcs s op) fun x =>
    Res.bind (runN RF grow fuel lcs x.1 ops) fun q => Res.ok (q.1, x.2 :: q.2)

def resAgreeN (m : Parser) : GOpN → GResN → Prop
  | .r op, .r res => resAgreeR m op res
  | .parseNil ghost _, .parseNil blk' n e =>
    n = ((m.parseNil).2.1 : Int) ∧ e = parseErr (m.parseNil).2.2 ∧ blk' = ghost
  | _, _ => False

def ResultsAgreeN : Parser × Ghost → List GOpN → List GResN → Prop
  | _, [], [] => True
  | sg, op :: ops, r :: rs => resAgreeN sg.1 op r ∧ ResultsAgreeN (step sg op.abs) ops rs
  | _, _, _ => False

/-- the C01 / C14 bookkeeping from the Go calls and results alone: a successful `Parse(nil)` hands the next `n` bytes of
    the stream to the decoder verbatim -/
def ghostStepN (g : Ghost) : GOpN → GResN → Ghost
  | .r op, .r res => ghostStepR g op res
  | .parseNil _ _, .parseNil _ n e =>
    if e = Gen.Err.ok then
      { g with consumed := g.consumed + n.toNat, log := g.log ++ [.skip ((g.fed.drop g.consumed).take n.toNat)] }
    else g
  | _, _ => g

def ghostRunN : Ghost → List GOpN → List GResN → Ghost
  | g, op :: ops, r :: rs => ghostRunN (ghostStepN g op r) ops rs
  | g, _, _ => g

theorem step_parseNil_fst (sg : Parser × Ghost) : (step sg .parseNil).1 = (sg.1.parseNil).1 := by
  simp only [step]; split <;> rfl

theorem stepN_sim {bc : BufCfg} (hbc : BCOK bc) (RF : RFun) (hRF : RFSpec RF) (grow : Nat → Nat → Nat) (fuel : Nat)
    (lcs : Slice → Slice → Int) (hlcs : LcsSpec lcs) (hfuel : 2 * bc.bufferSize + 3 ≤ fuel) (t : Gen.bdhp) (g : Ghost) (h : HistOKBD bc t) (op : GOpN) (hop : op.WF) :
    ∃ t' r, stepN RF grow fuel lcs t op = Res.ok (t', r) ∧ HistOKBD bc t' ∧
      ofBDHPs t' = (step (ofBDHPs t, g) op.abs).1 ∧ ghostStepN g op r = (step (ofBDHPs t, g) op.abs).2 ∧
      resAgreeN (ofBDHPs t) op r := by
  cases op with
  | r op =>
    obtain ⟨t', r, h1, h2, h3, h4, h5⟩ := stepGR_sim hbc RF hRF grow fuel lcs hlcs hfuel t g h op hop
    refine ⟨t', .r r, ?_, h2, h3, h4, h5⟩
    simp only [stepN, h1]; rfl
  | parseNil ghost flags =>
    obtain ⟨t', h1, h2, h3, -, -⟩ := hist_parseNil hbc grow fuel lcs t h ghost flags (by have := h.len; omega)
    refine ⟨t', .parseNil ghost _ _, ?_, h2, ?_, ?_, rfl, rfl, rfl⟩
    · simp only [stepN, h1]; rfl
    · rw [GOpN.abs, step_parseNil_fst]; exact h3
    · simp only [ghostStepN, step, GOpN.abs, parseErr_ok_iff _ (parseNil_err _), Int.toNat_natCast]
      split <;> rfl

theorem runN_sim {bc : BufCfg} (hbc : BCOK bc) (RF : RFun) (hRF : RFSpec RF) (grow : Nat → Nat → Nat) (fuel : Nat)
    (lcs : Slice → Slice → Int) (hlcs : LcsSpec lcs) (hfuel : 2 * bc.bufferSize + 3 ≤ fuel) :
    ∀ (ops : List GOpN) (t : Gen.bdhp) (g : Ghost), HistOKBD bc t → (∀ op ∈ ops, op.WF) →
      ∃ t' rs, runN RF grow fuel lcs t ops = Res.ok (t', rs) ∧ HistOKBD bc t' ∧
        ofBDHPs t' = (runOps (ofBDHPs t, g) (ops.map GOpN.abs)).1 ∧
        ghostRunN g ops rs = (runOps (ofBDHPs t, g) (ops.map GOpN.abs)).2 ∧
        ResultsAgreeN (ofBDHPs t, g) ops rs := by
  intro ops
  induction ops with
  | nil => intro t g h _; exact ⟨t, [], rfl, h, rfl, rfl, trivial⟩
  | cons op ops ih =>
    intro t g h hwf
    obtain ⟨t1, r, h1, h2, h3, h4, h5⟩ :=
      stepN_sim hbc RF hRF grow fuel lcs hlcs hfuel t g h op (hwf op (List.mem_cons_self ..))
    obtain ⟨t', rs, k1, k2, k3, k4, k5⟩ := ih t1 (ghostStepN g op r) h2 (fun o ho => hwf o (List.mem_cons_of_mem _ ho))
    have hsg : step (ofBDHPs t, g) op.abs = (ofBDHPs t1, ghostStepN g op r) := by
      rw [h3, h4]
    refine ⟨t', r :: rs, ?_, k2, ?_, ?_, h5, ?_⟩
    · show Res.bind (stepN RF grow fuel lcs t op) _ = _
      rw [h1]
      show Res.bind (runN RF grow fuel lcs t1 ops) _ = _
      rw [k1]; rfl
    · show _ = (runOps (step (ofBDHPs t, g) op.abs) (ops.map GOpN.abs)).1
      rw [hsg]; exact k3
    · show ghostRunN (ghostStepN g op r) ops rs = (runOps (step (ofBDHPs t, g) op.abs) (ops.map GOpN.abs)).2
      rw [hsg]; exact k4
    · show ResultsAgreeN (step (ofBDHPs t, g) op.abs) ops rs
      rw [hsg]; exact k5

/-- the simulation from `bdhp.init` for histories of Write / ReadFrom / Parse(&blk) / Parse(nil) / Shrink / Reset,
    every operation a translated function (`ReadFrom` against the scripted reader) -/
theorem gen_bdhp_history_nil (cfg : Gen.BDHPConfig) (s0 : Gen.bdhp)
    (hinit : bdhp_init default cfg = Res.ok (s0, Gen.Err.ok))
    (extra : Nat) (grow : Nat → Nat → Nat) (fuel : Nat) (lcs : Slice → Slice → Int) (hlcs : LcsSpec lcs)
    (hfuel : 2 * s0.doubleHashDictionary.ParserBuffer.BufConfig.BufferSize.toNat + 3 ≤ fuel)
    (ops : List GOpN) (hwf : ∀ op ∈ ops, op.WF) :
    ∃ p t rs, newParser .BDHP (ofBDHP cfg) = some p ∧ ofBDHPs s0 = p ∧
      runN (rfGo extra) grow fuel lcs s0 ops = Res.ok (t, rs) ∧ HistOKBD p.buf.cfg t ∧ BCOK p.buf.cfg ∧
      2 * p.buf.cfg.bufferSize + 3 ≤ fuel ∧
      ofBDHPs t = (runOps (p, Ghost.init) (ops.map GOpN.abs)).1 ∧
      ghostRunN Ghost.init ops rs = (runOps (p, Ghost.init) (ops.map GOpN.abs)).2 ∧
      ResultsAgreeN (p, Ghost.init) ops rs := by
  obtain ⟨p, hp, h2, hbc, hH⟩ := hist_init cfg s0 hinit
  have hf : 2 * p.buf.cfg.bufferSize + 3 ≤ fuel := by
    have : p.buf.cfg = ofCfg s0.doubleHashDictionary.ParserBuffer.BufConfig := hH.cfg.symm
    rw [this]; exact hfuel
  obtain ⟨t, rs, k1, k2, k3, k4, k5⟩ := runN_sim hbc (rfGo extra) (rfGo_spec extra) grow fuel lcs hlcs hf ops s0 Ghost.init hH hwf
  rw [h2] at k3 k4 k5
  exact ⟨p, t, rs, hp, h2, k1, k2, hbc, hf, k3, k4, k5⟩

/-! ## the property theorems -/

/-- **C01 about the Go text of BDHP, histories WITH `Parse(nil)`.**  Run any history of `Write`, `ReadFrom`,
    `Parse(&blk, flags)`, `Parse(nil, flags)`, `Shrink`, `Reset` on the translated functions.  No call panics or runs out
    of fuel, and the reference decoder, applied to what the calls produced since the last successful `Reset` — the blocks
    of `Parse(&blk)` and, for every `Parse(nil)` that returned `n > 0`, the next `n` bytes of the stream VERBATIM
    (`Event.skip`) —, yields exactly the first `consumed` bytes fed, `consumed` = the sum of all returned `n`.  So blocks
    parsed after a skipped segment are correct for a decoder that received the skipped bytes verbatim (they may
    reference them as match sources). -/
theorem C01_go_text_bdhp_nil (cfg : Gen.BDHPConfig) (s0 : Gen.bdhp)
    (hinit : bdhp_init default cfg = Res.ok (s0, Gen.Err.ok))
    (extra : Nat) (grow : Nat → Nat → Nat) (fuel : Nat) (lcs : Slice → Slice → Int) (hlcs : LcsSpec lcs)
    (hfuel : 2 * s0.doubleHashDictionary.ParserBuffer.BufConfig.BufferSize.toNat + 3 ≤ fuel)
    (ops : List GOpN) (hwf : ∀ op ∈ ops, op.WF) :
    ∃ t rs, runN (rfGo extra) grow fuel lcs s0 ops = Res.ok (t, rs) ∧
      decode [] (ghostRunN Ghost.init ops rs).log =
        some ((ghostRunN Ghost.init ops rs).fed.take (ghostRunN Ghost.init ops rs).consumed) := by
  obtain ⟨p, t, rs, hp, -, h1, -, -, -, -, h4, -⟩ := gen_bdhp_history_nil cfg s0 hinit extra grow fuel lcs hlcs hfuel ops hwf
  refine ⟨t, rs, h1, ?_⟩
  rw [h4]
  exact C01_roundtrip .BDHP (ofBDHP cfg) p hp (histHyp_of_ne .BDHP p (by decide)) (ops.map GOpN.abs)

/-- **C03 about the Go text of BDHP, histories WITH `Parse(nil)`**: blocks and skipped segments tile the consumed stream. -/
theorem C03_go_text_bdhp_nil (cfg : Gen.BDHPConfig) (s0 : Gen.bdhp)
    (hinit : bdhp_init default cfg = Res.ok (s0, Gen.Err.ok))
    (extra : Nat) (grow : Nat → Nat → Nat) (fuel : Nat) (lcs : Slice → Slice → Int) (hlcs : LcsSpec lcs)
    (hfuel : 2 * s0.doubleHashDictionary.ParserBuffer.BufConfig.BufferSize.toNat + 3 ≤ fuel)
    (ops : List GOpN) (hwf : ∀ op ∈ ops, op.WF) :
    ∃ t rs, runN (rfGo extra) grow fuel lcs s0 ops = Res.ok (t, rs) ∧
      let g := ghostRunN Ghost.init ops rs
      LogAll (fun pos e => 1 ≤ e.n ∧ e.n ≤ s0.doubleHashDictionary.ParserBuffer.BufConfig.BlockSize.toNat ∧
        pos + e.n ≤ g.fed.length ∧
        ∀ n fl blk, e = .block n fl blk →
          blk.len = n ∧ expand (g.fed.take pos) blk = some (g.fed.take (pos + n)) ∧
          (fl % 2 = 1 → blk.seqs ≠ [] → blk.lits.length = litSum blk.seqs ∧ n = seqsSpan blk.seqs)) 0 g.log ∧
      logSpan g.log = g.consumed ∧ g.consumed ≤ g.fed.length := by
  obtain ⟨p, t, rs, hp, h0, h1, -, -, -, -, h4, -⟩ := gen_bdhp_history_nil cfg s0 hinit extra grow fuel lcs hlcs hfuel ops hwf
  subst h0
  refine ⟨t, rs, h1, ?_⟩
  intro g
  have hg : g = (runOps (ofBDHPs s0, Ghost.init) (ops.map GOpN.abs)).2 := h4
  have := C03_contiguous .BDHP (ofBDHP cfg) _ hp (histHyp_of_ne .BDHP _ (by decide)) (ops.map GOpN.abs)
  obtain ⟨a1, a2, a3, a4⟩ := this
  rw [hg]
  exact ⟨a1, a2, a4⟩

/-- **C14 (skipped bytes verbatim) about the Go text of BDHP**: every skip entry of the log is a non-empty segment of at
    most `BlockSize` bytes and IS the segment of the fed stream at its position. -/
theorem C14_skip_go_text_bdhp (cfg : Gen.BDHPConfig) (s0 : Gen.bdhp)
    (hinit : bdhp_init default cfg = Res.ok (s0, Gen.Err.ok))
    (extra : Nat) (grow : Nat → Nat → Nat) (fuel : Nat) (lcs : Slice → Slice → Int) (hlcs : LcsSpec lcs)
    (hfuel : 2 * s0.doubleHashDictionary.ParserBuffer.BufConfig.BufferSize.toNat + 3 ≤ fuel)
    (ops : List GOpN) (hwf : ∀ op ∈ ops, op.WF) :
    ∃ t rs, runN (rfGo extra) grow fuel lcs s0 ops = Res.ok (t, rs) ∧
      let g := ghostRunN Ghost.init ops rs
      LogAll (fun pos e => ∀ b, e = .skip b →
        1 ≤ b.length ∧ b.length ≤ s0.doubleHashDictionary.ParserBuffer.BufConfig.BlockSize.toNat ∧
        b = (g.fed.drop pos).take b.length) 0 g.log := by
  obtain ⟨p, t, rs, hp, h0, h1, -, -, -, -, h4, -⟩ := gen_bdhp_history_nil cfg s0 hinit extra grow fuel lcs hlcs hfuel ops hwf
  subst h0
  refine ⟨t, rs, h1, ?_⟩
  intro g
  have hg : g = (runOps (ofBDHPs s0, Ghost.init) (ops.map GOpN.abs)).2 := h4
  rw [hg]
  exact C14_skip_verbatim .BDHP (ofBDHP cfg) _ hp (histHyp_of_ne .BDHP _ (by decide)) (ops.map GOpN.abs)

/-- **C14 about the Go text of BDHP.**  After ANY history of the translated `Write`, `ReadFrom`, `Parse(&blk)`,
    `Parse(nil)`, `Shrink`, `Reset` from `bdhp.init`, let `t` be the Go state reached.  For every `flags`, every
    ghost value and every block `blk` of the caller: the translated `Parse(nil, flags)` and the translated
    `Parse(&blk, 0)`, both run from `t`, return THE SAME `n` and THE SAME error, and leave THE SAME buffer `Data` and THE
    SAME `W`; `n = min(BlockSize, len(Data) - W)`; the error is `ErrEmptyBuffer` if `n = 0` and `nil` otherwise;
    `Parse(nil)` hands the ghost block back unchanged (it writes nothing) and leaves `Data` as it was.  (That repeated
    calls drain the buffer follows: each call with `n > 0` advances `W` by `n`; see also `C14_drains`.) -/
theorem C14_go_text_bdhp (cfg : Gen.BDHPConfig) (s0 : Gen.bdhp)
    (hinit : bdhp_init default cfg = Res.ok (s0, Gen.Err.ok))
    (extra : Nat) (grow : Nat → Nat → Nat) (fuel : Nat) (lcs : Slice → Slice → Int) (hlcs : LcsSpec lcs)
    (hfuel : 2 * s0.doubleHashDictionary.ParserBuffer.BufConfig.BufferSize.toNat + 3 ≤ fuel)
    (ops : List GOpN) (hwf : ∀ op ∈ ops, op.WF) (ghost blk : Gen.Block') (flags : Int) :
    ∃ t rs, runN (rfGo extra) grow fuel lcs s0 ops = Res.ok (t, rs) ∧
      ∃ t1 t2 blk' n e,
        bdhp_Parse_nilable grow fuel lcs t true ghost flags = Res.ok (t1, ghost, n, e) ∧
        bdhp_Parse grow fuel lcs t blk 0 = Res.ok (t2, blk', n, e) ∧
        t1.doubleHashDictionary.ParserBuffer.Data = t2.doubleHashDictionary.ParserBuffer.Data ∧
        t1.doubleHashDictionary.ParserBuffer.W = t2.doubleHashDictionary.ParserBuffer.W ∧
        t1.doubleHashDictionary.ParserBuffer.Data = t.doubleHashDictionary.ParserBuffer.Data ∧
        t1.doubleHashDictionary.ParserBuffer.W = t.doubleHashDictionary.ParserBuffer.W + n ∧
        n = Min.min t.BDHPConfig.BlockSize ((t.doubleHashDictionary.ParserBuffer.Data.len : Int) - t.doubleHashDictionary.ParserBuffer.W) ∧
        (n = 0 → e = Gen.ErrEmptyBuffer ∧ t1 = t) ∧ (n ≠ 0 → e = Gen.Err.ok) := by
  obtain ⟨p, t, rs, hp, h0, h1, hH, hbc, hf, h3, -, -⟩ := gen_bdhp_history_nil cfg s0 hinit extra grow fuel lcs hlcs hfuel ops hwf
  refine ⟨t, rs, h1, ?_⟩
  have hlen := hH.len
  obtain ⟨t1, e1, hH1, m1, d1, w1⟩ := hist_parseNil hbc grow fuel lcs t hH ghost flags (by omega)
  obtain ⟨t2, blk', e2, m2, st2, -, -, -, pk2⟩ := gen_bdhp_parse_model grow fuel lcs hlcs t blk 0 hH.pok (Int.le_refl 0) (by omega)
    (ofBDHP cfg) p hp (ops.map GOpN.abs) h3
  have hM := C14_same_n_greedy_reachable .BDHP (by decide) (ofBDHP cfg) p hp (ops.map GOpN.abs) 0 rfl
  simp only at hM
  rw [← h3] at hM
  obtain ⟨c1, c2, c3, c6⟩ := hM
  have hz : (0 : Int).toNat = 0 := rfl
  rw [hz] at e2 m2
  rw [← c1, ← c2] at e2
  -- the buffers
  have hb12 : ofPB t1.doubleHashDictionary.ParserBuffer = ofPB t2.doubleHashDictionary.ParserBuffer := by
    have a1 : (ofBDHPs t1).buf = _ := congrArg Parser.buf m1
    have a2 : (ofBDHPs t2).buf = _ := congrArg Parser.buf m2
    exact a1.trans (c3.trans a2.symm)
  have hdata : t1.doubleHashDictionary.ParserBuffer.Data = t2.doubleHashDictionary.ParserBuffer.Data := by
    refine slice_ext _ _ hH1.pok.wf.1.data pk2.wf.1.data (congrArg PBuf.data hb12) ?_
    rw [d1]
    exact st2.symm
  have hW : t1.doubleHashDictionary.ParserBuffer.W = t2.doubleHashDictionary.ParserBuffer.W := by
    have a : t1.doubleHashDictionary.ParserBuffer.W.toNat = t2.doubleHashDictionary.ParserBuffer.W.toNat := congrArg PBuf.w hb12
    have b1 := hH1.pok.wf.1.w
    have b2 := pk2.wf.1.w
    omega
  -- `n`
  have hdl := hH.dataLen
  have hcbs := hH.pok.cbs
  have hbs0 := hH.pok.bs0
  have hWle := hH.pok.w
  have hW0 := hH.pok.wf.1.w
  have hwN : (ofBDHPs t).buf.w = t.doubleHashDictionary.ParserBuffer.W.toNat := rfl
  have hbsN : (ofBDHPs t).buf.cfg.blockSize = t.doubleHashDictionary.ParserBuffer.BufConfig.BlockSize.toNat := rfl
  have hn : (((ofBDHPs t).parseNil.2.1 : Nat) : Int) =
      Min.min t.BDHPConfig.BlockSize ((t.doubleHashDictionary.ParserBuffer.Data.len : Int) - t.doubleHashDictionary.ParserBuffer.W) := by
    rw [c6, hdl, hwN, hbsN, ← hcbs]
    int_omega
  have hbn : (ofBDHPs t).parseNil.2.1 = (ofBDHPs t).blockN := parseNil_n _
  have hwsum : t1.doubleHashDictionary.ParserBuffer.W = t.doubleHashDictionary.ParserBuffer.W + (((ofBDHPs t).parseNil.2.1 : Nat) : Int) := by
    rw [w1, Parser.parseNil_buf, hbn]
    show (((ofBDHPs t).buf.w + (ofBDHPs t).blockN : Nat) : Int) = _
    rw [hwN]; omega
  refine ⟨t1, t2, blk', _, _, e1, e2, hdata, hW, d1, hwsum, hn, ?_, ?_⟩
  · intro hn0
    have h0 : (ofBDHPs t).blockN = 0 := by rw [← hbn]; omega
    rw [Parser.parseNil_empty _ h0]
    refine ⟨rfl, ?_⟩
    have hg : GenBDHPParse.blockNBD t = 0 := by
      rw [hn0] at hn
      unfold GenBDHPParse.blockNBD
      split <;> int_omega
    have := gen_bdhp_parseNil_empty grow fuel lcs t ghost flags hg
    rw [this] at e1
    injection e1 with e1
    exact (congrArg Prod.fst e1).symm
  · intro hn0
    have h0 : (ofBDHPs t).blockN ≠ 0 := by rw [← hbn]; omega
    obtain ⟨s', hs, -⟩ := Parser.parseNil_ok _ h0
    rw [hs]; rfl

end LZ.GenBDHPHist

#print axioms LZ.GenBDHPHist.hist_parseNil
#print axioms LZ.GenBDHPHist.runN_sim
#print axioms LZ.GenBDHPHist.gen_bdhp_history_nil
#print axioms LZ.GenBDHPHist.C01_go_text_bdhp_nil
#print axioms LZ.GenBDHPHist.C03_go_text_bdhp_nil
#print axioms LZ.GenBDHPHist.C14_skip_go_text_bdhp
#print axioms LZ.GenBDHPHist.C14_go_text_bdhp
