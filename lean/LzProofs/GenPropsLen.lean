/-
  LzProofs.GenPropsLen — lz.go: Seq.Len, Block.Len.   G06 gen_seqLen   G07 gen_blockLen
  Part of the split of the former LzProofs/GenProps.lean: "the hand-written model equals the
  code that `tools/extract -code` regenerates from the Go source".  The generated code is
  emitted per topic (LzModel/Generated/Code<Topic>.lean); this file only imports the topic it
  talks about, so a Go function the translator refuses takes down this file and nothing else.
  Every theorem quantifies over ALL inputs; Go `int`/`int64` are unbounded `Int` on both sides
  (overflow is out of scope), `uint32`/`uint64` wrap around.  All names live in `LZ.GenProps`.
  The proofs are written against the MEANING of the generated functions (unfold, split every
  `if`, decide linear arithmetic), not against the shape of the generated term, so that
  behaviour-preserving rewrites of the Go source (De Morgan, swapped arms, reordered defaults,
  `x+x` for `2*x`, …) do not break them.
-/
import LzModel.Generated.CodeLen
import LzModel.Basic

set_option linter.unusedSimpArgs false

namespace LZ.GenProps
open LZ

/-! ## lz.go: Seq.Len, Block.Len -/

def ofSeq (s : Gen.Seq) : LZ.Seq :=
  { litLen := s.LitLen.toNat, matchLen := s.MatchLen.toNat, offset := s.Offset.toNat, aux := s.Aux.toNat }

def ofBlock (b : Gen.Block) : LZ.Block := { seqs := b.Sequences.map ofSeq, lits := b.Literals }

/-- G06 -/
theorem gen_seqLen (s : Gen.Seq) : Gen.Seq_Len s = ((ofSeq s).matchLen + (ofSeq s).litLen : Nat) := by
  simp only [Gen.Seq_Len, gen_helper, ofSeq, Int.ofNat_eq_natCast]
  omega

theorem foldl_matchLen (l : List Gen.Seq) (n : Int) :
    List.foldl (fun n s => n + Int.ofNat s.MatchLen.toNat) n l
      = n + (((l.map ofSeq).map (·.matchLen)).sum : Nat) := by
  induction l generalizing n with
  | nil => simp
  | cons s t ih =>
    simp only [List.foldl_cons, List.map_cons, List.sum_cons, ih]
    simp only [ofSeq, Int.ofNat_eq_natCast, Int.natCast_add]
    omega

/-- G07 -/
theorem gen_blockLen (b : Gen.Block) : Gen.Block_Len b = ((ofBlock b).len : Nat) := by
  unfold Gen.Block_Len LZ.Block.len ofBlock
  simp only [foldl_matchLen]
  simp

end LZ.GenProps
