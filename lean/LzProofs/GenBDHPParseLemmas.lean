/-
  LzProofs.GenBDHPParseLemmas — helper lemmas for LzProofs/GenBDHPParse.lean (translated bdhp.go `(*bdhp).Parse`
  versus `ProbeW.parseW` for kind `.BDHP`): the instances of the shared loop lemmas (GenParseShared) for the generated
  loops of bdhp.go.  `doubleHashDictionary.processSegment`, the abstraction of the two tables (`setDD`, `HOK`) and the
  normal forms of `ProbeW.dhpProbeW` are those of GenDHPParseLemmas; `LcsSpec`, `gen_backExt` those of
  GenBHPParseLemmas.
-/
import LzModel.Generated.CodeBDHPParse
import LzProofs.GenDHPParseLemmas
import LzProofs.GenBHPParseLemmas
import LzProofs.GenPropsCfgBDHP

set_option linter.unusedSimpArgs false
set_option linter.unusedVariables false

namespace LZ.GenBDHPParse
open LZ LZ.Gen LZ.GenBuf LZ.GenHash LZ.GenHPParse LZ.GenParse LZ.GenDHPParse LZ.GenBHPParse

/-- a `bdhp` with other tables -/
@[reducible] def setTB (s : Gen.bdhp) (t1 t2 : GSlice hashEntry) : Gen.bdhp :=
  { s with doubleHashDictionary := setDD s.doubleHashDictionary t1 t2 }

theorem loop2_spec (grow : Nat → Nat → Nat) (lcs : Slice → Slice → Int) (x : UInt64) :
    Loop2Spec (bdhp_Parse_loop_2 grow lcs x) :=
  loop2_of_eqn _ (fun fuel k r q => by rw [bdhp_Parse_loop_2]; rfl)

theorem loop6_spec (grow : Nat → Nat → Nat) (lcs : Slice → Slice → Int) (x : UInt64) :
    Loop2Spec (bdhp_Parse_loop_6 grow lcs x) :=
  loop2_of_eqn _ (fun fuel k r q => by rw [bdhp_Parse_loop_6]; rfl)

/-- a re-indexing loop of `Parse` on the table of h1 alone (loop_4, loop_7) -/
theorem loopH1_eq (F : Nat → Int → Gen.bdhp → Res (Int × Gen.bdhp)) (b : Int) (_p : Slice)
    (heq : ∀ fuel j s, F (fuel + 1) j s =
      if j < b then
        Res.bind (Slice.slice _p j (Int.ofNat _p.len)) fun t_1 =>
        Res.bind (LZ.Gen._getLE64 t_1) fun r_2 =>
        Res.bind (storeKey s.doubleHashDictionary.h1 s.doubleHashDictionary.h1.table r_2 j) fun t_3 =>
        F fuel (j + 1) (setTB s t_3 s.doubleHashDictionary.h2.table)
      else Res.ok (j, s))
    (n fuel j : Nat) (a : Int) (s : Gen.bdhp)
    (ha : a = (j : Int)) (hn : n = (b - a).toNat) (hf : n < fuel) (hr : n = 0 ∨ j + n + 7 ≤ _p.len)
    (c1 : TCtx s.doubleHashDictionary.h1.mask s.doubleHashDictionary.h1.shift s.doubleHashDictionary.h1.inputLen _p)
    (ht1 : TOK s.doubleHashDictionary.h1.shift s.doubleHashDictionary.h1.table) :
    ∃ t1, TOK s.doubleHashDictionary.h1.shift t1 ∧
      ProbeW.insertRangeW (ofHash s.doubleHashDictionary.h1) _p.data j n = some (ofHashT s.doubleHashDictionary.h1 t1) ∧
      F fuel a s = Res.ok (((j + n : Nat) : Int), setTB s t1 s.doubleHashDictionary.h2.table) := by
  obtain ⟨s', tA, h1, h3, h5, h6, t1', rfl⟩ :=
    reindex1 F b _p (fun s => s.doubleHashDictionary.h1)
      (fun s _ t => setTB s t s.doubleHashDictionary.h2.table)
      (fun _ _ _ => rfl) heq
      (fun s s' => ∃ t1, s' = setTB s t1 s.doubleHashDictionary.h2.table)
      (fun s => ⟨s.doubleHashDictionary.h1.table, rfl⟩)
      (fun s s' y t ⟨t1, h⟩ => ⟨t, by rw [h]⟩)
      n fuel j a s s ha hn hf hr ⟨s.doubleHashDictionary.h1.table, rfl⟩ c1 ht1
  have e6 : t1' = tA := congrArg Gen.hash.table h6
  subst e6
  exact ⟨_, h1, h3, h5⟩

theorem loop4_heq (grow : Nat → Nat → Nat) (lcs : Slice → Slice → Int) (b : Int) (x : UInt64) (_p : Slice) (h pos : UInt32)
    (fuel : Nat) (j : Int) (s : Gen.bdhp) :
    bdhp_Parse_loop_4 grow lcs b x _p h pos (fuel + 1) j s =
      if j < b then
        Res.bind (Slice.slice _p j (Int.ofNat _p.len)) fun t_1 =>
        Res.bind (LZ.Gen._getLE64 t_1) fun r_2 =>
        Res.bind (storeKey s.doubleHashDictionary.h1 s.doubleHashDictionary.h1.table r_2 j) fun t_3 =>
        bdhp_Parse_loop_4 grow lcs b x _p h pos fuel (j + 1) (setTB s t_3 s.doubleHashDictionary.h2.table)
      else Res.ok (j, s) := by
  rw [bdhp_Parse_loop_4]; rfl

theorem loop7_heq (grow : Nat → Nat → Nat) (lcs : Slice → Slice → Int) (b : Int) (x : UInt64) (_p : Slice) (h : UInt32)
    (fuel : Nat) (j : Int) (s : Gen.bdhp) :
    bdhp_Parse_loop_7 grow lcs b x _p h (fuel + 1) j s =
      if j < b then
        Res.bind (Slice.slice _p j (Int.ofNat _p.len)) fun t_1 =>
        Res.bind (LZ.Gen._getLE64 t_1) fun r_2 =>
        Res.bind (storeKey s.doubleHashDictionary.h1 s.doubleHashDictionary.h1.table r_2 j) fun t_3 =>
        bdhp_Parse_loop_7 grow lcs b x _p h fuel (j + 1) (setTB s t_3 s.doubleHashDictionary.h2.table)
      else Res.ok (j, s) := by
  rw [bdhp_Parse_loop_7]; rfl

/-- loop_3 of `Parse` (`for j = i + 1; j < b; j++ { … }`): in bdhp.go it updates the table of h1 ONLY; the loop
    state also carries the variables `x`, `h` of the enclosing loop, which the body assigns -/
theorem loop3_eq (grow : Nat → Nat → Nat) (lcs : Slice → Slice → Int) (b : Int) (y : UInt64) (_p : Slice) (pos : UInt32)
    (n fuel j : Nat) (a : Int) (x : UInt64) (h : UInt32) (s : Gen.bdhp)
    (ha : a = (j : Int)) (hn : n = (b - a).toNat) (hf : n < fuel) (hr : n = 0 ∨ j + n + 7 ≤ _p.len)
    (c1 : TCtx s.doubleHashDictionary.h1.mask s.doubleHashDictionary.h1.shift s.doubleHashDictionary.h1.inputLen _p)
    (ht1 : TOK s.doubleHashDictionary.h1.shift s.doubleHashDictionary.h1.table) :
    ∃ t1 x' h', TOK s.doubleHashDictionary.h1.shift t1 ∧
      ProbeW.insertRangeW (ofHash s.doubleHashDictionary.h1) _p.data j n = some (ofHashT s.doubleHashDictionary.h1 t1) ∧
      bdhp_Parse_loop_3 grow lcs b y _p pos fuel a x h s =
        Res.ok (((j + n : Nat) : Int), x', h', setTB s t1 s.doubleHashDictionary.h2.table) := by
  obtain ⟨s', tA, h1, h3, h5, h6, t1', hs'⟩ :=
    reindex1 (σ := UInt64 × UInt32 × Gen.bdhp)
      (fun fuel j σ => bdhp_Parse_loop_3 grow lcs b y _p pos fuel j σ.1 σ.2.1 σ.2.2) b _p
      (fun σ => σ.2.2.doubleHashDictionary.h1)
      (fun σ y t => (y &&& σ.2.2.doubleHashDictionary.h1.mask,
        LZ.Gen.hashValue (y &&& σ.2.2.doubleHashDictionary.h1.mask) σ.2.2.doubleHashDictionary.h1.shift,
        setTB σ.2.2 t σ.2.2.doubleHashDictionary.h2.table))
      (fun _ _ _ => rfl)
      (fun fuel j σ => by
        show bdhp_Parse_loop_3 grow lcs b y _p pos (fuel + 1) j σ.1 σ.2.1 σ.2.2 = _
        rw [bdhp_Parse_loop_3]; rfl)
      (fun σ σ' => ∃ t1, σ'.2.2 = setTB σ.2.2 t1 σ.2.2.doubleHashDictionary.h2.table)
      (fun σ => ⟨σ.2.2.doubleHashDictionary.h1.table, rfl⟩)
      (fun σ σ' y t ⟨t1, h⟩ => ⟨t, by show setTB σ'.2.2 t _ = _; rw [h]⟩)
      n fuel j a (x, h, s) (x, h, s) ha hn hf hr ⟨s.doubleHashDictionary.h1.table, rfl⟩ c1 ht1
  obtain ⟨x', h', s''⟩ := s'
  simp only at hs' h6
  subst hs'
  have e6 : t1' = tA := congrArg Gen.hash.table h6
  subst e6
  exact ⟨_, x', h', h1, h3, h5⟩

end LZ.GenBDHPParse
