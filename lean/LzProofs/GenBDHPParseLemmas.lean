/-
  LzProofs.GenBDHPParseLemmas — helper lemmas for LzProofs/GenBDHPParse.lean (translated bdhp.go `(*bdhp).Parse`
  versus `ProbeW.parseW` for kind `.BDHP`): the instances of the shared loop lemmas (GenParseShared) for the generated
  loops of bdhp.go.  `doubleHashDictionary.processSegment`, the abstraction of the two tables (`setDD`, `HOK`) and the
  normal forms of `ProbeW.dhpProbeW` are those of GenDHPParseLemmas; `LcsSpec`, `gen_backExt` those of
  GenBHPParseLemmas.

  Shape independence (notes/robust.md).  No lemma of this file NAMES a generated loop function: the numbering
  `bdhp_Parse_loop_n` changes whenever a loop is added, removed or moved into a helper.  Instead
    * the inner loops are characterised generically (`F` with its defining equation as a hypothesis) and used in the
      "at" form `Res.bind (F …) K = G → … → K v = G`: `F` and the continuation `K` are taken from the hypothesis by
      unification, i.e. the lemma speaks about whatever function the generated text calls at that point; the defining
      equation is discharged by `unfold_head` (rewrites with the equation of the function at the head of the left-hand
      side, whatever its name);
    * the two outer loops are denoted `callee_loop% bdhp_Parse 0/1` — the first/second loop function called directly in
      the body of the generated `bdhp_Parse` (a term elaborator that reads the generated definition; it produces the
      constant itself, no wrapper);
    * `bind_assoc`: straight-line code in a join (`Res.bind (Res.bind m f) K`) and the same code inline or in an
      extracted helper (unfolded by `simp only [gen_helper]`) have the same normal form.
-/
import Lean
import LzModel.Generated.CodeBDHPParse
import LzProofs.GenDHPParseLemmas
import LzProofs.GenBHPParseLemmas
import LzProofs.GenPropsCfgBDHP

set_option linter.unusedSimpArgs false
set_option linter.unusedVariables false

namespace LZ.GenBDHPParse
open LZ LZ.Gen LZ.GenBuf LZ.GenHash LZ.GenHPParse LZ.GenParse LZ.GenDHPParse LZ.GenBHPParse

/-! ## name-independent access to generated functions -/

section Meta
open Lean Elab Tactic Meta Term

/-- the loop functions (constants named `…_loop_n`) occurring in `e`, in order of first occurrence -/
partial def collectLoops (e : Expr) (acc : Array Name) : Array Name :=
  match e with
  | .app f a => collectLoops a (collectLoops f acc)
  | .lam _ t b _ => collectLoops b (collectLoops t acc)
  | .forallE _ t b _ => collectLoops b (collectLoops t acc)
  | .letE _ t v b _ => collectLoops b (collectLoops v (collectLoops t acc))
  | .mdata _ b => collectLoops b acc
  | .proj _ _ b => collectLoops b acc
  | .const n _ =>
    if (n.toString.splitOn "_loop_").length > 1 && !acc.contains n then acc.push n else acc
  | _ => acc

/-- `callee_loop% f n` : the `n`-th (from 0) loop function called directly in the body of the generated function `f`
    (the constant itself).  Only used in STATEMENTS of auxiliary lemmas; the main theorems do not mention loops. -/
elab "callee_loop% " f:ident n:num : term => do
  let c ← realizeGlobalConstNoOverloadWithInfo f
  let info ← getConstInfo c
  let some v := info.value? | throwError "callee_loop%: {c} has no body"
  let loops := collectLoops v #[]
  let some l := loops[n.getNat]? | throwError "callee_loop%: {c} calls only {loops.size} loop functions"
  mkConstWithLevelParams l

/-- the head constant of the left-hand side of an equation -/
def lhsHead (t : Expr) : MetaM Name := do
  let t ← instantiateMVars t
  let some (_, lhs, _) := t.eq? | throwError "unfold_head: not an equation"
  let .const n _ := lhs.getAppFn | throwError "unfold_head: the left-hand side is not an application of a constant"
  return n

/-- `unfold_head` / `unfold_head at h`: rewrite with the defining equation of the function at the head of the
    left-hand side of the goal / of `h` — whatever its name is -/
elab "unfold_head" : tactic => withMainContext do
  let n ← lhsHead (← getMainTarget)
  evalTactic (← `(tactic| rw [$(mkIdent n):ident]))

@[inherit_doc tacticUnfold_head]
elab "unfold_head" " at " h:ident : tactic => withMainContext do
  let d ← getLocalDeclFromUserName h.getId
  let n ← lhsHead d.type
  evalTactic (← `(tactic| rw [$(mkIdent n):ident] at $h:ident))

/-- `unfold_helpers at h`: unfold (delta + equation, no simplification) the unexported helpers the translator followed
    automatically — the constants of `h` carrying the attribute `gen_helper`, whatever they are — except the byte loads,
    which the shared lemmas (`gen_load_ok`, `gen_getLE64`, …) are about -/
elab "unfold_helpers" " at " h:ident : tactic => do
  let some ext ← getSimpExtension? `gen_helper | throwError "unfold_helpers: no simp attribute gen_helper"
  let thms ← ext.getTheorems
  let keep : List Name := [``LZ.Gen._getLE64, ``LZ.Gen.getLE64, ``LZ.Gen._getLE32]
  for _ in [0:8] do
    let cs ← withMainContext do
      let d ← getLocalDeclFromUserName h.getId
      let t ← instantiateMVars d.type
      pure (t.getUsedConstants.filter fun n => thms.isDeclToUnfold n && !keep.contains n)
    if cs.isEmpty then break
    for c in cs do
      evalTactic (← `(tactic| unfold $(mkIdent c):ident at $h:ident))

end Meta

/-- omega after normalising `Int.ofNat` -/
macro "omegaI" : tactic =>
  `(tactic| first | omega | rfl | (simp only [Int.ofNat_eq_natCast] at * <;> omega))

section Meta2
open Lean Elab Tactic Meta Term

/-- `decide_if at h`: the first `if` of `h` (outermost, leftmost; whatever the spelling of its condition `c`) is
    decided from the context: `c` or `¬ c` is proved by omega, then `if_pos` / `if_neg` rewrites.  Fails when omega
    proves neither. -/
elab "decide_if" " at " h:ident : tactic => withMainContext do
  let d ← getLocalDeclFromUserName h.getId
  let t ← instantiateMVars d.type
  let some e := t.find? (fun e => e.isAppOfArity ``ite 5 && !e.hasLooseBVars)
    | throwError "decide_if: no if-then-else in {h}"
  let c := e.getArg! 1
  let tryProve (p : Expr) : TacticM Bool := do
    let s ← saveState
    try
      let m ← mkFreshExprMVar p
      let gs ← Tactic.run m.mvarId! (withoutRecover (evalTactic (← `(tactic| omegaI))))
      unless gs.isEmpty do throwError "open goals"
      let pf ← instantiateMVars m
      liftMetaTactic fun g => do
        let g ← g.assert `hc_dec p pf
        let (_, g) ← g.intro1P
        return [g]
      return true
    catch _ =>
      s.restore
      return false
  if ← tryProve c then
    evalTactic (← `(tactic| (rw [if_pos $(mkIdent `hc_dec)] at $h:ident; clear $(mkIdent `hc_dec))))
  else if ← tryProve (mkNot c) then
    evalTactic (← `(tactic| (rw [if_neg $(mkIdent `hc_dec)] at $h:ident; clear $(mkIdent `hc_dec))))
  else
    throwError "decide_if: omega decides neither{indentExpr c}\nnor its negation"

/-- `first_loop% h n`: the first (outermost, leftmost) application of a generated loop function `…_loop_k` in the
    hypothesis `h`, without its last `n` arguments (the fuel and the loop state) — "the loop the text calls next" -/
elab "first_loop% " h:ident n:num : term => do
  let d ← getLocalDeclFromUserName h.getId
  let t ← instantiateMVars d.type
  let n := n.getNat
  let isLoop (e : Expr) : Bool :=
    e.isApp && e.getAppNumArgs ≥ n &&
    (match e.getAppFn with
     | .const c _ => (c.toString.splitOn "_loop_").length > 1
     | _ => false) &&
    !(mkAppN e.getAppFn (e.getAppArgs.extract 0 (e.getAppNumArgs - n))).hasLooseBVars
  let some e := t.find? isLoop | throwError "first_loop%: no call of a loop function in {h}"
  return mkAppN e.getAppFn (e.getAppArgs.extract 0 (e.getAppNumArgs - n))

end Meta2

/-- `rw [ite_int_eq (v := v) (by omegaI)] at h`: the first integer-valued `if` of `h` (a clamp, in any spelling) is `v` -/
theorem ite_int_eq {c : Prop} [Decidable c] {a b v : Int} (h : (if c then a else b) = v) :
    (if c then a else b) = v := h

theorem bind_assoc {α β γ : Type} (m : Res α) (f : α → Res β) (g : β → Res γ) :
    Res.bind (Res.bind m f) g = Res.bind m (fun a => Res.bind (f a) g) := by
  cases m <;> rfl

/-- a `bdhp` with other tables -/
@[reducible] def setTB (s : Gen.bdhp) (t1 t2 : GSlice hashEntry) : Gen.bdhp :=
  { s with doubleHashDictionary := setDD s.doubleHashDictionary t1 t2 }

/-! ## the end of an iteration: the next call of the greedy loop, up to integer arithmetic -/

theorem loop_congr {α : Type} (F : Int → Gen.bdhp → Block' → Int → α) {i i' : Int} {s s' : Gen.bdhp} {b b' : Block'}
    {l l' : Int} (hi : i = i') (hs : s = s') (hb : b = b') (hl : l = l') : F i s b l = F i' s' b' l' := by
  rw [hi, hs, hb, hl]

theorem blk_eq {S : List Gen.Seq} {q q' : Gen.Seq} {l l' : Slice} (hq : q = q') (hl : l = l') :
    ({ Sequences := S ++ [q], Literals := l } : Block') = { Sequences := S ++ [q'], Literals := l' } := by
  rw [hq, hl]

theorem seq_eq {a b c : Int} {n1 n2 n3 : Nat} (ha : a = (n1 : Int)) (hb : b = (n2 : Int)) (hc : c = (n3 : Int)) :
    ({ LitLen := UInt32.ofInt a, MatchLen := UInt32.ofInt b, Offset := UInt32.ofInt c, Aux := 0 } : Gen.Seq) =
      seqRep { litLen := n1, matchLen := n2, offset := n3 } := by
  rw [ha, hb, hc]; rfl

/-! ## the forward extension -/

/-- the block `if k == 8 { … for len(q) >= 8 {…}; if len(q) > 0 {…}; match: }` in front of a continuation; `F` (the
    translated inner loop) and `K` are taken from `hG` -/
theorem extBlock_at {β : Type} (F : Nat → Int → Slice → Slice → Res (Nat × Int × Slice × Slice))
    (K : Int → Res β) (G : Res β) (fuel : Nat) (A : List UInt8) (L i j k8 : Nat) (ia : Int)
    (hG : Res.bind (extBlock F fuel { arr := A, len := L } ia (Int.ofNat j) ((k8 : Nat) : Int)) K = G)
    (hF : Loop2Spec F) (kk : Nat) (hia : ia = (i : Int))
    (hj : j < i) (hk8 : k8 ≤ L - i) (hLA : L ≤ A.length) (hfuel : L - i ≤ fuel)
    (hme : BytesW.matchExt (A.take L) i j k8 = some kk) : K ((kk : Nat) : Int) = G := by
  rw [extBlock_eq F hF fuel A L i j k8 kk ia hia hj hk8 hLA hfuel hme, bind_ok] at hG
  exact hG

/-! ## the backward extension -/

/-- the two slices of the backward extension in front of a continuation `K` (taken from `hG`; `back` =
    `min (i - litIndex) j` in any spelling: the lower bound `lo` is taken from `hG`, the equation `hlo` is left to the
    caller): `lcs` of the two slices is the model's `backExt` -/
theorem backLcs_at {β : Type} (lcs : Slice → Slice → Int) (hlcs : LcsSpec lcs) (A : List UInt8) (L i li j : Nat)
    (lo ia : Int) (K : Slice → Slice → Res β) (G : Res β)
    (hG : (Res.bind (Slice.slice { arr := A, len := L } lo (Int.ofNat j)) fun t_1 =>
           Res.bind (Slice.slice { arr := A, len := L } 0 ia) fun t_2 => K t_1 t_2) = G)
    (hlo : lo = ((j - Min.min (i - li) j : Nat) : Int)) (hia : ia = (i : Int)) (hb : li < i) (hj : j < i) (hi : i ≤ L)
    (hLA : L ≤ A.length) :
    ∃ s1 s2, lcs s1 s2 = ((backExt (A.take L) i li j : Nat) : Int) ∧ K s1 s2 = G := by
  rw [slice_okI _ _ (Int.ofNat j) (j - Min.min (i - li) j) j hlo rfl (by omega) (by show j ≤ A.length; omega), bind_ok,
    slice_okI _ 0 ia 0 i rfl hia (Nat.zero_le _) (by show i ≤ A.length; omega), bind_ok] at hG
  refine ⟨_, _, ?_, hG⟩
  rw [hlcs]
  have hd : lcsLen ({ arr := A.drop (j - Min.min (i - li) j), len := j - (j - Min.min (i - li) j) } : Slice).data
      ({ arr := A.drop 0, len := i - 0 } : Slice).data = backExt (A.take L) i li j := by
    unfold backExt
    rw [if_pos hb, data_drop, data_mk]
    show _ = lcsLen (((A.take L).take j).drop (j - Min.min (i - li) j)) ((A.take L).take i)
    rw [List.take_take, List.take_take, Nat.min_eq_left (show j ≤ L by omega), Nat.min_eq_left (show i ≤ L by omega)]
    simp only [List.drop_zero, Nat.sub_zero]
  rw [hd]

theorem backExt_zero (p : List Byte) (i li j : Nat) (h : ¬ li < i) : backExt p i li j = 0 := by
  unfold backExt; rw [if_neg h]

/-! ## the re-indexing loops -/

/-- a re-indexing loop of `Parse` on the table of h1 alone -/
theorem loopH1_eq (F : Nat → Int → Gen.bdhp → Res (Int × Gen.bdhp)) (b : Int) (_p : Slice)
    (heq : ∀ fuel j s, F (fuel + 1) j s =
      if j < b then
        Res.bind (Slice.slice _p j (Int.ofNat _p.len)) fun t_1 =>
        Res.bind (LZ.Gen._getLE64 t_1) fun r_2 =>
        Res.bind (storeKey s.doubleHashDictionary.h1 s.doubleHashDictionary.h1.table r_2 j) fun t_3 =>
        F fuel (j + 1) (setTB s t_3 s.doubleHashDictionary.h2.table)
      else Res.ok (j, s))
    (n fuel j : Nat) (a : Int) (s : Gen.bdhp)
    (ha : a = (j : Int)) (hn : n = (b - a).toNat) (hf : n < fuel) (hr : n = 0 ∨ j + n + 7 ≤ _p.len)
    (c1 : TCtx s.doubleHashDictionary.h1.mask s.doubleHashDictionary.h1.shift s.doubleHashDictionary.h1.inputLen _p)
    (ht1 : TOK s.doubleHashDictionary.h1.shift s.doubleHashDictionary.h1.table) :
    ∃ t1, TOK s.doubleHashDictionary.h1.shift t1 ∧
      ProbeW.insertRangeW (ofHash s.doubleHashDictionary.h1) _p.data j n = some (ofHashT s.doubleHashDictionary.h1 t1) ∧
      F fuel a s = Res.ok (((j + n : Nat) : Int), setTB s t1 s.doubleHashDictionary.h2.table) := by
  obtain ⟨s', tA, h1, h3, h5, h6, t1', rfl⟩ :=
    reindex1 F b _p (fun s => s.doubleHashDictionary.h1)
      (fun s _ t => setTB s t s.doubleHashDictionary.h2.table)
      (fun _ _ _ => rfl) heq
      (fun s s' => ∃ t1, s' = setTB s t1 s.doubleHashDictionary.h2.table)
      (fun s => ⟨s.doubleHashDictionary.h1.table, rfl⟩)
      (fun s s' y t ⟨t1, h⟩ => ⟨t, by rw [h]⟩)
      n fuel j a s s ha hn hf hr ⟨s.doubleHashDictionary.h1.table, rfl⟩ c1 ht1
  have e6 : t1' = tA := congrArg Gen.hash.table h6
  subst e6
  exact ⟨_, h1, h3, h5⟩

/-- the same in front of a continuation: `F`, its bound `b`, `_p` and `K` are taken from `hG` and from the proof of
    the defining equation `heq` (`by intros; unfold_head; rfl` at the use site) -/
theorem loopH1_at {β : Type} (F : Nat → Int → Gen.bdhp → Res (Int × Gen.bdhp)) (b : Int) (_p : Slice)
    (K : Int × Gen.bdhp → Res β) (G : Res β) (fuel : Nat) (a : Int) (s : Gen.bdhp)
    (hG : Res.bind (F fuel a s) K = G)
    (heq : ∀ fuel j s, F (fuel + 1) j s =
      if j < b then
        Res.bind (Slice.slice _p j (Int.ofNat _p.len)) fun t_1 =>
        Res.bind (LZ.Gen._getLE64 t_1) fun r_2 =>
        Res.bind (storeKey s.doubleHashDictionary.h1 s.doubleHashDictionary.h1.table r_2 j) fun t_3 =>
        F fuel (j + 1) (setTB s t_3 s.doubleHashDictionary.h2.table)
      else Res.ok (j, s))
    (n j : Nat)
    (ha : a = (j : Int)) (hn : n = (b - a).toNat) (hf : n < fuel) (hr : n = 0 ∨ j + n + 7 ≤ _p.len)
    (c1 : TCtx s.doubleHashDictionary.h1.mask s.doubleHashDictionary.h1.shift s.doubleHashDictionary.h1.inputLen _p)
    (ht1 : TOK s.doubleHashDictionary.h1.shift s.doubleHashDictionary.h1.table) :
    ∃ t1, TOK s.doubleHashDictionary.h1.shift t1 ∧
      ProbeW.insertRangeW (ofHash s.doubleHashDictionary.h1) _p.data j n = some (ofHashT s.doubleHashDictionary.h1 t1) ∧
      K (((j + n : Nat) : Int), setTB s t1 s.doubleHashDictionary.h2.table) = G := by
  obtain ⟨t1, h1, h2, h3⟩ := loopH1_eq F b _p heq n fuel j a s ha hn hf hr c1 ht1
  rw [h3, bind_ok] at hG
  exact ⟨t1, h1, h2, hG⟩

/-- the first re-indexing loop after a match of the first greedy loop (`for j = i + 1; j < b; j++ { … }`): in bdhp.go
    it updates the table of h1 ONLY; the loop state also carries the variables `x`, `h` of the enclosing loop, which
    the body assigns -/
theorem loopXH_at {β : Type} (F : Nat → Int → UInt64 → UInt32 → Gen.bdhp → Res (Int × UInt64 × UInt32 × Gen.bdhp))
    (b : Int) (_p : Slice) (K : Int × UInt64 × UInt32 × Gen.bdhp → Res β) (G : Res β)
    (fuel : Nat) (a : Int) (x : UInt64) (h : UInt32) (s : Gen.bdhp)
    (hG : Res.bind (F fuel a x h s) K = G)
    (heq : ∀ fuel j x h s, F (fuel + 1) j x h s =
      if j < b then
        Res.bind (Slice.slice _p j (Int.ofNat _p.len)) fun t_1 =>
        Res.bind (LZ.Gen._getLE64 t_1) fun r_2 =>
        Res.bind (storeKey s.doubleHashDictionary.h1 s.doubleHashDictionary.h1.table r_2 j) fun t_3 =>
        F fuel (j + 1) (r_2 &&& s.doubleHashDictionary.h1.mask)
          (LZ.Gen.hashValue (r_2 &&& s.doubleHashDictionary.h1.mask) s.doubleHashDictionary.h1.shift)
          (setTB s t_3 s.doubleHashDictionary.h2.table)
      else Res.ok (j, x, h, s))
    (n j : Nat)
    (ha : a = (j : Int)) (hn : n = (b - a).toNat) (hf : n < fuel) (hr : n = 0 ∨ j + n + 7 ≤ _p.len)
    (c1 : TCtx s.doubleHashDictionary.h1.mask s.doubleHashDictionary.h1.shift s.doubleHashDictionary.h1.inputLen _p)
    (ht1 : TOK s.doubleHashDictionary.h1.shift s.doubleHashDictionary.h1.table) :
    ∃ t1 x' h', TOK s.doubleHashDictionary.h1.shift t1 ∧
      ProbeW.insertRangeW (ofHash s.doubleHashDictionary.h1) _p.data j n = some (ofHashT s.doubleHashDictionary.h1 t1) ∧
      K (((j + n : Nat) : Int), x', h', setTB s t1 s.doubleHashDictionary.h2.table) = G := by
  obtain ⟨s', tA, h1, h3, h5, h6, t1', hs'⟩ :=
    reindex1 (σ := UInt64 × UInt32 × Gen.bdhp)
      (fun fuel j σ => F fuel j σ.1 σ.2.1 σ.2.2) b _p
      (fun σ => σ.2.2.doubleHashDictionary.h1)
      (fun σ y t => (y &&& σ.2.2.doubleHashDictionary.h1.mask,
        LZ.Gen.hashValue (y &&& σ.2.2.doubleHashDictionary.h1.mask) σ.2.2.doubleHashDictionary.h1.shift,
        setTB σ.2.2 t σ.2.2.doubleHashDictionary.h2.table))
      (fun _ _ _ => rfl)
      (fun fuel j σ => heq fuel j σ.1 σ.2.1 σ.2.2)
      (fun σ σ' => ∃ t1, σ'.2.2 = setTB σ.2.2 t1 σ.2.2.doubleHashDictionary.h2.table)
      (fun σ => ⟨σ.2.2.doubleHashDictionary.h1.table, rfl⟩)
      (fun σ σ' y t ⟨t1, h⟩ => ⟨t, by show setTB σ'.2.2 t _ = _; rw [h]⟩)
      n fuel j a (x, h, s) (x, h, s) ha hn hf hr ⟨s.doubleHashDictionary.h1.table, rfl⟩ c1 ht1
  obtain ⟨x', h', s''⟩ := s'
  simp only at hs' h6
  subst hs'
  have e6 : t1' = tA := congrArg Gen.hash.table h6
  subst e6
  rw [show F fuel a x h s = _ from h5, bind_ok] at hG
  exact ⟨_, x', h', h1, h3, hG⟩

end LZ.GenBDHPParse
