import LzModel.DecBuf
set_option linter.unusedSimpArgs false
namespace LZ

/-! # Part 1: the doubling copy equals the byte-wise reference copy -/

/-- `R` extends `D` and is `o`-periodic from index `|D|` on. -/
structure PerExt (D : List Byte) (o : Nat) (R : List Byte) : Prop where
  pre : D <+: R
  per : ∀ i, D.length ≤ i → i < R.length → R[i]? = R[i - o]?

namespace PerExt

theorem refl (D : List Byte) (o : Nat) : PerExt D o D :=
  ⟨List.prefix_refl D, fun i h1 h2 => by omega⟩

theorem length_le {D R : List Byte} {o : Nat} (h : PerExt D o R) : D.length ≤ R.length :=
  h.pre.length_le

theorem getElem?_pre {D R : List Byte} {o : Nat} (h : PerExt D o R) {i : Nat} (hi : i < D.length) :
    R[i]? = D[i]? := by
  obtain ⟨t, rfl⟩ := h.pre
  exact List.getElem?_append_left hi

/-- the periodic extension of a given length is unique -/
theorem unique {D R1 R2 : List Byte} {o : Nat} (h1 : PerExt D o R1) (h2 : PerExt D o R2)
    (ho : 0 < o) (hoD : o ≤ D.length) (hlen : R1.length = R2.length) : R1 = R2 := by
  apply List.ext_getElem?
  intro i
  induction i using Nat.strongRecOn with
  | _ i ih =>
    by_cases hi : i < D.length
    · rw [h1.getElem?_pre hi, h2.getElem?_pre hi]
    · by_cases hi2 : i < R1.length
      · rw [h1.per i (by omega) hi2, h2.per i (by omega) (by omega)]
        exact ih (i - o) (by omega)
      · rw [List.getElem?_eq_none (by omega), List.getElem?_eq_none (by omega)]

theorem take {D R : List Byte} {o : Nat} (h : PerExt D o R) {k : Nat} (hk : D.length ≤ k) :
    PerExt D o (R.take k) := by
  constructor
  · exact List.prefix_take_iff.mpr ⟨h.pre, hk⟩
  · intro i h1 h2
    rw [List.length_take] at h2
    rw [List.getElem?_take_of_lt (by omega), List.getElem?_take_of_lt (by omega)]
    exact h.per i h1 (by omega)

/-- going back any number of periods stays inside the periodic region -/
theorem shift {D R : List Byte} {o : Nat} (h : PerExt D o R) (k y : Nat)
    (hy : D.length ≤ y + o) (hlt : y + k * o < R.length) : R[y + k * o]? = R[y]? := by
  induction k with
  | zero => simp
  | succ k ih =>
    have e : y + (k + 1) * o = (y + k * o) + o := by rw [Nat.add_mul]; omega
    have hk : y + k * o < R.length := by omega
    rw [e, h.per (y + k * o + o) (by omega) (by omega)]
    rw [show y + k * o + o - o = y + k * o by omega]
    exact ih hk

/-- appending the last `off = (k+1)·o` bytes continues the period, provided the chunk starts
    at most `o` bytes in front of the periodic region -/
theorem chunk {D R : List Byte} {o : Nat} (h : PerExt D o R) (ho : 0 < o) (hoD : o ≤ D.length)
    (k off : Nat) (hoff : off = k * o + o) (hb : off ≤ R.length - D.length + o) :
    PerExt D o (R ++ R.drop (R.length - off)) := by
  have hl := h.length_le
  constructor
  · exact h.pre.trans (List.prefix_append _ _)
  · intro i h1 h2
    simp only [List.length_append, List.length_drop] at h2
    by_cases hi : i < R.length
    · rw [List.getElem?_append_left hi, List.getElem?_append_left (by omega)]
      exact h.per i h1 hi
    · rw [List.getElem?_append_right (by omega), List.getElem?_drop]
      by_cases hj : i - R.length < o
      · -- the byte `o` before is still in `R`
        rw [List.getElem?_append_left (by omega)]
        have := h.shift k (R.length - off + (i - R.length)) (by omega) (by omega)
        rw [← this]
        congr 1
        omega
      · rw [List.getElem?_append_right (by omega), List.getElem?_drop]
        rw [h.per (R.length - off + (i - R.length)) (by omega) (by omega)]
        congr 1
        omega

end PerExt

/-- the reference copy produces the periodic extension -/
theorem copyRef_perExt (out : List Byte) (o m : Nat) (ho : 0 < o) (hlen : o ≤ out.length) :
    ∃ R, copyRef out o m = some R ∧ PerExt out o R ∧ R.length = out.length + m := by
  induction m generalizing out with
  | zero => exact ⟨out, rfl, PerExt.refl _ _, rfl⟩
  | succ m ih =>
    have hc : 0 < o ∧ o ≤ out.length := ⟨ho, hlen⟩
    simp only [copyRef, hc, and_self, ↓reduceDIte]
    obtain ⟨R, hR, hp, hl⟩ := ih (out ++ [out[out.length - o]'(by omega)]) (by simp; omega)
    refine ⟨R, hR, ⟨?_, ?_⟩, by simp at hl; omega⟩
    · exact (List.prefix_append _ _).trans hp.pre
    · intro i h1 h2
      by_cases hi : i = out.length
      · subst hi
        rw [hp.getElem?_pre (by simp), hp.getElem?_pre (by simp; omega)]
        rw [List.getElem?_append_right (by omega), List.getElem?_append_left (by omega)]
        simp
      · exact hp.per i (by simp; omega) h2

theorem copyRef_length {out R : List Byte} {o m : Nat} (h : copyRef out o m = some R) :
    R.length = out.length + m := by
  induction m generalizing out with
  | zero => simp [copyRef] at h; subst h; rfl
  | succ m ih =>
    simp only [copyRef] at h
    split at h
    · have := ih h; simp at this; omega
    · cases h

theorem copyRef_zero (out : List Byte) (o : Nat) : copyRef out o 0 = some out := rfl

/-- `copyRef` succeeds exactly when the offset is valid (or nothing is copied) -/
theorem copyRef_isSome_iff (out : List Byte) (o m : Nat) :
    (copyRef out o m).isSome ↔ (m = 0 ∨ (0 < o ∧ o ≤ out.length)) := by
  cases m with
  | zero => simp [copyRef]
  | succ m =>
    by_cases hc : 0 < o ∧ o ≤ out.length
    · obtain ⟨R, hR, _⟩ := copyRef_perExt out o (m + 1) hc.1 hc.2
      simp [hR, hc]
    · simp only [copyRef, hc, ↓reduceDIte]; simp

/-! ## the model's loop -/
namespace DecBuf

@[simp] theorem append_data (g : Grow) (b : DecBuf) (p : List Byte) : (b.append g p).data = b.data ++ p := rfl
@[simp] theorem append_r (g : Grow) (b : DecBuf) (p : List Byte) : (b.append g p).r = b.r := rfl
@[simp] theorem append_off (g : Grow) (b : DecBuf) (p : List Byte) : (b.append g p).off = b.off := rfl
@[simp] theorem append_ws (g : Grow) (b : DecBuf) (p : List Byte) : (b.append g p).ws = b.ws := rfl
@[simp] theorem append_bs (g : Grow) (b : DecBuf) (p : List Byte) : (b.append g p).bs = b.bs := rfl

/-- the fields other than `data` and `cap` coincide -/
def SameCtl (b b' : DecBuf) : Prop := b'.r = b.r ∧ b'.off = b.off ∧ b'.ws = b.ws ∧ b'.bs = b.bs

theorem SameCtl.rfl' (b : DecBuf) : SameCtl b b := ⟨rfl, rfl, rfl, rfl⟩
theorem SameCtl.trans {a b c : DecBuf} (h1 : SameCtl a b) (h2 : SameCtl b c) : SameCtl a c := by
  unfold SameCtl at *; omega
theorem sameCtl_append (g : Grow) (b : DecBuf) (p : List Byte) : SameCtl b (b.append g p) :=
  ⟨rfl, rfl, rfl, rfl⟩

theorem copyLoop_sameCtl (g : Grow) (b : DecBuf) (n off : Nat) : SameCtl b (copyLoop g b n off).1 := by
  fun_induction copyLoop g b n off with
  | case1 b n off h b' n' hle => exact sameCtl_append _ _ _
  | case2 b n off h b' n' hle ih => exact (sameCtl_append _ _ _).trans ih
  | case3 b n off h => exact SameCtl.rfl' _

/-- invariant of the doubling loop: `data` stays an `o`-periodic extension of `D`, `off` is a
    multiple of `o`, and a chunk of `off` bytes starts at most `o` bytes in front of the
    periodic region -/
theorem copyLoop_inv (g : Grow) (D : List Byte) (o : Nat) (ho : 0 < o) (hoD : o ≤ D.length)
    (b : DecBuf) (n off : Nat)
    (hp : PerExt D o b.data) (hk : ∃ k, off = k * o + o)
    (hb : off ≤ b.data.length - D.length + o) :
    PerExt D o (copyLoop g b n off).1.data ∧
    (∃ k, (copyLoop g b n off).2.2 = k * o + o) ∧
    (copyLoop g b n off).2.2 ≤ (copyLoop g b n off).1.data.length - D.length + o ∧
    (copyLoop g b n off).1.data.length + (copyLoop g b n off).2.1 = b.data.length + n ∧
    (copyLoop g b n off).2.1 ≤ (copyLoop g b n off).2.2 := by
  fun_induction copyLoop g b n off with
  | case1 b n off h b' n' hle =>
    obtain ⟨k, hk⟩ := hk
    have hl := hp.length_le
    refine ⟨hp.chunk ho hoD k off hk hb, ⟨k, hk⟩, ?_, ?_, hle⟩
    · simp [b']; omega
    · simp [b', n']; omega
  | case2 b n off h b' n' hle ih =>
    obtain ⟨k, hk⟩ := hk
    have hl := hp.length_le
    have := ih (hp.chunk ho hoD k off hk hb) ⟨2 * k + 1, by
      have e : (2 * k + 1) * o = 2 * (k * o) + o := by
        rw [Nat.add_mul, Nat.mul_assoc, Nat.one_mul]
      rw [e]; omega⟩ (by simp [b']; omega)
    refine ⟨this.1, this.2.1, this.2.2.1, ?_, this.2.2.2.2⟩
    have h4 := this.2.2.2.1
    simp [b', n'] at h4 ⊢
    omega
  | case3 b n off h =>
    obtain ⟨k, hk⟩ := hk
    refine ⟨hp, ⟨k, hk⟩, hb, rfl, ?_⟩
    show n ≤ off
    have : 0 < off := by omega
    omega

/-- all slice expressions of the copy loop (`Data[len-off:]`) are within bounds -/
def copyLoopSafe (g : Grow) (b : DecBuf) (n off : Nat) : Prop :=
  if h : n > off ∧ off > 0 then
    off ≤ b.data.length ∧
      (if n - off ≤ off then True
       else copyLoopSafe g (b.append g (b.data.drop (b.data.length - off))) (n - off) (off * 2))
  else True
termination_by n
decreasing_by omega

theorem copyLoop_safe_aux (g : Grow) (b : DecBuf) (n off : Nat) (h : 0 < off → off ≤ b.data.length) :
    copyLoopSafe g b n off := by
  fun_induction copyLoop g b n off with
  | case1 b n off hc b' n' hle =>
    unfold copyLoopSafe
    simp only [hc, and_self, ↓reduceDIte]
    simp only [n'] at hle
    simp [hle, h hc.2]
  | case2 b n off hc b' n' hle ih =>
    unfold copyLoopSafe
    simp only [hc, and_self, ↓reduceDIte]
    simp only [n'] at hle
    simp only [hle, ↓reduceIte]
    refine ⟨h hc.2, ih ?_⟩
    intro _
    have := h hc.2
    simp [b']; omega
  | case3 b n off hc =>
    unfold copyLoopSafe
    simp [hc]

theorem copyMatch_def (g : Grow) (b : DecBuf) (m o : Nat) :
    copyMatch g b m o =
      (copyLoop g b m o).1.append g
        (((copyLoop g b m o).1.data.drop ((copyLoop g b m o).1.data.length - (copyLoop g b m o).2.2)).take
          (copyLoop g b m o).2.1) := rfl

theorem copyMatch_sameCtl (g : Grow) (b : DecBuf) (m o : Nat) : SameCtl b (copyMatch g b m o) := by
  rw [copyMatch_def]
  exact (copyLoop_sameCtl g b m o).trans (sameCtl_append _ _ _)

theorem copyLoop_zero (g : Grow) (b : DecBuf) (off : Nat) : copyLoop g b 0 off = (b, 0, off) := by
  unfold copyLoop; simp

theorem copyMatch_zero (g : Grow) (b : DecBuf) (o : Nat) : (copyMatch g b 0 o).data = b.data := by
  rw [copyMatch_def, copyLoop_zero]; simp

/-- **Doubling copy = reference copy.**  For a valid offset the doubling loop followed by the
    final partial copy appends exactly what the byte-wise copy appends. -/
theorem copyMatch_eq_copyRef (g : Grow) (b : DecBuf) (m o : Nat)
    (h : m = 0 ∨ (0 < o ∧ o ≤ b.data.length)) :
    copyRef b.data o m = some (copyMatch g b m o).data := by
  by_cases hm : m = 0
  · subst hm; rw [copyMatch_zero]; rfl
  · have ⟨ho, hoD⟩ : 0 < o ∧ o ≤ b.data.length := by omega
    obtain ⟨R, hR, hpR, hlR⟩ := copyRef_perExt b.data o m ho hoD
    obtain ⟨hp, ⟨k, hk⟩, hb, hlen, hle⟩ :=
      copyLoop_inv g b.data o ho hoD b m o (PerExt.refl _ _) ⟨0, by simp⟩ (by omega)
    have hl := hp.length_le
    rw [hR, copyMatch_def]
    congr 1
    generalize copyLoop g b m o = r at *
    obtain ⟨b', n, off⟩ := r
    simp only at hp hk hb hlen hle hl ⊢
    have hch := (hp.chunk ho hoD k off hk hb).take (k := b'.data.length + n) (by omega)
    have e : (b'.data ++ b'.data.drop (b'.data.length - off)).take (b'.data.length + n) =
        b'.data ++ (b'.data.drop (b'.data.length - off)).take n := by
      rw [List.take_append, List.take_of_length_le (by omega)]
      congr 2; omega
    rw [e] at hch
    apply hpR.unique hch ho hoD
    simp [List.length_take, List.length_drop]
    omega

theorem copyMatch_length (g : Grow) (b : DecBuf) (m o : Nat)
    (h : m = 0 ∨ (0 < o ∧ o ≤ b.data.length)) :
    (copyMatch g b m o).data.length = b.data.length + m :=
  copyRef_length (copyMatch_eq_copyRef g b m o h)

/-- the model's "no slice panic" for the copy: in every loop iteration `off ≤ len(Data)`
    (so `Data[len-off:]` is fine) and for the final `Data[j:j+n]`, `j = len-off ≥ 0` and
    `j+n ≤ len` -/
theorem copyMatch_safe (g : Grow) (b : DecBuf) (m o : Nat)
    (ho : o ≤ b.data.length) (h0 : o = 0 → m = 0) :
    copyLoopSafe g b m o ∧
    (copyLoop g b m o).2.2 ≤ (copyLoop g b m o).1.data.length ∧
    (copyLoop g b m o).2.1 ≤ (copyLoop g b m o).2.2 := by
  refine ⟨copyLoop_safe_aux g b m o (fun _ => ho), ?_⟩
  by_cases hz : o = 0
  · have := h0 hz; subst hz; subst this
    rw [copyLoop_zero]; simp
  · obtain ⟨hp, _, hb, _, hle⟩ :=
      copyLoop_inv g b.data o (by omega) ho b m o (PerExt.refl _ _) ⟨0, by simp⟩ (by omega)
    have := hp.length_le
    exact ⟨by omega, hle⟩

end DecBuf

/-! # Part 2: abstraction to an append-only byte log -/

/-- the reference copy only looks at the last `o` bytes: it commutes with a longer history -/
theorem copyRef_append_left (pre : List Byte) {out R : List Byte} {o m : Nat}
    (h : copyRef out o m = some R) : copyRef (pre ++ out) o m = some (pre ++ R) := by
  induction m generalizing out with
  | zero => simp [copyRef] at h ⊢; exact h
  | succ m ih =>
    simp only [copyRef] at h
    split at h
    · rename_i hc
      have hc' : 0 < o ∧ o ≤ (pre ++ out).length := by simp; omega
      simp only [copyRef, hc', and_self, ↓reduceDIte]
      have := ih h
      rw [← this]
      congr 1
      rw [List.append_assoc]
      congr 2
      simp only [List.length_append, List.cons.injEq, and_true]
      rw [List.getElem_append_right (by omega)]
      congr 1
      omega
    · cases h

def sumLit (ss : List Seq) : Nat := (ss.map (·.litLen)).sum
def sumMatch (ss : List Seq) : Nat := (ss.map (·.matchLen)).sum

/-- what a successful reference expansion consumes and produces -/
theorem expandSeqs_counts {w lits w' rest : List Byte} {ss : List Seq}
    (h : expandSeqs w lits ss = some (w', rest)) :
    rest = lits.drop (sumLit ss) ∧ sumLit ss ≤ lits.length ∧
    w'.length = w.length + sumLit ss + sumMatch ss := by
  induction ss generalizing w lits with
  | nil => simp [expandSeqs] at h; simp [sumLit, sumMatch, h.1.symm, h.2.symm]
  | cons s ss ih =>
    simp only [expandSeqs] at h
    split at h
    · rename_i hl
      split at h
      · rename_i out' hc
        obtain ⟨i1, i2, i3⟩ := ih h
        have := copyRef_length hc
        simp only [List.length_append, List.length_take, List.length_drop] at this i2 i3
        refine ⟨?_, ?_, ?_⟩
        · rw [i1, List.drop_drop]; simp [sumLit]
        · simp [sumLit] at i2 ⊢; omega
        · simp [sumLit, sumMatch] at i2 i3 ⊢; omega
      · cases h
    · cases h

theorem copyRef_prefix {w w' : List Byte} {o m : Nat} (h : copyRef w o m = some w') : w <+: w' := by
  induction m generalizing w with
  | zero => simp [copyRef] at h; subst h; exact List.prefix_refl _
  | succ m ih =>
    simp only [copyRef] at h
    split at h
    · exact (List.prefix_append _ _).trans (ih h)
    · cases h

theorem expandSeqs_prefix {w lits w' rest : List Byte} {ss : List Seq}
    (h : expandSeqs w lits ss = some (w', rest)) : w <+: w' := by
  induction ss generalizing w lits with
  | nil => simp [expandSeqs] at h; rw [h.1]; exact List.prefix_refl _
  | cons s ss ih =>
    simp only [expandSeqs] at h
    split at h
    · split at h
      · rename_i out' hc
        exact ((List.prefix_append _ _).trans (copyRef_prefix hc)).trans (ih h)
      · cases h
    · cases h

theorem take_of_prefix {w w' : List Byte} (h : w <+: w') {d : Nat} (hd : d ≤ w.length) :
    w'.take d = w.take d := by
  obtain ⟨t, rfl⟩ := h
  exact List.take_append_of_le_length hd

/-- the expansion of `ss` only needs the literals it consumes -/
theorem expandSeqs_take_lits {w lits w' rest : List Byte} {ss : List Seq}
    (h : expandSeqs w lits ss = some (w', rest)) {l : Nat} (hl : l + rest.length = lits.length) :
    expandSeqs w (lits.take l) ss = some (w', []) := by
  induction ss generalizing w lits l with
  | nil =>
    simp [expandSeqs] at h ⊢
    obtain ⟨rfl, rfl⟩ := h
    exact ⟨rfl, by omega⟩
  | cons s ss ih =>
    simp only [expandSeqs] at h ⊢
    split at h
    · rename_i hle
      split at h
      · rename_i out' hc
        obtain ⟨c1, c2, c3⟩ := expandSeqs_counts h
        have hr : rest.length = lits.length - s.litLen - sumLit ss := by
          rw [c1]; simp; omega
        simp only [List.length_drop] at c2
        have h1 : s.litLen ≤ (lits.take l).length := by rw [List.length_take]; omega
        simp only [h1, ↓reduceIte]
        have h2 : (lits.take l).take s.litLen = lits.take s.litLen := by
          rw [List.take_take]; congr 1; omega
        rw [h2, hc]
        simp only
        have h3 : (lits.take l).drop s.litLen = (lits.drop s.litLen).take (l - s.litLen) := by
          rw [List.drop_take]
        rw [h3]
        exact ih h (by rw [List.length_drop]; omega)
      · cases h
    · cases h

namespace DecBuf

/-- Abstraction relation, data part (everything except `Off`): the buffer `b` represents the byte
    log `w` (everything written since Init/Reset) of which `d` bytes have been delivered. -/
structure AbsD (b : DecBuf) (w : List Byte) (d : Nat) : Prop where
  /-- `Data` is the suffix of the log of length `len(Data)` -/
  suffix : b.data <:+ w
  r_le : b.r ≤ b.data.length
  /-- delivered = dropped + R: unread bytes are never dropped -/
  deliv : d = w.length - b.data.length + b.r
  /-- the window stays addressable -/
  win : min b.ws w.length ≤ b.data.length
  ws_lt : b.ws < b.bs
  len_bs : b.data.length ≤ b.bs

/-- Abstraction relation including `Off = |written|`. -/
structure Abs (b : DecBuf) (w : List Byte) (d : Nat) : Prop extends AbsD b w d where
  off : b.off = w.length

theorem AbsD.len_le {b : DecBuf} {w : List Byte} {d : Nat} (h : AbsD b w d) :
    b.data.length ≤ w.length := h.suffix.length_le

theorem AbsD.data_eq {b : DecBuf} {w : List Byte} {d : Nat} (h : AbsD b w d) :
    b.data = w.drop (w.length - b.data.length) := List.suffix_iff_eq_drop.mp h.suffix

theorem AbsD.congr {b b' : DecBuf} {w : List Byte} {d : Nat} (h : AbsD b w d)
    (h1 : b'.data = b.data) (h2 : b'.r = b.r) (h3 : b'.ws = b.ws) (h4 : b'.bs = b.bs) :
    AbsD b' w d := by
  constructor
  · rw [h1]; exact h.suffix
  · rw [h1, h2]; exact h.r_le
  · rw [h1, h2]; exact h.deliv
  · rw [h1, h3]; exact h.win
  · rw [h3, h4]; exact h.ws_lt
  · rw [h1, h4]; exact h.len_bs

/-- the window bound in terms of the log: `min (len(Data)+x) ws = min (|w|+x) ws` -/
theorem AbsD.min_win {b : DecBuf} {w : List Byte} {d : Nat} (h : AbsD b w d) (x : Nat) :
    min (b.data.length + x) b.ws = min (w.length + x) b.ws := by
  have := h.win; have := h.len_le; omega

theorem AbsD.append {b : DecBuf} {w : List Byte} {d : Nat} (h : AbsD b w d) (g : Grow)
    (p : List Byte) (hfit : b.data.length + p.length ≤ b.bs) : AbsD (b.append g p) (w ++ p) d := by
  have hl := h.len_le
  have := h.win
  constructor
  · obtain ⟨t, ht⟩ := h.suffix
    exact ⟨t, by simp [← ht]⟩
  · simp; have := h.r_le; omega
  · simp; have := h.deliv; omega
  · simp; omega
  · exact h.ws_lt
  · simp; omega

/-! ### shrink -/

theorem shrink_props (b : DecBuf) (g : Nat) :
    (b.shrink g).1.data = b.data.drop (b.shrink g).2 ∧
    (b.shrink g).1.r = b.r - (b.shrink g).2 ∧
    (b.shrink g).2 ≤ b.r ∧
    (b.shrink g).2 ≤ b.data.length - b.ws ∧
    (b.shrink g).1.off = b.off ∧
    (b.shrink g).1.ws = b.ws ∧
    b.bs ≤ (b.shrink g).1.bs := by
  unfold shrink
  by_cases hr : b.bs < b.cap <;> simp only [hr, ↓reduceIte, true_and, false_and]
  · split
    · simp; omega
    · split
      · simp; omega
      · simp; omega
  · split
    · simp
    · simp; omega

/-- `shrink` keeps at least `min len(Data) ws` bytes and never drops an unread byte -/
theorem shrink_keeps (b : DecBuf) (g : Nat) :
    min b.data.length b.ws ≤ (b.shrink g).1.data.length ∧ (b.shrink g).2 ≤ b.r ∧
    (b.shrink g).2 ≤ b.data.length - b.ws ∧
    (b.shrink g).1.data.length + (b.shrink g).2 = b.data.length := by
  obtain ⟨h1, h2, h3, h4, _⟩ := shrink_props b g
  rw [h1, List.length_drop]; omega

theorem AbsD.shrink {b : DecBuf} {w : List Byte} {d : Nat} (h : AbsD b w d) (g : Nat) :
    AbsD (b.shrink g).1 w d := by
  obtain ⟨h1, h2, h3, h4, h5, h6, h7⟩ := shrink_props b g
  have hl := h.len_le
  have := h.win; have := h.r_le; have := h.deliv; have := h.ws_lt; have := h.len_bs
  constructor
  · rw [h1]; exact (List.drop_suffix _ _).trans h.suffix
  · rw [h1, h2, List.length_drop]; omega
  · rw [h1, h2, List.length_drop]; omega
  · rw [h1, h6, List.length_drop]; omega
  · rw [h6]; omega
  · rw [h1, List.length_drop]; omega

theorem Abs.shrink {b : DecBuf} {w : List Byte} {d : Nat} (h : Abs b w d) (g : Nat) :
    Abs (b.shrink g).1 w d :=
  ⟨h.toAbsD.shrink g, by rw [(shrink_props b g).2.2.2.2.1]; exact h.off⟩

/-! ### init, reset, read -/

theorem decCfg_lt {ws bs : Int} {w b : Nat} (h : decCfg ws bs = some (w, b)) : w < b := by
  unfold decCfg at h
  simp only at h
  generalize (if ws = 0 then Facts.decDefWindowSize else ws) = ws' at h
  generalize (if bs = 0 then Facts.decBufFactor * ws' else bs) = bs' at h
  split at h
  · cases h; omega
  · cases h

theorem init_abs {ws bs : Int} {precap : Nat} {b : DecBuf} (h : init ws bs precap = some b) :
    Abs b [] 0 := by
  unfold init at h
  split at h
  · cases h
  · rename_i w' b' hc
    cases h
    have := decCfg_lt hc
    refine ⟨⟨List.suffix_refl _, by simp, by simp, by simp, ?_, by simp⟩, rfl⟩
    simp only
    split <;> omega

theorem reset_abs {b : DecBuf} {w : List Byte} {d : Nat} (h : AbsD b w d) : Abs b.reset [] 0 := by
  refine ⟨⟨List.suffix_refl _, by simp [reset], by simp [reset], by simp [reset], ?_, by simp [reset]⟩, rfl⟩
  have := h.ws_lt
  simp only [reset]
  split <;> omega

theorem read_abs {b : DecBuf} {w : List Byte} {d : Nat} (h : Abs b w d) (n : Nat) :
    (b.read n).2 = (w.drop d).take n ∧
    (b.read n).2.length = min n (w.length - d) ∧
    Abs (b.read n).1 w (d + (b.read n).2.length) := by
  have hl := h.len_le
  have hd := h.deliv; have hr := h.r_le
  have e : w.drop d = b.data.drop b.r := by
    calc w.drop d = (w.drop (w.length - b.data.length)).drop b.r := by
            rw [List.drop_drop, hd]
      _ = b.data.drop b.r := by rw [← h.data_eq]
  have e1 : (b.read n).2 = (w.drop d).take n := by rw [e]; rfl
  have e3 : (b.read n).2.length = min n (w.length - d) := by rw [e1]; simp
  refine ⟨e1, e3, ?_⟩
  refine ⟨⟨h.suffix, ?_, ?_, h.win, h.ws_lt, h.len_bs⟩, h.off⟩
  · change b.r + (b.read n).2.length ≤ b.data.length
    omega
  · change d + (b.read n).2.length = w.length - b.data.length + (b.r + (b.read n).2.length)
    omega

/-! ### WriteByte, Write -/

theorem Abs.appendOff {b : DecBuf} {w : List Byte} {d : Nat} (h : Abs b w d) (g : Grow)
    (p : List Byte) (hfit : b.data.length + p.length ≤ b.bs) :
    Abs { (b.append g p) with off := b.off + p.length } (w ++ p) d :=
  ⟨(h.toAbsD.append g p hfit).congr rfl rfl rfl rfl, by simp [h.off]⟩

theorem write_cases (g : Grow) {b : DecBuf} {w : List Byte} {d : Nat} (h : Abs b w d) (p : List Byte) :
    (∃ b', write g b p = (b', p.length, .ok) ∧ Abs b' (w ++ p) d) ∨
    (∃ b', write g b p = (b', 0, .full) ∧ Abs b' w d ∧ b'.bs < b'.data.length + p.length) := by
  unfold write
  by_cases hn : b.data.length + p.length > b.bs
  · simp only [hn, ↓reduceIte]
    have hs := h.shrink (b.data.length + p.length)
    have hk := shrink_keeps b (b.data.length + p.length)
    split
    · right; exact ⟨_, rfl, hs, by omega⟩
    · left; exact ⟨_, rfl, hs.appendOff g p (by omega)⟩
  · simp only [hn, ↓reduceIte]
    left; exact ⟨_, rfl, h.appendOff g p (by omega)⟩

theorem writeByte_cases (g : Grow) {b : DecBuf} {w : List Byte} {d : Nat} (h : Abs b w d) (c : Byte) :
    (∃ b', writeByte g b c = (b', .ok) ∧ Abs b' (w ++ [c]) d) ∨
    (∃ b', writeByte g b c = (b', .full) ∧ Abs b' w d ∧ b'.bs < b'.data.length + 1) := by
  unfold writeByte
  by_cases hn : b.data.length + 1 > b.bs
  · simp only [hn, ↓reduceIte]
    have hs := h.shrink (b.data.length + 1)
    have hk := shrink_keeps b (b.data.length + 1)
    split
    · right; exact ⟨_, rfl, hs, by omega⟩
    · left; exact ⟨_, rfl, hs.appendOff g [c] (by simp; omega)⟩
  · simp only [hn, ↓reduceIte]
    left; exact ⟨_, rfl, h.appendOff g [c] (by simp; omega)⟩

/-- `WriteByte c` behaves exactly like `Write [c]` -/
theorem writeByte_eq_write (g : Grow) (b : DecBuf) (c : Byte) :
    writeByte g b c = ((write g b [c]).1, (write g b [c]).2.2) := by
  unfold writeByte write
  by_cases hn : b.data.length + 1 > b.bs
  · simp only [List.length_singleton, hn, ↓reduceIte]
    split <;> rfl
  · simp only [List.length_singleton, hn, ↓reduceIte]
/-! ### WriteMatch -/

theorem AbsD.ofCopyMatch {b : DecBuf} {w : List Byte} {d : Nat} (h : AbsD b w d) (g : Grow)
    (m o : Nat) (hv : m = 0 ∨ (0 < o ∧ o ≤ b.data.length)) (hfit : b.data.length + m ≤ b.bs) :
    ∃ w', copyRef w o m = some w' ∧ AbsD (copyMatch g b m o) w' d ∧ w'.length = w.length + m := by
  obtain ⟨t, ht⟩ := h.suffix
  have hc := copyMatch_eq_copyRef g b m o hv
  have hcl := copyMatch_length g b m o hv
  obtain ⟨s1, s2, s3, s4⟩ := copyMatch_sameCtl g b m o
  have hl := h.len_le
  have := h.win; have := h.r_le; have := h.deliv; have := h.ws_lt
  have htl : t.length + b.data.length = w.length := by rw [← ht]; simp
  refine ⟨t ++ (copyMatch g b m o).data, ?_, ⟨⟨t, rfl⟩, ?_, ?_, ?_, ?_, ?_⟩, ?_⟩
  · rw [← ht]; exact copyRef_append_left t hc
  · rw [s1, hcl]; omega
  · rw [s1, List.length_append, hcl]; omega
  · rw [s3, List.length_append, hcl]; omega
  · rw [s3, s4]; exact h.ws_lt
  · rw [s4, hcl]; omega
  · rw [List.length_append, hcl]; omega

theorem Abs.copyMatchOff {b : DecBuf} {w : List Byte} {d : Nat} (h : Abs b w d) (g : Grow)
    (m o : Nat) (hv : m = 0 ∨ (0 < o ∧ o ≤ b.data.length)) (hfit : b.data.length + m ≤ b.bs) :
    ∃ w', copyRef w o m = some w' ∧ Abs { (copyMatch g b m o) with off := b.off + m } w' d := by
  obtain ⟨w', h1, h2, h3⟩ := h.toAbsD.ofCopyMatch g m o hv hfit
  exact ⟨w', h1, h2.congr rfl rfl rfl rfl, by simp [h.off, h3]⟩

/-- the rejection condition of `WriteMatch` -/
def BadOffset (b : DecBuf) (m o : Nat) : Prop := (o = 0 ∧ m > 0) ∨ o > min b.data.length b.ws

theorem writeMatch_cases (g : Grow) {b : DecBuf} {w : List Byte} {d : Nat} (h : Abs b w d) (m o : Nat) :
    (BadOffset b m o ∧ writeMatch g b m o = (b, 0, .offset)) ∨
    (¬ BadOffset b m o ∧ ∃ b' w', writeMatch g b m o = (b', m, .ok) ∧
        copyRef w o m = some w' ∧ Abs b' w' d) ∨
    (¬ BadOffset b m o ∧ ∃ b', writeMatch g b m o = (b', 0, .full) ∧ Abs b' w d ∧
        m ≤ b'.bs - b'.ws ∧ m > b'.bs - b'.data.length) ∨
    (¬ BadOffset b m o ∧ ∃ b', writeMatch g b m o = (b', 0, .matchLen) ∧ Abs b' w d ∧
        m > b'.bs - b'.ws) := by
  unfold writeMatch BadOffset
  by_cases h1 : o = 0 ∧ m > 0
  · left; simp [h1]
  · by_cases h2 : o > min b.data.length b.ws
    · left; simp only [h1, h2, ↓reduceIte, or_true, and_self]
    · right
      have hbad : ¬ (False ∨ False) := by simp
      simp only [h1, h2, ↓reduceIte]
      by_cases h3 : m > b.bs - b.data.length
      · simp only [h3, ↓reduceIte]
        have hs := h.shrink (m + b.data.length)
        have hk := shrink_keeps b (m + b.data.length)
        have hws := (shrink_props b (m + b.data.length)).2.2.2.2.2.1
        by_cases h4 : m ≤ (b.shrink (m + b.data.length)).1.bs - (b.shrink (m + b.data.length)).1.data.length
        · simp only [h4, decide_true, not_true_eq_false, ↓reduceIte]
          have hlb := hs.len_bs
          obtain ⟨w', hw1, hw2⟩ := hs.copyMatchOff g m o (by omega) (by omega)
          exact Or.inl ⟨hbad, _, w', rfl, hw1, hw2⟩
        · simp only [h4, decide_false, Bool.false_eq_true, not_false_eq_true, ↓reduceIte]
          right
          by_cases h5 : m > (b.shrink (m + b.data.length)).1.bs - (b.shrink (m + b.data.length)).1.ws
          · simp only [h5, ↓reduceIte]
            exact Or.inr ⟨hbad, _, rfl, hs, h5⟩
          · simp only [h5, ↓reduceIte]
            exact Or.inl ⟨hbad, _, rfl, hs, by omega, by omega⟩
      · simp only [h3, ↓reduceIte, not_true_eq_false]
        have hlb := h.len_bs
        obtain ⟨w', hw1, hw2⟩ := h.copyMatchOff g m o (by omega) (by omega)
        exact Or.inl ⟨hbad, _, w', rfl, hw1, hw2⟩

/-! ### WriteBlock -/

/-- the guards of the sequence loop that do not depend on the buffer geometry, stated on the log:
    `s` is acceptable on top of the log `w` with remaining literals `lits` and window `ws` -/
def SeqValid (w lits : List Byte) (ws : Nat) (s : Seq) : Prop :=
  s.litLen ≤ lits.length ∧ ¬ ((s.offset = 0 ∧ s.matchLen > 0) ∨ s.offset > min (w.length + s.litLen) ws)

/-- why sequence `s` was refused with error `e`; `b'` is the buffer after the attempt to make room,
    `w'`, `lits'` are the log and the remaining literals before the sequence -/
def SeqFail (b' : DecBuf) (w' lits' : List Byte) (s : Seq) (e : Err) : Prop :=
  (e = .litLen ∧ s.litLen > lits'.length) ∨
  (e = .offset ∧ s.litLen ≤ lits'.length ∧
      ((s.offset = 0 ∧ s.matchLen > 0) ∨ s.offset > min (w'.length + s.litLen) b'.ws)) ∨
  (e = .matchLen ∧ SeqValid w' lits' b'.ws s ∧ s.litLen + s.matchLen > b'.bs - b'.ws) ∨
  (e = .full ∧ SeqValid w' lits' b'.ws s ∧ s.litLen + s.matchLen ≤ b'.bs - b'.ws ∧
      s.litLen + s.matchLen > b'.bs - b'.data.length)

/-- the "make room" step shared by `WriteMatch` and the sequence loop -/
def room (b : DecBuf) (need : Nat) : DecBuf × Bool × Nat :=
  if need > b.bs - b.data.length then
    ((b.shrink (need + b.data.length)).1,
      decide (need ≤ (b.shrink (need + b.data.length)).1.bs - (b.shrink (need + b.data.length)).1.data.length),
      (b.shrink (need + b.data.length)).2)
  else (b, true, 0)

theorem seqLoop_cons (g : Grow) (b : DecBuf) (s : Seq) (rest : List Seq) (lits : List Byte) (k dl : Nat) :
    seqLoop g b (s :: rest) lits k dl =
      if s.litLen > lits.length then (b, k, lits, dl, .litLen)
      else if s.offset = 0 ∧ s.matchLen > 0 then (b, k, lits, dl, .offset)
      else if s.offset > min (b.data.length + s.litLen) b.ws then (b, k, lits, dl, .offset)
      else
        if ¬ (room b (s.litLen + s.matchLen)).2.1 then
          ((room b (s.litLen + s.matchLen)).1, k, lits, dl + (room b (s.litLen + s.matchLen)).2.2,
            if s.litLen + s.matchLen > (room b (s.litLen + s.matchLen)).1.bs - (room b (s.litLen + s.matchLen)).1.ws
            then .matchLen else .full)
        else
          seqLoop g (copyMatch g ((room b (s.litLen + s.matchLen)).1.append g (lits.take s.litLen)) s.matchLen s.offset)
            rest (lits.drop s.litLen) (k + 1) (dl + (room b (s.litLen + s.matchLen)).2.2) := by
  rfl

theorem room_spec {b : DecBuf} {w : List Byte} {d : Nat} (h : AbsD b w d) (need : Nat) :
    AbsD (room b need).1 w d ∧ (room b need).1.off = b.off ∧ (room b need).1.ws = b.ws ∧
    (room b need).1.data.length + (room b need).2.2 = b.data.length ∧
    min b.data.length b.ws ≤ (room b need).1.data.length ∧
    ((room b need).2.1 = true ↔ need ≤ (room b need).1.bs - (room b need).1.data.length) := by
  unfold room
  split
  · have hk := shrink_keeps b (need + b.data.length)
    have hp := shrink_props b (need + b.data.length)
    exact ⟨h.shrink _, hp.2.2.2.2.1, hp.2.2.2.2.2.1, hk.2.2.2, hk.1, by simp⟩
  · exact ⟨h, rfl, rfl, rfl, Nat.min_le_left _ _, by simp; omega⟩

theorem seqLoop_spec (g : Grow) (seqs : List Seq) :
    ∀ (b : DecBuf) (w : List Byte) (d : Nat) (lits : List Byte) (k dl : Nat)
      (b' : DecBuf) (k' : Nat) (lits' : List Byte) (dl' : Nat) (e : Err),
      AbsD b w d → seqLoop g b seqs lits k dl = (b', k', lits', dl', e) →
      ∃ j w', k' = k + j ∧ j ≤ seqs.length ∧
        expandSeqs w lits (seqs.take j) = some (w', lits') ∧
        AbsD b' w' d ∧ b'.off = b.off ∧ b'.ws = b.ws ∧
        w'.length + b.data.length + dl = w.length + b'.data.length + dl' ∧
        (e = .ok → j = seqs.length) ∧
        (e ≠ .ok → ∃ hj : j < seqs.length, SeqFail b' w' lits' seqs[j] e) := by
  induction seqs with
  | nil =>
    intro b w d lits k dl b' k' lits' dl' e h hr
    simp only [seqLoop, Prod.mk.injEq] at hr
    obtain ⟨rfl, rfl, rfl, rfl, rfl⟩ := hr
    exact ⟨0, w, rfl, Nat.le_refl _, rfl, h, rfl, rfl, by omega, fun _ => rfl, fun hh => absurd rfl hh⟩
  | cons s rest ih =>
    intro b w d lits k dl b' k' lits' dl' e h hr
    rw [seqLoop_cons] at hr
    have hmw := h.min_win s.litLen
    by_cases h1 : s.litLen > lits.length
    · simp only [h1, ↓reduceIte, Prod.mk.injEq] at hr
      obtain ⟨rfl, rfl, rfl, rfl, rfl⟩ := hr
      refine ⟨0, w, rfl, Nat.zero_le _, rfl, h, rfl, rfl, by omega, fun hh => (by cases hh), fun _ => ⟨by simp, ?_⟩⟩
      show SeqFail b w lits s _
      exact Or.inl ⟨rfl, h1⟩
    · simp only [h1, ↓reduceIte] at hr
      by_cases h2 : s.offset = 0 ∧ s.matchLen > 0
      · simp only [h2, and_self, ↓reduceIte, Prod.mk.injEq] at hr
        obtain ⟨rfl, rfl, rfl, rfl, rfl⟩ := hr
        refine ⟨0, w, rfl, Nat.zero_le _, rfl, h, rfl, rfl, by omega, fun hh => (by cases hh), fun _ => ⟨by simp, ?_⟩⟩
        show SeqFail b w lits s _
        exact Or.inr (Or.inl ⟨rfl, by omega, Or.inl h2⟩)
      · simp only [h2, ↓reduceIte] at hr
        by_cases h3 : s.offset > min (b.data.length + s.litLen) b.ws
        · simp only [h3, ↓reduceIte, Prod.mk.injEq] at hr
          obtain ⟨rfl, rfl, rfl, rfl, rfl⟩ := hr
          refine ⟨0, w, rfl, Nat.zero_le _, rfl, h, rfl, rfl, by omega, fun hh => (by cases hh), fun _ => ⟨by simp, ?_⟩⟩
          show SeqFail b w lits s _
          exact Or.inr (Or.inl ⟨rfl, by omega, Or.inr (by rw [← hmw]; exact h3)⟩)
        · simp only [h3, ↓reduceIte] at hr
          obtain ⟨r1, r2, r3, r4, r5, r6⟩ := room_spec h (s.litLen + s.matchLen)
          generalize room b (s.litLen + s.matchLen) = rm at hr r1 r2 r3 r4 r5 r6
          obtain ⟨b1, fits, d1⟩ := rm
          simp only at hr r1 r2 r3 r4 r5 r6
          by_cases hf : fits = true
          · simp only [hf, not_true_eq_false, ↓reduceIte] at hr
            have hfit := r6.mp hf
            have hlb := r1.len_bs
            have ha := r1.append g (lits.take s.litLen) (by simp; omega)
            have htl : (lits.take s.litLen).length = s.litLen := by simp; omega
            obtain ⟨w2, hw1, hw2, hw3⟩ := ha.ofCopyMatch g s.matchLen s.offset
              (by simp only [append_data, List.length_append, htl]; omega)
              (by simp only [append_data, List.length_append, htl, append_bs]; omega)
            obtain ⟨j, w', e1, e2, e3, e4, e5, e6, e7, e8, e9⟩ := ih _ _ _ _ _ _ _ _ _ _ _ hw2 hr
            obtain ⟨s1, s2, s3, s4⟩ := copyMatch_sameCtl g (b1.append g (lits.take s.litLen)) s.matchLen s.offset
            have hcl := copyMatch_length g (b1.append g (lits.take s.litLen)) s.matchLen s.offset
              (by simp only [append_data, List.length_append, htl]; omega)
            simp only [append_data, List.length_append, htl] at hcl
            simp only [List.length_append, htl] at hw3
            refine ⟨j + 1, w', by omega, by simp; omega, ?_, e4, ?_, ?_, ?_, ?_, ?_⟩
            · simp only [List.take_succ_cons, expandSeqs]
              have : s.litLen ≤ lits.length := by omega
              simp only [this, ↓reduceIte, hw1]
              exact e3
            · rw [e5, s2]; exact r2
            · rw [e6, s3]; exact r3
            · rw [hcl] at e7; omega
            · intro hh; simp [e8 hh]
            · intro hh
              obtain ⟨hj, hsf⟩ := e9 hh
              exact ⟨by simp; omega, by simpa using hsf⟩
          · simp only [hf, not_false_eq_true, ↓reduceIte, Prod.mk.injEq] at hr
            obtain ⟨rfl, rfl, rfl, rfl, rfl⟩ := hr
            have hnf : ¬ (s.litLen + s.matchLen ≤ b'.bs - b'.data.length) := fun hh => hf (r6.mpr hh)
            have hv : SeqValid w lits b'.ws s := by
              refine ⟨by omega, ?_⟩
              rw [r3, ← hmw]
              intro hh; cases hh <;> contradiction
            refine ⟨0, w, rfl, Nat.zero_le _, rfl, r1, r2, r3, by omega, ?_, ?_⟩
            · intro hh; split at hh <;> cases hh
            · intro _
              refine ⟨by simp, ?_⟩
              show SeqFail b' w lits s _
              by_cases h5 : s.litLen + s.matchLen > b'.bs - b'.ws
              · simp only [h5, ↓reduceIte]
                exact Or.inr (Or.inr (Or.inl ⟨rfl, hv, h5⟩))
              · simp only [h5, ↓reduceIte]
                exact Or.inr (Or.inr (Or.inr ⟨rfl, hv, by omega, by omega⟩))

theorem writeBlock_spec (g : Grow) {b : DecBuf} {w : List Byte} {d : Nat} (h : Abs b w d) (blk : Block)
    {b' : DecBuf} {n : Int} {k l : Nat} {e : Err} (hr : writeBlock g b blk = (b', n, k, l, e)) :
    ∃ w1 rest, k ≤ blk.seqs.length ∧
      expandSeqs w blk.lits (blk.seqs.take k) = some (w1, rest) ∧
      (e = .ok → k = blk.seqs.length ∧ l = blk.lits.length ∧ Abs b' (w1 ++ rest) d ∧
          n = ((w1 ++ rest).length : Int) - (w.length : Int) ∧ expand w blk = some (w1 ++ rest)) ∧
      (e ≠ .ok → l + rest.length = blk.lits.length ∧ Abs b' w1 d ∧
          n = (w1.length : Int) - (w.length : Int) ∧
          ((∃ hk : k < blk.seqs.length, SeqFail b' w1 rest blk.seqs[k] e) ∨
           (k = blk.seqs.length ∧ e = .full ∧ b'.bs < b'.data.length + rest.length))) := by
  unfold writeBlock at hr
  generalize hsl : seqLoop g b blk.seqs blk.lits 0 0 = r at hr
  obtain ⟨b1, k1, lits1, dl1, e1⟩ := r
  obtain ⟨j, w1, e1', e2, e3, e4, e5, e6, e7, e8, e9⟩ := seqLoop_spec g blk.seqs b w d blk.lits 0 0 _ _ _ _ _ h.toAbsD hsl
  simp only at hr
  have hj : k1 = j := by omega
  subst hj
  obtain ⟨c1, c2, c3⟩ := expandSeqs_counts e3
  have hoff : b1.off = w.length := by rw [e5]; exact h.off
  have hl1 : lits1.length = blk.lits.length - sumLit (blk.seqs.take k1) := by
    rw [c1, List.length_drop]
  by_cases he : e1 = .ok
  · subst he
    have hk := e8 rfl
    simp only [ne_eq, not_true_eq_false, ↓reduceIte] at hr
    by_cases hn : b1.data.length + lits1.length > b1.bs
    · simp only [hn, ↓reduceIte] at hr
      have hs := e4.shrink (b1.data.length + lits1.length)
      have hkp := shrink_keeps b1 (b1.data.length + lits1.length)
      have hp := shrink_props b1 (b1.data.length + lits1.length)
      generalize b1.shrink (b1.data.length + lits1.length) = sh at hr hs hkp hp
      obtain ⟨b2, d2⟩ := sh
      simp only at hr hs hkp hp
      by_cases hn2 : b1.data.length + lits1.length - d2 > b2.bs
      · simp only [hn2, ↓reduceIte, Prod.mk.injEq] at hr
        obtain ⟨rfl, rfl, rfl, rfl, rfl⟩ := hr
        refine ⟨w1, lits1, e2, e3, fun hh => (by cases hh), fun _ => ⟨?_, ⟨hs.congr rfl rfl rfl rfl, ?_⟩, ?_, ?_⟩⟩
        · omega
        · simp only; rw [hp.2.2.2.2.1, hoff]; omega
        · omega
        · right; exact ⟨hk, rfl, by simp only; omega⟩
      · simp only [hn2, ↓reduceIte, Prod.mk.injEq] at hr
        obtain ⟨rfl, rfl, rfl, rfl, rfl⟩ := hr
        have ha := hs.append g lits1 (by omega)
        refine ⟨w1, lits1, e2, e3, fun _ => ⟨hk, ?_, ⟨ha.congr rfl rfl rfl rfl, ?_⟩, ?_, ?_⟩, fun hh => absurd rfl hh⟩
        · simp
        · simp only [append_data, List.length_append, append_off]; rw [hp.2.2.2.2.1, hoff]; omega
        · simp only [append_data, List.length_append]; omega
        · unfold expand; rw [hk, List.take_length] at e3; rw [e3]
    · simp only [hn, ↓reduceIte, Prod.mk.injEq] at hr
      obtain ⟨rfl, rfl, rfl, rfl, rfl⟩ := hr
      have ha := e4.append g lits1 (by omega)
      refine ⟨w1, lits1, e2, e3, fun _ => ⟨hk, ?_, ⟨ha.congr rfl rfl rfl rfl, ?_⟩, ?_, ?_⟩, fun hh => absurd rfl hh⟩
      · simp
      · simp only [append_data, List.length_append, append_off]; rw [hoff]; omega
      · simp only [append_data, List.length_append]; omega
      · unfold expand; rw [hk, List.take_length] at e3; rw [e3]
  · simp only [ne_eq, he, not_false_eq_true, ↓reduceIte, Prod.mk.injEq] at hr
    obtain ⟨rfl, rfl, rfl, rfl, rfl⟩ := hr
    obtain ⟨hjlt, hsf⟩ := e9 he
    refine ⟨w1, lits1, e2, e3, fun hh => absurd hh he, fun _ => ⟨?_, ⟨e4.congr rfl rfl rfl rfl, ?_⟩, ?_, ?_⟩⟩
    · omega
    · simp only; rw [hoff]; omega
    · omega
    · left; exact ⟨hjlt, hsf⟩

/-! ### slice bounds (the model's "no panic") -/

/-- `WriteMatch` in terms of the shared "make room" step -/
theorem writeMatch_def (g : Grow) (b : DecBuf) (m o : Nat) :
    writeMatch g b m o =
      if o = 0 ∧ m > 0 then (b, 0, .offset)
      else if o > min b.data.length b.ws then (b, 0, .offset)
      else if ¬ (room b m).2.1 then
        (if m > (room b m).1.bs - (room b m).1.ws then ((room b m).1, 0, .matchLen)
         else ((room b m).1, 0, .full))
      else ({ (copyMatch g (room b m).1 m o) with off := (room b m).1.off + m }, m, .ok) := by
  unfold writeMatch room
  by_cases h1 : o = 0 ∧ m > 0
  · simp only [h1, and_self, ↓reduceIte]
  · simp only [h1, ↓reduceIte]
    by_cases h2 : o > min b.data.length b.ws
    · simp only [h2, ↓reduceIte]
    · simp only [h2, ↓reduceIte]
      by_cases h3 : m > b.bs - b.data.length
      · simp only [h3, ↓reduceIte]
      · simp only [h3, ↓reduceIte]

/-- all slice expressions of one complete match copy are in bounds -/
def CopySafe (g : Grow) (b : DecBuf) (m o : Nat) : Prop :=
  copyLoopSafe g b m o ∧
  (copyLoop g b m o).2.2 ≤ (copyLoop g b m o).1.data.length ∧
  (copyLoop g b m o).2.1 ≤ (copyLoop g b m o).2.2

/-- the copy performed by an accepted `WriteMatch` is in bounds -/
theorem writeMatch_copySafe (g : Grow) {b : DecBuf} {w : List Byte} {d : Nat} (h : AbsD b w d)
    (m o : Nat) (hv : ¬ BadOffset b m o) : CopySafe g (room b m).1 m o := by
  obtain ⟨r1, r2, r3, r4, r5, r6⟩ := room_spec h m
  unfold BadOffset at hv
  exact copyMatch_safe g _ m o (by omega) (by omega)

/-- all slice expressions of the sequence loop are in bounds: `Literals[:LitLen]` and the
    copies -/
def seqLoopSafe (g : Grow) : DecBuf → List Seq → List Byte → Prop
  | _, [], _ => True
  | b, s :: rest, lits =>
    if s.litLen > lits.length then True
    else if s.offset = 0 ∧ s.matchLen > 0 then True
    else if s.offset > min (b.data.length + s.litLen) b.ws then True
    else if ¬ (room b (s.litLen + s.matchLen)).2.1 then True
    else
      s.litLen ≤ lits.length ∧
      CopySafe g ((room b (s.litLen + s.matchLen)).1.append g (lits.take s.litLen)) s.matchLen s.offset ∧
      seqLoopSafe g
        (copyMatch g ((room b (s.litLen + s.matchLen)).1.append g (lits.take s.litLen)) s.matchLen s.offset)
        rest (lits.drop s.litLen)

theorem seqLoop_safe (g : Grow) (seqs : List Seq) :
    ∀ (b : DecBuf) (w : List Byte) (d : Nat) (lits : List Byte), AbsD b w d → seqLoopSafe g b seqs lits := by
  induction seqs with
  | nil => intros; trivial
  | cons s rest ih =>
    intro b w d lits h
    unfold seqLoopSafe
    by_cases h1 : s.litLen > lits.length
    · simp only [h1, ↓reduceIte]
    · simp only [h1, ↓reduceIte]
      by_cases h2 : s.offset = 0 ∧ s.matchLen > 0
      · simp only [h2, and_self, ↓reduceIte]
      · simp only [h2, ↓reduceIte]
        by_cases h3 : s.offset > min (b.data.length + s.litLen) b.ws
        · simp only [h3, ↓reduceIte]
        · simp only [h3, ↓reduceIte]
          obtain ⟨r1, r2, r3, r4, r5, r6⟩ := room_spec h (s.litLen + s.matchLen)
          by_cases hf : (room b (s.litLen + s.matchLen)).2.1 = true
          · simp only [hf, not_true_eq_false, ↓reduceIte]
            have hfit := r6.mp hf
            have hlb := r1.len_bs
            have htl : (lits.take s.litLen).length = s.litLen := by simp; omega
            have ha := r1.append g (lits.take s.litLen) (by rw [htl]; omega)
            obtain ⟨w2, hw1, hw2, hw3⟩ := ha.ofCopyMatch g s.matchLen s.offset
              (by simp only [append_data, List.length_append, htl]; omega)
              (by simp only [append_data, List.length_append, htl, append_bs]; omega)
            refine ⟨by omega, ?_, ih _ _ _ _ hw2⟩
            exact copyMatch_safe g _ _ _
              (by simp only [append_data, List.length_append, htl]; omega) (by omega)
          · simp [hf]

theorem seqLoop_ws (g : Grow) (seqs : List Seq) :
    ∀ (b : DecBuf) (lits : List Byte) (k dl : Nat), (seqLoop g b seqs lits k dl).1.ws = b.ws := by
  induction seqs with
  | nil => intros; rfl
  | cons s rest ih =>
    intro b lits k dl
    have hroom : ∀ need, (room b need).1.ws = b.ws := by
      intro need; unfold room; split
      · exact (shrink_props b _).2.2.2.2.2.1
      · rfl
    rw [seqLoop_cons]
    split
    · rfl
    · split
      · rfl
      · split
        · rfl
        · split
          · exact hroom _
          · rw [ih, (copyMatch_sameCtl g _ _ _).2.2.1]; exact hroom _

theorem writeBlock_ws (g : Grow) (b : DecBuf) (blk : Block) : (writeBlock g b blk).1.ws = b.ws := by
  have h1 := seqLoop_ws g blk.seqs b blk.lits 0 0
  unfold writeBlock
  generalize seqLoop g b blk.seqs blk.lits 0 0 = r at h1
  obtain ⟨b1, k1, lits1, dl1, e1⟩ := r
  simp only at h1 ⊢
  by_cases he : e1 = .ok
  · simp only [he, ne_eq, not_true_eq_false, ↓reduceIte]
    by_cases hn : b1.data.length + lits1.length > b1.bs
    · simp only [hn, ↓reduceIte]
      split
      · simp only; rw [(shrink_props b1 _).2.2.2.2.2.1]; exact h1
      · simp only [append_ws]; rw [(shrink_props b1 _).2.2.2.2.2.1]; exact h1
    · simp only [hn, ↓reduceIte, append_ws]
      exact h1
  · simp only [he, ne_eq, not_false_eq_true, ↓reduceIte]
    exact h1
/-! ### `len(Data) ≤ cap(Data)` — the only place where `n ≤ g c n` is needed -/

def CapOK (b : DecBuf) : Prop := b.data.length ≤ b.cap

theorem append_capOK {g : Grow} (hg : ∀ c n, n ≤ g c n) (b : DecBuf) (p : List Byte) :
    CapOK (b.append g p) := by
  unfold CapOK append
  simp only [List.length_append]
  split
  · assumption
  · exact hg _ _

theorem shrink_cap (b : DecBuf) (g : Nat) : (b.shrink g).1.cap = b.cap := by
  unfold shrink
  by_cases hr : b.bs < b.cap <;> simp only [hr, ↓reduceIte, true_and, false_and]
  · split
    · rfl
    · split <;> rfl
  · split <;> rfl

theorem shrink_capOK {b : DecBuf} (h : CapOK b) (g : Nat) : CapOK (b.shrink g).1 := by
  unfold CapOK at *
  rw [shrink_cap, (shrink_props b g).1, List.length_drop]; omega

theorem room_capOK {b : DecBuf} (h : CapOK b) (need : Nat) : CapOK (room b need).1 := by
  unfold room; split
  · exact shrink_capOK h _
  · exact h

theorem copyLoop_capOK {g : Grow} (hg : ∀ c n, n ≤ g c n) (b : DecBuf) (n off : Nat) (h : CapOK b) :
    CapOK (copyLoop g b n off).1 := by
  fun_induction copyLoop g b n off with
  | case1 b n off hc b' n' hle => exact append_capOK hg _ _
  | case2 b n off hc b' n' hle ih => exact ih (append_capOK hg _ _)
  | case3 b n off hc => exact h

theorem copyMatch_capOK {g : Grow} (hg : ∀ c n, n ≤ g c n) (b : DecBuf) (m o : Nat) :
    CapOK (copyMatch g b m o) := by
  rw [copyMatch_def]; exact append_capOK hg _ _

theorem write_capOK {g : Grow} (hg : ∀ c n, n ≤ g c n) {b : DecBuf} (h : CapOK b) (p : List Byte) :
    CapOK (write g b p).1 := by
  unfold write
  by_cases hn : b.data.length + p.length > b.bs
  · simp only [hn, ↓reduceIte]
    split
    · exact shrink_capOK h _
    · exact append_capOK hg _ _
  · simp only [hn, ↓reduceIte]
    exact append_capOK hg _ _

theorem writeByte_capOK {g : Grow} (hg : ∀ c n, n ≤ g c n) {b : DecBuf} (h : CapOK b) (c : Byte) :
    CapOK (writeByte g b c).1 := by
  rw [writeByte_eq_write]; exact write_capOK hg h [c]

theorem writeMatch_capOK {g : Grow} (hg : ∀ c n, n ≤ g c n) {b : DecBuf} (h : CapOK b) (m o : Nat) :
    CapOK (writeMatch g b m o).1 := by
  rw [writeMatch_def]
  split
  · exact h
  · split
    · exact h
    · split
      · split <;> exact room_capOK h _
      · exact copyMatch_capOK hg _ _ _

theorem seqLoop_capOK {g : Grow} (hg : ∀ c n, n ≤ g c n) (seqs : List Seq) :
    ∀ (b : DecBuf) (lits : List Byte) (k dl : Nat), CapOK b → CapOK (seqLoop g b seqs lits k dl).1 := by
  induction seqs with
  | nil => intro b lits k dl h; exact h
  | cons s rest ih =>
    intro b lits k dl h
    rw [seqLoop_cons]
    split
    · exact h
    · split
      · exact h
      · split
        · exact h
        · split
          · exact room_capOK h _
          · exact ih _ _ _ _ (copyMatch_capOK hg _ _ _)

theorem writeBlock_capOK {g : Grow} (hg : ∀ c n, n ≤ g c n) {b : DecBuf} (h : CapOK b) (blk : Block) :
    CapOK (writeBlock g b blk).1 := by
  have h1 := seqLoop_capOK hg blk.seqs b blk.lits 0 0 h
  unfold writeBlock
  generalize seqLoop g b blk.seqs blk.lits 0 0 = r at h1
  obtain ⟨b1, k1, lits1, dl1, e1⟩ := r
  simp only at h1 ⊢
  by_cases he : e1 = .ok
  · simp only [he, ne_eq, not_true_eq_false, ↓reduceIte]
    by_cases hn : b1.data.length + lits1.length > b1.bs
    · simp only [hn, ↓reduceIte]
      split
      · exact shrink_capOK h1 _
      · exact append_capOK hg _ _
    · simp only [hn, ↓reduceIte]
      exact append_capOK hg _ _
  · simp only [he, ne_eq, not_false_eq_true, ↓reduceIte]
    exact h1

end DecBuf

end LZ
