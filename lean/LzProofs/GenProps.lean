/-
  LzProofs.GenProps — umbrella of the GenProps topic files (the former single file was split so
  that a Go function the translator refuses only takes down its own topic).

  Index (G-numbers are referred to by NOTES.md); every theorem is in namespace `LZ.GenProps`:
    GenPropsInts     G01 gen_iverson   G02 gen_doz / gen_doz_toNat   G03 gen_min
    GenPropsHash     G04 gen_hashValue_mod / gen_hashValue / gen_hashValue_verified
    GenPropsCost     G05 gen_xzCost
    GenPropsLen      G06 gen_seqLen    G07 gen_blockLen
    GenPropsCfgBuf   G08 gen_bufDefaults   G09 gen_bufVerify (+ gen_bufVerify_error1..4)
    GenPropsCfgHash  G10 gen_hashDefaults  G11 gen_hashVerify (+ gen_hashVerify_error1/2)
                     G12 gen_dhDefaults    G13 gen_dhVerify
    GenPropsCfgBucket G14 gen_bucketDefaults G15 gen_bucketVerify
    GenPropsCfg<K>   G16 gen_setDefaults_<K>  G17 gen_verify_<K>  G18 gen_accepted_<K>
                     for K = HP, BHP, DHP, BDHP, BUP, GSAP (+ gen_verify_GSAP_errors), OSAP
    GenPropsCfgAll   G19 gen_setDefaults / gen_verify  (all kinds at once, on the union record `Cfg`)
    GenPropsDec      G20 gen_decDefaults  G21 gen_decVerify  G22 gen_decCfg
    GenPropsCfg      umbrella of the GenPropsCfg* files
    GenPropsBase     shared lemmas (bufVerify_iff, hashVerify_iff, seq_ok, chk_ok, hashBits_domain, …)
-/
import LzProofs.GenPropsInts
import LzProofs.GenPropsHash
import LzProofs.GenPropsCost
import LzProofs.GenPropsLen
import LzProofs.GenPropsCfg
import LzProofs.GenPropsDec
