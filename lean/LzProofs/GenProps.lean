/-
  LzProofs.GenProps — the hand-written model equals the code that `tools/extract -code`
  regenerates from the Go source (`LzModel/Generated/Code.lean`, namespace `LZ.Gen`).

  Every theorem below quantifies over ALL inputs.  `Code.lean` is regenerated on every
  check, so a changed comparison operator, a swapped branch, a dropped check or a changed
  constant in one of the translated Go functions makes the theorem named after that
  function fail to compile.  Go `int`/`int64` are unbounded `Int` on both sides (overflow is
  out of scope); `uint32`/`uint64` wrap around (`UInt32`/`UInt64`).

  Index (G-numbers are referred to by NOTES.md):
    G01 gen_iverson   G02 gen_doz / gen_doz_toNat   G03 gen_min
    G04 gen_hashValue_mod / gen_hashValue / gen_hashValue_verified   G05 gen_xzCost
    G06 gen_seqLen    G07 gen_blockLen
    G08 gen_bufDefaults   G09 gen_bufVerify (+ gen_bufVerify_error1..4)
    G10 gen_hashDefaults  G11 gen_hashVerify (+ gen_hashVerify_error1/2)
    G12 gen_dhDefaults    G13 gen_dhVerify
    G14 gen_bucketDefaults G15 gen_bucketVerify
    G16 gen_setDefaults_<K>  G17 gen_verify_<K>  G18 gen_accepted_<K>   for the seven kinds
    G19 gen_setDefaults / gen_verify  (all kinds at once, on the union record `Cfg`)
    G20 gen_decDefaults  G21 gen_decVerify  G22 gen_decCfg
-/
import LzModel.Generated.Code
import LzModel.Basic
import LzModel.Config
import LzModel.Hash
import LzModel.Sap
import LzModel.DecBuf

set_option linter.unusedSimpArgs false

namespace LZ.GenProps
open LZ

/-! ## ints.go -/

theorem iand_zero (a : Int) : Gen.iand a 0 = 0 := by
  cases a with
  | ofNat m => show Int.ofNat (m &&& 0) = 0; simp
  | negSucc m =>
    show Int.ofNat (Nat.bitwise (fun a b => !a && b) m 0) = 0
    unfold Nat.bitwise
    simp

theorem iand_neg_one (a : Int) : Gen.iand a (-1) = a := by
  cases a with
  | ofNat m =>
    show Int.ofNat (Nat.bitwise (fun a b => a && !b) m 0) = Int.ofNat m
    unfold Nat.bitwise
    simp
    split <;> simp_all
  | negSucc m => show Int.negSucc (m ||| 0) = Int.negSucc m; simp

/-- G01 -/
theorem gen_iverson (b : Bool) : Gen.iverson b = if b then 1 else 0 := by
  cases b <;> rfl

/-- G02 `doz` is the positive difference or zero -/
theorem gen_doz (x y : Int) : Gen.doz x y = if x ≥ y then x - y else 0 := by
  unfold Gen.doz
  rw [gen_iverson]
  by_cases h : x ≥ y
  · simp only [h, decide_true, if_true]; exact iand_neg_one _
  · simp only [h, decide_false, if_false]; exact iand_zero _

/-- G02 … i.e. truncated subtraction -/
theorem gen_doz_toNat (x y : Int) : Gen.doz x y = ((x - y).toNat : Int) := by
  rw [gen_doz]; split <;> omega

/-- G03 -/
theorem gen_min (x y : Int) : Gen.min x y = min x y := by
  unfold Gen.min
  rw [gen_doz]
  split <;> omega

/-! ## hash.go: hashValue -/

theorem prime_eq : (9920624304325388887 : UInt64) = prime64 := by
  unfold prime64 Facts.prime; rfl

/-- `h.shift = 64 - uint(hashBits)` (hash.init) in `uint` arithmetic -/
theorem shift_eq (hb : Nat) (h : hb ≤ 64) : (64 : UInt64) - UInt64.ofNat hb = UInt64.ofNat (64 - hb) := by
  apply UInt64.toNat_inj.mp
  rw [UInt64.toNat_sub]
  simp only [UInt64.toNat_ofNat']
  have : (64 : UInt64).toNat = 64 := rfl
  rw [this]
  have h1 : hb % 2 ^ 64 = hb := Nat.mod_eq_of_lt (by omega)
  have h2 : (64 - hb) % 2 ^ 64 = 64 - hb := Nat.mod_eq_of_lt (by omega)
  rw [h1, h2]; omega

/-- G04 for every `hashBits ≤ 64`: the Go function is the model value truncated to `uint32` -/
theorem gen_hashValue_mod (x : UInt64) (hb : Nat) (h : hb ≤ 64) :
    (Gen.hashValue x (64 - UInt64.ofNat hb)).toNat = LZ.hashValue x hb % 2 ^ 32 := by
  rw [shift_eq hb h]
  unfold Gen.hashValue Gen.shrU64 LZ.hashValue
  rw [prime_eq]
  have h2 : (UInt64.ofNat (64 - hb)).toNat = 64 - hb := by
    simp only [UInt64.toNat_ofNat']; exact Nat.mod_eq_of_lt (by omega)
  rw [h2]
  by_cases h0 : hb = 0
  · subst h0; simp
  · have : 64 - hb < 64 := by omega
    simp only [this, if_true, h0, if_false, UInt64.toNat_toUInt32]

theorem hashValue_lt (x : UInt64) (hb : Nat) (h : hb ≤ 64) : LZ.hashValue x hb < 2 ^ hb := by
  unfold LZ.hashValue
  by_cases h0 : hb = 0
  · subst h0; simp
  · simp only [h0, if_false, UInt64.toNat_shiftRight, UInt64.toNat_ofNat']
    have e1 : (64 - hb) % 2 ^ 64 = 64 - hb := Nat.mod_eq_of_lt (by omega)
    have e2 : (64 - hb) % 64 = 64 - hb := Nat.mod_eq_of_lt (by omega)
    rw [e1, e2, Nat.shiftRight_eq_div_pow]
    have hy : (x * prime64).toNat < 2 ^ 64 := UInt64.toNat_lt _
    have hp : 2 ^ (64 - hb) * 2 ^ hb = 2 ^ 64 := by rw [← Nat.pow_add]; congr 1; omega
    rw [Nat.div_lt_iff_lt_mul (Nat.two_pow_pos _)]
    rw [Nat.mul_comm, hp]; exact hy

/-- G04 on the domain of the callers (`Verify` bounds HashBits by 24 ≤ 32) the model value
    is the Go value; for 32 < hashBits ≤ 64 the model lacks the `uint32(…)` truncation
    (see `gen_hashValue_mod`) -/
theorem gen_hashValue (x : UInt64) (hb : Nat) (h : hb ≤ 32) :
    (Gen.hashValue x (64 - UInt64.ofNat hb)).toNat = LZ.hashValue x hb := by
  rw [gen_hashValue_mod x hb (by omega)]
  apply Nat.mod_eq_of_lt
  have := hashValue_lt x hb (by omega)
  have : 2 ^ hb ≤ 2 ^ 32 := Nat.pow_le_pow_right (by omega) h
  omega

/-! ## osap.go: XZCost -/

theorem toNat_ofInt_small (n : Nat) (h : n < 2 ^ 64) : (UInt64.ofInt (Int.ofNat n)).toNat = n := by
  unfold UInt64.ofInt
  simp only [UInt64.toNat_ofNat', Int.ofNat_eq_natCast, Nat.reducePow, Int.reducePow] at *
  omega

theorem bitsLen32_eq (d : UInt32) (h : d.toNat ≠ 0) :
    Gen.bitsLen32 d = Int.ofNat (Nat.log2 d.toNat + 1) ∧ Nat.log2 d.toNat + 1 ≤ 32 := by
  unfold Gen.bitsLen32
  have hd : d ≠ 0 := by intro e; apply h; rw [e]; rfl
  have hl : Nat.log2 d.toNat < 32 := (Nat.log2_lt h).mpr (UInt32.toNat_lt d)
  simp only [hd, if_false, true_and]
  omega

/-- G05 for ALL `m o : uint32` — the model's `(m + 2^32 - 2) % 2^32` is exactly the
    wrap-around of `m -= 2`, so no precondition `2 ≤ m` is needed -/
theorem gen_xzCost (m o : UInt32) : (Gen.XZCost m o).toNat = xzCost m.toNat o.toNat := by
  unfold Gen.XZCost xzCost
  have hm := UInt32.toNat_lt m
  have ho := UInt32.toNat_lt o
  by_cases h0 : o = 0
  · subst h0
    simp only [if_true, UInt32.toNat_zero, UInt64.toNat_mul, UInt32.toNat_toUInt64, UInt64.toNat_ofNat,
      Nat.reducePow, Nat.reduceMod] at *
    omega
  · have ho0 : o.toNat ≠ 0 := by intro e; apply h0; apply UInt32.toNat_inj.mp; rw [e]; rfl
    have hm2 : (m - 2).toNat = (m.toNat + 4294967296 - 2) % 4294967296 := by
      rw [UInt32.toNat_sub]; simp only [UInt32.toNat_ofNat, Nat.reducePow, Nat.reduceMod]; omega
    have hd : (o - 1).toNat = o.toNat - 1 := by
      rw [UInt32.toNat_sub]; simp only [UInt32.toNat_ofNat, Nat.reducePow, Nat.reduceMod] at *; omega
    simp only [h0, ho0, if_false, UInt32.lt_iff_toNat_lt, hm2, hd, UInt32.toNat_ofNat, Nat.reducePow, Nat.reduceMod]
    generalize (m.toNat + 4294967296 - 2) % 4294967296 = m2
    by_cases hd4 : o.toNat - 1 < 4
    · simp only [hd4, if_true]
      repeat' split
      all_goals rfl
    · have hdn : (o - 1).toNat ≠ 0 := by omega
      obtain ⟨hb, hl⟩ := bitsLen32_eq (o - 1) hdn
      rw [hd] at hb hl
      simp only [hd4, if_false, hb]
      have hof := toNat_ofInt_small ((o.toNat - 1).log2 + 1) (by omega)
      generalize UInt64.ofInt (Int.ofNat ((o.toNat - 1).log2 + 1)) = w at hof
      generalize (o.toNat - 1).log2 = lg at *
      repeat' split
      all_goals simp only [UInt64.toNat_add, UInt64.toNat_ofNat, hof, Nat.reducePow, Nat.reduceMod]
      all_goals omega

/-! ## lz.go: Seq.Len, Block.Len -/

def ofSeq (s : Gen.Seq) : LZ.Seq :=
  { litLen := s.LitLen.toNat, matchLen := s.MatchLen.toNat, offset := s.Offset.toNat, aux := s.Aux.toNat }

def ofBlock (b : Gen.Block) : LZ.Block := { seqs := b.Sequences.map ofSeq, lits := b.Literals }

/-- G06 -/
theorem gen_seqLen (s : Gen.Seq) : Gen.Seq_Len s = ((ofSeq s).matchLen + (ofSeq s).litLen : Nat) := by
  simp [Gen.Seq_Len, ofSeq]

theorem foldl_matchLen (l : List Gen.Seq) (n : Int) :
    List.foldl (fun n s => n + Int.ofNat s.MatchLen.toNat) n l
      = n + (((l.map ofSeq).map (·.matchLen)).sum : Nat) := by
  induction l generalizing n with
  | nil => simp
  | cons s t ih =>
    simp only [List.foldl_cons, List.map_cons, List.sum_cons, ih]
    simp only [ofSeq, Int.ofNat_eq_natCast, Int.natCast_add]
    omega

/-- G07 -/
theorem gen_blockLen (b : Gen.Block) : Gen.Block_Len b = ((ofBlock b).len : Nat) := by
  unfold Gen.Block_Len LZ.Block.len ofBlock
  simp only [foldl_matchLen]
  simp

/-! ## configurations: the four helper configurations -/

/-- the model's verification predicates as propositions (constants of `Facts` unfolded) -/
theorem bufVerify_iff (c : Cfg) : bufVerify c = true ↔
    ((1 ≤ c.bufferSize ∧ c.bufferSize ≤ 4294967288) ∧ (0 ≤ c.shrinkSize ∧ c.shrinkSize < c.bufferSize) ∧
     (0 ≤ c.windowSize ∧ c.windowSize ≤ 4294967288) ∧ (1 ≤ c.blockSize ∧ c.blockSize ≤ 4294967288)) := by
  unfold bufVerify
  simp +zetaHave only [decide_eq_true_eq]
  simp only [Facts.maxUint32, Facts.margin]
  omega

theorem hashVerify_iff (il hb mb : Int) : hashVerify il hb mb = true ↔
    ((2 ≤ il ∧ il ≤ 8) ∧ (0 ≤ hb ∧ hb ≤ (if 8 * il < mb then 8 * il else mb))) := by
  unfold hashVerify
  simp +zetaHave only [decide_eq_true_eq]
  simp only [Facts.minInputLen, Facts.maxInputLen]

/-- an error-propagating step `if err = f(); err != nil { return err }; rest` -/
theorem seq_ok (a b : Gen.Err) : (if a ≠ .ok then a else b) = .ok ↔ a = .ok ∧ b = .ok := by
  split <;> simp_all

/-- a check `if !(p) { return error k }; rest` -/
theorem chk_ok {p : Prop} [Decidable p] (k : Nat) (r : Gen.Err) :
    (if ¬p then Gen.Err.error k else r) = .ok ↔ p ∧ r = .ok := by
  split <;> simp_all

/-! ### the domain on which `hashValue` is used

The model's `hashValue x hashBits` returns a `Nat` without the `uint32(…)` truncation, so it
equals the Go function only for `hashBits ≤ 32` (`gen_hashValue`).  Every caller takes
`hashBits` from a verified configuration, where it is at most 24 (23 for the bucket hash). -/

theorem hashBits_domain (il hb : Int) (h : hashVerify il hb Facts.maxHashBits = true) :
    0 ≤ hb ∧ hb ≤ 24 := by
  rw [hashVerify_iff] at h
  simp only [Facts.maxHashBits] at h
  omega

theorem bucketHashBits_domain (il hb : Int) (h : hashVerify il hb Facts.maxBucketHashBits = true) :
    0 ≤ hb ∧ hb ≤ 23 := by
  rw [hashVerify_iff] at h
  simp only [Facts.maxBucketHashBits] at h
  omega

/-- G04 on verified configurations (what `hash.init` / `bucketHash.init` accept) the model's
    `hashValue` is the Go `hashValue` with `shift = 64 - hashBits` -/
theorem gen_hashValue_verified (x : UInt64) (il hb : Int)
    (h : hashVerify il hb Facts.maxHashBits = true ∨ hashVerify il hb Facts.maxBucketHashBits = true) :
    (Gen.hashValue x (64 - UInt64.ofNat hb.toNat)).toNat = LZ.hashValue x hb.toNat := by
  apply gen_hashValue
  rcases h with h | h
  · have := hashBits_domain il hb h; omega
  · have := bucketHashBits_domain il hb h; omega

def ofBuf (c : Gen.BufConfig) : Cfg :=
  { shrinkSize := c.ShrinkSize, bufferSize := c.BufferSize, windowSize := c.WindowSize,
    blockSize := c.BlockSize }

/-- G08 `(*BufConfig).SetDefaults` -/
theorem gen_bufDefaults (c : Gen.BufConfig) :
    ofBuf (Gen.BufConfig_SetDefaults c) = bufDefaults (ofBuf c) := by
  obtain ⟨ss, bs, ws, bl⟩ := c
  simp only [Gen.BufConfig_SetDefaults, bufDefaults, ofBuf, Facts.defWindowSize,
    Facts.shrinkSmallLimit, Facts.defShrinkSize, Facts.defBlockSize]
  repeat' split
  all_goals simp_all
  all_goals (intros; omega)

theorem gen_bufDefaults' (b : Gen.BufConfig) : Gen.BufConfig_SetDefaults b =
    ⟨(bufDefaults (ofBuf b)).shrinkSize, (bufDefaults (ofBuf b)).bufferSize,
     (bufDefaults (ofBuf b)).windowSize, (bufDefaults (ofBuf b)).blockSize⟩ := by
  rw [← gen_bufDefaults]; rfl

/-- G09 `(*BufConfig).Verify` -/
theorem gen_bufVerify (c : Gen.BufConfig) :
    Gen.BufConfig_Verify c = .ok ↔ bufVerify (ofBuf c) = true := by
  rw [bufVerify_iff]
  obtain ⟨ss, bs, ws, bl⟩ := c
  simp only [Gen.BufConfig_Verify, ofBuf]
  repeat' split
  all_goals simp only [reduceCtorEq, false_iff, true_iff]
  all_goals omega

/-- G09 which check fails: the k-th `fmt.Errorf` is returned iff the first k-1 range checks
    pass and the k-th does not -/
theorem gen_bufVerify_error1 (c : Gen.BufConfig) :
    Gen.BufConfig_Verify c = .error 1 ↔ ¬(1 ≤ c.BufferSize ∧ c.BufferSize ≤ 4294967288) := by
  simp only [Gen.BufConfig_Verify]
  repeat' split
  all_goals simp only [reduceCtorEq, Gen.Err.error.injEq, false_iff, true_iff]
  all_goals omega

theorem gen_bufVerify_error2 (c : Gen.BufConfig) :
    Gen.BufConfig_Verify c = .error 2 ↔
      (1 ≤ c.BufferSize ∧ c.BufferSize ≤ 4294967288) ∧ ¬(0 ≤ c.ShrinkSize ∧ c.ShrinkSize < c.BufferSize) := by
  simp only [Gen.BufConfig_Verify]
  repeat' split
  all_goals simp only [reduceCtorEq, Gen.Err.error.injEq, false_iff, true_iff]
  all_goals omega

theorem gen_bufVerify_error3 (c : Gen.BufConfig) :
    Gen.BufConfig_Verify c = .error 3 ↔
      (1 ≤ c.BufferSize ∧ c.BufferSize ≤ 4294967288) ∧ (0 ≤ c.ShrinkSize ∧ c.ShrinkSize < c.BufferSize) ∧
      ¬(0 ≤ c.WindowSize ∧ c.WindowSize ≤ 4294967288) := by
  simp only [Gen.BufConfig_Verify]
  repeat' split
  all_goals simp only [reduceCtorEq, Gen.Err.error.injEq, false_iff, true_iff]
  all_goals omega

theorem gen_bufVerify_error4 (c : Gen.BufConfig) :
    Gen.BufConfig_Verify c = .error 4 ↔
      (1 ≤ c.BufferSize ∧ c.BufferSize ≤ 4294967288) ∧ (0 ≤ c.ShrinkSize ∧ c.ShrinkSize < c.BufferSize) ∧
      (0 ≤ c.WindowSize ∧ c.WindowSize ≤ 4294967288) ∧ ¬(1 ≤ c.BlockSize ∧ c.BlockSize ≤ 4294967288) := by
  simp only [Gen.BufConfig_Verify]
  repeat' split
  all_goals simp only [reduceCtorEq, Gen.Err.error.injEq, false_iff, true_iff]
  all_goals omega

/-- G10 `(*hashConfig).SetDefaults` -/
theorem gen_hashDefaults (c : Gen.hashConfig) :
    ((Gen.hashConfig_SetDefaults c).InputLen, (Gen.hashConfig_SetDefaults c).HashBits)
      = hashDefaults c.InputLen c.HashBits := by
  obtain ⟨il, hb⟩ := c
  simp only [Gen.hashConfig_SetDefaults, hashDefaults, Facts.defInputLen, Facts.defHashBits]
  repeat' split
  all_goals simp_all

theorem gen_hashDefaults' (h : Gen.hashConfig) : Gen.hashConfig_SetDefaults h =
    ⟨(hashDefaults h.InputLen h.HashBits).1, (hashDefaults h.InputLen h.HashBits).2⟩ := by
  rw [← gen_hashDefaults]

/-- G11 `(*hashConfig).Verify` -/
theorem gen_hashVerify (c : Gen.hashConfig) :
    Gen.hashConfig_Verify c = .ok ↔ hashVerify c.InputLen c.HashBits Facts.maxHashBits = true := by
  rw [hashVerify_iff]
  obtain ⟨il, hb⟩ := c
  simp only [Gen.hashConfig_Verify, Facts.maxHashBits]
  repeat' split
  all_goals simp only [reduceCtorEq, false_iff, true_iff]
  all_goals omega

theorem gen_hashVerify_error1 (c : Gen.hashConfig) :
    Gen.hashConfig_Verify c = .error 1 ↔ ¬(2 ≤ c.InputLen ∧ c.InputLen ≤ 8) := by
  simp only [Gen.hashConfig_Verify]
  repeat' split
  all_goals simp only [reduceCtorEq, Gen.Err.error.injEq, false_iff, true_iff]
  all_goals omega

theorem gen_hashVerify_error2 (c : Gen.hashConfig) :
    Gen.hashConfig_Verify c = .error 2 ↔
      (2 ≤ c.InputLen ∧ c.InputLen ≤ 8) ∧ ¬(0 ≤ c.HashBits ∧ c.HashBits ≤ min (8 * c.InputLen) 24) := by
  simp only [Gen.hashConfig_Verify]
  repeat' split
  all_goals simp only [reduceCtorEq, Gen.Err.error.injEq, false_iff, true_iff]
  all_goals omega

def ofDh (d : Gen.dhConfig) : Cfg :=
  { inputLen1 := d.H1.InputLen, hashBits1 := d.H1.HashBits,
    inputLen2 := d.H2.InputLen, hashBits2 := d.H2.HashBits }

/-- G12 `(*dhConfig).SetDefaults`: the double-hash part of `setDefaults .DHP` -/
theorem gen_dhDefaults (d : Gen.dhConfig) : Gen.dhConfig_SetDefaults d =
    ⟨⟨(setDefaults .DHP (ofDh d)).inputLen1, (setDefaults .DHP (ofDh d)).hashBits1⟩,
     ⟨(setDefaults .DHP (ofDh d)).inputLen2, (setDefaults .DHP (ofDh d)).hashBits2⟩⟩ := by
  obtain ⟨⟨il1, hb1⟩, ⟨il2, hb2⟩⟩ := d
  simp only [Gen.dhConfig_SetDefaults, gen_hashDefaults', setDefaults, ofDh, bufDefaults, hashDefaults,
    Facts.dhSmallInputLen, Facts.defInputLen2Small, Facts.defInputLen2Large, Facts.defInputLen,
    Facts.defHashBits]
  repeat' split
  all_goals simp_all

/-- G13 `(*dhConfig).Verify`: the double-hash part of `verify .DHP` -/
theorem gen_dhVerify (d : Gen.dhConfig) :
    Gen.dhConfig_Verify d = .ok ↔
      (hashVerify d.H1.InputLen d.H1.HashBits Facts.maxHashBits &&
       hashVerify d.H2.InputLen d.H2.HashBits Facts.maxHashBits &&
       decide (d.H1.InputLen < d.H2.InputLen)) = true := by
  simp only [Gen.dhConfig_Verify, seq_ok, chk_ok, gen_hashVerify, Bool.and_eq_true, decide_eq_true_eq,
    and_true, and_assoc]

def ofBucket (b : Gen.bucketConfig) : Cfg :=
  { inputLen := b.InputLen, hashBits := b.HashBits, bucketSize := b.BucketSize }

/-- G14 `(*bucketConfig).SetDefaults`: the bucket part of `setDefaults .BUP` -/
theorem gen_bucketDefaults (b : Gen.bucketConfig) : Gen.bucketConfig_SetDefaults b =
    ⟨(setDefaults .BUP (ofBucket b)).inputLen, (setDefaults .BUP (ofBucket b)).hashBits,
     (setDefaults .BUP (ofBucket b)).bucketSize⟩ := by
  obtain ⟨il, hb, bs⟩ := b
  simp only [Gen.bucketConfig_SetDefaults, setDefaults, ofBucket, bufDefaults,
    Facts.defBucketInputLen, Facts.defBucketHashBits, Facts.defBucketSize]
  repeat' split
  all_goals simp_all

/-- G15 `(*bucketConfig).Verify`: the bucket part of `verify .BUP` -/
theorem gen_bucketVerify (b : Gen.bucketConfig) :
    Gen.bucketConfig_Verify b = .ok ↔
      (hashVerify b.InputLen b.HashBits Facts.maxBucketHashBits &&
       decide (Facts.minBucketSize ≤ b.BucketSize ∧ b.BucketSize ≤ Facts.maxBucketSize)) = true := by
  rw [Bool.and_eq_true, hashVerify_iff, decide_eq_true_eq]
  obtain ⟨il, hb, bs⟩ := b
  simp only [Gen.bucketConfig_Verify, Facts.maxBucketHashBits, Facts.minBucketSize, Facts.maxBucketSize]
  repeat' split
  all_goals simp only [reduceCtorEq, false_iff, true_iff]
  all_goals omega


/-! ## configurations: the seven parser configurations

`of<K>` reads a generated configuration struct as the model's union record `Cfg` (fields
the kind does not have are zero), `to<K>` is the inverse on `Cfg.restrict <K>`.
`bufferConfig`/`setBufferConfig`/`hashCfg`/… appear in the generated code as the field
copies the extractor read from their source. -/

def ofHP (c : Gen.HPConfig) : Cfg :=
  { shrinkSize := c.ShrinkSize, bufferSize := c.BufferSize, windowSize := c.WindowSize,
    blockSize := c.BlockSize,
    inputLen := c.InputLen, hashBits := c.HashBits }

def toHP (c : Cfg) : Gen.HPConfig :=
  { ShrinkSize := c.shrinkSize, BufferSize := c.bufferSize, WindowSize := c.windowSize,
    BlockSize := c.blockSize,
    InputLen := c.inputLen, HashBits := c.hashBits }

theorem ofHP_toHP (c : Cfg) : ofHP (toHP c) = c.restrict .HP := by
  simp [ofHP, toHP, Cfg.restrict, Kind.fields]

theorem toHP_ofHP (c : Gen.HPConfig) : toHP (ofHP c) = c := rfl

def ofBHP (c : Gen.BHPConfig) : Cfg :=
  { shrinkSize := c.ShrinkSize, bufferSize := c.BufferSize, windowSize := c.WindowSize,
    blockSize := c.BlockSize,
    inputLen := c.InputLen, hashBits := c.HashBits }

def toBHP (c : Cfg) : Gen.BHPConfig :=
  { ShrinkSize := c.shrinkSize, BufferSize := c.bufferSize, WindowSize := c.windowSize,
    BlockSize := c.blockSize,
    InputLen := c.inputLen, HashBits := c.hashBits }

theorem ofBHP_toBHP (c : Cfg) : ofBHP (toBHP c) = c.restrict .BHP := by
  simp [ofBHP, toBHP, Cfg.restrict, Kind.fields]

theorem toBHP_ofBHP (c : Gen.BHPConfig) : toBHP (ofBHP c) = c := rfl

def ofDHP (c : Gen.DHPConfig) : Cfg :=
  { shrinkSize := c.ShrinkSize, bufferSize := c.BufferSize, windowSize := c.WindowSize,
    blockSize := c.BlockSize,
    inputLen1 := c.InputLen1, hashBits1 := c.HashBits1, inputLen2 := c.InputLen2, hashBits2 := c.HashBits2 }

def toDHP (c : Cfg) : Gen.DHPConfig :=
  { ShrinkSize := c.shrinkSize, BufferSize := c.bufferSize, WindowSize := c.windowSize,
    BlockSize := c.blockSize,
    InputLen1 := c.inputLen1, HashBits1 := c.hashBits1, InputLen2 := c.inputLen2, HashBits2 := c.hashBits2 }

theorem ofDHP_toDHP (c : Cfg) : ofDHP (toDHP c) = c.restrict .DHP := by
  simp [ofDHP, toDHP, Cfg.restrict, Kind.fields]

theorem toDHP_ofDHP (c : Gen.DHPConfig) : toDHP (ofDHP c) = c := rfl

def ofBDHP (c : Gen.BDHPConfig) : Cfg :=
  { shrinkSize := c.ShrinkSize, bufferSize := c.BufferSize, windowSize := c.WindowSize,
    blockSize := c.BlockSize,
    inputLen1 := c.InputLen1, hashBits1 := c.HashBits1, inputLen2 := c.InputLen2, hashBits2 := c.HashBits2 }

def toBDHP (c : Cfg) : Gen.BDHPConfig :=
  { ShrinkSize := c.shrinkSize, BufferSize := c.bufferSize, WindowSize := c.windowSize,
    BlockSize := c.blockSize,
    InputLen1 := c.inputLen1, HashBits1 := c.hashBits1, InputLen2 := c.inputLen2, HashBits2 := c.hashBits2 }

theorem ofBDHP_toBDHP (c : Cfg) : ofBDHP (toBDHP c) = c.restrict .BDHP := by
  simp [ofBDHP, toBDHP, Cfg.restrict, Kind.fields]

theorem toBDHP_ofBDHP (c : Gen.BDHPConfig) : toBDHP (ofBDHP c) = c := rfl

def ofBUP (c : Gen.BUPConfig) : Cfg :=
  { shrinkSize := c.ShrinkSize, bufferSize := c.BufferSize, windowSize := c.WindowSize,
    blockSize := c.BlockSize,
    inputLen := c.InputLen, hashBits := c.HashBits, bucketSize := c.BucketSize }

def toBUP (c : Cfg) : Gen.BUPConfig :=
  { ShrinkSize := c.shrinkSize, BufferSize := c.bufferSize, WindowSize := c.windowSize,
    BlockSize := c.blockSize,
    InputLen := c.inputLen, HashBits := c.hashBits, BucketSize := c.bucketSize }

theorem ofBUP_toBUP (c : Cfg) : ofBUP (toBUP c) = c.restrict .BUP := by
  simp [ofBUP, toBUP, Cfg.restrict, Kind.fields]

theorem toBUP_ofBUP (c : Gen.BUPConfig) : toBUP (ofBUP c) = c := rfl

def ofGSAP (c : Gen.GSAPConfig) : Cfg :=
  { shrinkSize := c.ShrinkSize, bufferSize := c.BufferSize, windowSize := c.WindowSize,
    blockSize := c.BlockSize,
    minMatchLen := c.MinMatchLen }

def toGSAP (c : Cfg) : Gen.GSAPConfig :=
  { ShrinkSize := c.shrinkSize, BufferSize := c.bufferSize, WindowSize := c.windowSize,
    BlockSize := c.blockSize,
    MinMatchLen := c.minMatchLen }

theorem ofGSAP_toGSAP (c : Cfg) : ofGSAP (toGSAP c) = c.restrict .GSAP := by
  simp [ofGSAP, toGSAP, Cfg.restrict, Kind.fields]

theorem toGSAP_ofGSAP (c : Gen.GSAPConfig) : toGSAP (ofGSAP c) = c := rfl

def ofOSAP (c : Gen.OSAPConfig) : Cfg :=
  { shrinkSize := c.ShrinkSize, bufferSize := c.BufferSize, windowSize := c.WindowSize,
    blockSize := c.BlockSize,
    minMatchLen := c.MinMatchLen, maxMatchLen := c.MaxMatchLen, cost := c.Cost }

def toOSAP (c : Cfg) : Gen.OSAPConfig :=
  { ShrinkSize := c.shrinkSize, BufferSize := c.bufferSize, WindowSize := c.windowSize,
    BlockSize := c.blockSize,
    MinMatchLen := c.minMatchLen, MaxMatchLen := c.maxMatchLen, Cost := c.cost }

theorem ofOSAP_toOSAP (c : Cfg) : ofOSAP (toOSAP c) = c.restrict .OSAP := by
  simp [ofOSAP, toOSAP, Cfg.restrict, Kind.fields]

theorem toOSAP_ofOSAP (c : Gen.OSAPConfig) : toOSAP (ofOSAP c) = c := rfl

/-! ### G16 SetDefaults -/

theorem gen_setDefaults_HP (c : Gen.HPConfig) :
    ofHP (Gen.HPConfig_SetDefaults c) = setDefaults .HP (ofHP c) := by
  simp only [Gen.HPConfig_SetDefaults, gen_bufDefaults', gen_hashDefaults']
  rfl

theorem gen_setDefaults_BHP (c : Gen.BHPConfig) :
    ofBHP (Gen.BHPConfig_SetDefaults c) = setDefaults .BHP (ofBHP c) := by
  simp only [Gen.BHPConfig_SetDefaults, gen_bufDefaults', gen_hashDefaults']
  rfl

theorem gen_setDefaults_DHP (c : Gen.DHPConfig) :
    ofDHP (Gen.DHPConfig_SetDefaults c) = setDefaults .DHP (ofDHP c) := by
  simp only [Gen.DHPConfig_SetDefaults, gen_bufDefaults', gen_dhDefaults]
  rfl

theorem gen_setDefaults_BDHP (c : Gen.BDHPConfig) :
    ofBDHP (Gen.BDHPConfig_SetDefaults c) = setDefaults .BDHP (ofBDHP c) := by
  simp only [Gen.BDHPConfig_SetDefaults, gen_bufDefaults', gen_dhDefaults]
  rfl

theorem gen_setDefaults_BUP (c : Gen.BUPConfig) :
    ofBUP (Gen.BUPConfig_SetDefaults c) = setDefaults .BUP (ofBUP c) := by
  simp only [Gen.BUPConfig_SetDefaults, gen_bufDefaults', gen_bucketDefaults]
  rfl

theorem gen_setDefaults_GSAP (c : Gen.GSAPConfig) :
    ofGSAP (Gen.GSAPConfig_SetDefaults c) = setDefaults .GSAP (ofGSAP c) := by
  have e : setDefaults .GSAP (ofGSAP c) = { bufDefaults (ofGSAP c) with
      minMatchLen := if c.MinMatchLen = 0 then Facts.defMinMatchLen else c.MinMatchLen } := rfl
  rw [e]
  simp only [Gen.GSAPConfig_SetDefaults, gen_bufDefaults']
  by_cases h : c.MinMatchLen = 0
  · simp only [h, if_true]; rfl
  · simp only [h, if_false]; rfl

/-- `if bc.BufferSize == 0 { bc.SetDefaults(); bc.BufferSize = bc.WindowSize }` changes nothing:
    that is what `BufConfig.SetDefaults` yields anyway -/
theorem bufDefaults_bufferSize_of_zero (c : Cfg) (h : c.bufferSize = 0) :
    (bufDefaults c).bufferSize = (bufDefaults c).windowSize := by
  simp [bufDefaults, h]

theorem gen_setDefaults_OSAP (c : Gen.OSAPConfig) :
    ofOSAP (Gen.OSAPConfig_SetDefaults c) = setDefaults .OSAP (ofOSAP c) := by
  have e : setDefaults .OSAP (ofOSAP c) = { bufDefaults (ofOSAP c) with
      minMatchLen := if c.MinMatchLen = 0 then Facts.defOsapMinMatchLen else c.MinMatchLen,
      maxMatchLen := if c.MaxMatchLen = 0 then Facts.defMaxMatchLen else c.MaxMatchLen,
      cost := if c.Cost = "" then Facts.defCost else c.Cost } := rfl
  rw [e]
  have hz : c.BufferSize = 0 →
      (bufDefaults (ofBuf ⟨c.ShrinkSize, c.BufferSize, c.WindowSize, c.BlockSize⟩)).windowSize
        = (bufDefaults (ofOSAP c)).bufferSize :=
    fun h => (bufDefaults_bufferSize_of_zero (ofOSAP c) h).symm
  simp only [Gen.OSAPConfig_SetDefaults, gen_bufDefaults']
  by_cases h0 : c.BufferSize = 0 <;> by_cases h1 : c.MinMatchLen = 0 <;>
    by_cases h2 : c.MaxMatchLen = 0 <;> by_cases h3 : c.Cost = "" <;>
    simp only [h0, h1, h2, h3, if_true, if_false, ofOSAP, Cfg.mk.injEq] <;>
    (repeat' constructor) <;> first | rfl | exact hz h0

/-! ### G17 Verify -/

theorem gen_verify_HP (c : Gen.HPConfig) :
    Gen.HPConfig_Verify c = .ok ↔ verify .HP (ofHP c) = true := by
  simp only [Gen.HPConfig_Verify, seq_ok, gen_bufVerify, gen_hashVerify, verify, Bool.and_eq_true]
  rfl

theorem gen_verify_BHP (c : Gen.BHPConfig) :
    Gen.BHPConfig_Verify c = .ok ↔ verify .BHP (ofBHP c) = true := by
  simp only [Gen.BHPConfig_Verify, seq_ok, gen_bufVerify, gen_hashVerify, verify, Bool.and_eq_true]
  rfl

theorem gen_verify_DHP (c : Gen.DHPConfig) :
    Gen.DHPConfig_Verify c = .ok ↔ verify .DHP (ofDHP c) = true := by
  simp only [Gen.DHPConfig_Verify, seq_ok, gen_bufVerify, gen_dhVerify, verify, Bool.and_eq_true,
    and_true, and_assoc]
  rfl

theorem gen_verify_BDHP (c : Gen.BDHPConfig) :
    Gen.BDHPConfig_Verify c = .ok ↔ verify .BDHP (ofBDHP c) = true := by
  simp only [Gen.BDHPConfig_Verify, seq_ok, gen_bufVerify, gen_dhVerify, verify, Bool.and_eq_true,
    and_true, and_assoc]
  rfl

theorem gen_verify_BUP (c : Gen.BUPConfig) :
    Gen.BUPConfig_Verify c = .ok ↔ verify .BUP (ofBUP c) = true := by
  simp only [Gen.BUPConfig_Verify, seq_ok, gen_bufVerify, gen_bucketVerify, verify, Bool.and_eq_true,
    and_assoc]
  rfl

theorem gen_verify_GSAP (c : Gen.GSAPConfig) :
    Gen.GSAPConfig_Verify c = .ok ↔ verify .GSAP (ofGSAP c) = true := by
  simp only [Gen.GSAPConfig_Verify, seq_ok, chk_ok, gen_bufVerify, verify, Bool.and_eq_true,
    decide_eq_true_eq, and_true, and_assoc]
  simp only [Facts.maxInt32]
  rfl

theorem gen_verify_OSAP (c : Gen.OSAPConfig) :
    Gen.OSAPConfig_Verify c = .ok ↔ verify .OSAP (ofOSAP c) = true := by
  have hc : (if c.Cost = "XZCost" then Gen.Err.ok else Gen.Err.error 2) = .ok ↔ c.Cost = "XZCost" := by
    split <;> simp_all
  simp only [Gen.OSAPConfig_Verify, seq_ok, chk_ok, hc, gen_bufVerify, verify, Bool.and_eq_true,
    decide_eq_true_eq, and_assoc]
  simp only [Facts.defCost]
  rfl

/-- G17 which check of `GSAPConfig.Verify` fails (the three checks after the buffer check) -/
theorem gen_verify_GSAP_errors (c : Gen.GSAPConfig)
    (hb : Gen.BufConfig_Verify ⟨c.ShrinkSize, c.BufferSize, c.WindowSize, c.BlockSize⟩ = .ok) :
    (Gen.GSAPConfig_Verify c = .error 1 ↔ ¬(2 ≤ c.MinMatchLen)) ∧
    (Gen.GSAPConfig_Verify c = .error 2 ↔ 2 ≤ c.MinMatchLen ∧ ¬(c.MinMatchLen ≤ c.WindowSize)) ∧
    (Gen.GSAPConfig_Verify c = .error 3 ↔
      2 ≤ c.MinMatchLen ∧ c.MinMatchLen ≤ c.WindowSize ∧ ¬(c.WindowSize ≤ 2147483647)) := by
  simp only [Gen.GSAPConfig_Verify, hb]
  refine ⟨?_, ?_, ?_⟩
  all_goals repeat' split
  all_goals simp only [reduceCtorEq, Gen.Err.error.injEq, false_iff, true_iff, ne_eq, not_true_eq_false] at *
  all_goals omega

/-! ### G18 `NewParser` accepts a configuration iff the generated code does -/

theorem gen_accepted_HP (c : Cfg) :
    accepted .HP c = true ↔ Gen.HPConfig_Verify (Gen.HPConfig_SetDefaults (toHP c)) = .ok := by
  rw [gen_verify_HP, gen_setDefaults_HP, ofHP_toHP]; rfl

theorem gen_accepted_BHP (c : Cfg) :
    accepted .BHP c = true ↔ Gen.BHPConfig_Verify (Gen.BHPConfig_SetDefaults (toBHP c)) = .ok := by
  rw [gen_verify_BHP, gen_setDefaults_BHP, ofBHP_toBHP]; rfl

theorem gen_accepted_DHP (c : Cfg) :
    accepted .DHP c = true ↔ Gen.DHPConfig_Verify (Gen.DHPConfig_SetDefaults (toDHP c)) = .ok := by
  rw [gen_verify_DHP, gen_setDefaults_DHP, ofDHP_toDHP]; rfl

theorem gen_accepted_BDHP (c : Cfg) :
    accepted .BDHP c = true ↔ Gen.BDHPConfig_Verify (Gen.BDHPConfig_SetDefaults (toBDHP c)) = .ok := by
  rw [gen_verify_BDHP, gen_setDefaults_BDHP, ofBDHP_toBDHP]; rfl

theorem gen_accepted_BUP (c : Cfg) :
    accepted .BUP c = true ↔ Gen.BUPConfig_Verify (Gen.BUPConfig_SetDefaults (toBUP c)) = .ok := by
  rw [gen_verify_BUP, gen_setDefaults_BUP, ofBUP_toBUP]; rfl

theorem gen_accepted_GSAP (c : Cfg) :
    accepted .GSAP c = true ↔ Gen.GSAPConfig_Verify (Gen.GSAPConfig_SetDefaults (toGSAP c)) = .ok := by
  rw [gen_verify_GSAP, gen_setDefaults_GSAP, ofGSAP_toGSAP]; rfl

theorem gen_accepted_OSAP (c : Cfg) :
    accepted .OSAP c = true ↔ Gen.OSAPConfig_Verify (Gen.OSAPConfig_SetDefaults (toOSAP c)) = .ok := by
  rw [gen_verify_OSAP, gen_setDefaults_OSAP, ofOSAP_toOSAP]; rfl

/-! ### G19 all kinds at once -/

/-- run the generated `SetDefaults` of kind `k` on the union record -/
def genSetDefaults : Kind → Cfg → Cfg
  | .HP, c => ofHP (Gen.HPConfig_SetDefaults (toHP c))
  | .BHP, c => ofBHP (Gen.BHPConfig_SetDefaults (toBHP c))
  | .DHP, c => ofDHP (Gen.DHPConfig_SetDefaults (toDHP c))
  | .BDHP, c => ofBDHP (Gen.BDHPConfig_SetDefaults (toBDHP c))
  | .BUP, c => ofBUP (Gen.BUPConfig_SetDefaults (toBUP c))
  | .GSAP, c => ofGSAP (Gen.GSAPConfig_SetDefaults (toGSAP c))
  | .OSAP, c => ofOSAP (Gen.OSAPConfig_SetDefaults (toOSAP c))

/-- run the generated `Verify` of kind `k` on the union record -/
def genVerify : Kind → Cfg → Gen.Err
  | .HP, c => Gen.HPConfig_Verify (toHP c)
  | .BHP, c => Gen.BHPConfig_Verify (toBHP c)
  | .DHP, c => Gen.DHPConfig_Verify (toDHP c)
  | .BDHP, c => Gen.BDHPConfig_Verify (toBDHP c)
  | .BUP, c => Gen.BUPConfig_Verify (toBUP c)
  | .GSAP, c => Gen.GSAPConfig_Verify (toGSAP c)
  | .OSAP, c => Gen.OSAPConfig_Verify (toOSAP c)

theorem gen_setDefaults (k : Kind) (c : Cfg) :
    genSetDefaults k c = setDefaults k (c.restrict k) := by
  cases k
  · simp only [genSetDefaults, gen_setDefaults_HP, ofHP_toHP]
  · simp only [genSetDefaults, gen_setDefaults_BHP, ofBHP_toBHP]
  · simp only [genSetDefaults, gen_setDefaults_DHP, ofDHP_toDHP]
  · simp only [genSetDefaults, gen_setDefaults_BDHP, ofBDHP_toBDHP]
  · simp only [genSetDefaults, gen_setDefaults_BUP, ofBUP_toBUP]
  · simp only [genSetDefaults, gen_setDefaults_GSAP, ofGSAP_toGSAP]
  · simp only [genSetDefaults, gen_setDefaults_OSAP, ofOSAP_toOSAP]

theorem gen_verify (k : Kind) (c : Cfg) :
    genVerify k c = .ok ↔ verify k (c.restrict k) = true := by
  cases k
  · simp only [genVerify, gen_verify_HP, ofHP_toHP]
  · simp only [genVerify, gen_verify_BHP, ofBHP_toBHP]
  · simp only [genVerify, gen_verify_DHP, ofDHP_toDHP]
  · simp only [genVerify, gen_verify_BDHP, ofBDHP_toBDHP]
  · simp only [genVerify, gen_verify_BUP, ofBUP_toBUP]
  · simp only [genVerify, gen_verify_GSAP, ofGSAP_toGSAP]
  · simp only [genVerify, gen_verify_OSAP, ofOSAP_toOSAP]

/-! ## decoder_buffer.go: DecoderConfig -/

/-- G20 -/
theorem gen_decDefaults (ws bs : Int) :
    Gen.DecoderConfig_SetDefaults ⟨ws, bs⟩ =
      ⟨if ws = 0 then Facts.decDefWindowSize else ws,
       if bs = 0 then Facts.decBufFactor * (if ws = 0 then Facts.decDefWindowSize else ws) else bs⟩ := by
  simp only [Gen.DecoderConfig_SetDefaults, Facts.decDefWindowSize, Facts.decBufFactor]
  repeat' split
  all_goals simp_all

/-- G21 -/
theorem gen_decVerify (c : Gen.DecoderConfig) :
    Gen.DecoderConfig_Verify c = .ok ↔
      (1 ≤ c.BufferSize ∧ c.BufferSize ≤ Facts.maxUint32) ∧ (0 ≤ c.WindowSize ∧ c.WindowSize < c.BufferSize) := by
  simp only [Gen.DecoderConfig_Verify, chk_ok, and_true, Facts.maxUint32]

/-- G22 the model's `decCfg` (defaults, then verification) is the generated pair of functions -/
theorem gen_decCfg (ws bs : Int) :
    decCfg ws bs =
      (let c := Gen.DecoderConfig_SetDefaults ⟨ws, bs⟩
       if Gen.DecoderConfig_Verify c = .ok then some (c.WindowSize.toNat, c.BufferSize.toNat) else none) := by
  simp only [gen_decDefaults, gen_decVerify]
  rfl

end LZ.GenProps
