/-
  LzProofs.GenGSAPParse — the translated `(*gsap).Parse` of gsap.go (topic GSAPParse of tools/extract, code_opq.go;
  LzModel/Generated/CodeGSAPParse.lean) equals the word-level model `GsapBits.gsapParseW` (the Go bitset in place of
  the rank array): same `n`, error, sequences, literals, new state — incl. the truncation `s.sa = s.sa[:0]` after a
  NoTrailingLiterals block —; explicit fuel `2·len(Data) + 5`; the invariant bundle `ParseOKG` is preserved.

  Translated: `Parse`, `sort` (GenGSAPLemmas.gen_gsap_sort), `bitset.clear / memberBefore / memberAfter` (topic Bitset).
  OPAQUE state-passing callees (eighth part of the translator): `suffix.Sort` under `SortSpec`, `bitset.insert` under
  `InsertSpec`; opaque pure callee `lcp` under `LcpSpec` (GenGSAPLemmas).  Topic assumption `blk != nil`.

  `gsapParseW` reads `sa` / `isa` with total accessors (`getD`) and its bitset `insert` never fails on a well-formed
  bitset; the Go text panics on an index out of range.  The bundle `ParseOKG` therefore carries, besides the
  representation invariants, the INDEX invariant `SaIdx` ("no suffix array, or `sa`, `isa` are mutually inverse arrays
  of `len(sa) ≤ len(Data)` entries, and the bitset holds only ranks `r < len(sa)` of positions `sa[r] < W`, in a word
  span of at most `len(sa)/64 + 1` words").  Under it `gsapParseW` is never `none` and the Go text never panics; the
  `none ↦ panic` arm of the statement is vacuous.  OUTSIDE `SaIdx` the two differ (e.g. `isa` shorter than the block:
  Go panics at `s.isa[i]`, the model reads 0) — unreachable: `sort` establishes `SaIdx`, `Parse` keeps it or drops `sa`.

    gen_gsap_parse        translated Parse = gsapParseW
    gen_gsap_parse_model  … = the list-level `Parser.parse` on reachable states (with `gsapParse_sim_reachable`)
    gen_gsap_parse_empty  nothing to parse ⇒ (0, ErrEmptyBuffer), every fuel
  No sorry, no axioms of its own.
-/
import LzProofs.GenGSAPLoop
import LzProofs.GenPropsCfgGSAP

set_option linter.unusedSimpArgs false
set_option linter.unusedVariables false

namespace LZ.GenGSAP
open LZ LZ.Gen LZ.GenBuf LZ.GenHash LZ.GenSuffix LZ.GenBitset LZ.GsapBits LZ.GenHPParse LZ.GenParse LZ.GenBUPParse
  LZ.GenProps

/-- the model parser state a Go `gsap` stands for, with the rank-array dictionary `g` (which `gsapParseW` ignores) -/
def ofGSAPs (s : Gen.gsap) (g : GsapD) : Parser :=
  { kind := .GSAP, cfg := ofGSAP s.GSAPConfig, buf := ofPB s.ParserBuffer, dict := .gsap g }

/-- decide the FIRST `if` of the goal (outermost, leftmost) from the context, whatever the spelling of its test
    (operand order, `≠`/`=` with swapped arms, De Morgan) and whichever arm is taken; atoms like `iand flags 1` are opaque
    to omega, `Int.ofNat` is normalised first -/
macro "gs_ite" : tactic =>
  `(tactic| first | rw [if_pos (by omega)] | rw [if_neg (by omega)] | rw [if_pos (by int_omega)] | rw [if_neg (by int_omega)])

/-- `n` of `Parse`: `min (len(s.Data) - s.W) s.BlockSize` in Go `int` arithmetic -/
def blockNG (s : Gen.gsap) : Int :=
  if (Int.ofNat s.ParserBuffer.Data.len) - s.ParserBuffer.W > s.GSAPConfig.BlockSize then s.GSAPConfig.BlockSize
  else (Int.ofNat s.ParserBuffer.Data.len) - s.ParserBuffer.W

/-- nothing to parse ⇒ `(0, ErrEmptyBuffer)`, the block is emptied, the parser is unchanged; every `grow`, `fuel` -/
theorem gen_gsap_parse_empty (grow : Nat → Nat → Nat) (fuel : Nat) (lcp : Slice → Slice → Int)
    (SS : Slice → GSlice Int32 → Res (GSlice Int32)) (BI : Gen.bitset → List Int → Res Gen.bitset)
    (s : Gen.gsap) (blk : Gen.Block') (flags : Int) (h : blockNG s = 0) :
    gsap_Parse grow fuel lcp SS BI s blk flags = Res.ok (s, resetBlk blk, (0 : Int), ErrEmptyBuffer) := by
  have hs : Slice.slice blk.Literals 0 (0 : Int) = Res.ok { arr := blk.Literals.arr, len := 0 } := by
    unfold Slice.slice
    simp [Slice.cap]
  -- the clamp in any spelling is a minimum; the test `n == 0` is evaluated as it comes
  have hmin : Min.min s.GSAPConfig.BlockSize ((Int.ofNat s.ParserBuffer.Data.len) - s.ParserBuffer.W) = 0 := by
    unfold blockNG at h; rw [← ite_lt_min]; exact h
  have hmin' : Min.min ((Int.ofNat s.ParserBuffer.Data.len) - s.ParserBuffer.W) s.GSAPConfig.BlockSize = 0 := by
    rw [Int.min_comm]; exact hmin
  unfold gsap_Parse gsap_Parse_nilable; simp only [Bool.false_eq_true]
  simp only [if_false, gt_iff_lt, ge_iff_le, ite_lt_min, ite_le_min, hmin, hmin', hs, bind_ok, resetBlk]
  try (first | rfl | simp)

/-- the index invariant of a state with a suffix array -/
structure SaIdx (s : Gen.gsap) : Prop where
  lisa : s.isa.len = s.sa.len
  le : s.sa.len ≤ s.ParserBuffer.Data.len
  nsa : NonNeg s.sa
  nisa : NonNeg s.isa
  rk : ∀ i, i < s.sa.len →
    (absI32 s.isa).getD i 0 < s.sa.len ∧ (absI32 s.sa).getD ((absI32 s.isa).getD i 0) 0 = i
  mark : ∀ r, BitsetW.mem (ofBS s.bits) r → r < s.sa.len ∧ (absI32 s.sa).getD r 0 < s.ParserBuffer.W.toNat
  span : (ofBS s.bits).len = 0 ∨ (ofBS s.bits).off + (ofBS s.bits).len ≤ s.sa.len / 64 + 1

/-- the hypotheses of `gen_gsap_parse` on the Go state: the representation invariants (`PBWF`, `GWF`, `BSWF`), the
    fields `GSAPConfig` duplicates agree with the copies the model reads, `0 ≤ BlockSize`, `0 ≤ WindowSize`,
    `1 ≤ MinMatchLen` (`Verify`: `≥ 2`), `W ≤ len(Data) ≤ MaxInt32` (`Verify`: `BufferSize ≤ MaxInt32`), and the index
    invariant `SaIdx` unless there is no suffix array.  `Parse` preserves the bundle. -/
structure ParseOKG (s : Gen.gsap) : Prop where
  pb : PBWF s.ParserBuffer
  wsa : GWF s.sa
  wisa : GWF s.isa
  wbits : BSWF s.bits
  cws : s.GSAPConfig.WindowSize.toNat = s.ParserBuffer.BufConfig.WindowSize.toNat
  cbs : s.GSAPConfig.BlockSize.toNat = s.ParserBuffer.BufConfig.BlockSize.toNat
  bs0 : 0 ≤ s.GSAPConfig.BlockSize
  ws0 : 0 ≤ s.GSAPConfig.WindowSize
  mm1 : 1 ≤ s.GSAPConfig.MinMatchLen
  w : s.ParserBuffer.W ≤ s.ParserBuffer.Data.len
  small : s.ParserBuffer.Data.len ≤ 2147483647
  idx : s.sa.len = 0 ∨ SaIdx s

/-- the Go state after `Parse` -/
@[reducible] def withWG (s : Gen.gsap) (w : Int) (sa : GSlice Int32) (bits : Gen.bitset) : Gen.gsap :=
  { ParserBuffer := { s.ParserBuffer with W := w }, sa := sa, isa := s.isa, bits := bits, GSAPConfig := s.GSAPConfig }

theorem marks_clear (N e : Nat) (saN : Array Nat) (w : BitsetW) : Marks N e saN w.clear := by
  refine ⟨Nat.zero_le _, ?_, Or.inl rfl⟩
  intro r hr
  exact absurd hr.2.1 (by show ¬ _ < 0; omega)

/-- what the loop needs of the state after `if i+n > len(s.sa) { s.sort() }` -/
structure Prep (s s1 : Gen.gsap) (e mm ws : Nat) : Prop where
  pb : s1.ParserBuffer = s.ParserBuffer
  cfg : s1.GSAPConfig = s.GSAPConfig
  wbits : BSWF s1.bits
  fix : LoopFix s1.ParserBuffer s1.sa s1.isa s1.GSAPConfig s1.sa.len e mm ws
  marks : Marks s1.sa.len e (absI32 s1.sa) (ofBS s1.bits)
  le : s1.sa.len ≤ s.ParserBuffer.Data.len

/-- **`if i+n > len(s.sa) { s.sort() }`** on both sides -/
theorem parse_prep (fuel : Nat) (SS : Slice → GSlice Int32 → Res (GSlice Int32)) (hSS : SortSpec SS)
    (BI : Gen.bitset → List Int → Res Gen.bitset) (hBI : InsertSpec BI) (s : Gen.gsap) (h : ParseOKG s)
    (Wn nN mm ws : Nat) (hW : s.ParserBuffer.W = (Wn : Int)) (hn : nN ≠ 0) (hle : Wn + nN ≤ s.ParserBuffer.Data.len)
    (hmm : s.GSAPConfig.MinMatchLen = (mm : Int)) (hws : ws = s.GSAPConfig.WindowSize.toNat) (hf : Wn + 1 ≤ fuel) :
    ∃ s1 g1, (Wn + nN > s.sa.len → gsap_sort fuel SS BI s = Res.ok s1) ∧ (¬ Wn + nN > s.sa.len → s1 = s) ∧
      (if Wn + nN > (ofGW s).sa.size then gsapSortW (ofGW s) s.ParserBuffer.Data.data Wn else some (ofGW s)) = some g1 ∧
      ofGW s1 = g1 ∧ Prep s s1 (Wn + nN) mm ws := by
  have hsz : (ofGW s).sa.size = s.sa.len := absI32_size h.wsa
  rw [hsz]
  have hmm1 : 1 ≤ mm := by have := h.mm1; omega
  by_cases hre : Wn + nN > s.sa.len
  · rw [if_pos hre]
    obtain ⟨sa', isa', bits', gw', r1, r2, r3, w1, w2, w3, n1, n2, l1, l2⟩ :=
      gen_gsap_sort fuel SS hSS BI hBI s h.pb.data h.wbits Wn hW (by omega) h.small hf
    refine ⟨_, gw', fun _ => r1, fun hc => absurd hre hc, r2, r3, ?_⟩
    have hdl : s.ParserBuffer.Data.data.length = s.ParserBuffer.Data.len := data_length h.pb.data
    -- what `gsapSortW` returns
    have hok := Sap.saok_saSpec s.ParserBuffer.Data.data
    obtain ⟨w'', k1, k2⟩ := marks_insertRanks (N := s.ParserBuffer.Data.len) (e := Wn + nN)
      (saN := (saSpec s.ParserBuffer.Data.data).toArray) (isaN := invertSA (saSpec s.ParserBuffer.Data.data).toArray)
      (fun i hi => by have := hok.sa_isa i (by omega); rw [hdl] at this; exact this) Wn 0 (ofBS s.bits).clear
      (marks_clear _ _ _ _) (by omega)
    have hgw : gw' = ⟨(saSpec s.ParserBuffer.Data.data).toArray, invertSA (saSpec s.ParserBuffer.Data.data).toArray, w''⟩ := by
      unfold gsapSortW at r2
      simp only [ofGW] at r2
      rw [k1] at r2
      exact (Option.some.inj r2).symm
    subst hgw
    have hsa : absI32 sa' = (saSpec s.ParserBuffer.Data.data).toArray := congrArg GsapDW.sa r3
    have hisa : absI32 isa' = invertSA (saSpec s.ParserBuffer.Data.data).toArray := congrArg GsapDW.isa r3
    have hbits : ofBS bits' = w'' := congrArg GsapDW.bits r3
    refine ⟨rfl, rfl, w3, ⟨w1, w2, n1, n2, rfl, by show isa'.len = sa'.len; rw [l1, l2], by show Wn + nN ≤ sa'.len; omega,
      ?_, hmm, hmm1, hws, h.ws0⟩, ?_, by show sa'.len ≤ _; omega⟩
    · intro i hi
      show (absI32 isa').getD i 0 < sa'.len ∧ (absI32 sa').getD ((absI32 isa').getD i 0) 0 = i
      rw [hsa, hisa, l1, ← hdl]
      exact hok.sa_isa i (by rw [hdl, ← l1]; exact hi)
    · show Marks sa'.len (Wn + nN) (absI32 sa') (ofBS bits')
      rw [hsa, hbits, l1]; exact k2
  · rw [if_neg hre]
    refine ⟨s, ofGW s, fun hc => absurd hc hre, fun _ => rfl, rfl, rfl, rfl, rfl, h.wbits, ?_, ?_, ?_⟩
    · rcases h.idx with h0 | hI
      · omega
      · exact ⟨h.wsa, h.wisa, hI.nsa, hI.nisa, rfl, hI.lisa, by omega, hI.rk, hmm, hmm1, hws, h.ws0⟩
    · rcases h.idx with h0 | hI
      · omega
      · refine ⟨winv_of_bswf h.wbits, fun r hr => ?_, hI.span⟩
        have := hI.mark r hr
        have hWn : s.ParserBuffer.W.toNat = Wn := by omega
        rw [hWn] at this
        omega
    · rcases h.idx with h0 | hI
      · omega
      · exact hI.le

set_option maxHeartbeats 2000000 in
/-- **`Parse` = `gsapParseW`** (existence form: under `ParseOKG` neither side fails). -/
theorem gen_gsap_parse_ex (grow : Nat → Nat → Nat) (fuel : Nat) (lcp : Slice → Slice → Int) (hlcp : LcpSpec lcp)
    (SS : Slice → GSlice Int32 → Res (GSlice Int32)) (hSS : SortSpec SS)
    (BI : Gen.bitset → List Int → Res Gen.bitset) (hBI : InsertSpec BI)
    (s : Gen.gsap) (blk : Gen.Block') (flags : Int) (g : GsapD)
    (h : ParseOKG s) (hfl : 0 ≤ flags) (hfuel : 2 * s.ParserBuffer.Data.len + 5 ≤ fuel) :
    ∃ gw' n e b, gsapParseW (ofGSAPs s g) (ofGW s) flags.toNat = some (gw', n, e, b) ∧
      ∃ t blk', gsap_Parse grow fuel lcp SS BI s blk flags = Res.ok (t, blk', (n : Int), parseErr e) ∧
        ofGW t = gw' ∧ t.ParserBuffer = { s.ParserBuffer with W := s.ParserBuffer.W + (n : Int) } ∧
        t.GSAPConfig = s.GSAPConfig ∧ (e = .ok ∨ e = .empty) ∧
        blk'.Sequences = b.seqs.map seqRep ∧ blk'.Literals.data = b.lits ∧ SWF blk'.Literals ∧ ParseOKG t := by
  have hP := h
  have hpb := h.pb
  have hD : SWF s.ParserBuffer.Data := hpb.data
  have hD' : s.ParserBuffer.Data.len ≤ s.ParserBuffer.Data.arr.length := hD
  have hdl : s.ParserBuffer.Data.data.length = s.ParserBuffer.Data.len := data_length hD
  obtain ⟨Wn, hWn⟩ : ∃ Wn : Nat, s.ParserBuffer.W = (Wn : Int) := ⟨s.ParserBuffer.W.toNat, by have := hpb.w; omega⟩
  have hWn' : s.ParserBuffer.W.toNat = Wn := by omega
  have hWl : Wn ≤ s.ParserBuffer.Data.len := by have := h.w; omega
  have hbs0 := h.bs0
  have hbN : (ofGSAPs s g).blockN = Min.min (s.ParserBuffer.Data.len - Wn) s.GSAPConfig.BlockSize.toNat := by
    show Min.min (s.ParserBuffer.Data.data.length - s.ParserBuffer.W.toNat) s.ParserBuffer.BufConfig.BlockSize.toNat = _
    rw [hdl, h.cbs, hWn']
  have hnG : (if (Int.ofNat s.ParserBuffer.Data.len) - s.ParserBuffer.W > s.GSAPConfig.BlockSize
      then s.GSAPConfig.BlockSize else (Int.ofNat s.ParserBuffer.Data.len) - s.ParserBuffer.W) =
      (((ofGSAPs s g).blockN : Nat) : Int) := by
    rw [hbN, hWn]
    show (if (s.ParserBuffer.Data.len : Int) - _ > _ then _ else (s.ParserBuffer.Data.len : Int) - _) = _
    split <;> omega
  -- the same clamp spelled `n >= s.BlockSize` (a harmless rewrite of the Go text)
  have hnG' : (if (Int.ofNat s.ParserBuffer.Data.len) - s.ParserBuffer.W ≥ s.GSAPConfig.BlockSize
      then s.GSAPConfig.BlockSize else (Int.ofNat s.ParserBuffer.Data.len) - s.ParserBuffer.W) =
      (((ofGSAPs s g).blockN : Nat) : Int) := by
    rw [hbN, hWn]
    show (if (s.ParserBuffer.Data.len : Int) - _ ≥ _ then _ else (s.ParserBuffer.Data.len : Int) - _) = _
    split <;> omega
  -- … and as a minimum, whichever way round (every `if`-spelling of the clamp is normalised to one of these)
  have hmin : Min.min s.GSAPConfig.BlockSize ((Int.ofNat s.ParserBuffer.Data.len) - s.ParserBuffer.W) =
      (((ofGSAPs s g).blockN : Nat) : Int) := by rw [← hnG, ← ite_lt_min]
  have hmin' : Min.min ((Int.ofNat s.ParserBuffer.Data.len) - s.ParserBuffer.W) s.GSAPConfig.BlockSize =
      (((ofGSAPs s g).blockN : Nat) : Int) := by rw [Int.min_comm]; exact hmin
  by_cases hn : (ofGSAPs s g).blockN = 0
  · have hg : blockNG s = 0 := by unfold blockNG; rw [hnG, hn]; rfl
    refine ⟨ofGW s, 0, .empty, ⟨[], []⟩, by unfold gsapParseW; rw [if_pos hn], s, resetBlk blk,
      gen_gsap_parse_empty grow fuel lcp SS BI s blk flags hg, rfl, ?_, rfl, Or.inr rfl, rfl, rfl, Nat.zero_le _, hP⟩
    show s.ParserBuffer = { s.ParserBuffer with W := s.ParserBuffer.W + 0 }
    rw [Int.add_zero]
  generalize hnN : (ofGSAPs s g).blockN = nN at hn hbN hnG hnG' hmin hmin'
  have hLlen : Wn + nN ≤ s.ParserBuffer.Data.len := by omega
  have hn0 : ¬ ((nN : Int) = 0) := by omega
  obtain ⟨mm, hmm⟩ : ∃ mm : Nat, s.GSAPConfig.MinMatchLen = (mm : Int) :=
    ⟨s.GSAPConfig.MinMatchLen.toNat, by have := h.mm1; omega⟩
  -- the model side
  have hw0 : (ofGSAPs s g).buf.w = Wn := hWn'
  have hpre : (ofGSAPs s g).blockPrefix = s.ParserBuffer.Data.arr.take (Wn + nN) := by
    unfold Parser.blockPrefix
    rw [hnN, hw0]
    show (s.ParserBuffer.Data.arr.take _).take _ = _
    rw [List.take_take, Nat.min_eq_left hLlen]
  have hpl : (s.ParserBuffer.Data.arr.take (Wn + nN)).length = Wn + nN := by rw [List.length_take]; omega
  have hwsM : (ofGSAPs s g).buf.cfg.windowSize = s.GSAPConfig.WindowSize.toNat := by rw [h.cws]; rfl
  have hmmM : (ofGSAPs s g).minMatch = mm := by
    show s.GSAPConfig.MinMatchLen.toNat = mm; omega
  obtain ⟨s1, g1, hs1a, hs1b, hg1, hog1, hprep⟩ := parse_prep fuel SS hSS BI hBI s h Wn nN mm s.GSAPConfig.WindowSize.toNat
    hWn hn hLlen hmm rfl (by omega)
  unfold gsapParseW
  rw [if_neg (by rw [hnN]; exact hn)]
  simp only []
  rw [hnN, hw0, hpre, hpl, hwsM, hmmM]
  have hdata : (ofGSAPs s g).buf.data = s.ParserBuffer.Data.data := rfl
  rw [hdata, hg1]
  simp only []
  -- the loop
  have hfixA := hprep.fix
  rw [hprep.pb, hprep.cfg] at hfixA
  have hN1 : s1.sa.len ≤ s.ParserBuffer.Data.len := hprep.le
  obtain ⟨st', s2, blk2, hgl, hl1, hI2, hd2, hi2, hli2, hli1, hseq2, hlit2, hswf2⟩ :=
    loops_eq grow lcp hlcp SS BI hBI s.ParserBuffer s1.sa s1.isa s.GSAPConfig s1.sa.len (Wn + nN) mm
      s.GSAPConfig.WindowSize.toNat hfixA s.ParserBuffer.Data.arr (by omega) fuel Wn s1
      { Sequences := [], Literals := { arr := blk.Literals.arr, len := 0 } }
      ⟨hprep.pb, rfl, rfl, hprep.cfg, hprep.wbits, hprep.marks⟩ (by omega)
      (by have := Nat.div_le_self s1.sa.len 64; omega) rfl rfl (Nat.zero_le _)
  have hlift := greedyLoopW_lift s.GSAPConfig.WindowSize.toNat mm (s.ParserBuffer.Data.arr.take (Wn + nN)) (Wn + nN)
    (Wn + nN) _ st' (by show Wn + nN - Wn ≤ Wn + nN; omega) hgl
  rw [← hog1]
  unfold Parser.runGreedy
  have hlift' : greedyLoop ⟨probeW s.GSAPConfig.WindowSize.toNat mm⟩ (s.ParserBuffer.Data.arr.take (Wn + nN)) (Wn + nN)
      { dict := some (ofGW s1), i := Wn, litIndex := Wn, seqs := [], lits := [] } = liftSt st' := hlift
  simp only [hlift']
  obtain ⟨hpb2, hsa2, hisa2, hcfg2, hbs2, hmk2⟩ := hI2
  -- the Go side in continuation form
  have hs0 : Slice.slice blk.Literals 0 (0 : Int) = Res.ok { arr := blk.Literals.arr, len := 0 } := by
    unfold Slice.slice
    simp [Slice.cap]
  have hGo : ∀ R : Res (Gen.gsap × Block' × Int × Gen.Err),
      ((iand flags 1 ≠ 0 ∧ Int.ofNat blk2.Sequences.length > 0) → st'.litIndex < Wn + nN →
        Res.ok (withWG s2 (st'.litIndex : Int) { arr := s2.sa.arr.drop 0, len := 0 - 0 } s2.bits, blk2,
          (st'.litIndex : Int) - (Wn : Int), Gen.Err.ok) = R) →
      ((iand flags 1 ≠ 0 ∧ Int.ofNat blk2.Sequences.length > 0) → ¬ st'.litIndex < Wn + nN →
        Res.ok (withWG s2 (st'.litIndex : Int) s2.sa s2.bits, blk2, (st'.litIndex : Int) - (Wn : Int), Gen.Err.ok) = R) →
      (¬ (iand flags 1 ≠ 0 ∧ Int.ofNat blk2.Sequences.length > 0) →
        Res.ok (withWG s2 ((Wn + nN : Nat) : Int) s2.sa s2.bits,
          ({ Sequences := blk2.Sequences,
             Literals := Slice.append grow blk2.Literals
               ((s.ParserBuffer.Data.arr.drop st'.litIndex).take (Wn + nN - st'.litIndex)) } : Block'),
          ((Wn + nN : Nat) : Int) - (Wn : Int), Gen.Err.ok) = R) →
      gsap_Parse grow fuel lcp SS BI s blk flags = R := by
    intro R h1 h2 h3
    -- shape-independent: no generated test is spelled out below; every `if` of the text is decided from the model-side
    -- case split by `gs_ite` in whatever spelling / arm order it comes, the clamp is any spelling of a minimum
    unfold gsap_Parse gsap_Parse_nilable; simp only [Bool.false_eq_true]
    simp only [if_false]
    simp only [gt_iff_lt, ge_iff_le, ite_lt_min, ite_le_min, hmin, hmin']
    rw [hs0, bind_ok]
    try dsimp only
    gs_ite
    rw [hWn]
    refine bind_trans (v := s1) ?_ ?_
    · by_cases hre : Wn + nN > s.sa.len
      · gs_ite; rw [hs1a hre, bind_ok]
      · gs_ite; rw [hs1b hre]
    try dsimp only
    rw [hprep.pb, slice_okI s.ParserBuffer.Data 0 _ 0 (Wn + nN) rfl (by omega)
      (Nat.zero_le _) (by omega), bind_ok]
    simp only [List.drop_zero, Nat.sub_zero]
    rw [hl1, bind_ok]
    try dsimp only
    have hW2 : s2.ParserBuffer.W = (Wn : Int) := by rw [hpb2]; exact hWn
    by_cases hcnd : iand flags 1 ≠ 0 ∧ Int.ofNat blk2.Sequences.length > 0
    · gs_ite
      by_cases hlt : st'.litIndex < Wn + nN
      · gs_ite
        rw [gslice_ok s2.sa 0 (0 : Int) 0 0 rfl rfl (Nat.le_refl 0) (Nat.zero_le _)]
        simp only [bind_ok, hW2]
        exact h1 hcnd hlt
      · gs_ite
        simp only [bind_ok, hW2]
        exact h2 hcnd hlt
    · gs_ite
      rw [slice_okI _ _ (Int.ofNat (Wn + nN)) st'.litIndex (Wn + nN) rfl rfl hli2
        (by show Wn + nN ≤ s.ParserBuffer.Data.arr.length; omega)]
      simp only [bind_ok, hW2]
      exact h3 hcnd
  -- the bundle after the call
  have hfixL := hfixA
  have hPt : ∀ (w' : Nat) (sa' : GSlice Int32), w' ≤ Wn + nN → GWF sa' →
      (sa'.len = 0 ∨ (sa' = s2.sa ∧ w' = Wn + nN)) → ParseOKG (withWG s2 (w' : Int) sa' s2.bits) := by
    intro w' sa' hw' hwsa' hcase
    refine ⟨?_, hwsa', by show GWF s2.isa; rw [hisa2]; exact hfixL.wisa, hbs2, ?_, ?_, ?_, ?_, ?_, ?_, ?_, ?_⟩
    · show PBWF { s2.ParserBuffer with W := (w' : Int) }
      rw [hpb2]
      exact ⟨hD, by show (0 : Int) ≤ (w' : Int); omega, hpb.off, hpb.ss, hpb.bs⟩
    · show s2.GSAPConfig.WindowSize.toNat = s2.ParserBuffer.BufConfig.WindowSize.toNat
      rw [hcfg2, hpb2]; exact h.cws
    · show s2.GSAPConfig.BlockSize.toNat = s2.ParserBuffer.BufConfig.BlockSize.toNat
      rw [hcfg2, hpb2]; exact h.cbs
    · show 0 ≤ s2.GSAPConfig.BlockSize
      rw [hcfg2]; exact h.bs0
    · show 0 ≤ s2.GSAPConfig.WindowSize
      rw [hcfg2]; exact h.ws0
    · show 1 ≤ s2.GSAPConfig.MinMatchLen
      rw [hcfg2]; exact h.mm1
    · show (w' : Int) ≤ ((s2.ParserBuffer.Data.len : Nat) : Int)
      rw [hpb2]; omega
    · show s2.ParserBuffer.Data.len ≤ 2147483647
      rw [hpb2]; exact h.small
    · rcases hcase with h0 | ⟨hs, hw⟩
      · exact Or.inl h0
      · right
        subst hs hw
        refine ⟨?_, ?_, ?_, ?_, ?_, ?_, ?_⟩
        · show s2.isa.len = s2.sa.len
          rw [hisa2, hsa2, hfixL.lisa]
        · show s2.sa.len ≤ s2.ParserBuffer.Data.len
          rw [hsa2, hpb2]; exact hN1
        · show NonNeg s2.sa
          rw [hsa2]; exact hfixL.nsa
        · show NonNeg s2.isa
          rw [hisa2]; exact hfixL.nisa
        · show ∀ i, i < s2.sa.len → (absI32 s2.isa).getD i 0 < s2.sa.len ∧ (absI32 s2.sa).getD ((absI32 s2.isa).getD i 0) 0 = i
          rw [hisa2, hsa2]; exact hfixL.rk
        · show ∀ r, BitsetW.mem (ofBS s2.bits) r → r < s2.sa.len ∧ (absI32 s2.sa).getD r 0 < ((Wn + nN : Nat) : Int).toNat
          rw [hsa2]
          intro r hr
          have := hmk2.mark r hr
          omega
        · show (ofBS s2.bits).len = 0 ∨ (ofBS s2.bits).off + (ofBS s2.bits).len ≤ s2.sa.len / 64 + 1
          rw [hsa2]; exact hmk2.span
  have hPB : ∀ (w' : Nat) (sa' : GSlice Int32), Wn ≤ w' →
      (withWG s2 (w' : Int) sa' s2.bits).ParserBuffer =
        { s.ParserBuffer with W := s.ParserBuffer.W + ((w' - Wn : Nat) : Int) } := by
    intro w' sa' hw'
    show ({ s2.ParserBuffer with W := (w' : Int) } : Gen.ParserBuffer) = _
    rw [hpb2, hWn]
    have : (Wn : Int) + ((w' - Wn : Nat) : Int) = (w' : Int) := by omega
    rw [this]
  have hslen : blk2.Sequences.length = st'.seqs.length := by rw [hseq2, List.length_map]
  simp only [liftSt]
  unfold finishBlock
  by_cases hfin : flags.toNat % 2 = 1 ∧ st'.seqs ≠ []
  · have hne : st'.seqs.length ≠ 0 := fun hc => hfin.2 (List.eq_nil_of_length_eq_zero hc)
    have hcnd : iand flags 1 ≠ 0 ∧ Int.ofNat blk2.Sequences.length > 0 :=
      ⟨(iand_one flags hfl).mpr hfin.1, by show (blk2.Sequences.length : Int) > 0; omega⟩
    simp only [if_pos hfin]
    have hcast : (st'.litIndex : Int) - (Wn : Int) = ((st'.litIndex - Wn : Nat) : Int) := by omega
    by_cases hlt : st'.litIndex < Wn + nN
    · rw [if_pos ⟨hfin.1, hfin.2, hlt⟩]
      refine ⟨_, _, _, _, rfl, withWG s2 (st'.litIndex : Int) { arr := s2.sa.arr.drop 0, len := 0 - 0 } s2.bits, blk2,
        hGo _ (fun _ _ => by rw [hcast]; rfl) (fun _ hc => absurd hlt hc) (fun hc => absurd hcnd hc), ?_,
        hPB _ _ hli1, hcfg2, Or.inl rfl, hseq2, hlit2, hswf2,
        hPt _ _ hli2 (by show 0 - 0 ≤ _; omega) (Or.inl rfl)⟩
      rw [hd2]
      show ({ sa := absI32 { arr := s2.sa.arr.drop 0, len := 0 - 0 }, isa := absI32 s2.isa, bits := ofBS s2.bits } : GsapDW) = _
      simp [absI32, GSlice.data, ofGW]
    · rw [if_neg (fun hc => hlt hc.2.2)]
      have hli : st'.litIndex = Wn + nN := by omega
      refine ⟨_, _, _, _, rfl, withWG s2 (st'.litIndex : Int) s2.sa s2.bits, blk2,
        hGo _ (fun _ hc => absurd hc hlt) (fun _ _ => by rw [hcast]; rfl) (fun hc => absurd hcnd hc), ?_,
        hPB _ _ hli1, hcfg2, Or.inl rfl, hseq2, hlit2, hswf2,
        hPt _ _ hli2 (by show GWF s2.sa; rw [hsa2]; exact hfixL.wsa) (Or.inr ⟨rfl, hli⟩)⟩
      rw [hd2]; rfl
  · simp only [if_neg hfin]
    have hcnd : ¬ (iand flags 1 ≠ 0 ∧ Int.ofNat blk2.Sequences.length > 0) := by
      intro ⟨h1, h2⟩
      apply hfin
      refine ⟨(iand_one flags hfl).mp h1, ?_⟩
      intro hc
      have h2' : (blk2.Sequences.length : Int) > 0 := h2
      rw [hslen, hc] at h2'
      exact absurd h2' (by decide)
    rw [if_neg (fun hc => hfin ⟨hc.1, hc.2.1⟩), hpl]
    have hcast : ((Wn + nN : Nat) : Int) - (Wn : Int) = ((Wn + nN - Wn : Nat) : Int) := by omega
    refine ⟨_, _, _, _, rfl, withWG s2 ((Wn + nN : Nat) : Int) s2.sa s2.bits,
      ({ Sequences := blk2.Sequences,
         Literals := Slice.append grow blk2.Literals
           ((s.ParserBuffer.Data.arr.drop st'.litIndex).take (Wn + nN - st'.litIndex)) } : Block'),
      hGo _ (fun hc => absurd hc hcnd) (fun hc => absurd hc hcnd) (fun _ => by rw [hcast]; rfl), ?_,
      hPB _ _ (by omega), hcfg2, Or.inl rfl, hseq2, ?_, swf_append grow _ hswf2 _,
      hPt _ _ (Nat.le_refl _) (by show GWF s2.sa; rw [hsa2]; exact hfixL.wsa) (Or.inr ⟨rfl, rfl⟩)⟩
    · rw [hd2]; rfl
    · rw [(append_spec grow blk2.Literals hswf2 _).1, hlit2]
      show _ ++ (s.ParserBuffer.Data.arr.drop st'.litIndex).take (Wn + nN - st'.litIndex) =
        _ ++ (s.ParserBuffer.Data.arr.take (Wn + nN)).drop st'.litIndex
      rw [List.drop_take]

/-- **`Parse` = `gsapParseW`**, in the form of the other parsers (`gen_bup_parse`): panic iff `none` (vacuous under
    `ParseOKG`), otherwise the representation of the result.  `g` is the rank-array dictionary of the model state, which
    `gsapParseW` ignores (`gsapParseW_dict`). -/
theorem gen_gsap_parse (grow : Nat → Nat → Nat) (fuel : Nat) (lcp : Slice → Slice → Int) (hlcp : LcpSpec lcp)
    (SS : Slice → GSlice Int32 → Res (GSlice Int32)) (hSS : SortSpec SS)
    (BI : Gen.bitset → List Int → Res Gen.bitset) (hBI : InsertSpec BI)
    (s : Gen.gsap) (blk : Gen.Block') (flags : Int) (g : GsapD)
    (h : ParseOKG s) (hfl : 0 ≤ flags) (hfuel : 2 * s.ParserBuffer.Data.len + 5 ≤ fuel) :
    match gsapParseW (ofGSAPs s g) (ofGW s) flags.toNat with
    | none => gsap_Parse grow fuel lcp SS BI s blk flags = Res.panic
    | some (gw', n, e, b) =>
      ∃ t blk', gsap_Parse grow fuel lcp SS BI s blk flags = Res.ok (t, blk', (n : Int), parseErr e) ∧
        ofGW t = gw' ∧ t.ParserBuffer = { s.ParserBuffer with W := s.ParserBuffer.W + (n : Int) } ∧
        t.GSAPConfig = s.GSAPConfig ∧ (e = .ok ∨ e = .empty) ∧
        blk'.Sequences = b.seqs.map seqRep ∧ blk'.Literals.data = b.lits ∧ SWF blk'.Literals ∧ ParseOKG t := by
  obtain ⟨gw', n, e, b, h1, h2⟩ := gen_gsap_parse_ex grow fuel lcp hlcp SS hSS BI hBI s blk flags g h hfl hfuel
  rw [h1]
  exact h2

/-- **Go text → list-level model.**  For a Go state whose abstraction — with ANY rank array `g` standing for the same
    set as the Go bitset (`GSim`) — is reachable through the API, the translated `Parse` does not panic and returns the
    representation of the LIST-LEVEL model `Parser.parse` (the function on which C01/C02/C03/C12 are proved); the new
    Go state represents the new model state (buffer: only `W` moves; dictionary related by `GSim` again). -/
theorem gen_gsap_parse_model (grow : Nat → Nat → Nat) (fuel : Nat) (lcp : Slice → Slice → Int) (hlcp : LcpSpec lcp)
    (SS : Slice → GSlice Int32 → Res (GSlice Int32)) (hSS : SortSpec SS)
    (BI : Gen.bitset → List Int → Res Gen.bitset) (hBI : InsertSpec BI)
    (s : Gen.gsap) (blk : Gen.Block') (flags : Int) (g : GsapD)
    (h : ParseOKG s) (hfl : 0 ≤ flags) (hfuel : 2 * s.ParserBuffer.Data.len + 5 ≤ fuel)
    (hG : GSim g (ofGW s))
    (raw : Cfg) (s0 : Parser) (h0 : newParser .GSAP raw = some s0) (ops : List POp)
    (hreach : ofGSAPs s g = (runOps (s0, Ghost.init) ops).1) :
    ∃ t blk' g', gsap_Parse grow fuel lcp SS BI s blk flags =
        Res.ok (t, blk', (((ofGSAPs s g).parse flags.toNat).2.1 : Int), parseErr ((ofGSAPs s g).parse flags.toNat).2.2.1) ∧
      ((ofGSAPs s g).parse flags.toNat).1 = ofGSAPs t g' ∧ GSim g' (ofGW t) ∧
      blk'.Sequences = ((ofGSAPs s g).parse flags.toNat).2.2.2.seqs.map seqRep ∧
      blk'.Literals.data = ((ofGSAPs s g).parse flags.toNat).2.2.2.lits ∧ SWF blk'.Literals ∧ ParseOKG t := by
  have hsim := gsapParse_sim_reachable raw s0 h0 ops flags.toNat g (ofGW s)
  rw [← hreach] at hsim
  obtain ⟨g', gw', hd', hpw, hG'⟩ := hsim rfl hG
  obtain ⟨gw2, n, e, b, h1, t, blk', h2, h3, h4, h5, h6, h7, h8, h9, h10⟩ :=
    gen_gsap_parse_ex grow fuel lcp hlcp SS hSS BI hBI s blk flags g h hfl hfuel
  rw [hpw] at h1
  injection h1 with h1
  have e1 : gw' = gw2 := congrArg Prod.fst h1
  have e2 : ((ofGSAPs s g).parse flags.toNat).2 = (n, e, b) := congrArg Prod.snd h1
  have en : ((ofGSAPs s g).parse flags.toNat).2.1 = n := by rw [e2]
  have ee : ((ofGSAPs s g).parse flags.toNat).2.2.1 = e := by rw [e2]
  have eb : ((ofGSAPs s g).parse flags.toNat).2.2.2 = b := by rw [e2]
  subst e1
  refine ⟨t, blk', g', by rw [en, ee]; exact h2, ?_, by rw [h3]; exact hG', by rw [eb]; exact h7, by rw [eb]; exact h8,
    h9, h10⟩
  -- the model state after `parse`
  have hR := reachable_gsapWS raw s0 h0 ops
  rw [← hreach] at hR
  obtain ⟨_, hwle, _, _, hmm1⟩ := hR
  have hfr : ((ofGSAPs s g).parse flags.toNat).1.kind = (ofGSAPs s g).kind ∧
      ((ofGSAPs s g).parse flags.toNat).1.cfg = (ofGSAPs s g).cfg ∧
      ((ofGSAPs s g).parse flags.toNat).1.buf = { (ofGSAPs s g).buf with w := (ofGSAPs s g).buf.w + n } := by
    by_cases hn : (ofGSAPs s g).blockN = 0
    · have := Parser.parse_empty (ofGSAPs s g) flags.toNat hn
      rw [this] at en
      rw [this, ← en]
      exact ⟨rfl, rfl, rfl⟩
    · obtain ⟨s', n', blk0, hp, hok, _⟩ := Parser.parse_greedy_ok (ofGSAPs s g) flags.toNat hwle hn hmm1
        (by unfold Parser.MarginOK Parser.dictInputLen; simp [ofGSAPs]) (by intro o ho; cases ho)
      rw [hp] at en
      rw [hp, ← en]
      exact ⟨hok.kind, hok.cfg, hok.buf⟩
  obtain ⟨hk1, hk2, hbuf⟩ := hfr
  have ext : ∀ (a b : Parser), a.kind = b.kind → a.cfg = b.cfg → a.buf = b.buf → a.dict = b.dict → a = b := by
    intro a b h1 h2 h3 h4
    cases a; cases b
    simp only at h1 h2 h3 h4
    subst h1 h2 h3 h4
    rfl
  apply ext
  · rw [hk1]; rfl
  · rw [hk2]; show ofGSAP s.GSAPConfig = ofGSAP t.GSAPConfig; rw [h5]
  · rw [hbuf]
    show _ = ofPB t.ParserBuffer
    rw [h4]
    unfold ofPB
    have hw0 := h.pb.w
    simp only [ofGSAPs, PBuf.mk.injEq, true_and, and_true]
    refine ⟨rfl, ?_, rfl, rfl, rfl⟩
    show s.ParserBuffer.W.toNat + n = (s.ParserBuffer.W + (n : Int)).toNat
    omega
  · rw [hd']; rfl

end LZ.GenGSAP

#print axioms LZ.GenGSAP.gen_gsap_parse_empty
#print axioms LZ.GenGSAP.parse_prep
#print axioms LZ.GenGSAP.gen_gsap_parse_ex
#print axioms LZ.GenGSAP.gen_gsap_parse
#print axioms LZ.GenGSAP.gen_gsap_parse_model
