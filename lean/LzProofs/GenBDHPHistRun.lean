/-
  LzProofs.GenBDHPHistRun — port of LzProofs/GenDHPHistRun.lean to the backward double hash parser BDHP: histories of
  translated operations (`bdhp.init`, `Parse`; promoted `Write`, `Reset`, `Shrink`), the simulation theorem
  `gen_bdhp_history`, `gen_bdhp_history_states`, and C01/C02/C03 about the translation of the Go text
  (`C01_go_text_bdhp`, `C02_go_text_bdhp`, `C03_go_text_bdhp`).
  `lcs` (bytes.go) is the opaque parameter of the translation of bdhp.go; the theorems hold for every `lcs` with
  `LcsSpec lcs` (it returns the length of the longest common suffix — what `BytesProps.lcsW?_eq` proves of the
  word-level transcription of bytes.go `lcs`).  Fuel `2·BufferSize + 3` (see `gen_bdhp_parse`).
  `GOp`, `GRes`, `GOp.WF`, `GOp.abs`, `resAgree`, `ResultsAgree`, `ghostStep`, `ghostRun` are those of GenHPHistRun.
  No sorry, no axioms of its own.
-/
import LzProofs.GenHPHistRun
import LzProofs.GenBDHPHist

set_option linter.unusedSimpArgs false
set_option linter.unusedVariables false

namespace LZ.GenBDHPHist
open LZ LZ.Gen LZ.GenBuf LZ.GenHash LZ.GenHPParse LZ.GenBHPParse LZ.GenDHPParse LZ.GenBDHPParse LZ.GenProps
open LZ.GenHPHist (BCOK GOp GRes GOp.WF GOp.abs resAgree ResultsAgree ghostStep ghostRun parseErr_ok_iff step_parse_fst
  step_reset_fst bind_ok')

/-- one call, on the translated functions -/
def stepG (grow : Nat → Nat → Nat) (fuel : Nat) (lcs : Slice → Slice → Int) (s : Gen.bdhp) : GOp → Res (Gen.bdhp × GRes)
  | .write p => Res.bind (bdhp_Write grow s p) fun r => Res.ok (r.1, .write r.2.1 r.2.2)
  | .parse blk flags =>
    Res.bind (bdhp_Parse grow fuel lcs s blk flags) fun r => Res.ok (r.1, .parse r.2.1 r.2.2.1 r.2.2.2)
  | .shrink => Res.bind (bdhp_Shrink s) fun r => Res.ok (r.1, .shrink r.2)
  | .reset data => Res.bind (bdhp_Reset s data) fun r => Res.ok (r.1, .reset r.2)

/-- a history of calls; the results in order -/
def runG (grow : Nat → Nat → Nat) (fuel : Nat) (lcs : Slice → Slice → Int) : Gen.bdhp → List GOp → Res (Gen.bdhp × List GRes)
  | s, [] => Res.ok (s, [])
  | s, op :: ops =>
    Res.bind (stepG grow fuel lcs s op) fun r =>
    Res.bind (runG grow fuel lcs r.1 ops) fun q => Res.ok (q.1, r.2 :: q.2)

/-! ## one step -/

theorem stepG_sim {bc : BufCfg} (hbc : BCOK bc) (grow : Nat → Nat → Nat) (fuel : Nat) (lcs : Slice → Slice → Int)
    (hlcs : LcsSpec lcs) (hfuel : 2 * bc.bufferSize + 3 ≤ fuel)
    (t : Gen.bdhp) (g : Ghost) (h : HistOKBD bc t) (op : GOp) (hop : op.WF) :
    ∃ t' r, stepG grow fuel lcs t op = Res.ok (t', r) ∧ HistOKBD bc t' ∧
      ofBDHPs t' = (step (ofBDHPs t, g) op.abs).1 ∧ ghostStep g op r = (step (ofBDHPs t, g) op.abs).2 ∧
      resAgree (ofBDHPs t) op r := by
  cases op with
  | write p =>
    obtain ⟨t', n, e, h1, h2, h3, h4, h5, h6⟩ := hist_write hbc grow t h p hop
    refine ⟨t', .write n e, ?_, h2, h3, ?_, h4, h5⟩
    · simp only [stepG, h1]; rfl
    · simp only [ghostStep, step, GOp.abs, h4, Int.toNat_natCast]
  | parse blk flags =>
    obtain ⟨t', blk', h1, h2, h3, h4, h5, h6⟩ := hist_parse hbc grow fuel lcs hlcs t h blk flags hop (by have := h.len; omega)
    refine ⟨t', .parse blk' _ _, ?_, h2, ?_, ?_, rfl, rfl, h4, h5⟩
    · simp only [stepG, h1]; rfl
    · rw [GOp.abs, step_parse_fst]; exact h3
    · simp only [ghostStep, step, GOp.abs, parseErr_ok_iff _ h6, Int.toNat_natCast, h4]
      split <;> rfl
  | shrink =>
    obtain ⟨t', h1, h2, h3⟩ := hist_shrink hbc t h
    refine ⟨t', .shrink _, ?_, h2, h3, rfl, rfl⟩
    simp only [stepG, h1]; rfl
  | reset data =>
    obtain ⟨t', e, h1, h2, h3, h4⟩ := hist_reset hbc t h data hop
    refine ⟨t', .reset e, ?_, h2, ?_, ?_, h4⟩
    · simp only [stepG, h1]; rfl
    · rw [GOp.abs, step_reset_fst]; exact h3
    · simp only [ghostStep, step, GOp.abs, errOfReset_ok_iff e _ h4]
      split <;> rfl

/-! ## histories -/

/-- **Simulation**, from any Go state satisfying the invariant. -/
theorem runG_sim {bc : BufCfg} (hbc : BCOK bc) (grow : Nat → Nat → Nat) (fuel : Nat) (lcs : Slice → Slice → Int)
    (hlcs : LcsSpec lcs) (hfuel : 2 * bc.bufferSize + 3 ≤ fuel) :
    ∀ (ops : List GOp) (t : Gen.bdhp) (g : Ghost), HistOKBD bc t → (∀ op ∈ ops, op.WF) →
      ∃ t' rs, runG grow fuel lcs t ops = Res.ok (t', rs) ∧ HistOKBD bc t' ∧
        ofBDHPs t' = (runOps (ofBDHPs t, g) (ops.map GOp.abs)).1 ∧
        ghostRun g ops rs = (runOps (ofBDHPs t, g) (ops.map GOp.abs)).2 ∧
        ResultsAgree (ofBDHPs t, g) ops rs := by
  intro ops
  induction ops with
  | nil => intro t g h _; exact ⟨t, [], rfl, h, rfl, rfl, trivial⟩
  | cons op ops ih =>
    intro t g h hwf
    obtain ⟨t1, r, h1, h2, h3, h4, h5⟩ :=
      stepG_sim hbc grow fuel lcs hlcs hfuel t g h op (hwf op (List.mem_cons_self ..))
    obtain ⟨t', rs, k1, k2, k3, k4, k5⟩ := ih t1 (ghostStep g op r) h2 (fun o ho => hwf o (List.mem_cons_of_mem _ ho))
    have hsg : step (ofBDHPs t, g) op.abs = (ofBDHPs t1, ghostStep g op r) := by
      rw [h3, h4]
    refine ⟨t', r :: rs, ?_, k2, ?_, ?_, h5, ?_⟩
    · show Res.bind (stepG grow fuel lcs t op) _ = _
      rw [h1]
      show Res.bind (runG grow fuel lcs t1 ops) _ = _
      rw [k1]; rfl
    · show _ = (runOps (step (ofBDHPs t, g) op.abs) (ops.map GOp.abs)).1
      rw [hsg]; exact k3
    · show ghostRun (ghostStep g op r) ops rs = (runOps (step (ofBDHPs t, g) op.abs) (ops.map GOp.abs)).2
      rw [hsg]; exact k4
    · show ResultsAgree (step (ofBDHPs t, g) op.abs) ops rs
      rw [hsg]; exact k5

/-- the states a history passes through are the final states of its prefixes -/
theorem runG_append (grow : Nat → Nat → Nat) (fuel : Nat) (lcs : Slice → Slice → Int) : ∀ (a b : List GOp) (s : Gen.bdhp),
    runG grow fuel lcs s (a ++ b) =
      Res.bind (runG grow fuel lcs s a) fun r => Res.bind (runG grow fuel lcs r.1 b) fun q => Res.ok (q.1, r.2 ++ q.2) := by
  intro a
  induction a with
  | nil =>
    intro b s
    simp only [List.nil_append, runG, bind_ok', List.nil_append]
    cases runG grow fuel lcs s b with
    | ok v => rfl
    | panic => rfl
    | fuel => rfl
  | cons op a ih =>
    intro b s
    simp only [List.cons_append, runG]
    cases hs : stepG grow fuel lcs s op with
    | ok v =>
      simp only [bind_ok', ih]
      cases runG grow fuel lcs v.1 a with
      | ok w =>
        simp only [bind_ok']
        cases runG grow fuel lcs w.1 b with
        | ok u => rfl
        | panic => rfl
        | fuel => rfl
      | panic => rfl
      | fuel => rfl
    | panic => rfl
    | fuel => rfl

/-- **`gen_bdhp_history`.**  `bdhp.init(cfg)` on `new(bdhp)` returned `nil`; then for every history of
    well-formed calls the translated functions never panic and never run out of fuel, the state reached satisfies
    `ParseOKBD`, abstracts to the state the model reaches from `NewParser` with the abstracted history, and every
    returned value — `n`, the error, the block — is the model's. -/
theorem gen_bdhp_history (cfg : Gen.BDHPConfig) (s0 : Gen.bdhp)
    (hinit : bdhp_init default cfg = Res.ok (s0, Gen.Err.ok))
    (grow : Nat → Nat → Nat) (fuel : Nat) (lcs : Slice → Slice → Int) (hlcs : LcsSpec lcs)
    (hfuel : 2 * s0.doubleHashDictionary.ParserBuffer.BufConfig.BufferSize.toNat + 3 ≤ fuel)
    (ops : List GOp) (hwf : ∀ op ∈ ops, op.WF) :
    ∃ p t rs, newParser .BDHP (ofBDHP cfg) = some p ∧ ofBDHPs s0 = p ∧
      runG grow fuel lcs s0 ops = Res.ok (t, rs) ∧ ParseOKBD t ∧
      ofBDHPs t = (runOps (p, Ghost.init) (ops.map GOp.abs)).1 ∧
      ghostRun Ghost.init ops rs = (runOps (p, Ghost.init) (ops.map GOp.abs)).2 ∧
      ResultsAgree (p, Ghost.init) ops rs := by
  obtain ⟨p, hp, h2, hbc, hH⟩ := hist_init cfg s0 hinit
  have hf : 2 * p.buf.cfg.bufferSize + 3 ≤ fuel := by
    have : p.buf.cfg = ofCfg s0.doubleHashDictionary.ParserBuffer.BufConfig := hH.cfg.symm
    rw [this]; exact hfuel
  obtain ⟨t, rs, k1, k2, k3, k4, k5⟩ := runG_sim hbc grow fuel lcs hlcs hf ops s0 Ghost.init hH hwf
  rw [h2] at k3 k4 k5
  exact ⟨p, t, rs, hp, h2, k1, k2.pok, k3, k4, k5⟩

/-- … and `ParseOKBD` holds in EVERY state the history passes through: after every prefix `ops.take k` the run is
    `Res.ok` with a state satisfying `ParseOKBD`, and the whole run continues from that state (`runG_append`). -/
theorem gen_bdhp_history_states (cfg : Gen.BDHPConfig) (s0 : Gen.bdhp)
    (hinit : bdhp_init default cfg = Res.ok (s0, Gen.Err.ok))
    (grow : Nat → Nat → Nat) (fuel : Nat) (lcs : Slice → Slice → Int) (hlcs : LcsSpec lcs)
    (hfuel : 2 * s0.doubleHashDictionary.ParserBuffer.BufConfig.BufferSize.toNat + 3 ≤ fuel)
    (ops : List GOp) (hwf : ∀ op ∈ ops, op.WF) (k : Nat) :
    ∃ tk rk t rs', runG grow fuel lcs s0 (ops.take k) = Res.ok (tk, rk) ∧ ParseOKBD tk ∧
      runG grow fuel lcs tk (ops.drop k) = Res.ok (t, rs') ∧ runG grow fuel lcs s0 ops = Res.ok (t, rk ++ rs') := by
  obtain ⟨p, hp, h2, hbc, hH⟩ := hist_init cfg s0 hinit
  have hf : 2 * p.buf.cfg.bufferSize + 3 ≤ fuel := by
    have : p.buf.cfg = ofCfg s0.doubleHashDictionary.ParserBuffer.BufConfig := hH.cfg.symm
    rw [this]; exact hfuel
  obtain ⟨tk, rk, k1, k2, -⟩ := runG_sim hbc grow fuel lcs hlcs hf (ops.take k) s0 Ghost.init hH
    (fun o ho => hwf o (List.mem_of_mem_take ho))
  obtain ⟨t, rs', j1, -⟩ := runG_sim hbc grow fuel lcs hlcs hf (ops.drop k) tk Ghost.init k2
    (fun o ho => hwf o (List.mem_of_mem_drop ho))
  refine ⟨tk, rk, t, rs', k1, k2.pok, j1, ?_⟩
  have := runG_append grow fuel lcs (ops.take k) (ops.drop k) s0
  rw [List.take_append_drop, k1, bind_ok'] at this
  simp only at this
  rw [this, j1]; rfl

/-! ## the property theorems about the translation -/

/-- **C01 about the Go text of BDHP.**  `cfg` is any configuration for which the translated `bdhp.init`, called
    on the zero value, returns `nil`.  Run any history of `Write(p)`, `Parse(&blk, flags)`, `Shrink()`, `Reset(data)`
    (slices with `len ≤ cap`, `flags ≥ 0`) on the TRANSLATED functions, with any capacity policy for `append` and any
    `fuel ≥ 2·BufferSize + 3`, any `lcs` with `LcsSpec lcs`.  Then no call panics or runs out of fuel, and the reference decoder, applied to the blocks
    the translated `Parse` returned since the last successful `Reset`, yields exactly the first `consumed` bytes of
    what the translated `Write` / `Reset` accepted since then, `consumed` = the sum of the returned `n`. -/
theorem C01_go_text_bdhp (cfg : Gen.BDHPConfig) (s0 : Gen.bdhp)
    (hinit : bdhp_init default cfg = Res.ok (s0, Gen.Err.ok))
    (grow : Nat → Nat → Nat) (fuel : Nat) (lcs : Slice → Slice → Int) (hlcs : LcsSpec lcs)
    (hfuel : 2 * s0.doubleHashDictionary.ParserBuffer.BufConfig.BufferSize.toNat + 3 ≤ fuel)
    (ops : List GOp) (hwf : ∀ op ∈ ops, op.WF) :
    ∃ t rs, runG grow fuel lcs s0 ops = Res.ok (t, rs) ∧
      decode [] (ghostRun Ghost.init ops rs).log =
        some ((ghostRun Ghost.init ops rs).fed.take (ghostRun Ghost.init ops rs).consumed) := by
  obtain ⟨p, t, rs, hp, -, h1, -, -, h4, -⟩ := gen_bdhp_history cfg s0 hinit grow fuel lcs hlcs hfuel ops hwf
  refine ⟨t, rs, h1, ?_⟩
  rw [h4]
  exact C01_roundtrip .BDHP (ofBDHP cfg) p hp (histHyp_of_ne .BDHP p (by decide)) (ops.map GOp.abs)

/-- **C02 about the Go text of BDHP**: every sequence of every block the translated `Parse` returned has
    `1 ≤ Offset ≤ WindowSize`, `Offset ≤` the stream bytes before its match, `MatchLen ≥ min(3, InputLen1)`, `Aux = 0`,
    and the `LitLen`s of a block do not exceed its literals. -/
theorem C02_go_text_bdhp (cfg : Gen.BDHPConfig) (s0 : Gen.bdhp)
    (hinit : bdhp_init default cfg = Res.ok (s0, Gen.Err.ok))
    (grow : Nat → Nat → Nat) (fuel : Nat) (lcs : Slice → Slice → Int) (hlcs : LcsSpec lcs)
    (hfuel : 2 * s0.doubleHashDictionary.ParserBuffer.BufConfig.BufferSize.toNat + 3 ≤ fuel)
    (ops : List GOp) (hwf : ∀ op ∈ ops, op.WF) :
    ∃ t rs, runG grow fuel lcs s0 ops = Res.ok (t, rs) ∧
      LogAll (fun pos e => ∀ n fl blk, e = .block n fl blk →
        SeqsAll (SeqWF s0.doubleHashDictionary.ParserBuffer.BufConfig.WindowSize.toNat
          (Min.min 3 s0.BDHPConfig.InputLen1.toNat)) pos blk.seqs ∧
        litSum blk.seqs ≤ blk.lits.length) 0 (ghostRun Ghost.init ops rs).log := by
  obtain ⟨p, t, rs, hp, h0, h1, -, -, h4, -⟩ := gen_bdhp_history cfg s0 hinit grow fuel lcs hlcs hfuel ops hwf
  subst h0
  refine ⟨t, rs, h1, ?_⟩
  rw [h4]
  exact C02_wellformed .BDHP (ofBDHP cfg) _ hp (histHyp_of_ne .BDHP _ (by decide)) (ops.map GOp.abs)

/-- **C03 about the Go text of BDHP**: the blocks tile the consumed stream — each has `1 ≤ n ≤ BlockSize`, represents
    exactly `n` bytes (`Block.Len`), expands the stream up to its start to the stream up to its end; the `n` add up
    to `consumed`, which never exceeds what was fed. -/
theorem C03_go_text_bdhp (cfg : Gen.BDHPConfig) (s0 : Gen.bdhp)
    (hinit : bdhp_init default cfg = Res.ok (s0, Gen.Err.ok))
    (grow : Nat → Nat → Nat) (fuel : Nat) (lcs : Slice → Slice → Int) (hlcs : LcsSpec lcs)
    (hfuel : 2 * s0.doubleHashDictionary.ParserBuffer.BufConfig.BufferSize.toNat + 3 ≤ fuel)
    (ops : List GOp) (hwf : ∀ op ∈ ops, op.WF) :
    ∃ t rs, runG grow fuel lcs s0 ops = Res.ok (t, rs) ∧
      let g := ghostRun Ghost.init ops rs
      LogAll (fun pos e => 1 ≤ e.n ∧ e.n ≤ s0.doubleHashDictionary.ParserBuffer.BufConfig.BlockSize.toNat ∧
        pos + e.n ≤ g.fed.length ∧
        ∀ n fl blk, e = .block n fl blk →
          blk.len = n ∧ expand (g.fed.take pos) blk = some (g.fed.take (pos + n)) ∧
          (fl % 2 = 1 → blk.seqs ≠ [] → blk.lits.length = litSum blk.seqs ∧ n = seqsSpan blk.seqs)) 0 g.log ∧
      logSpan g.log = g.consumed ∧ g.consumed ≤ g.fed.length := by
  obtain ⟨p, t, rs, hp, h0, h1, -, -, h4, -⟩ := gen_bdhp_history cfg s0 hinit grow fuel lcs hlcs hfuel ops hwf
  subst h0
  refine ⟨t, rs, h1, ?_⟩
  intro g
  have hg : g = (runOps (ofBDHPs s0, Ghost.init) (ops.map GOp.abs)).2 := h4
  have := C03_contiguous .BDHP (ofBDHP cfg) _ hp (histHyp_of_ne .BDHP _ (by decide)) (ops.map GOp.abs)
  obtain ⟨a1, a2, a3, a4⟩ := this
  rw [hg]
  exact ⟨a1, a2, a4⟩

end LZ.GenBDHPHist

#print axioms LZ.GenBDHPHist.stepG_sim
#print axioms LZ.GenBDHPHist.runG_sim
#print axioms LZ.GenBDHPHist.runG_append
#print axioms LZ.GenBDHPHist.gen_bdhp_history
#print axioms LZ.GenBDHPHist.gen_bdhp_history_states
#print axioms LZ.GenBDHPHist.C01_go_text_bdhp
#print axioms LZ.GenBDHPHist.C02_go_text_bdhp
#print axioms LZ.GenBDHPHist.C03_go_text_bdhp
