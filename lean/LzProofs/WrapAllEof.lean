/-
  LzProofs.WrapAllEof — chunking independence of `WrappedParser.Parse` for readers that return data
  TOGETHER WITH io.EOF.

  `FillR` (PBufLemmas.lean), the reader class of `WSim` / `C08_wrap_chunking` / `C08_chunking_independent`,
  demands error code 0 on EVERY response, so a response `(mx, 1)` = "data and io.EOF" is outside it.
  In the model a response carries a fixed code: `(mx, 1)` reports io.EOF whether or not it exhausts the
  payload (that depends on the slice `ReadFrom` offers, i.e. on the buffer).  A script is therefore
  "truthful" for every buffer only if its io.EOF response can never leave payload behind.  `TruthR`
  is that class: error-free responses, then possibly one response `(m, 1)` placed where at most one
  payload byte can be left (`|payload| ≤ |error-free responses before it| + 1`), then only `nil`/io.EOF
  codes.  For `TruthR` readers `ReadFrom` stops only when the buffer is full or the payload exhausted,
  and the chunking theorems go through; the only observable difference to `FillR` readers is the error
  of a `ReadFrom` that did read data (`ErrFullBuffer` vs io.EOF when the last bytes fill the buffer),
  which `WrappedParser.Parse` ignores.
-/
import LzProofs.WrapAllHist
namespace LZ
open PBuf

/-! ## the reader class -/

/-- error-free responses `P`, then `(m, 1)` (data with io.EOF) where at most one byte can be left,
    then responses with codes `nil`/io.EOF only -/
def EofScript (resps : List (Nat × Nat)) (plen : Nat) : Prop :=
  ∃ P m rest, resps = P ++ (m, 1) :: rest ∧ (∀ x ∈ P, x.2 = 0 ∧ 1 ≤ x.1) ∧ 1 ≤ m ∧
    plen ≤ P.length + 1 ∧ ∀ x ∈ rest, x.2 ≤ 1

/-- readers that never fail and report io.EOF only when the payload is exhausted, for every buffer:
    `FillR`, or an `EofScript`, or a reader that is done -/
def TruthR (r : Reader) : Prop :=
  FillR r ∨ EofScript r.resps r.payload.length ∨ ReaderDone r

theorem TruthR.of_fillR {r : Reader} (h : FillR r) : TruthR r := Or.inl h

/-- `ReadFrom`'s loop on an `EofScript`: stops with the buffer full or the payload exhausted -/
theorem readLoop_eofScript (P : List (Nat × Nat)) : ∀ (b : PBuf) (payload : List Byte) (m : Nat)
    (rest : List (Nat × Nat)), b.data.length ≤ b.cfg.bufferSize →
    (∀ x ∈ P, x.2 = 0 ∧ 1 ≤ x.1) → 1 ≤ m → payload.length ≤ P.length + 1 → (∀ x ∈ rest, x.2 ≤ 1) →
    ((readLoop b ⟨payload, P ++ (m, 1) :: rest⟩).2.2 = .full ∨
      (readLoop b ⟨payload, P ++ (m, 1) :: rest⟩).2.1.payload = []) ∧
    ((readLoop b ⟨payload, P ++ (m, 1) :: rest⟩).2.2 = .full ∨
      (readLoop b ⟨payload, P ++ (m, 1) :: rest⟩).2.2 = .eof) ∧
    TruthR (readLoop b ⟨payload, P ++ (m, 1) :: rest⟩).2.1 := by
  induction P with
  | nil =>
    intro b payload m rest hlen _ hm hpl hrest
    by_cases hfull : b.cfg.bufferSize ≤ b.data.length
    · rw [readLoop_full b _ hfull]
      exact ⟨Or.inl rfl, Or.inl rfl, Or.inr (Or.inl ⟨[], m, rest, rfl, by simp, hm, hpl, hrest⟩)⟩
    · obtain ⟨c, hc, hstep⟩ := readLoop_step b ⟨payload, [] ++ (m, 1) :: rest⟩ (by omega)
      have hcs := chunkSize_pos
      have hn : min3 m (min (c - Facts.margin) b.cfg.bufferSize - b.data.length) payload.length
          = payload.length := by
        simp only [List.length_nil] at hpl
        unfold min3; omega
      rw [hstep]
      simp only [List.nil_append, hn, List.drop_length]
      rw [if_pos (by omega)]
      exact ⟨Or.inr rfl, Or.inr rfl, Or.inr (Or.inr ⟨rfl, hrest⟩)⟩
  | cons x P' ih =>
    intro b payload m rest hlen hP hm hpl hrest
    obtain ⟨mx, ec⟩ := x
    obtain ⟨hec, hmx⟩ : ec = 0 ∧ 1 ≤ mx := hP (mx, ec) List.mem_cons_self
    subst hec
    have hP' : ∀ x ∈ P', x.2 = 0 ∧ 1 ≤ x.1 := fun x hx => hP x (List.mem_cons_of_mem _ hx)
    by_cases hfull : b.cfg.bufferSize ≤ b.data.length
    · rw [readLoop_full b _ hfull]
      exact ⟨Or.inl rfl, Or.inl rfl,
        Or.inr (Or.inl ⟨(mx, 0) :: P', m, rest, rfl, hP, hm, hpl, hrest⟩)⟩
    · obtain ⟨c, hc, hstep⟩ := readLoop_step b ⟨payload, ((mx, 0) :: P') ++ (m, 1) :: rest⟩ (by omega)
      have hcs := chunkSize_pos
      rw [hstep]
      simp only [List.cons_append]
      -- code 0 always continues; with the payload exhausted the answer is `(0, nil)`
      have hn1 : payload.length = 0 ∨ 1 ≤ min3 mx
          (min (c - Facts.margin) b.cfg.bufferSize - b.data.length) payload.length := by
        unfold min3; omega
      have hn2 : b.data.length + min3 mx
          (min (c - Facts.margin) b.cfg.bufferSize - b.data.length) payload.length
          ≤ b.cfg.bufferSize := by unfold min3; omega
      generalize min3 mx (min (c - Facts.margin) b.cfg.bufferSize - b.data.length)
        payload.length = n at hn1 hn2
      simp only [ne_eq, not_true_eq_false, if_false]
      apply ih _ _ m rest _ hP' hm _ hrest
      · simp only [List.length_append, List.length_take]; omega
      · simp only [List.length_drop, List.length_cons] at hpl ⊢; omega

/-- **`ReadFrom` with a truthful reader** stops only because the buffer is full or the payload
    exhausted, only with `ErrFullBuffer` or io.EOF, and the reader stays truthful -/
theorem truthR_readFrom {b : PBuf} (hlen : b.data.length ≤ b.cfg.bufferSize) {r : Reader}
    (ht : TruthR r) {b' : PBuf} {r' : Reader} {n : Nat} {e : Err}
    (h : b.readFrom r = (b', r', n, e)) :
    (e = .full ∨ r'.payload = []) ∧ (e = .full ∨ e = .eof) ∧ TruthR r' := by
  rcases ht with hf | ⟨P, m, rest, hr, hP, hm, hpl, hrest⟩ | ⟨hd1, hd2⟩
  · obtain ⟨s1, s2, -⟩ := readFrom_stop_of_fillScript hlen (hf.fillScript _) h
    exact ⟨s1, s2, Or.inl (fillR_readFrom hlen hf h)⟩
  · obtain ⟨payload, resps⟩ := r
    simp only [] at hr hpl
    subst hr
    have key := readLoop_eofScript P b payload m rest hlen hP hm hpl hrest
    unfold readFrom at h
    simp only [Prod.mk.injEq] at h
    obtain ⟨h1, h2, -, h4⟩ := h
    rw [h2, h4] at key
    exact key
  · obtain ⟨c, pre, hb, hr', hn1, hn2, hm, hpre, hprelen, hcase⟩ := readFrom_master hlen h
    have hpl : r'.payload = [] := by rw [hr', hd1]; simp
    have hsub : ∀ x ∈ r'.resps, x ∈ r.resps := by
      intro x hx
      rcases hcase with ⟨_, g, _⟩ | ⟨_, _, g, _⟩ | ⟨mx, ec, g, _⟩
      · rw [g]; exact List.mem_append_right _ hx
      · rw [g] at hx; cases hx
      · rw [g]; simp [hx]
    refine ⟨Or.inr hpl, ?_, Or.inr (Or.inr ⟨hpl, fun x hx => hd2 x (hsub x hx)⟩)⟩
    rcases hcase with ⟨g, _⟩ | ⟨g, _⟩ | ⟨mx, ec, g1, hec, g2⟩
    · exact Or.inl g
    · exact Or.inr g
    · right
      have hmem : (mx, ec) ∈ r.resps := by rw [g1]; simp
      have := hd2 _ hmem
      simp only [] at this
      rw [g2]
      exact errOfCode_le_one ec hec this

/-- two `ReadFrom` calls on buffers that differ at most in `cap`, with truthful readers carrying
    the same payload: same view, same rest, same count; both errors are `ErrFullBuffer` or io.EOF -/
theorem sameView_readFrom_truth {a b : PBuf} (hv : SameView a b)
    (ha : a.data.length ≤ a.cfg.bufferSize) {ra rb : Reader} (hp : ra.payload = rb.payload)
    (hta : TruthR ra) (htb : TruthR rb) :
    SameView (a.readFrom ra).1 (b.readFrom rb).1 ∧
    (a.readFrom ra).2.1.payload = (b.readFrom rb).2.1.payload ∧
    (a.readFrom ra).2.2.1 = (b.readFrom rb).2.2.1 ∧
    ((a.readFrom ra).2.2.2 = .full ∨ (a.readFrom ra).2.2.2 = .eof) ∧
    ((b.readFrom rb).2.2.2 = .full ∨ (b.readFrom rb).2.2.2 = .eof) ∧
    TruthR (a.readFrom ra).2.1 ∧ TruthR (b.readFrom rb).2.1 := by
  obtain ⟨h1, h2, h3, h4⟩ := hv
  have hb : b.data.length ≤ b.cfg.bufferSize := by rw [← h1, ← h4]; exact ha
  have ea : a.readFrom ra = ((a.readFrom ra).1, (a.readFrom ra).2.1, (a.readFrom ra).2.2.1,
    (a.readFrom ra).2.2.2) := rfl
  have eb : b.readFrom rb = ((b.readFrom rb).1, (b.readFrom rb).2.1, (b.readFrom rb).2.2.1,
    (b.readFrom rb).2.2.2) := rfl
  obtain ⟨sa1, sa2, sa3⟩ := truthR_readFrom ha hta ea
  obtain ⟨sb1, sb2, sb3⟩ := truthR_readFrom hb htb eb
  have na := readFrom_fill_of_outcome ha ea sa1
  have nb := readFrom_fill_of_outcome hb eb sb1
  obtain ⟨ca, _, hba, hra, -⟩ := readFrom_master ha ea
  obtain ⟨cb, _, hbb, hrb, -⟩ := readFrom_master hb eb
  have hn : (a.readFrom ra).2.2.1 = (b.readFrom rb).2.2.1 := by
    rw [na, nb, hp, h1, h4]
  refine ⟨?_, ?_, hn, sa2, sb2, sa3, sb3⟩
  · rw [hba, hbb]
    simp only [SameView, h1, h2, h3, h4, hn, hp, and_self]
  · rw [hra, hrb, hn, hp]

/-! ## chunking independence of `WrappedParser.Parse` for truthful readers -/

theorem Parser.readFrom_simT {a b : Parser} (h : Parser.Sim a b) (ha : BufOK a.buf)
    {ra rb : Reader} (hp : ra.payload = rb.payload) (hta : TruthR ra) (htb : TruthR rb) :
    Parser.Sim (a.readFrom ra).1 (b.readFrom rb).1 ∧
    (a.readFrom ra).2.1.payload = (b.readFrom rb).2.1.payload ∧
    (a.readFrom ra).2.2.1 = (b.readFrom rb).2.2.1 ∧
    ((a.readFrom ra).2.2.2 = .full ∨ (a.readFrom ra).2.2.2 = .eof) ∧
    ((b.readFrom rb).2.2.2 = .full ∨ (b.readFrom rb).2.2.2 = .eof) ∧
    TruthR (a.readFrom ra).2.1 ∧ TruthR (b.readFrom rb).2.1 := by
  obtain ⟨h1, h2, h3, h4⟩ := h
  obtain ⟨g1, g2, g3, g4, g5, g6, g7⟩ := sameView_readFrom_truth h4 ha.2.1 hp hta htb
  exact ⟨⟨h1, h2, h3, g1⟩, g2, g3, g4, g5, g6, g7⟩

/-- two wrapped parsers that differ at most in buffer capacity and in how their TRUTHFUL readers
    (data with io.EOF allowed, `TruthR`) chunk the same remaining payload -/
structure WSimT (wa wb : Wrapped) : Prop where
  sim : Parser.Sim wa.s wb.s
  payload : wa.r.payload = wb.r.payload
  truthA : TruthR wa.r
  truthB : TruthR wb.r

theorem WSim.toT {wa wb : Wrapped} (h : WSim wa wb) : WSimT wa wb :=
  ⟨h.sim, h.payload, Or.inl h.fillA, Or.inl h.fillB⟩

theorem Wrapped.parse_chunkingT_aux (flags : Nat) :
    ∀ (m : Nat) (wa wb : Wrapped) (fa fb : List Byte), wa.r.payload.length = m →
      WInv I_all wa fa → WInv I_all wb fb → WSimT wa wb →
      (wa.parse flags).2 = (wb.parse flags).2 ∧ WSimT (wa.parse flags).1 (wb.parse flags).1 := by
  intro m
  induction m using Nat.strongRecOn with
  | ind m ih =>
    intro wa wb fa fb hm ha hb hs
    have hba : BufOK wa.s.buf := bufOK_of_pinv ha.view
    have hbb : BufOK wb.s.buf := bufOK_of_pinv hb.view
    obtain ⟨psim, peq⟩ := Parser.parse_sim hs.sim flags hba hbb
    obtain ⟨-, -, -, v0, v1, v2, -⟩ := hs.sim
    by_cases hlt : wa.s.buf.w < wa.s.buf.data.length
    · -- both deliver the same block
      have hltb : wb.s.buf.w < wb.s.buf.data.length := by rw [← v0, ← v1]; exact hlt
      obtain ⟨a1, -, -⟩ := Wrapped.parse_block wa flags fa ha hlt
      obtain ⟨b1, -, -⟩ := Wrapped.parse_block wb flags fb hb hltb
      rw [a1, b1]
      exact ⟨peq, ⟨psim, hs.payload, hs.truthA, hs.truthB⟩⟩
    · -- both refill
      have hw : wa.s.buf.w = wa.s.buf.data.length := by have := ha.view.w_le; omega
      have hwb : wb.s.buf.w = wb.s.buf.data.length := by rw [← v0, ← v1]; exact hw
      obtain ⟨a1, a2, -, -, -, a6, a7⟩ := Wrapped.parse_refill_all wa flags fa ha hw
      obtain ⟨b1, b2, -, -, -, b6, b7⟩ := Wrapped.parse_refill_all wb flags fb hb hwb
      obtain ⟨-, ak, -⟩ := Wrapped.parse_refill parseSpec_all wa flags fa ha hw
      have hba2 : BufOK wa.s.shrink.1.buf := by
        rw [Parser.shrink_buf]; exact bufOK_of_pinv (pinv_shrink ha.view)
      obtain ⟨r1, r2, r3, r4, r5, r6, r7⟩ := Parser.readFrom_simT (Parser.shrink_sim hs.sim) hba2
        hs.payload hs.truthA hs.truthB
      have hsim3 : WSimT ⟨(wa.s.shrink.1.readFrom wa.r).2.1, (wa.s.shrink.1.readFrom wa.r).1⟩
          ⟨(wb.s.shrink.1.readFrom wb.r).2.1, (wb.s.shrink.1.readFrom wb.r).1⟩ :=
        ⟨r1, r2, r6, r7⟩
      by_cases hk0 : (wa.s.shrink.1.readFrom wa.r).2.2.1 = 0
      · have hk0b : (wb.s.shrink.1.readFrom wb.r).2.2.1 = 0 := by rw [← r3]; exact hk0
        have na := (C08_wrap_no_panic_all wa flags fa ha).2.1
        have nb := (C08_wrap_no_panic_all wb flags fb hb).2.1
        rw [a6 hk0] at na ⊢
        rw [b6 hk0b] at nb ⊢
        simp only [] at na nb
        have ea : (wa.s.shrink.1.readFrom wa.r).2.2.2 = .eof := by
          rcases r4 with h | h
          · exact absurd h na
          · exact h
        have eb : (wb.s.shrink.1.readFrom wb.r).2.2.2 = .eof := by
          rcases r5 with h | h
          · exact absurd h nb
          · exact h
        exact ⟨by simp only []; rw [ea, eb], hsim3⟩
      · have hk0b : (wb.s.shrink.1.readFrom wb.r).2.2.1 ≠ 0 := by rw [← r3]; exact hk0
        rw [(a7 hk0).2, (b7 hk0b).2]
        have hpl : (wa.s.shrink.1.readFrom wa.r).2.1.payload.length < m := by
          rw [a2, List.length_drop, ← hm]; omega
        exact ih _ hpl _ _ _ _ rfl a1 b1 hsim3

/-- **C08, chunking independence of one call, readers with data+EOF allowed** (all kinds) -/
theorem C08_wrap_chunking_eof (wa wb : Wrapped) (flags : Nat) (fa fb : List Byte)
    (ha : WInv I_all wa fa) (hb : WInv I_all wb fb) (hs : WSimT wa wb) :
    (wa.parse flags).2 = (wb.parse flags).2 ∧ WSimT (wa.parse flags).1 (wb.parse flags).1 :=
  Wrapped.parse_chunkingT_aux flags _ wa wb fa fb rfl ha hb hs

/-- the same call; for `Reset` the two reader scripts are truthful (`TruthR`: error free, io.EOF
    possibly together with the last data) and carry the same payload -/
def WOp.SimT : WOp → WOp → Prop
  | .parse f, .parse f' => f = f'
  | .reset r, .reset r' => r.payload = r'.payload ∧ TruthR r ∧ TruthR r'
  | _, _ => False

def OpsSimT : List WOp → List WOp → Prop
  | [], [] => True
  | a :: as, b :: bs => a.SimT b ∧ OpsSimT as bs
  | _, _ => False

theorem Wrapped.stepW_chunkingT {wa wb : Wrapped} {fa fb : List Byte} (ha : WInv I_all wa fa)
    (hb : WInv I_all wb fb) (hs : WSimT wa wb) {a b : WOp} (hab : a.SimT b) :
    (wa.stepW a).2 = (wb.stepW b).2 ∧ WSimT (wa.stepW a).1 (wb.stepW b).1 := by
  cases a with
  | parse f =>
    cases b with
    | parse f' =>
      have : f = f' := hab
      subst this
      exact C08_wrap_chunking_eof wa wb f fa fb ha hb hs
    | reset r' => exact absurd hab (by simp [WOp.SimT])
  | reset r =>
    cases b with
    | parse f' => exact absurd hab (by simp [WOp.SimT])
    | reset r' =>
      obtain ⟨h1, h2, h3⟩ : r.payload = r'.payload ∧ TruthR r ∧ TruthR r' := hab
      show ((wa.reset r).1, 0, (wa.reset r).2, (⟨[], []⟩ : Block)).2 =
          ((wb.reset r').1, 0, (wb.reset r').2, (⟨[], []⟩ : Block)).2 ∧
        WSimT (wa.reset r).1 (wb.reset r').1
      rw [Wrapped.reset_eq, Wrapped.reset_eq]
      exact ⟨rfl, Parser.reset_sim hs.sim, h1, h2, h3⟩

theorem Wrapped.runW_chunkingT : ∀ (opsA opsB : List WOp) {wa wb : Wrapped} {fa fb : List Byte},
    WInv I_all wa fa → WInv I_all wb fb → WSimT wa wb → OpsSimT opsA opsB →
    (wa.runW opsA).2 = (wb.runW opsB).2 ∧ WSimT (wa.runW opsA).1 (wb.runW opsB).1 := by
  intro opsA
  induction opsA with
  | nil =>
    intro opsB wa wb fa fb ha hb hs ho
    cases opsB with
    | nil => exact ⟨rfl, hs⟩
    | cons b bs => exact absurd ho (by simp [OpsSimT])
  | cons a as ih =>
    intro opsB wa wb fa fb ha hb hs ho
    cases opsB with
    | nil => exact absurd ho (by simp [OpsSimT])
    | cons b bs =>
      obtain ⟨hab, hrest⟩ : a.SimT b ∧ OpsSimT as bs := ho
      obtain ⟨e1, s1⟩ := Wrapped.stepW_chunkingT ha hb hs hab
      obtain ⟨fa', ha'⟩ := ha.stepW a
      obtain ⟨fb', hb'⟩ := hb.stepW b
      obtain ⟨e2, s2⟩ := ih bs ha' hb' s1 hrest
      simp only [Wrapped.runW]
      exact ⟨by rw [e1, e2], s2⟩

/-- **C08, chunking independence over histories, data+EOF allowed (all seven kinds).**  As
    `C08_chunking_independent`, but the readers (the initial ones and those installed by `Reset`)
    only have to be truthful (`TruthR`): error free, and io.EOF may come together with the last
    data (an `EofScript`) instead of on a separate, empty read. -/
theorem C08_chunking_independent_eof (k : Kind) (raw : Cfg) (s0 : Parser)
    (h0 : newParser k raw = some s0) (ra rb : Reader) (hp : ra.payload = rb.payload)
    (hta : TruthR ra) (htb : TruthR rb) (opsA opsB : List WOp) (ho : OpsSimT opsA opsB) :
    (Wrapped.runW ⟨ra, s0⟩ opsA).2 = (Wrapped.runW ⟨rb, s0⟩ opsB).2 :=
  (Wrapped.runW_chunkingT opsA opsB (newParser_winv k raw s0 h0 ra) (newParser_winv k raw s0 h0 rb)
    ⟨⟨rfl, rfl, rfl, rfl, rfl, rfl, rfl⟩, hp, hta, htb⟩ ho).1

/-! ## completeness for truthful readers -/

theorem TruthR.done {r : Reader} (h : TruthR r) (hp : r.payload = []) : ReaderDone r := by
  refine ⟨hp, ?_⟩
  rcases h with hf | ⟨P, m, rest, hr, hP, -, -, hrest⟩ | hd
  · intro x hx; have := (hf.1 x hx).1; omega
  · intro x hx
    rw [hr] at hx
    simp only [List.mem_append, List.mem_cons] at hx
    rcases hx with hx | hx | hx
    · have := (hP x hx).1; omega
    · subst hx; exact Nat.le_refl _
    · exact hrest x hx
  · exact hd.2

/-- a truthful reader stays truthful, and with it the only error of a call is io.EOF, returned
    when the payload is exhausted -/
theorem Wrapped.parse_truth (flags : Nat) : ∀ (wp : Wrapped) (fed : List Byte), WInv I_all wp fed →
    TruthR wp.r → TruthR (wp.parse flags).1.r ∧
      ((wp.parse flags).2.2.1 ≠ .ok →
        (wp.parse flags).2.2.1 = .eof ∧ (wp.parse flags).1.r.payload = []) := by
  have hrf : ∀ (wp : Wrapped) (fed : List Byte), WInv I_all wp fed → TruthR wp.r →
      ((wp.s.shrink.1.readFrom wp.r).2.2.2 = .full ∨ (wp.s.shrink.1.readFrom wp.r).2.1.payload = []) ∧
      ((wp.s.shrink.1.readFrom wp.r).2.2.2 = .full ∨ (wp.s.shrink.1.readFrom wp.r).2.2.2 = .eof) ∧
      TruthR (wp.s.shrink.1.readFrom wp.r).2.1 := by
    intro wp fed hinv ht
    obtain ⟨hrb, hrr⟩ := Parser.readFrom_buf wp.s.shrink.1 wp.r
    rw [Parser.shrink_buf] at hrb hrr
    have hr : wp.s.buf.shrink.1.readFrom wp.r =
        ((wp.s.shrink.1.readFrom wp.r).1.buf, (wp.s.shrink.1.readFrom wp.r).2.1,
          (wp.s.shrink.1.readFrom wp.r).2.2.1, (wp.s.shrink.1.readFrom wp.r).2.2.2) := by
      rw [hrb, hrr]
    exact truthR_readFrom (pinv_shrink hinv.view).len_le ht hr
  apply Wrapped.refill_induct
  · intro wp fed hinv hlt ht
    obtain ⟨h1, h2, -⟩ := Wrapped.parse_block wp flags fed hinv hlt
    rw [h1]
    exact ⟨ht, fun h => absurd h2 h⟩
  · intro wp fed hinv hw hk ht
    obtain ⟨-, -, -, -, -, a6, -⟩ := Wrapped.parse_refill_all wp flags fed hinv hw
    obtain ⟨t1, t2, t3⟩ := hrf wp fed hinv ht
    have na := (C08_wrap_no_panic_all wp flags fed hinv).2.1
    rw [a6 hk] at na ⊢
    simp only [] at na
    refine ⟨t3, fun _ => ?_⟩
    rcases t2 with t2 | t2
    · exact absurd t2 na
    · rcases t1 with t1 | t1
      · exact absurd t1 na
      · exact ⟨t2, t1⟩
  · intro wp fed hinv hw hk ih ht
    obtain ⟨-, -, -, -, -, -, a7⟩ := Wrapped.parse_refill_all wp flags fed hinv hw
    rw [(a7 hk).2]
    exact ih (hrf wp fed hinv ht).2.2

theorem Wrapped.runW_truth (ops : List WOp) : ∀ {wp : Wrapped} {fed : List Byte},
    WInv I_all wp fed → TruthR wp.r → (∀ r, WOp.reset r ∈ ops → TruthR r) →
    TruthR (wp.runW ops).1.r := by
  induction ops with
  | nil => intro wp fed _ hf _; exact hf
  | cons op ops ih =>
    intro wp fed hinv hf hr
    obtain ⟨fed1, h1⟩ := hinv.stepW op
    refine ih h1 ?_ (fun r hm => hr r (List.mem_cons_of_mem _ hm))
    cases op with
    | parse f => exact (Wrapped.parse_truth f wp fed hinv hf).1
    | reset r =>
      show TruthR (wp.reset r).1.r
      rw [Wrapped.reset_eq]
      exact hr r List.mem_cons_self

theorem HInv.completeT {k : Kind} {c : Cfg} {bc : BufCfg} {src : List Byte} {wg : Wrapped × Ghost}
    (hS : Static k c bc) (h : HInv k c bc src wg) (hf : TruthR wg.1.r) (f : Nat) :
    ((wg.1.parse f).2.2.1 = .ok ∧ 1 ≤ (wg.1.parse f).2.1) ∨
    ((wg.1.parse f).2.1 = 0 ∧ (wg.1.parse f).2.2.1 = .eof ∧
      decode [] wg.2.log = some src ∧ Drained (wg.1.parse f).1 ∧
      (Wrapped.stepG wg (.parse f)).2.log = wg.2.log) := by
  obtain ⟨q, -, -, -, -, hc⟩ := C08_wrap_step_all wg.1 f wg.2.fed h.winv
  rcases hc with hc | ⟨c1, -, c3⟩
  · exact Or.inl hc
  · right
    have hne : (wg.1.parse f).2.2.1 ≠ .ok := c3.ne.1
    obtain ⟨hf', hfe⟩ := Wrapped.parse_truth f wg.1 wg.2.fed h.winv hf
    obtain ⟨e1, e2⟩ := hfe hne
    obtain ⟨-, hw, -⟩ := C08_wrap_error_all wg.1 f wg.2.fed h.winv hne
    have h' := h.parse hS f
    have hlog : (Wrapped.stepG wg (.parse f)).2.log = wg.2.log := by
      simp only [Wrapped.stepG, hne, if_false]
    obtain ⟨f1, -, -, f4, -, -⟩ := h'.facts
    have hsrc := h'.src
    have hfl := h'.winv.view.fed_length
    have e3 : (Wrapped.stepG wg (.parse f)).1 = (wg.1.parse f).1 := rfl
    rw [e3] at f1 hsrc hfl
    rw [e2, List.append_nil] at hsrc
    have hcons : (Wrapped.stepG wg (.parse f)).2.consumed =
        (Wrapped.stepG wg (.parse f)).2.fed.length := by
      rw [f1, hfl]; simp only [Wrapped.pos]; omega
    rw [hlog, hcons, List.take_length, hsrc] at f4
    exact ⟨c1, e1, f4, ⟨hf'.done e2, hw⟩, hlog⟩

/-- **C08, completeness, data+EOF allowed (all seven kinds)**: `C08_complete` with `TruthR`
    readers (error free; io.EOF may come together with the last data). -/
theorem C08_complete_eof (k : Kind) (raw : Cfg) (s0 : Parser) (h0 : newParser k raw = some s0)
    (r0 : Reader) (hf0 : TruthR r0) (ops : List WOp) (hfr : ∀ r, WOp.reset r ∈ ops → TruthR r)
    (f : Nat) :
    let wg := Wrapped.runG (⟨r0, s0⟩, Ghost.init) ops
    let src := curSrc r0.payload ops
    let res := (Wrapped.runW ⟨r0, s0⟩ ops).1.parse f
    decode [] wg.2.log = some (src.take wg.2.consumed) ∧
    ((res.2.2.1 = .ok ∧ 1 ≤ res.2.1) ∨
     (res.2.1 = 0 ∧ res.2.2.1 = .eof ∧ decode [] wg.2.log = some src ∧
      ∀ fs : List Nat, ∀ o ∈ (res.1.runW (fs.map WOp.parse)).2, o.1 = 0 ∧ o.2.1 = .eof)) := by
  intro wg src res
  obtain ⟨hS, hI⟩ := HInv.init k raw s0 h0 r0
  have h : HInv k s0.cfg s0.buf.cfg src wg := HInv.runG hS ops hI
  have hfst : wg.1 = (Wrapped.runW ⟨r0, s0⟩ ops).1 := Wrapped.runG_fst ops _
  have hf : TruthR wg.1.r := by
    rw [hfst]
    exact Wrapped.runW_truth ops (newParser_winv k raw s0 h0 r0) hf0 hfr
  refine ⟨h.facts.2.2.2.2.1, ?_⟩
  have hres : res = wg.1.parse f := by rw [hfst]
  rw [hres]
  rcases h.completeT hS hf f with hc | ⟨c1, c2, c3, c4, -⟩
  · exact Or.inl hc
  · refine Or.inr ⟨c1, c2, c3, fun fs => ?_⟩
    exact Wrapped.drained_forever fs (h.parse hS f).winv c4

/-! ## io.EOF is reached -/

theorem Wrapped.runW_length (ops : List WOp) : ∀ (wp : Wrapped), (wp.runW ops).2.length = ops.length := by
  induction ops with
  | nil => intro wp; rfl
  | cons op ops ih => intro wp; simp only [Wrapped.runW, List.length_cons, ih]

theorem length_le_sum_of_pos (l : List WOut) (h : ∀ o ∈ l, 1 ≤ o.1) :
    l.length ≤ (l.map (·.1)).sum := by
  induction l with
  | nil => simp
  | cons a l ih =>
    have h1 := h a List.mem_cons_self
    have h2 := ih (fun o ho => h o (List.mem_cons_of_mem _ ho))
    simp only [List.length_cons, List.map_cons, List.sum_cons]
    omega

/-- every call of a history of `Parse` calls on a truthful reader returns a block or `(0, io.EOF)` -/
theorem Wrapped.runW_truth_outs (fs : List Nat) : ∀ (wp : Wrapped) (fed : List Byte),
    WInv I_all wp fed → TruthR wp.r →
    ∀ o ∈ (wp.runW (fs.map WOp.parse)).2, (o.2.1 = .ok ∧ 1 ≤ o.1) ∨ (o.1 = 0 ∧ o.2.1 = .eof) := by
  induction fs with
  | nil => intro wp fed _ _ o ho; simp [Wrapped.runW] at ho
  | cons a as ih =>
    intro wp fed hinv hf o ho
    obtain ⟨q, w1, -, -, -, hc⟩ := C08_wrap_step_all wp a fed hinv
    obtain ⟨hf', hfe⟩ := Wrapped.parse_truth a wp fed hinv hf
    simp only [List.map_cons, Wrapped.runW, List.mem_cons] at ho
    rcases ho with ho | ho
    · subst ho
      rcases hc with hc | ⟨c1, -, c3⟩
      · exact Or.inl hc
      · exact Or.inr ⟨c1, (hfe c3.ne.1).1⟩
    · exact ih _ _ w1 hf' o ho

/-- **C08: io.EOF is reached (all seven kinds).**  With a truthful reader (in particular an
    error-free one, `TruthR.of_fillR`), among any `|payload| + 1` calls of `Parse` (any flags) at
    least one returns `(0, io.EOF)`: every other call delivers at least one byte and no more than
    the payload is ever delivered.  (By `C08_complete_eof` the blocks delivered before it expand
    to exactly the payload, and all later calls return `(0, io.EOF)`.) -/
theorem C08_eof_reached (k : Kind) (raw : Cfg) (s0 : Parser) (h0 : newParser k raw = some s0)
    (r0 : Reader) (hf0 : TruthR r0) (fs : List Nat) (hlen : r0.payload.length < fs.length) :
    ∃ o ∈ (Wrapped.runW ⟨r0, s0⟩ (fs.map WOp.parse)).2, o.1 = 0 ∧ o.2.1 = .eof := by
  apply Classical.byContradiction
  intro hno
  have houts := Wrapped.runW_truth_outs fs ⟨r0, s0⟩ [] (newParser_winv k raw s0 h0 r0) hf0
  have hpos : ∀ o ∈ (Wrapped.runW ⟨r0, s0⟩ (fs.map WOp.parse)).2, 1 ≤ o.1 := by
    intro o ho
    rcases houts o ho with h | h
    · exact h.2
    · exact absurd ⟨o, ho, h⟩ hno
  have h1 := length_le_sum_of_pos _ hpos
  rw [Wrapped.runW_length, List.length_map] at h1
  obtain ⟨-, l2⟩ := Wrapped.runG_parse_log fs (⟨r0, s0⟩, Ghost.init)
  obtain ⟨-, -, -, -, c5, -, c7⟩ := C08_history k raw s0 h0 r0 (fs.map WOp.parse)
  rw [curSrc_map_parse] at c7
  have h2 := congrArg List.length c7
  simp only [List.length_append] at h2
  have h3 : (Ghost.init).consumed = 0 := rfl
  simp only [] at l2 c5
  omega

/-! ### why the class cannot be larger in this reader model -/

/-- BufferSize 4, ShrinkSize 1 -/
def cfgS : BufCfg := { shrinkSize := 1, bufferSize := 4, windowSize := 4, blockSize := 4 }

/-- A script whose io.EOF response may leave more than one byte behind is NOT chunk-independent:
    the response `(5, 1)` = "up to 5 bytes and io.EOF" is offered a 4-byte slice by an empty
    4-byte buffer, hands out 4 of its 5 bytes and still says io.EOF, so `ReadFrom` stops with one
    byte left in the reader and reports io.EOF instead of `ErrFullBuffer`; the same payload read
    through an error-free script gives `(4, ErrFullBuffer)`. Both keep the same 4 bytes. (A real
    `io.Reader` would not say io.EOF there; the model's responses carry a fixed code.) -/
theorem eof_response_depends_on_room :
    ((PBuf.init cfgS).readFrom ⟨[1, 2, 3, 4, 5], [(5, 1)]⟩).2.2 = (4, .eof) ∧
    ((PBuf.init cfgS).readFrom ⟨[1, 2, 3, 4, 5], [(5, 0), (5, 0), (5, 0), (5, 0), (5, 0)]⟩).2.2
      = (4, .full) := by
  constructor <;>
  simp [readFrom, readLoop, init, grow, cfgS, Facts.margin, Facts.chunkSize, Facts.growMin, min3,
    errOfCode]

end LZ

#print axioms LZ.truthR_readFrom
#print axioms LZ.C08_wrap_chunking_eof
#print axioms LZ.C08_chunking_independent_eof
#print axioms LZ.C08_complete_eof
#print axioms LZ.C08_eof_reached
#print axioms LZ.eof_response_depends_on_room
