/-
  LzProofs.GenBufPropsP — the ParserBuffer half (B01–B08) of: the hand-written models of `ParserBuffer` (LzModel/PBuf.lean) and
  `DecoderBuffer` (LzModel/DecBuf.lean) equal the code that `tools/extract -code` regenerates
  from parser_buffer.go / decoder_buffer.go (second part of LzModel/Generated/Code.lean:
  byte slices as values `Gen.Slice`, panics and loop fuel as `Gen.Res`, error variables).

  Abstraction maps: `ofPB : Gen.ParserBuffer → PBuf`, `ofDB : Gen.DecoderBuffer → DecBuf`
  (Go ints ↦ naturals by `Int.toNat`, `Data ↦ Data.data = arr.take len`, `cap = arr.length`),
  `errOf : Gen.Err → Option LZ.Err` (the package-level error variables; `none` for any other
  value), `ofSeq`, `ofBlock`.  Representation invariants (explicit hypotheses, shown to be
  preserved): `SWF s : s.len ≤ s.arr.length`, `PBWF b` / `DBWF b`: `SWF b.Data` and the int
  fields the model stores as naturals are ≥ 0.  Every theorem quantifies over ALL states and
  inputs satisfying the stated hypotheses, every growth function `g` (with `GrowOK g :
  ∀ c n, n ≤ g c n` where `append` may reallocate), and every sufficient fuel.

  Index (B = ParserBuffer, D = DecoderBuffer; referred to by NOTES.md):
    B01 gen_pbuf_shrink (+ gen_pbuf_shrink_panic)   B02 gen_pbuf_byteAt    B03 gen_pbuf_peekAt
    B04 gen_pbuf_readAt   B05 gen_pbuf_reset   B06 gen_pbuf_grow   B07 gen_pbuf_write   B08 gen_pbuf_init
    D01 gen_dbuf_init   D02 gen_dbuf_reset   D03 gen_dbuf_byteAtEnd   D04 gen_dbuf_read (+ gen_dbuf_read_panic)
    D05 gen_dbuf_shrink   D06 gen_dbuf_writeByte   D07 gen_dbuf_write
    D08 gen_dbuf_writeMatch (loop: loop_spec / loop_spec0 / copyTail_spec)
    D09 gen_dbuf_writeBlock (range loop with `goto end`: wb_loop_spec)
    D10 gen_dbuf_lenInv / gen_dbuf_init_lenInv (the invariant `len(Data) ≤ BufferSize` of D08/D09)
    writeMatch_discrepancy (a concrete state outside of that invariant on which code and model differ)
  The lemmas `gen_*_unfold`, `loop_unfold`, `wb_loop_cons`, `wb_loop_nil`, `wb_loop2_eq` state the
  syntactic shape of the generated definitions (proved by `rfl`/unfolding); they are the first
  thing that breaks when the Go source changes.
  ParserBuffer half: every proof below goes through a lemma `gen_*_spec` / `gen_grow_unfold` /
  `*_canon` stating the generated function (applied to arguments) equal to a canonical form chosen
  here; those lemmas are proved from the defining equation only (`unfold`, push binds into `if`s,
  `split` everything, linear arithmetic: tactics `gen_eq2` / `gen_eq3`), so that behaviour-preserving
  rewrites of parser_buffer.go (swapped arms, early returns, De Morgan, hoisted locals, reordered
  independent assignments) do not break them.
  Part of the split of the former LzProofs/GenBufProps.lean (the generated code is emitted per
  topic: LzModel/Generated/CodePBuf.lean, CodeDBuf.lean, CodeSlicePrelude.lean, CodeErrVars.lean),
  so that a construct the translator refuses in decoder_buffer.go does not take the ParserBuffer
  theorems down, and vice versa.  All names live in `LZ.GenBuf`.
-/
import LzModel.Generated.CodePBuf
import LzProofs.GenBufPropsBase
import LzProofs.GenPropsCfgBuf

set_option linter.unusedSimpArgs false
set_option linter.unusedVariables false

namespace LZ.GenBuf
open LZ LZ.Gen

/-- "generated = canonical form" for straight-line functions: push `Res.bind` into the `if`s, split
    every `if` of both sides FIRST (rewriting the conditions first, e.g. by `Int.ofNat_eq_natCast`,
    leaves their `Decidable` instances behind and `split` then fails), then normalise hypotheses and
    leaves; a pair of branches is either contradictory (linear arithmetic) or has equal leaves -/
macro "gen_eq2" : tactic =>
  `(tactic| ((try simp only [bind_ite, bind_ok]) <;> (repeat' split) <;>
      (try simp only [Int.ofNat_eq_natCast, Slice.cap] at *) <;> gen_eq_leaf))

/-- `Res.bind` is associative (normal form: binds nested to the right) -/
theorem res_bind_assoc {α β γ : Type} (x : Res α) (f : α → Res β) (g : β → Res γ) :
    Res.bind (Res.bind x f) g = Res.bind x (fun a => Res.bind (f a) g) := by
  cases x <;> rfl

macro "gen_eq3_leaf" : tactic =>
  `(tactic| first
    | rfl
    | (exfalso; first | omega | contradiction)
    | (congr <;> first | rfl | omega)
    | (congr 1; funext _; (try simp only [bind_ite, bind_ok]) <;> (repeat' split) <;>
        (try simp only [Int.ofNat_eq_natCast, Slice.cap] at *) <;>
        first | rfl | (exfalso; first | omega | contradiction) | (congr <;> first | rfl | omega)))

/-- as `gen_eq2`, for functions with joins (`Res.bind (if …) fun join => …`): also reassociates the
    binds, and splits the `if`s under the binder of the last continuation -/
macro "gen_eq3" : tactic =>
  `(tactic| ((try simp only [res_bind_assoc, bind_ite, bind_ok]) <;> (repeat' split) <;>
      (try simp only [Int.ofNat_eq_natCast, Slice.cap] at *) <;> gen_eq3_leaf))

/-! ## ParserBuffer -/

/-- representation invariant of the generated `ParserBuffer` state under which the abstraction
    `ofPB` (Go ints ↦ naturals) loses nothing the functions below look at -/
structure PBWF (b : ParserBuffer) : Prop where
  data : SWF b.Data
  w : 0 ≤ b.W
  off : 0 ≤ b.Off
  ss : 0 ≤ b.BufConfig.ShrinkSize
  bs : 0 ≤ b.BufConfig.BufferSize

def ofCfg (c : Gen.BufConfig) : BufCfg :=
  { shrinkSize := c.ShrinkSize.toNat, bufferSize := c.BufferSize.toNat,
    windowSize := c.WindowSize.toNat, blockSize := c.BlockSize.toNat }

/-- abstraction map: generated state record ↦ model state -/
def ofPB (b : ParserBuffer) : PBuf :=
  { data := b.Data.data, w := b.W.toNat, off := b.Off.toNat, cap := b.Data.cap, cfg := ofCfg b.BufConfig }

/-- what `Shrink` computes (canonical form; from the defining equation only) -/
theorem gen_shrink_spec (b : ParserBuffer) :
    ParserBuffer_Shrink b =
      if b.W - b.BufConfig.ShrinkSize ≤ 0 then Res.ok (b, (0 : Int))
      else
        Res.bind (Slice.slice b.Data (b.W - b.BufConfig.ShrinkSize) (Int.ofNat b.Data.len)) fun t_1 =>
        Res.bind (Slice.slice (Slice.copy b.Data t_1).1 0 (Slice.copy b.Data t_1).2) fun t_3 =>
        Res.ok ({ b with Data := t_3, W := b.BufConfig.ShrinkSize,
                         Off := b.Off + (b.W - b.BufConfig.ShrinkSize) }, b.W - b.BufConfig.ShrinkSize) := by
  unfold ParserBuffer_Shrink
  gen_eq3

/-- B01 `Shrink` -/
theorem gen_pbuf_shrink (b : ParserBuffer) (h : PBWF b) (hw : b.W - b.BufConfig.ShrinkSize ≤ b.Data.len) :
    ∃ b', ParserBuffer_Shrink b = Res.ok (b', ((PBuf.shrink (ofPB b)).2 : Int))
      ∧ ofPB b' = (PBuf.shrink (ofPB b)).1 ∧ PBWF b' := by
  obtain ⟨hd, hw0, ho0, hs0, hb0⟩ := h
  have hd' : b.Data.len ≤ b.Data.arr.length := hd
  rw [gen_shrink_spec]
  unfold PBuf.shrink
  by_cases hle : b.W - b.BufConfig.ShrinkSize ≤ 0
  · have : (ofPB b).w ≤ (ofPB b).cfg.shrinkSize := by
      simp only [ofPB, ofCfg]; omega
    simp only [hle, this, if_true]
    exact ⟨b, rfl, rfl, ⟨hd, hw0, ho0, hs0, hb0⟩⟩
  · have : ¬ (ofPB b).w ≤ (ofPB b).cfg.shrinkSize := by
      simp only [ofPB, ofCfg]; omega
    simp only [hle, this, if_false]
    obtain ⟨d, hdd⟩ : ∃ d : Nat, b.W - b.BufConfig.ShrinkSize = (d : Int) :=
      ⟨(b.W - b.BufConfig.ShrinkSize).toNat, by omega⟩
    have hdl : d ≤ b.Data.len := by omega
    have hwd : (ofPB b).w - (ofPB b).cfg.shrinkSize = d := by simp only [ofPB, ofCfg]; omega
    simp only [hdd, Int.ofNat_eq_natCast, hwd]
    rw [slice_ok _ _ _ hdl hd]
    obtain ⟨hc, s', hs', hdat, hcap, hlen⟩ := shift_down b.Data hd d hdl
    simp only [bind_ok, hc, hs']
    refine ⟨_, rfl, ?_, ?_⟩
    · simp only [ofPB, hdat, Slice.cap, hcap, ofCfg]
      congr 1 <;> omega
    · exact ⟨by show s'.len ≤ s'.arr.length; omega, hs0, by show 0 ≤ b.Off + (d:Int); omega, hs0, hb0⟩

/-- B01' where the model is total but the Go code panics: `W - ShrinkSize > len(Data)` -/
theorem gen_pbuf_shrink_panic (b : ParserBuffer) (h : PBWF b) (hw : b.W - b.BufConfig.ShrinkSize > b.Data.len) :
    ParserBuffer_Shrink b = Res.panic := by
  rw [gen_shrink_spec]
  have hle : ¬ b.W - b.BufConfig.ShrinkSize ≤ 0 := by omega
  simp only [hle, if_false]
  rw [slice_panic]; · rfl
  right; left
  show ((b.Data.len : Nat) : Int) < _
  omega

/-- canonical form of `Gen.ParserBuffer_ByteAt`: the text the translator emitted when the proof below was
    written; `gen_ParserBuffer_ByteAt_canon` re-proves "generated = canonical" on every build -/
def ParserBuffer_ByteAt_canon (b : ParserBuffer) (off : Int) : Res (UInt8 × Gen.Err) :=
  let c : UInt8 := 0
  let err : Gen.Err := Gen.Err.ok
  let i : Int := off - b.Off
  if ¬((0 ≤ i) ∧ (i < (Int.ofNat b.Data.len))) then
    if i = (Int.ofNat b.Data.len) then
      Res.ok ((0 : UInt8), ErrEndOfBuffer)
    else
    Res.ok ((0 : UInt8), ErrOutOfBuffer)
  else
  Res.bind (Slice.index b.Data i) fun t_1 =>
  Res.ok (t_1, Gen.Err.ok)

theorem gen_ParserBuffer_ByteAt_canon (b : ParserBuffer) (off : Int) :
    ParserBuffer_ByteAt b off = ParserBuffer_ByteAt_canon b off := by
  first
  | rfl
  | (unfold ParserBuffer_ByteAt ParserBuffer_ByteAt_canon; gen_eq2)

/-- B02 `ByteAt` -/
theorem gen_pbuf_byteAt (b : ParserBuffer) (h : PBWF b) (off : Int) :
    ∃ c e, ParserBuffer_ByteAt b off = Res.ok (c, e) ∧ c = (PBuf.byteAt (ofPB b) off).1 ∧
      errOf e = some (PBuf.byteAt (ofPB b) off).2 := by
  obtain ⟨hd, hw0, ho0, hs0, hb0⟩ := h
  have hl := data_length hd
  rw [gen_ParserBuffer_ByteAt_canon]
  unfold ParserBuffer_ByteAt_canon PBuf.byteAt
  have ho : (((ofPB b).off : Nat) : Int) = b.Off := by simp only [ofPB]; omega
  have hdl : (ofPB b).data.length = b.Data.len := hl
  simp only [ho, hdl, Int.ofNat_eq_natCast]
  by_cases hin : 0 ≤ off - b.Off ∧ off - b.Off < (b.Data.len : Int)
  · simp only [hin, and_self, not_true_eq_false, if_false, if_true]
    obtain ⟨i, hi⟩ : ∃ i : Nat, off - b.Off = (i : Int) := ⟨(off - b.Off).toNat, by omega⟩
    rw [hi, index_spec _ hd i (by omega)]
    simp only [bind_ok, Int.toNat_natCast]
    exact ⟨_, _, rfl, rfl, errOf_ok⟩
  · simp only [hin, not_false_eq_true, if_true, if_false]
    by_cases he : off - b.Off = (b.Data.len : Int)
    · simp only [he, if_true]; exact ⟨_, _, rfl, rfl, errOf_eob⟩
    · simp only [he, if_false]; exact ⟨_, _, rfl, rfl, errOf_oob⟩

/-- canonical form of `Gen.ParserBuffer_PeekAt`: the text the translator emitted when the proof below was
    written; `gen_ParserBuffer_PeekAt_canon` re-proves "generated = canonical" on every build -/
def ParserBuffer_PeekAt_canon (b : ParserBuffer) (n : Int) (off : Int) : Res (Slice × Gen.Err) :=
  let p : Slice := Slice.nil
  let err : Gen.Err := Gen.Err.ok
  let i : Int := off - b.Off
  if ¬((0 ≤ i) ∧ (i < (Int.ofNat b.Data.len))) then
    Res.ok (Slice.nil, ErrOutOfBuffer)
  else
  Res.bind (Slice.slice b.Data i (Int.ofNat b.Data.len)) fun t_1 =>
  let p : Slice := t_1
  let err : Gen.Err :=
    if (Int.ofNat p.len) < n then
      let err : Gen.Err := ErrEndOfBuffer
      err
    else
      err
  Res.ok (p, err)

theorem gen_ParserBuffer_PeekAt_canon (b : ParserBuffer) (n : Int) (off : Int) :
    ParserBuffer_PeekAt b n off = ParserBuffer_PeekAt_canon b n off := by
  first
  | rfl
  | (unfold ParserBuffer_PeekAt ParserBuffer_PeekAt_canon; gen_eq2)

/-- B03 `PeekAt` (for every `n`, also negative: the model is called with `n.toNat`) -/
theorem gen_pbuf_peekAt (b : ParserBuffer) (h : PBWF b) (n off : Int) :
    ∃ p e, ParserBuffer_PeekAt b n off = Res.ok (p, e) ∧ p.data = (PBuf.peekAt (ofPB b) n.toNat off).1 ∧
      errOf e = some (PBuf.peekAt (ofPB b) n.toNat off).2 ∧ SWF p := by
  obtain ⟨hd, hw0, ho0, hs0, hb0⟩ := h
  have hd' : b.Data.len ≤ b.Data.arr.length := hd
  have hl := data_length hd
  rw [gen_ParserBuffer_PeekAt_canon]
  unfold ParserBuffer_PeekAt_canon PBuf.peekAt
  have ho : (((ofPB b).off : Nat) : Int) = b.Off := by simp only [ofPB]; omega
  have hdl : (ofPB b).data.length = b.Data.len := hl
  simp only [ho, hdl, Int.ofNat_eq_natCast]
  by_cases hin : 0 ≤ off - b.Off ∧ off - b.Off < (b.Data.len : Int)
  · simp only [hin, and_self, not_true_eq_false, if_false, if_true]
    obtain ⟨i, hi⟩ : ∃ i : Nat, off - b.Off = (i : Int) := ⟨(off - b.Off).toNat, by omega⟩
    rw [hi, slice_ok _ _ _ (by omega) hd]
    simp only [bind_ok, Int.toNat_natCast, List.length_drop, hdl]
    have hdata : ({ arr := List.drop i b.Data.arr, len := b.Data.len - i } : Slice).data = List.drop i (ofPB b).data := by
      simp only [Slice.data, ofPB, List.drop_take]
    have hswf : SWF { arr := List.drop i b.Data.arr, len := b.Data.len - i } := by
      show b.Data.len - i ≤ (List.drop i b.Data.arr).length
      simp only [List.length_drop]; omega
    by_cases hn : ((b.Data.len - i : Nat) : Int) < n
    · have : b.Data.len - i < n.toNat := by omega
      simp only [hn, this, if_true]
      exact ⟨_, _, rfl, hdata, errOf_eob, hswf⟩
    · have : ¬ b.Data.len - i < n.toNat := by omega
      simp only [hn, this, if_false]
      exact ⟨_, _, rfl, hdata, errOf_ok, hswf⟩
  · simp only [hin, not_false_eq_true, if_true, if_false]
    exact ⟨_, _, rfl, rfl, errOf_oob, Nat.le_refl _⟩

/-- what `ReadAt` computes (canonical form; from the defining equation only) -/
theorem gen_readAt_spec (b : ParserBuffer) (p : Slice) (off : Int) :
    ParserBuffer_ReadAt b p off =
      Res.bind (ParserBuffer_PeekAt b (Int.ofNat p.len) off) fun r =>
        Res.ok ((Slice.copy p r.1).1, (Slice.copy p r.1).2, r.2) := by
  unfold ParserBuffer_ReadAt
  gen_eq3

/-- B04 `ReadAt(p, off)`: the bytes the model reports as copied are the new head of `p`, the tail
    of `p` is unchanged, the count and the error agree -/
theorem gen_pbuf_readAt (b : ParserBuffer) (h : PBWF b) (p : Slice) (hp : SWF p) (off : Int) :
    ∃ p' n e, ParserBuffer_ReadAt b p off = Res.ok (p', n, e) ∧
      p'.data = (PBuf.readAt (ofPB b) p.len off).1 ++ p.data.drop (PBuf.readAt (ofPB b) p.len off).1.length ∧
      n = ((PBuf.readAt (ofPB b) p.len off).1.length : Int) ∧
      errOf e = some (PBuf.readAt (ofPB b) p.len off).2 ∧
      p'.len = p.len ∧ p'.arr.length = p.arr.length := by
  obtain ⟨q, e, hq, hqd, hqe, hqw⟩ := gen_pbuf_peekAt b h (Int.ofNat p.len) off
  rw [gen_readAt_spec]
  unfold PBuf.readAt
  have hn : (Int.ofNat p.len).toNat = p.len := by simp
  rw [hn] at hqd hqe
  simp only [hq, bind_ok]
  obtain ⟨hc2, hcd, hcl, hca⟩ := copy_spec p q hp hqw
  refine ⟨_, _, _, rfl, ?_, ?_, hqe, hcl, hca⟩
  · rw [hcd, hqd]
    simp only [List.length_take]
    congr 2
    rw [← hqd, data_length hqw]
  · rw [hc2]
    simp only [List.length_take, ← hqd, data_length hqw]

def growCapI (t bs : Int) : Int :=
  let c := 2 * t + 7
  let c := if c < 1024 then 1024 else c
  if c ≥ bs + 7 then bs + 7 else c

def growCapN (t bs : Nat) : Nat :=
  let c := 2 * t + 7
  let c := if c < 1024 then 1024 else c
  if c ≥ bs + 7 then bs + 7 else c

theorem growCap_eq (t bs : Nat) : growCapI t bs = (growCapN t bs : Int) := by
  unfold growCapI growCapN
  simp only []
  repeat' split
  all_goals omega

theorem gen_grow_unfold (b : ParserBuffer) (t : Int) :
    ParserBuffer_grow b t =
      if t + 7 ≤ (b.Data.arr.length : Int) then Res.ok b
      else Res.bind (Slice.make (b.Data.len : Int) (growCapI t b.BufConfig.BufferSize)) fun t_1 =>
        Res.ok { b with Data := (Slice.copy t_1 b.Data).1 } := by
  unfold ParserBuffer_grow growCapI
  first
  | gen_eq2
  | (simp only [Slice.cap, Int.ofNat_eq_natCast] <;> gen_eq)

theorem model_grow_unfold (m : PBuf) (t : Nat) :
    PBuf.grow m t =
      if t + 7 ≤ m.cap then some m
      else if m.data.length ≤ growCapN t m.cfg.bufferSize then some { m with cap := growCapN t m.cfg.bufferSize } else none := rfl


/-- B06 `grow(t)` for `t ≥ 0` -/
theorem gen_pbuf_grow (b : ParserBuffer) (h : PBWF b) (t : Nat) :
    match PBuf.grow (ofPB b) t with
    | some m => ∃ b', ParserBuffer_grow b t = Res.ok b' ∧ ofPB b' = m ∧ PBWF b'
    | none => ParserBuffer_grow b t = Res.panic := by
  obtain ⟨hd, hw0, ho0, hs0, hb0⟩ := h
  have hd' : b.Data.len ≤ b.Data.arr.length := hd
  rw [gen_grow_unfold, model_grow_unfold]
  have hcap : (ofPB b).cap = b.Data.arr.length := rfl
  have hlen : (ofPB b).data.length = b.Data.len := data_length hd
  obtain ⟨B, hB⟩ : ∃ B : Nat, b.BufConfig.BufferSize = (B : Int) := ⟨b.BufConfig.BufferSize.toNat, by omega⟩
  have hbs : (ofPB b).cfg.bufferSize = B := by simp only [ofPB, ofCfg]; omega
  rw [hcap, hlen, hbs, hB, growCap_eq]
  by_cases h1 : t + 7 ≤ b.Data.arr.length
  · have h1' : (t : Int) + 7 ≤ (b.Data.arr.length : Int) := by omega
    simp only [h1, h1', if_true]
    exact ⟨b, rfl, rfl, ⟨hd, hw0, ho0, hs0, hb0⟩⟩
  · have h1' : ¬ (t : Int) + 7 ≤ (b.Data.arr.length : Int) := by omega
    simp only [h1, h1', if_false]
    by_cases h2 : b.Data.len ≤ growCapN t B
    · simp only [h2, if_true]
      rw [make_ok _ _ h2]
      simp only [bind_ok]
      have hz : SWF { arr := List.replicate (growCapN t B) 0, len := b.Data.len } := by
        show b.Data.len ≤ (List.replicate (growCapN t B) (0 : UInt8)).length
        simp only [List.length_replicate]; exact h2
      obtain ⟨_, hcd, hcl, hca⟩ := copy_spec _ b.Data hz hd
      refine ⟨_, rfl, ?_, ?_⟩
      · simp only [ofPB, Slice.cap, hca, List.length_replicate, hcd, hbs]
        congr 1
        simp only [Nat.min_self]
        rw [List.take_of_length_le (by rw [data_length hd]; exact Nat.le_refl _)]
        have : (Slice.data { arr := List.replicate (growCapN t B) 0, len := b.Data.len }).length = b.Data.len :=
          data_length hz
        rw [List.drop_of_length_le (by omega), List.append_nil]
      · refine ⟨?_, hw0, ho0, hs0, by rw [hB]; omega⟩
        show (Slice.copy _ _).1.len ≤ (Slice.copy _ _).1.arr.length
        rw [hcl, hca]; simp only [List.length_replicate]; exact h2
    · simp only [h2, if_false]
      rw [make_panic _ _ (by omega)]
      rfl


/-- the error of `Reset`: its only `fmt.Errorf` is the model's `oversize` -/
def errOfReset (e : Gen.Err) : Option LZ.Err :=
  if e = Gen.Err.ok then some .ok else if e = Gen.Err.error 1 then some .oversize else none

/-- `s[i:j]` with `Int` bounds, as a conditional rewrite rule (`simp (disch := omega)`) -/
theorem slice_ok_int (s : Slice) (i j : Int) (hi : 0 ≤ i) (hij : i ≤ j) (hj : j ≤ (s.arr.length : Int)) :
    Slice.slice s i j = Res.ok { arr := s.arr.drop i.toNat, len := j.toNat - i.toNat } := by
  have := slice_ok s i.toNat j.toNat (by omega) (by omega)
  rwa [Int.toNat_of_nonneg hi, Int.toNat_of_nonneg (by omega)] at this

/-- `make([]byte, n, c)` with `Int` arguments, as a conditional rewrite rule -/
theorem make_ok_int (n c : Int) (hn : 0 ≤ n) (hc : n ≤ c) :
    Slice.make n c = Res.ok { arr := List.replicate c.toNat 0, len := n.toNat } := by
  have := make_ok n.toNat c.toNat (by omega)
  rwa [Int.toNat_of_nonneg hn, Int.toNat_of_nonneg (by omega)] at this

/-- what `Reset` computes, case by case (conditions over `Nat`, no `Res.bind`, no slice expression
    left); proved from the defining equation only: split every `if` as it comes, refute the
    inconsistent combinations by linear arithmetic, evaluate the slice expressions by the
    conditional rules above -/
theorem gen_reset_spec (b : ParserBuffer) (data : Slice) (hd : SWF b.Data) (hdat : SWF data) :
    ParserBuffer_Reset b data =
      if (data.len : Int) > b.BufConfig.BufferSize then Res.ok (b, Gen.Err.error 1)
      else if data.len = 0 then
        Res.ok ({ b with W := 0, Off := 0, Data := { arr := b.Data.arr, len := 0 } }, Gen.Err.ok)
      else if data.len + 7 ≤ data.arr.length then
        Res.ok ({ b with W := 0, Off := 0, Data := data }, Gen.Err.ok)
      else if data.len + 7 ≤ b.Data.arr.length then
        Res.ok ({ b with W := 0, Off := 0,
                         Data := (Slice.copy { arr := b.Data.arr, len := data.len } data).1 }, Gen.Err.ok)
      else
        Res.ok ({ b with W := 0, Off := 0,
                         Data := (Slice.copy { arr := List.replicate (data.len + 7) 0, len := data.len } data).1 },
                Gen.Err.ok) := by
  have hd' : b.Data.len ≤ b.Data.arr.length := hd
  have hdat' : data.len ≤ data.arr.length := hdat
  have e7 : ((data.len : Int) + 7).toNat = data.len + 7 := by omega
  have e7' : (7 + (data.len : Int)).toNat = data.len + 7 := by omega
  unfold ParserBuffer_Reset
  -- (no rewriting of the conditions before the `split`s: `simp only [Int.ofNat_eq_natCast]` leaves the
  -- `Decidable` instances of the `if`s behind, and `split` / `bind_ite` then fail to match them)
  try simp only [bind_ite, bind_ok]
  repeat' split
  all_goals try simp only [Int.ofNat_eq_natCast, Slice.cap] at *
  all_goals first
    | (exfalso; omega)
    | rfl
    | (simp (disch := omega) only [slice_ok_int, make_ok_int, bind_ok, Int.toNat_natCast, Int.toNat_zero,
        List.drop_zero, Nat.sub_zero, Nat.sub_self, e7, e7'] <;>
       first | rfl | (congr <;> omega))

/-- B05 `Reset(data)`; `cap(data) - len(data)` is the model's `capExtra` -/
theorem gen_pbuf_reset (b : ParserBuffer) (h : PBWF b) (data : Slice) (hdat : SWF data) :
    ∃ b' e, ParserBuffer_Reset b data = Res.ok (b', e) ∧
      ofPB b' = (PBuf.reset (ofPB b) data.data (data.cap - data.len)).1 ∧
      errOfReset e = some (PBuf.reset (ofPB b) data.data (data.cap - data.len)).2 ∧ PBWF b' := by
  obtain ⟨hd, hw0, ho0, hs0, hb0⟩ := h
  have hd' : b.Data.len ≤ b.Data.arr.length := hd
  have hdat' : data.len ≤ data.arr.length := hdat
  have hl := data_length hdat
  obtain ⟨B, hB⟩ : ∃ B : Nat, b.BufConfig.BufferSize = (B : Int) := ⟨b.BufConfig.BufferSize.toNat, by omega⟩
  have hbs : (ofPB b).cfg.bufferSize = B := by simp only [ofPB, ofCfg]; omega
  rw [gen_reset_spec b data hd hdat]
  unfold PBuf.reset
  simp only [hl, hbs, hB, Facts.margin, Slice.cap]
  by_cases h1 : data.len > B
  · have h1' : (data.len : Int) > (B : Int) := by omega
    simp only [h1, h1', if_true]
    exact ⟨_, _, rfl, rfl, rfl, ⟨hd, hw0, ho0, hs0, hb0⟩⟩
  · have h1' : ¬ (data.len : Int) > (B : Int) := by omega
    simp only [h1, h1', if_false]
    by_cases h2 : data.len = 0
    · simp only [h2, if_true]
      refine ⟨_, _, rfl, ?_, rfl, ⟨Nat.zero_le _, Int.le_refl _, Int.le_refl _, hs0, hb0⟩⟩
      simp [ofPB, Slice.data, Slice.cap]
    · simp only [h2, if_false]
      by_cases h3 : data.len + 7 ≤ data.arr.length
      · have h3'' : ¬ data.len + 7 > data.len + (data.arr.length - data.len) := by omega
        simp only [h3, h3'', if_true, if_false]
        refine ⟨_, _, rfl, ?_, rfl, ⟨hdat, Int.le_refl _, Int.le_refl _, hs0, by rw [hB]; omega⟩⟩
        simp only [ofPB, Slice.cap, Int.toNat_zero]
        congr 1; omega
      · have h3'' : data.len + 7 > data.len + (data.arr.length - data.len) := by omega
        simp only [h3, h3'', if_true, if_false]
        by_cases h4 : data.len + 7 ≤ b.Data.arr.length
        · have h4'' : ¬ data.len + 7 > (ofPB b).cap := by
            show ¬ data.len + 7 > b.Data.arr.length; omega
          simp only [h4, h4'', if_true, if_false]
          have hz : SWF { arr := b.Data.arr, len := data.len } := by
            show data.len ≤ b.Data.arr.length; omega
          obtain ⟨_, hcd, hcl, hca⟩ := copy_spec _ data hz hdat
          refine ⟨_, _, rfl, ?_, rfl, ⟨?_, Int.le_refl _, Int.le_refl _, hs0, by rw [hB]; omega⟩⟩
          · simp only [ofPB, Slice.cap, hca, hcd, Int.toNat_zero, Nat.min_self]
            congr 1
            rw [List.take_of_length_le (by rw [hl]; exact Nat.le_refl _)]
            rw [List.drop_of_length_le (by rw [data_length hz]; exact Nat.le_refl _), List.append_nil]
          · show (Slice.copy _ _).1.len ≤ (Slice.copy _ _).1.arr.length
            rw [hcl, hca]; exact hz
        · have h4'' : data.len + 7 > (ofPB b).cap := by
            show data.len + 7 > b.Data.arr.length; omega
          simp only [h4, h4'', if_true, if_false]
          have hz : SWF { arr := List.replicate (data.len + 7) 0, len := data.len } := by
            show data.len ≤ (List.replicate (data.len + 7) (0 : UInt8)).length
            simp only [List.length_replicate]; omega
          obtain ⟨_, hcd, hcl, hca⟩ := copy_spec _ data hz hdat
          refine ⟨_, _, rfl, ?_, rfl, ⟨?_, Int.le_refl _, Int.le_refl _, hs0, by rw [hB]; omega⟩⟩
          · simp only [ofPB, Slice.cap, hca, hcd, List.length_replicate, Int.toNat_zero, Nat.min_self]
            congr 1
            rw [List.take_of_length_le (by rw [hl]; exact Nat.le_refl _)]
            rw [List.drop_of_length_le (by rw [data_length hz]; exact Nat.le_refl _), List.append_nil]
          · show (Slice.copy _ _).1.len ≤ (Slice.copy _ _).1.arr.length
            rw [hcl, hca]; simp only [List.length_replicate]; omega


theorem growCapN_ge (t B : Nat) (h : t ≤ B) : t ≤ growCapN t B := by
  unfold growCapN
  simp only []
  repeat' split
  all_goals omega

theorem model_grow_some (m m' : PBuf) (t : Nat) (h : PBuf.grow m t = some m') (ht : t ≤ m.cfg.bufferSize) :
    m'.data = m.data ∧ m'.w = m.w ∧ m'.off = m.off ∧ m'.cfg = m.cfg ∧ t ≤ m'.cap := by
  rw [model_grow_unfold] at h
  split at h
  · cases h; exact ⟨rfl, rfl, rfl, rfl, by omega⟩
  · split at h
    · cases h; exact ⟨rfl, rfl, rfl, rfl, growCapN_ge t _ ht⟩
    · cases h

/-- agreement of a generated result `(state, n, err)` with the model's; a model `.panic` stands for a Go panic -/
def PBAgree (r : Res (ParserBuffer × Int × Gen.Err)) (m : PBuf × Nat × LZ.Err) : Prop :=
  match r with
  | .ok (b', n, e) => m.2.2 ≠ .panic ∧ ofPB b' = m.1 ∧ n = (m.2.1 : Int) ∧ errOf e = some m.2.2 ∧ PBWF b'
  | .panic => m.2.2 = .panic
  | .fuel => False

/-- the part of `Write` after `p` has been cut to the available space (canonical form) -/
def writeTail (g : Nat → Nat → Nat) (b : ParserBuffer) (p : Slice) (e : Gen.Err) : Res (ParserBuffer × Int × Gen.Err) :=
  Res.bind (if ((b.Data.len : Int) + (p.len : Int)) + 7 > (b.Data.arr.length : Int)
            then Res.bind (ParserBuffer_grow b ((b.Data.len : Int) + (p.len : Int))) fun r_3 => Res.ok r_3
            else Res.ok b) fun j =>
    Res.ok ({ j with Data := Slice.append g j.Data p.data }, (p.len : Int), e)

/-- what `Write` computes: cut `p` to the available space, then `writeTail`; from the defining
    equation only (`gen_eq3`) -/
theorem gen_write_spec (g : Nat → Nat → Nat) (b : ParserBuffer) (p : Slice) :
    ParserBuffer_Write g b p =
      if b.BufConfig.BufferSize - (b.Data.len : Int) < (p.len : Int) then
        Res.bind (Slice.slice p 0 (b.BufConfig.BufferSize - (b.Data.len : Int))) fun q =>
          writeTail g b q ErrFullBuffer
      else writeTail g b p Gen.Err.ok := by
  unfold ParserBuffer_Write writeTail
  gen_eq3

/-- the part of `Write` after `p` has been cut to the available space -/
theorem write_tail (g : Nat → Nat → Nat) (b : ParserBuffer) (h : PBWF b) (p : Slice) (hp : SWF p)
    (e : Gen.Err) (me : LZ.Err) (hme : errOf e = some me) (hnp : me ≠ .panic)
    (hfit : b.Data.len + p.len ≤ (ofPB b).cfg.bufferSize) :
    PBAgree
      (Res.bind (if ((b.Data.len : Int) + (p.len : Int)) + 7 > (b.Data.arr.length : Int)
                 then Res.bind (ParserBuffer_grow b ((b.Data.len : Int) + (p.len : Int))) fun r_3 => Res.ok r_3
                 else Res.ok b) fun j =>
        Res.ok ({ j with Data := Slice.append g j.Data p.data }, (p.len : Int), e))
      (match (if (ofPB b).data.length + p.data.length + Facts.margin > (ofPB b).cap
              then PBuf.grow (ofPB b) ((ofPB b).data.length + p.data.length) else some (ofPB b)) with
       | none => (ofPB b, 0, .panic)
       | some b' =>
         let cap' := if (ofPB b).data.length + p.data.length ≤ b'.cap then b'.cap
                     else (ofPB b).data.length + p.data.length
         ({ b' with data := b'.data ++ p.data, cap := cap' }, p.data.length, me)) := by
  have hwf := h
  obtain ⟨hd, hw0, ho0, hs0, hb0⟩ := h
  have hd' : b.Data.len ≤ b.Data.arr.length := hd
  have hlen : (ofPB b).data.length = b.Data.len := data_length hd
  have hpl : p.data.length = p.len := data_length hp
  have hcap : (ofPB b).cap = b.Data.arr.length := rfl
  have hcast : (b.Data.len : Int) + (p.len : Int) = ((b.Data.len + p.len : Nat) : Int) := by omega
  rw [hlen, hpl, hcap, hcast]
  simp only [Facts.margin]
  -- the common last step
  have fin : ∀ (b' : ParserBuffer) (m : PBuf), ofPB b' = m → PBWF b' →
      m.data = (ofPB b).data → m.w = (ofPB b).w → m.off = (ofPB b).off → m.cfg = (ofPB b).cfg →
      b.Data.len + p.len ≤ m.cap →
      PBAgree (Res.ok ({ b' with Data := Slice.append g b'.Data p.data }, (p.len : Int), e))
        ({ m with data := m.data ++ p.data,
                  cap := if b.Data.len + p.len ≤ m.cap then m.cap else b.Data.len + p.len }, p.len, me) := by
    intro b' m hbm hwf' hmd hmw hmo hmc hmcap
    obtain ⟨hd2, hw2, ho2, hs2, hb2⟩ := hwf'
    have hd2' : b'.Data.len ≤ b'.Data.arr.length := hd2
    obtain ⟨had, hal, haa⟩ := append_spec g b'.Data hd2 p.data
    have hl2 : b'.Data.len = b.Data.len := by
      rw [← data_length hd2, ← hlen, ← hmd, ← hbm]; rfl
    have hc2 : b'.Data.arr.length = m.cap := by rw [← hbm]; rfl
    have hin : b'.Data.len + p.data.length ≤ b'.Data.arr.length := by omega
    simp only [hin, if_true] at haa
    simp only [hmcap, if_true]
    refine ⟨hnp, ?_, rfl, hme, ⟨?_, hw2, ho2, hs2, hb2⟩⟩
    · subst hbm
      simp only [ofPB, had, Slice.cap, haa]
    · show (Slice.append g b'.Data p.data).len ≤ (Slice.append g b'.Data p.data).arr.length
      rw [hal, haa]; exact hin
  by_cases hc : b.Data.len + p.len + 7 > b.Data.arr.length
  · have hc' : ((b.Data.len + p.len : Nat) : Int) + 7 > (b.Data.arr.length : Int) := by omega
    simp only [hc, hc', if_true]
    have hg := gen_pbuf_grow b hwf (b.Data.len + p.len)
    cases hgm : PBuf.grow (ofPB b) (b.Data.len + p.len) with
    | none =>
      rw [hgm] at hg
      simp only [] at hg
      rw [hg]; rfl
    | some m =>
      rw [hgm] at hg
      obtain ⟨b', hgb, hbm, hwf'⟩ := hg
      rw [hgb]
      simp only [bind_ok]
      obtain ⟨h1, h2, h3, h4, h5⟩ := model_grow_some _ _ _ hgm hfit
      exact fin b' m hbm hwf' h1 h2 h3 h4 h5
  · have hc' : ¬ ((b.Data.len + p.len : Nat) : Int) + 7 > (b.Data.arr.length : Int) := by omega
    simp only [hc, hc', if_false, bind_ok]
    exact fin b (ofPB b) rfl hwf rfl rfl rfl rfl (by rw [hcap]; omega)

/-- B07 `Write(p)`, for every growth function -/
theorem gen_pbuf_write (g : Nat → Nat → Nat) (b : ParserBuffer) (h : PBWF b) (p : Slice) (hp : SWF p) :
    PBAgree (ParserBuffer_Write g b p) (PBuf.write (ofPB b) p.data) := by
  have hwf := h
  obtain ⟨hd, hw0, ho0, hs0, hb0⟩ := h
  have hd' : b.Data.len ≤ b.Data.arr.length := hd
  have hp' : p.len ≤ p.arr.length := hp
  have hlen : (ofPB b).data.length = b.Data.len := data_length hd
  have hpl : p.data.length = p.len := data_length hp
  obtain ⟨B, hB⟩ : ∃ B : Nat, b.BufConfig.BufferSize = (B : Int) := ⟨b.BufConfig.BufferSize.toNat, by omega⟩
  have hbs : (ofPB b).cfg.bufferSize = B := by simp only [ofPB, ofCfg]; omega
  rw [gen_write_spec]
  unfold PBuf.write writeTail
  by_cases h1 : (ofPB b).cfg.bufferSize < (ofPB b).data.length
  · simp only [h1, if_true]
    rw [hbs, hlen] at h1
    have : b.BufConfig.BufferSize - (b.Data.len : Int) < (p.len : Int) := by omega
    simp only [this, if_true]
    rw [slice_panic _ _ _ (by omega)]
    rfl
  · simp only [h1, if_false]
    rw [hbs, hlen] at h1
    by_cases h2 : (ofPB b).cfg.bufferSize - (ofPB b).data.length < p.data.length
    · simp only [h2, if_true]
      rw [hbs, hlen, hpl] at h2
      have h2' : b.BufConfig.BufferSize - (b.Data.len : Int) < (p.len : Int) := by omega
      simp only [h2', if_true]
      have hav : b.BufConfig.BufferSize - (b.Data.len : Int) = ((B - b.Data.len : Nat) : Int) := by omega
      have h0 : ((0 : Nat) : Int) = 0 := rfl
      rw [hav, ← h0, slice_ok _ 0 (B - b.Data.len) (Nat.zero_le _) (by omega)]
      simp only [bind_ok, List.drop_zero, Nat.sub_zero]
      have hq : SWF { arr := p.arr, len := B - b.Data.len } := by
        show B - b.Data.len ≤ p.arr.length; omega
      have hqd : ({ arr := p.arr, len := B - b.Data.len } : Slice).data = p.data.take ((ofPB b).cfg.bufferSize - (ofPB b).data.length) := by
        rw [hbs, hlen, take_data_eq _ _ (by omega)]; rfl
      rw [← hqd]
      exact write_tail g b hwf _ hq _ _ errOf_full (by decide) (by rw [hbs]; show b.Data.len + (B - b.Data.len) ≤ B; omega)
    · simp only [h2, if_false]
      rw [hbs, hlen, hpl] at h2
      have h2' : ¬ b.BufConfig.BufferSize - (b.Data.len : Int) < (p.len : Int) := by omega
      simp only [h2', if_false, bind_ok]
      exact write_tail g b hwf p hp _ _ errOf_ok (by decide) (by rw [hbs]; omega)


/-- what `Init` computes (canonical form; from the defining equation only) -/
theorem gen_init_spec (b : ParserBuffer) (cfg : Gen.BufConfig) :
    ParserBuffer_Init b cfg =
      if BufConfig_Verify (BufConfig_SetDefaults cfg) ≠ Gen.Err.ok then
        Res.ok (b, BufConfig_Verify (BufConfig_SetDefaults cfg))
      else
        Res.bind (Slice.slice b.Data 0 (0 : Int)) fun t_1 =>
        Res.ok (({ Data := t_1, W := 0, Off := 0, BufConfig := BufConfig_SetDefaults cfg } : ParserBuffer),
                Gen.Err.ok) := by
  -- on the success path the source may return the (nil) `err` of `Verify` or `nil` itself
  unfold ParserBuffer_Init
  by_cases h : BufConfig_Verify (BufConfig_SetDefaults cfg) = Gen.Err.ok
  · simp [h]
  · simp [h]

/-- B08 `Init(cfg)`: the configuration error is passed on and the buffer left alone; otherwise the
    buffer is the model's initial state, except that the capacity of the old `Data` is kept
    (`b.Data[:0]`; the model's `init` describes a zero `ParserBuffer`, capacity 0) -/
theorem gen_pbuf_init (b : ParserBuffer) (cfg : Gen.BufConfig) :
    (BufConfig_Verify (BufConfig_SetDefaults cfg) ≠ Gen.Err.ok →
      ParserBuffer_Init b cfg = Res.ok (b, BufConfig_Verify (BufConfig_SetDefaults cfg))) ∧
    (BufConfig_Verify (BufConfig_SetDefaults cfg) = Gen.Err.ok →
      ∃ b', ParserBuffer_Init b cfg = Res.ok (b', Gen.Err.ok) ∧
        ofPB b' = { PBuf.init (ofCfg (BufConfig_SetDefaults cfg)) with cap := b.Data.cap } ∧ PBWF b') := by
  rw [gen_init_spec]
  refine ⟨fun hne => ?_, fun hok => ?_⟩
  · simp only [hne, ne_eq, not_false_eq_true, if_true]
  · have h0 : ((0 : Nat) : Int) = 0 := rfl
    simp only [hok, ne_eq, not_true_eq_false, if_false]
    rw [← h0, slice_ok _ 0 0 (Nat.le_refl _) (Nat.zero_le _)]
    simp only [bind_ok]
    have hv : 1 ≤ (BufConfig_SetDefaults cfg).BufferSize ∧ (BufConfig_SetDefaults cfg).BufferSize ≤ 4294967288 := by
      apply Classical.byContradiction; intro hn
      have := (GenProps.gen_bufVerify_error1 _).mpr hn; rw [hok] at this; cases this
    have hss : 0 ≤ (BufConfig_SetDefaults cfg).ShrinkSize ∧ (BufConfig_SetDefaults cfg).ShrinkSize < (BufConfig_SetDefaults cfg).BufferSize := by
      apply Classical.byContradiction; intro hn
      have := (GenProps.gen_bufVerify_error2 _).mpr ⟨hv, hn⟩; rw [hok] at this; cases this
    refine ⟨_, rfl, ?_, ⟨Nat.zero_le _, Int.le_refl _, Int.le_refl _, hss.1, by have := hv.1; show (0:Int) ≤ (BufConfig_SetDefaults cfg).BufferSize; omega⟩⟩
    simp [ofPB, PBuf.init, Slice.data, Slice.cap]

end LZ.GenBuf

/-! ### axiom audit (printed on every build) -/
#print axioms LZ.GenBuf.gen_pbuf_shrink
#print axioms LZ.GenBuf.gen_pbuf_shrink_panic
#print axioms LZ.GenBuf.gen_pbuf_byteAt
#print axioms LZ.GenBuf.gen_pbuf_peekAt
#print axioms LZ.GenBuf.gen_pbuf_readAt
#print axioms LZ.GenBuf.gen_pbuf_reset
#print axioms LZ.GenBuf.gen_pbuf_grow
#print axioms LZ.GenBuf.gen_pbuf_write
#print axioms LZ.GenBuf.gen_pbuf_init
