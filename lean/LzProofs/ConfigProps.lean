/-
  LzProofs.ConfigProps — property theorems for the configuration model:

    C20  configurations survive JSON, defaults and cloning unchanged and consistently
    C16  clause 1: NewParser succeeds exactly for configurations whose defaults-completed
         form passes Verify

  All statements are over ALL field values (Go `int` modelled as `Int`: zero, negative, huge),
  all seven kinds, and arbitrary JSON documents (`JDoc`).  Helper lemmas and the named
  obligations on the regenerated constants / the union record are in `ConfigLemmas.lean`.
-/
import LzProofs.ConfigLemmas
namespace LZ

/-! ## 1. SetDefaults is idempotent and only replaces zero fields (C20) -/

/-- `cfg.SetDefaults(); cfg.SetDefaults()` ≡ `cfg.SetDefaults()` — for every kind and every
    field value; needs no fact about the constants. -/
theorem setDefaults_idem (k : Kind) (c : Cfg) :
    setDefaults k (setDefaults k c) = setDefaults k c :=
  setDefaults_idem' k c

/-- the same for a configuration value of type `k` (only the fields the type has) -/
theorem setDefaults_idem_restrict (k : Kind) (c : Cfg) :
    setDefaults k (setDefaults k (c.restrict k)) = setDefaults k (c.restrict k) :=
  setDefaults_idem' k _

/-- **only zero fields are replaced**: every non-zero (`≠ 0` / `≠ ""`) field survives
    `SetDefaults` unchanged (all 14 union fields, every kind). -/
theorem setDefaults_only_zero (k : Kind) (c : Cfg) :
    (c.shrinkSize ≠ 0 → (setDefaults k c).shrinkSize = c.shrinkSize) ∧
    (c.bufferSize ≠ 0 → (setDefaults k c).bufferSize = c.bufferSize) ∧
    (c.windowSize ≠ 0 → (setDefaults k c).windowSize = c.windowSize) ∧
    (c.blockSize ≠ 0 → (setDefaults k c).blockSize = c.blockSize) ∧
    (c.inputLen ≠ 0 → (setDefaults k c).inputLen = c.inputLen) ∧
    (c.hashBits ≠ 0 → (setDefaults k c).hashBits = c.hashBits) ∧
    (c.inputLen1 ≠ 0 → (setDefaults k c).inputLen1 = c.inputLen1) ∧
    (c.hashBits1 ≠ 0 → (setDefaults k c).hashBits1 = c.hashBits1) ∧
    (c.inputLen2 ≠ 0 → (setDefaults k c).inputLen2 = c.inputLen2) ∧
    (c.hashBits2 ≠ 0 → (setDefaults k c).hashBits2 = c.hashBits2) ∧
    (c.minMatchLen ≠ 0 → (setDefaults k c).minMatchLen = c.minMatchLen) ∧
    (c.maxMatchLen ≠ 0 → (setDefaults k c).maxMatchLen = c.maxMatchLen) ∧
    (c.bucketSize ≠ 0 → (setDefaults k c).bucketSize = c.bucketSize) ∧
    (c.cost ≠ "" → (setDefaults k c).cost = c.cost) := by
  refine ⟨?_, ?_, ?_, ?_, ?_, ?_, ?_, ?_, ?_, ?_, ?_, ?_, ?_, ?_⟩ <;> intro h
  · rw [setDefaults_shrinkSize, if_neg h]
  · rw [setDefaults_bufferSize, if_neg h]
  · rw [setDefaults_windowSize, if_neg h]
  · rw [setDefaults_blockSize, if_neg h]
  · rw [setDefaults_inputLen, if_neg h, ite_self]
  · rw [setDefaults_hashBits, if_neg h, ite_self]
  · rw [setDefaults_inputLen1, if_neg h, ite_self]
  · rw [setDefaults_hashBits1, if_neg h, ite_self]
  · rw [setDefaults_inputLen2, if_neg h, ite_self]
  · rw [setDefaults_hashBits2, if_neg h, ite_self]
  · rw [setDefaults_minMatchLen, if_neg h, ite_self]
  · rw [setDefaults_maxMatchLen, if_neg h, ite_self]
  · rw [setDefaults_bucketSize, if_neg h, ite_self]
  · rw [setDefaults_cost, if_neg h, ite_self]

/-- **zero fields get the documented default** (per field; `k.has f` = the type has the
    field).  ShrinkSize depends on the completed BufferSize, BufferSize on the completed
    WindowSize, InputLen2 on the completed InputLen1. -/
theorem setDefaults_zero_default (k : Kind) (c : Cfg) :
    (c.windowSize = 0 → (setDefaults k c).windowSize = Facts.defWindowSize) ∧
    (c.bufferSize = 0 → (setDefaults k c).bufferSize = (setDefaults k c).windowSize) ∧
    (c.shrinkSize = 0 → (setDefaults k c).shrinkSize =
        if (setDefaults k c).bufferSize < Facts.shrinkSmallLimit then (setDefaults k c).bufferSize >>> 1
        else Facts.defShrinkSize) ∧
    (c.blockSize = 0 → (setDefaults k c).blockSize = Facts.defBlockSize) ∧
    (k.has "InputLen" → c.inputLen = 0 → (setDefaults k c).inputLen = Facts.defInputLen) ∧
    (k.has "HashBits" → c.hashBits = 0 → (setDefaults k c).hashBits = k.defHashBits) ∧
    (k.has "InputLen1" → c.inputLen1 = 0 → (setDefaults k c).inputLen1 = Facts.defInputLen) ∧
    (k.has "HashBits1" → c.hashBits1 = 0 → (setDefaults k c).hashBits1 = Facts.defHashBits) ∧
    (k.has "InputLen2" → c.inputLen2 = 0 → (setDefaults k c).inputLen2 =
        if (setDefaults k c).inputLen1 < Facts.dhSmallInputLen then Facts.defInputLen2Small
        else Facts.defInputLen2Large) ∧
    (k.has "HashBits2" → c.hashBits2 = 0 → (setDefaults k c).hashBits2 = Facts.defHashBits) ∧
    (k.has "MinMatchLen" → c.minMatchLen = 0 → (setDefaults k c).minMatchLen = Facts.defMinMatchLen) ∧
    (k.has "MaxMatchLen" → c.maxMatchLen = 0 → (setDefaults k c).maxMatchLen = Facts.defMaxMatchLen) ∧
    (k.has "BucketSize" → c.bucketSize = 0 → (setDefaults k c).bucketSize = Facts.defBucketSize) ∧
    (k.has "Cost" → c.cost = "" → (setDefaults k c).cost = Facts.defCost) := by
  refine ⟨?_, ?_, ?_, ?_, ?_, ?_, ?_, ?_, ?_, ?_, ?_, ?_, ?_, ?_⟩
  · intro h; rw [setDefaults_windowSize, if_pos h]
  · intro h; rw [setDefaults_bufferSize, if_pos h]
  · intro h; rw [setDefaults_shrinkSize, if_pos h]
  · intro h; rw [setDefaults_blockSize, if_pos h]
  · intro hk h; rw [setDefaults_inputLen, if_pos hk, if_pos h]
  · intro hk h; rw [setDefaults_hashBits, if_pos hk, if_pos h]
  · intro hk h; rw [setDefaults_inputLen1, if_pos hk, if_pos h]
  · intro hk h; rw [setDefaults_hashBits1, if_pos hk, if_pos h]
  · intro hk h; rw [setDefaults_inputLen2, if_pos hk, if_pos h]
  · intro hk h; rw [setDefaults_hashBits2, if_pos hk, if_pos h]
  · intro hk h; rw [setDefaults_minMatchLen, if_pos hk, if_pos h]
  · intro hk h; rw [setDefaults_maxMatchLen, if_pos hk, if_pos h]
  · intro hk h; rw [setDefaults_bucketSize, if_pos hk, if_pos h]
  · intro hk h; rw [setDefaults_cost, if_pos hk, if_pos h]

/-- the numeric values of the documented defaults (lz.go:259-265 "8 MiB / 32 KiB or half of
    BufferSize if smaller than 64 KiB / 128 KiB", hash.go:126 "input length 3, hash bits 18",
    …) — a named obligation on the regenerated constants. -/
theorem documented_default_values :
    Facts.defWindowSize = 8 * 2 ^ 20 ∧ Facts.shrinkSmallLimit = 64 * 2 ^ 10 ∧
    Facts.defShrinkSize = 32 * 2 ^ 10 ∧ Facts.defBlockSize = 128 * 2 ^ 10 ∧
    Facts.defInputLen = 3 ∧ Facts.defHashBits = 18 ∧ Facts.dhSmallInputLen = 5 ∧
    Facts.defInputLen2Small = 6 ∧ Facts.defInputLen2Large = 8 ∧
    Facts.defBucketHashBits = 12 ∧ Facts.defBucketSize = 10 ∧
    Facts.defMinMatchLen = 3 ∧ Facts.defMaxMatchLen = 273 ∧ Facts.defCost = "XZCost" := by
  decide

/-- fields the configuration type does not have are never touched (zero or not) -/
theorem setDefaults_untouched (k : Kind) (c : Cfg) :
    (k.has "InputLen" = false → (setDefaults k c).inputLen = c.inputLen) ∧
    (k.has "HashBits" = false → (setDefaults k c).hashBits = c.hashBits) ∧
    (k.has "InputLen1" = false → (setDefaults k c).inputLen1 = c.inputLen1) ∧
    (k.has "HashBits1" = false → (setDefaults k c).hashBits1 = c.hashBits1) ∧
    (k.has "InputLen2" = false → (setDefaults k c).inputLen2 = c.inputLen2) ∧
    (k.has "HashBits2" = false → (setDefaults k c).hashBits2 = c.hashBits2) ∧
    (k.has "MinMatchLen" = false → (setDefaults k c).minMatchLen = c.minMatchLen) ∧
    (k.has "MaxMatchLen" = false → (setDefaults k c).maxMatchLen = c.maxMatchLen) ∧
    (k.has "BucketSize" = false → (setDefaults k c).bucketSize = c.bucketSize) ∧
    (k.has "Cost" = false → (setDefaults k c).cost = c.cost) := by
  refine ⟨?_, ?_, ?_, ?_, ?_, ?_, ?_, ?_, ?_, ?_⟩ <;> intro hk
  · rw [setDefaults_inputLen, hk]; rfl
  · rw [setDefaults_hashBits, hk]; rfl
  · rw [setDefaults_inputLen1, hk]; rfl
  · rw [setDefaults_hashBits1, hk]; rfl
  · rw [setDefaults_inputLen2, hk]; rfl
  · rw [setDefaults_hashBits2, hk]; rfl
  · rw [setDefaults_minMatchLen, hk]; rfl
  · rw [setDefaults_maxMatchLen, hk]; rfl
  · rw [setDefaults_bucketSize, hk]; rfl
  · rw [setDefaults_cost, hk]; rfl

/-- after `SetDefaults` no field of the type is zero any more — except `ShrinkSize`, whose
    default `BufferSize >> 1` is 0 for `BufferSize = 1` (and -1 … for negative sizes).  Uses the
    named obligations `FactsOb.def…_ne_zero`.  Consequence: the boundary values `WindowSize = 0`
    and `HashBits = 0`, which `Verify` accepts, cannot be requested through `NewParser`. -/
theorem setDefaults_nonzero (k : Kind) (c : Cfg) :
    (setDefaults k c).windowSize ≠ 0 ∧ (setDefaults k c).bufferSize ≠ 0 ∧
    (setDefaults k c).blockSize ≠ 0 ∧
    (k.has "InputLen" → (setDefaults k c).inputLen ≠ 0) ∧
    (k.has "HashBits" → (setDefaults k c).hashBits ≠ 0) ∧
    (k.has "InputLen1" → (setDefaults k c).inputLen1 ≠ 0) ∧
    (k.has "HashBits1" → (setDefaults k c).hashBits1 ≠ 0) ∧
    (k.has "InputLen2" → (setDefaults k c).inputLen2 ≠ 0) ∧
    (k.has "HashBits2" → (setDefaults k c).hashBits2 ≠ 0) ∧
    (k.has "MinMatchLen" → (setDefaults k c).minMatchLen ≠ 0) ∧
    (k.has "MaxMatchLen" → (setDefaults k c).maxMatchLen ≠ 0) ∧
    (k.has "BucketSize" → (setDefaults k c).bucketSize ≠ 0) ∧
    (k.has "Cost" → (setDefaults k c).cost ≠ "") := by
  have hw : (setDefaults k c).windowSize ≠ 0 := by
    rw [setDefaults_windowSize]; split
    · exact FactsOb.defWindowSize_ne_zero
    · assumption
  refine ⟨hw, ?_, ?_, ?_, ?_, ?_, ?_, ?_, ?_, ?_, ?_, ?_, ?_⟩
  · rw [setDefaults_bufferSize]; split
    · exact hw
    · assumption
  · rw [setDefaults_blockSize]; split
    · exact FactsOb.defBlockSize_ne_zero
    · assumption
  · intro hk; rw [setDefaults_inputLen, if_pos hk]; split
    · exact FactsOb.defInputLen_ne_zero
    · assumption
  · intro hk; rw [setDefaults_hashBits, if_pos hk]; split
    · cases k
      all_goals first | exact FactsOb.defHashBits_ne_zero | exact FactsOb.defBucketHashBits_ne_zero
    · assumption
  · intro hk; rw [setDefaults_inputLen1, if_pos hk]; split
    · exact FactsOb.defInputLen_ne_zero
    · assumption
  · intro hk; rw [setDefaults_hashBits1, if_pos hk]; split
    · exact FactsOb.defHashBits_ne_zero
    · assumption
  · intro hk; rw [setDefaults_inputLen2, if_pos hk]; split
    · split
      · exact FactsOb.defInputLen2Small_ne_zero
      · exact FactsOb.defInputLen2Large_ne_zero
    · assumption
  · intro hk; rw [setDefaults_hashBits2, if_pos hk]; split
    · exact FactsOb.defHashBits_ne_zero
    · assumption
  · intro hk; rw [setDefaults_minMatchLen, if_pos hk]; split
    · exact FactsOb.defMinMatchLen_ne_zero
    · assumption
  · intro hk; rw [setDefaults_maxMatchLen, if_pos hk]; split
    · exact FactsOb.defMaxMatchLen_ne_zero
    · assumption
  · intro hk; rw [setDefaults_bucketSize, if_pos hk]; split
    · exact FactsOb.defBucketSize_ne_zero
    · assumption
  · intro hk; rw [setDefaults_cost, if_pos hk]; split
    · exact FactsOb.defCost_ne_empty
    · assumption

/-- defaults never touch fields the type does not have: the defaults-completed value of a
    configuration of type `k` is again a configuration of type `k` -/
theorem setDefaults_restrict (k : Kind) (c : Cfg) :
    (setDefaults k (c.restrict k)).restrict k = setDefaults k (c.restrict k) :=
  Cfg.restrict_eq_self (setDefaults_ofKind (Cfg.restrict_ofKind k c))

theorem restrict_idem (k : Kind) (c : Cfg) : (c.restrict k).restrict k = c.restrict k :=
  Cfg.restrict_restrict k c

/-! ## 2. NewParser succeeds iff the defaults-completed configuration verifies (C16 clause 1);
       the reported configuration (C20) -/

/-- C16 clause 1 -/
theorem newParser_isSome_iff (k : Kind) (raw : Cfg) :
    (newParser k raw).isSome ↔ verify k (setDefaults k (raw.restrict k)) = true := by
  unfold newParser
  simp only
  split <;> simp [*]

theorem newParser_isSome_iff_accepted (k : Kind) (raw : Cfg) :
    (newParser k raw).isSome ↔ accepted k raw = true :=
  newParser_isSome_iff k raw

/-- otherwise it returns an error (`none`) — a total function, no panic, for any field values -/
theorem newParser_eq_none_iff (k : Kind) (raw : Cfg) :
    newParser k raw = none ↔ verify k (setDefaults k (raw.restrict k)) = false := by
  unfold newParser
  simp only
  split <;> simp [*]

/-- "the configuration reported by a parser equals the defaults-completed configuration it
    was created from" (ParserConfig), its type, and BufferConfig -/
theorem newParser_cfg {k : Kind} {raw : Cfg} {p : Parser} (h : newParser k raw = some p) :
    p.cfg = setDefaults k (raw.restrict k) ∧ p.kind = k ∧ p.buf.cfg = p.cfg.bufCfg := by
  unfold newParser at h
  simp only at h
  split at h
  · cases h; exact ⟨rfl, rfl, rfl⟩
  · cases h

/-- the reported configuration passes `Verify` and is a configuration of type `k` -/
theorem newParser_cfg_verify {k : Kind} {raw : Cfg} {p : Parser} (h : newParser k raw = some p) :
    verify k p.cfg = true ∧ p.cfg.restrict k = p.cfg := by
  have hs := (newParser_isSome_iff k raw).mp (by rw [h]; rfl)
  rw [(newParser_cfg h).1]
  exact ⟨hs, setDefaults_restrict k raw⟩

/-- "… and creates an identically behaving parser": the parser built from the reported
    configuration is *the same value* (same kind, configuration, empty buffer, fresh
    dictionary), hence every operation of the model gives identical results. -/
theorem newParser_reported {k : Kind} {raw : Cfg} {p : Parser} (h : newParser k raw = some p) :
    newParser k p.cfg = some p := by
  obtain ⟨hv, hr⟩ := newParser_cfg_verify h
  have hc := (newParser_cfg h).1
  have hd : setDefaults k (p.cfg.restrict k) = p.cfg := by
    rw [hr, hc]; exact setDefaults_idem' k _
  unfold newParser at h ⊢
  simp only at h ⊢
  rw [hd, if_pos hv]
  rw [← hc, if_pos hv] at h
  exact h

theorem newParser_reported_idem {k : Kind} {raw : Cfg} {p : Parser} (h : newParser k raw = some p) :
    ∃ p', newParser k p.cfg = some p' ∧ p'.cfg = p.cfg ∧ p' = p :=
  ⟨p, newParser_reported h, rfl, rfl⟩

/-- already completed + verified configurations are reported unchanged -/
theorem newParser_cfg_of_completed {k : Kind} {c : Cfg} {p : Parser}
    (hc : setDefaults k (c.restrict k) = c) (h : newParser k c = some p) : p.cfg = c := by
  rw [(newParser_cfg h).1, hc]

/-! ### Bounds for accepted configurations -/

/-- what `BufConfig.Verify` guarantees, for every kind -/
theorem verify_bounds {k : Kind} {c : Cfg} (h : verify k c = true) :
    1 ≤ c.bufferSize ∧ 0 ≤ c.shrinkSize ∧ c.shrinkSize < c.bufferSize ∧ 0 ≤ c.windowSize ∧
    1 ≤ c.blockSize ∧ c.bufferSize ≤ 2 ^ 32 - 8 ∧ c.windowSize ≤ 2 ^ 32 - 8 ∧
    c.blockSize ≤ 2 ^ 32 - 8 := by
  have := bufVerify_bounds (verify_bufVerify h)
  omega

/-- HP, BHP, BUP: `2 ≤ InputLen ≤ 8`, `0 ≤ HashBits ≤ min 24 (8·InputLen)` -/
theorem verify_hash_bounds {k : Kind} {c : Cfg} (hk : k = .HP ∨ k = .BHP ∨ k = .BUP)
    (h : verify k c = true) :
    2 ≤ c.inputLen ∧ c.inputLen ≤ 8 ∧ 0 ≤ c.hashBits ∧ c.hashBits ≤ 24 ∧
    c.hashBits ≤ 8 * c.inputLen := by
  have h1 := FactsOb.minInputLen_ge_two
  have h2 := FactsOb.maxInputLen_le_eight
  have h3 := FactsOb.maxHashBits_le
  have h4 := FactsOb.maxBucketHashBits_le
  rcases hk with rfl | rfl | rfl <;> simp only [verify, Bool.and_eq_true] at h
  · have := hashVerify_bounds h.2; omega
  · have := hashVerify_bounds h.2; omega
  · have := hashVerify_bounds h.1.2; omega

/-- DHP, BDHP: both hashes in range and `InputLen1 < InputLen2` -/
theorem verify_dh_bounds {k : Kind} {c : Cfg} (hk : k = .DHP ∨ k = .BDHP)
    (h : verify k c = true) :
    2 ≤ c.inputLen1 ∧ c.inputLen1 < c.inputLen2 ∧ c.inputLen2 ≤ 8 ∧
    0 ≤ c.hashBits1 ∧ c.hashBits1 ≤ 24 ∧ c.hashBits1 ≤ 8 * c.inputLen1 ∧
    0 ≤ c.hashBits2 ∧ c.hashBits2 ≤ 24 ∧ c.hashBits2 ≤ 8 * c.inputLen2 := by
  have h1 := FactsOb.minInputLen_ge_two
  have h2 := FactsOb.maxInputLen_le_eight
  have h3 := FactsOb.maxHashBits_le
  rcases hk with rfl | rfl <;> simp only [verify, Bool.and_eq_true, decide_eq_true_eq] at h <;>
    (have a := hashVerify_bounds h.1.1.2; have b := hashVerify_bounds h.1.2; omega)

/-- BUP: `1 ≤ BucketSize ≤ 128` -/
theorem verify_bup_bounds {c : Cfg} (h : verify .BUP c = true) :
    1 ≤ c.bucketSize ∧ c.bucketSize ≤ 128 := by
  have h1 := FactsOb.maxBucketSize_le
  have h0 : Facts.minBucketSize = 1 := by decide
  simp only [verify, Bool.and_eq_true, decide_eq_true_eq] at h
  omega

/-- GSAP: `2 ≤ MinMatchLen ≤ WindowSize ≤ MaxInt32` -/
theorem verify_gsap_bounds {c : Cfg} (h : verify .GSAP c = true) :
    2 ≤ c.minMatchLen ∧ c.minMatchLen ≤ c.windowSize ∧ c.windowSize ≤ Facts.maxInt32 := by
  simp only [verify, Bool.and_eq_true, decide_eq_true_eq] at h
  omega

/-- OSAP: `2 ≤ MinMatchLen ≤ MaxMatchLen` and the only accepted cost function -/
theorem verify_osap_bounds {c : Cfg} (h : verify .OSAP c = true) :
    2 ≤ c.minMatchLen ∧ c.minMatchLen ≤ c.maxMatchLen ∧ c.cost = Facts.defCost := by
  simp only [verify, Bool.and_eq_true, decide_eq_true_eq] at h
  exact ⟨h.1.1.2.1, h.1.1.2.2, h.1.2⟩

/-- GSAP and OSAP: `BufferSize ≤ MaxInt32` (fix for D18: the suffix array has `int32` entries) -/
theorem verify_sap_bufferSize {k : Kind} {c : Cfg} (hk : k = .GSAP ∨ k = .OSAP)
    (h : verify k c = true) : c.bufferSize ≤ 2147483647 := by
  rcases hk with rfl | rfl <;>
    simp only [verify, Bool.and_eq_true, decide_eq_true_eq] at h <;> exact h.2

theorem verify_sap_minMatch {k : Kind} {c : Cfg} (hk : k = .GSAP ∨ k = .OSAP)
    (h : verify k c = true) : 2 ≤ c.minMatchLen := by
  rcases hk with rfl | rfl
  · exact (verify_gsap_bounds h).1
  · exact (verify_osap_bounds h).1

/-- every parser obtained from `NewParser` has a minimal match length of at least 2 -/
theorem newParser_minMatch_ge_two {k : Kind} {raw : Cfg} {p : Parser}
    (h : newParser k raw = some p) : 2 ≤ p.minMatch := by
  obtain ⟨hv, _⟩ := newParser_cfg_verify h
  have hk := (newParser_cfg h).2.1
  unfold Parser.minMatch
  rw [hk]
  cases k
  · have := verify_hash_bounds (Or.inl rfl) hv; simp only; omega
  · have := verify_hash_bounds (Or.inr (Or.inl rfl)) hv; simp only; omega
  · have := verify_dh_bounds (Or.inl rfl) hv; simp only; omega
  · have := verify_dh_bounds (Or.inr rfl) hv; simp only; omega
  · have := verify_hash_bounds (Or.inr (Or.inr rfl)) hv; simp only; omega
  · have := verify_gsap_bounds hv; simp only; omega
  · have := verify_osap_bounds hv; simp only; omega

/-- the reported configuration has `WindowSize ≥ 1`, and `HashBits ≥ 1` for every hash it has
    (zero is replaced by the default before `Verify`) -/
theorem newParser_pos {k : Kind} {raw : Cfg} {p : Parser} (h : newParser k raw = some p) :
    1 ≤ p.cfg.windowSize ∧ (k.has "HashBits" → 1 ≤ p.cfg.hashBits) ∧
    (k.has "HashBits1" → 1 ≤ p.cfg.hashBits1 ∧ 1 ≤ p.cfg.hashBits2) := by
  obtain ⟨hv, _⟩ := newParser_cfg_verify h
  have hb := verify_bounds hv
  have hc := (newParser_cfg h).1
  have hn := setDefaults_nonzero k (raw.restrict k)
  rw [← hc] at hn
  refine ⟨by omega, fun hk => ?_, fun hk => ?_⟩
  · have h0 := hn.2.2.2.2.1 hk
    have : k = .HP ∨ k = .BHP ∨ k = .BUP := by cases k <;> simp_all [Kind.has, Kind.fields]
    have := verify_hash_bounds this hv
    omega
  · have hk2 : k.has "HashBits2" = true := by cases k <;> simp_all [Kind.has, Kind.fields]
    have h1 := hn.2.2.2.2.2.2.1 hk
    have h2 := hn.2.2.2.2.2.2.2.2.1 hk2
    have : k = .DHP ∨ k = .BDHP := by cases k <;> simp_all [Kind.has, Kind.fields]
    have := verify_dh_bounds this hv
    omega

/-- `BufferConfig()` of a parser reports exactly the `BufConfig` part of `ParserConfig()`
    (the buffer stores the sizes as naturals; nothing is lost because they are ≥ 0) -/
theorem newParser_bufferConfig {k : Kind} {raw : Cfg} {p : Parser} (h : newParser k raw = some p) :
    (p.buf.cfg.shrinkSize : Int) = p.cfg.shrinkSize ∧ (p.buf.cfg.bufferSize : Int) = p.cfg.bufferSize ∧
    (p.buf.cfg.windowSize : Int) = p.cfg.windowSize ∧ (p.buf.cfg.blockSize : Int) = p.cfg.blockSize := by
  have hb := verify_bounds (newParser_cfg_verify h).1
  rw [(newParser_cfg h).2.2]
  simp only [Cfg.bufCfg]
  omega

/-! ## 3. JSON round trip (C20) -/

/-- the generic core: decoding the marshalled union record gives back the type name and every
    field (zero fields are omitted by `omitempty` and come back as zero).  Proved from the
    named obligations `unionFields_nodup_lower` (a), `Cfg.ext_getInt`/`getInt_setInt_self`
    (every `Cfg` field is a union field of the right type) and `asciiLower_Type`. -/
theorem unmarshalUnion_marshal (k : Kind) (c : Cfg) :
    unmarshalUnion (marshalCfg k c) = some (k.name, c) :=
  unmarshalUnion_marshalCfg k c

/-- **`ParseJSON(json.Marshal(&cfg))` yields the same type with identical fields**, for every
    kind and every configuration value (all `Int` values, any `Cost` string). -/
theorem parseJSON_marshal (k : Kind) (c : Cfg) :
    parseJSON (.obj (marshalCfg k (c.restrict k))) = some (k, c.restrict k) := by
  unfold parseJSON
  simp only [unmarshalType_marshalCfg, kind_ofName_name, unmarshalUnion_marshalCfg,
    Cfg.restrict_restrict, ne_eq, not_true_eq_false, if_false]

/-- `cfg.UnmarshalJSON(json.Marshal(&cfg))` for the fixed type -/
theorem unmarshalAs_marshal (k : Kind) (c : Cfg) :
    unmarshalAs k (.obj (marshalCfg k (c.restrict k))) = some (c.restrict k) := by
  unfold unmarshalAs
  simp only [unmarshalUnion_marshalCfg, Cfg.restrict_restrict, ne_eq, not_true_eq_false, if_false]

/-- the round trip composed with defaults: parsing the marshalled *reported* configuration of
    a parser gives a configuration that creates the same parser -/
theorem parseJSON_marshal_reported {k : Kind} {raw : Cfg} {p : Parser}
    (h : newParser k raw = some p) :
    parseJSON (.obj (marshalCfg k p.cfg)) = some (k, p.cfg) ∧ newParser k p.cfg = some p := by
  have hr := (newParser_cfg_verify h).2
  have := parseJSON_marshal k p.cfg
  rw [hr] at this
  exact ⟨this, newParser_reported h⟩

/-- the marshalled document mentions only `Type` and fields of the configuration type … -/
theorem marshal_keys {k : Kind} {c : Cfg} {f : String} {v : JField}
    (h : (f, v) ∈ marshalCfg k (c.restrict k)) : f = "Type" ∨ f ∈ k.fields := by
  rw [marshalCfg_eq] at h
  rcases List.mem_cons.mp h with h | h
  · left; exact (Prod.mk.inj h).1
  · right
    obtain ⟨x, hx, he⟩ := List.mem_filterMap.mp h
    exact encField_restrict_key hx he

/-- … omits zero values … -/
theorem marshal_omitempty {k : Kind} {c : Cfg} {f : String} {v : JField}
    (h : (f, v) ∈ marshalCfg k c) : v ≠ .int 0 ∧ v ≠ .str "" ∨ (f = "Type" ∧ v = .str k.name) := by
  rw [marshalCfg_eq] at h
  rcases List.mem_cons.mp h with h | h
  · right; exact ⟨(Prod.mk.inj h).1, (Prod.mk.inj h).2⟩
  · left
    obtain ⟨x, _, he⟩ := List.mem_filterMap.mp h
    unfold encField at he
    split at he <;> split at he <;> cases he <;> simp_all

/-- … and contains every non-zero field of the type (uses obligation (b)
    `kind_fields_in_union`: the field exists in the union with the right Go type) -/
theorem marshal_complete {k : Kind} {c : Cfg} {f : String} (hf : f ∈ k.fields) :
    (f ≠ "Cost" → c.getInt f ≠ 0 → (f, .int (c.getInt f)) ∈ marshalCfg k (c.restrict k)) ∧
    (f = "Cost" → c.cost ≠ "" → (f, .str c.cost) ∈ marshalCfg k (c.restrict k)) := by
  have hu := kind_fields_in_union k f hf
  have hhas : k.fields.contains f = true := List.contains_iff_mem.mpr hf
  rw [marshalCfg_eq]
  constructor
  · intro hne hz
    have hb : (f == "Cost") = false := by simpa using hne
    rw [hb] at hu
    apply List.mem_cons_of_mem
    apply List.mem_filterMap.mpr
    refine ⟨(f, false), hu, ?_⟩
    simp [encField, restrict_getInt, hf, hz]
  · intro he hz
    have hb : (f == "Cost") = true := by simpa using he
    rw [hb] at hu
    apply List.mem_cons_of_mem
    apply List.mem_filterMap.mpr
    refine ⟨(f, true), hu, ?_⟩
    subst he
    have : k.has "Cost" = true := hhas
    simp [encField, restrict_cost, this, hz]

/-! ## 4. Rejection (C20) -/

/-- a document whose `Type` is not one of the seven names is rejected -/
theorem parseJSON_reject_unknown {fields : List (String × JField)} {t : String}
    (hu : ∀ k : Kind, t ≠ k.name) (ht : unmarshalType fields = some t) :
    parseJSON (.obj fields) = none := by
  unfold parseJSON
  simp only [ht]
  cases hk : Kind.ofName? t with
  | none => rfl
  | some k => exact absurd (kind_ofName_eq_some hk) (hu k)

/-- a missing `Type`, `"Type": null` or `"Type": ""` is an unknown type -/
theorem parseJSON_reject_empty_type {fields : List (String × JField)}
    (ht : unmarshalType fields = some "") : parseJSON (.obj fields) = none :=
  parseJSON_reject_unknown (fun k => by cases k <;> decide) ht

/-- whatever `ParseJSON` accepts carries the name of the returned type -/
theorem parseJSON_type {fields : List (String × JField)} {k : Kind} {c : Cfg}
    (h : parseJSON (.obj fields) = some (k, c)) : unmarshalType fields = some k.name := by
  unfold parseJSON at h
  simp only at h
  split at h
  · cases h
  · rename_i t ht
    split at h
    · cases h
    · rename_i k' hk'
      split at h
      · cases h
      · split at h
        · cases h
        · cases h
          rw [ht, kind_ofName_eq_some hk']

/-- the result of `ParseJSON` is a configuration of the returned type -/
theorem parseJSON_ofKind {d : JDoc} {k : Kind} {c : Cfg} (h : parseJSON d = some (k, c)) :
    c.restrict k = c := by
  unfold parseJSON at h
  split at h <;> try cases h
  split at h <;> try cases h
  split at h <;> try cases h
  split at h <;> try cases h
  split at h <;> cases h
  exact Cfg.restrict_restrict _ _

/-- exact description of `ParseJSON` on objects in terms of the union decoder (the separate
    `struct{Type string}` pass is redundant: `unmarshalType_of_union`) -/
theorem parseJSON_eq_some_iff {fields : List (String × JField)} {k : Kind} {c : Cfg} :
    parseJSON (.obj fields) = some (k, c) ↔
      ∃ c', unmarshalUnion fields = some (k.name, c') ∧ c = c'.restrict k := by
  constructor
  · intro h
    have ht := parseJSON_type h
    unfold parseJSON at h
    simp only [ht, kind_ofName_name] at h
    split at h
    · cases h
    · rename_i t' c' hu
      split at h
      · cases h
      · rename_i hne
        have : t' = k.name := by simpa using hne
        cases h
        exact ⟨c', by rw [hu, this], rfl⟩
  · rintro ⟨c', hu, rfl⟩
    unfold parseJSON
    simp only [unmarshalType_of_union hu, kind_ofName_name, hu, ne_eq, not_true_eq_false, if_false]

/-- `ParseJSON` and the typed `UnmarshalJSON` agree -/
theorem parseJSON_iff_unmarshalAs {fields : List (String × JField)} {k : Kind} {c : Cfg} :
    parseJSON (.obj fields) = some (k, c) ↔ unmarshalAs k (.obj fields) = some c := by
  rw [parseJSON_eq_some_iff]
  unfold unmarshalAs
  constructor
  · rintro ⟨c', hu, rfl⟩
    simp only [hu, ne_eq, not_true_eq_false, if_false]
  · intro h
    simp only at h
    split at h
    · cases h
    · rename_i t' c' hu
      split at h
      · cases h
      · rename_i hne
        have : t' = k.name := by simpa using hne
        cases h
        exact ⟨c', by rw [hu, this], rfl⟩

/-- a document with a mismatching `Type` is rejected by the typed `UnmarshalJSON` -/
theorem unmarshalAs_reject_mismatch {fields : List (String × JField)} {t : String} {c : Cfg}
    {k : Kind} (hu : unmarshalUnion fields = some (t, c)) (hne : t ≠ k.name) :
    unmarshalAs k (.obj fields) = none := by
  unfold unmarshalAs
  simp only [hu, hne, ne_eq, not_false_eq_true, if_true]

/-- in particular a document marshalled from another configuration type -/
theorem unmarshalAs_reject_other_kind {k k' : Kind} (c : Cfg) (h : k' ≠ k) :
    unmarshalAs k (.obj (marshalCfg k' c)) = none :=
  unmarshalAs_reject_mismatch (unmarshalUnion_marshalCfg k' c) (fun he => h (kind_names_injective he))

/-- non-objects, `null` and invalid documents are rejected -/
theorem parseJSON_reject_nonObject :
    parseJSON .invalid = none ∧ parseJSON .null = none ∧ parseJSON .nonObject = none :=
  ⟨rfl, rfl, rfl⟩

theorem unmarshalAs_reject_nonObject (k : Kind) :
    unmarshalAs k .invalid = none ∧ unmarshalAs k .null = none ∧ unmarshalAs k .nonObject = none :=
  ⟨rfl, rfl, rfl⟩

theorem parseJSON_some_is_obj {d : JDoc} {r : Kind × Cfg} (h : parseJSON d = some r) :
    ∃ fields, d = .obj fields := by
  cases d <;> first | cases h | exact ⟨_, rfl⟩

/-- the union decoder fails exactly when some member matches a union field (case-insensitively)
    but has a value of the wrong JSON type (`null` is always accepted) -/
theorem unmarshalUnion_eq_none_iff (fields : List (String × JField)) :
    unmarshalUnion fields = none ↔ ∃ kv ∈ fields, wrongMember kv.1 kv.2 = true := by
  have h := unmarshalUnion_isSome fields
  have h2 : (fields.any fun kv => wrongMember kv.1 kv.2) = true ↔
      ∃ kv ∈ fields, wrongMember kv.1 kv.2 = true := List.any_eq_true
  rw [← h2]
  cases hu : unmarshalUnion fields <;> cases ha : fields.any (fun kv => wrongMember kv.1 kv.2) <;>
    simp_all

/-- **a member whose key matches a union field but whose value has the wrong JSON type makes
    `ParseJSON` (and `UnmarshalJSON`) fail** — whatever the type, the position of the member
    and the rest of the document. -/
theorem reject_wrong_type {fields : List (String × JField)} {key f : String} {isStr : Bool}
    {v : JField} (hm : (key, v) ∈ fields) (hf : (f, isStr) ∈ unionFields)
    (hk : asciiLower key = asciiLower f) (hw : v.wrongFor isStr = true) :
    parseJSON (.obj fields) = none ∧ ∀ k, unmarshalAs k (.obj fields) = none := by
  have hnone : unmarshalUnion fields = none := by
    rw [unmarshalUnion_eq_none_iff]
    refine ⟨(key, v), hm, ?_⟩
    unfold wrongMember
    rw [union_find hf hk.symm]
    exact hw
  constructor
  · unfold parseJSON
    simp only [hnone]
    split
    · rfl
    · split <;> rfl
  · intro k
    unfold unmarshalAs
    simp only [hnone]

/-! ## 5. Clone (C20) -/

/-- configurations are values in the model: `Clone` is the identity -/
def Cfg.clone (c : Cfg) : Cfg := c

/-- `Clone` returns an equal copy.  Independence of the copy is value semantics in the model
    (there is no shared mutable state a later `SetDefaults` on one could reach); on the Go side
    `Clone` is `x := *cfg; return &x` on structs of `int`/`string` fields, which the
    correspondence harness checks (reflect.DeepEqual and mutation of the original). -/
theorem clone_eq (c : Cfg) : c.clone = c := rfl

/-! ## 6. Non-vacuity: concrete configurations -/

/-- HP with all defaults is accepted -/
example : (newParser .HP {}).isSome = true := by decide

/-- an HP configuration with negative and huge fields -/
def exHP : Cfg :=
  { shrinkSize := -5, bufferSize := 9223372036854775807, windowSize := -9223372036854775808,
    blockSize := 0, inputLen := 77, hashBits := -1 }

/-- … round trip works (it is a configuration of type HP: `restrict` changes nothing) … -/
example : exHP.restrict .HP = exHP := by decide
example : parseJSON (.obj (marshalCfg .HP exHP)) = some (.HP, exHP) := parseJSON_marshal .HP exHP

/-- … NewParser rejects it … -/
example : (newParser .HP exHP).isSome = false := by decide

/-- … and this is what the marshalled document looks like (`BlockSize` omitted) -/
example :
    marshalCfg .HP exHP =
    [("Type", .str "HP"), ("ShrinkSize", .int (-5)), ("BufferSize", .int 9223372036854775807),
     ("WindowSize", .int (-9223372036854775808)), ("InputLen", .int 77), ("HashBits", .int (-1))] := by
  decide

/-- OSAP with a cost string and the boundary `MinMatchLen = MaxMatchLen`, `WindowSize = BlockSize = 1` -/
def exOSAP : Cfg :=
  { bufferSize := 100, windowSize := 1, blockSize := 1, minMatchLen := 2, maxMatchLen := 2,
    cost := "XZCost" }

example : (newParser .OSAP exOSAP).isSome = true := by decide
example : parseJSON (.obj (marshalCfg .OSAP exOSAP)) = some (.OSAP, exOSAP) :=
  parseJSON_marshal .OSAP exOSAP
example :
    marshalCfg .OSAP exOSAP =
    [("Type", .str "OSAP"), ("BufferSize", .int 100), ("WindowSize", .int 1), ("BlockSize", .int 1),
     ("MinMatchLen", .int 2), ("MaxMatchLen", .int 2), ("Cost", .str "XZCost")] := by decide

/-- an unknown cost function survives JSON but is rejected by NewParser -/
example :
    (newParser .OSAP { minMatchLen := 2, maxMatchLen := 2, cost := "NoSuchCost" }).isSome = false := by
  decide

/-- DHP defaults: InputLen2 depends on InputLen1 -/
example : (setDefaults .DHP {}).inputLen2 = 6 ∧ (setDefaults .DHP { inputLen1 := 5 }).inputLen2 = 8 ∧
    (setDefaults .DHP { inputLen1 := 5 }).inputLen1 = 5 := by decide

/-- BUP at the boundaries `ShrinkSize = BufferSize - 1`, `BucketSize = 128`, `HashBits = 0` is
    accepted; `ShrinkSize = BufferSize` is rejected -/
def exBUP : Cfg :=
  { shrinkSize := 7, bufferSize := 8, windowSize := 1, blockSize := 1, inputLen := 2, hashBits := 16,
    bucketSize := 128 }
example : (newParser .BUP exBUP).isSome = true := by decide
example : (newParser .BUP { exBUP with shrinkSize := 8 }).isSome = false := by decide
example : (newParser .BUP { shrinkSize := 8, bufferSize := 8 }).isSome = false := by decide

/-- the reported configuration of a default GSAP parser -/
example : ((newParser .GSAP {}).map (·.cfg)) =
    some { shrinkSize := 32768, bufferSize := 8388608, windowSize := 8388608, blockSize := 131072, minMatchLen := 3 } := by
  decide

/-- restriction really removes foreign fields: a GSAP configuration has no `Cost` -/
example : ({ cost := "abc", inputLen := 4, minMatchLen := 9 } : Cfg).restrict .GSAP =
    { minMatchLen := 9 } := by decide

/-- a hand-written document with odd key case, a duplicate and a `null` is accepted … -/
example :
    parseJSON (.obj [("tYPE", .str "BUP"), ("buffersize", .int 5), ("BUFFERSIZE", .int (-6)),
      ("Unknown", .composite), ("HashBits", .null), ("MinMatchLen", .int 3)]) =
    some (.BUP, { bufferSize := -6 }) := by
  rw [parseJSON_eq_some_iff]
  refine ⟨{ bufferSize := -6, minMatchLen := 3 }, ?_, by decide⟩
  simp only [unmarshalUnion, List.foldl_cons, List.foldl_nil, unmarshalMember, asciiLower_eq]
  decide

/-- … an unknown type, a mismatching type and a wrongly typed member are rejected -/
example : parseJSON (.obj [("Type", .str "LZ77")]) = none := by
  apply parseJSON_reject_unknown (t := "LZ77") (fun k => by cases k <;> decide)
  rw [unmarshalType_eq]
  simp only [List.foldl_cons, List.foldl_nil, tstep, asciiLower_eq]
  decide

example : unmarshalAs .HP (.obj (marshalCfg .BHP { inputLen := 3 })) = none :=
  unmarshalAs_reject_other_kind _ (by decide)

example : parseJSON (.obj [("Type", .str "HP"), ("inputlen", .str "3")]) = none :=
  (reject_wrong_type (key := "inputlen") (f := "InputLen") (isStr := false) (v := .str "3")
    (by decide) (by decide) (by simp only [asciiLower_eq]; decide) (by decide)).1

end LZ

section axioms
open LZ
#print axioms setDefaults_idem
#print axioms setDefaults_idem_restrict
#print axioms setDefaults_only_zero
#print axioms setDefaults_zero_default
#print axioms documented_default_values
#print axioms setDefaults_untouched
#print axioms setDefaults_restrict
#print axioms setDefaults_nonzero
#print axioms newParser_pos
#print axioms newParser_isSome_iff
#print axioms newParser_eq_none_iff
#print axioms newParser_cfg
#print axioms newParser_cfg_verify
#print axioms newParser_reported
#print axioms newParser_reported_idem
#print axioms verify_bounds
#print axioms verify_hash_bounds
#print axioms verify_dh_bounds
#print axioms verify_bup_bounds
#print axioms verify_gsap_bounds
#print axioms verify_osap_bounds
#print axioms newParser_minMatch_ge_two
#print axioms newParser_bufferConfig
#print axioms unmarshalUnion_marshal
#print axioms parseJSON_marshal
#print axioms unmarshalAs_marshal
#print axioms parseJSON_marshal_reported
#print axioms marshal_keys
#print axioms marshal_omitempty
#print axioms marshal_complete
#print axioms parseJSON_reject_unknown
#print axioms parseJSON_reject_empty_type
#print axioms parseJSON_type
#print axioms parseJSON_ofKind
#print axioms parseJSON_eq_some_iff
#print axioms parseJSON_iff_unmarshalAs
#print axioms unmarshalAs_reject_mismatch
#print axioms unmarshalAs_reject_other_kind
#print axioms parseJSON_reject_nonObject
#print axioms unmarshalAs_reject_nonObject
#print axioms unmarshalUnion_eq_none_iff
#print axioms reject_wrong_type
#print axioms clone_eq
#print axioms newParser_isSome_iff_accepted
#print axioms newParser_cfg_of_completed
#print axioms verify_sap_minMatch
#print axioms parseJSON_some_is_obj
#print axioms restrict_idem
#print axioms unmarshalType_of_union
#print axioms Cfg.ext_getInt
#print axioms unionFields_nodup_lower
#print axioms kind_fields_in_union
#print axioms kind_names_injective
#print axioms kind_ofName_name
end axioms
