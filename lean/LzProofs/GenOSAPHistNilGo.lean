/-
  LzProofs.GenOSAPHistNilGo — the theorems of LzProofs/GenOSAPHistNil.lean (histories of OSAP WITH `Parse(nil, flags)`)
  restated with the TRANSLATED `(*optSuffixArrayParser).computeEdges` as the callee of the translated `Parse`
  (`…_ce_go`), exactly as LzProofs/GenOSAPHistGo.lean does for the histories without `Parse(nil)`: `CESpec` is discharged by
  `cespec_go` for `ceW` (= the translated `computeEdges` wherever `WindowSize < 2^32`, i.e. on every state of a history),
  and running with `ceGo` IS running with `ceW`.  Hypotheses left: `EdgeSpecs SS LCP SEG SRT` (the four callees outside
  osap.go), init returned nil, `MinMatchLen < 2^32`, fuel `BufferSize + 2^31 + 4` for `Parse`, `2^31` for `computeEdges`.
  No sorry, no axioms of its own.

    parseNil_congr    the nil path of the translated `Parse` does not call `computeEdges`
    stepN_go, runN_go, runN_go_init   along every history (with `Parse(nil)`) from a state with `HistOKO`, running with
                      `ceGo` is running with `ceW`
    gen_osap_history_nil_ce_go, C01_go_text_osap_nil_ce_go, C03_go_text_osap_nil_ce_go, C14_skip_go_text_osap_ce_go,
    C14_go_text_osap_ce_go            the theorems with `ce := ceGo` (C14: in the history AND in the two final calls)
-/
import LzProofs.GenOSAPHistNil
import LzProofs.GenOSAPHistGo

set_option linter.unusedSimpArgs false
set_option linter.unusedVariables false

namespace LZ.GenOSAPHist
open LZ LZ.Gen LZ.GenBuf LZ.GenHash LZ.GenSuffix LZ.GenHPParse LZ.GenProps LZ.GenOSAP LZ.GenNil
open LZ.GenGSAP (SortSpec)
open LZ.GenHPHist (GOp GRes GOp.WF GOp.abs resAgree ResultsAgree ghostStep ghostRun parseErr_ok_iff step_parse_fst
  step_reset_fst bind_ok' GOpR GResR GOpR.WF GOpR.abs resAgreeR ResultsAgreeR ghostStepR ghostRunR genErr RFun RFSpec
  rfGo rfGo_spec GOpN GResN GOpN.WF GOpN.abs resAgreeN ResultsAgreeN ghostStepN ghostRunN step_parseNil_fst)

section
variable {SS : Slice → GSlice Int32 → Res (GSlice Int32)}
  {LCP : Slice → GSlice Int32 → GSlice Int32 → GSlice Int32 → Res (GSlice Int32)}
  {SEG : GSlice Int32 → GSlice Int32 → Int → Int → Res (List (Int × GSlice Int32))}
  {SRT : GSlice Int32 → Res (GSlice Int32)}

/-- the nil path of the translated `Parse` does not call `computeEdges` -/
theorem parseNil_congr (grow : Nat → Nat → Nat) (fuel : Nat) (ce1 ce2 : CEFun) (s : Gen.optSuffixArrayParser)
    (blk : Gen.Block') (flags : Int) :
    optSuffixArrayParser_Parse_nilable grow fuel ce1 s true blk flags =
      optSuffixArrayParser_Parse_nilable grow fuel ce2 s true blk flags := by
  unfold optSuffixArrayParser_Parse_nilable
  simp only [if_true]

theorem stepN_go {bc : BufCfg} (hbc : BCOKO bc) (grow : Nat → Nat → Nat) (fuelE : Nat) (extra fuel : Nat)
    {t : Gen.optSuffixArrayParser} (h : HistOKO bc 2147483647 t) (op : GOpN) :
    stepN extra grow fuel (ceGo grow fuelE SS LCP SEG SRT) t op = stepN extra grow fuel (ceW grow fuelE SS LCP SEG SRT) t op := by
  cases op with
  | r op =>
    simp only [stepN]
    rw [stepO_go hbc grow fuelE extra fuel h op]
  | parseNil ghost flags =>
    simp only [stepN]
    rw [parseNil_congr grow fuel (ceGo grow fuelE SS LCP SEG SRT) (ceW grow fuelE SS LCP SEG SRT)]

/-- **running with the translated `computeEdges` is running with `ceW`** along every history WITH `Parse(nil)` from a state
    with `HistOKO` -/
theorem runN_go {bc : BufCfg} (hbc : BCOKO bc) (sp : EdgeSpecs SS LCP SEG SRT) (grow : Nat → Nat → Nat) (fuelE : Nat)
    (hfE : 2147483648 ≤ fuelE) (extra fuel : Nat) (hfuel : bc.bufferSize + 2147483647 + 5 ≤ fuel)
    (raw : Cfg) (p0 : Parser) (h0 : newParser .OSAP raw = some p0) :
    ∀ (ops : List GOpN) (mops : List POp) (t : Gen.optSuffixArrayParser) (gh : Ghost), HistOKO bc 2147483647 t →
      (ofOSAPs t, gh) = runOps (p0, Ghost.init) mops → (∀ op ∈ ops, op.WF) →
      runN extra grow fuel (ceGo grow fuelE SS LCP SEG SRT) t ops = runN extra grow fuel (ceW grow fuelE SS LCP SEG SRT) t ops := by
  intro ops
  induction ops with
  | nil => intro _ _ _ _ _ _; rfl
  | cons op ops ih =>
    intro mops t gh h hreach hwf
    obtain ⟨t1, r, h1, h2, h3, h4, h5⟩ :=
      stepN_sim hbc _ (cespec_go sp grow fuelE hfE) extra grow fuel hfuel raw p0 h0 mops t gh h hreach op
        (hwf op (List.mem_cons_self ..))
    have hsg : step (ofOSAPs t, gh) op.abs = (ofOSAPs t1, ghostStepN gh op r) := by rw [h3, h4]
    have hreach1 : (ofOSAPs t1, ghostStepN gh op r) = runOps (p0, Ghost.init) (mops ++ [op.abs]) := by
      rw [runOps_snoc, ← hreach, hsg]
    have := ih (mops ++ [op.abs]) t1 (ghostStepN gh op r) h2 hreach1 (fun o ho => hwf o (List.mem_cons_of_mem _ ho))
    show Res.bind (stepN extra grow fuel (ceGo grow fuelE SS LCP SEG SRT) t op) _ =
      Res.bind (stepN extra grow fuel (ceW grow fuelE SS LCP SEG SRT) t op) _
    rw [stepN_go hbc grow fuelE extra fuel h op, h1, bind_ok', bind_ok']
    simp only []
    rw [this]

/-- … from `init` -/
theorem runN_go_init (cfg : Gen.OSAPConfig) (s0 : Gen.optSuffixArrayParser)
    (hinit : optSuffixArrayParser_init default cfg = Res.ok (s0, Gen.Err.ok))
    (h32 : s0.OSAPConfig.MinMatchLen < 4294967296) (sp : EdgeSpecs SS LCP SEG SRT)
    (grow : Nat → Nat → Nat) (fuelE : Nat) (hfE : 2147483648 ≤ fuelE) (extra fuel : Nat)
    (hfuel : s0.ParserBuffer.BufConfig.BufferSize.toNat + 2147483647 + 5 ≤ fuel)
    (ops : List GOpN) (hwf : ∀ op ∈ ops, op.WF) :
    runN extra grow fuel (ceGo grow fuelE SS LCP SEG SRT) s0 ops = runN extra grow fuel (ceW grow fuelE SS LCP SEG SRT) s0 ops := by
  obtain ⟨p, hp, h2, hbc, hH⟩ := hist_init 2147483647 cfg s0 hinit h32
  have hf : p.buf.cfg.bufferSize + 2147483647 + 5 ≤ fuel := by
    have : p.buf.cfg = ofCfg s0.ParserBuffer.BufConfig := hH.cfg.symm
    rw [this]; exact hfuel
  exact runN_go hbc sp grow fuelE hfE extra fuel hf (ofOSAP cfg) p hp ops [] s0 Ghost.init hH (by rw [h2]; rfl) hwf

/-- **`gen_osap_history_nil` with the translated `computeEdges`**: every operation of the history (incl. `Parse(nil)`) is
    translated Go text of osap.go / parser_buffer.go -/
theorem gen_osap_history_nil_ce_go (cfg : Gen.OSAPConfig) (s0 : Gen.optSuffixArrayParser)
    (hinit : optSuffixArrayParser_init default cfg = Res.ok (s0, Gen.Err.ok))
    (h32 : s0.OSAPConfig.MinMatchLen < 4294967296) (sp : EdgeSpecs SS LCP SEG SRT)
    (grow : Nat → Nat → Nat) (fuelE : Nat) (hfE : 2147483648 ≤ fuelE) (extra fuel : Nat)
    (hfuel : s0.ParserBuffer.BufConfig.BufferSize.toNat + 2147483647 + 5 ≤ fuel)
    (ops : List GOpN) (hwf : ∀ op ∈ ops, op.WF) :
    ∃ p t rs, newParser .OSAP (ofOSAP cfg) = some p ∧ ofOSAPs s0 = p ∧
      runN extra grow fuel (ceGo grow fuelE SS LCP SEG SRT) s0 ops = Res.ok (t, rs) ∧ ParseOKO 2147483647 t ∧
      ofOSAPs t = (runOps (p, Ghost.init) (ops.map GOpN.abs)).1 ∧
      ghostRunN Ghost.init ops rs = (runOps (p, Ghost.init) (ops.map GOpN.abs)).2 ∧
      ResultsAgreeN (p, Ghost.init) ops rs := by
  rw [runN_go_init cfg s0 hinit h32 sp grow fuelE hfE extra fuel hfuel ops hwf]
  exact gen_osap_history_nil 2147483647 cfg s0 hinit h32 _ (cespec_go sp grow fuelE hfE) extra grow fuel hfuel ops hwf

/-- **C01 about the Go text of OSAP, histories WITH `Parse(nil)`, `computeEdges` translated** -/
theorem C01_go_text_osap_nil_ce_go (cfg : Gen.OSAPConfig) (s0 : Gen.optSuffixArrayParser)
    (hinit : optSuffixArrayParser_init default cfg = Res.ok (s0, Gen.Err.ok))
    (h32 : s0.OSAPConfig.MinMatchLen < 4294967296) (sp : EdgeSpecs SS LCP SEG SRT)
    (grow : Nat → Nat → Nat) (fuelE : Nat) (hfE : 2147483648 ≤ fuelE) (extra fuel : Nat)
    (hfuel : s0.ParserBuffer.BufConfig.BufferSize.toNat + 2147483647 + 5 ≤ fuel)
    (ops : List GOpN) (hwf : ∀ op ∈ ops, op.WF) :
    ∃ t rs, runN extra grow fuel (ceGo grow fuelE SS LCP SEG SRT) s0 ops = Res.ok (t, rs) ∧
      decode [] (ghostRunN Ghost.init ops rs).log =
        some ((ghostRunN Ghost.init ops rs).fed.take (ghostRunN Ghost.init ops rs).consumed) := by
  rw [runN_go_init cfg s0 hinit h32 sp grow fuelE hfE extra fuel hfuel ops hwf]
  exact C01_go_text_osap_nil 2147483647 cfg s0 hinit h32 _ (cespec_go sp grow fuelE hfE) extra grow fuel hfuel ops hwf

/-- **C03 about the Go text of OSAP, histories WITH `Parse(nil)`, `computeEdges` translated** -/
theorem C03_go_text_osap_nil_ce_go (cfg : Gen.OSAPConfig) (s0 : Gen.optSuffixArrayParser)
    (hinit : optSuffixArrayParser_init default cfg = Res.ok (s0, Gen.Err.ok))
    (h32 : s0.OSAPConfig.MinMatchLen < 4294967296) (sp : EdgeSpecs SS LCP SEG SRT)
    (grow : Nat → Nat → Nat) (fuelE : Nat) (hfE : 2147483648 ≤ fuelE) (extra fuel : Nat)
    (hfuel : s0.ParserBuffer.BufConfig.BufferSize.toNat + 2147483647 + 5 ≤ fuel)
    (ops : List GOpN) (hwf : ∀ op ∈ ops, op.WF) :
    ∃ t rs, runN extra grow fuel (ceGo grow fuelE SS LCP SEG SRT) s0 ops = Res.ok (t, rs) ∧
      let g := ghostRunN Ghost.init ops rs
      LogAll (fun pos e => 1 ≤ e.n ∧ e.n ≤ s0.ParserBuffer.BufConfig.BlockSize.toNat ∧
        pos + e.n ≤ g.fed.length ∧
        ∀ n fl blk, e = .block n fl blk →
          blk.len = n ∧ expand (g.fed.take pos) blk = some (g.fed.take (pos + n)) ∧
          (fl % 2 = 1 → blk.seqs ≠ [] → blk.lits.length = litSum blk.seqs ∧ n = seqsSpan blk.seqs)) 0 g.log ∧
      logSpan g.log = g.consumed ∧ g.consumed ≤ g.fed.length := by
  rw [runN_go_init cfg s0 hinit h32 sp grow fuelE hfE extra fuel hfuel ops hwf]
  exact C03_go_text_osap_nil 2147483647 cfg s0 hinit h32 _ (cespec_go sp grow fuelE hfE) extra grow fuel hfuel ops hwf

/-- **C14 (skipped bytes verbatim) about the Go text of OSAP, `computeEdges` translated** -/
theorem C14_skip_go_text_osap_ce_go (cfg : Gen.OSAPConfig) (s0 : Gen.optSuffixArrayParser)
    (hinit : optSuffixArrayParser_init default cfg = Res.ok (s0, Gen.Err.ok))
    (h32 : s0.OSAPConfig.MinMatchLen < 4294967296) (sp : EdgeSpecs SS LCP SEG SRT)
    (grow : Nat → Nat → Nat) (fuelE : Nat) (hfE : 2147483648 ≤ fuelE) (extra fuel : Nat)
    (hfuel : s0.ParserBuffer.BufConfig.BufferSize.toNat + 2147483647 + 5 ≤ fuel)
    (ops : List GOpN) (hwf : ∀ op ∈ ops, op.WF) :
    ∃ t rs, runN extra grow fuel (ceGo grow fuelE SS LCP SEG SRT) s0 ops = Res.ok (t, rs) ∧
      let g := ghostRunN Ghost.init ops rs
      LogAll (fun pos e => ∀ b, e = .skip b →
        1 ≤ b.length ∧ b.length ≤ s0.ParserBuffer.BufConfig.BlockSize.toNat ∧
        b = (g.fed.drop pos).take b.length) 0 g.log := by
  rw [runN_go_init cfg s0 hinit h32 sp grow fuelE hfE extra fuel hfuel ops hwf]
  exact C14_skip_go_text_osap 2147483647 cfg s0 hinit h32 _ (cespec_go sp grow fuelE hfE) extra grow fuel hfuel ops hwf

/-- **C14 about the Go text of OSAP, `computeEdges` translated**: the statement of `C14_go_text_osap` with the translated
    `computeEdges` as the callee of the history AND of the two final calls `Parse(nil, flags)` / `Parse(&blk, 0)`. -/
theorem C14_go_text_osap_ce_go (cfg : Gen.OSAPConfig) (s0 : Gen.optSuffixArrayParser)
    (hinit : optSuffixArrayParser_init default cfg = Res.ok (s0, Gen.Err.ok))
    (h32 : s0.OSAPConfig.MinMatchLen < 4294967296) (sp : EdgeSpecs SS LCP SEG SRT)
    (grow : Nat → Nat → Nat) (fuelE : Nat) (hfE : 2147483648 ≤ fuelE) (extra fuel : Nat)
    (hfuel : s0.ParserBuffer.BufConfig.BufferSize.toNat + 2147483647 + 5 ≤ fuel)
    (ops : List GOpN) (hwf : ∀ op ∈ ops, op.WF) (ghost blk : Gen.Block') (flags : Int) :
    ∃ t rs, runN extra grow fuel (ceGo grow fuelE SS LCP SEG SRT) s0 ops = Res.ok (t, rs) ∧
      ∃ t1 t2 blk' n e,
        optSuffixArrayParser_Parse_nilable grow fuel (ceGo grow fuelE SS LCP SEG SRT) t true ghost flags =
          Res.ok (t1, ghost, n, e) ∧
        optSuffixArrayParser_Parse grow fuel (ceGo grow fuelE SS LCP SEG SRT) t blk 0 = Res.ok (t2, blk', n, e) ∧
        t1.ParserBuffer.Data = t2.ParserBuffer.Data ∧
        t1.ParserBuffer.W = t2.ParserBuffer.W ∧
        t1.ParserBuffer.Data = t.ParserBuffer.Data ∧
        t1.ParserBuffer.W = t.ParserBuffer.W + n ∧
        n = Min.min t.OSAPConfig.BlockSize ((t.ParserBuffer.Data.len : Int) - t.ParserBuffer.W) ∧
        (n = 0 → e = Gen.ErrEmptyBuffer ∧ t1 = t) ∧ (n ≠ 0 → e = Gen.Err.ok) ∧
        t1 = { t with ParserBuffer := { t.ParserBuffer with W := t.ParserBuffer.W + n } } := by
  obtain ⟨p, t, rs, hp, h2, k1, hbc, k2, hf, k3, -⟩ :=
    gen_osap_history_nil_inv 2147483647 cfg s0 hinit h32 _ (cespec_go sp grow fuelE hfE) extra grow fuel hfuel ops hwf
  have hr1 : ofOSAPs t = (runOps (p, Ghost.init) (ops.map GOpN.abs)).1 := by rw [← k3]
  obtain ⟨t1, t2, blk', n, e, c1, c2, rest⟩ :=
    c14_core hbc grow fuel _ (cespec_go sp grow fuelE hfE) t k2 (ofOSAP cfg) p hp _ hr1 hf ghost blk flags
  refine ⟨t, rs, ?_, t1, t2, blk', n, e, ?_, ?_, rest⟩
  · rw [runN_go_init cfg s0 hinit h32 sp grow fuelE hfE extra fuel hfuel ops hwf]; exact k1
  · rw [parseNil_congr grow fuel _ (ceW grow fuelE SS LCP SEG SRT)]; exact c1
  · rw [parse_congr grow fuel _ _ t (ceW_eq hbc grow fuelE k2)]; exact c2

end

end LZ.GenOSAPHist

#print axioms LZ.GenOSAPHist.parseNil_congr
#print axioms LZ.GenOSAPHist.runN_go
#print axioms LZ.GenOSAPHist.gen_osap_history_nil_ce_go
#print axioms LZ.GenOSAPHist.C01_go_text_osap_nil_ce_go
#print axioms LZ.GenOSAPHist.C03_go_text_osap_nil_ce_go
#print axioms LZ.GenOSAPHist.C14_skip_go_text_osap_ce_go
#print axioms LZ.GenOSAPHist.C14_go_text_osap_ce_go
