/-
  LzProofs.GenOSAPParseNil — the NIL PATH of the mechanical translation of osap.go `(*optSuffixArrayParser).Parse`:
  `optSuffixArrayParser_Parse_nilable grow fuel ce s true blk flags` (LzModel/Generated/CodeOSAPParse.lean; the pointer
  parameter `blk` is modelled by a flag plus a value, tools/extract/code_nil.go) is the call `Parse(nil, flags)`.
  For OSAP the nil path ONLY advances `W`: `computeEdges` is not called, the edge table / `start` / `nEdges` stay — so no
  panic case, no fuel bound, no `CESpec`.  Per-call level only (there is no OSAP history level).
  No sorry, no axioms of its own.

    gen_osap_parse_nonnil   `optSuffixArrayParser_Parse … blk …` IS `…_Parse_nilable … false blk …` (generated wrapper)
    gen_osap_parseNil_empty nothing buffered ⇒ `(0, ErrEmptyBuffer)`, parser and ghost block unchanged
    gen_osap_parseNil       for every Go state with `ParseOKO B s`, every `blk` (a ghost), every `flags`, `grow`, `fuel`,
                            `ce`: the translated `Parse(nil)` is `Res.ok (t, blk, n, parseErr e)` — THE SAME `blk` — with
                            `(n, e)` those of the list-level `(ofOSAPs s).parseNil`, `ofOSAPs t` its state, `ofOD t = ofOD s`,
                            only `W` of the Go state changes, `ParseOKO B t` (incl. `start ≤ W`: `W` only grows)
-/
import LzProofs.GenOSAPParse

set_option linter.unusedSimpArgs false
set_option linter.unusedVariables false

namespace LZ.GenOSAP
open LZ LZ.Gen LZ.GenBuf LZ.GenHash LZ.GenSuffix LZ.GenHPParse LZ.GenProps

theorem gen_osap_parse_nonnil (grow : Nat → Nat → Nat) (fuel : Nat)
    (ce : Gen.optSuffixArrayParser → Res Gen.optSuffixArrayParser)
    (s : Gen.optSuffixArrayParser) (blk : Gen.Block') (flags : Int) :
    optSuffixArrayParser_Parse grow fuel ce s blk flags =
      optSuffixArrayParser_Parse_nilable grow fuel ce s false blk flags := rfl

/-- the nil path, nothing buffered ⇒ `(0, ErrEmptyBuffer)`, the parser and the ghost block unchanged; for every `grow`,
    `fuel`, `flags`, `computeEdges` -/
theorem gen_osap_parseNil_empty (grow : Nat → Nat → Nat) (fuel : Nat)
    (ce : Gen.optSuffixArrayParser → Res Gen.optSuffixArrayParser)
    (s : Gen.optSuffixArrayParser) (blk : Gen.Block') (flags : Int) (h : blockNO s = 0) :
    optSuffixArrayParser_Parse_nilable grow fuel ce s true blk flags = Res.ok (s, blk, (0 : Int), ErrEmptyBuffer) := by
  -- the clamp in any spelling is a minimum; the test `n == 0` is evaluated as it comes (either arm order)
  have hmin : Min.min s.OSAPConfig.BlockSize ((Int.ofNat s.ParserBuffer.Data.len) - s.ParserBuffer.W) = 0 := by
    unfold blockNO at h; rw [← ite_lt_min]; exact h
  have hmin' : Min.min ((Int.ofNat s.ParserBuffer.Data.len) - s.ParserBuffer.W) s.OSAPConfig.BlockSize = 0 := by
    rw [Int.min_comm]; exact hmin
  unfold optSuffixArrayParser_Parse_nilable
  simp only [if_true, gt_iff_lt, ge_iff_le, ite_lt_min, ite_le_min, hmin, hmin']
  try (first | rfl | simp)

/-- **`Parse(nil, flags)` of osap.go = `Parser.parseNil`**, per call, under `ParseOKO` alone. -/
theorem gen_osap_parseNil (B : Nat) (grow : Nat → Nat → Nat) (fuel : Nat)
    (ce : Gen.optSuffixArrayParser → Res Gen.optSuffixArrayParser)
    (s : Gen.optSuffixArrayParser) (blk : Gen.Block') (flags : Int) (h : ParseOKO B s) :
    ∃ t, optSuffixArrayParser_Parse_nilable grow fuel ce s true blk flags =
        Res.ok (t, blk, (((ofOSAPs s).parseNil).2.1 : Int), parseErr ((ofOSAPs s).parseNil).2.2) ∧
      ofOSAPs t = ((ofOSAPs s).parseNil).1 ∧ ofOD t = ofOD s ∧
      (((ofOSAPs s).parseNil).2.2 = .ok ∨ ((ofOSAPs s).parseNil).2.2 = .empty) ∧
      t = withWO s ((((ofOSAPs s).parseNil).1.buf.w : Nat) : Int) ∧
      t.ParserBuffer.W = s.ParserBuffer.W + (((ofOSAPs s).parseNil).2.1 : Int) ∧ ParseOKO B t := by
  have hpb := h.pb
  have hD : SWF s.ParserBuffer.Data := hpb.data
  have hdl : s.ParserBuffer.Data.data.length = s.ParserBuffer.Data.len := data_length hD
  have hW0 := hpb.w
  have hWl := h.w
  have hbs0 := h.bs0
  have hwc : ((s.ParserBuffer.W.toNat : Nat) : Int) = s.ParserBuffer.W := by omega
  have hbN : (ofOSAPs s).blockN =
      Min.min (s.ParserBuffer.Data.len - s.ParserBuffer.W.toNat) s.OSAPConfig.BlockSize.toNat := by
    show Min.min (s.ParserBuffer.Data.data.length - s.ParserBuffer.W.toNat) s.ParserBuffer.BufConfig.BlockSize.toNat = _
    rw [hdl, h.cbs]
  have hnG : (if (Int.ofNat s.ParserBuffer.Data.len) - s.ParserBuffer.W > s.OSAPConfig.BlockSize
      then s.OSAPConfig.BlockSize else (Int.ofNat s.ParserBuffer.Data.len) - s.ParserBuffer.W) =
      (((ofOSAPs s).blockN : Nat) : Int) := by
    rw [hbN]
    show (if (s.ParserBuffer.Data.len : Int) - _ > _ then _ else (s.ParserBuffer.Data.len : Int) - _) = _
    split <;> omega
  have hprep : Prep B s s := ⟨rfl, rfl, rfl, rfl, h.st0, h.ne0, h.stw, h.wedges, h.wq⟩
  by_cases hn : (ofOSAPs s).blockN = 0
  · have hg : blockNO s = 0 := by unfold blockNO; rw [hnG, hn]; rfl
    rw [Parser.parseNil_empty _ hn]
    refine ⟨s, gen_osap_parseNil_empty grow fuel ce s blk flags hg, rfl, rfl, Or.inr rfl, ?_, ?_, h⟩
    · show s = withWO s ((s.ParserBuffer.W.toNat : Nat) : Int)
      rw [hwc]
    · show s.ParserBuffer.W = s.ParserBuffer.W + ((0 : Nat) : Int)
      omega
  · have hpn : (ofOSAPs s).parseNil =
        (ofOSAPs (withWO s ((s.ParserBuffer.W.toNat + (ofOSAPs s).blockN : Nat) : Int)), (ofOSAPs s).blockN, .ok) := by
      rw [ofOSAPs_withW B s s hprep]
      unfold Parser.parseNil
      simp only [hn, if_false]
      rfl
    have hle : s.ParserBuffer.W.toNat + (ofOSAPs s).blockN ≤ s.ParserBuffer.Data.len := by
      rw [hbN]; omega
    have hn0 : ¬ ((((ofOSAPs s).blockN : Nat) : Int) = 0) := by omega
    have hsum : s.ParserBuffer.W + (((ofOSAPs s).blockN : Nat) : Int) =
        ((s.ParserBuffer.W.toNat + (ofOSAPs s).blockN : Nat) : Int) := by omega
    have hGo : optSuffixArrayParser_Parse_nilable grow fuel ce s true blk flags =
        Res.ok (withWO s ((s.ParserBuffer.W.toNat + (ofOSAPs s).blockN : Nat) : Int), blk,
          (((ofOSAPs s).blockN : Nat) : Int), Gen.Err.ok) := by
      have hmin : Min.min s.OSAPConfig.BlockSize ((Int.ofNat s.ParserBuffer.Data.len) - s.ParserBuffer.W) =
          (((ofOSAPs s).blockN : Nat) : Int) := by rw [← hnG, ← ite_lt_min]
      have hmin' : Min.min ((Int.ofNat s.ParserBuffer.Data.len) - s.ParserBuffer.W) s.OSAPConfig.BlockSize =
          (((ofOSAPs s).blockN : Nat) : Int) := by rw [Int.min_comm]; exact hmin
      have hsum' : (((ofOSAPs s).blockN : Nat) : Int) + s.ParserBuffer.W =
          ((s.ParserBuffer.W.toNat + (ofOSAPs s).blockN : Nat) : Int) := by omega
      unfold optSuffixArrayParser_Parse_nilable
      simp only [if_true]
      simp only [gt_iff_lt, ge_iff_le, ite_lt_min, ite_le_min, hmin, hmin']
      os_ite
      first | rw [hsum] | rw [hsum']
    rw [hpn]
    refine ⟨_, hGo, rfl, rfl, Or.inl rfl, rfl, ?_,
      parseOKO_withW B s s h hprep _ (by omega) hle⟩
    show ((s.ParserBuffer.W.toNat + (ofOSAPs s).blockN : Nat) : Int) =
      s.ParserBuffer.W + (((ofOSAPs s).blockN : Nat) : Int)
    exact hsum.symm

end LZ.GenOSAP

#print axioms LZ.GenOSAP.gen_osap_parse_nonnil
#print axioms LZ.GenOSAP.gen_osap_parseNil_empty
#print axioms LZ.GenOSAP.gen_osap_parseNil
