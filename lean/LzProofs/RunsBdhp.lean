/-
  LzProofs.RunsBdhp — property C19, last sentence (the "run clause"), for BDHP: a proven upper
  bound.

  BDHP does NOT satisfy "at most one literal byte": a first match of the block (found through a
  stale entry of either table, e.g. an older run at a far offset) can end fewer than `InputLen1`
  bytes before the block end; those bytes cannot be hashed and stay literals (`bdhp_two_literals`
  below is a kernel-checked instance with 2 literals).  What holds for EVERY state with well-formed
  tables (in particular every reachable state) is

      blk.lits.length ≤ max 1 (InputLen1 - 1).

    C19_run_bdhp_partial              one `Parse` call on a state satisfying `DoubleOK`
    doubleOK_stepP                    every operation keeps the invariant
    C19_run_bdhp_partial_reachable    the history-level statement

  The invariant `DoubleOK` is purely structural (table sizes, `InputLen1/2` of the tables = those of
  the configuration); nothing about the CONTENTS of the tables is needed.  BDHP re-indexes only the
  short table over a matched range, so after a first match `(w, k)` the long table holds the stale
  entry `w` for the run key; the match it gives at `w + k` is accepted because `k < w - j ≤ WindowSize`
  (the first match, coming from outside the run, ends in front of the block), and it reaches the
  block end.
-/
import LzProofs.Runs
import LzProofs.RunsEval
namespace LZ
open Parser PBuf

/-! ## `dhpProbe` with backward extension (`back = true`) in closed form -/

theorem dhpProbeB_first_none (ws mm e1 e2 : Nat) (d : Hash2) (p : List Byte) (i li : Nat)
    (hi : i < e2) (hc : ∀ e, dhpCand d p i = some e → ¬ CandGood ws mm p i e.1) :
    dhpProbe ws mm e1 e2 true d p i li = ({ h1 := d.h1.insert p i, h2 := d.h2.insert p i }, none) := by
  unfold dhpCand HashT.slot at hc
  unfold dhpProbe HashT.insert
  simp only [hi, if_true]
  split
  · rfl
  · rename_i e he
    have := hc e he
    unfold CandGood at this
    split
    · rfl
    · rename_i h2
      split
      · rfl
      · rename_i h3
        exfalso
        have h2' := Decidable.not_not.mp h2
        exact this ⟨h2'.1, h2'.2, by omega⟩

theorem dhpProbeB_first_some (ws mm e1 e2 : Nat) (d : Hash2) (p : List Byte) (i li : Nat)
    (hi : i < e2) (e : Nat × Nat) (hc : dhpCand d p i = some e) (hg : CandGood ws mm p i e.1) :
    dhpProbe ws mm e1 e2 true d p i li =
      ({ h1 := (d.h1.insert p i).insertRange p (i - backExt p i li e.1 + 1)
                (min (i - backExt p i li e.1 + (lcpLen (p.drop e.1) (p.drop i) + backExt p i li e.1)) e1 -
                  (i - backExt p i li e.1 + 1)),
         h2 := d.h2.insert p i },
       some (i - backExt p i li e.1, lcpLen (p.drop e.1) (p.drop i) + backExt p i li e.1, i - e.1)) := by
  unfold dhpCand HashT.slot at hc
  unfold CandGood at hg
  unfold dhpProbe HashT.insert
  simp only [hi, if_true]
  split
  · rename_i he
    rw [he] at hc; cases hc
  · rename_i e' he
    rw [he] at hc
    cases hc
    rw [if_neg (fun hn => hn ⟨hg.1, hg.2.1⟩), if_neg (by omega)]

theorem dhpProbeB_second (ws mm e1 e2 : Nat) (d : Hash2) (p : List Byte) (i li : Nat) (hi : ¬ i < e2) :
    dhpProbe ws mm e1 e2 true d p i li =
      if lo32 (d.h1.key p i) = (d.h1.slot (d.h1.key p i)).2 ∧
          CandGood ws mm p i (d.h1.slot (d.h1.key p i)).1 then
        ({ h1 := (d.h1.insert p i).insertRange p (d.h1.slot (d.h1.key p i)).1
                  (min (i - backExt p i li (d.h1.slot (d.h1.key p i)).1 +
                      (lcpLen (p.drop (d.h1.slot (d.h1.key p i)).1) (p.drop i) +
                        backExt p i li (d.h1.slot (d.h1.key p i)).1)) e1 -
                    (d.h1.slot (d.h1.key p i)).1),
           h2 := d.h2 },
         some (i - backExt p i li (d.h1.slot (d.h1.key p i)).1,
           lcpLen (p.drop (d.h1.slot (d.h1.key p i)).1) (p.drop i) +
             backExt p i li (d.h1.slot (d.h1.key p i)).1,
           i - (d.h1.slot (d.h1.key p i)).1))
      else ({ h1 := d.h1.insert p i, h2 := d.h2 }, none) := by
  unfold CandGood HashT.slot
  unfold dhpProbe HashT.insert
  simp only [hi, if_false]
  by_cases h1 : lo32 (d.h1.key p i) = (d.h1.tbl.getD (hashValue (d.h1.key p i) d.h1.hashBits) (0, 0)).2
  · by_cases h2 : (d.h1.tbl.getD (hashValue (d.h1.key p i) d.h1.hashBits) (0, 0)).1 < i ∧
        i - (d.h1.tbl.getD (hashValue (d.h1.key p i) d.h1.hashBits) (0, 0)).1 ≤ ws
    · by_cases h3 : mm ≤ lcpLen (p.drop (d.h1.tbl.getD (hashValue (d.h1.key p i) d.h1.hashBits) (0, 0)).1) (p.drop i)
      · have h3' : ¬ lcpLen (p.drop (d.h1.tbl.getD (hashValue (d.h1.key p i) d.h1.hashBits) (0, 0)).1) (p.drop i) < mm := by
          omega
        rw [if_neg (fun hn => hn h1), if_neg (fun hn => hn h2), if_neg h3',
          if_pos (show _ ∧ _ ∧ _ ∧ _ from ⟨h1, h2.1, h2.2, h3⟩)]
        simp only [if_true]
      · have h3' : lcpLen (p.drop (d.h1.tbl.getD (hashValue (d.h1.key p i) d.h1.hashBits) (0, 0)).1) (p.drop i) < mm := by
          omega
        rw [if_neg (fun hn => hn h1), if_neg (fun hn => hn h2), if_pos h3',
          if_neg (fun hc : _ ∧ _ ∧ _ ∧ _ => h3 hc.2.2.2)]
    · rw [if_neg (fun hn => hn h1), if_pos h2, if_neg (fun hc : _ ∧ _ ∧ _ ∧ _ => h2 ⟨hc.2.1, hc.2.2.1⟩)]
  · rw [if_pos h1, if_neg (fun hc : _ ∧ _ ∧ _ ∧ _ => h1 hc.1)]

theorem dhpProbe_inputLen (ws mm e1 e2 : Nat) (back : Bool) (d : Hash2) (p : List Byte) (i li : Nat) :
    (dhpProbe ws mm e1 e2 back d p i li).1.h1.inputLen = d.h1.inputLen ∧
    (dhpProbe ws mm e1 e2 back d p i li).1.h2.inputLen = d.h2.inputLen := by
  unfold dhpProbe
  simp only []
  repeat' split
  all_goals first
    | exact ⟨rfl, rfl⟩
    | exact ⟨HashT.insertRange_inputLen _ _ _ _, rfl⟩
    | exact ⟨HashT.insertRange_inputLen _ _ _ _, HashT.insertRange_inputLen _ _ _ _⟩

/-! ## block level -/

/-- a last step in the first loop (`i < e2`): the slot of the LONG table for the current position
    `i` (inside the run, behind its first byte) holds a run position `j < i` inside the window; the
    probe reports a match that reaches the block end -/
theorem bdhp_final_first (ws mm e1 e2 il1 il2 : Nat) (p : List Byte) (w n : Nat) (b : Byte)
    (hR : RunBlock p w n b) (hil1 : 1 ≤ il1) (hil : il1 ≤ il2) (he1 : e1 = p.length + 1 - il1)
    (he2 : e2 = p.length + 1 - il2) (hmm : mm ≤ il1) (st : LoopSt Hash2)
    (hi2 : st.i + il2 ≤ w + n) (hli : st.litIndex ≤ st.i)
    (j : Nat) (hj1 : w ≤ j) (hj2 : j < st.i) (hj3 : st.i - j ≤ ws)
    (hslot : st.dict.h2.slot (st.dict.h2.key p st.i) = (j, lo32 (st.dict.h2.key p st.i))) :
    (greedyLoop ⟨dhpProbe ws mm e1 e2 true⟩ p e1 st).litIndex = p.length ∧
    (greedyLoop ⟨dhpProbe ws mm e1 e2 true⟩ p e1 st).lits.length ≤
      st.lits.length + (st.i - st.litIndex) := by
  have hlen := hR.len
  have hlcp : lcpLen (p.drop j) (p.drop st.i) = p.length - st.i :=
    lcpLen_run p b j st.i hj2 (by omega) (fun t h1 h2 => hR.at t (by omega) h2)
  have hc := dhpCand_of_h2 st.dict p st.i j hslot
  have hg : CandGood ws mm p st.i j := ⟨hj2, hj3, by rw [hlcp]; omega⟩
  have hpe := dhpProbeB_first_some ws mm e1 e2 st.dict p st.i st.litIndex (by omega) _ hc hg
  dsimp only at hpe
  rw [hlcp] at hpe
  have hm := (backExt_le p st.i st.litIndex j (by omega)).1
  generalize backExt p st.i st.litIndex j = m at hpe hm
  have hlt : st.i < e1 := by omega
  rw [greedyLoop_some _ _ _ _ _ _ _ _ hlt hpe (by omega), greedyLoop_done _ _ _ _ (by simp only; omega)]
  refine ⟨by simp only; omega, ?_⟩
  simp only [List.length_append, List.length_take, List.length_drop]
  omega

/-- a last step in the second loop (`e2 ≤ i < e1`): the slot of the SHORT table holds a run
    position `j < i` inside the window -/
theorem bdhp_final_second (ws mm e1 e2 il1 : Nat) (p : List Byte) (w n : Nat) (b : Byte)
    (hR : RunBlock p w n b) (hil1 : 1 ≤ il1) (he1 : e1 = p.length + 1 - il1)
    (hmm : mm ≤ il1) (st : LoopSt Hash2)
    (hi1 : e2 ≤ st.i) (hi2 : st.i + il1 ≤ w + n) (hli : st.litIndex ≤ st.i)
    (j : Nat) (hj1 : w ≤ j) (hj2 : j < st.i) (hj3 : st.i - j ≤ ws)
    (hslot : st.dict.h1.slot (st.dict.h1.key p st.i) = (j, lo32 (st.dict.h1.key p st.i))) :
    (greedyLoop ⟨dhpProbe ws mm e1 e2 true⟩ p e1 st).litIndex = p.length ∧
    (greedyLoop ⟨dhpProbe ws mm e1 e2 true⟩ p e1 st).lits.length ≤
      st.lits.length + (st.i - st.litIndex) := by
  have hlen := hR.len
  have hlcp : lcpLen (p.drop j) (p.drop st.i) = p.length - st.i :=
    lcpLen_run p b j st.i hj2 (by omega) (fun t h1 h2 => hR.at t (by omega) h2)
  have hg : CandGood ws mm p st.i j := ⟨hj2, hj3, by rw [hlcp]; omega⟩
  have hpe := dhpProbeB_second ws mm e1 e2 st.dict p st.i st.litIndex (by omega)
  rw [hslot] at hpe
  dsimp only at hpe
  rw [if_pos ⟨rfl, hg⟩, hlcp] at hpe
  have hm := (backExt_le p st.i st.litIndex j (by omega)).1
  generalize backExt p st.i st.litIndex j = m at hpe hm
  have hlt : st.i < e1 := by omega
  rw [greedyLoop_some _ _ _ _ _ _ _ _ hlt hpe (by omega), greedyLoop_done _ _ _ _ (by simp only; omega)]
  refine ⟨by simp only; omega, ?_⟩
  simp only [List.length_append, List.length_take, List.length_drop]
  omega

/-- the greedy loop of BDHP on a run block, from ANY pair of well-sized tables: the literals
    emitted plus the bytes behind the last match are at most `max 1 (inputLen1 - 1)` -/
theorem bdhp_run_loop (ws mm : Nat) (d : Hash2) (p : List Byte) (w n : Nat) (b : Byte)
    (hR : RunBlock p w n b) (hs1 : d.h1.SizeOK) (hs2 : d.h2.SizeOK) (hil1 : 1 ≤ d.h1.inputLen)
    (hil : d.h1.inputLen ≤ d.h2.inputLen) (hil8 : d.h2.inputLen ≤ 8)
    (hws : 1 ≤ ws) (hmm1 : 1 ≤ mm) (hmm : mm ≤ d.h1.inputLen) :
    (greedyLoop ⟨dhpProbe ws mm (p.length + 1 - d.h1.inputLen) (p.length + 1 - d.h2.inputLen) true⟩ p
      (p.length + 1 - d.h1.inputLen)
      { dict := d, i := w, litIndex := w, seqs := [], lits := [] }).lits.length +
    (p.length -
      (greedyLoop ⟨dhpProbe ws mm (p.length + 1 - d.h1.inputLen) (p.length + 1 - d.h2.inputLen) true⟩ p
        (p.length + 1 - d.h1.inputLen)
        { dict := d, i := w, litIndex := w, seqs := [], lits := [] }).litIndex) ≤
      max 1 (d.h1.inputLen - 1) := by
  have hlen := hR.len
  have hn := hR.n32
  have hkey1 : ∀ q, w ≤ q → q + d.h1.inputLen ≤ w + n → d.h1.key p q = d.h1.key p w := by
    intro q h1 h2
    exact key_run d.h1 p b q w (fun t ht => hR.at _ (by omega) (by omega))
      (fun t ht => hR.at _ (by omega) (by omega))
  have hkey2 : ∀ q, w ≤ q → q + d.h2.inputLen ≤ w + n → d.h2.key p q = d.h2.key p w := by
    intro q h1 h2
    exact key_run d.h2 p b q w (fun t ht => hR.at _ (by omega) (by omega))
      (fun t ht => hR.at _ (by omega) (by omega))
  generalize he1 : p.length + 1 - d.h1.inputLen = e1
  generalize he2 : p.length + 1 - d.h2.inputLen = e2
  have hlt : w < e1 := by omega
  have hlt2 : w < e2 := by omega
  by_cases hg : ∃ e, dhpCand d p w = some e ∧ CandGood ws mm p w e.1
  · -- a match from an older entry of one of the tables
    obtain ⟨e, hc, hgood⟩ := hg
    have hpe := dhpProbeB_first_some ws mm e1 e2 d p w w hlt2 e hc hgood
    have hb0 : backExt p w w e.1 = 0 := by rw [backExt_eq, if_neg (by omega)]
    rw [hb0] at hpe
    simp only [Nat.sub_zero, Nat.add_zero] at hpe
    obtain ⟨hc2, hc3, hc4⟩ := hgood
    generalize hj : e.1 = j at hpe hc2 hc3 hc4
    have hkn := lcpLen_le_right (p.drop j) (p.drop w)
    simp only [List.length_drop] at hkn
    generalize hk : lcpLen (p.drop j) (p.drop w) = k at hpe hc4 hkn
    by_cases hkn' : k = n
    · -- the match covers the whole block
      subst hkn'
      rw [greedyLoop_some _ _ _ _ _ _ _ _ hlt hpe (by simp only; omega),
        greedyLoop_done _ _ _ _ (by simp only; omega)]
      simp only [List.nil_append, Nat.sub_self, List.take_zero, List.length_nil]
      omega
    · -- a short match: it comes from outside the run and ends in front of the block
      obtain ⟨-, hjk⟩ := lcpLen_run_short p b j w hc2 (by omega)
        (fun t h1 h2 => hR.at t h1 h2) (by rw [hk]; omega)
      rw [hk] at hjk
      by_cases hA : w + k < e2
      · -- next probe in the first loop: the long table holds the stale entry `w`
        rw [greedyLoop_some _ _ _ _ _ _ _ _ hlt hpe (by simp only; omega)]
        dsimp only
        have hfin := bdhp_final_first ws mm e1 e2 d.h1.inputLen d.h2.inputLen p w n b hR hil1 hil
          he1.symm he2.symm hmm
          { dict := { h1 := (d.h1.insert p w).insertRange p (w + 1) (min (w + k) e1 - (w + 1)),
                      h2 := d.h2.insert p w },
            i := w + k, litIndex := w + k,
            seqs := [] ++ [{ litLen := ((p.drop w).take (w - w)).length, matchLen := k, offset := w - j }],
            lits := [] ++ (p.drop w).take (w - w) }
          (by simp only; omega) (Nat.le_refl _) w (Nat.le_refl _) (by simp only; omega)
          (by simp only; omega)
          (by
            simp only
            rw [HashT.insert_key, hkey2 (w + k) (by omega) (by omega), HashT.slot_insert_self d.h2 hs2])
        have h1 := hfin.1
        have h2 : (greedyLoop ⟨dhpProbe ws mm e1 e2 true⟩ p e1
            { dict := { h1 := (d.h1.insert p w).insertRange p (w + 1) (min (w + k) e1 - (w + 1)),
                        h2 := d.h2.insert p w },
              i := w + k, litIndex := w + k,
              seqs := [] ++ [{ litLen := ((p.drop w).take (w - w)).length, matchLen := k, offset := w - j }],
              lits := [] ++ (p.drop w).take (w - w) }).lits.length ≤ 0 := by
          have := hfin.2
          simpa using this
        omega
      · by_cases hB : w + k < e1
        · -- next probe in the second loop: the short table was re-indexed up to `w + k - 1`
          have hmin : min (w + k) e1 - (w + 1) = k - 1 := by omega
          rw [hmin] at hpe
          have hd' : (d.h1.insert p w).insertRange p (w + 1) (k - 1) = d.h1.insertRange p w (k - 1 + 1) :=
            (HashT.insertRange_succ d.h1 p w (k - 1)).symm
          rw [hd'] at hpe
          rw [greedyLoop_some _ _ _ _ _ _ _ _ hlt hpe (by simp only; omega)]
          dsimp only
          have hfin := bdhp_final_second ws mm e1 e2 d.h1.inputLen p w n b hR hil1
            he1.symm hmm
            { dict := { h1 := d.h1.insertRange p w (k - 1 + 1), h2 := d.h2.insert p w },
              i := w + k, litIndex := w + k,
              seqs := [] ++ [{ litLen := ((p.drop w).take (w - w)).length, matchLen := k, offset := w - j }],
              lits := [] ++ (p.drop w).take (w - w) }
            (by simp only; omega) (by simp only; omega) (Nat.le_refl _) (w + k - 1) (by omega)
            (by simp only; omega) (by simp only; omega)
            (by
              simp only
              rw [HashT.insertRange_key, hkey1 (w + k) (by omega) (by omega),
                HashT.slot_insertRange_same p (d.h1.key p w) (k - 1) w d.h1 hs1
                  (fun q h1 h2 => hkey1 q h1 (by omega))]
              congr 1; omega)
          have h1 := hfin.1
          have h2 : (greedyLoop ⟨dhpProbe ws mm e1 e2 true⟩ p e1
              { dict := { h1 := d.h1.insertRange p w (k - 1 + 1), h2 := d.h2.insert p w },
                i := w + k, litIndex := w + k,
                seqs := [] ++ [{ litLen := ((p.drop w).take (w - w)).length, matchLen := k, offset := w - j }],
                lits := [] ++ (p.drop w).take (w - w) }).lits.length ≤ 0 := by
            have := hfin.2
            simpa using this
          omega
        · -- the match ends behind the last hashable position: fewer than `inputLen1` bytes are left
          rw [greedyLoop_some _ _ _ _ _ _ _ _ hlt hpe (by simp only; omega),
            greedyLoop_done _ _ _ _ (by simp only; omega)]
          simp only [List.nil_append, Nat.sub_self, List.take_zero, List.length_nil]
          omega
  · -- no match at `w`: one literal, then the match with offset 1 found through the long table
    have hpe := dhpProbeB_first_none ws mm e1 e2 d p w w hlt2 (fun e he hgood => hg ⟨e, he, hgood⟩)
    rw [greedyLoop_none _ _ _ _ _ hlt hpe]
    dsimp only
    have hfin := bdhp_final_first ws mm e1 e2 d.h1.inputLen d.h2.inputLen p w n b hR hil1 hil
      he1.symm he2.symm hmm
      { dict := { h1 := d.h1.insert p w, h2 := d.h2.insert p w }, i := w + 1, litIndex := w,
        seqs := [], lits := [] }
      (by simp only; omega) (by simp only; omega) w (Nat.le_refl _) (by simp only; omega)
      (by simp only; omega)
      (by
        simp only
        rw [HashT.insert_key, hkey2 (w + 1) (by omega) (by omega), HashT.slot_insert_self d.h2 hs2])
    have h1 := hfin.1
    have h2 : (greedyLoop ⟨dhpProbe ws mm e1 e2 true⟩ p e1
        { dict := { h1 := d.h1.insert p w, h2 := d.h2.insert p w }, i := w + 1, litIndex := w,
          seqs := [], lits := [] }).lits.length ≤ 1 := by
      have := hfin.2
      simpa using this
    omega

/-- **block level, BDHP**: `runGreedy` on a run block without `NoTrailingLiterals` emits at most
    `max 1 (inputLen1 - 1)` literals -/
theorem bdhp_run_block (ws mm : Nat) (d : Hash2) (p : List Byte) (w n : Nat) (b : Byte)
    (flags : Nat) (hf : flags % 2 = 0)
    (hR : RunBlock p w n b) (hs1 : d.h1.SizeOK) (hs2 : d.h2.SizeOK) (hil1 : 1 ≤ d.h1.inputLen)
    (hil : d.h1.inputLen ≤ d.h2.inputLen) (hil8 : d.h2.inputLen ≤ 8)
    (hws : 1 ≤ ws) (hmm1 : 1 ≤ mm) (hmm : mm ≤ d.h1.inputLen) :
    (Parser.runGreedy ⟨dhpProbe ws mm (p.length + 1 - d.h1.inputLen) (p.length + 1 - d.h2.inputLen) true⟩
      d p w (p.length + 1 - d.h1.inputLen) flags).2.2.1.lits.length ≤ max 1 (d.h1.inputLen - 1) := by
  have h := bdhp_run_loop ws mm d p w n b hR hs1 hs2 hil1 hil hil8 hws hmm1 hmm
  unfold Parser.runGreedy
  simp only []
  unfold finishBlock
  rw [if_neg (by omega)]
  simp only [List.length_append, List.length_drop]
  exact h

/-! ## the state invariant -/

/-- The state has two hash tables of the right sizes whose `InputLen`s are those of the
    configuration.  Nothing is said about the contents of the tables. -/
def DoubleOK (s : Parser) : Prop :=
  ∃ d, s.dict = .double d ∧ d.h1.SizeOK ∧ d.h2.SizeOK ∧
    d.h1.inputLen = s.cfg.inputLen1.toNat ∧ d.h2.inputLen = s.cfg.inputLen2.toNat

/-! ## one `Parse` call -/

/-- **C19, run clause, BDHP, one call: the proven bound.**  `s` is a BDHP state with well-sized
    tables (`DoubleOK`; every reachable BDHP state is one, `reachable_doubleOK`),
    `1 ≤ InputLen1 ≤ InputLen2 ≤ 8`, window size `≥ 1`.  If `Parse(&blk, flags)` without
    `NoTrailingLiterals` returns a block of `n ≥ 32` bytes that all equal `b`, the block has at most
    `max 1 (InputLen1 - 1)` literals.  (The bound `1` of HP/BHP/DHP does not hold:
    `bdhp_two_literals`.) -/
theorem C19_run_bdhp_partial (s : Parser) (hk : s.kind = .BDHP) (hF : DoubleOK s)
    (hw : s.buf.w ≤ s.buf.data.length) (hil1 : 1 ≤ s.cfg.inputLen1.toNat)
    (hil : s.cfg.inputLen1.toNat ≤ s.cfg.inputLen2.toNat) (hil8 : s.cfg.inputLen2.toNat ≤ 8)
    (hws : 1 ≤ s.buf.cfg.windowSize)
    (flags : Nat) (s' : Parser) (n : Nat) (blk : Block) (b : Byte)
    (hp : s.parse flags = (s', n, .ok, blk)) (hf : flags % 2 = 0) (hn : 32 ≤ n)
    (hrun : ∀ t, t < n → s.buf.data[s.buf.w + t]? = some b) :
    blk.lits.length ≤ max 1 (s.cfg.inputLen1.toNat - 1) := by
  obtain ⟨d, hd, hs1, hs2, hl1, hl2⟩ := hF
  have hn0 : s.blockN ≠ 0 := by
    intro h0
    rw [parse_empty s flags h0] at hp
    simp at hp
  have hm : s.MarginOK := by
    apply Classical.byContradiction
    intro hm
    have := parse_panic_of_not_margin s flags hn0 hm
    rw [hp] at this
    simp at this
  have hl := s.blockPrefix_length hw
  have hN := s.blockN_le
  rw [parse_double s flags d hd hn0 hm] at hp
  simp only [Prod.mk.injEq] at hp
  obtain ⟨-, hn', -, hblk⟩ := hp
  rw [runGreedy_w_even _ _ _ _ _ _ hf] at hn'
  have hnN : n = s.blockN := by omega
  have hkb : (s.kind == Kind.BDHP) = true := by rw [hk]; rfl
  rw [hkb] at hblk
  obtain ⟨hi1, hi2⟩ := processSegment2_inputLen d.h1 d.h2 s.buf.data ((s.buf.w : Int) - d.h2.inputLen + 1) s.buf.w
  obtain ⟨hz1, hz2⟩ := sizeOK_processSegment2 hs1 hs2 s.buf.data ((s.buf.w : Int) - d.h2.inputLen + 1) s.buf.w
  have hR : RunBlock s.blockPrefix s.buf.w n b := by
    refine ⟨by omega, hn, ?_⟩
    intro t ht
    unfold blockPrefix
    rw [List.getElem?_take, if_pos (by omega)]
    exact hrun t ht
  have hmm : s.minMatch = min 3 s.cfg.inputLen1.toNat := by
    unfold Parser.minMatch; rw [hk]
  generalize processSegment2 d.h1 d.h2 s.buf.data ((s.buf.w : Int) - d.h2.inputLen + 1) s.buf.w = hh
    at hi1 hi2 hz1 hz2 hblk
  rw [← hblk]
  refine Nat.le_trans (bdhp_run_block s.buf.cfg.windowSize s.minMatch ⟨hh.1, hh.2⟩ s.blockPrefix s.buf.w n b
    flags hf hR hz1 hz2 (by rw [hi1, hl1]; exact hil1) (by rw [hi1, hi2, hl1, hl2]; exact hil)
    (by rw [hi2, hl2]; exact hil8) hws (by rw [hmm]; omega) (by rw [hi1, hl1, hmm]; omega)) ?_
  show max 1 (hh.1.inputLen - 1) ≤ _
  rw [hi1, hl1]
  exact Nat.le_refl _

/-! ## every operation keeps the invariant -/

theorem doubleOK_parse (s : Parser) (flags : Nat) (hroom : Room s.buf) (h : DoubleOK s) :
    DoubleOK (s.parse flags).1 := by
  by_cases hn : s.blockN = 0
  · rw [parse_empty s flags hn]; exact h
  obtain ⟨d, hd, hs1, hs2, hl1, hl2⟩ := h
  rw [parse_double s flags d hd hn (marginOK_of_cap s hroom.2 hn)]
  simp only []
  obtain ⟨hi1, hi2⟩ := processSegment2_inputLen d.h1 d.h2 s.buf.data ((s.buf.w : Int) - d.h2.inputLen + 1) s.buf.w
  obtain ⟨hz1, hz2⟩ := sizeOK_processSegment2 hs1 hs2 s.buf.data ((s.buf.w : Int) - d.h2.inputLen + 1) s.buf.w
  generalize processSegment2 d.h1 d.h2 s.buf.data ((s.buf.w : Int) - d.h2.inputLen + 1) s.buf.w = hh
    at hi1 hi2 hz1 hz2
  have := runGreedy_dict ⟨dhpProbe s.buf.cfg.windowSize s.minMatch
      (s.blockPrefix.length + 1 - hh.1.inputLen) (s.blockPrefix.length + 1 - hh.2.inputLen)
      (s.kind == .BDHP)⟩
    (fun x => x.SizeOK ∧ x.h1.inputLen = d.h1.inputLen ∧ x.h2.inputLen = d.h2.inputLen)
    (fun x p i li hx => ⟨sizeOK_dhpProbe _ _ _ _ _ hx.1 p i li, by
      have := dhpProbe_inputLen s.buf.cfg.windowSize s.minMatch
        (s.blockPrefix.length + 1 - hh.1.inputLen) (s.blockPrefix.length + 1 - hh.2.inputLen)
        (s.kind == .BDHP) x p i li
      exact ⟨by rw [← hx.2.1]; exact this.1, by rw [← hx.2.2]; exact this.2⟩⟩)
    ⟨hh.1, hh.2⟩ s.blockPrefix s.buf.w (s.blockPrefix.length + 1 - hh.1.inputLen) flags
    ⟨⟨hz1, hz2⟩, hi1, hi2⟩
  exact ⟨_, rfl, this.1.1, this.1.2, by rw [this.2.1]; exact hl1, by rw [this.2.2]; exact hl2⟩

theorem doubleOK_parseNil (s : Parser) (h : DoubleOK s) : DoubleOK s.parseNil.1 := by
  obtain ⟨d, hd, hs1, hs2, hl1, hl2⟩ := h
  unfold parseNil
  simp only []
  split
  · exact ⟨d, hd, hs1, hs2, hl1, hl2⟩
  · simp only [hd]
    obtain ⟨hi1, hi2⟩ := processSegment2_inputLen d.h1 d.h2 s.buf.data ((s.buf.w : Int) - d.h2.inputLen + 1)
      ((s.buf.w + s.blockN : Nat) : Int)
    obtain ⟨hz1, hz2⟩ := sizeOK_processSegment2 hs1 hs2 s.buf.data ((s.buf.w : Int) - d.h2.inputLen + 1)
      ((s.buf.w + s.blockN : Nat) : Int)
    exact ⟨_, rfl, hz1, hz2, by rw [hi1]; exact hl1, by rw [hi2]; exact hl2⟩

theorem doubleOK_shrink (s : Parser) (h : DoubleOK s) : DoubleOK s.shrink.1 := by
  obtain ⟨d, hd, hs1, hs2, hl1, hl2⟩ := h
  unfold Parser.shrink
  simp only []
  split
  · exact ⟨d, hd, hs1, hs2, hl1, hl2⟩
  · simp only [hd]
    exact ⟨_, rfl, HashT.sizeOK_shiftOffsets hs1 _, HashT.sizeOK_shiftOffsets hs2 _,
      by simp only [HashT.shiftOffsets_inputLen]; exact hl1,
      by simp only [HashT.shiftOffsets_inputLen]; exact hl2⟩

theorem doubleOK_reset (s : Parser) (data : List Byte) (capExtra : Nat) (h : DoubleOK s) :
    DoubleOK (s.reset data capExtra).1 := by
  obtain ⟨d, hd, hs1, hs2, hl1, hl2⟩ := h
  unfold Parser.reset
  simp only []
  split
  · simp only [clearDict, hd]
    exact ⟨_, rfl, HashT.sizeOK_clear hs1, HashT.sizeOK_clear hs2, hl1, hl2⟩
  · exact ⟨d, hd, hs1, hs2, hl1, hl2⟩

/-- every operation of a history keeps `DoubleOK` -/
theorem doubleOK_stepP (s : Parser) (op : POp) (hroom : Room s.buf) (h : DoubleOK s) :
    DoubleOK (stepP s op) := by
  cases op with
  | write p => exact h
  | readFrom r => exact h
  | parse flags => exact doubleOK_parse s flags hroom h
  | parseNil => exact doubleOK_parseNil s h
  | shrink => exact doubleOK_shrink s h
  | reset data capExtra => exact doubleOK_reset s data capExtra h

/-! ## history level -/

/-- a fresh BDHP parser satisfies the invariant, and `2 ≤ InputLen1 < InputLen2 ≤ 8` -/
theorem newParser_doubleOK {raw : Cfg} {s0 : Parser} (h0 : newParser .BDHP raw = some s0) :
    DoubleOK s0 ∧ 2 ≤ s0.cfg.inputLen1.toNat ∧ s0.cfg.inputLen1.toNat < s0.cfg.inputLen2.toNat ∧
      s0.cfg.inputLen2.toNat ≤ 8 := by
  unfold newParser at h0
  simp only [] at h0
  split at h0
  · rename_i hv
    cases h0
    have e1 : Facts.minInputLen = 2 := rfl
    have e2 : Facts.maxInputLen = 8 := rfl
    simp only [verify, hashVerify, Bool.and_eq_true, decide_eq_true_eq, Bool.decide_and] at hv
    have hil : 2 ≤ (setDefaults .BDHP (raw.restrict .BDHP)).inputLen1.toNat ∧
        (setDefaults .BDHP (raw.restrict .BDHP)).inputLen1.toNat <
          (setDefaults .BDHP (raw.restrict .BDHP)).inputLen2.toNat ∧
        (setDefaults .BDHP (raw.restrict .BDHP)).inputLen2.toNat ≤ 8 := by omega
    exact ⟨⟨_, rfl, HashT.sizeOK_new _ _, HashT.sizeOK_new _ _, rfl, rfl⟩, hil.1, hil.2.1, hil.2.2⟩
  · cases h0

/-- the invariant of BDHP histories: the history invariant `Inv`, `Room` and `DoubleOK` -/
theorem runOps_doubleOK {c : Cfg} {bc : BufCfg} (hS : Static .BDHP c bc) (ops : List POp) :
    ∀ (sg : Parser × Ghost), Inv .BDHP c bc sg → Room sg.1.buf → DoubleOK sg.1 →
      Inv .BDHP c bc (runOps sg ops) ∧ Room (runOps sg ops).1.buf ∧ DoubleOK (runOps sg ops).1 := by
  induction ops with
  | nil => intro sg h1 h2 h3; exact ⟨h1, h2, h3⟩
  | cons op ops ih =>
    intro sg h1 h2 h3
    apply ih (step sg op) (step_inv hS sg h1 op)
    · rw [step_fst]; exact room_stepP sg.1 op h2
    · rw [step_fst]; exact doubleOK_stepP sg.1 op h2 h3

/-- every state of a BDHP history satisfies the hypotheses of `C19_run_bdhp_partial` -/
theorem reachable_doubleOK (raw : Cfg) (s0 : Parser) (h0 : newParser .BDHP raw = some s0)
    (ops : List POp) :
    let s := (runOps (s0, Ghost.init) ops).1
    s.kind = .BDHP ∧ DoubleOK s ∧ s.buf.w ≤ s.buf.data.length ∧ s.cfg = s0.cfg ∧
      2 ≤ s.cfg.inputLen1.toNat ∧ s.cfg.inputLen1.toNat < s.cfg.inputLen2.toNat ∧
      s.cfg.inputLen2.toNat ≤ 8 ∧ 1 ≤ s.buf.cfg.windowSize := by
  intro s
  obtain ⟨hi, hmm, hbs⟩ := newParser_inv .BDHP raw s0 h0
  obtain ⟨b1, b2, b3, b4⟩ := newParser_doubleOK h0
  obtain ⟨a1, a2, a3⟩ := runOps_doubleOK ⟨hmm, hbs, histHyp_of_ne .BDHP s0 (by decide)⟩ ops
    (s0, Ghost.init) hi (newParser_room h0) b1
  refine ⟨a1.kind, a3, a1.hw, a1.cfg, by rw [a1.cfg]; exact b2, by rw [a1.cfg]; exact b3,
    by rw [a1.cfg]; exact b4, ?_⟩
  rw [a1.bcfg]; exact newParser_windowSize h0

/-- **C19, run clause, history level, BDHP: the proven bound.**  For every accepted BDHP
    configuration, every history of `Write`, `ReadFrom`, `Parse` (any flags), `Parse(nil)`, `Shrink`,
    `Reset`: if the next `Parse(&blk, flags)` without `NoTrailingLiterals` returns a block of
    `n ≥ 32` bytes, all equal to one byte `b`, the block carries at most `max 1 (InputLen1 - 1)`
    literal bytes (`InputLen1` of the configuration `ParserConfig()` reports; `2 ≤ InputLen1 ≤ 7`, so
    the bound is `1` for `InputLen1 = 2` and `InputLen1 - 1` otherwise). -/
theorem C19_run_bdhp_partial_reachable (raw : Cfg) (s0 : Parser) (h0 : newParser .BDHP raw = some s0)
    (ops : List POp) (flags : Nat) (s' : Parser) (n : Nat) (blk : Block) (b : Byte) :
    let s := (runOps (s0, Ghost.init) ops).1
    s.parse flags = (s', n, .ok, blk) → flags % 2 = 0 → 32 ≤ n →
    (∀ t, t < n → s.buf.data[s.buf.w + t]? = some b) →
    blk.lits.length ≤ max 1 (s0.cfg.inputLen1.toNat - 1) := by
  intro s hp hf hn hrun
  obtain ⟨a0, a1, a2, a3, a4, a5, a6, a7⟩ := reachable_doubleOK raw s0 h0 ops
  have := C19_run_bdhp_partial s a0 a1 a2 (Nat.le_of_succ_le a4) (Nat.le_of_lt a5) a6 a7 flags s' n blk b
    hp hf hn hrun
  rw [a3] at this
  exact this

/-! ## non-vacuity, and a kernel-checked witness that the bound `1` fails -/

section Examples

/-- all hypotheses of `C19_run_bdhp_partial_reachable` are satisfiable (configuration `runCfg` of
    LzProofs/Runs.lean: InputLen1 3, InputLen2 6, 16 slots per table): after writing 40 equal bytes
    the first `Parse` returns a block of `n = 32 = BlockSize` equal bytes -/
example : ∃ s' blk,
    let s := (runOps (runS0 .BDHP, Ghost.init) runOpsEx).1
    newParser .BDHP runCfg = some (runS0 .BDHP) ∧
    s.parse 0 = (s', 32, .ok, blk) ∧ (∀ t, t < 32 → s.buf.data[s.buf.w + t]? = some 97) ∧
    blk.lits.length ≤ max 1 ((runS0 .BDHP).cfg.inputLen1.toNat - 1) ∧
    max 1 ((runS0 .BDHP).cfg.inputLen1.toNat - 1) = 2 := by
  have hv : verify .BDHP (setDefaults .BDHP (runCfg.restrict .BDHP)) = true := by decide
  have hdata : (runOps (runS0 .BDHP, Ghost.init) runOpsEx).1.buf.data = List.replicate 40 97 := by decide
  have hw : (runOps (runS0 .BDHP, Ghost.init) runOpsEx).1.buf.w = 0 := by decide
  have hbs : (runOps (runS0 .BDHP, Ghost.init) runOpsEx).1.buf.cfg.blockSize = 32 := by decide
  have hst := reachable_stateOK .BDHP runCfg (runS0 .BDHP) (runS0_new .BDHP hv) (by decide) runOpsEx
  obtain ⟨s', n, blk, hp, -, -, -, -, -, -, -, -, -, -, -, hfull, -⟩ :=
    C01_C02_C03_parse _ 0 hst.1 hst.2 (by rw [hw, hdata]; decide)
  have hn : n = 32 := by
    rw [hfull (Or.inl rfl), hdata, hw, hbs]; decide
  subst hn
  have hrun : ∀ t, t < 32 → (runOps (runS0 .BDHP, Ghost.init) runOpsEx).1.buf.data[
      (runOps (runS0 .BDHP, Ghost.init) runOpsEx).1.buf.w + t]? = some 97 := by
    intro t ht
    rw [hdata, hw, Nat.zero_add, List.getElem?_replicate, if_pos (by omega)]
  exact ⟨s', blk, runS0_new .BDHP hv, hp, hrun,
    C19_run_bdhp_partial_reachable runCfg _ (runS0_new .BDHP hv) runOpsEx 0 s' 32 blk 97 hp rfl
      (Nat.le_refl _) hrun, by decide⟩

/-- WindowSize 64 = BufferSize, BlockSize 32, InputLen1 3, InputLen2 4, 4 slots per table -/
def bdCfg : Cfg :=
  { windowSize := 64, bufferSize := 64, blockSize := 32, shrinkSize := 16,
    inputLen1 := 3, hashBits1 := 2, inputLen2 := 4, hashBits2 := 2 }

/-- the parser `NewParser` returns for `bdCfg` -/
def bdS0 : Parser :=
  { kind := .BDHP, cfg := setDefaults .BDHP (bdCfg.restrict .BDHP),
    buf := PBuf.init (setDefaults .BDHP (bdCfg.restrict .BDHP)).bufCfg,
    dict := freshDict .BDHP (setDefaults .BDHP (bdCfg.restrict .BDHP)) }

theorem bdS0_new : newParser .BDHP bdCfg = some bdS0 := by
  unfold newParser
  simp only []
  rw [if_pos (by decide)]
  rfl

/-- the history: `Write(a^31 b)`, `Parse(&blk, 0)`, `Write(a^32)` -/
def bdOps : List POp :=
  [.write (List.replicate 31 97 ++ [98]), .parse 0, .write (List.replicate 32 97)]

set_option maxRecDepth 100000 in
/-- **The bound `≤ 1` of HP/BHP/DHP is violated by BDHP** (kernel-checked, `decide`, through the
    evaluable copy `parseF` of `parse`): the first `Parse` of the history `bdOps` emits one literal and
    one match over `a^30` and — BDHP re-indexes only the short table — leaves position 1 in the long
    table as the entry of the key `aaaa`.  In the state reached, the next `Parse` returns the block
    `[32, 64)` of 32 bytes `a`; it is parsed as ONE match of length 30 with offset 31 (that stale
    entry) followed by TWO literals — the last `InputLen1 - 1` bytes cannot be hashed.
    `C19_run_bdhp_partial` is sharp here. -/
theorem bdhp_two_literals :
    let s := (runOps (bdS0, Ghost.init) bdOps).1
    newParser .BDHP bdCfg = some bdS0 ∧
    (s.parse 0).2.1 = 32 ∧ (s.parse 0).2.2.1 = .ok ∧
    (∀ t, t < 32 → s.buf.data[s.buf.w + t]? = some 97) ∧
    (s.parse 0).2.2.2.seqs = [⟨0, 30, 31, 0⟩] ∧ (s.parse 0).2.2.2.lits = [97, 97] ∧
    (s.parse 0).2.2.2.lits.length = max 1 (s.cfg.inputLen1.toNat - 1) := by
  intro s
  have hs : s = List.foldl stepPF bdS0 bdOps := runOps_fst_F _ _
  have hdata : s.buf.w = 32 ∧ s.buf.data = List.replicate 31 97 ++ [98] ++ List.replicate 32 97 ∧
      s.cfg.inputLen1.toNat = 3 := by
    rw [hs]
    decide
  have hpar : (s.parse 0).2.1 = 32 ∧ (s.parse 0).2.2.1 = .ok ∧
      (s.parse 0).2.2.2.seqs = [⟨0, 30, 31, 0⟩] ∧ (s.parse 0).2.2.2.lits = [97, 97] := by
    rw [hs, parse_eq_parseF]
    decide
  refine ⟨bdS0_new, hpar.1, hpar.2.1, ?_, hpar.2.2.1, hpar.2.2.2, ?_⟩
  · intro t ht
    rw [hdata.1, hdata.2.1, List.getElem?_append_right (by simp), List.getElem?_replicate,
      if_pos (by simp; omega)]
  · rw [hpar.2.2.2, hdata.2.2]; decide

end Examples

end LZ

