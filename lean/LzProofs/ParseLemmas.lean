/-
  LzProofs.ParseLemmas — byte-comparison and reference-expander lemmas used by the
  parser proofs (C01, C02, C03, C14, C19):
  * `lcpLen` / `lcsLen` / `backExt` : bounds, agreement, maximality
  * `copyRef_take`, `expandSeqs_snoc` : the reference expander on a genuine match
  * `MatchOK` from verified candidates (`lcpLen_drop_matchOK`, `backExt_matchOK`)
-/
import LzModel.Basic
import LzModel.Hash
namespace LZ

/-! ## `lcpLen` -/

theorem lcpLen_le_left (a b : List Byte) : lcpLen a b ≤ a.length := by
  induction a generalizing b with
  | nil => simp [lcpLen]
  | cons x xs ih =>
    cases b with
    | nil => simp [lcpLen]
    | cons y ys =>
      simp only [lcpLen]
      split
      · have := ih ys; simp; omega
      · simp

theorem lcpLen_le_right (a b : List Byte) : lcpLen a b ≤ b.length := by
  induction a generalizing b with
  | nil => simp [lcpLen]
  | cons x xs ih =>
    cases b with
    | nil => simp [lcpLen]
    | cons y ys =>
      simp only [lcpLen]
      split
      · have := ih ys; simp; omega
      · simp

theorem lcpLen_le_min (a b : List Byte) : lcpLen a b ≤ min a.length b.length := by
  have := lcpLen_le_left a b; have := lcpLen_le_right a b; omega

/-- the two lists agree on the first `lcpLen a b` positions -/
theorem lcpLen_getElem? (a b : List Byte) : ∀ t, t < lcpLen a b → a[t]? = b[t]? := by
  induction a generalizing b with
  | nil => intro t h; simp [lcpLen] at h
  | cons x xs ih =>
    cases b with
    | nil => intro t h; simp [lcpLen] at h
    | cons y ys =>
      intro t h
      simp only [lcpLen] at h
      split at h
      · rename_i hxy
        cases t with
        | zero => simp [hxy]
        | succ t => simp only [List.getElem?_cons_succ]; exact ih ys t (by omega)
      · omega

/-- maximality: the common prefix stops at the end of a list or at a differing byte -/
theorem lcpLen_maximal (a b : List Byte) :
    lcpLen a b = a.length ∨ lcpLen a b = b.length ∨ a[lcpLen a b]? ≠ b[lcpLen a b]? := by
  induction a generalizing b with
  | nil => left; simp [lcpLen]
  | cons x xs ih =>
    cases b with
    | nil => right; left; simp [lcpLen]
    | cons y ys =>
      simp only [lcpLen]
      split
      · rcases ih ys with h | h | h
        · left; simp [h]
        · right; left; simp [h]
        · right; right; simpa using h
      · rename_i hxy
        right; right; simpa using hxy

/-- maximality in the `drop` form used by all match finders -/
theorem lcpLen_drop_maximal (p : List Byte) (j i : Nat) (hji : j < i) :
    let k := lcpLen (p.drop j) (p.drop i)
    i + k = p.length ∨ p.length ≤ i ∨ p[i + k]? ≠ p[j + k]? := by
  intro k
  by_cases hi : p.length ≤ i
  · right; left; exact hi
  rcases lcpLen_maximal (p.drop j) (p.drop i) with h | h | h
  · have := lcpLen_le_right (p.drop j) (p.drop i)
    simp only [List.length_drop] at h this
    omega
  · left
    simp only [List.length_drop] at h
    show i + lcpLen (p.drop j) (p.drop i) = p.length
    omega
  · right; right
    simp only [List.getElem?_drop] at h
    exact fun e => h e.symm

/-- a verified candidate is a genuine match -/
theorem lcpLen_drop_matchOK (p : List Byte) (j i : Nat) (hji : j < i) (hi : i ≤ p.length) :
    MatchOK p i (lcpLen (p.drop j) (p.drop i)) (i - j) := by
  refine ⟨by omega, by omega, ?_, ?_⟩
  · have := lcpLen_le_right (p.drop j) (p.drop i)
    simp only [List.length_drop] at this
    omega
  · intro t ht
    have := lcpLen_getElem? _ _ t ht
    simp only [List.getElem?_drop] at this
    have e : i + t - (i - j) = j + t := by omega
    rw [e]; exact this.symm

/-! ## `MatchOK` -/

theorem MatchOK.mono_len {p : List Byte} {i k o : Nat} (h : MatchOK p i k o) (k' : Nat) (hk : k' ≤ k) :
    MatchOK p i k' o := by
  obtain ⟨a, b, c, d⟩ := h
  exact ⟨a, b, by omega, fun t ht => d t (by omega)⟩

/-- a genuine match in a prefix is genuine in every extension -/
theorem MatchOK.append {p : List Byte} {i k o : Nat} (h : MatchOK p i k o) (q : List Byte) :
    MatchOK (p ++ q) i k o := by
  obtain ⟨a, b, c, d⟩ := h
  refine ⟨a, b, by simp; omega, ?_⟩
  intro t ht
  rw [List.getElem?_append_left (by omega), List.getElem?_append_left (by omega)]
  exact d t ht

/-- a genuine match inside the first `n` bytes is genuine in `p.take n` -/
theorem MatchOK.take {p : List Byte} {i k o : Nat} (h : MatchOK p i k o) (n : Nat) (hn : i + k ≤ n) :
    MatchOK (p.take n) i k o := by
  obtain ⟨a, b, c, d⟩ := h
  refine ⟨a, b, by simp; omega, ?_⟩
  intro t ht
  rw [List.getElem?_take_of_lt (by omega), List.getElem?_take_of_lt (by omega)]
  exact d t ht

theorem MatchOK.of_take {p : List Byte} {n i k o : Nat} (h : MatchOK (p.take n) i k o) :
    MatchOK p i k o := by
  obtain ⟨a, b, c, d⟩ := h
  simp only [List.length_take] at c
  refine ⟨a, b, by omega, ?_⟩
  intro t ht
  have := d t ht
  rwa [List.getElem?_take_of_lt (by omega), List.getElem?_take_of_lt (by omega)] at this

/-! ## `lcsLen` and the backward extension -/

theorem lcsLen_le_left (a b : List Byte) : lcsLen a b ≤ a.length := by
  unfold lcsLen; have := lcpLen_le_left a.reverse b.reverse; simpa using this

theorem lcsLen_le_right (a b : List Byte) : lcsLen a b ≤ b.length := by
  unfold lcsLen; have := lcpLen_le_right a.reverse b.reverse; simpa using this

/-- the last `lcsLen a b` bytes agree -/
theorem lcsLen_getElem? (a b : List Byte) (t : Nat) (ht : t < lcsLen a b) :
    a[a.length - 1 - t]? = b[b.length - 1 - t]? := by
  have h1 := lcsLen_le_left a b
  have h2 := lcsLen_le_right a b
  have := lcpLen_getElem? a.reverse b.reverse t ht
  rwa [List.getElem?_reverse (by omega), List.getElem?_reverse (by omega)] at this

/-- maximality of the common suffix -/
theorem lcsLen_maximal (a b : List Byte) :
    lcsLen a b = a.length ∨ lcsLen a b = b.length ∨
      a[a.length - 1 - lcsLen a b]? ≠ b[b.length - 1 - lcsLen a b]? := by
  have h1 := lcsLen_le_left a b
  have h2 := lcsLen_le_right a b
  rcases lcpLen_maximal a.reverse b.reverse with h | h | h
  · left; simpa [lcsLen] using h
  · right; left; simpa [lcsLen] using h
  · by_cases ha : lcsLen a b = a.length
    · left; exact ha
    by_cases hb : lcsLen a b = b.length
    · right; left; exact hb
    right; right
    have ha' : lcpLen a.reverse b.reverse < a.length := by unfold lcsLen at ha h1; omega
    have hb' : lcpLen a.reverse b.reverse < b.length := by unfold lcsLen at hb h2; omega
    rwa [List.getElem?_reverse ha', List.getElem?_reverse hb'] at h

theorem backExt_eq (p : List Byte) (i li j : Nat) :
    backExt p i li j =
      if i > li then lcsLen ((p.take j).drop (j - min (i - li) j)) (p.take i) else 0 := rfl

theorem backExt_le (p : List Byte) (i li j : Nat) (hj : j ≤ p.length) :
    backExt p i li j ≤ i - li ∧ backExt p i li j ≤ j := by
  rw [backExt_eq]
  split
  · have := lcsLen_le_left ((p.take j).drop (j - min (i - li) j)) (p.take i)
    simp only [List.length_drop, List.length_take] at this
    constructor <;> omega
  · simp

/-- the bytes in front of source and target agree over the backward extension -/
theorem backExt_getElem? (p : List Byte) (i li j : Nat) (hji : j < i) (hi : i ≤ p.length)
    (t : Nat) (ht : t < backExt p i li j) : p[j - 1 - t]? = p[i - 1 - t]? := by
  have hle := backExt_le p i li j (by omega)
  by_cases hgt : i > li
  · rw [backExt_eq, if_pos hgt] at ht hle
    have h := lcsLen_getElem? _ _ t ht
    simp only [List.length_drop, List.length_take] at h
    rw [List.getElem?_drop, List.getElem?_take_of_lt (by omega),
      List.getElem?_take_of_lt (by omega)] at h
    have e1 : j - min (i - li) j + (min j p.length - (j - min (i - li) j) - 1 - t) = j - 1 - t := by
      omega
    have e2 : min i p.length - 1 - t = i - 1 - t := by omega
    rw [e1, e2] at h; exact h
  · rw [backExt_eq, if_neg hgt] at ht; omega

/-- maximality of the backward extension (C19): it stops at the pending literals' start,
    at the buffer start of the source, or at a differing byte -/
theorem backExt_maximal (p : List Byte) (i li j : Nat) (hji : j < i) (hi : i ≤ p.length)
    (hli : li ≤ i) :
    let m := backExt p i li j
    i - m = li ∨ j - m = 0 ∨ p[i - m - 1]? ≠ p[j - m - 1]? := by
  intro m
  have hle := backExt_le p i li j (by omega)
  by_cases h1 : i - m = li
  · left; exact h1
  by_cases h2 : j - m = 0
  · right; left; exact h2
  right; right
  have hm : m = backExt p i li j := rfl
  rw [backExt_eq] at hm
  split at hm
  · rcases lcsLen_maximal ((p.take j).drop (j - min (i - li) j)) (p.take i) with h | h | h
    · simp only [List.length_drop, List.length_take] at h
      rw [← hm] at h; omega
    · simp only [List.length_take] at h
      rw [← hm] at h; omega
    · rw [← hm] at h
      simp only [List.length_drop, List.length_take] at h
      rw [List.getElem?_drop, List.getElem?_take_of_lt (by omega),
        List.getElem?_take_of_lt (by omega)] at h
      have e1 : j - min (i - li) j + (min j p.length - (j - min (i - li) j) - 1 - m) = j - m - 1 := by
        omega
      have e2 : min i p.length - 1 - m = i - m - 1 := by omega
      rw [e1, e2] at h
      exact fun e => h e.symm
  · omega

/-- a verified candidate extended backwards is still a genuine match -/
theorem backExt_matchOK (p : List Byte) (i li j k : Nat) (hji : j < i) (hi : i ≤ p.length)
    (hk : MatchOK p i k (i - j)) :
    MatchOK p (i - backExt p i li j) (k + backExt p i li j) (i - j) := by
  have hle := backExt_le p i li j (by omega)
  obtain ⟨a, b, c, d⟩ := hk
  refine ⟨a, by omega, by omega, ?_⟩
  intro t ht
  by_cases htm : t < backExt p i li j
  · have := backExt_getElem? p i li j hji hi (backExt p i li j - 1 - t) (by omega)
    have e1 : j - 1 - (backExt p i li j - 1 - t) = i - backExt p i li j + t - (i - j) := by omega
    have e2 : i - 1 - (backExt p i li j - 1 - t) = i - backExt p i li j + t := by omega
    rw [e1, e2] at this; exact this.symm
  · have := d (t - backExt p i li j) (by omega)
    have e1 : i + (t - backExt p i li j) = i - backExt p i li j + t := by omega
    rw [e1] at this; exact this

/-! ## the reference expander on genuine matches -/

theorem copyRef_take (p : List Byte) (o : Nat) (ho : 0 < o) :
    ∀ (m j : Nat), o ≤ j → j + m ≤ p.length →
      (∀ t, t < m → p[j + t]? = p[j + t - o]?) →
      copyRef (p.take j) o m = some (p.take (j + m)) := by
  intro m
  induction m with
  | zero => intro j _ _ _; simp [copyRef]
  | succ m ih =>
    intro j hj hlen hb
    have hjl : j < p.length := by omega
    have hlt : (p.take j).length = j := by simp; omega
    unfold copyRef
    have hc : 0 < o ∧ o ≤ (p.take j).length := by rw [hlt]; exact ⟨ho, hj⟩
    rw [dif_pos hc]
    have h0 := hb 0 (by omega)
    simp only [Nat.add_zero] at h0
    have e1 : (p.take j)[(p.take j).length - o]'(by omega) = p[j]'hjl := by
      have h1 : (p.take j)[(p.take j).length - o]'(by omega) = p[j - o]'(by omega) := by
        simp [List.getElem_take, hlt]
      have h2 : p[j - o]'(by omega) = p[j]'hjl := by
        have : some (p[j]'hjl) = some (p[j - o]'(by omega)) := by
          rw [← List.getElem?_eq_getElem, ← List.getElem?_eq_getElem]; exact h0
        exact (Option.some.inj this).symm
      rw [h1, h2]
    rw [e1]
    have e2 : p.take j ++ [p[j]] = p.take (j + 1) := by
      rw [List.take_add_one]; simp [hjl]
    rw [e2]
    have := ih (j + 1) (by omega) (by omega) (by
      intro t ht
      have h3 := hb (t + 1) (by omega)
      have a1 : j + (t + 1) = j + 1 + t := by omega
      rw [a1] at h3; exact h3)
    rw [this]; congr 2; omega

theorem copyRef_matchOK {p : List Byte} {i k o : Nat} (h : MatchOK p i k o) :
    copyRef (p.take i) o k = some (p.take (i + k)) :=
  copyRef_take p o h.1 k i h.2.1 h.2.2.1 h.2.2.2

theorem expandSeqs_snoc (out lits1 lits2 : List Byte) (ss : List Seq) (s : Seq) (out' : List Byte)
    (h : expandSeqs out lits1 ss = some (out', [])) :
    expandSeqs out (lits1 ++ lits2) (ss ++ [s]) = expandSeqs out' lits2 [s] := by
  induction ss generalizing out lits1 with
  | nil =>
    simp only [expandSeqs, Option.some.injEq, Prod.mk.injEq] at h
    obtain ⟨h1, h2⟩ := h
    subst h1; subst h2; simp
  | cons a ss ih =>
    simp only [expandSeqs, List.cons_append] at h ⊢
    split at h
    · rename_i hle
      have hle' : a.litLen ≤ (lits1 ++ lits2).length := by simp; omega
      rw [if_pos hle']
      have t1 : (lits1 ++ lits2).take a.litLen = lits1.take a.litLen := by
        rw [List.take_append_of_le_length hle]
      have t2 : (lits1 ++ lits2).drop a.litLen = lits1.drop a.litLen ++ lits2 := by
        rw [List.drop_append_of_le_length hle]
      rw [t1, t2]
      split at h
      · exact ih _ _ h
      · simp at h
    · simp at h

/-- appending unused literals at the end does not disturb the expansion of the sequences -/
theorem expandSeqs_append_lits (out lits1 lits2 : List Byte) (ss : List Seq) (out' rest : List Byte)
    (h : expandSeqs out lits1 ss = some (out', rest)) :
    expandSeqs out (lits1 ++ lits2) ss = some (out', rest ++ lits2) := by
  induction ss generalizing out lits1 with
  | nil =>
    simp only [expandSeqs, Option.some.injEq, Prod.mk.injEq] at h ⊢
    obtain ⟨h1, h2⟩ := h
    subst h1; subst h2; simp
  | cons a ss ih =>
    simp only [expandSeqs] at h ⊢
    split at h
    · rename_i hle
      have hle' : a.litLen ≤ (lits1 ++ lits2).length := by simp; omega
      rw [if_pos hle']
      have t1 : (lits1 ++ lits2).take a.litLen = lits1.take a.litLen := by
        rw [List.take_append_of_le_length hle]
      have t2 : (lits1 ++ lits2).drop a.litLen = lits1.drop a.litLen ++ lits2 := by
        rw [List.drop_append_of_le_length hle]
      rw [t1, t2]
      split at h
      · exact ih _ _ h
      · simp at h
    · simp at h

/-- one step of the greedy loop at the expander level: pending literals `p[li, s)` followed
    by a genuine match at `s` extend the expansion from `p.take li` to `p.take (s+k)` -/
theorem expandSeqs_step (p : List Byte) (li s k o : Nat) (hls : li ≤ s) (hm : MatchOK p s k o) :
    expandSeqs (p.take li) ((p.drop li).take (s - li))
      [{ litLen := ((p.drop li).take (s - li)).length, matchLen := k, offset := o }]
      = some (p.take (s + k), []) := by
  have hsl : s ≤ p.length := by have := hm.2.2.1; omega
  have hq : ((p.drop li).take (s - li)).length = s - li := by simp; omega
  simp only [expandSeqs, hq]
  have hle : s - li ≤ ((p.drop li).take (s - li)).length := by omega
  have e3 : p.take li ++ ((p.drop li).take (s - li)).take (s - li) = p.take s := by
    rw [List.take_take, Nat.min_self, ← List.take_add]
    congr 1; omega
  have hlen : s - li ≤ s - li := Nat.le_refl _
  simp only [hlen, if_true]
  rw [e3, copyRef_matchOK hm]
  simp

/-! ## more history in front does not disturb a successful expansion -/

theorem copyRef_prepend (d : List Byte) (o : Nat) :
    ∀ (m : Nat) (out r : List Byte), copyRef out o m = some r →
      copyRef (d ++ out) o m = some (d ++ r) := by
  intro m
  induction m with
  | zero => intro out r h; simp only [copyRef, Option.some.injEq] at h ⊢; rw [h]
  | succ m ih =>
    intro out r h
    unfold copyRef at h ⊢
    split at h
    · rename_i hc
      have hc' : 0 < o ∧ o ≤ (d ++ out).length := by simp; omega
      rw [dif_pos hc']
      have := ih _ _ h
      have e : (d ++ out)[(d ++ out).length - o]'(by simp; omega) = out[out.length - o]'(by omega) := by
        rw [List.getElem_append_right (by simp; omega)]
        congr 1; simp; omega
      rw [e, List.append_assoc]; exact this
    · simp at h

theorem expandSeqs_prepend (d : List Byte) :
    ∀ (ss : List Seq) (out lits r rest : List Byte), expandSeqs out lits ss = some (r, rest) →
      expandSeqs (d ++ out) lits ss = some (d ++ r, rest) := by
  intro ss
  induction ss with
  | nil =>
    intro out lits r rest h
    simp only [expandSeqs, Option.some.injEq, Prod.mk.injEq] at h ⊢
    exact ⟨by rw [h.1], h.2⟩
  | cons a ss ih =>
    intro out lits r rest h
    simp only [expandSeqs] at h ⊢
    split at h
    · rename_i hle
      rw [if_pos hle]
      split at h
      · rename_i out' hc
        rw [List.append_assoc, copyRef_prepend d _ _ _ _ hc]
        exact ih _ _ _ _ h
      · simp at h
    · simp at h

theorem expand_prepend (d hist : List Byte) (b : Block) (r : List Byte)
    (h : expand hist b = some r) : expand (d ++ hist) b = some (d ++ r) := by
  unfold expand at h ⊢
  split at h
  · rename_i out rest he
    rw [expandSeqs_prepend d _ _ _ _ _ he]
    simp only [Option.some.injEq] at h ⊢
    rw [← h, List.append_assoc]
  · simp at h

end LZ
