/-
  LzProofs.GenBDHPParse — the mechanical translation of bdhp.go `(*bdhp).Parse`
  (LzModel/Generated/CodeBDHPParse.lean, topic BDHPParse of tools/extract/code_parse.go; `lcs` is an opaque
  parameter of the translation; `doubleHashDictionary.processSegment` is the function of topic DHPParse) versus the
  word-level model `LZ.ProbeW.parseW` for kind `.BDHP` (`processSegment2W`, `dhpProbeW … true`), under the
  specification `LcsSpec lcs` (GenBHPParseLemmas: `lcs p q` = the length of the longest common suffix of the elements;
  what `BytesProps.lcsW?_eq` proves of the word-level `lcs`), and through `ProbeW.parseW_reachable` the LIST-LEVEL model
  `Parser.parse`.  Port of LzProofs/GenDHPParse.lean; no sorry, no axioms of its own.

    gen_bdhp_parse        `ParseOKBD s`, `flags ≥ 0`, `fuel ≥ 2·len(s.Data) + 3`, `LcsSpec lcs`:
                          `parseW (ofBDHPs s) (staleOfBD s) flags = none` ⇒ `Res.panic`; `= some (s', n, e, b)` ⇒
                          `Res.ok (t, blk', n, parseErr e)` with `ofBDHPs t = s'`, same stale bytes, sequences,
                          literals, and `ParseOKBD t`.
    gen_bdhp_parse_model  on reachable states: no panic, the result of the list-level `Parser.parse`.
    gen_bdhp_parse_empty  the straight-line prefix (`n = 0`), every fuel.

  bdhp.go has TWO greedy loops like dhp.go (`i < e2`: both tables are probed; `e2 ≤ i < e1`: h1 only, re-indexing
  from the MATCH position `j`); after a match of the first loop only the table of h1 is re-indexed (loop_3, loop_4 —
  the model's `dhpProbeW … true` leaves `t2`), from the backward-extended position `i - m + 1`.
  No init theorem for `bdhp.init` yet, hence no `gen_bdhp_init_parseOK`.
-/
import LzProofs.GenBDHPParseLoop
import LzProofs.GenHPParse

set_option linter.unusedSimpArgs false
set_option linter.unusedVariables false

namespace LZ.GenBDHPParse
open LZ LZ.Gen LZ.GenBuf LZ.GenHash LZ.GenProps LZ.GenHPParse LZ.GenParse LZ.GenDHPParse LZ.GenBHPParse

/-- the model parser state a Go `doubleHashParser` stands for -/
def ofBDHPs (s : Gen.bdhp) : Parser := ofDDict .BDHP (ofBDHP s.BDHPConfig) s.doubleHashDictionary

/-- `n` of `Parse`: `min (len(s.Data) - s.W) s.BlockSize` in Go `int` arithmetic -/
def blockNBD (s : Gen.bdhp) : Int :=
  if s.BDHPConfig.BlockSize < (Int.ofNat s.doubleHashDictionary.ParserBuffer.Data.len) - s.doubleHashDictionary.ParserBuffer.W then
    s.BDHPConfig.BlockSize
  else
    (Int.ofNat s.doubleHashDictionary.ParserBuffer.Data.len) - s.doubleHashDictionary.ParserBuffer.W

/-- the bytes between `len(s.Data)` and `cap(s.Data)`: the `stale` argument of `ProbeW.parseW` -/
def staleOfBD (s : Gen.bdhp) : List UInt8 :=
  s.doubleHashDictionary.ParserBuffer.Data.arr.drop s.doubleHashDictionary.ParserBuffer.Data.len

theorem staleOfBD_length (s : Gen.bdhp)
    (h : s.doubleHashDictionary.ParserBuffer.Data.len ≤ s.doubleHashDictionary.ParserBuffer.Data.arr.length) :
    s.doubleHashDictionary.ParserBuffer.Data.data.length + (staleOfBD s).length
      = s.doubleHashDictionary.ParserBuffer.Data.cap := by
  unfold staleOfBD Slice.data Slice.cap
  rw [List.length_take, List.length_drop]
  omega

/-- the straight-line prefix of `Parse`: nothing to parse ⇒ `(0, ErrEmptyBuffer)`, the block is emptied, the parser
    is unchanged; no panic, for every `grow` and `fuel` -/
theorem gen_bdhp_parse_empty (grow : Nat → Nat → Nat) (fuel : Nat) (lcs : Slice → Slice → Int) (s : Gen.bdhp) (blk : Gen.Block')
    (flags : Int) (h : blockNBD s = 0) :
    bdhp_Parse grow fuel lcs s blk flags = Res.ok (s, resetBlk blk, (0 : Int), ErrEmptyBuffer) := by
  have bind_ok : ∀ {α β : Type} (a : α) (f : α → Res β), Res.bind (Res.ok a) f = f a := fun _ _ => rfl
  have hs : Slice.slice blk.Literals 0 (0 : Int) = Res.ok { arr := blk.Literals.arr, len := 0 } := by
    unfold Slice.slice
    simp [Slice.cap]
  unfold blockNBD at h
  unfold bdhp_Parse bdhp_Parse_nilable; simp only [Bool.false_eq_true]
  -- shape-independent in the spelling of the clamp (`BlockSize < n`, `n > BlockSize`, `BlockSize <= n`, `n >= BlockSize`)
  by_cases hgt : s.BDHPConfig.BlockSize < (Int.ofNat s.doubleHashDictionary.ParserBuffer.Data.len) - s.doubleHashDictionary.ParserBuffer.W
  · have hB : s.BDHPConfig.BlockSize = 0 := by simpa only [hgt, if_true] using h
    have hge : s.BDHPConfig.BlockSize ≤ (Int.ofNat s.doubleHashDictionary.ParserBuffer.Data.len) - s.doubleHashDictionary.ParserBuffer.W := by
      omega
    simp only [hgt, hge, gt_iff_lt, ge_iff_le, if_true, if_false, hs, bind_ok, resetBlk]
    simp only [hB, if_true]
  · have hL : (Int.ofNat s.doubleHashDictionary.ParserBuffer.Data.len) - s.doubleHashDictionary.ParserBuffer.W = 0 := by
      simpa only [hgt, if_false] using h
    by_cases hge : s.BDHPConfig.BlockSize ≤ (Int.ofNat s.doubleHashDictionary.ParserBuffer.Data.len) - s.doubleHashDictionary.ParserBuffer.W
    · have hB : s.BDHPConfig.BlockSize = 0 := by omega
      simp only [hgt, hge, gt_iff_lt, ge_iff_le, if_true, if_false, hs, bind_ok, resetBlk]
      simp only [hB, hL, if_true]
    · simp only [hgt, hge, gt_iff_lt, ge_iff_le, if_true, if_false, hs, bind_ok, resetBlk]
      simp only [hL, if_true]

/-! ## the whole `Parse` -/

/-- the hypotheses of `gen_bdhp_parse` on the Go state (see the header) -/
structure ParseOKBD (s : Gen.bdhp) : Prop where
  wf : DDictWF s.doubleHashDictionary
  cws : s.BDHPConfig.WindowSize.toNat = s.doubleHashDictionary.ParserBuffer.BufConfig.WindowSize.toNat
  cbs : s.BDHPConfig.BlockSize.toNat = s.doubleHashDictionary.ParserBuffer.BufConfig.BlockSize.toNat
  cil : s.BDHPConfig.InputLen1.toNat = s.doubleHashDictionary.h1.inputLen.toNat
  bs0 : 0 ≤ s.BDHPConfig.BlockSize
  w : s.doubleHashDictionary.ParserBuffer.W ≤ s.doubleHashDictionary.ParserBuffer.Data.len
  il1 : 1 ≤ s.doubleHashDictionary.h1.inputLen
  il12 : s.doubleHashDictionary.h1.inputLen ≤ s.doubleHashDictionary.h2.inputLen
  sh1 : 32 ≤ s.doubleHashDictionary.h1.shift.toNat
  sh2 : 32 ≤ s.doubleHashDictionary.h2.shift.toNat
  small : s.doubleHashDictionary.ParserBuffer.Data.len < 4294967296

theorem parseW_double_nf (s : Parser) (stale : List Byte) (flags : Nat) (d : Hash2) (hd : s.dict = .double d)
    (hn : s.blockN ≠ 0) :
    ProbeW.parseW s stale flags =
      (ProbeW.processSegment2W d.h1 d.h2 s.buf.data stale ((s.buf.w : Int) - d.h2.inputLen + 1) s.buf.w).bind fun hh =>
      (ProbeW.resliceMargin (s.buf.data.take (s.buf.w + s.blockN)) (s.buf.data.drop (s.buf.w + s.blockN) ++ stale)
        hh.1.inputLen).bind fun _ =>
      (ProbeW.runGreedyW (ProbeW.dhpProbeW s.buf.cfg.windowSize s.minMatch
          ((s.buf.data.take (s.buf.w + s.blockN)).length + 1 - hh.1.inputLen)
          ((s.buf.data.take (s.buf.w + s.blockN)).length + 1 - hh.2.inputLen) (s.kind == .BDHP)
          (s.buf.data.drop (s.buf.w + s.blockN) ++ stale)) ⟨hh.1, hh.2⟩ (s.buf.data.take (s.buf.w + s.blockN)) s.buf.w
          ((s.buf.data.take (s.buf.w + s.blockN)).length + 1 - hh.1.inputLen) flags).bind fun r =>
      some ({ s with buf := { s.buf with w := r.2.1 }, dict := .double r.1 }, r.2.1 - s.buf.w, .ok, r.2.2.1) := by
  unfold ProbeW.parseW
  simp only [hn, if_false, hd]
  rfl

/-- the Go state after `Parse`: new `W`, new tables -/
@[reducible] def withWTBD (s : Gen.bdhp) (w : Int) (t1 t2 : GSlice hashEntry) : Gen.bdhp :=
  { doubleHashDictionary :=
      { ParserBuffer := { s.doubleHashDictionary.ParserBuffer with W := w },
        h1 := { s.doubleHashDictionary.h1 with table := t1 },
        h2 := { s.doubleHashDictionary.h2 with table := t2 } },
    BDHPConfig := s.BDHPConfig }

set_option maxHeartbeats 1000000 in
theorem gen_bdhp_parse (grow : Nat → Nat → Nat) (fuel : Nat) (lcs : Slice → Slice → Int) (hlcs : LcsSpec lcs)
    (s : Gen.bdhp) (blk : Gen.Block') (flags : Int)
    (h : ParseOKBD s) (hfl : 0 ≤ flags) (hfuel : 2 * s.doubleHashDictionary.ParserBuffer.Data.len + 3 ≤ fuel) :
    match ProbeW.parseW (ofBDHPs s) (staleOfBD s) flags.toNat with
    | none => bdhp_Parse grow fuel lcs s blk flags = Res.panic
    | some (s', n, e, b) =>
      ∃ t blk', bdhp_Parse grow fuel lcs s blk flags = Res.ok (t, blk', (n : Int), parseErr e) ∧
        ofBDHPs t = s' ∧ staleOfBD t = staleOfBD s ∧ (e = .ok ∨ e = .empty) ∧
        blk'.Sequences = b.seqs.map seqRep ∧ blk'.Literals.data = b.lits ∧ SWF blk'.Literals ∧ ParseOKBD t := by
  have hP := h
  obtain ⟨⟨hpb, hw1, hw2⟩, cws, cbs, cil, hbs0, hW, hil1, hil12, hsh1, hsh2, hsmall⟩ := h
  obtain ⟨hgwf1, hil01, hmask1, hs641, htl1⟩ := hw1
  obtain ⟨hgwf2, hil02, hmask2, hs642, htl2⟩ := hw2
  have w1 : HOK s.doubleHashDictionary.h1 := ⟨hil01, hmask1, hsh1, hs641, ⟨hgwf1, htl1⟩⟩
  have w2 : HOK s.doubleHashDictionary.h2 := ⟨hil02, hmask2, hsh2, hs642, ⟨hgwf2, htl2⟩⟩
  have hD : SWF s.doubleHashDictionary.ParserBuffer.Data := hpb.data
  have hD' : s.doubleHashDictionary.ParserBuffer.Data.len ≤ s.doubleHashDictionary.ParserBuffer.Data.arr.length := hD
  have hW0 := hpb.w
  have hdl : s.doubleHashDictionary.ParserBuffer.Data.data.length = s.doubleHashDictionary.ParserBuffer.Data.len := data_length hD
  have hbN : (ofBDHPs s).blockN = Min.min (s.doubleHashDictionary.ParserBuffer.Data.len - s.doubleHashDictionary.ParserBuffer.W.toNat)
      s.BDHPConfig.BlockSize.toNat := by
    show Min.min (s.doubleHashDictionary.ParserBuffer.Data.data.length - _) s.doubleHashDictionary.ParserBuffer.BufConfig.BlockSize.toNat = _
    rw [hdl, cbs]
    rfl
  -- the clamp in its spellings
  have hnG : (if s.BDHPConfig.BlockSize < (Int.ofNat s.doubleHashDictionary.ParserBuffer.Data.len) - s.doubleHashDictionary.ParserBuffer.W
      then s.BDHPConfig.BlockSize
      else (Int.ofNat s.doubleHashDictionary.ParserBuffer.Data.len) - s.doubleHashDictionary.ParserBuffer.W) =
      (((ofBDHPs s).blockN : Nat) : Int) := by
    rw [hbN]
    show (if _ < (s.doubleHashDictionary.ParserBuffer.Data.len : Int) - _ then _ else (s.doubleHashDictionary.ParserBuffer.Data.len : Int) - _) = _
    split <;> omega
  have hnG' : (if s.BDHPConfig.BlockSize ≤ (Int.ofNat s.doubleHashDictionary.ParserBuffer.Data.len) - s.doubleHashDictionary.ParserBuffer.W
      then s.BDHPConfig.BlockSize
      else (Int.ofNat s.doubleHashDictionary.ParserBuffer.Data.len) - s.doubleHashDictionary.ParserBuffer.W) =
      (((ofBDHPs s).blockN : Nat) : Int) := by
    rw [hbN]
    show (if _ ≤ (s.doubleHashDictionary.ParserBuffer.Data.len : Int) - _ then _ else (s.doubleHashDictionary.ParserBuffer.Data.len : Int) - _) = _
    split <;> omega
  by_cases hn : (ofBDHPs s).blockN = 0
  · have hg : blockNBD s = 0 := by unfold blockNBD; rw [hnG, hn]; rfl
    rw [gen_bdhp_parse_empty grow fuel lcs s blk flags hg]
    unfold ProbeW.parseW
    simp only [hn, if_true]
    exact ⟨s, resetBlk blk, rfl, rfl, rfl, by simp, rfl, rfl, Nat.zero_le _, hP⟩
  -- the model side, without `do`
  rw [parseW_double_nf (ofBDHPs s) (staleOfBD s) flags.toNat
    ⟨ofHash s.doubleHashDictionary.h1, ofHash s.doubleHashDictionary.h2⟩ rfl hn]
  have hargs : ProbeW.processSegment2W (ofHash s.doubleHashDictionary.h1) (ofHash s.doubleHashDictionary.h2)
      (ofBDHPs s).buf.data (staleOfBD s)
      (((ofBDHPs s).buf.w : Int) - ((ofHash s.doubleHashDictionary.h2).inputLen : Int) + 1) ((ofBDHPs s).buf.w : Int) =
      ProbeW.processSegment2W (ofHash s.doubleHashDictionary.h1) (ofHash s.doubleHashDictionary.h2)
        s.doubleHashDictionary.ParserBuffer.Data.data
        (s.doubleHashDictionary.ParserBuffer.Data.arr.drop s.doubleHashDictionary.ParserBuffer.Data.len)
        ((s.doubleHashDictionary.ParserBuffer.W - s.doubleHashDictionary.h2.inputLen) + 1) s.doubleHashDictionary.ParserBuffer.W := by
    have e1 : (((ofBDHPs s).buf.w : Nat) : Int) = s.doubleHashDictionary.ParserBuffer.W := by
      show ((s.doubleHashDictionary.ParserBuffer.W.toNat : Nat) : Int) = _; omega
    have e2 : (((ofHash s.doubleHashDictionary.h2).inputLen : Nat) : Int) = s.doubleHashDictionary.h2.inputLen := by
      show ((s.doubleHashDictionary.h2.inputLen.toNat : Nat) : Int) = _; omega
    rw [e1, e2]; rfl
  rw [hargs]
  have hps := gen_processSegment2 fuel s.doubleHashDictionary
    ((s.doubleHashDictionary.ParserBuffer.W - s.doubleHashDictionary.h2.inputLen) + 1)
    s.doubleHashDictionary.ParserBuffer.W hD w1 w2 hil12 hsmall (by omega)
  -- the Go side up to `processSegment`
  have hs0 : Slice.slice blk.Literals 0 (0 : Int) = Res.ok { arr := blk.Literals.arr, len := 0 } := by
    unfold Slice.slice
    simp [Slice.cap]
  generalize hG : bdhp_Parse grow fuel lcs s blk flags = G
  unfold bdhp_Parse bdhp_Parse_nilable at hG; simp only [Bool.false_eq_true] at hG
  simp only [if_false] at hG
  simp only [hnG, hnG', gt_iff_lt, ge_iff_le] at hG
  rw [hs0, bind_ok, if_neg (by omega)] at hG
  cases hp1 : ProbeW.processSegment2W (ofHash s.doubleHashDictionary.h1) (ofHash s.doubleHashDictionary.h2)
        s.doubleHashDictionary.ParserBuffer.Data.data
        (s.doubleHashDictionary.ParserBuffer.Data.arr.drop s.doubleHashDictionary.ParserBuffer.Data.len)
        ((s.doubleHashDictionary.ParserBuffer.W - s.doubleHashDictionary.h2.inputLen) + 1) s.doubleHashDictionary.ParserBuffer.W with
  | none =>
    rw [hp1] at hps
    simp only [] at hps
    rw [hps] at hG
    exact hG.symm
  | some hh =>
    rw [hp1] at hps
    obtain ⟨t01, t02, ht01, ht02, rfl, hps⟩ := hps
    rw [hps, bind_ok] at hG
    rw [Option.bind_some]
    dsimp only at hG
    -- names for the natural numbers
    obtain ⟨Wn, hWn⟩ : ∃ Wn : Nat, s.doubleHashDictionary.ParserBuffer.W = (Wn : Int) :=
      ⟨s.doubleHashDictionary.ParserBuffer.W.toNat, by omega⟩
    have hwn : (ofBDHPs s).buf.w = Wn := by
      show s.doubleHashDictionary.ParserBuffer.W.toNat = Wn; omega
    generalize hnN : (ofBDHPs s).blockN = nN at hG hn hbN ⊢
    rw [hwn]
    have hWn' : s.doubleHashDictionary.ParserBuffer.W.toNat = Wn := by omega
    rw [hWn'] at hbN
    have hLlen : Wn + nN ≤ s.doubleHashDictionary.ParserBuffer.Data.len := by omega
    have hpm : List.take (Wn + nN) (ofBDHPs s).buf.data = s.doubleHashDictionary.ParserBuffer.Data.arr.take (Wn + nN) := by
      show (s.doubleHashDictionary.ParserBuffer.Data.arr.take _).take _ = _
      rw [List.take_take, Nat.min_eq_left hLlen]
    have hbeh : List.drop (Wn + nN) (ofBDHPs s).buf.data ++ staleOfBD s =
        s.doubleHashDictionary.ParserBuffer.Data.arr.drop (Wn + nN) := behind_eq _ _ _ hLlen
    have hws : (ofBDHPs s).buf.cfg.windowSize = s.BDHPConfig.WindowSize.toNat := by rw [cws]; rfl
    have hmmM : (ofBDHPs s).minMatch = Min.min 3 s.doubleHashDictionary.h1.inputLen.toNat := by
      show Min.min 3 s.BDHPConfig.InputLen1.toNat = _; rw [cil]
    have hkind : ((ofBDHPs s).kind == Kind.BDHP) = true := rfl
    have hpl : (s.doubleHashDictionary.ParserBuffer.Data.arr.take (Wn + nN)).length = Wn + nN := by
      rw [List.length_take]; omega
    rw [hpm, hbeh, hws, hmmM, hkind, hpl]
    simp only [ofHashT_inputLen]
    -- p := s.Data[:s.W+n]
    rw [hWn, slice_okI s.doubleHashDictionary.ParserBuffer.Data 0 ((Wn : Int) + (nN : Int)) 0 (Wn + nN) rfl (by omega)
      (Nat.zero_le _) (by omega), bind_ok] at hG
    simp only [List.drop_zero, Nat.sub_zero] at hG
    generalize hA : s.doubleHashDictionary.ParserBuffer.Data.arr = A at hG hD' hpl ⊢
    obtain ⟨il1, hil1n⟩ : ∃ il1 : Nat, s.doubleHashDictionary.h1.inputLen = (il1 : Int) :=
      ⟨s.doubleHashDictionary.h1.inputLen.toNat, by omega⟩
    obtain ⟨il2, hil2n⟩ : ∃ il2 : Nat, s.doubleHashDictionary.h2.inputLen = (il2 : Int) :=
      ⟨s.doubleHashDictionary.h2.inputLen.toNat, by omega⟩
    have hil1' : s.doubleHashDictionary.h1.inputLen.toNat = il1 := by omega
    have hil2' : s.doubleHashDictionary.h2.inputLen.toNat = il2 := by omega
    rw [hil1', hil2'] at *
    rw [hil1n, hil2n] at hG
    -- the margin reslice `_p := s.Data[:e1+7]`
    have hrm : ∀ il : Nat, ProbeW.resliceMargin (List.take (Wn + nN) A) (List.drop (Wn + nN) A) il =
        if ((Wn + nN : Nat) : Int) - (il : Int) + 1 + 7 < 0 ∨ (A.length : Int) < ((Wn + nN : Nat) : Int) - (il : Int) + 1 + 7
        then none else some () := by
      intro il; unfold ProbeW.resliceMargin
      rw [List.take_append_drop, hpl]
    rw [hrm]
    by_cases hmar : ((Wn + nN : Nat) : Int) - (il1 : Int) + 1 + 7 < 0 ∨
        (A.length : Int) < ((Wn + nN : Nat) : Int) - (il1 : Int) + 1 + 7
    · rw [if_pos hmar]
      rw [slice_panic _ _ _ (by
        rw [hA]; show _ ∨ ((Wn + nN : Nat) : Int) - _ + 1 + 7 < 0 ∨ (A.length : Int) < ((Wn + nN : Nat) : Int) - _ + 1 + 7
        omega)] at hG
      exact hG.symm
    rw [if_neg hmar, Option.bind_some]
    have hcapE : ((Int.ofNat (Wn + nN) - (il1 : Int) + 1 + 7).toNat) ≤ s.doubleHashDictionary.ParserBuffer.Data.arr.length := by
      rw [hA]; show (((Wn + nN : Nat) : Int) - _ + 1 + 7).toNat ≤ _; omega
    rw [slice_okI s.doubleHashDictionary.ParserBuffer.Data 0 (Int.ofNat (Wn + nN) - (il1 : Int) + 1 + 7) 0
      ((Int.ofNat (Wn + nN) - (il1 : Int) + 1 + 7).toNat) rfl
      (by show ((Wn + nN : Nat) : Int) - _ + 1 + 7 = (((((Wn + nN : Nat) : Int) - _ + 1 + 7).toNat : Nat) : Int); omega)
      (Nat.zero_le _) hcapE, bind_ok] at hG
    simp only [List.drop_zero, Nat.sub_zero] at hG
    rw [hA] at hG
    have w1' : HOK (setTB s t01 t02).doubleHashDictionary.h1 := ⟨hil01, hmask1, hsh1, hs641, ht01⟩
    have w2' : HOK (setTB s t01 t02).doubleHashDictionary.h2 := ⟨hil02, hmask2, hsh2, hs642, ht02⟩
    have hi12 : il1 ≤ il2 := by omega
    have hi1 : 1 ≤ il1 := by omega
    -- the two greedy loops
    have hloop : ∃ (st1 st' : LoopSt Hash2) (s1 : Gen.bdhp) (blk1 : Block') (t1 t2 : GSlice hashEntry)
          (blk' : Block'),
        ProbeW.greedyLoopW (ProbeW.dhpProbeW s.BDHPConfig.WindowSize.toNat (Min.min 3 il1) (Wn + nN + 1 - il1)
            (Wn + nN + 1 - il2) true (A.drop (Wn + nN))) (A.take (Wn + nN)) (Wn + nN + 1 - il1)
          { dict := ⟨ofHashT s.doubleHashDictionary.h1 t01, ofHashT s.doubleHashDictionary.h2 t02⟩,
            i := Wn, litIndex := Wn, seqs := [], lits := [] } = some st' ∧
        (callee_loop% bdhp_Parse_nilable 0) grow lcs (Int.ofNat (Wn + nN) - (il2 : Int) + 1)
          { arr := A, len := (Int.ofNat (Wn + nN) - (il1 : Int) + 1 + 7).toNat } { arr := A, len := Wn + nN }
          (if (il1 : Int) < 3 then (il1 : Int) else 3) (Int.ofNat (Wn + nN) - (il1 : Int) + 1) fuel (Wn : Int)
          { doubleHashDictionary := setDD s.doubleHashDictionary t01 t02, BDHPConfig := s.BDHPConfig }
          { Sequences := [], Literals := { arr := blk.Literals.arr, len := 0 } } (Wn : Int) =
          Res.ok ((st1.i : Int), s1, blk1, (st1.litIndex : Int)) ∧
        (callee_loop% bdhp_Parse_nilable 1) grow lcs (Int.ofNat (Wn + nN) - (il1 : Int) + 1)
          { arr := A, len := (Int.ofNat (Wn + nN) - (il1 : Int) + 1 + 7).toNat } { arr := A, len := Wn + nN }
          (if (il1 : Int) < 3 then (il1 : Int) else 3) fuel (st1.i : Int) s1 blk1 (st1.litIndex : Int) =
          Res.ok ((st'.i : Int), setTB s t1 t2, blk', (st'.litIndex : Int)) ∧
        TOK s.doubleHashDictionary.h1.shift t1 ∧ TOK s.doubleHashDictionary.h2.shift t2 ∧
        st'.dict = ⟨ofHashT s.doubleHashDictionary.h1 t1, ofHashT s.doubleHashDictionary.h2 t2⟩ ∧
        blk'.Sequences = st'.seqs.map seqRep ∧ blk'.Literals.data = st'.lits ∧ SWF blk'.Literals ∧
        Wn ≤ st'.litIndex ∧ st'.litIndex ≤ Wn + nN := by
      have hmmI : (if (il1 : Int) < 3 then (il1 : Int) else 3) = ((Min.min 3 il1 : Nat) : Int) := by
        split <;> omega
      by_cases h0 : (Wn : Int) < Int.ofNat (Wn + nN) - (il1 : Int) + 1
      · have h0' : (Wn : Int) < ((Wn + nN : Nat) : Int) - (il1 : Int) + 1 := h0
        have hEI : Int.ofNat (Wn + nN) - (il1 : Int) + 1 = ((Wn + nN + 1 - il1 : Nat) : Int) := by
          show ((Wn + nN : Nat) : Int) - _ + 1 = _; omega
        have hE7 : (Int.ofNat (Wn + nN) - (il1 : Int) + 1 + 7).toNat = Wn + nN + 1 - il1 + 7 := by
          rw [hEI]; omega
        have hE2N : Wn + nN + 1 - il2 = (Int.ofNat (Wn + nN) - (il2 : Int) + 1).toNat := by
          show _ = (((Wn + nN : Nat) : Int) - _ + 1).toNat; omega
        rw [hE7, hE2N]
        have hmar' : ¬ ((A.length : Int) < ((Wn + nN : Nat) : Int) - (il1 : Int) + 1 + 7) := fun hc => hmar (Or.inr hc)
        obtain ⟨st1, st', s1, blk1, t1, t2, blk', h1, h2, h3, h4, h5, h6, h7, h8, h9, h10, h11⟩ :=
          loops_eq grow lcs hlcs (Int.ofNat (Wn + nN) - (il1 : Int) + 1) (Int.ofNat (Wn + nN) - (il2 : Int) + 1)
            (if (il1 : Int) < 3 then (il1 : Int) else 3) A (Wn + nN) (Wn + nN + 1 - il1) (Min.min 3 il1)
            s.BDHPConfig.WindowSize.toNat hEI
            (by show ((Wn + nN : Nat) : Int) - _ + 1 ≤ ((Wn + nN : Nat) : Int) - _ + 1; omega) hmmI
            (by omega) (by omega) (by omega) (by omega) (by omega) (by omega)
            fuel Wn (setTB s t01 t02) { Sequences := [], Literals := { arr := blk.Literals.arr, len := 0 } }
            w1' w2' rfl (by omega) (by omega) rfl rfl (Nat.zero_le _)
        exact ⟨st1, st', s1, blk1, t1, t2, blk', h1, h2, h3, h4, h5, h6, h7, h8, h9, h10, h11⟩
      · have h0' : ¬ (Wn : Int) < ((Wn + nN : Nat) : Int) - (il1 : Int) + 1 := h0
        obtain ⟨f, rfl⟩ : ∃ f, fuel = f + 1 := ⟨fuel - 1, by omega⟩
        refine ⟨{ dict := ⟨ofHashT s.doubleHashDictionary.h1 t01, ofHashT s.doubleHashDictionary.h2 t02⟩, i := Wn, litIndex := Wn, seqs := [], lits := [] },
          { dict := ⟨ofHashT s.doubleHashDictionary.h1 t01, ofHashT s.doubleHashDictionary.h2 t02⟩, i := Wn, litIndex := Wn, seqs := [], lits := [] },
          setTB s t01 t02, { Sequences := [], Literals := { arr := blk.Literals.arr, len := 0 } }, t01, t02,
          { Sequences := [], Literals := { arr := blk.Literals.arr, len := 0 } },
          ProbeW.greedyLoopW_done _ _ _ _ (by show ¬ Wn < Wn + nN + 1 - il1; omega), ?_, ?_, ht01, ht02, rfl, rfl,
          rfl, Nat.zero_le _, Nat.le_refl _, by show Wn ≤ Wn + nN; omega⟩
        · unfold_head
          rw [if_neg (by omegaI)]
        · unfold_head
          rw [if_neg (by omegaI)]
    obtain ⟨st1, st', s1, blk1, t1', t2', blk', hgl, hl1, hl5, ht1', ht2', hdict', hseq', hlit', hswf', hli1, hli2⟩ := hloop
    rw [hl1, bind_ok] at hG
    dsimp only at hG
    rw [hl5, bind_ok] at hG
    dsimp only at hG
    unfold ProbeW.runGreedyW
    simp only [Option.bind_eq_bind, Option.pure_def]
    rw [hgl, Option.bind_some, Option.bind_some]
    dsimp only
    have hPt : ∀ w' : Nat, w' ≤ Wn + nN → ParseOKBD (withWTBD s (w' : Int) t1' t2') := by
      intro w' hw'
      exact ⟨⟨⟨hD, by show (0 : Int) ≤ (w' : Int); omega, hpb.off, hpb.ss, hpb.bs⟩,
          ⟨ht1'.1, hil01, hmask1, hs641, ht1'.2⟩, ⟨ht2'.1, hil02, hmask2, hs642, ht2'.2⟩⟩,
        cws, cbs, cil, hbs0,
        by show (w' : Int) ≤ ((s.doubleHashDictionary.ParserBuffer.Data.len : Nat) : Int); omega,
        by show (1 : Int) ≤ s.doubleHashDictionary.h1.inputLen; omega,
        by show s.doubleHashDictionary.h1.inputLen ≤ s.doubleHashDictionary.h2.inputLen; omega, hsh1, hsh2, hsmall⟩
    have hslen : blk'.Sequences.length = st'.seqs.length := by rw [hseq', List.length_map]
    unfold finishBlock
    by_cases hfin : flags.toNat % 2 = 1 ∧ st'.seqs ≠ []
    · rw [if_pos hfin]
      have hne : st'.seqs.length ≠ 0 := fun hc => hfin.2 (List.eq_nil_of_length_eq_zero hc)
      rw [if_pos ⟨(iand_one flags hfl).mpr hfin.1, by show 0 < (blk'.Sequences.length : Int); omega⟩, bind_ok] at hG
      dsimp only at hG
      refine ⟨withWTBD s (st'.litIndex : Int) t1' t2', blk', hG.symm.trans ?_, ?_, rfl, Or.inl rfl, hseq', hlit', hswf',
        hPt _ hli2⟩
      · rw [hWn]
        have : ((st'.litIndex : Nat) : Int) - (Wn : Int) = ((st'.litIndex - Wn : Nat) : Int) := by omega
        rw [this]; rfl
      · rw [hdict']; rfl
    · rw [if_neg hfin]
      have hcond : ¬ (iand flags 1 ≠ 0 ∧ 0 < Int.ofNat blk'.Sequences.length) := by
        intro ⟨h1, h2⟩
        apply hfin
        refine ⟨(iand_one flags hfl).mp h1, ?_⟩
        intro hc
        have h2' : 0 < (blk'.Sequences.length : Int) := h2
        rw [hslen, hc] at h2'
        exact absurd h2' (by decide)
      rw [if_neg hcond, slice_okI _ _ (Int.ofNat (Wn + nN)) st'.litIndex (Wn + nN) rfl rfl hli2
        (by show Wn + nN ≤ A.length; omega), bind_ok, bind_ok] at hG
      dsimp only at hG
      refine ⟨withWTBD s ((Wn + nN : Nat) : Int) t1' t2',
        { Sequences := blk'.Sequences,
          Literals := Slice.append grow blk'.Literals ((A.drop st'.litIndex).take (Wn + nN - st'.litIndex)) },
        hG.symm.trans ?_, ?_, rfl, Or.inl rfl, hseq', ?_,
        swf_append grow _ hswf' _, hPt _ (Nat.le_refl _)⟩
      · rw [hWn, hpl]
        have : Int.ofNat (Wn + nN) - (Wn : Int) = ((Wn + nN - Wn : Nat) : Int) := by
          show ((Wn + nN : Nat) : Int) - _ = _; omega
        rw [this]; rfl
      · rw [hdict', hpl]; rfl
      · rw [(append_spec grow blk'.Literals hswf' _).1, hlit']
        show _ ++ (A.drop st'.litIndex).take (Wn + nN - st'.litIndex) = _ ++ (A.take (Wn + nN)).drop st'.litIndex
        rw [List.drop_take]

/-- **Go text → list-level model** (reachable states: `NewParser`, then any history of `Write`, `ReadFrom`, `Parse`,
    `Parse(nil)`, `Shrink`, `Reset`): no panic, the result of `Parser.parse`. -/
theorem gen_bdhp_parse_model (grow : Nat → Nat → Nat) (fuel : Nat) (lcs : Slice → Slice → Int) (hlcs : LcsSpec lcs)
    (s : Gen.bdhp) (blk : Gen.Block') (flags : Int)
    (h : ParseOKBD s) (hfl : 0 ≤ flags) (hfuel : 2 * s.doubleHashDictionary.ParserBuffer.Data.len + 3 ≤ fuel)
    (raw : Cfg) (s0 : Parser) (h0 : newParser .BDHP raw = some s0) (ops : List POp)
    (hreach : ofBDHPs s = (runOps (s0, Ghost.init) ops).1) :
    ∃ t blk', bdhp_Parse grow fuel lcs s blk flags =
        Res.ok (t, blk', (((ofBDHPs s).parse flags.toNat).2.1 : Int), parseErr ((ofBDHPs s).parse flags.toNat).2.2.1) ∧
      ofBDHPs t = ((ofBDHPs s).parse flags.toNat).1 ∧ staleOfBD t = staleOfBD s ∧
      blk'.Sequences = ((ofBDHPs s).parse flags.toNat).2.2.2.seqs.map seqRep ∧
      blk'.Literals.data = ((ofBDHPs s).parse flags.toNat).2.2.2.lits ∧ SWF blk'.Literals ∧ ParseOKBD t := by
  have hb : ProbeW.Backing (ofBDHPs s) (staleOfBD s) := staleOfBD_length s h.wf.1.data
  have hW := ProbeW.parseW_reachable .BDHP (Or.inr (Or.inr (Or.inr (Or.inl rfl)))) raw s0 h0 ops (staleOfBD s) flags.toNat
    (by rw [← hreach]; exact hb)
  rw [← hreach] at hW
  have hm := gen_bdhp_parse grow fuel lcs hlcs s blk flags h hfl hfuel
  rw [hW] at hm
  obtain ⟨t, blk', h1, h2, h3, _, h5, h6, h7, h8⟩ := hm
  exact ⟨t, blk', h1, h2, h3, h5, h6, h7, h8⟩

end LZ.GenBDHPParse

#print axioms LZ.GenBDHPParse.gen_bdhp_parse_empty
#print axioms LZ.GenBDHPParse.gen_bdhp_parse
#print axioms LZ.GenBDHPParse.gen_bdhp_parse_model
