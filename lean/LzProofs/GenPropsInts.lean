/-
  LzProofs.GenPropsInts — ints.go.   G01 gen_iverson   G02 gen_doz / gen_doz_toNat   G03 gen_min
  Part of the split of the former LzProofs/GenProps.lean: "the hand-written model equals the
  code that `tools/extract -code` regenerates from the Go source".  The generated code is
  emitted per topic (LzModel/Generated/Code<Topic>.lean); this file only imports the topic it
  talks about, so a Go function the translator refuses takes down this file and nothing else.
  Every theorem quantifies over ALL inputs; Go `int`/`int64` are unbounded `Int` on both sides
  (overflow is out of scope), `uint32`/`uint64` wrap around.  All names live in `LZ.GenProps`.
  The proofs are written against the MEANING of the generated functions (unfold, split every
  `if`, decide linear arithmetic), not against the shape of the generated term, so that
  behaviour-preserving rewrites of the Go source (De Morgan, swapped arms, reordered defaults,
  `x+x` for `2*x`, …) do not break them.
-/
import LzModel.Generated.CodeInts
import LzModel.Basic

set_option linter.unusedSimpArgs false

namespace LZ.GenProps
open LZ

/-! ## ints.go -/

theorem iand_zero (a : Int) : Gen.iand a 0 = 0 := by
  cases a with
  | ofNat m => show Int.ofNat (m &&& 0) = 0; simp
  | negSucc m =>
    show Int.ofNat (Nat.bitwise (fun a b => !a && b) m 0) = 0
    unfold Nat.bitwise
    simp

theorem iand_neg_one (a : Int) : Gen.iand a (-1) = a := by
  cases a with
  | ofNat m =>
    show Int.ofNat (Nat.bitwise (fun a b => a && !b) m 0) = Int.ofNat m
    unfold Nat.bitwise
    simp
    split <;> simp_all
  | negSucc m => show Int.negSucc (m ||| 0) = Int.negSucc m; simp

/-- G01 -/
theorem gen_iverson (b : Bool) : Gen.iverson b = if b then 1 else 0 := by
  cases b <;> rfl

/-- G02 `doz` is the positive difference or zero -/
theorem gen_doz (x y : Int) : Gen.doz x y = if x ≥ y then x - y else 0 := by
  unfold Gen.doz
  rw [gen_iverson]
  by_cases h : x ≥ y
  · simp only [h, decide_true, if_true]; exact iand_neg_one _
  · simp only [h, decide_false, if_false]; exact iand_zero _

/-- G02 … i.e. truncated subtraction -/
theorem gen_doz_toNat (x y : Int) : Gen.doz x y = ((x - y).toNat : Int) := by
  rw [gen_doz]; split <;> omega

/-- G03 -/
theorem gen_min (x y : Int) : Gen.min x y = min x y := by
  unfold Gen.min
  rw [gen_doz]
  split <;> omega

end LZ.GenProps
