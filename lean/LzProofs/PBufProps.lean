/-
  LzProofs.PBufProps — property C15 ("the parser buffer is a faithful, bounded sliding view of
  the input stream") and the buffer-level part of C08 (chunking independence of `ReadFrom`)
  for the model `LZ.PBuf` of Go's `ParserBuffer` (parser_buffer.go).

  Ghost state: `fed : List Byte`, everything accepted since the last `Reset`.
  Invariant:   `PInv b fed` (LzProofs/PBufLemmas.lean):
      fed.drop b.off = b.data ∧ b.off ≤ fed.length ∧ b.w ≤ b.data.length
      ∧ b.data.length ≤ b.cfg.bufferSize ∧ (b.data = [] ∨ b.data.length + 7 ≤ b.cap)
  All theorems hold for every configuration (no restriction on BufferSize / ShrinkSize).
-/
import LzProofs.PBufLemmas
namespace LZ
namespace PBuf

/-! ## C15, operation by operation -/

/-- The fresh buffer views the empty stream. -/
theorem C15_init (cfg : BufCfg) : PInv (init cfg) [] := pinv_init cfg

/-- `Write` stores the longest prefix of `p` that fits (`n = min |p| (BufferSize - len)`),
    returns that `n`, reports `ErrFullBuffer` exactly when `n < |p|`, never panics, and the
    result views `fed ++ p.take n` (so never more than `BufferSize` bytes, margin kept). -/
theorem C15_write {b : PBuf} {fed : List Byte} (h : PInv b fed) (p : List Byte) :
    let n := min p.length (b.cfg.bufferSize - b.data.length)
    ∃ c, b.write p = ({ b with data := b.data ++ p.take n, cap := c }, n,
                       if n < p.length then .full else .ok)
      ∧ PInv { b with data := b.data ++ p.take n, cap := c } (fed ++ p.take n) := by
  intro n
  obtain ⟨c, hw, hc⟩ := write_spec b p h.len_le
  refine ⟨c, hw, ?_⟩
  have := pinv_write h p
  rw [hw] at this
  exact this

theorem C15_write_err {b : PBuf} {fed : List Byte} (h : PInv b fed) (p : List Byte) :
    ((b.write p).2.2 = .full ↔ (b.write p).2.1 < p.length) ∧
    ((b.write p).2.2 = .ok ↔ (b.write p).2.1 = p.length) ∧
    (b.write p).2.2 ≠ .panic := by
  obtain ⟨c, hw, -⟩ := C15_write h p
  rw [hw]
  simp only []
  split <;> simp <;> omega

/-- `Shrink` returns `delta = W - ShrinkSize` (0 if negative), discards exactly the `delta`
    oldest bytes, advances `Off` by `delta`, leaves `min ShrinkSize W` bytes of history before the
    parse position, and keeps viewing the same stream. -/
theorem C15_shrink {b : PBuf} {fed : List Byte} (h : PInv b fed) :
    let delta := b.w - b.cfg.shrinkSize
    b.shrink = ({ b with data := b.data.drop delta, w := min b.cfg.shrinkSize b.w,
                         off := b.off + delta }, delta)
      ∧ PInv b.shrink.1 fed
      ∧ b.shrink.1.off + b.shrink.1.w = b.off + b.w := by
  refine ⟨shrink_spec b, pinv_shrink h, ?_⟩
  rw [shrink_spec]; simp only []; omega

/-- `Reset(data)`: rejected (state unchanged) iff `len(data) > BufferSize`; otherwise the buffer
    views exactly `data`, with `W = 0`, `Off = 0` — for every capacity of the slice passed in. -/
theorem C15_reset (b : PBuf) (data : List Byte) (capExtra : Nat) :
    (b.cfg.bufferSize < data.length → b.reset data capExtra = (b, .oversize)) ∧
    (data.length ≤ b.cfg.bufferSize →
      (b.reset data capExtra).2 = .ok ∧ PInv (b.reset data capExtra).1 data ∧
      (b.reset data capExtra).1.data = data ∧
      (b.reset data capExtra).1.w = 0 ∧ (b.reset data capExtra).1.off = 0 ∧
      (b.reset data capExtra).1.cfg = b.cfg) := by
  refine ⟨reset_oversize b data capExtra, fun h => ?_⟩
  have hp := pinv_reset b data capExtra h
  obtain ⟨c, hc, -⟩ := reset_spec b data capExtra h
  rw [hc] at hp ⊢
  exact ⟨rfl, hp, rfl, rfl, rfl, rfl⟩

/-- `Reset` fails iff the data are longer than `BufferSize`; the only errors are `nil` and the
    oversize error. -/
theorem C15_reset_err_iff (b : PBuf) (data : List Byte) (capExtra : Nat) :
    ((b.reset data capExtra).2 = .oversize ↔ b.cfg.bufferSize < data.length) ∧
    ((b.reset data capExtra).2 = .ok ↔ data.length ≤ b.cfg.bufferSize) := by
  refine ⟨reset_err_iff b data capExtra, ?_⟩
  by_cases h : b.cfg.bufferSize < data.length
  · rw [reset_oversize b data capExtra h]; simp; omega
  · obtain ⟨c, hc, -⟩ := reset_spec b data capExtra (by omega)
    rw [hc]; simp; omega

/-- `ReadAt(p, x)` with `len(p) = n` at absolute offset `x`: inside the retained range it copies
    `fed[x ..< x+n]` (as far as available) and reports `ErrEndOfBuffer` iff fewer than `n` bytes are
    available; outside it reports `ErrOutOfBuffer`. Never a panic. -/
theorem C15_readAt {b : PBuf} {fed : List Byte} (h : PInv b fed) (n : Nat) (x : Int) :
    b.readAt n x =
      if (b.off : Int) ≤ x ∧ x < (fed.length : Int) then
        ((fed.drop x.toNat).take n, if fed.length - x.toNat < n then .endOfBuffer else .ok)
      else ([], .outOfBuffer) := by
  split
  · rename_i hc; exact readAt_in h n x hc.1 hc.2
  · rename_i hc; exact readAt_out h n x (by omega)

/-- `PeekAt(n, x)`: the whole retained rest of the stream from `x` on. -/
theorem C15_peekAt {b : PBuf} {fed : List Byte} (h : PInv b fed) (n : Nat) (x : Int) :
    b.peekAt n x =
      if (b.off : Int) ≤ x ∧ x < (fed.length : Int) then
        (fed.drop x.toNat, if fed.length - x.toNat < n then .endOfBuffer else .ok)
      else ([], .outOfBuffer) := by
  split
  · rename_i hc; exact peekAt_in h n x hc.1 hc.2
  · rename_i hc; exact peekAt_out h n x (by omega)

/-- `ByteAt(x)`: the `x`-th byte fed since the last reset if it is retained, `ErrEndOfBuffer`
    exactly at the end of the stream, `ErrOutOfBuffer` elsewhere. Never a panic. -/
theorem C15_byteAt {b : PBuf} {fed : List Byte} (h : PInv b fed) (x : Int) :
    b.byteAt x =
      if (b.off : Int) ≤ x ∧ x < (fed.length : Int) then ((fed[x.toNat]?).getD 0, .ok)
      else if x = (fed.length : Int) then (0, .endOfBuffer)
      else (0, .outOfBuffer) := by
  split
  · rename_i hc; exact byteAt_in h x hc.1 hc.2
  · rename_i hc
    split
    · rename_i hx; subst hx; exact byteAt_end h
    · rename_i hx; exact byteAt_out h x (by omega)

/-- `ByteAt` for a natural-number offset in range returns literally `fed[x]`. -/
theorem C15_byteAt_nat {b : PBuf} {fed : List Byte} (h : PInv b fed) (x : Nat)
    (h1 : b.off ≤ x) (h2 : x < fed.length) : b.byteAt (x : Int) = (fed[x], .ok) := by
  rw [byteAt_in h x (by omega) (by omega)]
  simp [h2]

/-- `ReadFrom(r) = (n, e)`: the buffer gains exactly the first `n` payload bytes of the reader
    (which the reader loses), nothing else changes, the bound `BufferSize` and the margin are kept;
    the call never panics and never returns `nil`.  It stops for exactly one of three reasons:
    (1) `ErrFullBuffer`: the buffer is full and no consumed reader response carried an error;
    (2) `io.EOF` because the script of the model reader ran out (room is left);
    (3) the reader's own report `ec ≠ 0` on the last consumed response (1 = `io.EOF`).
    A response with a nil error never ends the loop, also when it delivered nothing (`(0, nil)`).
    `pre` are the responses consumed before the stop: all with code 0; unless the payload ran out
    (`n = |payload|`), each of them that offered a byte (`mx ≥ 1`) delivered at least one
    (`offers pre ≤ n`); in (1) and (2) nothing was consumed iff nothing was read. -/
theorem C15_readFrom {b : PBuf} {fed : List Byte} (h : PInv b fed) (r : Reader)
    {b' : PBuf} {r' : Reader} {n : Nat} {e : Err} (hr : b.readFrom r = (b', r', n, e)) :
    b'.data = b.data ++ r.payload.take n ∧ n ≤ r.payload.length ∧
    r'.payload = r.payload.drop n ∧
    b'.w = b.w ∧ b'.off = b.off ∧ b'.cfg = b.cfg ∧
    PInv b' (fed ++ r.payload.take n) ∧
    e ≠ .ok ∧ e ≠ .panic ∧
    ∃ pre : List (Nat × Nat), (∀ x ∈ pre, x.2 = 0) ∧ (n = r.payload.length ∨ offers pre ≤ n) ∧
      ((e = .full ∧ r.resps = pre ++ r'.resps ∧ b'.data.length = b.cfg.bufferSize ∧
          (pre = [] → n = 0)) ∨
       (e = .eof ∧ r.resps = pre ∧ r'.resps = [] ∧ b'.data.length < b.cfg.bufferSize ∧
          (pre = [] → n = 0)) ∨
       (∃ mx ec, r.resps = pre ++ (mx, ec) :: r'.resps ∧ ec ≠ 0 ∧
          e = errOfCode ec ∧ e ≠ .full)) := by
  obtain ⟨c, pre, hb, hr', hn1, hn2, hm, hpre, hprelen, hcase⟩ := readFrom_master h.len_le hr
  have hp := pinv_readFrom h r
  rw [hr] at hp
  simp only [] at hp
  have hlen' : b'.data.length = b.data.length + n := by
    rw [hb]; simp only [List.length_append, List.length_take]; omega
  refine ⟨by rw [hb], hn1, hr', by rw [hb], by rw [hb], by rw [hb], hp, ?_, ?_, pre, hpre,
    hprelen, ?_⟩
  · rcases hcase with ⟨h1, _⟩ | ⟨h1, _⟩ | ⟨mx, ec, _, hec, h2⟩
    · rw [h1]; simp
    · rw [h1]; simp
    · rw [h2]; exact (errOfCode_ne _ hec).1
  · rcases hcase with ⟨h1, _⟩ | ⟨h1, _⟩ | ⟨mx, ec, _, hec, h2⟩
    · rw [h1]; simp
    · rw [h1]; simp
    · rw [h2]; exact (errOfCode_ne _ hec).2.1
  · rw [hlen']
    rcases hcase with ⟨h1, h2, h3, h5⟩ | ⟨h1, h2, h3, h4, h5⟩ | ⟨mx, ec, h1, hec, h2⟩
    · exact Or.inl ⟨h1, h2, h3, h5⟩
    · exact Or.inr (Or.inl ⟨h1, h2, h3, h4, h5⟩)
    · refine Or.inr (Or.inr ⟨mx, ec, h1, hec, h2, ?_⟩)
      rw [h2]; exact (errOfCode_ne _ hec).2.2.1

/-- `ReadFrom` returns `ErrFullBuffer` only with a completely full buffer. -/
theorem C15_readFrom_full {b : PBuf} {fed : List Byte} (h : PInv b fed) (r : Reader) :
    (b.readFrom r).2.2.2 = .full → (b.readFrom r).1.data.length = b.cfg.bufferSize := by
  intro he
  obtain ⟨-, -, -, -, -, -, -, -, -, pre, -, -, hcase⟩ := C15_readFrom h r (b' := (b.readFrom r).1)
    (r' := (b.readFrom r).2.1) (n := (b.readFrom r).2.2.1) (e := (b.readFrom r).2.2.2) rfl
  rcases hcase with ⟨_, _, h3, _⟩ | ⟨h1, _⟩ | ⟨_, _, _, _, _, h3⟩
  · exact h3
  · rw [he] at h1; cases h1
  · exact absurd he h3

/-! ## C08 (buffer level): chunking independence -/

/-- Whenever `ReadFrom` stops with the buffer full or with the reader's payload exhausted — however
    the reader chunked its data — it has stored exactly `payload.take (min |payload| room)`. -/
theorem readFrom_fill_outcome {b : PBuf} {fed : List Byte} (h : PInv b fed) (r : Reader)
    {b' : PBuf} {r' : Reader} {n : Nat} {e : Err} (hr : b.readFrom r = (b', r', n, e))
    (hstop : e = .full ∨ r'.payload = []) :
    b'.data = b.data ++ r.payload.take (min r.payload.length (b.cfg.bufferSize - b.data.length)) ∧
    n = min r.payload.length (b.cfg.bufferSize - b.data.length) := by
  have hn := readFrom_fill_of_outcome h.len_le hr hstop
  obtain ⟨hd, -⟩ := C15_readFrom h r hr
  rw [hd, hn]; exact ⟨rfl, rfl⟩

/-- Chunking independence of `ReadFrom`: for a reader whose script is error free, never answers
    `(0, nil)` while payload is left and is long enough (`FillScript`; for scripts with `(0, nil)`
    answers anywhere see `readFrom_fillN` in ReaderNil.lean), the outcome is determined by the payload alone:
    the data gain `payload.take (min |payload| room)`, the reader keeps the rest, and the error is
    `ErrFullBuffer` if the payload fills the room, else `io.EOF`. The chunk sizes `mx` of the
    script and the capacity of the buffer do not occur on the right-hand sides. -/
theorem readFrom_fill {b : PBuf} {fed : List Byte} (h : PInv b fed) (r : Reader)
    (hs : FillScript r.resps (min r.payload.length (b.cfg.bufferSize - b.data.length)))
    {b' : PBuf} {r' : Reader} {n : Nat} {e : Err} (hr : b.readFrom r = (b', r', n, e)) :
    let m := min r.payload.length (b.cfg.bufferSize - b.data.length)
    b'.data = b.data ++ r.payload.take m ∧ n = m ∧ r'.payload = r.payload.drop m ∧
    b'.w = b.w ∧ b'.off = b.off ∧ b'.cfg = b.cfg ∧
    e = (if b.cfg.bufferSize - b.data.length ≤ r.payload.length then .full else .eof) := by
  intro m
  obtain ⟨s1, s2, s3⟩ := readFrom_stop_of_fillScript h.len_le hs hr
  obtain ⟨hd, hn⟩ := readFrom_fill_outcome h r hr s1
  obtain ⟨-, -, hp, hw, ho, hc, -⟩ := C15_readFrom h r hr
  refine ⟨hd, hn, by rw [hp, hn], hw, ho, hc, ?_⟩
  split
  · rename_i hc; exact s3.2 hc
  · rename_i hc
    rcases s2 with h' | h'
    · exact absurd (s3.1 h') hc
    · exact h'

/-- Two runs of `ReadFrom` on buffers that differ at most in `cap`, with readers that carry the same
    payload but chunk it differently, end in buffers that again differ at most in `cap`, with the
    same count, error and remaining payload. -/
theorem readFrom_chunking_independent {a b : PBuf} {fa fb : List Byte}
    (ha : PInv a fa) (_hb : PInv b fb) (hv : SameView a b)
    {ra rb : Reader} (hp : ra.payload = rb.payload)
    (hsa : FillScript ra.resps (min ra.payload.length (a.cfg.bufferSize - a.data.length)))
    (hsb : FillScript rb.resps (min rb.payload.length (b.cfg.bufferSize - b.data.length))) :
    SameView (a.readFrom ra).1 (b.readFrom rb).1 ∧
    (a.readFrom ra).2.1.payload = (b.readFrom rb).2.1.payload ∧
    (a.readFrom ra).2.2 = (b.readFrom rb).2.2 :=
  sameView_readFrom_fill hv ha.len_le hp hsa hsb

/-- `cap` is unobservable: `Write`, `Shrink`, `Reset`, `ReadAt`, `PeekAt`, `ByteAt` on two buffers
    that differ at most in `cap` give the same outputs and buffers that differ at most in `cap`. -/
theorem cap_unobservable {a b : PBuf} {fa : List Byte} (ha : PInv a fa) (hv : SameView a b) :
    (∀ p, SameView (a.write p).1 (b.write p).1 ∧ (a.write p).2 = (b.write p).2) ∧
    (SameView a.shrink.1 b.shrink.1 ∧ a.shrink.2 = b.shrink.2) ∧
    (∀ d ea eb, SameView (a.reset d ea).1 (b.reset d eb).1 ∧ (a.reset d ea).2 = (b.reset d eb).2) ∧
    (∀ n x, a.readAt n x = b.readAt n x) ∧ (∀ n x, a.peekAt n x = b.peekAt n x) ∧
    (∀ x, a.byteAt x = b.byteAt x) :=
  ⟨fun p => sameView_write hv ha.len_le p, sameView_shrink hv, fun d ea eb => sameView_reset hv d ea eb,
   fun n x => sameView_readAt hv n x, fun n x => sameView_peekAt hv n x, fun x => sameView_byteAt hv x⟩

/-- a large configuration (BufferSize 100000 > 2·chunkSize) for the remark below -/
def cfgBig : BufCfg := { shrinkSize := 1, bufferSize := 100000, windowSize := 4, blockSize := 4 }

/-- **Remark (limits of chunking independence).** For a reader that *fails*, the number of bytes
    `ReadFrom` accepts before the failure does depend on `cap` (the slice offered to `Read` ends at
    `min (cap - 7) BufferSize`): a reader that is ready to deliver 100000 bytes together with an
    error gets 65536 of them accepted by a fresh buffer (cap 0, grown to 65543) and all 100000 by an
    otherwise identical buffer of capacity 100007. No byte is lost (the rest stays in the reader);
    only the split differs. Hence `readFrom_fill` needs its "error free" hypothesis. -/
theorem readFrom_faulty_depends_on_cap (pl : List Byte) (h : pl.length = 100000) :
    SameView (init cfgBig) { init cfgBig with cap := 100007 } ∧
    ((init cfgBig).readFrom ⟨pl, [(100000, 2)]⟩).2.2 = (65536, .reader 2) ∧
    (({ init cfgBig with cap := 100007 } : PBuf).readFrom ⟨pl, [(100000, 2)]⟩).2.2
      = (100000, .reader 2) := by
  refine ⟨⟨rfl, rfl, rfl, rfl⟩, ?_, ?_⟩ <;>
  simp [readFrom, readLoop, init, grow, cfgBig, h, Facts.margin, Facts.chunkSize, Facts.growMin,
    min3, errOfCode]

example : (List.replicate 100000 (0 : Byte)).length = 100000 := List.length_replicate

/-! ## C15 over histories -/

/-- the operations of a history; `advance n` stands for a `Parse` call that moves `W` by `n` -/
inductive BOp where
  | write (p : List Byte)
  | readFrom (r : Reader)
  | advance (n : Nat)
  | shrink
  | reset (data : List Byte) (capExtra : Nat)

/-- the implementation step -/
def BOp.apply (b : PBuf) : BOp → PBuf
  | .write p => (b.write p).1
  | .readFrom r => (b.readFrom r).1
  | .advance n => if b.w + n ≤ b.data.length then { b with w := b.w + n } else b
  | .shrink => b.shrink.1
  | .reset d ce => (b.reset d ce).1

/-- the count an operation returns to its caller (only used for `ReadFrom`) -/
def BOp.ret (b : PBuf) : BOp → Nat
  | .write p => (b.write p).2.1
  | .readFrom r => (b.readFrom r).2.2.1
  | .advance _ => 0
  | .shrink => b.shrink.2
  | .reset _ _ => 0

/-- specification state: the stream fed since the last reset, the number of discarded bytes and
    the parse position relative to `off` -/
structure View where
  fed : List Byte
  off : Nat
  w : Nat
deriving Repr, DecidableEq

/-- the specification step. It is a function of the configuration, the previous specification
    state and the operation; for `ReadFrom` additionally of the count `ret` the call returned
    (how much a faulty reader delivers is the reader's business). -/
def View.step (cfg : BufCfg) (v : View) (ret : Nat) : BOp → View
  | .write p => { v with fed := v.fed ++ p.take (cfg.bufferSize - (v.fed.length - v.off)) }
  | .readFrom r => { v with fed := v.fed ++ r.payload.take ret }
  | .advance n => if v.off + v.w + n ≤ v.fed.length then { v with w := v.w + n } else v
  | .shrink => { v with off := v.off + (v.w - cfg.shrinkSize), w := min cfg.shrinkSize v.w }
  | .reset d _ => if d.length ≤ cfg.bufferSize then ⟨d, 0, 0⟩ else v

/-- what `ReadAt` must answer in specification state `v` -/
def View.readAt (v : View) (n : Nat) (x : Int) : List Byte × Err :=
  if (v.off : Int) ≤ x ∧ x < (v.fed.length : Int) then
    ((v.fed.drop x.toNat).take n, if v.fed.length - x.toNat < n then .endOfBuffer else .ok)
  else ([], .outOfBuffer)

/-- what `PeekAt` must answer in specification state `v` -/
def View.peekAt (v : View) (n : Nat) (x : Int) : List Byte × Err :=
  if (v.off : Int) ≤ x ∧ x < (v.fed.length : Int) then
    (v.fed.drop x.toNat, if v.fed.length - x.toNat < n then .endOfBuffer else .ok)
  else ([], .outOfBuffer)

/-- what `ByteAt` must answer in specification state `v` -/
def View.byteAt (v : View) (x : Int) : Byte × Err :=
  if (v.off : Int) ≤ x ∧ x < (v.fed.length : Int) then ((v.fed[x.toNat]?).getD 0, .ok)
  else if x = (v.fed.length : Int) then (0, .endOfBuffer)
  else (0, .outOfBuffer)

/-- run implementation and specification side by side from `Init(cfg)` -/
def runBoth (cfg : BufCfg) (ops : List BOp) : PBuf × View :=
  ops.foldl (fun (s : PBuf × View) op => (op.apply s.1, s.2.step cfg (op.ret s.1) op))
    (init cfg, ⟨[], 0, 0⟩)

/-- implementation state and specification state correspond -/
def Corr (cfg : BufCfg) (b : PBuf) (v : View) : Prop :=
  PInv b v.fed ∧ b.off = v.off ∧ b.w = v.w ∧ b.cfg = cfg

theorem corr_step {cfg : BufCfg} {b : PBuf} {v : View} (h : Corr cfg b v) (op : BOp) :
    Corr cfg (op.apply b) (v.step cfg (op.ret b) op) := by
  obtain ⟨hp, ho, hw, hc⟩ := h
  have hl := hp.fed_length
  cases op with
  | write p =>
    obtain ⟨c, hwr, hp'⟩ := C15_write hp p
    simp only [BOp.apply, View.step, hwr]
    have : cfg.bufferSize - (v.fed.length - v.off) = b.cfg.bufferSize - b.data.length := by
      rw [hc]; omega
    rw [this]
    have ht : p.take (min p.length (b.cfg.bufferSize - b.data.length))
        = p.take (b.cfg.bufferSize - b.data.length) := by
      rcases Nat.le_total p.length (b.cfg.bufferSize - b.data.length) with hle | hle
      · rw [Nat.min_eq_left hle, List.take_of_length_le hle, List.take_of_length_le (Nat.le_refl _)]
      · rw [Nat.min_eq_right hle]
    rw [ht] at hp'
    rw [ht]
    exact ⟨hp', ho, hw, hc⟩
  | readFrom r =>
    obtain ⟨-, -, -, h4, h5, h6, h7, -⟩ := C15_readFrom hp r (b' := (b.readFrom r).1)
      (r' := (b.readFrom r).2.1) (n := (b.readFrom r).2.2.1) (e := (b.readFrom r).2.2.2) rfl
    simp only [BOp.apply, View.step, BOp.ret]
    exact ⟨h7, by rw [h5, ho], by rw [h4, hw], by rw [h6, hc]⟩
  | advance n =>
    simp only [BOp.apply, View.step]
    have hiff : b.w + n ≤ b.data.length ↔ v.off + v.w + n ≤ v.fed.length := by omega
    by_cases hn : b.w + n ≤ b.data.length
    · rw [if_pos hn, if_pos (hiff.1 hn)]
      exact ⟨pinv_advance hp n hn, ho, by simp only []; rw [hw], hc⟩
    · rw [if_neg hn, if_neg (fun h => hn (hiff.2 h))]
      exact ⟨hp, ho, hw, hc⟩
  | shrink =>
    obtain ⟨hs, hp', -⟩ := C15_shrink hp
    simp only [BOp.apply, View.step]
    rw [← hc, ← hw, ← ho]
    refine ⟨hp', ?_, ?_, ?_⟩ <;> rw [hs]
  | reset d ce =>
    obtain ⟨h1, h2⟩ := C15_reset b d ce
    simp only [BOp.apply, View.step]
    by_cases hd : d.length ≤ cfg.bufferSize
    · rw [if_pos hd]
      obtain ⟨-, g2, -, g4, g5, g6⟩ := h2 (by rw [hc]; exact hd)
      exact ⟨g2, g5, g4, by rw [g6, hc]⟩
    · rw [if_neg hd, h1 (by rw [hc]; omega)]
      exact ⟨hp, ho, hw, hc⟩

theorem corr_runBoth (cfg : BufCfg) (ops : List BOp) :
    Corr cfg (runBoth cfg ops).1 (runBoth cfg ops).2 := by
  unfold runBoth
  have h0 : Corr cfg (init cfg, (⟨[], 0, 0⟩ : View)).1 (init cfg, (⟨[], 0, 0⟩ : View)).2 :=
    ⟨pinv_init cfg, rfl, rfl, rfl⟩
  generalize (init cfg, (⟨[], 0, 0⟩ : View)) = s at h0
  induction ops generalizing s with
  | nil => exact h0
  | cons op ops ih =>
    simp only [List.foldl_cons]
    exact ih _ (corr_step h0 op)

/-- **C15 (history level).** After any sequence of `Write`, `ReadFrom` (arbitrary scripted readers,
    with short reads and errors), `Parse` (`advance`), `Shrink` and `Reset` (accepted or rejected)
    starting from `Init(cfg)`, for every configuration: the buffer `b` is a sliding view of the
    specification stream `v.fed` (invariant `PInv`, including the bound `BufferSize` and the 7-byte
    margin), `Off` and `W` are as specified, and `ReadAt`, `PeekAt`, `ByteAt` answer from `v.fed`
    for every length and every absolute offset (in range, at the end, outside; negative too).
    As `ops` is arbitrary, this covers every prefix of every history. -/
theorem C15_view (cfg : BufCfg) (ops : List BOp) :
    let b := (runBoth cfg ops).1
    let v := (runBoth cfg ops).2
    PInv b v.fed ∧ b.off = v.off ∧ b.w = v.w ∧ b.cfg = cfg ∧
    (∀ n x, b.readAt n x = v.readAt n x) ∧ (∀ n x, b.peekAt n x = v.peekAt n x) ∧
    (∀ x, b.byteAt x = v.byteAt x) := by
  intro b v
  obtain ⟨hp, ho, hw, hc⟩ := corr_runBoth cfg ops
  refine ⟨hp, ho, hw, hc, fun n x => ?_, fun n x => ?_, fun x => ?_⟩
  · rw [C15_readAt hp n x, View.readAt]; simp only [v] at ho ⊢; rw [ho]
  · rw [C15_peekAt hp n x, View.peekAt]; simp only [v] at ho ⊢; rw [ho]
  · rw [C15_byteAt hp x, View.byteAt]; simp only [v] at ho ⊢; rw [ho]

/-- The same for every prefix, stated explicitly. -/
theorem C15_view_prefix (cfg : BufCfg) (ops : List BOp) (k : Nat) :
    let b := (runBoth cfg (ops.take k)).1
    let v := (runBoth cfg (ops.take k)).2
    PInv b v.fed ∧ b.off = v.off ∧ b.w = v.w ∧ b.cfg = cfg ∧
    (∀ n x, b.readAt n x = v.readAt n x) ∧ (∀ n x, b.peekAt n x = v.peekAt n x) ∧
    (∀ x, b.byteAt x = v.byteAt x) :=
  C15_view cfg (ops.take k)

/-! ### a completely pure specification for error-free readers -/

/-- the count `ReadFrom` returns for a reader that neither fails nor stalls: all that fits -/
def View.pureRet (cfg : BufCfg) (v : View) : BOp → Nat
  | .readFrom r => min r.payload.length (cfg.bufferSize - (v.fed.length - v.off))
  | _ => 0

/-- pure specification fold: a function of the configuration and the operations only -/
def specRun (cfg : BufCfg) (ops : List BOp) : View :=
  ops.foldl (fun v op => v.step cfg (v.pureRet cfg op) op) ⟨[], 0, 0⟩

/-- every reader of the history is error free, offers a byte on every response and has at least as many
    responses as payload bytes (so that the script cannot run out before the payload) -/
def AllFill (ops : List BOp) : Prop :=
  ∀ op ∈ ops, ∀ r, op = BOp.readFrom r → FillScript r.resps r.payload.length

theorem step_pure_of_fill {cfg : BufCfg} {b : PBuf} {v : View} (h : Corr cfg b v) (op : BOp)
    (hf : ∀ r, op = BOp.readFrom r → FillScript r.resps r.payload.length) :
    v.step cfg (op.ret b) op = v.step cfg (v.pureRet cfg op) op := by
  cases op with
  | readFrom r =>
    obtain ⟨hp, ho, hw, hc⟩ := h
    have hl := hp.fed_length
    obtain ⟨hf1, hf2⟩ := hf r rfl
    have hfs : FillScript r.resps (min r.payload.length (b.cfg.bufferSize - b.data.length)) :=
      ⟨hf1, by omega⟩
    obtain ⟨-, hn, -⟩ := readFrom_fill hp r hfs (b' := (b.readFrom r).1)
      (r' := (b.readFrom r).2.1) (n := (b.readFrom r).2.2.1) (e := (b.readFrom r).2.2.2) rfl
    simp only [BOp.ret, View.pureRet, View.step]
    rw [hn, hc]
    have : cfg.bufferSize - b.data.length = cfg.bufferSize - (v.fed.length - v.off) := by omega
    rw [this]
  | write p => rfl
  | advance n => rfl
  | shrink => rfl
  | reset d ce => rfl

/-- **C15 with a pure specification**: for histories whose readers are error free, the
    specification state reached by the instrumented run is the pure fold `specRun cfg ops`, which
    mentions neither chunk sizes nor capacities; in particular the contents of the buffer are
    independent of how the readers chunk. -/
theorem C15_view_pure (cfg : BufCfg) (ops : List BOp) (hf : AllFill ops) :
    (runBoth cfg ops).2 = specRun cfg ops := by
  unfold runBoth specRun
  have h0 : Corr cfg (init cfg, (⟨[], 0, 0⟩ : View)).1 (init cfg, (⟨[], 0, 0⟩ : View)).2 :=
    ⟨pinv_init cfg, rfl, rfl, rfl⟩
  have h1 : (init cfg, (⟨[], 0, 0⟩ : View)).2 = (⟨[], 0, 0⟩ : View) := rfl
  generalize (init cfg, (⟨[], 0, 0⟩ : View)) = s at h0 h1
  generalize (⟨[], 0, 0⟩ : View) = v0 at h1
  induction ops generalizing s v0 with
  | nil => exact h1
  | cons op ops ih =>
    simp only [List.foldl_cons]
    refine ih (fun o ho => hf o (List.mem_cons_of_mem _ ho)) _ (corr_step h0 op) _ ?_
    simp only []
    rw [step_pure_of_fill h0 op (hf op List.mem_cons_self), h1]

/-- data, `Off`, `W` of the implementation as functions of the pure specification -/
theorem C15_data_pure (cfg : BufCfg) (ops : List BOp) (hf : AllFill ops) :
    let b := (runBoth cfg ops).1
    let v := specRun cfg ops
    b.data = v.fed.drop v.off ∧ b.off = v.off ∧ b.w = v.w := by
  intro b v
  obtain ⟨hp, ho, hw, -⟩ := corr_runBoth cfg ops
  have := C15_view_pure cfg ops hf
  simp only [v, ← this]
  exact ⟨by rw [← ho]; exact hp.view.symm, ho, hw⟩

/-! ## non-vacuity: concrete instances (BufferSize 4, ShrinkSize 1) -/

section Examples

/-- BufferSize 4, ShrinkSize 1 -/
def cfg4 : BufCfg := { shrinkSize := 1, bufferSize := 4, windowSize := 4, blockSize := 4 }

/-- single-byte reads, the third read returns one byte together with error 7 -/
def rdErr : Reader := ⟨[10, 11, 12], [(1, 0), (1, 0), (1, 7), (1, 0)]⟩
/-- five bytes, one per read -/
def rdBytes : Reader := ⟨[3, 4, 5, 6, 7], [(1, 0), (1, 0), (1, 0), (1, 0), (1, 0)]⟩
/-- the same five bytes, chunked 2 + 3 -/
def rdChunks : Reader := ⟨[3, 4, 5, 6, 7], [(2, 0), (3, 0), (9, 0), (9, 0), (9, 0)]⟩

local macro "eval_pbuf" : tactic =>
  `(tactic| simp [readFrom, readLoop, write, shrink, reset, init, grow, cfg4, rdErr, rdBytes,
      rdChunks, Facts.margin, Facts.chunkSize, Facts.growMin, min3, errOfCode])

local macro "eval_hist" : tactic =>
  `(tactic| (simp only [runBoth, specRun, List.take, List.foldl_cons, List.foldl_nil]
             simp only [BOp.apply, BOp.ret, View.step, View.pureRet]
             eval_pbuf))

/-- a reader error arrives together with the third byte: all three bytes are kept, the error is
    returned, the script position is behind the failing response -/
example : (init cfg4).readFrom rdErr =
    ({ data := [10, 11, 12], w := 0, off := 0, cap := 11, cfg := cfg4 }, ⟨[], [(1, 0)]⟩, 3,
     .reader 7) := by eval_pbuf

/-- single-byte reads fill the buffer: 4 of 5 bytes, `ErrFullBuffer`, one byte stays in the reader -/
example : (init cfg4).readFrom rdBytes =
    ({ data := [3, 4, 5, 6], w := 0, off := 0, cap := 11, cfg := cfg4 }, ⟨[7], [(1, 0)]⟩, 4,
     .full) := by eval_pbuf

/-- another chunking of the same payload gives the same data, count and error -/
example : (init cfg4).readFrom rdChunks =
    ({ data := [3, 4, 5, 6], w := 0, off := 0, cap := 11, cfg := cfg4 }, ⟨[7], [(9, 0), (9, 0), (9, 0)]⟩,
     4, .full) := by eval_pbuf

example : FillScript rdBytes.resps (min rdBytes.payload.length
    ((init cfg4).cfg.bufferSize - (init cfg4).data.length)) := by
  unfold FillScript; decide

example : FillScript rdChunks.resps (min rdChunks.payload.length
    ((init cfg4).cfg.bufferSize - (init cfg4).data.length)) := by
  unfold FillScript; decide

/-- `Write` into a nearly full buffer: a prefix is stored, `ErrFullBuffer` -/
example : (PBuf.mk [1, 2, 3] 0 0 10 cfg4).write [4, 5, 6] =
    ({ data := [1, 2, 3, 4], w := 0, off := 0, cap := 11, cfg := cfg4 }, 1, .full) := by eval_pbuf

/-- a non-trivial state satisfying the invariant: 2 bytes discarded, margin present -/
example : PInv ⟨[3, 4, 10, 11], 1, 2, 11, cfg4⟩ [1, 2, 3, 4, 10, 11] := by
  constructor <;> decide

/-- a history with a short-reading reader, a failing reader, Shrink and a rejected Reset -/
def hist : List BOp :=
  [.write [1, 2], .readFrom rdBytes, .advance 3, .shrink, .readFrom rdErr, .reset [9, 9, 9, 9, 9] 0,
   .advance 1, .shrink]

example : runBoth cfg4 hist =
    ({ data := [4, 10, 11], w := 1, off := 3, cap := 11, cfg := cfg4 },
     { fed := [1, 2, 3, 4, 10, 11], off := 3, w := 1 }) := by
  unfold hist; eval_hist

example : AllFill (hist.take 4) := by
  intro op hop r hr
  simp [hist] at hop
  rcases hop with h | h | h | h <;> subst h <;> cases hr
  unfold FillScript; decide

example : specRun cfg4 (hist.take 4) = { fed := [1, 2, 3, 4], off := 2, w := 1 } := by
  unfold hist; eval_hist

/-- `ByteAt` around the retained range `[3, 6)` of that history -/
example : ((runBoth cfg4 hist).1.byteAt 2, (runBoth cfg4 hist).1.byteAt 3,
    (runBoth cfg4 hist).1.byteAt 5, (runBoth cfg4 hist).1.byteAt 6, (runBoth cfg4 hist).1.byteAt 7)
    = ((0, .outOfBuffer), (4, .ok), (11, .ok), (0, .endOfBuffer), (0, .outOfBuffer)) := by
  have : runBoth cfg4 hist =
    ({ data := [4, 10, 11], w := 1, off := 3, cap := 11, cfg := cfg4 },
     { fed := [1, 2, 3, 4, 10, 11], off := 3, w := 1 }) := by
    unfold hist; eval_hist
  rw [this]; decide

end Examples

end PBuf
end LZ

#print axioms LZ.PBuf.C15_init
#print axioms LZ.PBuf.C15_write
#print axioms LZ.PBuf.C15_write_err
#print axioms LZ.PBuf.C15_shrink
#print axioms LZ.PBuf.C15_reset
#print axioms LZ.PBuf.C15_reset_err_iff
#print axioms LZ.PBuf.C15_readAt
#print axioms LZ.PBuf.C15_peekAt
#print axioms LZ.PBuf.C15_byteAt
#print axioms LZ.PBuf.C15_byteAt_nat
#print axioms LZ.PBuf.C15_readFrom
#print axioms LZ.PBuf.C15_readFrom_full
#print axioms LZ.PBuf.readFrom_fill_outcome
#print axioms LZ.PBuf.readFrom_fill
#print axioms LZ.PBuf.readFrom_chunking_independent
#print axioms LZ.PBuf.cap_unobservable
#print axioms LZ.PBuf.readFrom_faulty_depends_on_cap
#print axioms LZ.PBuf.C15_view
#print axioms LZ.PBuf.C15_view_prefix
#print axioms LZ.PBuf.C15_view_pure
#print axioms LZ.PBuf.C15_data_pure
