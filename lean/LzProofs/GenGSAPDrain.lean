/-
  LzProofs.GenGSAPDrain — C14 "repeated `Parse(nil)` drains the buffer" about the Go text of GSAP: `C14_drains`
  (LzProofs/ParseProps.lean) transported along `runN_sim` of LzProofs/GenGSAPHistNil.lean.  The histories of GSAP are over the
  `GOpN` / `GResN` of LZ.GenHPHist, so `nilOps`, `drainRes`, `nSum`, `resultsAgreeN_nil`, `modelNilRes_drain`, `nSum_drainRes`
  are those of LzProofs/GenHPDrain.lean; the buffer part is `drain_buf` of LzProofs/GenDrainShared.lean.  Stated under
  `GsapSpecs lcp SS BI` on the callees outside gsap.go (the drain calls never call them; the history before them may).
  No sorry, no axioms of its own.

    drain_core               from a state with `HistOKG` whose model state (with the ghost index `g`) is reachable
    C14_drains_go_text_gsap  after ANY history from `init`: the calls `Parse(nil, ·)` return exactly `drainRes bs u 0`
-/
import LzProofs.GenGSAPHistNil
import LzProofs.GenDrainShared

set_option linter.unusedSimpArgs false
set_option linter.unusedVariables false

namespace LZ.GenGSAPHist
open LZ LZ.Gen LZ.GenBuf LZ.GenHash LZ.GenSuffix LZ.GenBitset LZ.GsapBits LZ.GenHPParse LZ.GenParse LZ.GenBUPParse
  LZ.GenProps LZ.GenGSAP LZ.GenNil
open LZ.GenHPHist (GOpN GResN GOpN.WF GOpN.abs ResultsAgreeN
  nilOps drainRes nSum nilOps_wf resultsAgreeN_nil runOps_nilOps modelNilRes_drain nSum_drainRes)

section
variable {lcp : Slice → Slice → Int} {SS : Slice → GSlice Int32 → Res (GSlice Int32)}
  {BI : Gen.bitset → List Int → Res Gen.bitset}

/-- draining from a Go state with `HistOKG` whose model state is reachable from `NewParser` -/
theorem drain_core {bc : BufCfg} (hbc : BCOKG bc) (sp : GsapSpecs lcp SS BI) (extra : Nat) (grow : Nat → Nat → Nat)
    (fuel : Nat) (hfuel : 2 * bc.bufferSize + 5 ≤ fuel)
    (raw : Cfg) (p0 : Parser) (h0 : newParser .GSAP raw = some p0) (mops : List POp)
    (t : Gen.gsap) (gh : Ghost) (g : GsapD) (hH : HistOKG bc t) (hG : GSim g (ofGW t))
    (hreach : (ofGSAPs t g, gh) = runOps (p0, Ghost.init) mops) (hbc0 : bc = p0.buf.cfg)
    (fl : List (Gen.Block' × Int)) :
    let bs := t.ParserBuffer.BufConfig.BlockSize.toNat
    let u := t.ParserBuffer.Data.len - t.ParserBuffer.W.toNat
    let r := (u + bs - 1) / bs
    ∃ t', runN extra grow fuel lcp SS BI t (nilOps fl) = Res.ok (t', drainRes bs u 0 fl) ∧
      nSum (drainRes bs u 0 fl) = ((Min.min u (fl.length * bs) : Nat) : Int) ∧
      t'.ParserBuffer.Data.len = t.ParserBuffer.Data.len ∧
      t'.ParserBuffer.W = ((Min.min t.ParserBuffer.Data.len (t.ParserBuffer.W.toNat + fl.length * bs) : Nat) : Int) ∧
      (r ≤ fl.length → nSum (drainRes bs u 0 fl) = (u : Int) ∧ t'.ParserBuffer.W = (t.ParserBuffer.Data.len : Int)) := by
  intro bs u r
  obtain ⟨t', rs', g', k1, k2, -, k3, -, k5⟩ :=
    runN_sim hbc sp extra grow fuel hfuel raw p0 h0 (nilOps fl) mops t gh g hH hG hreach (nilOps_wf fl)
  have hw : (ofGSAPs t g).buf.w ≤ (ofGSAPs t g).buf.data.length := hH.hw
  have hdl : (ofGSAPs t g).buf.data.length = t.ParserBuffer.Data.len := hH.dataLen
  have hdl' : (ofGSAPs t' g').buf.data.length = t'.ParserBuffer.Data.len := k2.dataLen
  have hbs : 1 ≤ (ofGSAPs t g).buf.cfg.blockSize := by
    have hc : (ofGSAPs t g).buf.cfg = bc := hH.cfg
    rw [hc, hbc0]
    exact (newParser_inv .GSAP raw p0 h0).2.2
  have hrs : rs' = drainRes bs u 0 fl := by
    rw [resultsAgreeN_nil fl _ _ k5]
    have := modelNilRes_drain (ofGSAPs t g) hw hbs fl 0
    rw [hdl] at this
    exact this
  have hsum := nSum_drainRes bs u fl 0
  rw [Nat.zero_mul, Nat.sub_zero] at hsum
  have hst : ofGSAPs t' g' = Parser.nilIter fl.length (ofGSAPs t g) := by rw [k3, runOps_nilOps]
  obtain ⟨b1, b2, b3⟩ := GenDrain.drain_buf (ofGSAPs t g) (ofGSAPs t' g') fl.length hw hbs hst
    t.ParserBuffer.Data.len t'.ParserBuffer.Data.len t.ParserBuffer.W t'.ParserBuffer.W hdl hdl' rfl rfl k2.pok.pb.w
  refine ⟨t', by rw [← hrs]; exact k1, hsum, b1, b2, fun hr => ?_⟩
  obtain ⟨c1, c2⟩ := b3 hr
  refine ⟨?_, c2⟩
  rw [hsum]
  exact congrArg Int.ofNat c1

/-- **C14 (repeated `Parse(nil)` drains the buffer) about the Go text of GSAP.**  After any history `ops` of the translated
    `Write`, `ReadFrom`, `Parse(&blk)`, `Parse(nil)`, `Shrink`, `Reset` from `init` (callees under `GsapSpecs lcp SS BI`), with
    `t` the Go state reached, `u = len(Data) − W`, `bs = BlockSize`, `r = ⌈u / bs⌉`: ANY further sequence of translated
    `Parse(nil, flags_k)` calls runs without panic and returns exactly `drainRes bs u 0 fl` — call `k < r` returns
    `(min(bs, u − k·bs), nil)`, every call `k ≥ r` returns `(0, ErrEmptyBuffer)`, the ghost blocks come back —; the `n` sum to
    `min(u, m·bs)`, `W` ends at `min(len(Data), W + m·bs)`; for `m ≥ r` the `n` sum to `u` and `W = len(Data)`. -/
theorem C14_drains_go_text_gsap (cfg : Gen.GSAPConfig) (s0 : Gen.gsap)
    (hinit : gsap_init default cfg = Res.ok (s0, Gen.Err.ok)) (sp : GsapSpecs lcp SS BI)
    (extra : Nat) (grow : Nat → Nat → Nat) (fuel : Nat)
    (hfuel : 2 * s0.ParserBuffer.BufConfig.BufferSize.toNat + 5 ≤ fuel)
    (ops : List GOpN) (hwf : ∀ op ∈ ops, op.WF) (fl : List (Gen.Block' × Int)) :
    ∃ t rs, runN extra grow fuel lcp SS BI s0 ops = Res.ok (t, rs) ∧
      let bs := t.ParserBuffer.BufConfig.BlockSize.toNat
      let u := t.ParserBuffer.Data.len - t.ParserBuffer.W.toNat
      let r := (u + bs - 1) / bs
      ∃ t', runN extra grow fuel lcp SS BI t (nilOps fl) = Res.ok (t', drainRes bs u 0 fl) ∧
        nSum (drainRes bs u 0 fl) = ((Min.min u (fl.length * bs) : Nat) : Int) ∧
        t'.ParserBuffer.Data.len = t.ParserBuffer.Data.len ∧
        t'.ParserBuffer.W = ((Min.min t.ParserBuffer.Data.len (t.ParserBuffer.W.toNat + fl.length * bs) : Nat) : Int) ∧
        (r ≤ fl.length → nSum (drainRes bs u 0 fl) = (u : Int) ∧ t'.ParserBuffer.W = (t.ParserBuffer.Data.len : Int)) := by
  obtain ⟨p, t, rs, g, hp, h0, h1, hH, hbc, hf, hG, h3, -, -⟩ :=
    gen_gsap_history_nil cfg s0 hinit sp extra grow fuel hfuel ops hwf
  exact ⟨t, rs, h1, drain_core hbc sp extra grow fuel hf (ofGSAP cfg) p hp (ops.map GOpN.abs) t
    (runOps (p, Ghost.init) (ops.map GOpN.abs)).2 g hH hG (Prod.ext h3 rfl) rfl fl⟩

end

end LZ.GenGSAPHist

#print axioms LZ.GenGSAPHist.drain_core
#print axioms LZ.GenGSAPHist.C14_drains_go_text_gsap
