/-
  LzProofs.GsapBits — the rank set of GSAP, connected to the bitset models.

  Three descriptions of `s.bits` (gsap.go / bitset.go) exist in the model:
    1. `GsapD.bits : Array Bool` with `memberBefore` / `memberAfter` / `insertRanks` (LzModel/Sap.lean),
       used by `gsapProbe`, `gsapSort` and so by `Parser.parse`;
    2. `BitsetM` (LzModel/Bitset.lean), a strictly ascending list of naturals;
    3. `BitsetW` (LzModel/BitsetW.lean), the word-level transcription of bitset.go
       (refines 2: LzProofs/BitsetProps.lean, `C12_bitset_refines`).
  This file ties 1 to 2 and 3.

    §1  `members bits`, `toM bits`          the abstraction  Array Bool → BitsetM
    §2  `memberBefore_eq`, `memberAfter_eq` the scans of 1 are the queries of 2
    §3  `members_set`, `toM_insertRanks`,   `setIfInBounds r true` / `insertRanks` / the fresh array of
        `toM_gsapSort`                      `gsapSort` are `insert` / inserts / `clear` + inserts of 2,
                                            PROVIDED the ranks are below `bits.size`
    §4  `BitsSim bits w`                    simulation relation 1 ↔ 3; before/after agree, insert and
                                            clear keep it, the word-level insert never panics
    §5  `GsapDW`, `gsapProbeW`, `gsapSortW` the probe and `sort()` of gsap.go over the WORD-LEVEL bitset;
        `gsapProbe_sim`, `gsapSort_sim`     they simulate `gsapProbe` / `gsapSort`
    §6  `gsapLoop_sim`                      … through the greedy loop
    §7  `gsapParse_sim`, `gsapParse_sim_reachable`, `gsapHistory_sim`
                                            … through `Parse`, for every reachable GSAP state / history
    §8  non-vacuity, `#print axioms`

  What has to be discharged from the parser state.  The Go bitset GROWS on demand (`support`), so a
  word-level `insert` of a natural number never panics (`BitsetW.insert_refines`); nothing is "sized
  for `len(sa)`" in the Go code.  The size condition is needed on the OTHER side: the `Array Bool`
  of the parser model has the fixed size `sa.size` and `setIfInBounds` silently ignores a rank
  `≥ bits.size`, where Go would insert it (`set_out_of_range_differs`).  The two agree because every
  rank the probe inserts is `isa[a]` for a position `a < len(t)` and so is `< len(t) = bits.size`
  (`Sap.SAOK`, `BitsSub.size`).
-/
import LzProofs.BitsetProps
import LzProofs.RunsGsap
namespace LZ
namespace GsapBits
open BitsetW (IsPred IsGE)

/-! ## 1. the abstraction `Array Bool → BitsetM` -/

/-- the marked ranks, ascending -/
def members (bits : Array Bool) : List Nat :=
  (List.range bits.size).filter fun r => bits.getD r false

/-- the set-level value a rank array stands for -/
def toM (bits : Array Bool) : BitsetM := ⟨members bits⟩

theorem mem_members {bits : Array Bool} {r : Nat} : r ∈ members bits ↔ bits.getD r false = true := by
  unfold members
  rw [List.mem_filter, List.mem_range]
  constructor
  · exact fun h => h.2
  · intro h
    refine ⟨?_, h⟩
    apply Nat.lt_of_not_le
    intro hle
    rw [Sap.getD_false_of_size_le bits hle] at h
    cases h

/-- `bits.getD r false = true ↔ r ∈ members bits` (the form asked for) -/
theorem getD_iff_mem (bits : Array Bool) (r : Nat) : bits.getD r false = true ↔ r ∈ members bits :=
  mem_members.symm

theorem members_sorted (bits : Array Bool) : (members bits).Pairwise (· < ·) :=
  List.Pairwise.filter _ List.pairwise_lt_range

theorem members_lt_size {bits : Array Bool} {r : Nat} (h : r ∈ members bits) : r < bits.size := by
  unfold members at h
  rw [List.mem_filter, List.mem_range] at h
  exact h.1

/-- two rank arrays stand for the same set iff they mark the same ranks (sizes may differ) -/
theorem members_eq_iff (b₁ b₂ : Array Bool) :
    members b₁ = members b₂ ↔ ∀ r, b₁.getD r false = b₂.getD r false := by
  constructor
  · intro h r
    have := @mem_members b₁ r
    rw [h, mem_members] at this
    cases h1 : b₁.getD r false <;> cases h2 : b₂.getD r false <;> simp_all
  · intro h
    apply BitsetW.sorted_ext (members_sorted _) (members_sorted _)
    intro x
    rw [mem_members, mem_members, h]

/-! ## 2. the queries -/

theorem memberBefore_isPred (bits : Array Bool) (j : Nat) :
    IsPred (fun r => bits.getD r false = true) j (memberBefore bits j) := by
  have := Sap.memberBefore_spec bits j
  cases h : memberBefore bits j with
  | none =>
    simp only [h] at this
    simp only [IsPred]
    intro x hx hlt
    rw [this x hlt] at hx
    cases hx
  | some k =>
    simp only [h] at this
    obtain ⟨h1, h2, h3⟩ := this
    simp only [IsPred]
    refine ⟨h2, h1, fun x hx hlt => ?_⟩
    apply Nat.le_of_not_lt
    intro hk
    rw [h3 x hk hlt] at hx
    cases hx

theorem memberAfter_isGE (bits : Array Bool) (j : Nat) :
    IsGE (fun r => bits.getD r false = true) (j + 1) (memberAfter bits j) := by
  have := Sap.memberAfter_spec bits j
  cases h : memberAfter bits j with
  | none =>
    simp only [h] at this
    simp only [IsGE]
    intro x hx hlo
    rw [this x (by omega)] at hx
    cases hx
  | some k =>
    simp only [h] at this
    obtain ⟨h1, h2, h3⟩ := this
    simp only [IsGE]
    refine ⟨h2, by omega, fun x hx hlo => ?_⟩
    apply Nat.le_of_not_lt
    intro hk
    rw [h3 x (by omega) hk] at hx
    cases hx

/-- the downward scan of the parser model is `BitsetM.memberBefore` of the abstraction:
    both return the LARGEST member STRICTLY below `j` -/
theorem memberBefore_eq (bits : Array Bool) (j : Nat) :
    memberBefore bits j = BitsetM.memberBefore (toM bits) j :=
  (memberBefore_isPred bits j).unique
    ((BitsetW.model_before_isPred (members_sorted bits) j).congr (fun _ => mem_members))

/-- the upward scan of the parser model is `BitsetM.memberAfter` of the abstraction:
    both return the SMALLEST member STRICTLY above `j` -/
theorem memberAfter_eq (bits : Array Bool) (j : Nat) :
    memberAfter bits j = BitsetM.memberAfter (toM bits) j :=
  (memberAfter_isGE bits j).unique
    ((BitsetW.model_after_isGE (members_sorted bits) j).congr (fun _ => mem_members))

/-! ## 3. insertion and `sort()` -/

/-- the single insert of the greedy loop (`s.bits.insert(j)`) -/
theorem members_set (bits : Array Bool) (j : Nat) (hj : j < bits.size) :
    members (bits.setIfInBounds j true) = BitsetM.insertOne (members bits) j := by
  apply BitsetW.sorted_ext (members_sorted _) (BitsetW.sorted_insertOne _ _ (members_sorted _))
  intro x
  rw [mem_members, BitsetW.mem_insertOne, mem_members, Sap.getD_setIfInBounds_bool]
  by_cases hx : x = j
  · subst hx; simp [hj]
  · simp [hx]

theorem toM_set (bits : Array Bool) (j : Nat) (hj : j < bits.size) :
    BitsetM.insert (toM bits) [j] = some (toM (bits.setIfInBounds j true)) := by
  simp only [BitsetM.insert, toM, List.foldl_cons, List.foldl_nil, members_set bits j hj]

/-- a rank outside the array is DROPPED by the parser model … -/
theorem set_out_of_range (bits : Array Bool) (j : Nat) (hj : bits.size ≤ j) :
    bits.setIfInBounds j true = bits :=
  Array.setIfInBounds_eq_of_size_le hj

/-- … whereas the bitset inserts it: without `j < bits.size` the correspondence fails -/
theorem set_out_of_range_differs (bits : Array Bool) (j : Nat) (hj : bits.size ≤ j) :
    BitsetM.insert (toM bits) [j] ≠ some (toM (bits.setIfInBounds j true)) := by
  rw [set_out_of_range bits j hj]
  simp only [BitsetM.insert, toM, List.foldl_cons, List.foldl_nil, ne_eq, Option.some.injEq,
    BitsetM.mk.injEq]
  intro h
  have h1 : j ∈ BitsetM.insertOne (members bits) j := (BitsetW.mem_insertOne _ _ _).2 (Or.inr rfl)
  rw [h] at h1
  have := members_lt_size h1
  omega

/-- the ranks of the positions `a, a+1, …, a+cnt-1` -/
def rankList (isa : Array Nat) (a cnt : Nat) : List Nat :=
  (List.range cnt).map fun t => isa.getD (a + t) 0

theorem mem_rankList {isa : Array Nat} {a cnt x : Nat} :
    x ∈ rankList isa a cnt ↔ ∃ t, t < cnt ∧ isa.getD (a + t) 0 = x := by
  simp [rankList]

theorem rankList_succ (isa : Array Nat) (a cnt : Nat) :
    rankList isa a (cnt + 1) = isa.getD a 0 :: rankList isa (a + 1) cnt := by
  unfold rankList
  rw [List.range_succ_eq_map, List.map_cons, List.map_map]
  simp only [Nat.add_zero, List.cons.injEq, true_and]
  apply List.map_congr_left
  intro t _
  simp only [Function.comp]
  congr 1
  omega

/-- `insertRanks` (the loop `for i++; i < litIndex; i++ { s.bits.insert(int(s.isa[i])) }` and the loop
    of `sort()`) inserts the rank list, provided every rank is inside the array -/
theorem members_insertRanks (isa : Array Nat) (cnt : Nat) (bits : Array Bool) (a : Nat)
    (hr : ∀ t, t < cnt → isa.getD (a + t) 0 < bits.size) :
    members (insertRanks isa bits a cnt) =
      (rankList isa a cnt).foldl BitsetM.insertOne (members bits) := by
  apply BitsetW.sorted_ext (members_sorted _)
    (BitsetW.sorted_foldl_insertOne _ _ (members_sorted _))
  intro x
  rw [mem_members, BitsetW.mem_foldl_insertOne, mem_members, Sap.insertRanks_spec, mem_rankList]
  constructor
  · rintro (h | ⟨_, t, ht, e⟩)
    · exact Or.inl h
    · exact Or.inr ⟨t, ht, e⟩
  · rintro (h | ⟨t, ht, e⟩)
    · exact Or.inl h
    · exact Or.inr ⟨by rw [← e]; exact hr t ht, t, ht, e⟩

theorem toM_insertRanks (isa : Array Nat) (cnt : Nat) (bits : Array Bool) (a : Nat)
    (hr : ∀ t, t < cnt → isa.getD (a + t) 0 < bits.size) :
    BitsetM.insert (toM bits) (rankList isa a cnt) = some (toM (insertRanks isa bits a cnt)) := by
  simp only [BitsetM.insert, toM, members_insertRanks isa cnt bits a hr]

/-- a sequence of single `insert(r)` calls, as the Go loops perform them -/
def insertSeqM (b : BitsetM) : List Nat → Option BitsetM
  | [] => some b
  | r :: rs => (b.insert [r]).bind fun b' => insertSeqM b' rs

/-- … is one variadic insert -/
theorem insertSeqM_eq (l : List Nat) (b : BitsetM) : insertSeqM b l = b.insert l := by
  induction l generalizing b with
  | nil => rfl
  | cons r rs ih =>
    simp only [insertSeqM, BitsetM.insert, List.foldl_cons, List.foldl_nil, Option.bind_some, ih]

theorem toM_insertRanks_seq (isa : Array Nat) (cnt : Nat) (bits : Array Bool) (a : Nat)
    (hr : ∀ t, t < cnt → isa.getD (a + t) 0 < bits.size) :
    insertSeqM (toM bits) (rankList isa a cnt) = some (toM (insertRanks isa bits a cnt)) := by
  rw [insertSeqM_eq, toM_insertRanks isa cnt bits a hr]

/-- the fresh array of `gsapSort` stands for the empty set: `s.bits.clear()` -/
theorem members_replicate (n : Nat) : members (Array.replicate n false) = [] := by
  unfold members
  rw [List.filter_eq_nil_iff]
  intro r _
  simp only [Array.getD_eq_getD_getElem?, Array.getElem?_replicate]
  split <;> simp

theorem toM_replicate (n : Nat) (b : BitsetM) : toM (Array.replicate n false) = b.clear := by
  simp only [toM, members_replicate, BitsetM.clear]

/-- all ranks of positions below `N` are inside the rank array -/
def RanksBelow (isa : Array Nat) (N size : Nat) : Prop := ∀ a, a < N → isa.getD a 0 < size

theorem ranksBelow_of_saok {t : List Byte} {sa isa : Array Nat} (hs : Sap.SAOK t sa isa) :
    RanksBelow isa t.length t.length := fun a ha => (hs.sa_isa a ha).1

/-- **`gsap.sort()`**: the rank set after `sort()` is `clear` followed by the inserts of the ranks of
    the window positions `0 … W-1` (whatever the bitset contained before) -/
theorem toM_gsapSort (data : List Byte) (w : Nat) (hw : w ≤ data.length) (prev : BitsetM) :
    insertSeqM prev.clear (rankList (gsapSort data w).isa 0 w) = some (toM (gsapSort data w).bits) := by
  have hs := Sap.saok_gsapSort data w
  have hb : (gsapSort data w).bits =
      insertRanks (gsapSort data w).isa (Array.replicate (gsapSort data w).sa.size false) 0 w := rfl
  rw [hb, ← toM_replicate (gsapSort data w).sa.size prev]
  apply toM_insertRanks_seq
  intro t ht
  rw [Array.size_replicate, hs.size_sa]
  exact ranksBelow_of_saok hs _ (by omega)

/-! ## 4. the simulation relation to the word level -/

/-- the rank array `bits` of the parser model and the word-level bitset `w` (backing array with
    arbitrary stale contents, `len`, `off`) stand for the same set -/
def BitsSim (bits : Array Bool) (w : BitsetW) : Prop :=
  BitsetW.WInv w ∧ BitsetW.members w = members bits

theorem bitsSim_iff (bits : Array Bool) (w : BitsetW) :
    BitsSim bits w ↔ (BitsetW.WInv w ∧ ∀ r, BitsetW.mem w r ↔ bits.getD r false = true) := by
  unfold BitsSim
  constructor
  · rintro ⟨h1, h2⟩
    refine ⟨h1, fun r => ?_⟩
    rw [← BitsetW.mem_members, h2, mem_members]
  · rintro ⟨h1, h2⟩
    refine ⟨h1, BitsetW.sorted_ext (BitsetW.members_sorted _) (members_sorted _) fun x => ?_⟩
    rw [BitsetW.mem_members, mem_members, h2]

/-- in the terms of BitsetProps: `w` refines the abstraction of `bits` -/
theorem BitsSim.refines {bits : Array Bool} {w : BitsetW} (h : BitsSim bits w) :
    BitsetW.Refines w (toM bits) :=
  ⟨h.1, by unfold toM; rw [h.2]⟩

theorem BitsSim.of_refines {bits : Array Bool} {w : BitsetW} (h : BitsetW.Refines w (toM bits)) :
    BitsSim bits w := by
  obtain ⟨h1, h2⟩ := h
  refine ⟨h1, ?_⟩
  unfold toM at h2
  exact (BitsetM.mk.inj h2).symm

/-- **before**: `s.bits.memberBefore(j)` of bitset.go returns what the scan of the model returns -/
theorem BitsSim.before {bits : Array Bool} {w : BitsetW} (h : BitsSim bits w) (j : Nat) :
    w.memberBefore j = memberBefore bits j := by
  rw [BitsetW.memberBefore_refines, h.2, memberBefore_eq, toM]

/-- **after** -/
theorem BitsSim.after {bits : Array Bool} {w : BitsetW} (h : BitsSim bits w) (j : Nat) :
    w.memberAfter j = memberAfter bits j := by
  rw [BitsetW.memberAfter_refines, h.2, memberAfter_eq, toM]

/-- **insert**: for a rank inside the array the word-level insert does not panic and keeps the
    relation -/
theorem BitsSim.insert {bits : Array Bool} {w : BitsetW} (h : BitsSim bits w) (j : Nat)
    (hj : j < bits.size) :
    ∃ w', w.insert [j] = some w' ∧ BitsSim (bits.setIfInBounds j true) w' := by
  obtain ⟨w', e, inv', hm⟩ := BitsetW.insert_members w h.1 [j]
  refine ⟨w', e, inv', ?_⟩
  rw [hm, h.2, members_set bits j hj]
  rfl

/-- the word-level insert never panics, in range or not -/
theorem insertW_no_panic {w : BitsetW} (hw : BitsetW.WInv w) (j : Nat) : ∃ w', w.insert [j] = some w' ∧ BitsetW.WInv w' := by
  obtain ⟨w', e, inv', _⟩ := BitsetW.insert_members w hw [j]
  exact ⟨w', e, inv'⟩

/-- **clear**: `s.bits.clear()` against the fresh all-`false` array, whatever the backing array holds -/
theorem BitsSim.clear {w : BitsetW} (hw : BitsetW.WInv w) (n : Nat) :
    BitsSim (Array.replicate n false) w.clear := by
  refine ⟨(BitsetW.clear_refines w hw).1, ?_⟩
  rw [(BitsetW.clear_refines w hw).2, members_replicate]
  rfl

/-- `GsapD.empty` (fresh parser, `Reset`, `Shrink`: `s.bits.clear()`) -/
theorem BitsSim.clear_empty {w : BitsetW} (hw : BitsetW.WInv w) : BitsSim #[] w.clear :=
  BitsSim.clear hw 0

theorem BitsSim.empty : BitsSim #[] BitsetW.empty :=
  ⟨BitsetW.empty_inv, rfl⟩

/-- the relation does not look at the size of the rank array or at unmarked ranks -/
theorem BitsSim.congr {b₁ b₂ : Array Bool} {w : BitsetW} (h : BitsSim b₁ w)
    (e : ∀ r, b₁.getD r false = b₂.getD r false) : BitsSim b₂ w :=
  ⟨h.1, by rw [h.2]; exact (members_eq_iff b₁ b₂).2 e⟩

/-- the loops `for … { s.bits.insert(int(s.isa[i])) }` of gsap.go on the word-level bitset;
    `none` = an insert panicked -/
def insertRanksW (isa : Array Nat) (w : BitsetW) (a : Nat) : Nat → Option BitsetW
  | 0 => some w
  | n+1 =>
    match w.insert [isa.getD a 0] with
    | some w' => insertRanksW isa w' (a + 1) n
    | none => none

/-- **insertRanks**: no insert panics and the relation is kept -/
theorem BitsSim.insertRanks (isa : Array Nat) : ∀ (cnt : Nat) (bits : Array Bool) (w : BitsetW) (a : Nat),
    BitsSim bits w → (∀ t, t < cnt → isa.getD (a + t) 0 < bits.size) →
    ∃ w', insertRanksW isa w a cnt = some w' ∧ BitsSim (LZ.insertRanks isa bits a cnt) w' := by
  intro cnt
  induction cnt with
  | zero => intro bits w a h _; exact ⟨w, rfl, h⟩
  | succ cnt ih =>
    intro bits w a h hr
    obtain ⟨w1, e1, h1⟩ := h.insert (isa.getD a 0) (hr 0 (by omega))
    obtain ⟨w2, e2, h2⟩ := ih (bits.setIfInBounds (isa.getD a 0) true) w1 (a + 1) h1 (fun t ht => by
      rw [Array.size_setIfInBounds]
      have := hr (t + 1) (by omega)
      rwa [show a + (t + 1) = a + 1 + t by omega] at this)
    refine ⟨w2, ?_, h2⟩
    simp only [insertRanksW, e1, e2]

/-! ## 5. the probe and `sort()` over the word-level bitset -/

/-- the GSAP dictionary with the bitset of bitset.go in place of the rank array -/
structure GsapDW where
  sa : Array Nat
  isa : Array Nat
  bits : BitsetW
deriving Repr, Inhabited, DecidableEq

/-- `var s gsap` after `init`: no suffix array, `s.bits.clear()` on the zero bitset -/
def GsapDW.empty : GsapDW := { sa := #[], isa := #[], bits := BitsetW.empty }

/-- `s.sa = s.sa[:0]; s.isa = s.isa[:0]; s.bits.clear()` (`Reset`, `Shrink`): the backing array of
    the bitset, with its stale contents, is kept -/
def GsapDW.reset (g : GsapDW) : GsapDW := { sa := #[], isa := #[], bits := g.bits.clear }

/-- one iteration of the loop of `gsap.Parse`, transcribed like `gsapProbe` but with the bitset
    operations of bitset.go; `none` = an index-out-of-range panic inside `insert` -/
def gsapProbeW (ws minMatch : Nat)
    (g : GsapDW) (p : List Byte) (i _li : Nat) : Option (GsapDW × Option (Nat × Nat × Nat)) :=
  let j := g.isa.getD i 0
  match g.bits.insert [j] with                               -- s.bits.insert(j)
  | none => none
  | some bits =>
    let g1 := { g with bits := bits }
    let (f, m) := match bits.memberBefore j with             -- k1, ok1 := s.bits.memberBefore(j)
      | some k1 => let f := g.sa.getD k1 0; (f, lcpLen (p.drop f) (p.drop i))
      | none => (0, 0)
    let (f, m) := match bits.memberAfter j with              -- k2, ok2 := s.bits.memberAfter(j)
      | some k2 =>
        let f2 := g.sa.getD k2 0
        let m2 := lcpLen (p.drop f2) (p.drop i)
        if m2 > m ∨ (m2 = m ∧ f2 > f) then (f2, m2) else (f, m)
      | none => (f, m)
    if m < minMatch then some (g1, none)
    else if ¬ (f < i ∧ i - f < ws) then some (g1, none)
    else
      match insertRanksW g.isa bits (i + 1) (m - 1) with     -- for i++; i < litIndex; i++ { insert }
      | none => none
      | some bits' => some ({ g1 with bits := bits' }, some (i, m, i - f))

/-- the candidate computed from the two neighbours the word-level bitset reports -/
def candW (sa : Array Nat) (bits : BitsetW) (p : List Byte) (i j : Nat) : Nat × Nat :=
  let (f, m) := match bits.memberBefore j with
    | some k1 => let f := sa.getD k1 0; (f, lcpLen (p.drop f) (p.drop i))
    | none => (0, 0)
  match bits.memberAfter j with
    | some k2 =>
      let f2 := sa.getD k2 0
      let m2 := lcpLen (p.drop f2) (p.drop i)
      if m2 > m ∨ (m2 = m ∧ f2 > f) then (f2, m2) else (f, m)
    | none => (f, m)

theorem gsapProbeW_eq (ws minMatch : Nat) (g : GsapDW) (p : List Byte) (i li : Nat) :
    gsapProbeW ws minMatch g p i li =
      match g.bits.insert [g.isa.getD i 0] with
      | none => none
      | some bits =>
        let c := candW g.sa bits p i (g.isa.getD i 0)
        if c.2 < minMatch then some ({ g with bits := bits }, none)
        else if ¬ (c.1 < i ∧ i - c.1 < ws) then some ({ g with bits := bits }, none)
        else
          match insertRanksW g.isa bits (i + 1) (c.2 - 1) with
          | none => none
          | some bits' => some ({ g with bits := bits' }, some (i, c.2, i - c.1)) := by
  rfl

/-- the two dictionaries agree: same arrays, and the bitsets stand for the same rank set -/
structure GSim (g : GsapD) (gw : GsapDW) : Prop where
  sa : gw.sa = g.sa
  isa : gw.isa = g.isa
  bits : BitsSim g.bits gw.bits

theorem GSim.empty : GSim GsapD.empty GsapDW.empty := ⟨rfl, rfl, BitsSim.empty⟩

theorem GSim.reset {g : GsapD} {gw : GsapDW} (h : GSim g gw) : GSim GsapD.empty gw.reset :=
  ⟨rfl, rfl, BitsSim.clear_empty h.bits.1⟩

/-- dropping the suffix array (`s.sa = s.sa[:0]` after a truncated block) -/
theorem GSim.dropSA {g : GsapD} {gw : GsapDW} (h : GSim g gw) :
    GSim { g with sa := #[] } { gw with sa := #[] } := ⟨rfl, h.isa, h.bits⟩

/-- **same candidates**: under the simulation relation the probe sees the same neighbours and so
    computes the same candidate `(f, m)` -/
theorem candW_eq {bits : Array Bool} {w : BitsetW} (h : BitsSim bits w) (sa : Array Nat)
    (p : List Byte) (i j : Nat) : candW sa w p i j = Sap.gsapCand sa bits p i j := by
  unfold candW Sap.gsapCand
  rw [h.before, h.after]
  rfl

theorem gsapCand_snd_le (sa : Array Nat) (bits : Array Bool) (p : List Byte) (i j : Nat) :
    (Sap.gsapCand sa bits p i j).2 ≤ p.length - i := by
  have hl : ∀ f, lcpLen (p.drop f) (p.drop i) ≤ p.length - i := fun f => by
    have := Sap.lcpLen_le_right (p.drop f) (p.drop i)
    rwa [List.length_drop] at this
  unfold Sap.gsapCand
  cases memberBefore bits j <;> cases memberAfter bits j <;> simp only
  · omega
  · split
    · exact hl _
    · omega
  · exact hl _
  · split
    · exact hl _
    · exact hl _

/-- **the probe**: if the dictionaries are related and the ranks of all positions `< N` are inside
    the rank array, then at a position `i < N` of a block `p` of at most `N` bytes the word-level probe
    does not panic, returns the same result and the new dictionaries are related again -/
theorem gsapProbe_sim {g : GsapD} {gw : GsapDW} (ws mm : Nat) (p : List Byte) (i li N : Nat)
    (hG : GSim g gw) (hr : RanksBelow g.isa N g.bits.size) (hi : i < N) (hp : p.length ≤ N) :
    ∃ gw', gsapProbeW ws mm gw p i li = some (gw', (gsapProbe ws mm g p i li).2) ∧
      GSim (gsapProbe ws mm g p i li).1 gw' := by
  rw [Sap.gsapProbe_eq, gsapProbeW_eq, hG.isa, hG.sa]
  obtain ⟨w1, e1, h1⟩ := hG.bits.insert (g.isa.getD i 0) (hr i hi)
  simp only [e1, candW_eq h1]
  have hc := gsapCand_snd_le g.sa (g.bits.setIfInBounds (g.isa.getD i 0) true) p i (g.isa.getD i 0)
  generalize Sap.gsapCand g.sa (g.bits.setIfInBounds (g.isa.getD i 0) true) p i (g.isa.getD i 0) = c
    at hc
  by_cases c1 : c.2 < mm
  · simp only [c1, if_true]
    exact ⟨_, rfl, rfl, rfl, h1⟩
  · simp only [c1, if_false]
    by_cases c2 : c.1 < i ∧ i - c.1 < ws
    · simp only [c2, and_self, not_true_eq_false, if_false]
      obtain ⟨w2, e2, h2⟩ := h1.insertRanks g.isa (c.2 - 1) _ w1 (i + 1) (fun t ht => by
        rw [Array.size_setIfInBounds]
        exact hr _ (by omega))
      simp only [e2]
      exact ⟨_, rfl, rfl, rfl, h2⟩
    · simp only [c2, not_false_eq_true, if_true]
      exact ⟨_, rfl, rfl, rfl, h1⟩

/-- the same with the hypotheses of the parser state: the suffix array in use is that of `t`
    (`Sap.SAOK`) and the rank array has one entry per suffix -/
theorem gsapProbe_sim_saok {g : GsapD} {gw : GsapDW} {t : List Byte} (ws mm : Nat) (p : List Byte)
    (i li : Nat) (hG : GSim g gw) (hs : Sap.SAOK t g.sa g.isa) (hb : g.bits.size = t.length)
    (hi : i < t.length) (hp : p.length ≤ t.length) :
    ∃ gw', gsapProbeW ws mm gw p i li = some (gw', (gsapProbe ws mm g p i li).2) ∧
      GSim (gsapProbe ws mm g p i li).1 gw' :=
  gsapProbe_sim ws mm p i li t.length hG (by rw [hb]; exact ranksBelow_of_saok hs) hi hp

/-- `gsap.sort()` over the word-level bitset: `s.bits.clear()`, then one insert per window position.
    (`old` = the dictionary before the call; only the backing array of its bitset matters.) -/
def gsapSortW (old : GsapDW) (data : List Byte) (w : Nat) : Option GsapDW :=
  let sa := (saSpec data).toArray
  let isa := invertSA sa
  match insertRanksW isa old.bits.clear 0 w with
  | some bits => some { sa := sa, isa := isa, bits := bits }
  | none => none

/-- **sort**: no panic, and the result is related to `gsapSort`, whatever was in the bitset before -/
theorem gsapSort_sim (old : GsapDW) (hold : BitsetW.WInv old.bits) (data : List Byte) (w : Nat)
    (hw : w ≤ data.length) :
    ∃ gw', gsapSortW old data w = some gw' ∧ GSim (gsapSort data w) gw' := by
  have hs := Sap.saok_gsapSort data w
  obtain ⟨w2, e2, h2⟩ := (BitsSim.clear hold (gsapSort data w).sa.size).insertRanks
    (gsapSort data w).isa w _ _ 0 (fun t ht => by
      rw [Array.size_replicate, hs.size_sa]
      exact ranksBelow_of_saok hs _ (by omega))
  refine ⟨{ sa := (gsapSort data w).sa, isa := (gsapSort data w).isa, bits := w2 }, ?_, rfl, rfl, h2⟩
  unfold gsapSortW
  simp only
  have : insertRanksW (invertSA (saSpec data).toArray) old.bits.clear 0 w = some w2 := e2
  rw [this]
  rfl

/-! ## 6. the greedy loop -/

theorem greedyLoop_none {δ} (F : Finder δ) (p : List Byte) (stop : Nat) (st : LoopSt δ) (d : δ)
    (h : st.i < stop) (hp : F.probe st.dict p st.i st.litIndex = (d, none)) :
    greedyLoop F p stop st = greedyLoop F p stop { st with dict := d, i := st.i + 1 } := by
  rw [greedyLoop]
  simp only [h, dite_true]
  split
  · rename_i d2 heq
    rw [hp] at heq
    simp only [Prod.mk.injEq, and_true] at heq
    subst heq
    rfl
  · rename_i d2 s2 k2 o2 heq
    rw [hp] at heq
    simp at heq

theorem greedyLoop_some {δ} (F : Finder δ) (p : List Byte) (stop : Nat) (st : LoopSt δ) (d : δ)
    (s k o : Nat) (h : st.i < stop) (hp : F.probe st.dict p st.i st.litIndex = (d, some (s, k, o)))
    (hk : s + k > st.i) :
    greedyLoop F p stop st = greedyLoop F p stop
      { dict := d, i := s + k, litIndex := s + k,
        seqs := st.seqs ++ [{ litLen := ((p.drop st.litIndex).take (s - st.litIndex)).length,
                              matchLen := k, offset := o }],
        lits := st.lits ++ (p.drop st.litIndex).take (s - st.litIndex) } := by
  rw [greedyLoop]
  simp only [h, dite_true]
  split
  · rename_i d2 heq
    rw [hp] at heq
    simp at heq
  · rename_i d2 s2 k2 o2 heq
    rw [hp] at heq
    simp only [Prod.mk.injEq, Option.some.injEq] at heq
    obtain ⟨hd, hs, hk2, ho⟩ := heq
    subst hd hs hk2 ho
    simp only [hk, dite_true]

theorem greedyLoop_done {δ} (F : Finder δ) (p : List Byte) (stop : Nat) (st : LoopSt δ)
    (h : ¬ st.i < stop) : greedyLoop F p stop st = st := by
  rw [greedyLoop]
  simp only [h, dite_false]

/-- relational rule for the greedy loop run with two finders over two dictionary types -/
theorem greedyLoop_rel {δ ε} (F : Finder δ) (G : Finder ε) (p : List Byte) (stop : Nat)
    (R : LoopSt δ → LoopSt ε → Prop)
    (hidx : ∀ st su, R st su → su.i = st.i)
    (hnone : ∀ st su d, st.i < stop → R st su → F.probe st.dict p st.i st.litIndex = (d, none) →
      ∃ d', G.probe su.dict p su.i su.litIndex = (d', none) ∧
        R { st with dict := d, i := st.i + 1 } { su with dict := d', i := su.i + 1 })
    (hsome : ∀ st su d s k o, st.i < stop → R st su →
      F.probe st.dict p st.i st.litIndex = (d, some (s, k, o)) →
      s + k > st.i ∧
      ∃ d', G.probe su.dict p su.i su.litIndex = (d', some (s, k, o)) ∧
        R { dict := d, i := s + k, litIndex := s + k,
            seqs := st.seqs ++ [{ litLen := ((p.drop st.litIndex).take (s - st.litIndex)).length,
                                  matchLen := k, offset := o }],
            lits := st.lits ++ (p.drop st.litIndex).take (s - st.litIndex) }
          { dict := d', i := s + k, litIndex := s + k,
            seqs := su.seqs ++ [{ litLen := ((p.drop su.litIndex).take (s - su.litIndex)).length,
                                  matchLen := k, offset := o }],
            lits := su.lits ++ (p.drop su.litIndex).take (s - su.litIndex) }) :
    ∀ st su, R st su → R (greedyLoop F p stop st) (greedyLoop G p stop su) := by
  intro st
  induction st using greedyLoop.induct F p stop with
  | case1 st h d hp ih =>
    intro su hR
    obtain ⟨d', hg, hR'⟩ := hnone st su d h hR hp
    have hi := hidx st su hR
    rw [greedyLoop_none F p stop st d h hp, greedyLoop_none G p stop su d' (by omega) hg]
    exact ih _ hR'
  | case2 st h d s k o hp hk q ih =>
    intro su hR
    obtain ⟨_, d', hg, hR'⟩ := hsome st su d s k o h hR hp
    have hi := hidx st su hR
    rw [greedyLoop_some F p stop st d s k o h hp hk,
      greedyLoop_some G p stop su d' s k o (by omega) hg (by omega)]
    exact ih _ hR'
  | case3 st h d s k o hp hk =>
    intro su hR
    exact absurd (hsome st su d s k o h hR hp).1 hk
  | case4 st h =>
    intro su hR
    have hi := hidx st su hR
    rw [greedyLoop_done F p stop st h, greedyLoop_done G p stop su (by omega)]
    exact hR

/-- the finder of the word-level run: the dictionary is `none` once an insert has panicked -/
def probeW (ws mm : Nat) : Option GsapDW → List Byte → Nat → Nat →
    Option GsapDW × Option (Nat × Nat × Nat)
  | none, _, _, _ => (none, none)
  | some g, p, i, li =>
    match gsapProbeW ws mm g p i li with
    | some (g', r) => (some g', r)
    | none => (none, none)

/-- two loop states agree: same counters and output, related dictionaries (no panic so far) -/
structure LSim (st : LoopSt GsapD) (su : LoopSt (Option GsapDW)) : Prop where
  i : su.i = st.i
  litIndex : su.litIndex = st.litIndex
  seqs : su.seqs = st.seqs
  lits : su.lits = st.lits
  dict : ∃ gw, su.dict = some gw ∧ GSim st.dict gw

/-- **the loop of `gsap.Parse`** over a block `t.take e`, `t` the text of the suffix array in use:
    from related states the run over the word-level bitset never panics, emits the same sequences
    and literals and ends in a related state.  (`GB`: the bits part of the loop invariant of
    LzProofs/RunsGsap.lean — the rank array has `len(t)` entries and marks only ranks of positions
    `< i`.) -/
theorem gsapLoop_sim (t : List Byte) (sa isa : Array Nat) (e ws mm : Nat)
    (hs : Sap.SAOK t sa isa) (he : e ≤ t.length) (hmm : 1 ≤ mm)
    (st : LoopSt GsapD) (su : LoopSt (Option GsapDW)) (hJ : GB t sa isa e st) (h : LSim st su) :
    LSim (greedyLoop ⟨gsapProbe ws mm⟩ (t.take e) e st) (greedyLoop ⟨probeW ws mm⟩ (t.take e) e su) := by
  have hplen : (t.take e).length ≤ t.length := by simp only [List.length_take]; omega
  have key : ∀ (st : LoopSt GsapD) (su : LoopSt (Option GsapDW)), st.i < e → GB t sa isa e st →
      LSim st su →
      ∃ gw', probeW ws mm su.dict (t.take e) su.i su.litIndex =
          (some gw', (gsapProbe ws mm st.dict (t.take e) st.i st.litIndex).2) ∧
        GSim (gsapProbe ws mm st.dict (t.take e) st.i st.litIndex).1 gw' := by
    intro st su hi hJ h
    obtain ⟨gw, e1, hG⟩ := h.dict
    obtain ⟨gw', e2, hG'⟩ := gsapProbe_sim_saok (t := t) ws mm (t.take e) st.i st.litIndex hG
      (by rw [hJ.hsa, hJ.hisa]; exact hs) hJ.bits.size (by omega) hplen
    refine ⟨gw', ?_, hG'⟩
    rw [e1, h.i, h.litIndex]
    simp only [probeW, e2]
  have := greedyLoop_rel ⟨gsapProbe ws mm⟩ ⟨probeW ws mm⟩ (t.take e) e
    (fun st su => GB t sa isa e st ∧ LSim st su)
    (fun st su hR => hR.2.i)
    (fun st su d hi hR hp => by
      obtain ⟨gw', e2, hG'⟩ := key st su hi hR.1 hR.2
      have hp' : gsapProbe ws mm st.dict (t.take e) st.i st.litIndex = (d, none) := hp
      rw [hp'] at e2 hG'
      exact ⟨some gw', e2, (gb_none t sa isa e ws mm hs he st d hi hR.1 hp).1,
        ⟨by simp only [hR.2.i], hR.2.litIndex, hR.2.seqs, hR.2.lits, gw', rfl, hG'⟩⟩)
    (fun st su d s k o hi hR hp => by
      obtain ⟨gw', e2, hG'⟩ := key st su hi hR.1 hR.2
      have hp' : gsapProbe ws mm st.dict (t.take e) st.i st.litIndex = (d, some (s, k, o)) := hp
      rw [hp'] at e2 hG'
      obtain ⟨g1, _, g3, g4, _⟩ := gb_some t sa isa e ws mm hs he hmm st d s k o hi hR.1 hp
      refine ⟨by omega, some gw', e2, g4, ⟨rfl, rfl, ?_, ?_, gw', rfl, hG'⟩⟩
      · simp only [hR.2.seqs, hR.2.litIndex]
      · simp only [hR.2.lits, hR.2.litIndex])
    st su ⟨hJ, h⟩
  exact this.2

/-! ## 7. `Parse`, reachable states, histories -/

theorem finishBlock_congr {δ ε} (p : List Byte) (flags : Nat) (st : LoopSt δ) (su : LoopSt ε)
    (h1 : su.litIndex = st.litIndex) (h2 : su.seqs = st.seqs) (h3 : su.lits = st.lits) :
    finishBlock p flags su = finishBlock p flags st := by
  unfold finishBlock
  rw [h1, h2, h3]

/-- the loop plus the end of the block (`runGreedy`) -/
theorem runGreedy_sim (t : List Byte) (e ws mm w flags : Nat) (g1 : GsapD) (g1w : GsapDW)
    (hs : Sap.SAOK t g1.sa g1.isa) (he : e ≤ t.length) (hmm : 1 ≤ mm) (hwe : w ≤ e)
    (hb : BitsSub g1.sa g1.bits t.length w) (hG : GSim g1 g1w) :
    ∃ gw', Parser.runGreedy ⟨probeW ws mm⟩ (some g1w) (t.take e) w e flags =
        (some gw', (Parser.runGreedy ⟨gsapProbe ws mm⟩ g1 (t.take e) w e flags).2) ∧
      GSim (Parser.runGreedy ⟨gsapProbe ws mm⟩ g1 (t.take e) w e flags).1 gw' := by
  have hL := gsapLoop_sim t g1.sa g1.isa e ws mm hs he hmm
    { dict := g1, i := w, litIndex := w, seqs := [], lits := [] }
    { dict := some g1w, i := w, litIndex := w, seqs := [], lits := [] }
    ⟨rfl, rfl, hb, Nat.le_refl _, hwe⟩ ⟨rfl, rfl, rfl, rfl, g1w, rfl, hG⟩
  obtain ⟨gw', e1, hG'⟩ := hL.dict
  refine ⟨gw', ?_, hG'⟩
  unfold Parser.runGreedy
  simp only
  rw [finishBlock_congr _ _ _ _ hL.litIndex hL.seqs hL.lits, e1, hL.litIndex]

/-- `gsap.Parse(&blk, flags)` over the word-level bitset, following the `.gsap` branch of
    `Parser.parse`.  Only the buffer and the configuration of `s` are used, not `s.dict`
    (`gsapParseW_dict`).  `none` = a bitset operation panicked. -/
def gsapParseW (s : Parser) (gw : GsapDW) (flags : Nat) : Option (GsapDW × Nat × Err × Block) :=
  if s.blockN = 0 then some (gw, 0, .empty, ⟨[], []⟩)
  else
    let w := s.buf.w
    let p := s.blockPrefix
    match (if w + s.blockN > gw.sa.size then gsapSortW gw s.buf.data w else some gw) with
    | none => none
    | some g1 =>
      let r := Parser.runGreedy ⟨probeW s.buf.cfg.windowSize s.minMatch⟩ (some g1) p w p.length flags
      match r.1 with
      | none => none
      | some g2 =>
        let g' := if flags % 2 = 1 ∧ r.2.2.1.seqs ≠ [] ∧ r.2.2.2 < p.length then { g2 with sa := #[] } else g2
        some (g', r.2.1 - w, .ok, r.2.2.1)

theorem gsapParseW_dict (s : Parser) (d : Dict) (gw : GsapDW) (flags : Nat) :
    gsapParseW { s with dict := d } gw flags = gsapParseW s gw flags := rfl

/-- **`Parse` on a state satisfying the GSAP state invariant** (`GsapW`, LzProofs/RunsGsap.lean: no
    suffix array, or the suffix array of a prefix `t` of the buffer with a rank array of `len(t)`
    entries marking only positions `< W`): with the bitset of bitset.go in place of the rank array
    no operation panics, `Parse` returns the same `n`, error and block, and the new dictionaries are
    related again. -/
theorem gsapParse_sim (s : Parser) (g : GsapD) (gw : GsapDW) (flags : Nat) (hd : s.dict = .gsap g)
    (hW : GsapW s g) (hw : s.buf.w ≤ s.buf.data.length) (hmm : 1 ≤ s.minMatch) (hG : GSim g gw) :
    ∃ g' gw', (s.parse flags).1.dict = .gsap g' ∧
      gsapParseW s gw flags = some (gw', (s.parse flags).2) ∧ GSim g' gw' := by
  by_cases hn : s.blockN = 0
  · rw [Parser.parse_empty s flags hn]
    refine ⟨g, gw, hd, ?_, hG⟩
    unfold gsapParseW
    rw [if_pos hn]
  obtain ⟨t, h1, h2, h3, h4⟩ := gsapW_block s g hn hw hW
  have hl := s.blockPrefix_length hw
  have hpre := blockPrefix_of_prefix s t h1 h2
  have hg1 : ∃ g1w, (if s.buf.w + s.blockN > gw.sa.size then gsapSortW gw s.buf.data s.buf.w
        else some gw) = some g1w ∧
      GSim (if s.buf.w + s.blockN > g.sa.size then gsapSort s.buf.data s.buf.w else g) g1w := by
    rw [hG.sa]
    by_cases hre : s.buf.w + s.blockN > g.sa.size
    · rw [if_pos hre, if_pos hre]
      exact gsapSort_sim gw hG.bits.1 s.buf.data s.buf.w hw
    · rw [if_neg hre, if_neg hre]
      exact ⟨gw, rfl, hG⟩
  obtain ⟨g1w, eg1, hG1⟩ := hg1
  rw [Parser.parse_gsap s flags g hd hn]
  unfold gsapParseW
  rw [if_neg hn]
  simp only []
  rw [eg1, hl, hpre]
  generalize (if s.buf.w + s.blockN > g.sa.size then gsapSort s.buf.data s.buf.w else g) = g1
    at h3 h4 hG1
  obtain ⟨gw2, eR, hG2⟩ := runGreedy_sim t (s.buf.w + s.blockN) s.buf.cfg.windowSize s.minMatch
    s.buf.w flags g1 g1w h3 h2 hmm (Nat.le_add_right _ _) h4 hG1
  simp only [eR]
  refine ⟨_, _, rfl, rfl, ?_⟩
  split
  · exact hG2.dropSA
  · exact hG2

/-- every rank array is represented by some word-level bitset (so the hypothesis `GSim g gw` of the
    theorems is satisfiable for every `g`) -/
theorem exists_bitsSim (bits : Array Bool) : ∃ w, BitsSim bits w := by
  obtain ⟨w, _, inv, hm⟩ := BitsetW.insert_members BitsetW.empty BitsetW.empty_inv (members bits)
  refine ⟨w, inv, ?_⟩
  rw [hm]
  apply BitsetW.sorted_ext (BitsetW.sorted_foldl_insertOne _ _ (BitsetW.members_sorted _))
    (members_sorted _)
  intro x
  rw [BitsetW.mem_foldl_insertOne, BitsetW.empty_members]
  simp

theorem exists_gSim (g : GsapD) : ∃ gw, GSim g gw := by
  obtain ⟨w, h⟩ := exists_bitsSim g.bits
  exact ⟨⟨g.sa, g.isa, w⟩, rfl, rfl, h⟩

/-- **end-to-end, reachable states**: take ANY state of a GSAP parser reachable from `NewParser` by
    `Write`, `ReadFrom`, `Parse` (any flags), `Parse(nil)`, `Shrink`, `Reset`, and ANY word-level
    bitset that stands for the same rank set as the rank array of the model (arbitrary capacity,
    offset and stale contents of the backing array).  Then the next `Parse` run with the Go bitset in
    place of the rank array does not panic in any bitset operation, sees the same neighbours at every
    probe and so returns the same `n`, error and block; the dictionaries are related afterwards. -/
theorem gsapParse_sim_reachable (raw : Cfg) (s0 : Parser) (h0 : newParser .GSAP raw = some s0)
    (ops : List POp) (flags : Nat) (g : GsapD) (gw : GsapDW) :
    let s := (runOps (s0, Ghost.init) ops).1
    s.dict = .gsap g → GSim g gw →
    ∃ g' gw', (s.parse flags).1.dict = .gsap g' ∧
      gsapParseW s gw flags = some (gw', (s.parse flags).2) ∧ GSim g' gw' := by
  intro s hd hG
  obtain ⟨⟨g0, hd0, hW⟩, hw, _, _, hmm⟩ := reachable_gsapWS raw s0 h0 ops
  have : g0 = g := by
    have := hd0.symm.trans hd
    simpa using this
  subst this
  exact gsapParse_sim _ g0 gw flags hd hW hw hmm hG

/-! ### whole histories -/

/-- what an operation returns that depends on the dictionary: the result of `Parse(&blk, flags)` -/
def outP (s : Parser) : POp → Option (Nat × Err × Block)
  | .parse flags => some (s.parse flags).2
  | _ => none

/-- the dictionary side of one operation of gsap.go, with the word-level bitset; `s` supplies the
    buffer and the configuration -/
def stepGW (s : Parser) (gw : GsapDW) : POp → Option (GsapDW × Option (Nat × Err × Block))
  | .parse flags =>
    match gsapParseW s gw flags with
    | some (gw', r) => some (gw', some r)
    | none => none
  | .shrink => some (if s.buf.shrink.2 = 0 then gw else gw.reset, none)     -- if delta > 0 { … clear() }
  | .reset data capExtra =>                                                   -- err == nil: … clear()
    some (if (s.buf.reset data capExtra).2 = .ok then gw.reset else gw, none)
  | _ => some (gw, none)

/-- all `Parse` results of a history, word-level bitset; `none` = a panic somewhere -/
def runGW (s : Parser) (gw : GsapDW) : List POp → Option (List (Option (Nat × Err × Block)))
  | [] => some []
  | op :: ops =>
    match stepGW s gw op with
    | none => none
    | some (gw', o) =>
      match runGW (stepP s op) gw' ops with
      | some os => some (o :: os)
      | none => none

/-- all `Parse` results of a history in the parser model -/
def runP (s : Parser) : List POp → List (Option (Nat × Err × Block))
  | [] => []
  | op :: ops => outP s op :: runP (stepP s op) ops

/-- one operation -/
theorem stepGW_sim (s : Parser) (g : GsapD) (gw : GsapDW) (op : POp) (hd : s.dict = .gsap g)
    (hW : GsapW s g) (hw : s.buf.w ≤ s.buf.data.length) (hmm : 1 ≤ s.minMatch) (hG : GSim g gw) :
    ∃ g' gw', (stepP s op).dict = .gsap g' ∧ stepGW s gw op = some (gw', outP s op) ∧
      GSim g' gw' := by
  cases op with
  | write p => exact ⟨g, gw, hd, rfl, hG⟩
  | readFrom r => exact ⟨g, gw, hd, rfl, hG⟩
  | parse flags =>
    obtain ⟨g', gw', a, b, c⟩ := gsapParse_sim s g gw flags hd hW hw hmm hG
    refine ⟨g', gw', a, ?_, c⟩
    simp only [stepGW, b, outP]
  | parseNil =>
    refine ⟨g, gw, ?_, rfl, hG⟩
    show s.parseNil.1.dict = _
    unfold Parser.parseNil
    simp only
    split
    · exact hd
    · simp only [hd]
  | shrink =>
    show ∃ g' gw', s.shrink.1.dict = _ ∧ _
    unfold Parser.shrink
    simp only [stepGW, outP]
    split
    · rename_i h
      exact ⟨g, gw, hd, rfl, hG⟩
    · rename_i h
      simp only [hd]
      exact ⟨GsapD.empty, gw.reset, rfl, rfl, hG.reset⟩
  | reset data capExtra =>
    show ∃ g' gw', (s.reset data capExtra).1.dict = _ ∧ _
    unfold Parser.reset
    simp only [stepGW, outP]
    split
    · rename_i h
      simp only [Parser.clearDict, hd]
      exact ⟨GsapD.empty, gw.reset, rfl, rfl, hG.reset⟩
    · rename_i h
      exact ⟨g, gw, hd, rfl, hG⟩

theorem runGW_sim {c : Cfg} {bc : BufCfg} (hS : Static .GSAP c bc) (ops : List POp) :
    ∀ (sg : Parser × Ghost) (g : GsapD) (gw : GsapDW), Inv .GSAP c bc sg → Room sg.1.buf →
      sg.1.dict = .gsap g → GsapW sg.1 g → GSim g gw →
      runGW sg.1 gw ops = some (runP sg.1 ops) := by
  induction ops with
  | nil => intro sg g gw _ _ _ _ _; rfl
  | cons op ops ih =>
    intro sg g gw h1 h2 hd hW hG
    have hmm : 1 ≤ sg.1.minMatch := by rw [minMatch_eq, h1.kind, h1.cfg]; exact hS.mm
    obtain ⟨g', gw', a, b, c⟩ := stepGW_sim sg.1 g gw op hd hW h1.hw hmm hG
    obtain ⟨g'', hd'', hW''⟩ := gsapWS_stepP sg.1 op h1.hw hmm ⟨g, hd, hW⟩
    have : g'' = g' := by
      have := hd''.symm.trans a
      simpa using this
    subst this
    have h3 := ih (step sg op) g'' gw' (step_inv hS sg h1 op)
      (by rw [step_fst]; exact room_stepP sg.1 op h2) (by rw [step_fst]; exact a)
      (by rw [step_fst]; exact hW'') c
    rw [step_fst] at h3
    simp only [runGW, runP, b, h3]

/-- **end-to-end, histories**: for every accepted GSAP configuration and every history of
    operations on the fresh parser, gsap.go run with the bitset of bitset.go (word level: backing
    array, capacity reuse, stale words) never panics in a bitset operation and every
    `Parse(&blk, flags)` returns exactly the `n`, error and block the parser model with the
    `Array Bool` rank set returns. -/
theorem gsapHistory_sim (raw : Cfg) (s0 : Parser) (h0 : newParser .GSAP raw = some s0)
    (ops : List POp) : runGW s0 GsapDW.empty ops = some (runP s0 ops) := by
  obtain ⟨hi, hmm, hbs⟩ := newParser_inv .GSAP raw s0 h0
  exact runGW_sim ⟨hmm, hbs, histHyp_of_ne .GSAP s0 (by decide)⟩ ops (s0, Ghost.init)
    GsapD.empty GsapDW.empty hi (newParser_room h0) (Sap.newParser_gsap_dict raw s0 h0)
    (Or.inl rfl) GSim.empty

/-! ## 8. non-vacuity -/

section Examples

/-- the rank array of the example in GsapProps -/
def exBits : Array Bool := #[true, false, true, false, false, true, false]

/-- a word-level bitset for the same set whose backing array is full of stale words behind
    `len(a) = 1` -/
def exW : BitsetW := { backing := #[0b100101, 0xffffffffffffffff, 0xdeadbeef], len := 1, off := 0 }

/-- the set `{65, 67}` with a zero word in front … -/
def exW2 : BitsetW := { backing := #[0, 10, 0xffffffffffffffff], len := 2, off := 0 }
/-- … and with the offset 1 instead (`a` starts at word 1), a stale word behind … -/
def exW3 : BitsetW := { backing := #[10, 0xffffffffffffffff], len := 1, off := 1 }
/-- … against a rank array of 68 entries -/
def exBits2 : Array Bool := ((Array.replicate 68 false).setIfInBounds 65 true).setIfInBounds 67 true

example : members exBits = [0, 2, 5] := by decide
example : BitsSim exBits exW := ⟨by decide, by decide⟩
set_option maxRecDepth 8000 in
example : BitsSim exBits2 exW2 ∧ BitsSim exBits2 exW3 := ⟨⟨by decide, by decide⟩, ⟨by decide, by decide⟩⟩

/-- "largest member LESS than `j`": 2 and 5 are members, `before 5 = 2`, `before 2 = 0` — no
    off-by-one between the three descriptions; likewise `after` is strict -/
example : memberBefore exBits 5 = some 2 ∧ exW.memberBefore 5 = some 2 ∧
    (toM exBits).memberBefore 5 = some 2 ∧
    memberBefore exBits 2 = some 0 ∧ exW.memberBefore 2 = some 0 ∧ memberBefore exBits 0 = none ∧
    exW.memberBefore 0 = none ∧
    memberAfter exBits 2 = some 5 ∧ exW.memberAfter 2 = some 5 ∧ (toM exBits).memberAfter 2 = some 5 ∧
    memberAfter exBits 5 = none ∧ exW.memberAfter 5 = none ∧
    memberBefore exBits 100 = some 5 ∧ exW.memberBefore 100 = some 5 := by decide

set_option maxRecDepth 8000 in
example : memberBefore exBits2 67 = some 65 ∧ exW2.memberBefore 67 = some 65 ∧
    exW3.memberBefore 67 = some 65 ∧
    memberAfter exBits2 3 = some 65 ∧ exW2.memberAfter 3 = some 65 ∧ exW3.memberAfter 3 = some 65 ∧
    memberBefore exBits2 65 = none ∧ exW2.memberBefore 65 = none ∧ exW3.memberBefore 65 = none ∧
    memberAfter exBits2 65 = some 67 ∧ exW3.memberAfter 65 = some 67 := by decide

/-- insert inside the array: both sides gain the member … -/
example : members (exBits.setIfInBounds 3 true) = [0, 2, 3, 5] ∧
    (exW.insert [3]).map BitsetW.members = some [0, 2, 3, 5] ∧
    ((toM exBits).insert [3]).map (·.members) = some [0, 2, 3, 5] := by decide

/-- … outside the array (`7 = bits.size`) the parser model drops it and the bitset keeps it: the
    hypothesis `j < bits.size` of `members_set` / `BitsSim.insert` is necessary -/
example : members (exBits.setIfInBounds 7 true) = [0, 2, 5] ∧
    (exW.insert [7]).map BitsetW.members = some [0, 2, 5, 7] := by decide

/-- growth beyond the first word reuses the stale backing array and zeroes it -/
example : (exW.insert [100]).map BitsetW.members = some [0, 2, 5, 100] ∧
    (exW.insert [100]).map (·.cap) = some 3 := by decide

example : insertRanks #[3, 1, 0, 2] #[false, false, false, false] 1 2 = #[true, true, false, false] ∧
    (insertRanksW #[3, 1, 0, 2] exW.clear 1 2).map BitsetW.members = some [0, 1] ∧
    rankList #[3, 1, 0, 2] 1 2 = [1, 0] := by decide

/-- `clear` on a bitset with stale contents against the fresh rank array -/
example : BitsSim (Array.replicate 5 false) exW.clear := ⟨by decide, by decide⟩

/-- probes at the positions `l`, dictionary threaded through (parser model) -/
def probeSeq (ws mm : Nat) (p : List Byte) : List Nat → GsapD → List (Option (Nat × Nat × Nat))
  | [], _ => []
  | i :: l, g => (gsapProbe ws mm g p i 0).2 :: probeSeq ws mm p l (gsapProbe ws mm g p i 0).1

/-- the same over the word-level bitset -/
def probeSeqW (ws mm : Nat) (p : List Byte) : List Nat → GsapDW → Option (List (Option (Nat × Nat × Nat)))
  | [], _ => some []
  | i :: l, g =>
    match gsapProbeW ws mm g p i 0 with
    | none => none
    | some (g', r) => (probeSeqW ws mm p l g').map (r :: ·)

/-- `"xabab"` (suffix array `[3,1,4,2,0]`, see GsapLoop): the word-level dictionary starts from a
    cleared bitset with stale words; the four probes answer alike, the last one finds the match
    `(3, 2, 2)` through `memberAfter(0) = 1` -/
def xababW : GsapDW := ⟨#[3, 1, 4, 2, 0], #[4, 1, 3, 0, 2], exW.clear⟩

example : GSim Sap.xababG xababW := ⟨rfl, rfl, by decide, by decide⟩

example : probeSeq 8 2 Sap.xabab [0, 1, 2, 3] Sap.xababG = [none, none, none, some (3, 2, 2)] ∧
    probeSeqW 8 2 Sap.xabab [0, 1, 2, 3] xababW = some [none, none, none, some (3, 2, 2)] := by
  decide

/-- the instance of `gsapProbe_sim_saok` for the first probe -/
example : ∃ gw', gsapProbeW 8 2 xababW Sap.xabab 0 0 =
      some (gw', (gsapProbe 8 2 Sap.xababG Sap.xabab 0 0).2) ∧
    GSim (gsapProbe 8 2 Sap.xababG Sap.xabab 0 0).1 gw' :=
  gsapProbe_sim_saok (t := Sap.xabab) 8 2 Sap.xabab 0 0 ⟨rfl, rfl, by decide, by decide⟩
    ⟨by decide, by decide, by decide, by unfold Sap.LexSorted; decide⟩ (by decide) (by decide)
    (by decide)

/-- `sort()` on `"xabab"` with window head 3, on a dictionary with a dirty bitset: instance of
    `gsapSort_sim`, and the values (evaluated: `saSpec` sorts by well-founded recursion) -/
example : ∃ gw', gsapSortW xababW Sap.xabab 3 = some gw' ∧ GSim (gsapSort Sap.xabab 3) gw' :=
  gsapSort_sim xababW (by decide) Sap.xabab 3 (by decide)

#guard (gsapSortW xababW Sap.xabab 3).map (fun g => (g.sa, g.isa, g.bits.members)) ==
    some (#[3, 1, 4, 2, 0], #[4, 1, 3, 0, 2], [1, 3, 4])
#guard members (gsapSort Sap.xabab 3).bits == [1, 3, 4]

/-- the history theorem instantiated: configuration `runCfg` (WindowSize 64 = BufferSize,
    BlockSize 32), a history with `Parse(nil)`, `Shrink`, `Reset` and truncated blocks -/
def histEx : List POp :=
  gsapOpsEx ++ [.parse 0, .parse 1, .shrink, .write (List.replicate 20 97), .parse 1,
    .reset [120, 97, 98, 97, 98, 97, 98] 0, .parse 0]

example : runGW (runS0 .GSAP) GsapDW.empty histEx = some (runP (runS0 .GSAP) histEx) :=
  gsapHistory_sim runCfg _ (runS0_new .GSAP (by decide)) histEx

-- evaluated (a test, not a theorem: `greedyLoop` is defined by well-founded recursion)
-- `(n, number of sequences, number of literals)` of every `Parse`
#guard (runGW (runS0 .GSAP) GsapDW.empty histEx).map
    (·.map fun o => o.map fun r => (r.1, r.2.2.seqs.length, r.2.2.lits.length)) ==
  some [none, none, none, some (32, 1, 1), some (8, 1, 0), none, none, some (20, 1, 0), none,
    some (7, 1, 3)]
#guard (runP (runS0 .GSAP) histEx).map
    (fun o => o.map fun r => (r.1, r.2.2.seqs.length, r.2.2.lits.length)) ==
  [none, none, none, some (32, 1, 1), some (8, 1, 0), none, none, some (20, 1, 0), none,
    some (7, 1, 3)]

end Examples

#print axioms getD_iff_mem
#print axioms members_sorted
#print axioms memberBefore_eq
#print axioms memberAfter_eq
#print axioms members_set
#print axioms toM_set
#print axioms set_out_of_range_differs
#print axioms members_insertRanks
#print axioms toM_insertRanks
#print axioms toM_insertRanks_seq
#print axioms toM_gsapSort
#print axioms bitsSim_iff
#print axioms BitsSim.refines
#print axioms BitsSim.before
#print axioms BitsSim.after
#print axioms BitsSim.insert
#print axioms BitsSim.clear
#print axioms BitsSim.insertRanks
#print axioms candW_eq
#print axioms gsapProbe_sim
#print axioms gsapProbe_sim_saok
#print axioms gsapSort_sim
#print axioms greedyLoop_rel
#print axioms gsapLoop_sim
#print axioms runGreedy_sim
#print axioms gsapParse_sim
#print axioms exists_gSim
#print axioms gsapParse_sim_reachable
#print axioms stepGW_sim
#print axioms gsapHistory_sim

end GsapBits
end LZ
