/-
  LzProofs.GenHashPropsBase — lemmas over the third prelude of the translator (`Gen.GSlice`,
  `Gen.Slice.set`, `Gen.shiftCount`; LzModel/Generated/CodeGSlicePrelude.lean) that the hash
  table theorems (GenHashProps, GenHashPropsDict, GenHashPropsBucket) share.  It imports no
  translated function.

  The translated `for i[, e] := range P { … P[i] = f(e) … }` loops all have the same effect: the
  elements `[i, i+n)` of the backing array are replaced by their image under some `f`.  `mapLoop`
  is that effect as a function on lists; `mapLoop_getElem?` / `mapLoop_take` characterise it.  The
  per-loop lemmas of the other modules only show "generated loop = mapLoop f" by a three-line
  induction (unfold, `gset_ok`/`gindex_ok`, induction hypothesis).
-/
import LzModel.Generated.CodeGSlicePrelude
import LzProofs.GenBufPropsBase

set_option linter.unusedSimpArgs false
set_option linter.unusedVariables false

namespace LZ.GenHash
open LZ LZ.Gen LZ.GenBuf

/-- representation invariant of a slice value: the length does not exceed the capacity -/
def GWF {α : Type} (s : GSlice α) : Prop := s.len ≤ s.arr.length

theorem gdata_length {α : Type} {s : GSlice α} (h : GWF s) : s.data.length = s.len := by
  unfold GSlice.data; unfold GWF at h; simp [List.length_take]; omega

theorem gset_ok {α : Type} (s : GSlice α) (k : Int) (i : Nat) (hk : k = (i : Int)) (hi : i < s.len) (v : α) :
    GSlice.set s k v = Res.ok { s with arr := s.arr.set i v } := by
  subst hk
  unfold GSlice.set
  have : (0 : Int) ≤ (i : Int) ∧ (i : Int) < Int.ofNat s.len := by
    refine ⟨by omega, ?_⟩; show (i : Int) < (s.len : Int); omega
  simp only [this, and_self, if_true, Int.toNat_natCast]

theorem gindex_ok {α : Type} (z : α) (s : GSlice α) (k : Int) (i : Nat) (hk : k = (i : Int)) (hi : i < s.len) :
    GSlice.index z s k = Res.ok ((s.arr[i]?).getD z) := by
  subst hk
  unfold GSlice.index
  have : (0 : Int) ≤ (i : Int) ∧ (i : Int) < Int.ofNat s.len := by
    refine ⟨by omega, ?_⟩; show (i : Int) < (s.len : Int); omega
  simp only [this, and_self, if_true, Int.toNat_natCast, List.getD_eq_getElem?_getD]

theorem gslice_ok {α : Type} (s : GSlice α) (a b : Int) (i j : Nat) (ha : a = (i : Int)) (hb : b = (j : Int))
    (hij : i ≤ j) (hj : j ≤ s.arr.length) :
    GSlice.slice s a b = Res.ok { arr := s.arr.drop i, len := j - i } := by
  subst ha hb
  unfold GSlice.slice GSlice.cap
  have : (0 : Int) ≤ i ∧ (i : Int) ≤ j ∧ (j : Int) ≤ Int.ofNat s.arr.length := by
    refine ⟨by omega, by omega, ?_⟩
    show (j : Int) ≤ (s.arr.length : Int); omega
  simp only [this, and_self, if_true, Int.toNat_natCast]

theorem gmake_ok {α : Type} (z : α) (a b : Int) (n c : Nat) (ha : a = (n : Int)) (hb : b = (c : Int)) (hnc : n ≤ c) :
    GSlice.make z a b = Res.ok { arr := List.replicate c z, len := n } := by
  subst ha hb
  unfold GSlice.make
  have : (0 : Int) ≤ (n : Int) ∧ (n : Int) ≤ (c : Int) := ⟨by omega, by omega⟩
  simp only [this, and_self, if_true, Int.toNat_natCast]

/-- `make` in the form that does not fix how the capacity is written in the source -/
theorem gmake_eq {α : Type} (z : α) (a b : Int) (h : 0 ≤ a ∧ a ≤ b) :
    GSlice.make z a b = Res.ok { arr := List.replicate b.toNat z, len := a.toNat } := by
  unfold GSlice.make
  simp only [h, and_self, if_true]

theorem bset_ok (s : Slice) (k : Int) (i : Nat) (hk : k = (i : Int)) (hi : i < s.len) (v : UInt8) :
    Slice.set s k v = Res.ok { s with arr := s.arr.set i v } := by
  subst hk
  unfold Slice.set
  have : (0 : Int) ≤ (i : Int) ∧ (i : Int) < Int.ofNat s.len := by
    refine ⟨by omega, ?_⟩; show (i : Int) < (s.len : Int); omega
  simp only [this, and_self, if_true, Int.toNat_natCast]

theorem shiftCount_ok (k : Int) (h : 0 ≤ k) : shiftCount k = Res.ok k.toNat := by
  unfold shiftCount; simp only [h, if_true]

theorem shiftCount_panic (k : Int) (h : k < 0) : shiftCount k = Res.panic := by
  unfold shiftCount
  have : ¬ (0 ≤ k) := by omega
  simp only [this, if_false]

/-! ## `clear(s)` / a zeroing `range` loop (the translator writes both as `GSlice.clear` / `Slice.clear`) -/

@[simp] theorem gclear_len {α : Type} (z : α) (s : GSlice α) : (GSlice.clear z s).len = s.len := by
  unfold GSlice.clear; rfl

theorem gclear_arr_length {α : Type} (z : α) (s : GSlice α) (h : GWF s) :
    (GSlice.clear z s).arr.length = s.arr.length := by
  unfold GWF at h
  unfold GSlice.clear
  simp only [List.length_append, List.length_replicate, List.length_drop]
  omega

theorem gclear_cap {α : Type} (z : α) (s : GSlice α) (h : GWF s) : (GSlice.clear z s).cap = s.cap := by
  unfold GSlice.cap; exact gclear_arr_length z s h

theorem gclear_wf {α : Type} (z : α) (s : GSlice α) (h : GWF s) : GWF (GSlice.clear z s) := by
  unfold GWF
  rw [gclear_arr_length z s h, gclear_len]
  exact h

/-- the elements after `clear` -/
theorem gclear_data {α : Type} (z : α) (s : GSlice α) (h : GWF s) :
    (GSlice.clear z s).data = List.replicate s.len z := by
  unfold GWF at h
  unfold GSlice.data GSlice.clear
  have hm : min s.len s.arr.length = s.len := by omega
  simp only [hm]
  rw [List.take_append_of_le_length (by simp only [List.length_replicate]; omega)]
  simp only [List.take_replicate, Nat.min_self]

/-- the part of the backing array behind the length is kept -/
theorem gclear_drop {α : Type} (z : α) (s : GSlice α) (h : GWF s) :
    (GSlice.clear z s).arr.drop s.len = s.arr.drop s.len := by
  unfold GWF at h
  unfold GSlice.clear
  have hm : min s.len s.arr.length = s.len := by omega
  simp only [hm]
  rw [List.drop_append_of_le_length (by simp only [List.length_replicate]; omega)]
  simp only [List.drop_replicate, Nat.sub_self, List.replicate_zero, List.nil_append]

@[simp] theorem bclear_len (s : Slice) : (Slice.clear s).len = s.len := by
  unfold Slice.clear; rfl

theorem bclear_arr_length (s : Slice) (h : SWF s) : (Slice.clear s).arr.length = s.arr.length := by
  unfold SWF at h
  unfold Slice.clear
  simp only [List.length_append, List.length_replicate, List.length_drop]
  omega

theorem bclear_wf (s : Slice) (h : SWF s) : SWF (Slice.clear s) := by
  unfold SWF
  rw [bclear_arr_length s h, bclear_len]
  exact h

theorem bclear_data (s : Slice) (h : SWF s) : (Slice.clear s).data = List.replicate s.len 0 := by
  unfold SWF at h
  unfold Slice.data Slice.clear
  have hm : min s.len s.arr.length = s.len := by omega
  simp only [hm]
  rw [List.take_append_of_le_length (by simp only [List.length_replicate]; omega)]
  simp only [List.take_replicate, Nat.min_self]

theorem bclear_drop (s : Slice) (h : SWF s) : (Slice.clear s).arr.drop s.len = s.arr.drop s.len := by
  unfold SWF at h
  unfold Slice.clear
  have hm : min s.len s.arr.length = s.len := by omega
  simp only [hm]
  rw [List.drop_append_of_le_length (by simp only [List.length_replicate]; omega)]
  simp only [List.drop_replicate, Nat.sub_self, List.replicate_zero, List.nil_append]

/-! ## the effect of a `range` loop that rewrites the elements in place -/

/-- elements `i, i+1, …, i+n-1` of `l` are replaced, in this order, by their image under `f` -/
def mapLoop {α : Type} (f : α → α) (z : α) : Nat → Nat → List α → List α
  | 0, _, l => l
  | n + 1, i, l => mapLoop f z n (i + 1) (l.set i (f ((l[i]?).getD z)))

theorem mapLoop_length {α : Type} (f : α → α) (z : α) (n i : Nat) (l : List α) :
    (mapLoop f z n i l).length = l.length := by
  induction n generalizing i l with
  | zero => rfl
  | succ n ih => simp only [mapLoop, ih, List.length_set]

theorem mapLoop_getElem? {α : Type} (f : α → α) (z : α) (n i : Nat) (l : List α) (h : i + n ≤ l.length) (j : Nat) :
    (mapLoop f z n i l)[j]? = if i ≤ j ∧ j < i + n then (l[j]?).map f else l[j]? := by
  induction n generalizing i l with
  | zero =>
    have : ¬ (i ≤ j ∧ j < i + 0) := by omega
    simp only [mapLoop, this, if_false]
  | succ n ih =>
    have hi : i < l.length := by omega
    simp only [mapLoop]
    rw [ih (i + 1) _ (by simp only [List.length_set]; omega)]
    simp only [List.getElem?_set, hi, if_true]
    by_cases hj : i = j
    · subst hj
      have h1 : ¬ (i + 1 ≤ i ∧ i < i + 1 + n) := by omega
      have h2 : i ≤ i ∧ i < i + (n + 1) := by omega
      simp only [h1, h2, if_false, if_true, and_self, List.getElem?_eq_getElem hi, Option.getD_some, Option.map_some]
    · simp only [hj, if_false]
      by_cases hc : i + 1 ≤ j ∧ j < i + 1 + n
      · have : i ≤ j ∧ j < i + (n + 1) := by omega
        simp only [hc, this, and_self, if_true]
      · have : ¬ (i ≤ j ∧ j < i + (n + 1)) := by omega
        simp only [hc, this, if_false]

/-- the whole slice: the first `n` elements are mapped, the rest of the array is kept -/
theorem mapLoop_take {α : Type} (f : α → α) (z : α) (n : Nat) (l : List α) (h : n ≤ l.length) :
    (mapLoop f z n 0 l).take n = (l.take n).map f := by
  apply List.ext_getElem?
  intro j
  simp only [List.getElem?_take, List.getElem?_map]
  by_cases hj : j < n
  · have : 0 ≤ j ∧ j < 0 + n := by omega
    simp only [hj, if_true, mapLoop_getElem? f z n 0 l (by omega) j, this, and_self]
  · simp only [hj, if_false, Option.map_none]

theorem mapLoop_drop {α : Type} (f : α → α) (z : α) (n : Nat) (l : List α) (h : n ≤ l.length) :
    (mapLoop f z n 0 l).drop n = l.drop n := by
  apply List.ext_getElem?
  intro j
  simp only [List.getElem?_drop]
  have : ¬ (0 ≤ n + j ∧ n + j < 0 + n) := by omega
  simp only [mapLoop_getElem? f z n 0 l (by omega) (n + j), this, if_false]

/-- a constant `f`: the result does not depend on what was there -/
theorem map_const_replicate {α β : Type} (l : List α) (c : β) : l.map (fun _ => c) = List.replicate l.length c := by
  induction l with
  | nil => rfl
  | cons a l ih => simp only [List.map_cons, ih, List.length_cons, List.replicate_succ]

end LZ.GenHash
